/-
Lane model of the x86 SSE2 / SSE4.1 intrinsics used by `src/rust_sse41.rs`.

THIS FILE IS TRUSTED: it is the statement of what the hardware instructions do.  It is kept small;
every definition carries the pseudo-code of the Intel Intrinsics Guide it transcribes.  The model
is validated at run time by `B3/Simd/Run.lean` (the generated kernels, evaluated with these
definitions, are compared with the real crate running on the CPU).

A 128-bit register (`__m128i`, and `__m128` viewed through the `_mm_cast*` no-op casts) is a vector
of four 32-bit lanes, lane 0 = bits 31:0 (the lowest address when stored to memory, x86 being
little-endian).  `i32` lanes are represented by their bit patterns (`UInt32`): `x as i32` from a
`u32` is a reinterpretation, so the translator drops it.

Every lane of a result is written out explicitly so that `(f a b)[k]` on symbolic `a b` reduces by
`rfl`; immediates are `Nat` literals in the generated code, so the selectors evaluate in the kernel.
-/
import B3.Prim
namespace B3.Simd
open B3

/-- `__m128i` as four 32-bit lanes; lane 0 = bits 31:0 -/
abbrev V4 := Vector UInt32 4

/-! ### arithmetic and logic -/

/-- `FOR j := 0 to 3: i := j*32; dst[i+31:i] := a[i+31:i] + b[i+31:i]` (wrapping) -/
def _mm_add_epi32 (a b : V4) : V4 := #v[a[0] + b[0], a[1] + b[1], a[2] + b[2], a[3] + b[3]]

/-- `dst[127:0] := (a[127:0] XOR b[127:0])` -/
def _mm_xor_si128 (a b : V4) : V4 := #v[a[0] ^^^ b[0], a[1] ^^^ b[1], a[2] ^^^ b[2], a[3] ^^^ b[3]]

/-- `dst[127:0] := (a[127:0] OR b[127:0])` -/
def _mm_or_si128 (a b : V4) : V4 := #v[a[0] ||| b[0], a[1] ||| b[1], a[2] ||| b[2], a[3] ||| b[3]]

/-- one lane of a logical right shift by an immediate:
`IF imm8[7:0] > 31 THEN 0 ELSE ZeroExtend32(x >> imm8[7:0])` -/
def srl32 (x : UInt32) (imm8 : Nat) : UInt32 :=
  if imm8 % 256 > 31 then 0 else x >>> UInt32.ofNat (imm8 % 256)

/-- one lane of a left shift by an immediate:
`IF imm8[7:0] > 31 THEN 0 ELSE ZeroExtend32(x << imm8[7:0])` -/
def sll32 (x : UInt32) (imm8 : Nat) : UInt32 :=
  if imm8 % 256 > 31 then 0 else x <<< UInt32.ofNat (imm8 % 256)

/-- `FOR j := 0 to 3: dst.dword[j] := imm8[7:0] > 31 ? 0 : ZeroExtend32(a.dword[j] >> imm8[7:0])` -/
def _mm_srli_epi32 (a : V4) (imm8 : Nat) : V4 :=
  #v[srl32 a[0] imm8, srl32 a[1] imm8, srl32 a[2] imm8, srl32 a[3] imm8]

/-- `FOR j := 0 to 3: dst.dword[j] := imm8[7:0] > 31 ? 0 : ZeroExtend32(a.dword[j] << imm8[7:0])` -/
def _mm_slli_epi32 (a : V4) (imm8 : Nat) : V4 :=
  #v[sll32 a[0] imm8, sll32 a[1] imm8, sll32 a[2] imm8, sll32 a[3] imm8]

/-! ### set -/

/-- `FOR j := 0 to 3: dst.dword[j] := a` -/
def _mm_set1_epi32 (a : UInt32) : V4 := #v[a, a, a, a]

/-- `dst[31:0] := e3; dst[63:32] := e2; dst[95:64] := e1; dst[127:96] := e0`
(the Intel guide names the *first* argument of `setr` `e3`; it goes to the lowest lane) -/
def _mm_setr_epi32 (e3 e2 e1 e0 : UInt32) : V4 := #v[e3, e2, e1, e0]

/-! ### shuffles -/

/-- `SELECT4(src, control)`:
`CASE control[1:0] OF 0: src[31:0]; 1: src[63:32]; 2: src[95:64]; 3: src[127:96]` -/
def select4 (src : V4) (control : Nat) : UInt32 :=
  match control &&& 3 with
  | 0 => src[0]
  | 1 => src[1]
  | 2 => src[2]
  | _ => src[3]

/-- `dst[31:0] := SELECT4(a, imm8[1:0]); dst[63:32] := SELECT4(a, imm8[3:2]);
dst[95:64] := SELECT4(a, imm8[5:4]); dst[127:96] := SELECT4(a, imm8[7:6])` -/
def _mm_shuffle_epi32 (a : V4) (imm8 : Nat) : V4 :=
  #v[select4 a imm8, select4 a (imm8 >>> 2), select4 a (imm8 >>> 4), select4 a (imm8 >>> 6)]

/-- `dst[31:0] := SELECT4(a, imm8[1:0]); dst[63:32] := SELECT4(a, imm8[3:2]);
dst[95:64] := SELECT4(b, imm8[5:4]); dst[127:96] := SELECT4(b, imm8[7:6])` -/
def _mm_shuffle_ps (a b : V4) (imm8 : Nat) : V4 :=
  #v[select4 a imm8, select4 a (imm8 >>> 2), select4 b (imm8 >>> 4), select4 b (imm8 >>> 6)]

/-- `_mm_castsi128_ps`, `_mm_castps_si128`: "This intrinsic is only used for compilation and does
not generate any instructions, thus it has zero latency" -- the 128 bits are unchanged -/
def _mm_castsi128_ps (a : V4) : V4 := a
def _mm_castps_si128 (a : V4) : V4 := a

/-- One 32-bit lane of `_mm_blend_epi16`: `lo` = the immediate bit of the lane's low 16-bit word,
`hi` = the bit of its high 16-bit word (`IF imm8[j] THEN b.word[j] ELSE a.word[j]`).  The two
cases in which both halves come from the same source are written without masks so that they
reduce to `a` / `b`; `blend16_eq_masks` below shows that this is the uniform mask formula. -/
def blend16 (lo hi : Bool) (a b : UInt32) : UInt32 :=
  match lo, hi with
  | false, false => a
  | true, true => b
  | true, false => (b &&& 0x0000FFFF) ||| (a &&& 0xFFFF0000)
  | false, true => (a &&& 0x0000FFFF) ||| (b &&& 0xFFFF0000)

/-- `FOR j := 0 to 7: i := j*16; dst[i+15:i] := imm8[j] ? b[i+15:i] : a[i+15:i]` -/
def _mm_blend_epi16 (a b : V4) (imm8 : Nat) : V4 :=
  #v[blend16 (imm8.testBit 0) (imm8.testBit 1) a[0] b[0],
     blend16 (imm8.testBit 2) (imm8.testBit 3) a[1] b[1],
     blend16 (imm8.testBit 4) (imm8.testBit 5) a[2] b[2],
     blend16 (imm8.testBit 6) (imm8.testBit 7) a[3] b[3]]

/-- `dst[31:0] := a[31:0]; dst[63:32] := b[31:0]; dst[95:64] := a[63:32]; dst[127:96] := b[63:32]` -/
def _mm_unpacklo_epi32 (a b : V4) : V4 := #v[a[0], b[0], a[1], b[1]]

/-- `dst[31:0] := a[95:64]; dst[63:32] := b[95:64]; dst[95:64] := a[127:96]; dst[127:96] := b[127:96]` -/
def _mm_unpackhi_epi32 (a b : V4) : V4 := #v[a[2], b[2], a[3], b[3]]

/-- `dst[63:0] := a[63:0]; dst[127:64] := b[63:0]` -/
def _mm_unpacklo_epi64 (a b : V4) : V4 := #v[a[0], a[1], b[0], b[1]]

/-- `dst[63:0] := a[127:64]; dst[127:64] := b[127:64]` -/
def _mm_unpackhi_epi64 (a b : V4) : V4 := #v[a[2], a[3], b[2], b[3]]

/-! ### memory

Two views of memory are used by the translator.

* A Rust array whose size is known statically (`&CVWords = &[u32; 8]`, `&[u8; 64]`,
  `&mut [u8; 128]`) is a vector of little-endian 32-bit words, as everywhere else in this project
  (`St` = the 64 bytes of a block as 16 words).  A 16-byte unaligned load/store at a constant byte
  offset that is a multiple of 4 reads/writes four consecutive words; the translator refuses any
  other offset.
* A raw `*const u8` (the input pointers of `hash4`) is byte-addressed memory `Mem = Nat → UInt8`,
  address 0 = the pointer; a 16-byte load at byte offset `o` assembles four little-endian words.
-/

/-- `_mm_loadu_si128(p)` where `p` points at word `k` of a word array: `dst[127:0] := MEM[p+127:p]` -/
def loadu_words {n : Nat} (v : Vector UInt32 n) (k : Nat) (h : k + 3 < n := by decide) : V4 :=
  #v[v[k], v[k + 1], v[k + 2], v[k + 3]]

/-- `_mm_storeu_si128(p, a)` where `p` points at word `k` of a word array: `MEM[p+127:p] := a[127:0]` -/
def storeu_words {n : Nat} (a : V4) (v : Vector UInt32 n) (k : Nat) (h : k + 3 < n := by decide) :
    Vector UInt32 n :=
  (((v.set k a[0]).set (k + 1) a[1]).set (k + 2) a[2]).set (k + 3) a[3]

/-- byte-addressed memory seen through a raw pointer (offset 0 = the pointer) -/
abbrev Mem := Nat → UInt8

/-- the little-endian 32-bit word at byte offset `o` -/
def Mem.word (p : Mem) (o : Nat) : UInt32 := le32 (p o) (p (o + 1)) (p (o + 2)) (p (o + 3))

/-- `_mm_loadu_si128(p.add(o))` for a raw byte pointer: `dst[127:0] := MEM[p+o+127 : p+o]` -/
def loadu_mem (p : Mem) (o : Nat) : V4 := #v[p.word o, p.word (o + 4), p.word (o + 8), p.word (o + 12)]

/-- `core::mem::transmute::<[__m128i; 4], [u8; 64]>`: the 64 bytes in memory order, i.e. (as
little-endian words) the lanes of the four registers in order -/
def transmute_m128x4 (r : Vector V4 4) : St :=
  #v[r[0][0], r[0][1], r[0][2], r[0][3], r[1][0], r[1][1], r[1][2], r[1][3],
     r[2][0], r[2][1], r[2][2], r[2][3], r[3][0], r[3][1], r[3][2], r[3][3]]

/-! ### generic helpers for `mut_array_refs!` (consecutive sub-arrays of an array) -/

/-- the sub-array `v[o .. o+4]` -/
def slice4 {α : Type} {n : Nat} (v : Vector α n) (o : Nat) (h : o + 3 < n := by decide) : Vector α 4 :=
  #v[v[o], v[o + 1], v[o + 2], v[o + 3]]

/-- write back the sub-array `v[o .. o+4]` -/
def setSlice4 {α : Type} {n : Nat} (v : Vector α n) (o : Nat) (w : Vector α 4) (h : o + 3 < n := by decide) :
    Vector α n :=
  (((v.set o w[0]).set (o + 1) w[1]).set (o + 2) w[2]).set (o + 3) w[3]

/-! ### slices and loops (`hash1`, `hash_many`)

* `&[u8; N]` with a const generic `N`, and a `&[u8]` cut from it, is a `List UInt8` (the bytes).
* `&[&[u8; N]]` is a `List (List UInt8)`.
* `&mut [u8]` (which `hash_many` re-slices while writing through it) is a window `MutSlice` into an
  underlying buffer; what the caller observes afterwards is `buf`.
* `while c { S }` is `whileFuel fuel c S`: at most `fuel` iterations.  The translator picks
  `fuel = (length of the slice tested by c) + 1`; the theorems about the loops prove that the loop
  condition is false when `whileFuel` returns, i.e. that the bound was not what stopped it.
-/

/-- the memory behind a pointer to the first byte of `bs`; reads outside are `0` (the real code never
reads there, and the theorems only use reads inside) -/
def memOf (bs : List UInt8) : Mem := fun i => bs.getD i 0

/-- `&*(inputs.as_ptr() as *const [*const u8; 4])`: the first four references of a slice of array
references, as raw pointers -/
def ptrs4 (inputs : List (List UInt8)) : Vector Mem 4 :=
  #v[memOf (inputs.getD 0 []), memOf (inputs.getD 1 []), memOf (inputs.getD 2 []), memOf (inputs.getD 3 [])]

/-- `array_ref!(slice, o, 4*n)` as little-endian words -/
def arrayRefWords (n : Nat) (slice : List UInt8) (o : Nat) : Vector UInt32 n :=
  wordsOfBytes n ((slice.drop o).take (4 * n))

/-- a mutable byte slice: bytes `off .. off+len` of `buf` -/
structure MutSlice where
  buf : List UInt8
  off : Nat
  len : Nat

/-- the whole of a buffer -/
def MutSlice.ofList (l : List UInt8) : MutSlice := ⟨l, 0, l.length⟩

/-- `&mut s[k..]` (panics in Rust if `k > len`) -/
def MutSlice.from (s : MutSlice) (k : Nat) : MutSlice := ⟨s.buf, s.off + k, s.len - k⟩

/-- chunk `k` of `s.chunks_exact_mut(size)` -/
def MutSlice.chunk (s : MutSlice) (size k : Nat) : MutSlice := ⟨s.buf, s.off + size * k, size⟩

/-- after writing through a sub-slice `t` of `s`, `s` sees the new buffer -/
def MutSlice.merge (s t : MutSlice) : MutSlice := ⟨t.buf, s.off, s.len⟩

/-- `array_mut_ref!(s, o, 4*n)` read as little-endian words -/
def MutSlice.readWords (s : MutSlice) (o n : Nat) : Vector UInt32 n :=
  wordsOfBytes n ((s.buf.drop (s.off + o)).take (4 * n))

/-- `array_mut_ref!(s, o, 4*n)` overwritten with little-endian words -/
def MutSlice.writeWords {n : Nat} (s : MutSlice) (o : Nat) (w : Vector UInt32 n) : MutSlice :=
  { s with buf := s.buf.take (s.off + o) ++ bytesOfWords w ++ s.buf.drop (s.off + o + 4 * n) }

/-- at most `fuel` iterations of `while c { f }` -/
def whileFuel {σ : Type} : Nat → (σ → Bool) → (σ → σ) → σ → σ
  | 0, _, _, s => s
  | fuel + 1, c, f, s => if c s then whileFuel fuel c f (f s) else s

/-! ### sanity lemmas about the model (not used by the kernels' proofs) -/

theorem blend16_eq_masks (lo hi : Bool) (a b : UInt32) :
    blend16 lo hi a b
      = ((if lo then b else a) &&& 0x0000FFFF) ||| ((if hi then b else a) &&& 0xFFFF0000) := by
  have h : ∀ x : UInt32, (x &&& 0x0000FFFF) ||| (x &&& 0xFFFF0000) = x := by
    intro x
    apply UInt32.toBitVec_inj.mp
    simp only [UInt32.toBitVec_or, UInt32.toBitVec_and]
    rw [← BitVec.and_or_distrib_left]
    show x.toBitVec &&& BitVec.allOnes 32 = x.toBitVec
    exact BitVec.and_allOnes
  cases lo <;> cases hi <;> simp [blend16, h]

end B3.Simd
