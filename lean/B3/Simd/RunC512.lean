/-
Running the generated C AVX-512 kernels (`B3.Gen.CAvx512`, evaluated with the lane model of
`B3/Simd/Prim.lean` + `B3/Simd/Prim512.lean`) on concrete inputs, so that they can be compared with the
compiled `c/blake3_avx512.c` running on the CPU.  The lines are the `CK` lines of /verif/harness/PROTOCOL.md,
so one case file is fed both to `/verif/harness/c/build/cdriver` and to `lake env lean --run RunSimdC512.lean`:

  CK cip     <sym> <cv hex32> <block hex64> <block_len> <counter> <flags>                       -> 32 bytes hex
  CK cxof    <sym> <cv hex32> <block hex64> <block_len> <counter> <flags>                       -> 64 bytes hex
  CK hmany   <sym> <n> <blocks> <seed> <key hex32> <counter> <incr 0|1> <flags> <fstart> <fend> <inoff> <outoff>
             (input i = `blocks*64` bytes of the LCG stream seeded `seed + i`; the placement offsets are ignored)  -> 32n bytes hex
  CK xofmany <sym> <cv hex32> <block hex64> <block_len> <counter> <flags> <n>                   -> 64n bytes hex

`<sym>` is ignored (the answer is what `avx512_c` must print).  The output buffer is followed by 16 canary
bytes; ` CANARY` is appended to the answer if the kernel changed them.
-/
import B3.Gen.CAvx512
import B3.Simd.Run
namespace B3.Simd.RunC512
open B3 B3.Simd B3.Simd.C512 B3.Simd.Run

def canary : List UInt8 := List.replicate 16 0xEE

def answer (p : BPtr) (n : Nat) : String :=
  hexOfBytes (p.buf.take n) ++ (if p.buf.drop n = canary then "" else " CANARY")

def outBuf (n : Nat) : BPtr := BPtr.ofList (List.replicate n 0xAA ++ canary)

def memOfList (l : List UInt8) : Mem := let a := l.toArray; fun i => a.getD i 0

def bool01 (s : String) : Option Bool := if s = "1" then some true else if s = "0" then some false else none

def runLine (toks : List String) : Option String :=
  match toks with
  | "CK" :: "cip" :: _ :: rest => do
    let (cv, block, bl, t, fl) ← compressArgs rest
    some (hexOfBytes (bytesOfWords (Gen.CAvx512.blake3_compress_in_place_avx512 cv block bl t fl)))
  | "CK" :: "cxof" :: _ :: rest => do
    let (cv, block, bl, t, fl) ← compressArgs rest
    some (answer (Gen.CAvx512.blake3_compress_xof_avx512 cv block bl t fl (outBuf 64)) 64)
  | ["CK", "hmany", _, n, blocks, seed, key, counter, incr, flags, fs, fe, _, _] => do
    let n ← n.toNat?
    let blocks ← blocks.toNat?
    let seed ← u64 seed
    let key ← bytesOfHex key
    if key.size ≠ 32 then none
    let incr ← bool01 incr
    let mems : Array Mem := (Array.range n).map fun i => memOfList (patBytes (64 * blocks) (seed + UInt64.ofNat i))
    let inputs : MemArr := fun i => mems.getD i (fun _ => 0)
    some (answer (Gen.CAvx512.blake3_hash_many_avx512 inputs n blocks (wordsOfBytes 8 key.toList) (← u64 counter) incr
      (← u8 flags) (← u8 fs) (← u8 fe) (outBuf (32 * n))) (32 * n))
  | ["CK", "xofmany", _, cv, block, bl, t, fl, n] => do
    let (cv, block, bl, t, fl) ← compressArgs [cv, block, bl, t, fl]
    let n ← n.toNat?
    some (answer (Gen.CAvx512.blake3_xof_many_avx512 cv block bl t fl (outBuf (64 * n)) n) (64 * n))
  | _ => none

end B3.Simd.RunC512
