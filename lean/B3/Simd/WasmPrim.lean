/-
Lane model of the WebAssembly SIMD (`core::arch::wasm32`) intrinsics used by `src/wasm32_simd.rs`.

THIS FILE IS TRUSTED: it is the statement of what the instructions do.  It cannot be validated by running the
kernels on this (x86) machine; each definition transcribes the definition of the instruction in the WebAssembly
Core Specification 2.0 (section "Numerics / Vector instructions"; quoted in the docstrings, `N` = lane width) and
the documentation of the Rust wrapper in `core::arch::wasm32` (quoted where the wrapper adds something: const
generic lane indices, argument order).  The single instructions were cross-checked against the Wasm engine of
`node` (V8) on random vectors: see gen/REPORT_simd_nw.md and `B3/Simd/WasmPrimCheck.lean`.

Representation.  A `v128` is `V4 = Vector UInt32 4`, lane 0 = bits 31:0.  The specification fixes the lane
order by `lanes_{t×N}(c)`: "let `b^16 = bytes_i128(c)` [little-endian]; lane `i` is `bytes_t^{-1}(b^16[i·|t|/8 :
|t|/8])`" -- lane 0 is the LEAST significant part of the 128-bit value and the LOWEST address in memory, for
every lane shape.  Hence: 16-bit lane `2j` / `2j+1` is the low / high half of 32-bit lane `j` (`pack16`, `lo16`,
`hi16` of `Sse2Prim.lean`), 64-bit lane `j` is the pair of 32-bit lanes `2j` (low half), `2j+1` (high half), and
byte lane `k` is byte `k % 4` (0 = least significant) of 32-bit lane `k / 4`.  Signed lanes and scalars (`i32`,
`i16`) are represented by their bit patterns.

`v128_load` / `v128_store` ("`v128.load memarg`: … let `b*` be the 16 bytes `mem.data[ea : 16]`, let `c` be
`bytes_i128^{-1}(b*)`" -- no alignment requirement, little-endian) are the `loadu_words` / `storeu_words` /
`loadu_mem` of `Prim.lean` (32-bit lane `k` = the little-endian word at byte offset `4k`), and
`core::mem::transmute::<[v128; 4], [u8; 64]>` is `transmute_m128x4` there (the memory image of the array).
-/
import B3.Prim
import B3.Simd.Prim
import B3.Simd.Sse2Prim
namespace B3.Simd.Wasm
open B3 B3.Simd

/-! ### arithmetic and logic -/

/-- `i32x4.add`: "`vbinop` lane-wise: `iadd_N(i1, i2)` = Return the result of adding `i1` and `i2` modulo `2^N`." -/
def i32x4_add (a b : V4) : V4 := #v[a[0] + b[0], a[1] + b[1], a[2] + b[2], a[3] + b[3]]

/-- `v128.xor`: "`ixor_128(i1, i2)` = Return the bitwise exclusive disjunction of `i1` and `i2`." -/
def v128_xor (a b : V4) : V4 := #v[a[0] ^^^ b[0], a[1] ^^^ b[1], a[2] ^^^ b[2], a[3] ^^^ b[3]]

/-- `v128.or`: "`ior_128(i1, i2)` = Return the bitwise disjunction of `i1` and `i2`." -/
def v128_or (a b : V4) : V4 := #v[a[0] ||| b[0], a[1] ||| b[1], a[2] ||| b[2], a[3] ||| b[3]]

/-- `v128.and`: "`iand_128(i1, i2)` = Return the bitwise conjunction of `i1` and `i2`." -/
def v128_and (a b : V4) : V4 := #v[a[0] &&& b[0], a[1] &&& b[1], a[2] &&& b[2], a[3] &&& b[3]]

/-- `v128.bitselect`: "`ibitselect_128(i1, i2, i3)` = `ior(iand(i1, i3), iand(i2, inot(i3)))`".
Rust: `v128_bitselect(v1, v2, c)`: "Use the bitmask in `c` to select bits from `v1` when 1 and `v2` when 0." -/
def v128_bitselect (v1 v2 c : V4) : V4 :=
  #v[(v1[0] &&& c[0]) ||| (v2[0] &&& ~~~ c[0]), (v1[1] &&& c[1]) ||| (v2[1] &&& ~~~ c[1]),
     (v1[2] &&& c[2]) ||| (v2[2] &&& ~~~ c[2]), (v1[3] &&& c[3]) ||| (v2[3] &&& ~~~ c[3])]

/-- one lane of `i32x4.shr_u`: "`ishr_u_N(i1, i2)`: Let `k` be `i2` modulo `N`.  Return the result of shifting
`i1` right by `k` bits, extended with 0 bits."  (Rust `u32x4_shr(a, amt: u32)`: "Only the low bits of the shift
amount are used if the shift amount is greater than the lane size.") -/
def shr_u32 (x amt : UInt32) : UInt32 := x >>> (amt % 32)

/-- one lane of `i32x4.shl`: "`ishl_N(i1, i2)`: Let `k` be `i2` modulo `N`.  Return the result of shifting `i1`
left by `k` bits, modulo `2^N`." -/
def shl32 (x amt : UInt32) : UInt32 := x <<< (amt % 32)

/-- `i32x4.shr_u`: "`vishiftop`: pop the `i32` shift count `s` and the vector `c1`; let `i* = lanes_i32x4(c1)`;
the result is `lanes^{-1}(ishr_u_32(i*, s))`" -- every lane shifted by the same run-time count -/
def u32x4_shr (a : V4) (amt : UInt32) : V4 := #v[shr_u32 a[0] amt, shr_u32 a[1] amt, shr_u32 a[2] amt, shr_u32 a[3] amt]

/-- `i32x4.shl` (see `u32x4_shr`) -/
def u32x4_shl (a : V4) (amt : UInt32) : V4 := #v[shl32 a[0] amt, shl32 a[1] amt, shl32 a[2] amt, shl32 a[3] amt]

/-! ### constructors -/

/-- `i32x4.splat`: "Let `c` be `lanes^{-1}_{i32x4}(c1^4)`": all four lanes are the operand -/
def i32x4_splat (a : UInt32) : V4 := #v[a, a, a, a]

/-- Rust `i32x4(a0, a1, a2, a3)`: "Materializes a SIMD value from the provided operands" (a `v128.const` when
the operands are constants): lane `i` is `ai` -/
def i32x4 (a0 a1 a2 a3 : UInt32) : V4 := #v[a0, a1, a2, a3]

/-- Rust `i16x8(a0, …, a7)`: 16-bit lane `i` is `ai`; 16-bit lanes `2j`, `2j+1` are the low, high half of 32-bit
lane `j` -/
def i16x8 (a0 a1 a2 a3 a4 a5 a6 a7 : UInt16) : V4 := #v[pack16 a0 a1, pack16 a2 a3, pack16 a4 a5, pack16 a6 a7]

/-- `i16x8.splat`: all eight 16-bit lanes are the operand -/
def i16x8_splat (a : UInt16) : V4 := #v[pack16 a a, pack16 a a, pack16 a a, pack16 a a]

/-- `i16x8.eq`: "`vrelop` lane-wise; `ieq_N(i1, i2)` = Return 1 if `i1` equals `i2`, 0 otherwise", the result
lane being "`ext^s_{1,N}`" of that bit: all ones if equal, zero otherwise (`cmpeq16` of `Sse2Prim.lean`).
Rust `i16x8_eq`: "Returns a new vector where each lane is all ones if the corresponding input elements were
equal, or all zeros otherwise." -/
def i16x8_eq (a b : V4) : V4 :=
  #v[pack16 (cmpeq16 (lo16 a[0]) (lo16 b[0])) (cmpeq16 (hi16 a[0]) (hi16 b[0])),
     pack16 (cmpeq16 (lo16 a[1]) (lo16 b[1])) (cmpeq16 (hi16 a[1]) (hi16 b[1])),
     pack16 (cmpeq16 (lo16 a[2]) (lo16 b[2])) (cmpeq16 (hi16 a[2]) (hi16 b[2])),
     pack16 (cmpeq16 (lo16 a[3]) (lo16 b[3])) (cmpeq16 (hi16 a[3]) (hi16 b[3]))]

/-! ### shuffles

`i8x16.shuffle x^16`: "For all `x_i` in `x^16`, assert `x_i < 32` [validation].  Pop `c2`, pop `c1`.  Let `i*` be
the concatenation of the two sequences `lanes_{i8x16}(c1)` `lanes_{i8x16}(c2)`.  Let `c` be the result of
`lanes^{-1}_{i8x16}(i*[x^16[0]] … i*[x^16[15]])`."  So index `x < 16` selects byte `x` of the FIRST operand and
`16 ≤ x < 32` byte `x - 16` of the SECOND.  The Rust wrappers take the indices as const generics (checked at
compile time: `static_assert!(I < 32)` etc.; the translator refuses a literal index out of range, and the value
given here to an out-of-range index -- 0 -- is never used):

* `i8x16_shuffle::<I0, …, I15>(a, b)`: the instruction itself;
* `i32x4_shuffle::<I0, I1, I2, I3>(a, b)`: "Same as `i8x16_shuffle`, except operates as if the inputs were four
  32-bit integers, only taking 4 indices to shuffle.  Indices in the range [0, 3] select from `a` while [4, 7]
  select from `b`."
* `i64x2_shuffle::<I0, I1>(a, b)`: "… as if the inputs were two 64-bit integers, only taking 2 indices to
  shuffle.  Indices in the range [0, 1] select from `a` while [2, 3] select from `b`."
-/

/-- 32-bit lane `i` of the concatenation `a ++ b` -/
def sel8 (a b : V4) (i : Nat) : UInt32 :=
  match i with
  | 0 => a[0] | 1 => a[1] | 2 => a[2] | 3 => a[3]
  | 4 => b[0] | 5 => b[1] | 6 => b[2] | 7 => b[3]
  | _ => 0

def i32x4_shuffle (i0 i1 i2 i3 : Nat) (a b : V4) : V4 := #v[sel8 a b i0, sel8 a b i1, sel8 a b i2, sel8 a b i3]

/-- low / high 32 bits of 64-bit lane `i` of the concatenation `a ++ b` -/
def sel4lo (a b : V4) (i : Nat) : UInt32 :=
  match i with
  | 0 => a[0] | 1 => a[2] | 2 => b[0] | 3 => b[2] | _ => 0
def sel4hi (a b : V4) (i : Nat) : UInt32 :=
  match i with
  | 0 => a[1] | 1 => a[3] | 2 => b[1] | 3 => b[3] | _ => 0

def i64x2_shuffle (i0 i1 : Nat) (a b : V4) : V4 := #v[sel4lo a b i0, sel4hi a b i0, sel4lo a b i1, sel4hi a b i1]

/-- byte lane `k` (0 … 15) of a vector: byte `k % 4` of 32-bit lane `k / 4` -/
def byteLane (a : V4) (k : Nat) : UInt8 :=
  byteOf (match k / 4 with | 0 => a[0] | 1 => a[1] | 2 => a[2] | _ => a[3]) (k % 4)

/-- byte lane `i` (0 … 31) of the concatenation `a ++ b` -/
def sel32 (a b : V4) (i : Nat) : UInt8 :=
  if i < 16 then byteLane a i else if i < 32 then byteLane b (i - 16) else 0

def i8x16_shuffle (i0 i1 i2 i3 i4 i5 i6 i7 i8 i9 i10 i11 i12 i13 i14 i15 : Nat) (a b : V4) : V4 :=
  #v[le32 (sel32 a b i0) (sel32 a b i1) (sel32 a b i2) (sel32 a b i3),
     le32 (sel32 a b i4) (sel32 a b i5) (sel32 a b i6) (sel32 a b i7),
     le32 (sel32 a b i8) (sel32 a b i9) (sel32 a b i10) (sel32 a b i11),
     le32 (sel32 a b i12) (sel32 a b i13) (sel32 a b i14) (sel32 a b i15)]

/-! ### sanity checks of the model (evaluated) -/

example : i32x4_shuffle 0 4 1 5 #v[10, 11, 12, 13] #v[20, 21, 22, 23] = #v[10, 20, 11, 21] := by decide
example : i64x2_shuffle 1 3 #v[10, 11, 12, 13] #v[20, 21, 22, 23] = #v[12, 13, 22, 23] := by decide
example : i8x16_shuffle 2 3 0 1 6 7 4 5 10 11 8 9 14 15 12 13 #v[0x03020100, 0x07060504, 0x0B0A0908, 0x0F0E0D0C] #v[0, 0, 0, 0]
    = #v[0x01000302, 0x05040706, 0x09080B0A, 0x0D0C0F0E] := by decide
example : i8x16_shuffle 16 1 18 3 20 5 22 7 24 9 26 11 28 13 30 31 #v[0x03020100, 0x07060504, 0x0B0A0908, 0x0F0E0D0C]
      #v[0x13121110, 0x17161514, 0x1B1A1918, 0x1F1E1D1C]
    = #v[0x03120110, 0x07160514, 0x0B1A0918, 0x1F1E0D1C] := by decide
example : u32x4_shr #v[0x80000000, 1, 2, 0xFFFFFFFF] 33 = #v[0x40000000, 0, 1, 0x7FFFFFFF] := by decide
example : i16x8 1 2 4 8 16 32 64 128 = #v[0x00020001, 0x00080004, 0x00200010, 0x00800040] := by decide
example : i16x8_eq #v[0x00020001, 0, 0xFFFF0000, 7] #v[0x00030001, 0, 0xFFFF0001, 0x10007]
    = #v[0x0000FFFF, 0xFFFFFFFF, 0xFFFF0000, 0x0000FFFF] := by decide
example : v128_bitselect #v[0xAAAAAAAA, 1, 2, 3] #v[0x55555555, 4, 5, 6] #v[0xFFFF0000, 0, 0xFFFFFFFF, 1]
    = #v[0xAAAA5555, 4, 2, 7] := by decide

end B3.Simd.Wasm
