/- `transpose_vecs_512`, `transpose_msg_vecs16` and `blake3_xof16_avx512` against the specification -/
import B3.Simd.CAvx512Round16
import B3.Simd.CAvx512Counters
import B3.Simd.CAvx512Wide
namespace B3.Simd.C512
open B3 B3.Gen.CAvx512
open B3.Gen.C (MSG_SCHEDULE IV)

/-! ### lane-wise operations -/

theorem set1_512_get (a : UInt32) (l : Fin 16) : (set1_512 a)[l] = a := by
  revert l; apply lane16_cases <;> rfl

theorem xor_512_get (a b : V16) (l : Fin 16) : (xor_512 a b)[l] = a[l] ^^^ b[l] := map2_16_get _ a b l

/-! ### transposes -/

/-- row `i` of the transposed 16x16 matrix is column `i` (= lane `i`) of the original -/
theorem transpose_vecs_512_row (vs : Vector V16 16) (i : Fin 16) : (transpose_vecs_512 vs)[i] = laneN i vs := by
  vatoms16 vs
  revert i
  apply lane16_cases <;> kernel_rfl

theorem transpose_vecs_512_get (vs : Vector V16 16) (i j : Fin 16) : (transpose_vecs_512 vs)[i][j] = vs[j][i] := by
  rw [transpose_vecs_512_row, laneN_get]

/-- after the transposition, lane `i` of the 16 message registers is the block of input `i` (whatever the
array held before) -/
theorem transpose_msg_vecs16_lane (inputs : MemArr) (off : Nat) (out : Vector V16 16) (i : Fin 16) :
    laneN i (transpose_msg_vecs16 inputs off out) = blockAt (inputs i.val) off := by
  vatoms16 out
  revert i
  apply lane16_cases <;> kernel_rfl

/-! ### blake3_xof16_avx512 -/

theorem load_block_words_eq (block z : St) : load_block_words block z = block := by
  unfold load_block_words
  simp only [Proofs.set16_all]
  exact (Proofs.vec16_eta block).symm

/-- the sixteen 64-byte rows that are stored -/
def rows16 (t : Vector V16 16) : List (List UInt8) :=
  [bytesOfWords t[0], bytesOfWords t[1], bytesOfWords t[2], bytesOfWords t[3], bytesOfWords t[4], bytesOfWords t[5],
   bytesOfWords t[6], bytesOfWords t[7], bytesOfWords t[8], bytesOfWords t[9], bytesOfWords t[10], bytesOfWords t[11],
   bytesOfWords t[12], bytesOfWords t[13], bytesOfWords t[14], bytesOfWords t[15]]

/-- the sixteen states before the transposition -/
def xof16V (cv : CV) (block : St) (bl : UInt8) (c : UInt64) (fl : UInt8) : Vector V16 16 :=
  ffN xor_512
    (roundsN round_fn16
      (initN set1_512 (hvN set1_512 cv) (load_counters16 c true).1 (load_counters16 c true).2 bl.toUInt32 fl.toUInt32)
      (splatMsgN set1_512 (Vector.replicate 16 (Vector.replicate 16 0)) (load_block_words block (Vector.replicate 16 0))))
    (hvN set1_512 cv)

/-- the translated function has this shape (unfolding only) -/
theorem xof16_shape (cv : CV) (block : St) (bl : UInt8) (c : UInt64) (fl : UInt8) (out : BPtr) :
    blake3_xof16_avx512 cv block bl c fl out = wrAll 64 out 0 (rows16 (transpose_vecs_512 (xof16V cv block bl c fl))) := rfl

theorem xof16V_lane (cv : CV) (block : St) (bl : UInt8) (c : UInt64) (fl : UInt8) (l : Fin 16) :
    laneN l (xof16V cv block bl c fl) = Spec.compress cv block (ctr64 c true l.val) bl.toUInt32 fl.toUInt32 := by
  unfold xof16V
  rw [laneN_compress set1_512 xor_512 round_fn16 set1_512_get xor_512_get round_fn16_lane _ _ _ _ _ _ l (ctr64 c true l.val)
    (load_counters16_lane c true l).1 (load_counters16_lane c true l).2,
    cvLaneN_hvN set1_512 set1_512_get, laneN_splatMsgN set1_512 set1_512_get, load_block_words_eq]

/-- the `n` output blocks from counter `c` on -/
def xofBytes (cv : CV) (block : St) (bl fl : UInt8) (c : UInt64) (n : Nat) : List UInt8 :=
  (List.range n).flatMap fun i => bytesOfWords (Spec.compress cv block (c + UInt64.ofNat i) bl.toUInt32 fl.toUInt32)

theorem flatten16 {α : Type} (f : Nat → List α) :
    [f 0, f 1, f 2, f 3, f 4, f 5, f 6, f 7, f 8, f 9, f 10, f 11, f 12, f 13, f 14, f 15].flatten = (List.range 16).flatMap f := rfl

theorem ctr64_true (c : UInt64) (k : Nat) : ctr64 c true k = c + UInt64.ofNat k := rfl

theorem transpose_vecs_512_row_nat (vs : Vector V16 16) (i : Nat) (hi : i < 16) :
    (transpose_vecs_512 vs)[i]'hi = laneN ⟨i, hi⟩ vs := transpose_vecs_512_row vs ⟨i, hi⟩

theorem rows16_length (t : Vector V16 16) : ∀ c ∈ rows16 t, c.length = 64 := by
  intro c hc
  unfold rows16 at hc
  simp only [List.mem_cons, List.not_mem_nil, or_false] at hc
  rcases hc with h | h | h | h | h | h | h | h | h | h | h | h | h | h | h | h <;> rw [h, length_bytesOfWords]

theorem xof16_eq (cv : CV) (block : St) (bl : UInt8) (c : UInt64) (fl : UInt8) (out : BPtr)
    (h : out.off ≤ out.buf.length) :
    blake3_xof16_avx512 cv block bl c fl out = wr out 0 (xofBytes cv block bl fl c 16) := by
  rw [xof16_shape, wrAll_flatten 64 _ (rows16_length _) out 0 h]
  unfold rows16 xofBytes
  simp only [transpose_vecs_512_row_nat, xof16V_lane, ctr64_true]
  rfl

end B3.Simd.C512
