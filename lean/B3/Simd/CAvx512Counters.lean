/-
`load_counters16 / 8 / 4` of c/blake3_avx512.c (as translated into `B3.Gen.CAvx512`): lane `i` of the two
results carries the low and the high 32 bits of `counter + i` (64-bit wrapping add) when incrementing,
of `counter` otherwise -- for ALL 64-bit counters.  The 16-way version does 32-bit arithmetic and
reconstructs the carry into the high word from the sign bits (`carry_lemma`); the 8- and 4-way versions
add in 64-bit lanes and truncate / shift.
-/
import B3.Gen.CAvx512
namespace B3.Simd.C512
open B3 B3.Gen.CAvx512

/-- the counter of input / output block `k` -/
def ctr64 (counter : UInt64) (incr : Bool) (k : Nat) : UInt64 :=
  counter + (if incr then UInt64.ofNat k else 0)

/-! ### scalar facts -/

theorem u64of_lo_hi (x : UInt64) : u64of (lo32 x) (hi32 x) = x := by
  apply UInt64.toNat_inj.mp
  have hx := x.toNat_lt
  simp only [u64of, lo32, hi32, UInt64.toNat_ofNat', UInt64.toNat_toUInt32, UInt64.toNat_shiftRight,
    Nat.shiftRight_eq_div_pow]
  simp
  omega

theorem shr31_toNat (x : UInt32) : (x >>> 31).toNat = if x.toNat < 2147483648 then 0 else 1 := by
  have hx := x.toNat_lt
  rw [UInt32.toNat_shiftRight]
  simp only [Nat.shiftRight_eq_div_pow]
  simp
  split <;> omega

/-- The carry trick of `load_counters16`: with `lo` the low word of the counter and `d < 2^31`, the
32-bit sum `lo + d` is the low word of the 64-bit sum, and bit 31 of `¬(lo + d) ∧ lo` ("the high bit was
1 before the addition and is 0 after") is exactly the carry into the high word. -/
theorem carry_lemma (c : UInt64) (d : UInt32) (hd : d.toNat < 2147483648) :
    c.toUInt32 + d = (c + d.toUInt64).toUInt32 ∧
    (c >>> 32).toUInt32 + srl32 (~~~(c.toUInt32 + d) &&& c.toUInt32) 31 = ((c + d.toUInt64) >>> 32).toUInt32 := by
  have hc := c.toNat_lt
  constructor
  · apply UInt32.toNat_inj.mp
    simp only [UInt32.toNat_add, UInt64.toNat_toUInt32, UInt64.toNat_add, UInt32.toNat_toUInt64]
    omega
  · have hs : srl32 (~~~(c.toUInt32 + d) &&& c.toUInt32) 31 = (~~~(c.toUInt32 + d) &&& c.toUInt32) >>> 31 := rfl
    rw [hs]
    apply UInt32.toNat_inj.mp
    have hand : ((~~~(c.toUInt32 + d) &&& c.toUInt32) >>> 31).toNat
        = (if (c.toNat % 4294967296 + d.toNat) % 4294967296 < 2147483648 ∧ 2147483648 ≤ c.toNat % 4294967296 then 1 else 0) := by
      have h1 := shr31_toNat (~~~(c.toUInt32 + d))
      have h2 := shr31_toNat c.toUInt32
      have e : ((~~~(c.toUInt32 + d) &&& c.toUInt32) >>> 31).toNat
          = (~~~(c.toUInt32 + d) >>> 31).toNat &&& (c.toUInt32 >>> 31).toNat := by
        simp only [UInt32.toNat_shiftRight, UInt32.toNat_and, Nat.shiftRight_and_distrib]
      rw [e, h1, h2]
      have hn : (~~~(c.toUInt32 + d)).toNat = 4294967295 - (c.toNat % 4294967296 + d.toNat) % 4294967296 := by
        rw [UInt32.toNat_not, UInt32.toNat_add, UInt64.toNat_toUInt32]
        rfl
      rw [hn, UInt64.toNat_toUInt32]
      have hm : c.toNat % 2 ^ 32 = c.toNat % 4294967296 := rfl
      rw [hm]
      by_cases ha : (c.toNat % 4294967296 + d.toNat) % 4294967296 < 2147483648 <;>
        by_cases hb : 2147483648 ≤ c.toNat % 4294967296
      · rw [if_neg (by omega), if_neg (by omega), if_pos ⟨ha, hb⟩]; rfl
      · rw [if_neg (by omega), if_pos (by omega), if_neg (by omega)]; rfl
      · rw [if_pos (by omega), if_neg (by omega), if_neg (by omega)]; rfl
      · rw [if_pos (by omega), if_pos (by omega), if_neg (by omega)]; rfl
    rw [UInt32.toNat_add, hand]
    simp only [UInt64.toNat_toUInt32, UInt64.toNat_shiftRight, UInt64.toNat_add, UInt32.toNat_toUInt64,
      Nat.shiftRight_eq_div_pow]
    simp
    split <;> omega

/-! ### load_counters16 -/

/-- lane `i` of the masked deltas -/
def dmask (incr : Bool) (i : Fin 16) : UInt32 := UInt32.ofNat i.val &&& (0 - (if incr then 1 else 0))

theorem dmask_eq (incr : Bool) (i : Fin 16) : dmask incr i = if incr then UInt32.ofNat i.val else 0 := by
  cases incr <;> revert i <;> decide

theorem load_counters16_raw (c : UInt64) (incr : Bool) (i : Fin 16) :
    (load_counters16 c incr).1[i] = c.toUInt32 + dmask incr i ∧
    (load_counters16 c incr).2[i]
      = (c >>> 32).toUInt32 + srl32 (~~~(c.toUInt32 + dmask incr i) &&& c.toUInt32) 31 := by
  match i with
  | ⟨0, _⟩ | ⟨1, _⟩ | ⟨2, _⟩ | ⟨3, _⟩ | ⟨4, _⟩ | ⟨5, _⟩ | ⟨6, _⟩ | ⟨7, _⟩
  | ⟨8, _⟩ | ⟨9, _⟩ | ⟨10, _⟩ | ⟨11, _⟩ | ⟨12, _⟩ | ⟨13, _⟩ | ⟨14, _⟩ | ⟨15, _⟩ => exact ⟨rfl, rfl⟩
  | ⟨n + 16, h⟩ => omega

theorem ofNat_toUInt64 (i : Fin 16) : (UInt32.ofNat i.val).toUInt64 = UInt64.ofNat i.val := by
  revert i; decide

theorem load_counters16_lane (c : UInt64) (incr : Bool) (i : Fin 16) :
    (load_counters16 c incr).1[i] = (ctr64 c incr i.val).toUInt32 ∧
    (load_counters16 c incr).2[i] = (ctr64 c incr i.val >>> 32).toUInt32 := by
  have hd : (dmask incr i).toNat < 2147483648 := by
    rw [dmask_eq]; cases incr <;> revert i <;> decide
  obtain ⟨h1, h2⟩ := load_counters16_raw c incr i
  obtain ⟨k1, k2⟩ := carry_lemma c (dmask incr i) hd
  have e : c + (dmask incr i).toUInt64 = ctr64 c incr i.val := by
    rw [dmask_eq, ctr64]
    cases incr
    · rfl
    · simp only [if_true, ofNat_toUInt64]
  rw [h1, h2]
  exact ⟨k1.trans (by rw [e]), k2.trans (by rw [e])⟩

/-! ### 64-bit lanes: load_counters8, load_counters4 -/

theorem q64_ofQ8 (x0 x1 x2 x3 x4 x5 x6 x7 : UInt64) :
    q64 (ofQ8 x0 x1 x2 x3 x4 x5 x6 x7) 0 = x0 ∧ q64 (ofQ8 x0 x1 x2 x3 x4 x5 x6 x7) 1 = x1 ∧
    q64 (ofQ8 x0 x1 x2 x3 x4 x5 x6 x7) 2 = x2 ∧ q64 (ofQ8 x0 x1 x2 x3 x4 x5 x6 x7) 3 = x3 ∧
    q64 (ofQ8 x0 x1 x2 x3 x4 x5 x6 x7) 4 = x4 ∧ q64 (ofQ8 x0 x1 x2 x3 x4 x5 x6 x7) 5 = x5 ∧
    q64 (ofQ8 x0 x1 x2 x3 x4 x5 x6 x7) 6 = x6 ∧ q64 (ofQ8 x0 x1 x2 x3 x4 x5 x6 x7) 7 = x7 :=
  ⟨u64of_lo_hi x0, u64of_lo_hi x1, u64of_lo_hi x2, u64of_lo_hi x3, u64of_lo_hi x4, u64of_lo_hi x5,
   u64of_lo_hi x6, u64of_lo_hi x7⟩

theorem q64_ofQ4 (x0 x1 x2 x3 : UInt64) :
    q64 (ofQ4 x0 x1 x2 x3) 0 = x0 ∧ q64 (ofQ4 x0 x1 x2 x3) 1 = x1 ∧
    q64 (ofQ4 x0 x1 x2 x3) 2 = x2 ∧ q64 (ofQ4 x0 x1 x2 x3) 3 = x3 :=
  ⟨u64of_lo_hi x0, u64of_lo_hi x1, u64of_lo_hi x2, u64of_lo_hi x3⟩

theorem deltas8 (incr : Bool) :
    _mm512_and_si512 (_mm512_set1_epi64 (if incr = true then 18446744073709551615 else 0)) (_mm512_setr_epi64 0 1 2 3 4 5 6 7)
      = ofQ8 (if incr then 0 else 0) (if incr then 1 else 0) (if incr then 2 else 0) (if incr then 3 else 0)
             (if incr then 4 else 0) (if incr then 5 else 0) (if incr then 6 else 0) (if incr then 7 else 0) := by
  cases incr <;> decide

theorem deltas4 (incr : Bool) :
    _mm256_and_si256 (_mm256_set1_epi64x (if incr = true then 18446744073709551615 else 0)) (_mm256_setr_epi64x 0 1 2 3)
      = ofQ4 (if incr then 0 else 0) (if incr then 1 else 0) (if incr then 2 else 0) (if incr then 3 else 0) := by
  cases incr <;> decide

theorem srl64_32 (x : UInt64) : srl64 x 32 = x >>> 32 := rfl

theorem load_counters8_eq (c : UInt64) (incr : Bool) :
    load_counters8 c incr
      = (#v[lo32 (ctr64 c incr 0), lo32 (ctr64 c incr 1), lo32 (ctr64 c incr 2), lo32 (ctr64 c incr 3),
            lo32 (ctr64 c incr 4), lo32 (ctr64 c incr 5), lo32 (ctr64 c incr 6), lo32 (ctr64 c incr 7)],
         #v[hi32 (ctr64 c incr 0), hi32 (ctr64 c incr 1), hi32 (ctr64 c incr 2), hi32 (ctr64 c incr 3),
            hi32 (ctr64 c incr 4), hi32 (ctr64 c incr 5), hi32 (ctr64 c incr 6), hi32 (ctr64 c incr 7)]) := by
  unfold load_counters8
  simp only [deltas8]
  obtain ⟨a0, a1, a2, a3, a4, a5, a6, a7⟩ := q64_ofQ8 c c c c c c c c
  simp only [_mm512_add_epi64, _mm512_set1_epi64, _mm512_cvtepi64_epi32, _mm512_srli_epi64, q64_ofQ8, a0, a1, a2, a3, a4, a5,
    a6, a7, srl64_32]
  cases incr <;> rfl

theorem load_counters4_eq (c : UInt64) (incr : Bool) :
    load_counters4 c incr
      = (#v[lo32 (ctr64 c incr 0), lo32 (ctr64 c incr 1), lo32 (ctr64 c incr 2), lo32 (ctr64 c incr 3)],
         #v[hi32 (ctr64 c incr 0), hi32 (ctr64 c incr 1), hi32 (ctr64 c incr 2), hi32 (ctr64 c incr 3)]) := by
  unfold load_counters4
  simp only [deltas4]
  obtain ⟨a0, a1, a2, a3⟩ := q64_ofQ4 c c c c
  simp only [_mm256_add_epi64, _mm256_set1_epi64x, _mm256_cvtepi64_epi32, _mm256_srli_epi64, q64_ofQ4, a0, a1, a2, a3, srl64_32]
  cases incr <;> rfl

theorem load_counters8_lane (c : UInt64) (incr : Bool) (i : Fin 8) :
    (load_counters8 c incr).1[i] = (ctr64 c incr i.val).toUInt32 ∧
    (load_counters8 c incr).2[i] = (ctr64 c incr i.val >>> 32).toUInt32 := by
  rw [load_counters8_eq]
  match i with
  | ⟨0, _⟩ | ⟨1, _⟩ | ⟨2, _⟩ | ⟨3, _⟩ | ⟨4, _⟩ | ⟨5, _⟩ | ⟨6, _⟩ | ⟨7, _⟩ => exact ⟨rfl, rfl⟩
  | ⟨n + 8, h⟩ => omega

theorem load_counters4_lane (c : UInt64) (incr : Bool) (i : Fin 4) :
    (load_counters4 c incr).1[i] = (ctr64 c incr i.val).toUInt32 ∧
    (load_counters4 c incr).2[i] = (ctr64 c incr i.val >>> 32).toUInt32 := by
  rw [load_counters4_eq]
  match i with
  | 0 | 1 | 2 | 3 => exact ⟨rfl, rfl⟩

end B3.Simd.C512
