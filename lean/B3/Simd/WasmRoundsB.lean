/- round pieces 3-4 of the generated Wasm SIMD `compress_pre` against `Spec.round` (kernel-checked, ~13 s each) -/
import B3.Simd.WasmBase
namespace B3.Simd.Wasm
open B3 B3.Simd B3.Gen.RsWasm

theorem round3_eq (s w : St) :
    compress_pre_round3 (rows8 s w)
      = rows8 (Spec.round s (Spec.permute w)) (Spec.permute w) := by wround_tac compress_pre_round3 s w
theorem round4_eq (s w : St) :
    compress_pre_round4 (rows8 s w)
      = rows8 (Spec.round s (Spec.permute w)) (Spec.permute w) := by wround_tac compress_pre_round4 s w

end B3.Simd.Wasm
