/-
Helper lemmas for the generated C NEON kernels (`B3.Gen.CNeon`, translated from c/blake3_neon.c by
gen/ext_simd_neon.py), in namespace `B3.Simd.CNeon`.  Same structure as `CSse41.lean` without the single-block
functions (the file has none: `hash_one_neon` calls the portable compression function):

  NeonPrim        (trusted) lane model of the `arm_neon.h` intrinsics and the two compiler builtins
  CNeonBase       rot16/12/8/7_128 = lane-wise rotr (all three compiler variants of rot8_128)
  CNeonWideBase, CNeonLane0..3, CNeonWide   lane k of the 4-way `round_fn4` = the specification's round
  CNeonHash4      transposes, counters, the loop of blake3_hash4_neon and its output
  CNeonHash1      the while loop of hash_one_neon (portable compress)
  CNeonHashMany   blake3_hash_many_neon: groups of four through hash4, the rest through hash_one

The theorems are restated in `B3/Simd/CNeonProps.lean`.
-/
import B3.Simd.CNeonHash4
import B3.Simd.CNeonHashMany
