/- width-independent part of `blake3_hash4/8/16_avx512`: the block loop, the reference output bytes -/
import B3.Simd.CAvx512Wide
import B3.Simd.CAvx512Counters
namespace B3.Simd.C512
open B3

/-- the block loop: if one iteration compresses, in lane `l`, block `b` of that lane's input into that lane's
chaining value (flags as the C code computes them) and resets `block_flags` to `flags`, then `k` iterations give
the reference fold over the first `k` blocks -/
theorem hloop_inv {n : Nat}
    (body : Vector (Vector UInt32 n) 8 × UInt8 → Nat → Vector (Vector UInt32 n) 8 × UInt8)
    (blocks : Nat) (flags fs fe : UInt8) (l : Fin n) (t : UInt64) (blk : Nat → St)
    (hb : ∀ h bf b, (body (h, bf) b).2 = flags ∧
      cvLaneN l (body (h, bf) b).1
        = first8 (Spec.compress (cvLaneN l h) (blk b) t 64 (if b + 1 = blocks then bf ||| fe else bf).toUInt32))
    (h0 : Vector (Vector UInt32 n) 8) (k : Nat) :
    ((List.range k).foldl body (h0, flags ||| fs)).2 = (if k = 0 then flags ||| fs else flags) ∧
    cvLaneN l ((List.range k).foldl body (h0, flags ||| fs)).1
      = foldBlocksN (cvLaneN l h0) blk blocks t flags fs fe k := by
  induction k with
  | zero => exact ⟨rfl, rfl⟩
  | succ k ih =>
    obtain ⟨ih1, ih2⟩ := ih
    rw [List.range_succ, List.foldl_append]
    generalize (List.range k).foldl body (h0, flags ||| fs) = L at ih1 ih2 ⊢
    obtain ⟨h, bf⟩ := L
    simp only at ih1 ih2
    simp only [List.foldl_cons, List.foldl_nil]
    obtain ⟨b1, b2⟩ := hb h bf k
    refine ⟨by rw [b1]; simp, ?_⟩
    rw [b2, ih2, ih1, flags_step]
    unfold foldBlocksN
    rw [List.range_succ, List.foldl_append]
    rfl

/-- the `n` chaining values that `blake3_hash_many_avx512` (and its 16-, 8-, 4-way kernels) must write -/
def hashBytes (inputs : MemArr) (blocks : Nat) (key : CV) (c : UInt64) (incr : Bool) (flags fs fe : UInt8) (n : Nat) :
    List UInt8 :=
  (List.range n).flatMap fun i =>
    bytesOfWords (specHashBlocks key (blockOfMem (inputs i)) blocks (ctr64 c incr i) flags fs fe)

theorem foldBlocksN_eq_spec (key : CV) (p : Mem) (blocks : Nat) (t : UInt64) (flags fs fe : UInt8) :
    foldBlocksN key (fun b => blockAt p (b * 64)) blocks t flags fs fe blocks
      = specHashBlocks key (blockOfMem p) blocks t flags fs fe := by
  unfold foldBlocksN specHashBlocks flagsAt
  simp only [blockAt_eq_blockOfMem]

/-- a full-mask `_mm256_mask_storeu_epi32` is a plain 32-byte store -/
theorem mask_store_full (q : BPtr) (a : V8) : _mm256_mask_storeu_epi32 q 255 a = q.write (bytesOfWords a) := by
  unfold _mm256_mask_storeu_epi32
  congr 1
  rw [vec8_eta' a]
  rfl

end B3.Simd.C512
