/-
The theorems about the C NEON kernels of c/blake3_neon.c (as translated into `B3.Gen.CNeon` by gen/ext_simd_neon.py,
over the TRUSTED lane model `B3/Simd/NeonPrim.lean` of the `arm_neon.h` intrinsics; memory model of `Prim.lean` +
`PrimC.lean`, little-endian).  The kernels cannot be run on this machine: the theorems are about the translated text
and the lane model.  Every statement is for ALL arguments.  Proofs: `B3/Simd/CNeon*.lean`, bit-level facts in
`B3/Simd/CBits.lean`.  The file has no single-block compression function (`blake3_compress_in_place_neon` does not
exist: the dispatcher uses the portable one, and so does `hash_one_neon`).
-/
import B3.Simd.CNeon
import B3.Simd.Sse41PropsMany
namespace B3.Simd
open B3.Simd.CI B3.Simd.Neon
open B3 B3.Gen.CNeon
open B3.Gen.C (MSG_SCHEDULE)

namespace CNeon

theorem outBytesC_eq_flatMap (blocks : Nat) (key : CV) (flags fs fe : UInt8) (incr : Bool) (ps : PtrArr) (n : Nat) (t : UInt64) :
    outBytesC blocks key flags fs fe incr ps n t
      = (List.range n).flatMap fun k => bytesOfWords (cvOfC blocks key flags fs fe (ps k) (advN incr t k)) := by
  induction n generalizing ps t with
  | zero => rfl
  | succ n ih =>
    rw [outBytesC, ih, List.range_succ_eq_map, List.flatMap_cons, List.flatMap_map]
    simp only [advN, PtrArr.add, advN_adv, Nat.add_comm 1]

theorem cvOfC_eq (blocks : Nat) (key : CV) (flags fs fe : UInt8) (p : Mem) (t : UInt64) :
    cvOfC blocks key flags fs fe p t = specHashBlocks key (blockOfMem p) blocks t flags fs fe := by
  unfold cvOfC foldBlocksN specHashBlocks flagsAt
  simp only [blockAt_eq_blockOfMem]

end CNeon

/-! ### main theorems -/

/-! #### rotations -/

/-- the four rotations of the C file (`vrev32q_u16` for 16, shift-right-and-insert `vsriq_n_u32(vshlq_n_u32(x, 32-n), x, n)`
for 12 and 7, a compiler byte-shuffle builtin for 8) rotate every lane -/
theorem neon_rotations (x : V4) :
    rot16_128 x = rotv 16 x ∧ rot12_128 x = rotv 12 x ∧ rot8_128 x = rotv 8 x ∧ rot7_128 x = rotv 7 x :=
  ⟨CNeon.rot16_eq x, CNeon.rot12_eq x, CNeon.rot8_eq x, CNeon.rot7_eq x⟩

/-- `rot8_128` is compiled from one of three texts (`#if defined(__clang__)`: `__builtin_shufflevector`; `#elif` GCC >= 4.7:
`__builtin_shuffle` with a constant table; `#else`: `vsriq_n_u32(vshlq_n_u32(x, 24), x, 8)`); the translation follows the
clang text and also contains the other two: all three are the same function, so every theorem below holds for each build -/
theorem neon_rot8_variants : @rot8_128_gcc = @rot8_128 ∧ @rot8_128_other = @rot8_128 := CNeon.rot8_variants

/-! #### the 4-way round -/

/-- lane `l` of the 4-way `round_fn4` is one round of the specification on lane `l` of the state, with the
message words of lane `l` taken in the order `MSG_SCHEDULE[r]`: four independent rounds -/
theorem neon_round_lane (v m : Vector V4 16) (r : Fin 7) :
    ∀ l : Fin 4, lane l (round_fn4 v m r)
      = Spec.roundWith (lane l v) (fun i => (lane l m)[MSG_SCHEDULE[r][i]]) :=
  fun l => CNeon.round_lane l v m r

/-- in the vocabulary of the portable C code: lane `l` of the 4-way round = the portable `round_fn` on lane `l` -/
theorem neon_round_lane_portable (v m : Vector V4 16) (r : Fin 7) (l : Fin 4) :
    lane l (round_fn4 v m r) = Gen.C.round_fn (lane l v) (lane l m) r := by
  rw [neon_round_lane, CNeon.c_round_with]

/-! #### transposes -/

theorem neon_transpose_vecs (vs : Vector V4 4) (i j : Fin 4) : (transpose_vecs_128 vs)[i][j] = vs[j][i] :=
  CNeon.transpose_vecs_get vs i j

/-- message vector `k`, lane `i` = little-endian word `k` of the 64 bytes at `block_offset` of input `i`
(whatever the uninitialised output array held) -/
theorem neon_transpose_msg_vecs (inputs : PtrArr) (block_offset : Nat) (out : Vector V4 16) (k : Fin 16) (i : Fin 4) :
    (transpose_msg_vecs4 inputs block_offset out)[k][i] = (inputs i.val).word (block_offset + 4 * k.val) := by
  rw [← CNeon.lane_get', CNeon.transpose_msg_vecs_lane, blockAt_get]

/-! #### counters -/

/-- lane `i` of the low / high counter vector = low / high 32 bits of `counter + i` (wrapping, as C's `uint64_t`)
when incrementing, of `counter` otherwise (`counter + (mask & i)` in 64 bits, as in the Rust files; `mask` is
`increment_counter ? ~0 : 0` converted to `uint64_t`) -/
theorem neon_load_counters (counter : UInt64) (incr : Bool) (lo hi : V4) (i : Fin 4) :
    (load_counters4 counter incr lo hi).1[i]
        = (counter + (if incr then UInt64.ofNat i.val else 0)).toUInt32 ∧
    (load_counters4 counter incr lo hi).2[i]
        = ((counter + (if incr then UInt64.ofNat i.val else 0)) >>> 32).toUInt32 :=
  CNeon.load_counters_lane counter incr lo hi i

example : (load_counters4 0xFFFFFFFF true uninit uninit).1 = #v[0xFFFFFFFF, 0, 1, 2] ∧
          (load_counters4 0xFFFFFFFF true uninit uninit).2 = #v[0, 1, 1, 1] := by decide

/-! #### hash4 -/

/-- `blake3_hash4_neon` stores, at the output pointer, the four chaining values one after the other
(4 x 32 bytes; every other byte of memory is unchanged, see `Mem.write_outside`) and leaves the pointer where it was;
chaining value `i` is that of the `blocks` blocks of input `i`, with counter `counter + i` (wrapping) when
`increment_counter` and `counter` otherwise.  Inputs are raw byte pointers (byte-addressed memories); only bytes
`0 … 64*blocks-1` of each are read. -/
theorem neon_hash4_eq (inputs : PtrArr) (blocks : Nat) (key : CV) (counter : UInt64) (incr : Bool)
    (flags flags_start flags_end : UInt8) (out : BytePtr) :
    blake3_hash4_neon inputs blocks key counter incr flags flags_start flags_end out
      = ⟨out.mem.write out.off ((List.range 4).flatMap fun i =>
            bytesOfWords (specHashBlocks key (blockOfMem (inputs i)) blocks
              (counter + (if incr then UInt64.ofNat i else 0)) flags flags_start flags_end)), out.off⟩ := by
  rw [CNeon.hash4_eq_write, CNeon.hash4_bytes, CNeon.outBytesC_eq_flatMap]
  simp only [CNeon.cvOfC_eq, advN_eq]

/-- `blocks = 0`: the loop body never runs and `blake3_hash4_neon` stores the key four times -/
example (inputs : PtrArr) (key : CV) (counter : UInt64) (incr : Bool) (fl fs fe : UInt8) (out : BytePtr) :
    (blake3_hash4_neon inputs 0 key counter incr fl fs fe out).mem
      = out.mem.write out.off (bytesOfWords key ++ bytesOfWords key ++ bytesOfWords key ++ bytesOfWords key) := by
  rw [neon_hash4_eq]
  simp [specHashBlocks, List.range_succ]

/-! #### hash_one and hash_many -/

/-- `hash_one_neon` = the reference fold over the `blocks` blocks at the input pointer (for any `blocks`, any
previous content of `out`); `CNeon.hash_one_loop` shows that the `while` ends with its condition false -/
theorem neon_hash_one_eq (input : Mem) (blocks : Nat) (key : CV) (counter : UInt64) (flags fs fe : UInt8) (out : CV) :
    hash_one_neon input blocks key counter flags fs fe out
      = specHashBlocks key (blockOfMem input) blocks counter flags fs fe := by
  rw [CNeon.hash_one_eq, ← CNeon.cvOfC_eq]
  rfl

/-- **blake3_hash_many_neon.**  For ANY number of inputs, block count, counter and flags: the memory after the call
is the memory before with the `32 * num_inputs` bytes at the output pointer replaced by the chaining values of the
inputs in order -- input `k` hashed with counter `counter + k` (wrapping) if `increment_counter`, else `counter` --
groups of four through `blake3_hash4_neon`, the rest through `hash_one_neon`.  Exactly 32 bytes are written per
input and nothing else (`neon_hash_many_frame`).  No hypothesis is needed: memory is total in the model, so the
theorem says which addresses are written, not that they are valid (that is the caller's obligation). -/
theorem neon_hash_many_eq (inputs : PtrArr) (num_inputs blocks : Nat) (key : CV) (counter : UInt64) (incr : Bool)
    (flags fs fe : UInt8) (out : BytePtr) :
    (blake3_hash_many_neon inputs num_inputs blocks key counter incr flags fs fe out).mem
      = out.mem.write out.off ((List.range num_inputs).flatMap fun k =>
          bytesOfWords (specHashBlocks key (blockOfMem (inputs k)) blocks
            (counter + (if incr then UInt64.ofNat k else 0)) flags fs fe)) := by
  rw [CNeon.hash_many_eq, CNeon.outBytesC_eq_flatMap]
  simp only [CNeon.cvOfC_eq, advN_eq]

/-- the bytes written: `32 * num_inputs` of them; everything outside `[out, out + 32 * num_inputs)` is unchanged -/
theorem neon_hash_many_frame (inputs : PtrArr) (num_inputs blocks : Nat) (key : CV) (counter : UInt64) (incr : Bool)
    (flags fs fe : UInt8) (out : BytePtr) (j : Nat) (hj : j < out.off ∨ out.off + 32 * num_inputs ≤ j) :
    (blake3_hash_many_neon inputs num_inputs blocks key counter incr flags fs fe out).mem j = out.mem j := by
  rw [CNeon.hash_many_eq]
  apply Mem.write_outside
  rw [CNeon.outBytesC_length]
  exact hj

/-- both `while` loops of `blake3_hash_many_neon` end because their conditions become false (the iteration bound
of the translation is not what stops them) -/
theorem neon_hash_many_terminates (inputs : PtrArr) (num_inputs blocks : Nat) (key : CV) (counter : UInt64) (incr : Bool)
    (flags fs fe : UInt8) (out : BytePtr) :
    ∃ st, whileFuel (num_inputs + 1) blake3_hash_many_neon_cond1
        (blake3_hash_many_neon_loop2 blocks key incr flags fs fe) (out, counter, inputs, num_inputs) = st ∧
      blake3_hash_many_neon_cond1 st = false :=
  (CNeon.many_loop blocks key incr flags fs fe num_inputs out counter inputs (num_inputs + 1) (by omega)).2

/-- no input: memory is unchanged -/
example (inputs : PtrArr) (blocks : Nat) (key : CV) (counter : UInt64) (incr : Bool) (fl fs fe : UInt8) (out : BytePtr) :
    (blake3_hash_many_neon inputs 0 blocks key counter incr fl fs fe out).mem = out.mem := by
  rw [neon_hash_many_eq]; exact Mem.write_nil _ _

/-- a non-trivial instance: eleven one-block inputs, 352 bytes are written at the output pointer -/
example (inputs : PtrArr) (key : CV) (counter : UInt64) (fl fs fe : UInt8) (out : BytePtr) :
    ∃ bs : List UInt8, bs.length = 352 ∧
      (blake3_hash_many_neon inputs 11 1 key counter true fl fs fe out).mem = out.mem.write out.off bs := by
  refine ⟨_, ?_, neon_hash_many_eq inputs 11 1 key counter true fl fs fe out⟩
  simp [List.range_succ, bytesOfWords_length]

end B3.Simd
