/- `round_fn4` (translated) is the interpretation of its statement list (kernel check) -/
import B3.Simd.CAvx512Base
import B3.Gen.CAvx512Prog
namespace B3.Simd.C512
open B3 B3.Gen.CAvx512

def ops4 : ROps V4 := ⟨add_128, xor_128, rot16_128, rot12_128, rot8_128, rot7_128⟩

theorem round_fn4_eq_run (v m : Vector V4 16) (r : Fin 7) :
    round_fn4 v m r = rrun ops4 round_fn4_prog v (schedN m r) := by
  unfold round_fn4 round_fn4_part1 round_fn4_part2
  kernel_rfl

end B3.Simd.C512
