/-
Base definitions for the proofs about the generated SSE4.1 kernels
(`B3.Gen.RsSse41`, translated from src/rust_sse41.rs).  The theorems themselves are stated in
`B3/Simd/Sse41Props.lean`.
-/
import B3.Spec
import B3.Gen.RsSse41
import B3.Proofs.Compress
import B3.Simd.KernelRfl
namespace B3.Simd
open B3 B3.Gen.RsSse41

/-! ### the specification's G with the additions associated as the SIMD code does -/

/-- `Spec.g` with `(s[a] + x) + s[b]` instead of `(s[a] + s[b]) + x` -/
def gA (s : St) (a b c d : Fin 16) (x y : UInt32) : St :=
  let s := s.set a (s[a] + x + s[b])
  let s := s.set d (rotr (s[d] ^^^ s[a]) 16)
  let s := s.set c (s[c] + s[d])
  let s := s.set b (rotr (s[b] ^^^ s[c]) 12)
  let s := s.set a (s[a] + y + s[b])
  let s := s.set d (rotr (s[d] ^^^ s[a]) 8)
  let s := s.set c (s[c] + s[d])
  let s := s.set b (rotr (s[b] ^^^ s[c]) 7)
  s

theorem add_right_comm32 (a b c : UInt32) : a + b + c = a + c + b := by
  rw [UInt32.add_assoc, UInt32.add_comm b c, ← UInt32.add_assoc]

theorem gA_eq (s : St) (a b c d : Fin 16) (x y : UInt32) : gA s a b c d x y = Spec.g s a b c d x y := by
  unfold gA Spec.g
  simp only [add_right_comm32 _ x, add_right_comm32 _ y]

def roundWithA (s : St) (f : Fin 16 → UInt32) : St :=
  let s := gA s 0 4 8 12 (f 0) (f 1)
  let s := gA s 1 5 9 13 (f 2) (f 3)
  let s := gA s 2 6 10 14 (f 4) (f 5)
  let s := gA s 3 7 11 15 (f 6) (f 7)
  let s := gA s 0 5 10 15 (f 8) (f 9)
  let s := gA s 1 6 11 12 (f 10) (f 11)
  let s := gA s 2 7 8 13 (f 12) (f 13)
  let s := gA s 3 4 9 14 (f 14) (f 15)
  s

theorem roundWithA_eq (s : St) (f : Fin 16 → UInt32) : roundWithA s f = Spec.roundWith s f := by
  unfold roundWithA Spec.roundWith
  simp only [gA_eq]

/-! ### rows of the state, grouped message words -/

/-- row `k` of the 4x4 state: words `4k .. 4k+3` -/
def row (s : St) (k : Fin 4) : V4 :=
  #v[s[4 * k.val]'(by omega), s[4 * k.val + 1]'(by omega), s[4 * k.val + 2]'(by omega), s[4 * k.val + 3]'(by omega)]

/-- the message words in the grouped order which `m0 .. m3` hold after round 1 of `compress_pre`
(the order the source comments describe: `6 4 2 0`, `7 5 3 1`, `12 10 8 14`, `13 11 9 15`, highest lane first) -/
def grp0 (w : St) : V4 := #v[w[0], w[2], w[4], w[6]]
def grp1 (w : St) : V4 := #v[w[1], w[3], w[5], w[7]]
def grp2 (w : St) : V4 := #v[w[14], w[8], w[10], w[12]]
def grp3 (w : St) : V4 := #v[w[15], w[9], w[11], w[13]]

/-- what a round piece of `compress_pre` returns: the four rows of `s` and the grouped words of `w` -/
def rows8 (s w : St) : V4 × V4 × V4 × V4 × V4 × V4 × V4 × V4 :=
  (row s 0, row s 1, row s 2, row s 3, grp0 w, grp1 w, grp2 w, grp3 w)

/-- the rows of `s` and the words of `w` in their original order (what `compress_pre_init` returns) -/
def rows8r (s w : St) : V4 × V4 × V4 × V4 × V4 × V4 × V4 × V4 :=
  (row s 0, row s 1, row s 2, row s 3, row w 0, row w 1, row w 2, row w 3)

def rows4 (s : St) : V4 × V4 × V4 × V4 := (row s 0, row s 1, row s 2, row s 3)

/-- replace a 16-word vector by 16 fresh atoms -/
macro "atoms16 " s:ident : tactic => `(tactic|
  (rw [Proofs.vec16_eta $s]
   generalize $s[0] = a0; generalize $s[1] = a1; generalize $s[2] = a2; generalize $s[3] = a3
   generalize $s[4] = a4; generalize $s[5] = a5; generalize $s[6] = a6; generalize $s[7] = a7
   generalize $s[8] = a8; generalize $s[9] = a9; generalize $s[10] = a10; generalize $s[11] = a11
   generalize $s[12] = a12; generalize $s[13] = a13; generalize $s[14] = a14; generalize $s[15] = a15))

/-- rounds 2-6: one `Spec.round` with the permuted message; leave the permuted message in grouped order -/
macro "round_tac " s:ident w:ident : tactic => `(tactic|
  (unfold Spec.round
   rw [← roundWithA_eq]
   atoms16 $s; atoms16 $w
   kernel_rfl))


end B3.Simd
