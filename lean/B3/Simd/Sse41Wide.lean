/- the 4-way kernels (`round`, `transpose_vecs`, `transpose_msg_vecs`, `load_counters`) lane by lane -/
import B3.Simd.Sse41Lane0
import B3.Simd.Sse41Lane1
import B3.Simd.Sse41Lane2
import B3.Simd.Sse41Lane3
namespace B3.Simd
open B3 B3.Gen.RsSse41
open B3.Gen.Rs (MSG_SCHEDULE)

theorem round_lane_aux (l : Fin 4) (v m : Vector V4 16) (r : Fin 7) :
    lane l (round v m r) = roundWithA (lane l v) (fun i => (sched m r)[i][l]) := by
  match l with
  | 0 => exact round_lane0 v m r
  | 1 => exact round_lane1 v m r
  | 2 => exact round_lane2 v m r
  | 3 => exact round_lane3 v m r

theorem sched_get (m : Vector V4 16) (r : Fin 7) (i : Fin 16) : (sched m r)[i] = m[MSG_SCHEDULE[r][i]] := by
  match i with
  | ⟨0, _⟩ | ⟨1, _⟩ | ⟨2, _⟩ | ⟨3, _⟩ | ⟨4, _⟩ | ⟨5, _⟩ | ⟨6, _⟩ | ⟨7, _⟩
  | ⟨8, _⟩ | ⟨9, _⟩ | ⟨10, _⟩ | ⟨11, _⟩ | ⟨12, _⟩ | ⟨13, _⟩ | ⟨14, _⟩ | ⟨15, _⟩ => rfl
  | ⟨n + 16, h⟩ => omega

theorem lane_get (l : Fin 4) (v : Vector V4 16) (i : Fin 16) : (lane l v)[i] = v[i][l] := by
  match i with
  | ⟨0, _⟩ | ⟨1, _⟩ | ⟨2, _⟩ | ⟨3, _⟩ | ⟨4, _⟩ | ⟨5, _⟩ | ⟨6, _⟩ | ⟨7, _⟩
  | ⟨8, _⟩ | ⟨9, _⟩ | ⟨10, _⟩ | ⟨11, _⟩ | ⟨12, _⟩ | ⟨13, _⟩ | ⟨14, _⟩ | ⟨15, _⟩ => rfl
  | ⟨n + 16, h⟩ => omega

theorem lane_eq_map (l : Fin 4) (v : Vector V4 16) : lane l v = v.map (fun a => a[l]) := by
  apply Vector.ext
  intro i hi
  rw [Vector.getElem_map]
  exact lane_get l v ⟨i, hi⟩

/-- lane `l` of the 4-way round is the specification's round on lane `l` -/
theorem round_lane (l : Fin 4) (v m : Vector V4 16) (r : Fin 7) :
    lane l (round v m r) = Spec.roundWith (lane l v) (fun i => (lane l m)[MSG_SCHEDULE[r][i]]) := by
  rw [round_lane_aux, roundWithA_eq]
  congr 1
  funext i
  rw [sched_get, lane_get]

end B3.Simd
