/-
Running the generated AVX2 and SSE2 kernels (evaluated with the lane models of `B3/Simd/Prim.lean`,
`Prim256.lean`, `Sse2Prim.lean`) on concrete inputs, so that they can be compared with the real crate
running on the CPU.  Formats as in `B3/Simd/Run.lean` (whose helpers are reused), the operation prefixed with
the kernel family:

  sse2:cip   <cv hex, 32 bytes> <block hex, 64 bytes> <block_len> <counter> <flags>   -> 32 bytes hex
  sse2:cxof  <cv hex, 32 bytes> <block hex, 64 bytes> <block_len> <counter> <flags>   -> 64 bytes hex
  sse2:hash4 <blocks> <key hex> <counter> <incr 0|1> <flags> <flags_start> <flags_end> <in hex>*4   -> 128 bytes hex
  avx2:hash8 <blocks> <key hex> <counter> <incr 0|1> <flags> <flags_start> <flags_end> <in hex>*8   -> 256 bytes hex
  sse2:hmany / avx2:hmany
        <N> <count> <key hex> <counter> <incr 0|1> <flags> <flags_start> <flags_end> <in hex>*count
        (each input N bytes, `-` = empty; the out buffer is 32*count zero bytes)      -> 32*count bytes hex

`lake env lean --run RunSimd2.lean < cases.txt` prints one answer per line (`ERR` for a malformed line).
-/
import B3.Simd.Run
import B3.Gen.RsAvx2
import B3.Gen.RsSse2
namespace B3.Simd.Run2
open B3 B3.Simd B3.Simd.Run

def incrOf (s : String) : Option Bool := if s = "1" then some true else if s = "0" then some false else none

/-- the arguments shared by `hash4` / `hash8`: blocks, key, counter, incr, the three flag bytes, `n` inputs -/
def hashArgs (n : Nat) (toks : List String) :
    Option (Nat × CV × UInt64 × Bool × UInt8 × UInt8 × UInt8 × List (Array UInt8)) :=
  match toks with
  | blocks :: key :: counter :: incr :: flags :: fs :: fe :: ins => do
    let blocks ← blocks.toNat?
    let key ← bytesOfHex key
    if key.size ≠ 32 ∨ ins.length ≠ n then none
    let ins ← ins.mapM fun h => do
      let a ← bytesOfHex h
      if a.size ≠ 64 * blocks then none
      some a
    some (blocks, wordsOfBytes 8 key.toList, ← u64 counter, ← incrOf incr, ← u8 flags, ← u8 fs, ← u8 fe, ins)
  | _ => none

def manyArgs (toks : List String) :
    Option (Nat × Nat × CV × UInt64 × Bool × UInt8 × UInt8 × UInt8 × List (List UInt8)) :=
  match toks with
  | n :: cnt :: key :: counter :: incr :: flags :: fs :: fe :: ins => do
    let n ← n.toNat?
    let cnt ← cnt.toNat?
    let key ← bytesOfHex key
    if key.size ≠ 32 ∨ ins.length ≠ cnt then none
    let inputs ← ins.mapM fun h => do
      let a ← bytesOfHex h
      if a.size ≠ n then none
      some a.toList
    some (n, cnt, wordsOfBytes 8 key.toList, ← u64 counter, ← incrOf incr, ← u8 flags, ← u8 fs, ← u8 fe, inputs)
  | _ => none

def runLine (toks : List String) : Option String :=
  match toks with
  | "sse2:cip" :: rest => do
    let (cv, block, bl, t, fl) ← compressArgs rest
    some (hexOfBytes (bytesOfWords (Gen.RsSse2.compress_in_place cv block bl t fl)))
  | "sse2:cxof" :: rest => do
    let (cv, block, bl, t, fl) ← compressArgs rest
    some (hexOfBytes (bytesOfWords (Gen.RsSse2.compress_xof cv block bl t fl)))
  | "sse2:hash4" :: rest => do
    let (blocks, key, t, incr, fl, fs, fe, ins) ← hashArgs 4 rest
    let p := fun k => Run.memOf (ins.getD k #[])
    some (hexOfBytes (bytesOfWords
      (Gen.RsSse2.hash4 #v[p 0, p 1, p 2, p 3] blocks key t incr fl fs fe (Vector.replicate 32 0))))
  | "avx2:hash8" :: rest => do
    let (blocks, key, t, incr, fl, fs, fe, ins) ← hashArgs 8 rest
    let p := fun k => Run.memOf (ins.getD k #[])
    some (hexOfBytes (bytesOfWords
      (Gen.RsAvx2.hash8 #v[p 0, p 1, p 2, p 3, p 4, p 5, p 6, p 7] blocks key t incr fl fs fe (Vector.replicate 64 0))))
  | "sse2:hmany" :: rest => do
    let (n, cnt, key, t, incr, fl, fs, fe, inputs) ← manyArgs rest
    some (hexOfBytes
      (Gen.RsSse2.hash_many n inputs key t incr fl fs fe (MutSlice.ofList (List.replicate (32 * cnt) 0))).buf)
  | "avx2:hmany" :: rest => do
    let (n, cnt, key, t, incr, fl, fs, fe, inputs) ← manyArgs rest
    some (hexOfBytes
      (Gen.RsAvx2.hash_many n inputs key t incr fl fs fe (MutSlice.ofList (List.replicate (32 * cnt) 0))).buf)
  | _ => none

end B3.Simd.Run2
