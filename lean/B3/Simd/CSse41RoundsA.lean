/- round pieces 1-2 of the generated C `compress_pre` against `Spec.round` (kernel-checked) -/
import B3.Simd.CSse41Base
namespace B3.Simd.CSse41
open B3.Simd.CI
open B3 B3.Simd B3.Gen.CSse41

/-- round 1 of `compress_pre`: one `Spec.round` with the block in its original order; leaves the block
in grouped order -/
theorem round1_eq (s w : St) :
    compress_pre_round1 (rows5r s w) = rows5 (Spec.round s w) w := by
  cround_tac compress_pre_round1 s w

theorem round2_eq (s w : St) :
    compress_pre_round2 (rows5 s w) = rows5 (Spec.round s (Spec.permute w)) (Spec.permute w) := by
  cround_tac compress_pre_round2 s w

end B3.Simd.CSse41
