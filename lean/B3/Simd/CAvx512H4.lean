/- `blake3_hash4_avx512` against the specification -/
import B3.Simd.CAvx512X4
import B3.Simd.CAvx512HashLoop
namespace B3.Simd.C512
open B3 B3.Gen.CAvx512
open B3.Gen.C (MSG_SCHEDULE IV)

theorem hash4_body_shape (inputs : MemArr) (blocks : Nat) (flags fe : UInt8) (lo hi : V4) (h : Vector V4 8) (bf : UInt8)
    (b : Nat) :
    blake3_hash4_avx512_loop1 inputs blocks flags fe lo hi (h, bf) b
      = (outN xor_128 h (roundsN round_fn4
          (initN set1_128 h lo hi 64 (if b + 1 = blocks then bf ||| fe else bf).toUInt32)
          (transpose_msg_vecs4 inputs (b * 64) (Vector.replicate 16 (Vector.replicate 4 0)))), flags) := rfl

def hash4H (inputs : MemArr) (blocks : Nat) (key : CV) (c : UInt64) (incr : Bool) (flags fs fe : UInt8) : Vector V4 8 :=
  ((List.range blocks).foldl
    (blake3_hash4_avx512_loop1 inputs blocks flags fe (load_counters4 c incr).1 (load_counters4 c incr).2)
    (hvN set1_128 key, flags ||| fs)).1

/-- the two 4x4 transpositions of the eight registers -/
def hash4T (h : Vector V4 8) : Vector V4 8 :=
  let h := setSlice4 h 0 (transpose_vecs_128 (slice4 h 0))
  setSlice4 h 4 (transpose_vecs_128 (slice4 h 4))

/-- the eight 16-byte rows in the order in which they are stored -/
def hrows4 (t : Vector V4 8) : List (List UInt8) :=
  [bytesOfWords t[0], bytesOfWords t[4], bytesOfWords t[1], bytesOfWords t[5], bytesOfWords t[2], bytesOfWords t[6],
   bytesOfWords t[3], bytesOfWords t[7]]

theorem hash4_shape (inputs : MemArr) (blocks : Nat) (key : CV) (c : UInt64) (incr : Bool) (flags fs fe : UInt8) (out : BPtr) :
    blake3_hash4_avx512 inputs blocks key c incr flags fs fe out
      = wrAll 16 out 0 (hrows4 (hash4T (hash4H inputs blocks key c incr flags fs fe))) := rfl

theorem hash4T_block (h : Vector V4 8) (i : Nat) (hi : i < 4) :
    bytesOfWords ((hash4T h)[i]'(by omega)) ++ bytesOfWords ((hash4T h)[i + 4]'(by omega)) = bytesOfWords (cvLaneN ⟨i, hi⟩ h) := by
  rw [vec8_eta' h]
  generalize h[0] = a0; generalize h[1] = a1; generalize h[2] = a2; generalize h[3] = a3
  generalize h[4] = a4; generalize h[5] = a5; generalize h[6] = a6; generalize h[7] = a7
  match i, hi with
  | 0, _ => kernel_rfl
  | 1, _ => kernel_rfl
  | 2, _ => kernel_rfl
  | 3, _ => kernel_rfl
  | n + 4, h => omega

theorem hash4H_lane (inputs : MemArr) (blocks : Nat) (key : CV) (c : UInt64) (incr : Bool) (flags fs fe : UInt8) (l : Fin 4) :
    cvLaneN l (hash4H inputs blocks key c incr flags fs fe)
      = specHashBlocks key (blockOfMem (inputs l.val)) blocks (ctr64 c incr l.val) flags fs fe := by
  unfold hash4H
  rw [(hloop_inv _ blocks flags fs fe l (ctr64 c incr l.val) (fun b => blockAt (inputs l.val) (b * 64)) (by
      intro h bf b
      rw [hash4_body_shape]
      refine ⟨rfl, ?_⟩
      show cvLaneN l (outN _ _ _) = _
      rw [cvLaneN_compress set1_128 xor_128 round_fn4 set1_128_get xor_128_get round_fn4_lane _ _ _ _ _ _ l (ctr64 c incr l.val)
        (load_counters4_lane c incr l).1 (load_counters4_lane c incr l).2, transpose_msg_vecs4_lane])
    (hvN set1_128 key) blocks).2, cvLaneN_hvN set1_128 set1_128_get, foldBlocksN_eq_spec]

theorem hash4_eq (inputs : MemArr) (blocks : Nat) (key : CV) (c : UInt64) (incr : Bool) (flags fs fe : UInt8) (out : BPtr)
    (h : out.off ≤ out.buf.length) :
    blake3_hash4_avx512 inputs blocks key c incr flags fs fe out
      = wr out 0 (hashBytes inputs blocks key c incr flags fs fe 4) := by
  rw [hash4_shape, wrAll_flatten 16 _ _ out 0 h]
  · have e : (hrows4 (hash4T (hash4H inputs blocks key c incr flags fs fe))).flatten
        = [bytesOfWords (cvLaneN (⟨0, by omega⟩ : Fin 4) (hash4H inputs blocks key c incr flags fs fe)),
           bytesOfWords (cvLaneN (⟨1, by omega⟩ : Fin 4) (hash4H inputs blocks key c incr flags fs fe)),
           bytesOfWords (cvLaneN (⟨2, by omega⟩ : Fin 4) (hash4H inputs blocks key c incr flags fs fe)),
           bytesOfWords (cvLaneN (⟨3, by omega⟩ : Fin 4) (hash4H inputs blocks key c incr flags fs fe))].flatten := by
      rw [← hash4T_block _ 0 (by omega), ← hash4T_block _ 1 (by omega), ← hash4T_block _ 2 (by omega), ← hash4T_block _ 3 (by omega)]
      unfold hrows4
      simp only [List.flatten_cons, List.flatten_nil, List.append_assoc, List.append_nil]
    rw [e]
    unfold hashBytes
    simp only [hash4H_lane]
    rfl
  · intro x hx
    unfold hrows4 at hx
    simp only [List.mem_cons, List.not_mem_nil, or_false] at hx
    rcases hx with h | h | h | h | h | h | h | h <;> rw [h, length_bytesOfWords]

end B3.Simd.C512
