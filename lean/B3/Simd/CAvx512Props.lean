/-
The theorems about the AVX-512 kernels of c/blake3_avx512.c (as translated into `B3.Gen.CAvx512` by
gen/ext_simd_avx512.py, over the lane model `B3/Simd/Prim.lean` + `B3/Simd/Prim512.lean` of the intrinsics).
Every statement is for ALL arguments.  Proofs: `B3/Simd/CAvx512*.lean`.

Memory written through `uint8_t *out` is a `BPtr` (buffer + offset); a statement about such a function gives
the whole buffer afterwards: the bytes before `out`, the bytes written, the bytes after -- so it also says that
exactly that many bytes are written.  The hypothesis `out.off + len ≤ out.buf.length` says that the output
range lies inside the buffer (the model has no meaning for out-of-bounds stores).
-/
import B3.Simd.CAvx512HashMany
namespace B3.Simd.C512
open B3 B3.Gen.CAvx512
open B3.Gen.C (MSG_SCHEDULE)

theorem wr0_buf (p : BPtr) (bs : List UInt8) :
    (wr p 0 bs).buf = p.buf.take p.off ++ bs ++ p.buf.drop (p.off + bs.length) := wr_buf p 0 bs

/-! ### main theorems -/

/-! #### counters (the carry logic) -/

/-- `load_counters16`: lane `i` of the low / high vector = low / high 32 bits of `counter + i` (64-bit wrapping add)
when incrementing, of `counter` otherwise.  The code adds in 32 bits and derives the carry into the high word from
the sign bits of the low word before and after the addition; this is correct for every 64-bit counter. -/
theorem c512_load_counters16 (counter : UInt64) (incr : Bool) (i : Fin 16) :
    (load_counters16 counter incr).1[i] = (counter + (if incr then UInt64.ofNat i.val else 0)).toUInt32 ∧
    (load_counters16 counter incr).2[i] = ((counter + (if incr then UInt64.ofNat i.val else 0)) >>> 32).toUInt32 :=
  load_counters16_lane counter incr i

/-- `load_counters8` (64-bit lane arithmetic, then truncation / shift) -/
theorem c512_load_counters8 (counter : UInt64) (incr : Bool) (i : Fin 8) :
    (load_counters8 counter incr).1[i] = (counter + (if incr then UInt64.ofNat i.val else 0)).toUInt32 ∧
    (load_counters8 counter incr).2[i] = ((counter + (if incr then UInt64.ofNat i.val else 0)) >>> 32).toUInt32 :=
  load_counters8_lane counter incr i

/-- `load_counters4` -/
theorem c512_load_counters4 (counter : UInt64) (incr : Bool) (i : Fin 4) :
    (load_counters4 counter incr).1[i] = (counter + (if incr then UInt64.ofNat i.val else 0)).toUInt32 ∧
    (load_counters4 counter incr).2[i] = ((counter + (if incr then UInt64.ofNat i.val else 0)) >>> 32).toUInt32 :=
  load_counters4_lane counter incr i

/-- the carry inside one call: low words wrap, the high words of the lanes past the wrap are incremented -/
example : (load_counters16 0x00000001FFFFFFF9 true).1
            = #v[0xFFFFFFF9, 0xFFFFFFFA, 0xFFFFFFFB, 0xFFFFFFFC, 0xFFFFFFFD, 0xFFFFFFFE, 0xFFFFFFFF, 0, 1, 2, 3, 4, 5, 6, 7, 8] ∧
          (load_counters16 0x00000001FFFFFFF9 true).2 = #v[1, 1, 1, 1, 1, 1, 1, 2, 2, 2, 2, 2, 2, 2, 2, 2] := by decide

example : (load_counters8 0xFFFFFFFFFFFFFFFE true).1 = #v[0xFFFFFFFE, 0xFFFFFFFF, 0, 1, 2, 3, 4, 5] ∧
          (load_counters8 0xFFFFFFFFFFFFFFFE true).2 = #v[0xFFFFFFFF, 0xFFFFFFFF, 0, 0, 0, 0, 0, 0] := by decide

/-! #### single-block compression -/

/-- `blake3_compress_in_place_avx512` is the specification's compression function, first 8 words -/
theorem c512_compress_in_place (cv : CV) (block : St) (bl : UInt8) (t : UInt64) (fl : UInt8) :
    blake3_compress_in_place_avx512 cv block bl t fl = first8 (Spec.compress cv block t bl.toUInt32 fl.toUInt32) :=
  c512_compress_in_place_eq cv block bl t fl

/-- hence it agrees with the portable C kernel -/
theorem c512_compress_in_place_eq_portable (cv : CV) (block : St) (bl : UInt8) (t : UInt64) (fl : UInt8) :
    blake3_compress_in_place_avx512 cv block bl t fl = Gen.C.compress_in_place cv block bl t fl := by
  rw [c512_compress_in_place, Proofs.c_compress_in_place_eq]

/-- `blake3_compress_xof_avx512` writes the 64 bytes of the specification's compression function at `out` -/
theorem c512_compress_xof (cv : CV) (block : St) (bl : UInt8) (t : UInt64) (fl : UInt8) (out : BPtr)
    (h : out.off + 64 ≤ out.buf.length) :
    (blake3_compress_xof_avx512 cv block bl t fl out).buf
      = out.buf.take out.off ++ bytesOfWords (Spec.compress cv block t bl.toUInt32 fl.toUInt32) ++ out.buf.drop (out.off + 64) := by
  rw [c512_compress_xof_eq cv block bl t fl out (by omega), wr0_buf, length_bytesOfWords]

/-! #### the wide rounds -/

/-- lane `l` of `round_fn16` is one round of the specification on lane `l` of the state, with the message words of
lane `l` taken in the order `MSG_SCHEDULE[r]`: sixteen independent rounds (`laneN l v = v.map (·[l])`) -/
theorem c512_round_fn16 (v m : Vector V16 16) (r : Fin 7) (l : Fin 16) :
    laneN l (round_fn16 v m r) = Spec.roundWith (laneN l v) (fun i => (laneN l m)[MSG_SCHEDULE[r][i]]) :=
  round_fn16_lane v m r l

theorem c512_round_fn8 (v m : Vector V8 16) (r : Fin 7) (l : Fin 8) :
    laneN l (round_fn8 v m r) = Spec.roundWith (laneN l v) (fun i => (laneN l m)[MSG_SCHEDULE[r][i]]) :=
  round_fn8_lane v m r l

theorem c512_round_fn4 (v m : Vector V4 16) (r : Fin 7) (l : Fin 4) :
    laneN l (round_fn4 v m r) = Spec.roundWith (laneN l v) (fun i => (laneN l m)[MSG_SCHEDULE[r][i]]) :=
  round_fn4_lane v m r l

/-- in the vocabulary of the portable code -/
theorem c512_round_fn16_portable (v m : Vector V16 16) (r : Fin 7) (l : Fin 16) :
    laneN l (round_fn16 v m r) = Gen.C.round_fn (laneN l v) (laneN l m) r := by
  rw [c512_round_fn16, c_sched_round, Proofs.c_round_eq]

/-! #### transposes -/

theorem c512_transpose_vecs_512 (vs : Vector V16 16) (i j : Fin 16) : (transpose_vecs_512 vs)[i][j] = vs[j][i] :=
  transpose_vecs_512_get vs i j

theorem c512_transpose_vecs_256 (vs : Vector V8 8) (i j : Fin 8) : (transpose_vecs_256 vs)[i][j] = vs[j][i] :=
  transpose_vecs_256_get vs i j

theorem c512_transpose_vecs_128 (vs : Vector V4 4) (i j : Fin 4) : (transpose_vecs_128 vs)[i][j] = vs[j][i] :=
  transpose_vecs_128_get vs i j

/-- message register `k`, lane `i` = little-endian word `k` of the 64 bytes at `block_offset` of input `i`
(whatever the `out` array held before) -/
theorem c512_transpose_msg_vecs16 (inputs : MemArr) (off : Nat) (out : Vector V16 16) (k : Fin 16) (i : Fin 16) :
    (transpose_msg_vecs16 inputs off out)[k][i] = (inputs i.val).word (off + 4 * k.val) := by
  rw [← laneN_get, transpose_msg_vecs16_lane, blockAt_get]

theorem c512_transpose_msg_vecs8 (inputs : MemArr) (off : Nat) (out : Vector V8 16) (k : Fin 16) (i : Fin 8) :
    (transpose_msg_vecs8 inputs off out)[k][i] = (inputs i.val).word (off + 4 * k.val) := by
  rw [← laneN_get, transpose_msg_vecs8_lane, blockAt_get]

theorem c512_transpose_msg_vecs4 (inputs : MemArr) (off : Nat) (out : Vector V4 16) (k : Fin 16) (i : Fin 4) :
    (transpose_msg_vecs4 inputs off out)[k][i] = (inputs i.val).word (off + 4 * k.val) := by
  rw [← laneN_get, transpose_msg_vecs4_lane, blockAt_get]

/-! #### blake3_hash16 / 8 / 4 and blake3_hash_many

`hashBytes inputs blocks key counter incr flags fs fe n` = the `32 n` bytes
`bytesOfWords (specHashBlocks key (blocks of input i) blocks (counter + (incr ? i : 0)) flags fs fe)`, `i = 0 … n-1`
(`specHashBlocks` as in `Sse41Props.lean`: block `b` carries `flags`, plus `flags_start` if first, plus `flags_end` if
last, block length 64). -/

theorem c512_hash16 (inputs : MemArr) (blocks : Nat) (key : CV) (counter : UInt64) (incr : Bool) (flags fs fe : UInt8)
    (out : BPtr) (h : out.off + 512 ≤ out.buf.length) :
    (blake3_hash16_avx512 inputs blocks key counter incr flags fs fe out).buf
      = out.buf.take out.off ++ hashBytes inputs blocks key counter incr flags fs fe 16 ++ out.buf.drop (out.off + 512) := by
  rw [hash16_eq _ _ _ _ _ _ _ _ _ (by omega), wr0_buf, hashBytes_length]

theorem c512_hash8 (inputs : MemArr) (blocks : Nat) (key : CV) (counter : UInt64) (incr : Bool) (flags fs fe : UInt8)
    (out : BPtr) (h : out.off + 256 ≤ out.buf.length) :
    (blake3_hash8_avx512 inputs blocks key counter incr flags fs fe out).buf
      = out.buf.take out.off ++ hashBytes inputs blocks key counter incr flags fs fe 8 ++ out.buf.drop (out.off + 256) := by
  rw [hash8_eq _ _ _ _ _ _ _ _ _ (by omega), wr0_buf, hashBytes_length]

theorem c512_hash4 (inputs : MemArr) (blocks : Nat) (key : CV) (counter : UInt64) (incr : Bool) (flags fs fe : UInt8)
    (out : BPtr) (h : out.off + 128 ≤ out.buf.length) :
    (blake3_hash4_avx512 inputs blocks key counter incr flags fs fe out).buf
      = out.buf.take out.off ++ hashBytes inputs blocks key counter incr flags fs fe 4 ++ out.buf.drop (out.off + 128) := by
  rw [hash4_eq _ _ _ _ _ _ _ _ _ (by omega), wr0_buf, hashBytes_length]

/-- `hash_one_avx512` -/
theorem c512_hash_one (input : Mem) (blocks : Nat) (key : CV) (counter : UInt64) (flags fs fe : UInt8) (out : BPtr) :
    (hash_one_avx512 input blocks key counter flags fs fe out).buf
      = out.buf.take out.off ++ bytesOfWords (specHashBlocks key (blockOfMem input) blocks counter flags fs fe)
        ++ out.buf.drop (out.off + 32) := by
  rw [hash_one_eq, wr0_buf, length_bytesOfWords]

/-- **blake3_hash_many_avx512** (groups of 16, then 8, then 4, then single inputs): exactly `32 n` bytes are written, the
chaining values of the `n` inputs in order; input `i` is hashed with counter `counter + i` (64-bit wrapping) if
`increment_counter`, else `counter`; the rest of the buffer is unchanged. -/
theorem c512_hash_many (inputs : MemArr) (n blocks : Nat) (key : CV) (counter : UInt64) (incr : Bool) (flags fs fe : UInt8)
    (out : BPtr) (h : out.off + 32 * n ≤ out.buf.length) :
    (blake3_hash_many_avx512 inputs n blocks key counter incr flags fs fe out).buf
      = out.buf.take out.off
        ++ (List.range n).flatMap (fun i => bytesOfWords (specHashBlocks key (blockOfMem (inputs i)) blocks
              (counter + (if incr then UInt64.ofNat i else 0)) flags fs fe))
        ++ out.buf.drop (out.off + 32 * n) :=
  c512_hash_many_eq inputs n blocks key counter incr flags fs fe out h

/-- the hypothesis is satisfiable: 37 inputs (two groups of 16, one of 4, one single), a buffer of exactly 37·32 bytes -/
example : ∃ out : BPtr, out.off + 32 * 37 ≤ out.buf.length := ⟨⟨List.replicate 1184 0, 0⟩, by rw [List.length_replicate]; decide⟩

/-! #### blake3_xof16 / 8 / 4 and blake3_xof_many -/

/-- **blake3_xof_many_avx512**: exactly `64 n` bytes are written; block `i` of them is
`Spec.compress cv block (counter + i) block_len flags` (64-bit wrapping add: the carry into the high counter word is
propagated inside a 16-, 8- or 4-block call as well as between calls), for every `n` and every counter; the rest of
the buffer is unchanged. -/
theorem c512_xof_many (cv : CV) (block : St) (bl : UInt8) (counter : UInt64) (fl : UInt8) (out : BPtr) (n : Nat)
    (h : out.off + 64 * n ≤ out.buf.length) :
    (blake3_xof_many_avx512 cv block bl counter fl out n).buf
      = out.buf.take out.off
        ++ (List.range n).flatMap (fun i => bytesOfWords (Spec.compress cv block (counter + UInt64.ofNat i) bl.toUInt32 fl.toUInt32))
        ++ out.buf.drop (out.off + 64 * n) :=
  xof_many_eq cv block bl counter fl out n h

theorem c512_xof16 (cv : CV) (block : St) (bl : UInt8) (counter : UInt64) (fl : UInt8) (out : BPtr)
    (h : out.off + 1024 ≤ out.buf.length) :
    (blake3_xof16_avx512 cv block bl counter fl out).buf
      = out.buf.take out.off ++ xofBytes cv block bl fl counter 16 ++ out.buf.drop (out.off + 1024) := by
  rw [xof16_eq _ _ _ _ _ _ (by omega), wr0_buf, xofBytes_length]

theorem c512_xof8 (cv : CV) (block : St) (bl : UInt8) (counter : UInt64) (fl : UInt8) (out : BPtr)
    (h : out.off + 512 ≤ out.buf.length) :
    (blake3_xof8_avx512 cv block bl counter fl out).buf
      = out.buf.take out.off ++ xofBytes cv block bl fl counter 8 ++ out.buf.drop (out.off + 512) := by
  rw [xof8_eq _ _ _ _ _ _ (by omega), wr0_buf, xofBytes_length]

theorem c512_xof4 (cv : CV) (block : St) (bl : UInt8) (counter : UInt64) (fl : UInt8) (out : BPtr)
    (h : out.off + 256 ≤ out.buf.length) :
    (blake3_xof4_avx512 cv block bl counter fl out).buf
      = out.buf.take out.off ++ xofBytes cv block bl fl counter 4 ++ out.buf.drop (out.off + 256) := by
  rw [xof4_eq _ _ _ _ _ _ (by omega), wr0_buf, xofBytes_length]

/-- the written range, read back: output block `i < n` of `blake3_xof_many_avx512` -/
theorem c512_xof_many_length (cv : CV) (block : St) (bl : UInt8) (counter : UInt64) (fl : UInt8) (n : Nat) :
    ((List.range n).flatMap (fun i => bytesOfWords (Spec.compress cv block (counter + UInt64.ofNat i) bl.toUInt32 fl.toUInt32))).length
      = 64 * n := xofBytes_length cv block bl fl counter n

end B3.Simd.C512
