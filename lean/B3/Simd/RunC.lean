/-
Running the generated C intrinsics kernels (evaluated with the lane model of `B3/Simd/Prim.lean`, `PrimC.lean`,
`Prim256C.lean`) on concrete inputs, so that they can be compared with the compiled C files running on the CPU
(/verif/harness/c/build/cdriver, ops `CK cip|cxof|hmany <sym> …`, symbols `sse41_c`, `sse2_c`, `avx2_c`).
The input lines are the cdriver's own:

  CK cip|cxof <sym> <cv hex, 32 bytes> <block hex, 64 bytes> <block_len> <counter> <flags>      -> 32 / 64 bytes hex
  CK hmany <sym> <n> <blocks> <seed> <key hex> <counter> <incr 0|1> <flags> <fstart> <fend> <inoff> <outoff>
        input i = `blocks*64` bytes of the LCG stream started at `seed + i`;  -> 32*n bytes hex
        (`inoff` / `outoff` only move the buffers in the real process; they are ignored here)

`lake env lean --run RunSimdC.lean < cases.txt` prints one answer per line (`ERR` for a malformed line).
-/
import B3.Gen.CSse41
import B3.Gen.CSse2
import B3.Gen.CAvx2
import B3.Simd.Run
namespace B3.Simd.RunC
open B3 B3.Simd B3.Simd.CI B3.Simd.Run

/-- the bytes `off … off+n-1` of a memory -/
def readBytes (m : Mem) (off n : Nat) : List UInt8 := (List.range n).map fun i => m (off + i)

def zeroOut : BytePtr := ⟨fun _ => 0, 0⟩

def runLine (toks : List String) : Option String :=
  match toks with
  | "CK" :: "cip" :: sym :: rest => do
    let (cv, block, bl, t, fl) ← compressArgs rest
    match sym with
    | "sse41_c" => some (hexOfBytes (bytesOfWords (Gen.CSse41.blake3_compress_in_place_sse41 cv block bl t fl)))
    | "sse2_c" => some (hexOfBytes (bytesOfWords (Gen.CSse2.blake3_compress_in_place_sse2 cv block bl t fl)))
    | _ => none
  | "CK" :: "cxof" :: sym :: rest => do
    let (cv, block, bl, t, fl) ← compressArgs rest
    match sym with
    | "sse41_c" => some (hexOfBytes (bytesOfWords (Gen.CSse41.blake3_compress_xof_sse41 cv block bl t fl (Vector.replicate 16 0))))
    | "sse2_c" => some (hexOfBytes (bytesOfWords (Gen.CSse2.blake3_compress_xof_sse2 cv block bl t fl (Vector.replicate 16 0))))
    | _ => none
  | ["CK", "hmany", sym, n, blocks, seed, key, counter, incr, flags, fs, fe, _inoff, _outoff] => do
    let n ← n.toNat?
    let blocks ← blocks.toNat?
    let seed ← u64 seed
    let key ← bytesOfHex key
    if key.size ≠ 32 then none
    let incr ← (if incr = "1" then some true else if incr = "0" then some false else none)
    let ins : Array (Array UInt8) := (Array.range n).map fun i => (patBytes (64 * blocks) (seed + UInt64.ofNat i)).toArray
    let inputs : PtrArr := fun i => Run.memOf (ins.getD i #[])
    let key := wordsOfBytes 8 key.toList
    let counter ← u64 counter
    let flags ← u8 flags
    let fs ← u8 fs
    let fe ← u8 fe
    let out ← (match sym with
      | "sse41_c" => some (Gen.CSse41.blake3_hash_many_sse41 inputs n blocks key counter incr flags fs fe zeroOut)
      | "sse2_c" => some (Gen.CSse2.blake3_hash_many_sse2 inputs n blocks key counter incr flags fs fe zeroOut)
      | "avx2_c" => some (Gen.CAvx2.blake3_hash_many_avx2 inputs n blocks key counter incr flags fs fe zeroOut)
      | _ => none)
    some (hexOfBytes (readBytes out.mem 0 (32 * n)))
  | _ => none

end B3.Simd.RunC
