/- `round_fn8`: every lane is the specification's round -/
import B3.Simd.CAvx512Run8
import B3.Simd.CAvx512Round16
namespace B3.Simd.C512
open B3 B3.Gen.CAvx512
open B3.Gen.C (MSG_SCHEDULE)

theorem prog8_boxed (s x : St) : toS (rrun opsW round_fn8_prog (ofS s) (ofS x)) = roundWithA s (fun i => x[i]) := by
  boxed_round_tac s x

theorem prog8_scalar (s x : St) : rrun opsS round_fn8_prog s x = Spec.roundWith s (fun i => x[i]) :=
  scalar_of_boxed round_fn8_prog prog8_boxed s x

theorem lane8_cases (P : Fin 8 → Prop) (h0 : P 0) (h1 : P 1) (h2 : P 2) (h3 : P 3) (h4 : P 4) (h5 : P 5) (h6 : P 6)
    (h7 : P 7) (l : Fin 8) : P l := by
  match l with
  | ⟨0, _⟩ => exact h0 | ⟨1, _⟩ => exact h1 | ⟨2, _⟩ => exact h2 | ⟨3, _⟩ => exact h3
  | ⟨4, _⟩ => exact h4 | ⟨5, _⟩ => exact h5 | ⟨6, _⟩ => exact h6 | ⟨7, _⟩ => exact h7
  | ⟨n + 8, h⟩ => omega

theorem map2_8_get (f : UInt32 → UInt32 → UInt32) (a b : V8) (l : Fin 8) : (map2_8 f a b)[l] = f a[l] b[l] := by
  revert l
  apply lane8_cases <;> rfl

theorem map8_get (f : UInt32 → UInt32) (a : V8) (l : Fin 8) : (map8 f a)[l] = f a[l] := by
  revert l
  apply lane8_cases <;> rfl

theorem hom8 (l : Fin 8) : ops8.Hom opsS (fun a => a[l]) := by
  constructor
  · intro a b; exact map2_8_get (· + ·) a b l
  · intro a b; exact map2_8_get (· ^^^ ·) a b l
  · intro a; exact (map8_get (fun x => ror32 x 16) a l).trans (ror32_eq _).1
  · intro a; exact (map8_get (fun x => ror32 x 12) a l).trans (ror32_eq _).2.1
  · intro a; exact (map8_get (fun x => ror32 x 8) a l).trans (ror32_eq _).2.2.1
  · intro a; exact (map8_get (fun x => ror32 x 7) a l).trans (ror32_eq _).2.2.2

/-- lane `l` of the 8-way round is one round of the specification on lane `l` -/
theorem round_fn8_lane (v m : Vector V8 16) (r : Fin 7) (l : Fin 8) :
    laneN l (round_fn8 v m r) = Spec.roundWith (laneN l v) (fun i => (laneN l m)[MSG_SCHEDULE[r][i]]) := by
  rw [round_fn8_eq_run]
  exact round_lane_of_run ops8 round_fn8_prog hom8 prog8_scalar v m r l

end B3.Simd.C512
