/- `round_fn16` (translated) is the interpretation of its statement list (kernel check) -/
import B3.Simd.CAvx512Base
import B3.Gen.CAvx512Prog
namespace B3.Simd.C512
open B3 B3.Gen.CAvx512

def ops16 : ROps V16 := ⟨add_512, xor_512, rot16_512, rot12_512, rot8_512, rot7_512⟩

theorem round_fn16_eq_run (v m : Vector V16 16) (r : Fin 7) :
    round_fn16 v m r = rrun ops16 round_fn16_prog v (schedN m r) := by
  unfold round_fn16 round_fn16_part1 round_fn16_part2
  kernel_rfl

end B3.Simd.C512
