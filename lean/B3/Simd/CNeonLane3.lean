/- lane 3 of the generated C 4-way `round_fn4` (kernel check) -/
import B3.Simd.CNeonWideBase
namespace B3.Simd.CNeon
open B3.Simd.CI B3.Simd.Neon
open B3 B3.Simd B3.Gen.CNeon
open B3.Gen.C (MSG_SCHEDULE)

theorem round_lane3 (v m : Vector V4 16) (r : Fin 7) :
    lane 3 (round_fn4 v m r) = roundWithA (lane 3 v) (fun i => (schedC m r)[i][(3 : Fin 4)]) := by
  nround_lane_tac v m r

end B3.Simd.CNeon
