/- `blake3_hash16_avx512` against the specification -/
import B3.Simd.CAvx512X16
import B3.Simd.CAvx512HashLoop
namespace B3.Simd.C512
open B3 B3.Gen.CAvx512
open B3.Gen.C (MSG_SCHEDULE IV)

/-- one iteration of the block loop has this shape (unfolding only) -/
theorem hash16_body_shape (inputs : MemArr) (blocks : Nat) (flags fe : UInt8) (lo hi : V16) (h : Vector V16 8) (bf : UInt8)
    (b : Nat) :
    blake3_hash16_avx512_loop1 inputs blocks flags fe lo hi (h, bf) b
      = (outN xor_512 h (roundsN round_fn16
          (initN set1_512 h lo hi 64 (if b + 1 = blocks then bf ||| fe else bf).toUInt32)
          (transpose_msg_vecs16 inputs (b * 64) (Vector.replicate 16 (Vector.replicate 16 0)))), flags) := rfl

/-- the chaining-value registers after the loop -/
def hash16H (inputs : MemArr) (blocks : Nat) (key : CV) (c : UInt64) (incr : Bool) (flags fs fe : UInt8) : Vector V16 8 :=
  ((List.range blocks).foldl
    (blake3_hash16_avx512_loop1 inputs blocks flags fe (load_counters16 c incr).1 (load_counters16 c incr).2)
    (hvN set1_512 key, flags ||| fs)).1

/-- `padded`: the eight registers and eight zero registers -/
def pad16 (h : Vector V16 8) : Vector V16 16 :=
  #v[h[0], h[1], h[2], h[3], h[4], h[5], h[6], h[7], set1_512 0, set1_512 0, set1_512 0, set1_512 0, set1_512 0, set1_512 0,
     set1_512 0, set1_512 0]

/-- consecutive full-mask 32-byte stores of the low halves -/
def mstoreAll : BPtr → Nat → List V16 → BPtr
  | p, _, [] => p
  | p, k, x :: xs => mstoreAll (BPtr.merge p (_mm256_mask_storeu_epi32 (BPtr.add p k) 255 (_mm512_castsi512_si256 x))) (k + 32) xs

theorem mstoreAll_eq (xs : List V16) (p : BPtr) (k : Nat) :
    mstoreAll p k xs = wrAll 32 p k (xs.map fun x => bytesOfWords (_mm512_castsi512_si256 x)) := by
  induction xs generalizing p k with
  | nil => rfl
  | cons x xs ih => rw [mstoreAll, mask_store_full, ih]; rfl

theorem hash16_shape (inputs : MemArr) (blocks : Nat) (key : CV) (c : UInt64) (incr : Bool) (flags fs fe : UInt8) (out : BPtr) :
    blake3_hash16_avx512 inputs blocks key c incr flags fs fe out
      = mstoreAll out 0 (transpose_vecs_512 (pad16 (hash16H inputs blocks key c incr flags fs fe))).toList := by
  rw [vec16_eta' (transpose_vecs_512 _)]
  rfl

/-- the low half of row `k` of the transposed padded matrix is the chaining value of lane `k` -/
theorem cast_row16 (h : Vector V16 8) (k : Fin 16) :
    _mm512_castsi512_si256 (laneN k (pad16 h)) = cvLaneN k h := by
  revert k
  apply lane16_cases <;> rfl

theorem hash16H_lane (inputs : MemArr) (blocks : Nat) (key : CV) (c : UInt64) (incr : Bool) (flags fs fe : UInt8) (l : Fin 16) :
    cvLaneN l (hash16H inputs blocks key c incr flags fs fe)
      = specHashBlocks key (blockOfMem (inputs l.val)) blocks (ctr64 c incr l.val) flags fs fe := by
  unfold hash16H
  rw [(hloop_inv _ blocks flags fs fe l (ctr64 c incr l.val) (fun b => blockAt (inputs l.val) (b * 64)) (by
      intro h bf b
      rw [hash16_body_shape]
      refine ⟨rfl, ?_⟩
      show cvLaneN l (outN _ _ _) = _
      rw [cvLaneN_compress set1_512 xor_512 round_fn16 set1_512_get xor_512_get round_fn16_lane _ _ _ _ _ _ l (ctr64 c incr l.val)
        (load_counters16_lane c incr l).1 (load_counters16_lane c incr l).2, transpose_msg_vecs16_lane])
    (hvN set1_512 key) blocks).2, cvLaneN_hvN set1_512 set1_512_get, foldBlocksN_eq_spec]

theorem hash16_eq (inputs : MemArr) (blocks : Nat) (key : CV) (c : UInt64) (incr : Bool) (flags fs fe : UInt8) (out : BPtr)
    (h : out.off ≤ out.buf.length) :
    blake3_hash16_avx512 inputs blocks key c incr flags fs fe out
      = wr out 0 (hashBytes inputs blocks key c incr flags fs fe 16) := by
  rw [hash16_shape, mstoreAll_eq, wrAll_flatten 32 _ _ out 0 h]
  · unfold hashBytes
    rw [vec16_eta' (transpose_vecs_512 _)]
    simp only [Vector.toList_mk, List.map_cons, List.map_nil, transpose_vecs_512_row_nat, cast_row16, hash16H_lane]
    rfl
  · intro x hx
    rw [List.mem_map] at hx
    obtain ⟨y, _, rfl⟩ := hx
    exact length_bytesOfWords _

end B3.Simd.C512
