/- `hash_one_neon` (the one-input fallback of `blake3_hash_many_neon`): a `while` loop of the PORTABLE
`blake3_compress_in_place_portable` (= `Gen.C.compress_in_place`, proved equal to the specification in
`Proofs.c_compress_in_place_eq` / `Props.C05.c_portable_eq_spec`): the file has no NEON single-block compression -/
import B3.Proofs.Compress
import B3.Simd.CNeonHash4
namespace B3.Simd.CNeon
open B3.Simd.CI B3.Simd.Neon
open B3 B3.Simd B3.Gen.CNeon

theorem whileFuel_succ' {σ : Type} (fuel : Nat) (c : σ → Bool) (f : σ → σ) (s : σ) :
    whileFuel (fuel + 1) c f s = if c s then whileFuel fuel c f (f s) else s := rfl

theorem Mem.add_add (p : Mem) (a b : Nat) : Mem.add (Mem.add p a) b = Mem.add p (a + b) := by
  funext i
  simp only [Mem.add, Nat.add_assoc]

/-- the 64 bytes at a pointer advanced by `64 * k` are block `k` -/
theorem words_add (p : Mem) (k : Nat) : Mem.words 16 (Mem.add p (64 * k)) 0 = blockAt p (k * 64) := by
  apply Vector.ext
  intro j hj
  have h := blockAt_get p (k * 64) ⟨j, hj⟩
  simp only [Fin.getElem_fin] at h
  rw [h, Mem.words, Vector.getElem_ofFn]
  simp only [Mem.word, Mem.add]
  have e : ∀ x, 64 * k + (0 + 4 * j + x) = k * 64 + 4 * j + x := by intro x; omega
  have e0 : 64 * k + (0 + 4 * j) = k * 64 + 4 * j := by omega
  rw [e0, e 1, e 2, e 3]

/-- the loop of `hash_one_neon`, started after `k` of the `total` blocks -/
theorem hash_one_loop (input : Mem) (key : CV) (counter : UInt64) (flags fs fe : UInt8) (total : Nat) :
    ∀ (d k fuel : Nat), k + d = total → d + 1 ≤ fuel →
      whileFuel fuel hash_one_neon_cond1 (hash_one_neon_loop2 counter flags fe)
          (if k = 0 then flags ||| fs else flags,
           foldBlocksN key (fun b => blockAt input (b * 64)) total counter flags fs fe k, Mem.add input (64 * k), d)
        = (if total = 0 then flags ||| fs else flags,
           foldBlocksN key (fun b => blockAt input (b * 64)) total counter flags fs fe total, Mem.add input (64 * total), 0) := by
  intro d
  induction d with
  | zero =>
    intro k fuel hk hf
    obtain ⟨fuel, rfl⟩ : ∃ n, fuel = n + 1 := ⟨fuel - 1, by omega⟩
    have hk' : k = total := by omega
    subst hk'
    rw [whileFuel_succ']
    rfl
  | succ d ih =>
    intro k fuel hk hf
    obtain ⟨fuel, rfl⟩ : ∃ n, fuel = n + 1 := ⟨fuel - 1, by omega⟩
    rw [whileFuel_succ']
    have hc : hash_one_neon_cond1 (if k = 0 then flags ||| fs else flags,
        foldBlocksN key (fun b => blockAt input (b * 64)) total counter flags fs fe k, Mem.add input (64 * k), d + 1) = true := by
      simp only [hash_one_neon_cond1, decide_eq_true_eq]; omega
    rw [hc, if_pos rfl]
    have hstep : hash_one_neon_loop2 counter flags fe (if k = 0 then flags ||| fs else flags,
        foldBlocksN key (fun b => blockAt input (b * 64)) total counter flags fs fe k, Mem.add input (64 * k), d + 1)
        = (if k + 1 = 0 then flags ||| fs else flags,
           foldBlocksN key (fun b => blockAt input (b * 64)) total counter flags fs fe (k + 1), Mem.add input (64 * (k + 1)), d) := by
      simp only [hash_one_neon_loop2, Proofs.c_compress_in_place_eq, words_add, Mem.add_add]
      have e1 : (d + 1 = 1) ↔ (k + 1 = total) := by omega
      have e2 : Arith.w64sub (d + 1) 1 = d := by simp [Arith.w64sub]
      have e3 : 64 * k + 64 = 64 * (k + 1) := by omega
      simp only [e1, e2, e3]
      rw [flags_step]
      simp only [Nat.add_one_ne_zero, if_false]
      congr 1
      congr 1
      unfold foldBlocksN
      rw [List.range_succ, List.foldl_append]
      rfl
    rw [hstep]
    exact ih (k + 1) fuel (by omega) (by omega)

/-- `hash_one_neon` = the specification's fold over the `blocks` blocks at the input pointer; the loop stops
because its condition becomes false, not because of the fuel bound; the previous content of `out` is irrelevant -/
theorem hash_one_eq (input : Mem) (blocks : Nat) (key : CV) (counter : UInt64) (flags fs fe : UInt8) (out : CV) :
    hash_one_neon input blocks key counter flags fs fe out
      = foldBlocksN key (fun b => blockAt input (b * 64)) blocks counter flags fs fe blocks := by
  have h := hash_one_loop input key counter flags fs fe blocks blocks 0 (blocks + 1) (by omega) (by omega)
  have h0 : foldBlocksN key (fun b => blockAt input (b * 64)) blocks counter flags fs fe 0 = key := rfl
  have hm : Mem.add input (64 * 0) = input := by funext i; simp [Mem.add]
  rw [h0, hm] at h
  simp only [if_true] at h
  simp only [hash_one_neon]
  rw [h]

end B3.Simd.CNeon
