/- `blake3_hash_many_neon`: groups of four inputs through `blake3_hash4_neon`, the remaining ones through `hash_one_neon` -/
import B3.Simd.CNeonHash1
import B3.Simd.Sse41HashMany
namespace B3.Simd.CNeon
open B3.Simd.CI B3.Simd.Neon
open B3 B3.Simd B3.Gen.CNeon

/-! ### what `blake3_hash_many_neon` should write -/

/-- the chaining value of the `blocks` blocks at `p` hashed with counter `t` -/
def cvOfC (blocks : Nat) (key : CV) (flags fs fe : UInt8) (p : Mem) (t : UInt64) : CV :=
  foldBlocksN key (fun b => blockAt p (b * 64)) blocks t flags fs fe blocks

/-- the output bytes for the first `n` inputs, the first one hashed with counter `t` -/
def outBytesC (blocks : Nat) (key : CV) (flags fs fe : UInt8) (incr : Bool) : PtrArr → Nat → UInt64 → List UInt8
  | _, 0, _ => []
  | ps, n + 1, t => bytesOfWords (cvOfC blocks key flags fs fe (ps 0) t)
      ++ outBytesC blocks key flags fs fe incr (PtrArr.add ps 1) n (adv incr t)

theorem outBytesC_length (blocks : Nat) (key : CV) (flags fs fe : UInt8) (incr : Bool) (ps : PtrArr) (n : Nat) (t : UInt64) :
    (outBytesC blocks key flags fs fe incr ps n t).length = 32 * n := by
  induction n generalizing ps t with
  | zero => rfl
  | succ n ih => simp only [outBytesC, List.length_append, bytesOfWords_length, ih]; omega

theorem PtrArr.add_add (p : PtrArr) (a b : Nat) : PtrArr.add (PtrArr.add p a) b = PtrArr.add p (a + b) := by
  funext i
  simp only [PtrArr.add, Nat.add_assoc]

theorem PtrArr.add_zero (p : PtrArr) : PtrArr.add p 0 = p := by
  funext i
  simp only [PtrArr.add, Nat.zero_add]

theorem outBytesC_append (blocks : Nat) (key : CV) (flags fs fe : UInt8) (incr : Bool) (ps : PtrArr) (a b : Nat) (t : UInt64) :
    outBytesC blocks key flags fs fe incr ps (a + b) t
      = outBytesC blocks key flags fs fe incr ps a t
        ++ outBytesC blocks key flags fs fe incr (PtrArr.add ps a) b (advN incr t a) := by
  induction a generalizing ps t with
  | zero => simp [outBytesC, PtrArr.add_zero, advN]
  | succ a ih =>
    have e : a + 1 + b = (a + b) + 1 := by omega
    rw [e]
    simp only [outBytesC, ih, List.append_assoc, PtrArr.add_add, advN]
    rw [advN_adv, Nat.add_comm 1 a]

/-! ### one group of four inputs -/

theorem hash4_bytes (inputs : PtrArr) (blocks : Nat) (key : CV) (t : UInt64) (incr : Bool) (flags fs fe : UInt8) :
    bytesOfWords (outWords (hash4Loop inputs blocks key t incr flags fs fe).2)
      = outBytesC blocks key flags fs fe incr inputs 4 t := by
  rw [bytesOfWords_split32, hash4Loop_lane, hash4Loop_lane, hash4Loop_lane, hash4Loop_lane,
    ctr_eq_advN, ctr_eq_advN, ctr_eq_advN, ctr_eq_advN]
  simp only [outBytesC, cvOfC, advN, PtrArr.add, List.append_nil]
  rfl

/-! ### the loops -/

/-- one iteration of the first `while` loop -/
theorem many_step (blocks : Nat) (key : CV) (incr : Bool) (flags fs fe : UInt8) (o : BytePtr) (t : UInt64)
    (ps : PtrArr) (n : Nat) (h4 : 4 ≤ n) :
    blake3_hash_many_neon_loop2 blocks key incr flags fs fe (o, t, ps, n)
      = (⟨o.mem.write o.off (outBytesC blocks key flags fs fe incr ps 4 t), o.off + 128⟩,
         advN incr t 4, PtrArr.add ps 4, n - 4) := by
  have e : Arith.w64sub n 4 = n - 4 := by simp [Arith.w64sub, h4]
  simp only [blake3_hash_many_neon_loop2, hash4_eq_write, hash4_bytes, BytePtr.back, BytePtr.add, advN_four, e]

/-- one iteration of the second `while` loop -/
theorem rem_step (blocks : Nat) (key : CV) (incr : Bool) (flags fs fe : UInt8) (o : BytePtr) (t : UInt64)
    (ps : PtrArr) (n : Nat) :
    blake3_hash_many_neon_loop4 blocks key incr flags fs fe (o, t, ps, n + 1)
      = (⟨o.mem.write o.off (bytesOfWords (cvOfC blocks key flags fs fe (ps 0) t)), o.off + 32⟩,
         adv incr t, PtrArr.add ps 1, n) := by
  have e : Arith.w64sub (n + 1) 1 = n := by simp [Arith.w64sub]
  simp only [blake3_hash_many_neon_loop4, hash_one_eq, BytePtr.writeWords, BytePtr.add, e, Nat.add_zero, cvOfC, adv]

/-- the second `while` loop: one `hash_one_neon` per remaining input; ends with its condition false -/
theorem rem_loop (blocks : Nat) (key : CV) (incr : Bool) (flags fs fe : UInt8) :
    ∀ (n : Nat) (o : BytePtr) (t : UInt64) (ps : PtrArr) (fuel : Nat), n + 1 ≤ fuel →
      whileFuel fuel blake3_hash_many_neon_cond3 (blake3_hash_many_neon_loop4 blocks key incr flags fs fe) (o, t, ps, n)
        = (⟨o.mem.write o.off (outBytesC blocks key flags fs fe incr ps n t), o.off + 32 * n⟩,
           advN incr t n, PtrArr.add ps n, 0) := by
  intro n
  induction n with
  | zero =>
    intro o t ps fuel hf
    obtain ⟨fuel, rfl⟩ : ∃ k, fuel = k + 1 := ⟨fuel - 1, by omega⟩
    rw [whileFuel_succ']
    simp [blake3_hash_many_neon_cond3, outBytesC, Mem.write_nil, advN, PtrArr.add_zero]
  | succ n ih =>
    intro o t ps fuel hf
    obtain ⟨fuel, rfl⟩ : ∃ k, fuel = k + 1 := ⟨fuel - 1, by omega⟩
    rw [whileFuel_succ']
    have hc : blake3_hash_many_neon_cond3 (o, t, ps, n + 1) = true := by
      simp [blake3_hash_many_neon_cond3]
    rw [hc, if_pos rfl, rem_step, ih _ _ _ fuel (by omega)]
    have hl : (bytesOfWords (cvOfC blocks key flags fs fe (ps 0) t)).length = 32 := by rw [bytesOfWords_length]
    have hw := Mem.write_write_adj o.mem o.off (bytesOfWords (cvOfC blocks key flags fs fe (ps 0) t))
      (outBytesC blocks key flags fs fe incr (PtrArr.add ps 1) n (adv incr t))
    rw [hl] at hw
    simp only [hw, outBytesC, PtrArr.add_add, advN_adv, advN]
    have e1 : o.off + 32 + 32 * n = o.off + 32 * (n + 1) := by omega
    have e2 : 1 + n = n + 1 := by omega
    rw [e1, e2]

/-- what follows the first `while` loop, as a function of the state that loop leaves -/
def manyRem (blocks : Nat) (key : CV) (incr : Bool) (flags fs fe : UInt8) (st : BytePtr × UInt64 × PtrArr × Nat) : BytePtr :=
  (whileFuel (st.2.2.2 + 1) blake3_hash_many_neon_cond3 (blake3_hash_many_neon_loop4 blocks key incr flags fs fe) st).1

theorem hash_many_unfold (inputs : PtrArr) (n blocks : Nat) (key : CV) (counter : UInt64) (incr : Bool)
    (flags fs fe : UInt8) (out : BytePtr) :
    blake3_hash_many_neon inputs n blocks key counter incr flags fs fe out
      = manyRem blocks key incr flags fs fe
          (whileFuel (n + 1) blake3_hash_many_neon_cond1 (blake3_hash_many_neon_loop2 blocks key incr flags fs fe)
            (out, counter, inputs, n)) := rfl

/-- the whole of `blake3_hash_many_neon`, for any sufficient iteration bound of the first loop; both loops end
with their conditions false -/
theorem many_loop (blocks : Nat) (key : CV) (incr : Bool) (flags fs fe : UInt8) :
    ∀ (n : Nat) (o : BytePtr) (t : UInt64) (ps : PtrArr) (fuel : Nat), n + 1 ≤ fuel →
      manyRem blocks key incr flags fs fe
        (whileFuel fuel blake3_hash_many_neon_cond1 (blake3_hash_many_neon_loop2 blocks key incr flags fs fe) (o, t, ps, n))
        = ⟨o.mem.write o.off (outBytesC blocks key flags fs fe incr ps n t), o.off + 32 * n⟩ ∧
      ∃ st, whileFuel fuel blake3_hash_many_neon_cond1 (blake3_hash_many_neon_loop2 blocks key incr flags fs fe) (o, t, ps, n) = st ∧
        blake3_hash_many_neon_cond1 st = false := by
  intro n
  induction n using Nat.strongRecOn with
  | _ n ih =>
    intro o t ps fuel hf
    obtain ⟨fuel, rfl⟩ : ∃ k, fuel = k + 1 := ⟨fuel - 1, by omega⟩
    rw [whileFuel_succ']
    by_cases h4 : 4 ≤ n
    · have hc : blake3_hash_many_neon_cond1 (o, t, ps, n) = true := by
        simp only [blake3_hash_many_neon_cond1, decide_eq_true_eq]; omega
      rw [hc, if_pos rfl, many_step blocks key incr flags fs fe o t ps n h4]
      obtain ⟨r1, r2⟩ := ih (n - 4) (by omega)
        ⟨o.mem.write o.off (outBytesC blocks key flags fs fe incr ps 4 t), o.off + 128⟩ (advN incr t 4) (PtrArr.add ps 4) fuel (by omega)
      refine ⟨?_, r2⟩
      rw [r1]
      have hl : (outBytesC blocks key flags fs fe incr ps 4 t).length = 128 := by rw [outBytesC_length]
      have hw := Mem.write_write_adj o.mem o.off (outBytesC blocks key flags fs fe incr ps 4 t)
        (outBytesC blocks key flags fs fe incr (PtrArr.add ps 4) (n - 4) (advN incr t 4))
      rw [hl] at hw
      have e := outBytesC_append blocks key flags fs fe incr ps 4 (n - 4) t
      have e4 : 4 + (n - 4) = n := by omega
      rw [e4] at e
      simp only [hw, ← e]
      have e1 : o.off + 128 + 32 * (n - 4) = o.off + 32 * n := by omega
      rw [e1]
    · have hc : blake3_hash_many_neon_cond1 (o, t, ps, n) = false := by
        simp only [blake3_hash_many_neon_cond1, decide_eq_false_iff_not]; omega
      rw [hc]
      refine ⟨?_, _, rfl, hc⟩
      simp only [manyRem, Bool.false_eq_true, if_false]
      rw [rem_loop blocks key incr flags fs fe n o t ps (n + 1) (by omega)]

/-- `blake3_hash_many_neon` stores the chaining values of the `n` inputs one after the other at the output
pointer (`32 * n` bytes) and changes no other byte of memory -/
theorem hash_many_eq (inputs : PtrArr) (n blocks : Nat) (key : CV) (counter : UInt64) (incr : Bool)
    (flags fs fe : UInt8) (out : BytePtr) :
    (blake3_hash_many_neon inputs n blocks key counter incr flags fs fe out).mem
      = out.mem.write out.off (outBytesC blocks key flags fs fe incr inputs n counter) := by
  rw [hash_many_unfold, (many_loop blocks key incr flags fs fe n out counter inputs (n + 1) (by omega)).1]

end B3.Simd.CNeon
