/- round pieces 7 of the generated Wasm SIMD `compress_pre` against `Spec.round` (kernel-checked, ~13 s each) -/
import B3.Simd.WasmBase
namespace B3.Simd.Wasm
open B3 B3.Simd B3.Gen.RsWasm

theorem round7_eq (s w : St) :
    compress_pre_round7 (rows8 s w)
      = rows4 (Spec.round s (Spec.permute w)) := by wround_tac compress_pre_round7 s w

end B3.Simd.Wasm
