/- lane 1 of the generated AVX2 8-way `round` (kernel check) -/
import B3.Simd.Avx2Base
namespace B3.Simd.Avx2
open B3 B3.Simd B3.Gen.RsAvx2
open B3.Gen.Rs (MSG_SCHEDULE)

theorem round_lane1 (v m : Vector V8 16) (r : Fin 7) :
    lane8 1 (round v m r) = roundWithA (lane8 1 v) (fun i => (sched8 m r)[i][(1 : Fin 8)]) := by
  round_lane_tac8 v m r

end B3.Simd.Avx2
