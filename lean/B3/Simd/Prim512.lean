/-
Lane model of the AVX-512 (F + VL) / AVX2 intrinsics used by `c/blake3_avx512.c`, in addition to the
SSE ones of `B3/Simd/Prim.lean`.

THIS FILE IS TRUSTED: it is the statement of what the hardware instructions do (every definition
carries the pseudo-code of the Intel Intrinsics Guide it transcribes) and of how the translator
`gen/ext_simd_avx512.py` views C memory.  The model is validated at run time by `B3/Simd/RunC512.lean`
(the generated kernels, evaluated with these definitions, are compared with the compiled C file running
on the CPU through /verif/harness/c/build/cdriver, flavour `avx512_c`).

`__m256i` / `__m512i` are vectors of 8 / 16 32-bit lanes (`dword`s), lane 0 = bits 31:0 = the lowest
address in memory.  The 64-bit-lane instructions (`*_epi64`) see qword `j` as dwords `2j` (low half) and
`2j+1` (high half).  `int` / `long long` arguments are represented by their two's complement bit patterns
(`UInt32` / `UInt64`).
-/
import B3.Simd.Prim
namespace B3.Simd.C512
open B3

/-- `__m256i` as eight 32-bit lanes -/
abbrev V8 := Vector UInt32 8
/-- `__m512i` as sixteen 32-bit lanes -/
abbrev V16 := Vector UInt32 16

/-! ### helpers: lane-wise maps, 128-bit lanes, 64-bit lanes -/

def map8 (f : UInt32 → UInt32) (a : V8) : V8 :=
  #v[f a[0], f a[1], f a[2], f a[3], f a[4], f a[5], f a[6], f a[7]]
def map2_8 (f : UInt32 → UInt32 → UInt32) (a b : V8) : V8 :=
  #v[f a[0] b[0], f a[1] b[1], f a[2] b[2], f a[3] b[3], f a[4] b[4], f a[5] b[5], f a[6] b[6], f a[7] b[7]]
def map16 (f : UInt32 → UInt32) (a : V16) : V16 :=
  #v[f a[0], f a[1], f a[2], f a[3], f a[4], f a[5], f a[6], f a[7],
     f a[8], f a[9], f a[10], f a[11], f a[12], f a[13], f a[14], f a[15]]
def map2_16 (f : UInt32 → UInt32 → UInt32) (a b : V16) : V16 :=
  #v[f a[0] b[0], f a[1] b[1], f a[2] b[2], f a[3] b[3], f a[4] b[4], f a[5] b[5], f a[6] b[6], f a[7] b[7],
     f a[8] b[8], f a[9] b[9], f a[10] b[10], f a[11] b[11], f a[12] b[12], f a[13] b[13], f a[14] b[14], f a[15] b[15]]

/-- 128-bit lane `k` of a register: `a[128k+127 : 128k]` -/
def lane128 {n : Nat} (a : Vector UInt32 n) (k : Nat) (h : 4 * k + 3 < n := by decide) : V4 :=
  #v[a[4 * k], a[4 * k + 1], a[4 * k + 2], a[4 * k + 3]]

/-- a 256-bit register from its two 128-bit lanes (low first) -/
def join2 (x0 x1 : V4) : V8 := #v[x0[0], x0[1], x0[2], x0[3], x1[0], x1[1], x1[2], x1[3]]
/-- a 512-bit register from its four 128-bit lanes (low first) -/
def join4 (x0 x1 x2 x3 : V4) : V16 :=
  #v[x0[0], x0[1], x0[2], x0[3], x1[0], x1[1], x1[2], x1[3], x2[0], x2[1], x2[2], x2[3], x3[0], x3[1], x3[2], x3[3]]

/-- the 64-bit value with low half `lo` and high half `hi` (arithmetic, like `le32`) -/
def u64of (lo hi : UInt32) : UInt64 := UInt64.ofNat (lo.toNat + 4294967296 * hi.toNat)
/-- `x[31:0]` (also: `Truncate32`) -/
def lo32 (x : UInt64) : UInt32 := x.toUInt32
/-- `x[63:32]` -/
def hi32 (x : UInt64) : UInt32 := (x >>> 32).toUInt32

/-- qword `j` of a register -/
def q64 {n : Nat} (a : Vector UInt32 n) (j : Nat) (h : 2 * j + 1 < n := by decide) : UInt64 :=
  u64of a[2 * j] a[2 * j + 1]
def ofQ4 (x0 x1 x2 x3 : UInt64) : V8 := #v[lo32 x0, hi32 x0, lo32 x1, hi32 x1, lo32 x2, hi32 x2, lo32 x3, hi32 x3]
def ofQ8 (x0 x1 x2 x3 x4 x5 x6 x7 : UInt64) : V16 :=
  #v[lo32 x0, hi32 x0, lo32 x1, hi32 x1, lo32 x2, hi32 x2, lo32 x3, hi32 x3,
     lo32 x4, hi32 x4, lo32 x5, hi32 x5, lo32 x6, hi32 x6, lo32 x7, hi32 x7]

/-! ### rotates (AVX-512F / VL)

`DEFINE RIGHT_ROTATE_DWORDS(src, count_src) { count := count_src % 32;
   RETURN (src >> count) OR (src << (32 - count)) }`
(for `count = 0` both conventions -- a 32-bit shift by 32 giving 0, or, as here, the shift amount taken
modulo 32 -- return `src`) -/
def ror32 (x : UInt32) (imm8 : Nat) : UInt32 :=
  (x >>> UInt32.ofNat (imm8 % 32)) ||| (x <<< (32 - UInt32.ofNat (imm8 % 32)))

/-- `FOR j := 0 to 3: dst.dword[j] := RIGHT_ROTATE_DWORDS(a.dword[j], imm8[7:0])` -/
def _mm_ror_epi32 (a : V4) (imm8 : Nat) : V4 := #v[ror32 a[0] imm8, ror32 a[1] imm8, ror32 a[2] imm8, ror32 a[3] imm8]
/-- `FOR j := 0 to 7: dst.dword[j] := RIGHT_ROTATE_DWORDS(a.dword[j], imm8[7:0])` -/
def _mm256_ror_epi32 (a : V8) (imm8 : Nat) : V8 := map8 (fun x => ror32 x imm8) a
/-- `FOR j := 0 to 15: dst.dword[j] := RIGHT_ROTATE_DWORDS(a.dword[j], imm8[7:0])` -/
def _mm512_ror_epi32 (a : V16) (imm8 : Nat) : V16 := map16 (fun x => ror32 x imm8) a

/-! ### 256-bit (AVX2 / AVX-512VL) -/

/-- `FOR j := 0 to 7: dst.dword[j] := a.dword[j] + b.dword[j]` (wrapping) -/
def _mm256_add_epi32 (a b : V8) : V8 := map2_8 (· + ·) a b
/-- `dst[255:0] := (a[255:0] XOR b[255:0])` -/
def _mm256_xor_si256 (a b : V8) : V8 := map2_8 (· ^^^ ·) a b
/-- `dst[255:0] := (a[255:0] AND b[255:0])` -/
def _mm256_and_si256 (a b : V8) : V8 := map2_8 (· &&& ·) a b
/-- `FOR j := 0 to 7: dst.dword[j] := a` -/
def _mm256_set1_epi32 (a : UInt32) : V8 := #v[a, a, a, a, a, a, a, a]
/-- `FOR j := 0 to 3: dst.qword[j] := a` -/
def _mm256_set1_epi64x (a : UInt64) : V8 := ofQ4 a a a a
/-- `dst[63:0] := e3; dst[127:64] := e2; dst[191:128] := e1; dst[255:192] := e0`
(the guide names the *first* argument of `setr` `e3`; it goes to the lowest qword) -/
def _mm256_setr_epi64x (e3 e2 e1 e0 : UInt64) : V8 := ofQ4 e3 e2 e1 e0
/-- `FOR j := 0 to 3: dst.qword[j] := a.qword[j] + b.qword[j]` (wrapping) -/
def _mm256_add_epi64 (a b : V8) : V8 :=
  ofQ4 (q64 a 0 + q64 b 0) (q64 a 1 + q64 b 1) (q64 a 2 + q64 b 2) (q64 a 3 + q64 b 3)
/-- one qword of a logical right shift by an immediate:
`IF imm8[7:0] > 63 THEN 0 ELSE ZeroExtend64(x >> imm8[7:0])` -/
def srl64 (x : UInt64) (imm8 : Nat) : UInt64 :=
  if imm8 % 256 > 63 then 0 else x >>> UInt64.ofNat (imm8 % 256)
/-- `FOR j := 0 to 3: dst.qword[j] := imm8[7:0] > 63 ? 0 : ZeroExtend64(a.qword[j] >> imm8[7:0])` -/
def _mm256_srli_epi64 (a : V8) (imm8 : Nat) : V8 :=
  ofQ4 (srl64 (q64 a 0) imm8) (srl64 (q64 a 1) imm8) (srl64 (q64 a 2) imm8) (srl64 (q64 a 3) imm8)
/-- `FOR j := 0 to 3: dst.dword[j] := Truncate32(a.qword[j])`  (256 -> 128 bits, `vpmovqd`) -/
def _mm256_cvtepi64_epi32 (a : V8) : V4 := #v[lo32 (q64 a 0), lo32 (q64 a 1), lo32 (q64 a 2), lo32 (q64 a 3)]

/-- per 128-bit lane: `INTERLEAVE_DWORDS(src1[127:0], src2[127:0])` = `_mm_unpacklo_epi32` -/
def _mm256_unpacklo_epi32 (a b : V8) : V8 :=
  join2 (_mm_unpacklo_epi32 (lane128 a 0) (lane128 b 0)) (_mm_unpacklo_epi32 (lane128 a 1) (lane128 b 1))
/-- per 128-bit lane: `INTERLEAVE_HIGH_DWORDS` = `_mm_unpackhi_epi32` -/
def _mm256_unpackhi_epi32 (a b : V8) : V8 :=
  join2 (_mm_unpackhi_epi32 (lane128 a 0) (lane128 b 0)) (_mm_unpackhi_epi32 (lane128 a 1) (lane128 b 1))
/-- per 128-bit lane: `INTERLEAVE_QWORDS` = `_mm_unpacklo_epi64` -/
def _mm256_unpacklo_epi64 (a b : V8) : V8 :=
  join2 (_mm_unpacklo_epi64 (lane128 a 0) (lane128 b 0)) (_mm_unpacklo_epi64 (lane128 a 1) (lane128 b 1))
/-- per 128-bit lane: `INTERLEAVE_HIGH_QWORDS` = `_mm_unpackhi_epi64` -/
def _mm256_unpackhi_epi64 (a b : V8) : V8 :=
  join2 (_mm_unpackhi_epi64 (lane128 a 0) (lane128 b 0)) (_mm_unpackhi_epi64 (lane128 a 1) (lane128 b 1))

/-- `SELECT4(src1, src2, control)` of `_mm256_permute2x128_si256`:
`CASE control[1:0] OF 0: src1[127:0]; 1: src1[255:128]; 2: src2[127:0]; 3: src2[255:128]`;
`IF control[3] THEN 0` -/
def select2x128 (src1 src2 : V8) (control : Nat) : V4 :=
  if control.testBit 3 then #v[0, 0, 0, 0] else
  match control &&& 3 with
  | 0 => lane128 src1 0
  | 1 => lane128 src1 1
  | 2 => lane128 src2 0
  | _ => lane128 src2 1
/-- `dst[127:0] := SELECT4(a, b, imm8[3:0]); dst[255:128] := SELECT4(a, b, imm8[7:4])` -/
def _mm256_permute2x128_si256 (a b : V8) (imm8 : Nat) : V8 :=
  join2 (select2x128 a b imm8) (select2x128 a b (imm8 >>> 4))

/-! ### 512-bit (AVX-512F) -/

/-- `FOR j := 0 to 15: dst.dword[j] := a.dword[j] + b.dword[j]` (wrapping) -/
def _mm512_add_epi32 (a b : V16) : V16 := map2_16 (· + ·) a b
/-- `dst[511:0] := (a[511:0] XOR b[511:0])` -/
def _mm512_xor_si512 (a b : V16) : V16 := map2_16 (· ^^^ ·) a b
/-- `dst[511:0] := (a[511:0] AND b[511:0])` -/
def _mm512_and_si512 (a b : V16) : V16 := map2_16 (· &&& ·) a b
/-- `dst[511:0] := ((NOT a[511:0]) AND b[511:0])` -/
def _mm512_andnot_si512 (a b : V16) : V16 := map2_16 (fun x y => ~~~x &&& y) a b
/-- `FOR j := 0 to 15: dst.dword[j] := a` -/
def _mm512_set1_epi32 (a : UInt32) : V16 := #v[a, a, a, a, a, a, a, a, a, a, a, a, a, a, a, a]
/-- `dst[31:0] := e0; dst[63:32] := e1; … dst[511:480] := e15` (arguments from the highest lane down) -/
def _mm512_set_epi32 (e15 e14 e13 e12 e11 e10 e9 e8 e7 e6 e5 e4 e3 e2 e1 e0 : UInt32) : V16 :=
  #v[e0, e1, e2, e3, e4, e5, e6, e7, e8, e9, e10, e11, e12, e13, e14, e15]
/-- `FOR j := 0 to 15: dst.dword[j] := imm8[7:0] > 31 ? 0 : ZeroExtend32(a.dword[j] >> imm8[7:0])` -/
def _mm512_srli_epi32 (a : V16) (imm8 : Nat) : V16 := map16 (fun x => srl32 x imm8) a
/-- `FOR j := 0 to 7: dst.qword[j] := a` -/
def _mm512_set1_epi64 (a : UInt64) : V16 := ofQ8 a a a a a a a a
/-- `dst[63:0] := e7; dst[127:64] := e6; … dst[511:448] := e0`
(the guide names the *first* argument of `setr` `e7`; it goes to the lowest qword) -/
def _mm512_setr_epi64 (e7 e6 e5 e4 e3 e2 e1 e0 : UInt64) : V16 := ofQ8 e7 e6 e5 e4 e3 e2 e1 e0
/-- `FOR j := 0 to 7: dst.qword[j] := a.qword[j] + b.qword[j]` (wrapping) -/
def _mm512_add_epi64 (a b : V16) : V16 :=
  ofQ8 (q64 a 0 + q64 b 0) (q64 a 1 + q64 b 1) (q64 a 2 + q64 b 2) (q64 a 3 + q64 b 3)
       (q64 a 4 + q64 b 4) (q64 a 5 + q64 b 5) (q64 a 6 + q64 b 6) (q64 a 7 + q64 b 7)
/-- `FOR j := 0 to 7: dst.qword[j] := imm8[7:0] > 63 ? 0 : ZeroExtend64(a.qword[j] >> imm8[7:0])` -/
def _mm512_srli_epi64 (a : V16) (imm8 : Nat) : V16 :=
  ofQ8 (srl64 (q64 a 0) imm8) (srl64 (q64 a 1) imm8) (srl64 (q64 a 2) imm8) (srl64 (q64 a 3) imm8)
       (srl64 (q64 a 4) imm8) (srl64 (q64 a 5) imm8) (srl64 (q64 a 6) imm8) (srl64 (q64 a 7) imm8)
/-- `FOR j := 0 to 7: dst.dword[j] := Truncate32(a.qword[j])`  (512 -> 256 bits, `vpmovqd`) -/
def _mm512_cvtepi64_epi32 (a : V16) : V8 :=
  #v[lo32 (q64 a 0), lo32 (q64 a 1), lo32 (q64 a 2), lo32 (q64 a 3),
     lo32 (q64 a 4), lo32 (q64 a 5), lo32 (q64 a 6), lo32 (q64 a 7)]
/-- `_mm512_castsi512_si256`: "cast … does not generate any instructions": `dst[255:0] := a[255:0]` -/
def _mm512_castsi512_si256 (a : V16) : V8 := #v[a[0], a[1], a[2], a[3], a[4], a[5], a[6], a[7]]

/-- per 128-bit lane: `INTERLEAVE_DWORDS` -/
def _mm512_unpacklo_epi32 (a b : V16) : V16 :=
  join4 (_mm_unpacklo_epi32 (lane128 a 0) (lane128 b 0)) (_mm_unpacklo_epi32 (lane128 a 1) (lane128 b 1))
        (_mm_unpacklo_epi32 (lane128 a 2) (lane128 b 2)) (_mm_unpacklo_epi32 (lane128 a 3) (lane128 b 3))
/-- per 128-bit lane: `INTERLEAVE_HIGH_DWORDS` -/
def _mm512_unpackhi_epi32 (a b : V16) : V16 :=
  join4 (_mm_unpackhi_epi32 (lane128 a 0) (lane128 b 0)) (_mm_unpackhi_epi32 (lane128 a 1) (lane128 b 1))
        (_mm_unpackhi_epi32 (lane128 a 2) (lane128 b 2)) (_mm_unpackhi_epi32 (lane128 a 3) (lane128 b 3))
/-- per 128-bit lane: `INTERLEAVE_QWORDS` -/
def _mm512_unpacklo_epi64 (a b : V16) : V16 :=
  join4 (_mm_unpacklo_epi64 (lane128 a 0) (lane128 b 0)) (_mm_unpacklo_epi64 (lane128 a 1) (lane128 b 1))
        (_mm_unpacklo_epi64 (lane128 a 2) (lane128 b 2)) (_mm_unpacklo_epi64 (lane128 a 3) (lane128 b 3))
/-- per 128-bit lane: `INTERLEAVE_HIGH_QWORDS` -/
def _mm512_unpackhi_epi64 (a b : V16) : V16 :=
  join4 (_mm_unpackhi_epi64 (lane128 a 0) (lane128 b 0)) (_mm_unpackhi_epi64 (lane128 a 1) (lane128 b 1))
        (_mm_unpackhi_epi64 (lane128 a 2) (lane128 b 2)) (_mm_unpackhi_epi64 (lane128 a 3) (lane128 b 3))

/-- `SELECT4(src, control)` of `_mm512_shuffle_i32x4`:
`CASE control[1:0] OF 0: src[127:0]; 1: src[255:128]; 2: src[383:256]; 3: src[511:384]` -/
def select128 (src : V16) (control : Nat) : V4 :=
  match control &&& 3 with
  | 0 => lane128 src 0
  | 1 => lane128 src 1
  | 2 => lane128 src 2
  | _ => lane128 src 3
/-- `dst[127:0] := SELECT4(a, imm8[1:0]); dst[255:128] := SELECT4(a, imm8[3:2]);
dst[383:256] := SELECT4(b, imm8[5:4]); dst[511:384] := SELECT4(b, imm8[7:6])` -/
def _mm512_shuffle_i32x4 (a b : V16) (imm8 : Nat) : V16 :=
  join4 (select128 a imm8) (select128 a (imm8 >>> 2)) (select128 b (imm8 >>> 4)) (select128 b (imm8 >>> 6))

/-! ### C scalar conversions -/

/-- `int` -> `uint64_t` / `long long`: sign extension (C11 6.3.1.3) -/
def sext64 (x : UInt32) : UInt64 := x.toInt32.toInt64.toUInt64

/-! ### memory as the C file sees it

* `const uint32_t cv[8]`, `uint32_t cv[8]`, `const uint8_t block[BLAKE3_BLOCK_LEN]` (arrays of statically
  known size that are only read, or are word arrays): vectors of little-endian 32-bit words, as
  everywhere else in the project; 128-bit loads / stores at constant offsets go through
  `loadu_words` / `storeu_words` of `Prim.lean`.
* `const uint8_t *` (inputs): byte-addressed read-only memory `Mem = Nat → UInt8`, offset 0 = the pointer.
* `const uint8_t *const *` (array of input pointers): `MemArr = Nat → Mem`, index 0 = the pointer.
* `uint8_t *out`, `uint8_t out[N]` (memory that is written): `BPtr`, a position in a byte buffer (the
  allocated object).  Stores replace bytes of the buffer; what the caller observes afterwards is `buf`.
  Bounds are NOT checked here (C has no checks either): a store that starts beyond the end of the buffer
  is meaningless in this model, and the theorems assume the whole output range lies inside the buffer.
-/

/-- `p + k` / `&p[k]` for a read-only byte pointer -/
def Mem.add (p : Mem) (k : Nat) : Mem := fun i => p (k + i)

/-- the `n` little-endian words at a read-only byte pointer (a `const uint8_t *` passed for a
`const uint8_t block[4n]` parameter) -/
def Mem.words (p : Mem) (n : Nat) : Vector UInt32 n := Vector.ofFn fun i => p.word (4 * i.val)

/-- `_mm256_loadu_si256(p + o)`: `dst[255:0] := MEM[p+o+255 : p+o]` -/
def loadu_mem8 (p : Mem) (o : Nat) : V8 :=
  #v[p.word o, p.word (o + 4), p.word (o + 8), p.word (o + 12), p.word (o + 16), p.word (o + 20), p.word (o + 24), p.word (o + 28)]

/-- `_mm512_loadu_si512(p + o)`: `dst[511:0] := MEM[p+o+511 : p+o]` -/
def loadu_mem16 (p : Mem) (o : Nat) : V16 :=
  #v[p.word o, p.word (o + 4), p.word (o + 8), p.word (o + 12), p.word (o + 16), p.word (o + 20), p.word (o + 24), p.word (o + 28),
     p.word (o + 32), p.word (o + 36), p.word (o + 40), p.word (o + 44), p.word (o + 48), p.word (o + 52), p.word (o + 56), p.word (o + 60)]

/-- array of input pointers -/
abbrev MemArr := Nat → Mem

/-- `inputs + k` -/
def MemArr.add (a : MemArr) (k : Nat) : MemArr := fun i => a (k + i)

/-- a writable byte pointer: position `off` of the buffer `buf` -/
structure BPtr where
  buf : List UInt8
  off : Nat

/-- a pointer to the first byte of a buffer -/
def BPtr.ofList (l : List UInt8) : BPtr := ⟨l, 0⟩

/-- `p + k` / `&p[k]` -/
def BPtr.add (p : BPtr) (k : Nat) : BPtr := ⟨p.buf, p.off + k⟩

/-- `MEM[p + |bs| - 1 : p] := bs` -/
def BPtr.write (p : BPtr) (bs : List UInt8) : BPtr :=
  ⟨p.buf.take p.off ++ bs ++ p.buf.drop (p.off + bs.length), p.off⟩

/-- after writing through `q` (a pointer derived from `p`: `&p[k]`, or `p` passed to a callee), `p` is
unchanged as a pointer and sees the new memory -/
def BPtr.merge (p q : BPtr) : BPtr := ⟨q.buf, p.off⟩

/-- `_mm_storeu_si128((__m128i*)p, a)`: `MEM[p+127:p] := a[127:0]` -/
def _mm_storeu_si128 (p : BPtr) (a : V4) : BPtr := p.write (bytesOfWords a)
/-- `_mm256_storeu_si256((__m256i*)p, a)`: `MEM[p+255:p] := a[255:0]` -/
def _mm256_storeu_si256 (p : BPtr) (a : V8) : BPtr := p.write (bytesOfWords a)
/-- `_mm512_storeu_si512(p, a)`: `MEM[p+511:p] := a[511:0]` -/
def _mm512_storeu_si512 (p : BPtr) (a : V16) : BPtr := p.write (bytesOfWords a)

/-- `_mm256_mask_storeu_epi32(p, k, a)`: `FOR j := 0 to 7: IF k[j] THEN MEM[p+32j+31 : p+32j] := a.dword[j]`
(the other dwords of memory keep their value) -/
def _mm256_mask_storeu_epi32 (p : BPtr) (k : Nat) (a : V8) : BPtr :=
  p.write ((List.finRange 8).flatMap fun j =>
    if k.testBit j.val then wordBytes a[j] else (p.buf.drop (p.off + 4 * j.val)).take 4)

/-- `memcpy(p, w, 4n)` from an array of `n` words -/
def BPtr.writeWords {n : Nat} (p : BPtr) (w : Vector UInt32 n) : BPtr := p.write (bytesOfWords w)

/-- sub-array `v[o .. o+8]` of an array of registers (`&v[o]` passed for a parameter `T vecs[8]`) -/
def slice8 {α : Type} {n : Nat} (v : Vector α n) (o : Nat) (h : o + 7 < n := by decide) : Vector α 8 :=
  #v[v[o], v[o + 1], v[o + 2], v[o + 3], v[o + 4], v[o + 5], v[o + 6], v[o + 7]]

/-- write back the sub-array `v[o .. o+8]` -/
def setSlice8 {α : Type} {n : Nat} (v : Vector α n) (o : Nat) (w : Vector α 8) (h : o + 7 < n := by decide) :
    Vector α n :=
  (((((((v.set o w[0]).set (o + 1) w[1]).set (o + 2) w[2]).set (o + 3) w[3]).set (o + 4) w[4]).set (o + 5) w[5]).set
    (o + 6) w[6]).set (o + 7) w[7]

end B3.Simd.C512
