/-
Lane model of the AVX2 intrinsics used by c/blake3_avx2.c.

THIS FILE IS TRUSTED (like `Prim.lean` / `PrimC.lean`): it states what the instructions do, with the pseudo-code of
the Intel Intrinsics Guide in the comments; validated at run time by `B3/Simd/RunC.lean`.

A 256-bit register (`__m256i`) is eight 32-bit lanes, lane 0 = bits 31:0.  Most AVX2 integer instructions operate
on the two 128-bit halves independently ("within 128-bit lanes"); those are defined from the 128-bit model through
`lo128` / `hi128` / `join`, which is exactly how the guide's pseudo-code is written (`dst[127:0] := …(src[127:0])`,
`dst[255:128] := …(src[255:128])`).
-/
import B3.Simd.PrimC
namespace B3.Simd.CI
open B3

/-- `__m256i` as eight 32-bit lanes; lane 0 = bits 31:0 -/
abbrev V8 := Vector UInt32 8

/-- bits 127:0 -/
def lo128 (a : V8) : V4 := #v[a[0], a[1], a[2], a[3]]
/-- bits 255:128 -/
def hi128 (a : V8) : V4 := #v[a[4], a[5], a[6], a[7]]
/-- the register with bits 127:0 = `l` and bits 255:128 = `h` -/
def join (l h : V4) : V8 := #v[l[0], l[1], l[2], l[3], h[0], h[1], h[2], h[3]]

/-! ### arithmetic and logic (`FOR j := 0 to 7 …` on dwords / on all 256 bits) -/

def _mm256_add_epi32 (a b : V8) : V8 :=
  #v[a[0] + b[0], a[1] + b[1], a[2] + b[2], a[3] + b[3], a[4] + b[4], a[5] + b[5], a[6] + b[6], a[7] + b[7]]
def _mm256_sub_epi32 (a b : V8) : V8 :=
  #v[a[0] - b[0], a[1] - b[1], a[2] - b[2], a[3] - b[3], a[4] - b[4], a[5] - b[5], a[6] - b[6], a[7] - b[7]]
def _mm256_xor_si256 (a b : V8) : V8 :=
  #v[a[0] ^^^ b[0], a[1] ^^^ b[1], a[2] ^^^ b[2], a[3] ^^^ b[3], a[4] ^^^ b[4], a[5] ^^^ b[5], a[6] ^^^ b[6], a[7] ^^^ b[7]]
def _mm256_or_si256 (a b : V8) : V8 :=
  #v[a[0] ||| b[0], a[1] ||| b[1], a[2] ||| b[2], a[3] ||| b[3], a[4] ||| b[4], a[5] ||| b[5], a[6] ||| b[6], a[7] ||| b[7]]
def _mm256_and_si256 (a b : V8) : V8 :=
  #v[a[0] &&& b[0], a[1] &&& b[1], a[2] &&& b[2], a[3] &&& b[3], a[4] &&& b[4], a[5] &&& b[5], a[6] &&& b[6], a[7] &&& b[7]]

/-- `FOR j := 0 to 7: dst.dword[j] := (a.dword[j] > b.dword[j]) ? 0xFFFFFFFF : 0` (signed compare) -/
def _mm256_cmpgt_epi32 (a b : V8) : V8 :=
  #v[if sgt32 a[0] b[0] then 0xFFFFFFFF else 0, if sgt32 a[1] b[1] then 0xFFFFFFFF else 0,
     if sgt32 a[2] b[2] then 0xFFFFFFFF else 0, if sgt32 a[3] b[3] then 0xFFFFFFFF else 0,
     if sgt32 a[4] b[4] then 0xFFFFFFFF else 0, if sgt32 a[5] b[5] then 0xFFFFFFFF else 0,
     if sgt32 a[6] b[6] then 0xFFFFFFFF else 0, if sgt32 a[7] b[7] then 0xFFFFFFFF else 0]

/-- `FOR j := 0 to 7: dst.dword[j] := imm8[7:0] > 31 ? 0 : ZeroExtend32(a.dword[j] >> imm8[7:0])` -/
def _mm256_srli_epi32 (a : V8) (imm8 : Nat) : V8 :=
  #v[srl32 a[0] imm8, srl32 a[1] imm8, srl32 a[2] imm8, srl32 a[3] imm8,
     srl32 a[4] imm8, srl32 a[5] imm8, srl32 a[6] imm8, srl32 a[7] imm8]
/-- `FOR j := 0 to 7: dst.dword[j] := imm8[7:0] > 31 ? 0 : ZeroExtend32(a.dword[j] << imm8[7:0])` -/
def _mm256_slli_epi32 (a : V8) (imm8 : Nat) : V8 :=
  #v[sll32 a[0] imm8, sll32 a[1] imm8, sll32 a[2] imm8, sll32 a[3] imm8,
     sll32 a[4] imm8, sll32 a[5] imm8, sll32 a[6] imm8, sll32 a[7] imm8]

/-! ### set -/

/-- `FOR j := 0 to 7: dst.dword[j] := a` -/
def _mm256_set1_epi32 (a : UInt32) : V8 := #v[a, a, a, a, a, a, a, a]

/-- `dst[31:0] := e0; …; dst[255:224] := e7` (arguments highest first) -/
def _mm256_set_epi32 (e7 e6 e5 e4 e3 e2 e1 e0 : UInt32) : V8 := #v[e0, e1, e2, e3, e4, e5, e6, e7]

/-- `dst[7:0] := e0; …; dst[255:248] := e31` (arguments highest first) -/
def _mm256_set_epi8 (e31 e30 e29 e28 e27 e26 e25 e24 e23 e22 e21 e20 e19 e18 e17 e16
    e15 e14 e13 e12 e11 e10 e9 e8 e7 e6 e5 e4 e3 e2 e1 e0 : UInt8) : V8 :=
  join (_mm_set_epi8 e15 e14 e13 e12 e11 e10 e9 e8 e7 e6 e5 e4 e3 e2 e1 e0)
       (_mm_set_epi8 e31 e30 e29 e28 e27 e26 e25 e24 e23 e22 e21 e20 e19 e18 e17 e16)

/-! ### shuffles, within 128-bit lanes -/

/-- `FOR j := 0 to 15: IF b[i+7] THEN dst[i+7:i] := 0 ELSE dst[i+7:i] := a[index*8+7:index*8]` with
`index := b[i+3:i]`, and the same on bits 255:128 with `a[128+index*8+7 : 128+index*8]` -/
def _mm256_shuffle_epi8 (a b : V8) : V8 :=
  join (_mm_shuffle_epi8 (lo128 a) (lo128 b)) (_mm_shuffle_epi8 (hi128 a) (hi128 b))

/-- `dst[127:0] := INTERLEAVE_DWORDS(src1[127:0], src2[127:0]); dst[255:128] := INTERLEAVE_DWORDS(src1[255:128], src2[255:128])` -/
def _mm256_unpacklo_epi32 (a b : V8) : V8 :=
  join (_mm_unpacklo_epi32 (lo128 a) (lo128 b)) (_mm_unpacklo_epi32 (hi128 a) (hi128 b))
/-- `INTERLEAVE_HIGH_DWORDS` on each 128-bit half -/
def _mm256_unpackhi_epi32 (a b : V8) : V8 :=
  join (_mm_unpackhi_epi32 (lo128 a) (lo128 b)) (_mm_unpackhi_epi32 (hi128 a) (hi128 b))
/-- `INTERLEAVE_QWORDS` on each 128-bit half -/
def _mm256_unpacklo_epi64 (a b : V8) : V8 :=
  join (_mm_unpacklo_epi64 (lo128 a) (lo128 b)) (_mm_unpacklo_epi64 (hi128 a) (hi128 b))
/-- `INTERLEAVE_HIGH_QWORDS` on each 128-bit half -/
def _mm256_unpackhi_epi64 (a b : V8) : V8 :=
  join (_mm_unpackhi_epi64 (lo128 a) (lo128 b)) (_mm_unpackhi_epi64 (hi128 a) (hi128 b))

/-- `SELECT4(src1, src2, control)`: `CASE control[1:0] OF 0: src1[127:0]; 1: src1[255:128]; 2: src2[127:0];
3: src2[255:128]`; `IF control[3] THEN 0` -/
def select128 (a b : V8) (control : Nat) : V4 :=
  if control.testBit 3 then #v[0, 0, 0, 0] else
  match control &&& 3 with
  | 0 => lo128 a
  | 1 => hi128 a
  | 2 => lo128 b
  | _ => hi128 b

/-- `dst[127:0] := SELECT4(a, b, imm8[3:0]); dst[255:128] := SELECT4(a, b, imm8[7:4])` -/
def _mm256_permute2x128_si256 (a b : V8) (imm8 : Nat) : V8 :=
  join (select128 a b imm8) (select128 a b (imm8 >>> 4))

/-! ### memory -/

/-- `_mm256_loadu_si256(p + o)` for a raw byte pointer: `dst[255:0] := MEM[p+o+255 : p+o]` -/
def loadu256_mem (p : Mem) (o : Nat) : V8 :=
  #v[p.word o, p.word (o + 4), p.word (o + 8), p.word (o + 12), p.word (o + 16), p.word (o + 20), p.word (o + 24), p.word (o + 28)]

/-- `_mm256_storeu_si256((__m256i *)&p[k], a)`: `MEM[p+k+255 : p+k] := a[255:0]` -/
def storeu256_ptr (a : V8) (p : BytePtr) (k : Nat) : BytePtr := ⟨p.mem.write (p.off + k) (bytesOfWords a), p.off⟩

/-- the sub-array `v[o .. o+8]` -/
def slice8 {α : Type} {n : Nat} (v : Vector α n) (o : Nat) (h : o + 7 < n := by decide) : Vector α 8 :=
  #v[v[o], v[o + 1], v[o + 2], v[o + 3], v[o + 4], v[o + 5], v[o + 6], v[o + 7]]

/-- write back the sub-array `v[o .. o+8]` -/
def setSlice8 {α : Type} {n : Nat} (v : Vector α n) (o : Nat) (w : Vector α 8) (h : o + 7 < n := by decide) :
    Vector α n :=
  (((((((v.set o w[0]).set (o + 1) w[1]).set (o + 2) w[2]).set (o + 3) w[3]).set (o + 4) w[4]).set (o + 5) w[5]).set
    (o + 6) w[6]).set (o + 7) w[7]

end B3.Simd.CI
