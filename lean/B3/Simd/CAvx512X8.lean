/- `transpose_vecs_256`, `transpose_msg_vecs8` and `blake3_xof8_avx512` against the specification -/
import B3.Simd.CAvx512Round8
import B3.Simd.CAvx512X16
namespace B3.Simd.C512
open B3 B3.Gen.CAvx512
open B3.Gen.C (MSG_SCHEDULE IV)

theorem set1_256_get (a : UInt32) (l : Fin 8) : (set1_256 a)[l] = a := by
  revert l; apply lane8_cases <;> rfl

theorem xor_256_get (a b : V8) (l : Fin 8) : (xor_256 a b)[l] = a[l] ^^^ b[l] := map2_8_get _ a b l

/-! ### transposes -/

theorem transpose_vecs_256_row (vs : Vector V8 8) (i : Fin 8) : (transpose_vecs_256 vs)[i] = cvLaneN i vs := by
  rw [vec8_eta' vs]
  generalize vs[0] = a0; generalize vs[1] = a1; generalize vs[2] = a2; generalize vs[3] = a3
  generalize vs[4] = a4; generalize vs[5] = a5; generalize vs[6] = a6; generalize vs[7] = a7
  revert i
  apply lane8_cases <;> kernel_rfl

theorem transpose_vecs_256_get (vs : Vector V8 8) (i j : Fin 8) : (transpose_vecs_256 vs)[i][j] = vs[j][i] := by
  rw [transpose_vecs_256_row]
  revert j
  apply lane8_cases <;> rfl

theorem transpose_msg_vecs8_lane (inputs : MemArr) (off : Nat) (out : Vector V8 16) (i : Fin 8) :
    laneN i (transpose_msg_vecs8 inputs off out) = blockAt (inputs i.val) off := by
  vatoms16 out
  revert i
  apply lane8_cases <;> kernel_rfl

/-! ### blake3_xof8_avx512 -/

/-- the two 8x8 transpositions of the sixteen registers -/
def xof8T (v : Vector V8 16) : Vector V8 16 :=
  let v := setSlice8 v 0 (transpose_vecs_256 (slice8 v 0))
  setSlice8 v 8 (transpose_vecs_256 (slice8 v 8))

/-- the sixteen 32-byte rows in the order in which they are stored -/
def xrows8 (t : Vector V8 16) : List (List UInt8) :=
  [bytesOfWords t[0], bytesOfWords t[8], bytesOfWords t[1], bytesOfWords t[9], bytesOfWords t[2], bytesOfWords t[10],
   bytesOfWords t[3], bytesOfWords t[11], bytesOfWords t[4], bytesOfWords t[12], bytesOfWords t[5], bytesOfWords t[13],
   bytesOfWords t[6], bytesOfWords t[14], bytesOfWords t[7], bytesOfWords t[15]]

def xof8V (cv : CV) (block : St) (bl : UInt8) (c : UInt64) (fl : UInt8) : Vector V8 16 :=
  ffN xor_256
    (roundsN round_fn8
      (initN set1_256 (hvN set1_256 cv) (load_counters8 c true).1 (load_counters8 c true).2 bl.toUInt32 fl.toUInt32)
      (splatMsgN set1_256 (Vector.replicate 16 (Vector.replicate 8 0)) (load_block_words block (Vector.replicate 16 0))))
    (hvN set1_256 cv)

theorem xof8_shape (cv : CV) (block : St) (bl : UInt8) (c : UInt64) (fl : UInt8) (out : BPtr) :
    blake3_xof8_avx512 cv block bl c fl out = wrAll 32 out 0 (xrows8 (xof8T (xof8V cv block bl c fl))) := rfl

theorem xof8V_lane (cv : CV) (block : St) (bl : UInt8) (c : UInt64) (fl : UInt8) (l : Fin 8) :
    laneN l (xof8V cv block bl c fl) = Spec.compress cv block (ctr64 c true l.val) bl.toUInt32 fl.toUInt32 := by
  unfold xof8V
  rw [laneN_compress set1_256 xor_256 round_fn8 set1_256_get xor_256_get round_fn8_lane _ _ _ _ _ _ l (ctr64 c true l.val)
    (load_counters8_lane c true l).1 (load_counters8_lane c true l).2,
    cvLaneN_hvN set1_256 set1_256_get, laneN_splatMsgN set1_256 set1_256_get, load_block_words_eq]

/-- rows `i` and `i + 8` of the transposed registers, one after the other, are the 64 bytes of lane `i` -/
theorem xof8T_block (v : Vector V8 16) (i : Nat) (hi : i < 8) :
    bytesOfWords ((xof8T v)[i]'(by omega)) ++ bytesOfWords ((xof8T v)[i + 8]'(by omega)) = bytesOfWords (laneN ⟨i, hi⟩ v) := by
  vatoms16 v
  match i, hi with
  | 0, _ => kernel_rfl
  | 1, _ => kernel_rfl
  | 2, _ => kernel_rfl
  | 3, _ => kernel_rfl
  | 4, _ => kernel_rfl
  | 5, _ => kernel_rfl
  | 6, _ => kernel_rfl
  | 7, _ => kernel_rfl
  | n + 8, h => omega

theorem xrows8_length (t : Vector V8 16) : ∀ c ∈ xrows8 t, c.length = 32 := by
  intro c hc
  unfold xrows8 at hc
  simp only [List.mem_cons, List.not_mem_nil, or_false] at hc
  rcases hc with h | h | h | h | h | h | h | h | h | h | h | h | h | h | h | h <;> rw [h, length_bytesOfWords]

theorem flatten8 {α : Type} (f : Nat → List α) :
    [f 0, f 1, f 2, f 3, f 4, f 5, f 6, f 7].flatten = (List.range 8).flatMap f := rfl

theorem xof8_eq (cv : CV) (block : St) (bl : UInt8) (c : UInt64) (fl : UInt8) (out : BPtr)
    (h : out.off ≤ out.buf.length) :
    blake3_xof8_avx512 cv block bl c fl out = wr out 0 (xofBytes cv block bl fl c 8) := by
  rw [xof8_shape, wrAll_flatten 32 _ (xrows8_length _) out 0 h]
  have e : (xrows8 (xof8T (xof8V cv block bl c fl))).flatten
      = [bytesOfWords (laneN (⟨0, by omega⟩ : Fin 8) (xof8V cv block bl c fl)), bytesOfWords (laneN (⟨1, by omega⟩ : Fin 8) (xof8V cv block bl c fl)),
         bytesOfWords (laneN (⟨2, by omega⟩ : Fin 8) (xof8V cv block bl c fl)), bytesOfWords (laneN (⟨3, by omega⟩ : Fin 8) (xof8V cv block bl c fl)),
         bytesOfWords (laneN (⟨4, by omega⟩ : Fin 8) (xof8V cv block bl c fl)), bytesOfWords (laneN (⟨5, by omega⟩ : Fin 8) (xof8V cv block bl c fl)),
         bytesOfWords (laneN (⟨6, by omega⟩ : Fin 8) (xof8V cv block bl c fl)), bytesOfWords (laneN (⟨7, by omega⟩ : Fin 8) (xof8V cv block bl c fl))].flatten := by
    rw [← xof8T_block _ 0 (by omega), ← xof8T_block _ 1 (by omega), ← xof8T_block _ 2 (by omega), ← xof8T_block _ 3 (by omega),
      ← xof8T_block _ 4 (by omega), ← xof8T_block _ 5 (by omega), ← xof8T_block _ 6 (by omega), ← xof8T_block _ 7 (by omega)]
    unfold xrows8
    simp only [List.flatten_cons, List.flatten_nil, List.append_assoc, List.append_nil]
  rw [e]
  unfold xofBytes
  simp only [xof8V_lane, ctr64_true]
  rfl

end B3.Simd.C512
