/-
Base definitions for the proofs about the generated C AVX-512 kernels (`B3.Gen.CAvx512`, translated from
c/blake3_avx512.c): lanes of sixteen registers of any width, the tactic for one lane of a wide round.
-/
import B3.Gen.CAvx512
import B3.Simd.Sse41WideBase
namespace B3.Simd.C512
open B3 B3.Gen.CAvx512
open B3.Gen.C (MSG_SCHEDULE)

/-- lane `l` of sixteen `n`-lane registers: the state / message block of input `l` -/
def laneN {n : Nat} (l : Fin n) (v : Vector (Vector UInt32 n) 16) : St :=
  #v[v[0][l], v[1][l], v[2][l], v[3][l], v[4][l], v[5][l], v[6][l], v[7][l],
     v[8][l], v[9][l], v[10][l], v[11][l], v[12][l], v[13][l], v[14][l], v[15][l]]

/-- the sixteen message registers in the order in which round `r` consumes them -/
def schedN {n : Nat} (m : Vector (Vector UInt32 n) 16) (r : Fin 7) : Vector (Vector UInt32 n) 16 :=
  #v[m[MSG_SCHEDULE[r][0]], m[MSG_SCHEDULE[r][1]], m[MSG_SCHEDULE[r][2]], m[MSG_SCHEDULE[r][3]],
     m[MSG_SCHEDULE[r][4]], m[MSG_SCHEDULE[r][5]], m[MSG_SCHEDULE[r][6]], m[MSG_SCHEDULE[r][7]],
     m[MSG_SCHEDULE[r][8]], m[MSG_SCHEDULE[r][9]], m[MSG_SCHEDULE[r][10]], m[MSG_SCHEDULE[r][11]],
     m[MSG_SCHEDULE[r][12]], m[MSG_SCHEDULE[r][13]], m[MSG_SCHEDULE[r][14]], m[MSG_SCHEDULE[r][15]]]

/-- replace the sixteen scheduled message registers by atoms, the sixteen state registers by atoms, and let
the kernel evaluate one lane of the generated round against the (re-associated) specification round -/
macro "c_round_lane_tac " v:ident m:ident r:ident : tactic => `(tactic|
  (unfold schedN
   generalize $m[MSG_SCHEDULE[$r][0]] = x0; generalize $m[MSG_SCHEDULE[$r][1]] = x1
   generalize $m[MSG_SCHEDULE[$r][2]] = x2; generalize $m[MSG_SCHEDULE[$r][3]] = x3
   generalize $m[MSG_SCHEDULE[$r][4]] = x4; generalize $m[MSG_SCHEDULE[$r][5]] = x5
   generalize $m[MSG_SCHEDULE[$r][6]] = x6; generalize $m[MSG_SCHEDULE[$r][7]] = x7
   generalize $m[MSG_SCHEDULE[$r][8]] = x8; generalize $m[MSG_SCHEDULE[$r][9]] = x9
   generalize $m[MSG_SCHEDULE[$r][10]] = x10; generalize $m[MSG_SCHEDULE[$r][11]] = x11
   generalize $m[MSG_SCHEDULE[$r][12]] = x12; generalize $m[MSG_SCHEDULE[$r][13]] = x13
   generalize $m[MSG_SCHEDULE[$r][14]] = x14; generalize $m[MSG_SCHEDULE[$r][15]] = x15
   vatoms16 $v
   kernel_rfl))

end B3.Simd.C512
