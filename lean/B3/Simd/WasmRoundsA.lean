/- round pieces 1-2 of the generated Wasm SIMD `compress_pre` against `Spec.round` (kernel-checked, ~13 s each) -/
import B3.Simd.WasmBase
namespace B3.Simd.Wasm
open B3 B3.Simd B3.Gen.RsWasm

/-- round 1 of `compress_pre`: one `Spec.round` with the block in its original order; leaves the block
in grouped order -/
theorem round1_eq (s w : St) :
    compress_pre_round1 (rows8r s w)
      = rows8 (Spec.round s w) w := by
  wround_tac1 compress_pre_round1 s w
theorem round2_eq (s w : St) :
    compress_pre_round2 (rows8 s w)
      = rows8 (Spec.round s (Spec.permute w)) (Spec.permute w) := by wround_tac compress_pre_round2 s w

end B3.Simd.Wasm
