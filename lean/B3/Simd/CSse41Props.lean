/-
The theorems about the C SSE4.1 kernels of c/blake3_sse41.c (as translated into `B3.Gen.CSse41` by
gen/ext_simd_c.py, over the lane model `B3/Simd/Prim.lean` + `PrimC.lean` of the intrinsics).  Every statement is
for ALL arguments.  Proofs: `B3/Simd/CSse41*.lean`, bit-level facts in `B3/Simd/CBits.lean`.
-/
import B3.Simd.CSse41
import B3.Simd.Sse41PropsMany
namespace B3.Simd
open B3.Simd.CI
open B3 B3.Gen.CSse41
open B3.Gen.C (MSG_SCHEDULE)

namespace CSse41

theorem outBytesC_eq_flatMap (blocks : Nat) (key : CV) (flags fs fe : UInt8) (incr : Bool) (ps : PtrArr) (n : Nat) (t : UInt64) :
    outBytesC blocks key flags fs fe incr ps n t
      = (List.range n).flatMap fun k => bytesOfWords (cvOfC blocks key flags fs fe (ps k) (advN incr t k)) := by
  induction n generalizing ps t with
  | zero => rfl
  | succ n ih =>
    rw [outBytesC, ih, List.range_succ_eq_map, List.flatMap_cons, List.flatMap_map]
    simp only [advN, PtrArr.add, advN_adv, Nat.add_comm 1]

theorem cvOfC_eq (blocks : Nat) (key : CV) (flags fs fe : UInt8) (p : Mem) (t : UInt64) :
    cvOfC blocks key flags fs fe p t = specHashBlocks key (blockOfMem p) blocks t flags fs fe := by
  unfold cvOfC foldBlocksN specHashBlocks flagsAt
  simp only [blockAt_eq_blockOfMem]

end CSse41

/-! ### main theorems -/

/-! #### single-block compression -/

/-- `blake3_compress_in_place_sse41` is the specification's compression function, first 8 words -/
theorem c_sse41_compress_in_place_eq (cv : CV) (block : St) (bl : UInt8) (t : UInt64) (fl : UInt8) :
    blake3_compress_in_place_sse41 cv block bl t fl = first8 (Spec.compress cv block t bl.toUInt32 fl.toUInt32) :=
  CSse41.compress_in_place_eq cv block bl t fl

/-- `blake3_compress_xof_sse41` overwrites all 64 bytes of `out` with the specification's compression function -/
theorem c_sse41_compress_xof_eq (cv : CV) (block : St) (bl : UInt8) (t : UInt64) (fl : UInt8) (out : St) :
    blake3_compress_xof_sse41 cv block bl t fl out = Spec.compress cv block t bl.toUInt32 fl.toUInt32 :=
  CSse41.compress_xof_eq cv block bl t fl out

/-- hence the C SSE4.1 and the portable C kernels agree -/
theorem c_sse41_compress_in_place_eq_portable (cv : CV) (block : St) (bl : UInt8) (t : UInt64) (fl : UInt8) :
    blake3_compress_in_place_sse41 cv block bl t fl = Gen.C.compress_in_place cv block bl t fl := by
  rw [c_sse41_compress_in_place_eq, Proofs.c_compress_in_place_eq]

theorem c_sse41_compress_xof_eq_portable (cv : CV) (block : St) (bl : UInt8) (t : UInt64) (fl : UInt8) (out : St) :
    blake3_compress_xof_sse41 cv block bl t fl out = Gen.C.compress_xof cv block bl t fl := by
  rw [c_sse41_compress_xof_eq, Proofs.c_compress_xof_eq]

/-- the four rotations of the C file (byte shuffles for 16 and 8, `xor` of two shifts for 12 and 7) rotate every lane -/
theorem c_sse41_rotations (x : V4) :
    rot16 x = rotv 16 x ∧ rot12 x = rotv 12 x ∧ rot8 x = rotv 8 x ∧ rot7 x = rotv 7 x :=
  ⟨CSse41.rot16_eq x, CSse41.rot12_eq x, CSse41.rot8_eq x, CSse41.rot7_eq x⟩

/-! #### the 4-way round -/

/-- lane `l` of the 4-way `round_fn` is one round of the specification on lane `l` of the state, with the
message words of lane `l` taken in the order `MSG_SCHEDULE[r]`: four independent rounds -/
theorem c_sse41_round_lane (v m : Vector V4 16) (r : Fin 7) :
    ∀ l : Fin 4, lane l (round_fn v m r)
      = Spec.roundWith (lane l v) (fun i => (lane l m)[MSG_SCHEDULE[r][i]]) :=
  fun l => CSse41.round_lane l v m r

/-- in the vocabulary of the portable C code: lane `l` of the 4-way round = the portable `round_fn` on lane `l` -/
theorem c_sse41_round_lane_portable (v m : Vector V4 16) (r : Fin 7) (l : Fin 4) :
    lane l (round_fn v m r) = Gen.C.round_fn (lane l v) (lane l m) r := by
  rw [c_sse41_round_lane, CSse41.c_round_with]

/-! #### transposes -/

theorem c_sse41_transpose_vecs (vs : Vector V4 4) (i j : Fin 4) : (transpose_vecs vs)[i][j] = vs[j][i] :=
  CSse41.transpose_vecs_get vs i j

/-- message vector `k`, lane `i` = little-endian word `k` of the 64 bytes at `block_offset` of input `i`
(whatever the uninitialised output array held) -/
theorem c_sse41_transpose_msg_vecs (inputs : PtrArr) (block_offset : Nat) (out : Vector V4 16) (k : Fin 16) (i : Fin 4) :
    (transpose_msg_vecs inputs block_offset out)[k][i] = (inputs i.val).word (block_offset + 4 * k.val) := by
  rw [← CSse41.lane_get', CSse41.transpose_msg_vecs_lane, blockAt_get]

/-! #### counters -/

/-- lane `i` of the low / high counter vector = low / high 32 bits of `counter + i` (wrapping, as C's `uint64_t`)
when incrementing, of `counter` otherwise -- the C code adds in 32 bits and recovers the carry with a signed
compare of the sign-flipped words -/
theorem c_sse41_load_counters (counter : UInt64) (incr : Bool) (lo hi : V4) (i : Fin 4) :
    (load_counters counter incr lo hi).1[i]
        = (counter + (if incr then UInt64.ofNat i.val else 0)).toUInt32 ∧
    (load_counters counter incr lo hi).2[i]
        = ((counter + (if incr then UInt64.ofNat i.val else 0)) >>> 32).toUInt32 :=
  CSse41.load_counters_lane counter incr lo hi i

example : (load_counters 0xFFFFFFFF true uninit uninit).1 = #v[0xFFFFFFFF, 0, 1, 2] ∧
          (load_counters 0xFFFFFFFF true uninit uninit).2 = #v[0, 1, 1, 1] := by decide

/-! #### hash4 -/

/-- `blake3_hash4_sse41` stores, at the output pointer, the four chaining values one after the other
(4 x 32 bytes; every other byte of memory is unchanged, see `Mem.write_outside`) and leaves the pointer where it was;
chaining value `i` is that of the `blocks` blocks of input `i`, with counter `counter + i` (wrapping) when
`increment_counter` and `counter` otherwise.  Inputs are raw byte pointers (byte-addressed memories); only bytes
`0 … 64*blocks-1` of each are read. -/
theorem c_sse41_hash4_eq (inputs : PtrArr) (blocks : Nat) (key : CV) (counter : UInt64) (incr : Bool)
    (flags flags_start flags_end : UInt8) (out : BytePtr) :
    blake3_hash4_sse41 inputs blocks key counter incr flags flags_start flags_end out
      = ⟨out.mem.write out.off ((List.range 4).flatMap fun i =>
            bytesOfWords (specHashBlocks key (blockOfMem (inputs i)) blocks
              (counter + (if incr then UInt64.ofNat i else 0)) flags flags_start flags_end)), out.off⟩ := by
  rw [CSse41.hash4_eq_write, CSse41.hash4_bytes, CSse41.outBytesC_eq_flatMap]
  simp only [CSse41.cvOfC_eq, advN_eq]

/-- `blocks = 0`: the loop body never runs and `blake3_hash4_sse41` stores the key four times -/
example (inputs : PtrArr) (key : CV) (counter : UInt64) (incr : Bool) (fl fs fe : UInt8) (out : BytePtr) :
    (blake3_hash4_sse41 inputs 0 key counter incr fl fs fe out).mem
      = out.mem.write out.off (bytesOfWords key ++ bytesOfWords key ++ bytesOfWords key ++ bytesOfWords key) := by
  rw [c_sse41_hash4_eq]
  simp [specHashBlocks, List.range_succ]

/-! #### hash_one and hash_many -/

/-- `hash_one_sse41` = the reference fold over the `blocks` blocks at the input pointer (for any `blocks`, any
previous content of `out`); `CSse41.hash_one_loop` shows that the `while` ends with its condition false -/
theorem c_sse41_hash_one_eq (input : Mem) (blocks : Nat) (key : CV) (counter : UInt64) (flags fs fe : UInt8) (out : CV) :
    hash_one_sse41 input blocks key counter flags fs fe out
      = specHashBlocks key (blockOfMem input) blocks counter flags fs fe := by
  rw [CSse41.hash_one_eq, ← CSse41.cvOfC_eq]
  rfl

/-- **blake3_hash_many_sse41.**  For ANY number of inputs, block count, counter and flags: the memory after the call
is the memory before with the `32 * num_inputs` bytes at the output pointer replaced by the chaining values of the
inputs in order -- input `k` hashed with counter `counter + k` (wrapping) if `increment_counter`, else `counter` --
groups of four through `blake3_hash4_sse41`, the rest through `hash_one_sse41`.  Exactly 32 bytes are written per
input and nothing else (`c_sse41_hash_many_frame`).  No hypothesis is needed: memory is total in the model, so the
theorem says which addresses are written, not that they are valid (that is the caller's obligation). -/
theorem c_sse41_hash_many_eq (inputs : PtrArr) (num_inputs blocks : Nat) (key : CV) (counter : UInt64) (incr : Bool)
    (flags fs fe : UInt8) (out : BytePtr) :
    (blake3_hash_many_sse41 inputs num_inputs blocks key counter incr flags fs fe out).mem
      = out.mem.write out.off ((List.range num_inputs).flatMap fun k =>
          bytesOfWords (specHashBlocks key (blockOfMem (inputs k)) blocks
            (counter + (if incr then UInt64.ofNat k else 0)) flags fs fe)) := by
  rw [CSse41.hash_many_eq, CSse41.outBytesC_eq_flatMap]
  simp only [CSse41.cvOfC_eq, advN_eq]

/-- the bytes written: `32 * num_inputs` of them; everything outside `[out, out + 32 * num_inputs)` is unchanged -/
theorem c_sse41_hash_many_frame (inputs : PtrArr) (num_inputs blocks : Nat) (key : CV) (counter : UInt64) (incr : Bool)
    (flags fs fe : UInt8) (out : BytePtr) (j : Nat) (hj : j < out.off ∨ out.off + 32 * num_inputs ≤ j) :
    (blake3_hash_many_sse41 inputs num_inputs blocks key counter incr flags fs fe out).mem j = out.mem j := by
  rw [CSse41.hash_many_eq]
  apply Mem.write_outside
  rw [CSse41.outBytesC_length]
  exact hj

/-- both `while` loops of `blake3_hash_many_sse41` end because their conditions become false (the iteration bound
of the translation is not what stops them) -/
theorem c_sse41_hash_many_terminates (inputs : PtrArr) (num_inputs blocks : Nat) (key : CV) (counter : UInt64) (incr : Bool)
    (flags fs fe : UInt8) (out : BytePtr) :
    ∃ st, whileFuel (num_inputs + 1) blake3_hash_many_sse41_cond1
        (blake3_hash_many_sse41_loop2 blocks key incr flags fs fe) (out, counter, inputs, num_inputs) = st ∧
      blake3_hash_many_sse41_cond1 st = false :=
  (CSse41.many_loop blocks key incr flags fs fe num_inputs out counter inputs (num_inputs + 1) (by omega)).2

/-- no input: memory is unchanged -/
example (inputs : PtrArr) (blocks : Nat) (key : CV) (counter : UInt64) (incr : Bool) (fl fs fe : UInt8) (out : BytePtr) :
    (blake3_hash_many_sse41 inputs 0 blocks key counter incr fl fs fe out).mem = out.mem := by
  rw [c_sse41_hash_many_eq]; exact Mem.write_nil _ _

/-- a non-trivial instance: eleven one-block inputs, 352 bytes are written at the output pointer -/
example (inputs : PtrArr) (key : CV) (counter : UInt64) (fl fs fe : UInt8) (out : BytePtr) :
    ∃ bs : List UInt8, bs.length = 352 ∧
      (blake3_hash_many_sse41 inputs 11 1 key counter true fl fs fe out).mem = out.mem.write out.off bs := by
  refine ⟨_, ?_, c_sse41_hash_many_eq inputs 11 1 key counter true fl fs fe out⟩
  simp [List.range_succ, bytesOfWords_length]

end B3.Simd
