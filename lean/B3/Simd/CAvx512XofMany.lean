/- `blake3_xof_many_avx512`: the four `while` loops (16, 8, 4, 1 blocks per iteration) -/
import B3.Simd.CAvx512X16
import B3.Simd.CAvx512X8
import B3.Simd.CAvx512X4
import B3.Simd.CAvx512Compress
namespace B3.Simd.C512
open B3 B3.Gen.CAvx512

/-! ### bounded while loops -/

/-- If `P` is preserved by the body while the condition holds and the body decreases `μ`, then a `whileFuel`
with more fuel than `μ` ends in a state satisfying `P` in which the condition is false (so the bound on
the number of iterations was not what stopped the loop). -/
theorem whileFuel_spec {σ : Type} (P : σ → Prop) (μ : σ → Nat) (c : σ → Bool) (f : σ → σ)
    (hstep : ∀ s, P s → c s = true → P (f s) ∧ μ (f s) < μ s) :
    ∀ fuel s, P s → μ s < fuel → P (whileFuel fuel c f s) ∧ c (whileFuel fuel c f s) = false := by
  intro fuel
  induction fuel with
  | zero => intro s _ h; omega
  | succ fuel ih =>
    intro s hP hμ
    rw [whileFuel]
    by_cases hc : c s = true
    · rw [if_pos hc]
      obtain ⟨h1, h2⟩ := hstep s hP hc
      exact ih (f s) h1 (by omega)
    · rw [if_neg hc]
      exact ⟨hP, by simpa using hc⟩

/-! ### the output blocks -/

theorem xofBytes_length (cv : CV) (block : St) (bl fl : UInt8) (c : UInt64) (n : Nat) :
    (xofBytes cv block bl fl c n).length = 64 * n := by
  unfold xofBytes
  induction n with
  | zero => rfl
  | succ n ih =>
    rw [List.range_succ, List.flatMap_append, List.length_append, ih, List.flatMap_singleton, length_bytesOfWords]
    omega

theorem xofBytes_add (cv : CV) (block : St) (bl fl : UInt8) (c : UInt64) (d k : Nat) :
    xofBytes cv block bl fl c d ++ xofBytes cv block bl fl (c + UInt64.ofNat d) k = xofBytes cv block bl fl c (d + k) := by
  unfold xofBytes
  rw [List.range_add, List.flatMap_append, List.flatMap_map]
  have hfg : (fun i => bytesOfWords (Spec.compress cv block (c + UInt64.ofNat d + UInt64.ofNat i) bl.toUInt32 fl.toUInt32))
      = (fun i => bytesOfWords (Spec.compress cv block (c + UInt64.ofNat (d + i)) bl.toUInt32 fl.toUInt32)) := by
    funext i; rw [UInt64.add_assoc, ← UInt64.ofNat_add]
  rw [hfg]

theorem xofBytes_one (cv : CV) (block : St) (bl fl : UInt8) (c : UInt64) :
    xofBytes cv block bl fl c 1 = bytesOfWords (Spec.compress cv block c bl.toUInt32 fl.toUInt32) := by
  unfold xofBytes
  have h0 : c + UInt64.ofNat 0 = c := by
    have : UInt64.ofNat 0 = 0 := rfl
    rw [this, UInt64.add_zero]
  show List.flatMap _ [0] = _
  rw [List.flatMap_singleton, h0]

/-! ### the loops -/

/-- state of the loops after `d` of the `n0` blocks: counter advanced by `d`, pointer advanced by `64 d`, the first
`d` blocks written, nothing else changed -/
def XInv (cv : CV) (block : St) (bl fl : UInt8) (c0 : UInt64) (p0 : BPtr) (n0 : Nat) (s : UInt64 × BPtr × Nat) : Prop :=
  ∃ d, s.1 = c0 + UInt64.ofNat d ∧ s.2.2 + d = n0 ∧ s.2.1.off = p0.off + 64 * d ∧
    s.2.1.buf = p0.buf.take p0.off ++ xofBytes cv block bl fl c0 d ++ p0.buf.drop (p0.off + 64 * d)

/-- one iteration writing `k` blocks -/
theorem xstep_inv (cv : CV) (block : St) (bl fl : UInt8) (c0 : UInt64) (p0 : BPtr) (n0 : Nat)
    (hp0 : p0.off + 64 * n0 ≤ p0.buf.length) (k : Nat) (ck : UInt64) (hck : ck = UInt64.ofNat k)
    (xf : UInt64 → BPtr → BPtr)
    (hxf : ∀ c p, p.off ≤ p.buf.length → xf c p = wr p 0 (xofBytes cv block bl fl c k))
    (c : UInt64) (p : BPtr) (n : Nat) (hinv : XInv cv block bl fl c0 p0 n0 (c, p, n)) (hn : k ≤ n) :
    XInv cv block bl fl c0 p0 n0 (c + ck, BPtr.add (BPtr.merge p (xf c p)) (64 * k), n - k) := by
  obtain ⟨d, h1, h2, h3, h4⟩ := hinv
  simp only at h1 h2 h3 h4
  have hlenA : (p0.buf.take p0.off).length = p0.off := by rw [List.length_take]; omega
  have hplen : p.buf.length = p0.buf.length := by
    rw [h4]; simp only [List.length_append, hlenA, xofBytes_length, List.length_drop]; omega
  refine ⟨d + k, ?_, ?_, ?_, ?_⟩
  · simp only [h1, hck, UInt64.ofNat_add, UInt64.add_assoc]
  · simp only; omega
  · show p.off + 64 * k = p0.off + 64 * (d + k)
    omega
  · show (BPtr.merge p (xf c p)).buf = _
    rw [hxf c p (by omega)]
    show (wr p 0 (xofBytes cv block bl fl c k)).buf = _
    rw [wr_buf, Nat.add_zero, xofBytes_length, h3, h4, h1, ← xofBytes_add cv block bl fl c0 d k]
    have t1 : List.take (p0.off + 64 * d) (List.take p0.off p0.buf ++ xofBytes cv block bl fl c0 d ++ List.drop (p0.off + 64 * d) p0.buf)
        = List.take p0.off p0.buf ++ xofBytes cv block bl fl c0 d := by
      rw [List.take_append_of_le_length (by simp only [List.length_append, hlenA, xofBytes_length]; omega)]
      exact List.take_of_length_le (by simp only [List.length_append, hlenA, xofBytes_length]; omega)
    have t2 : List.drop (p0.off + 64 * d + 64 * k) (List.take p0.off p0.buf ++ xofBytes cv block bl fl c0 d ++ List.drop (p0.off + 64 * d) p0.buf)
        = List.drop (p0.off + 64 * (d + k)) p0.buf := by
      have hL : (List.take p0.off p0.buf ++ xofBytes cv block bl fl c0 d).length = p0.off + 64 * d := by
        simp only [List.length_append, hlenA, xofBytes_length]
      have hnil : List.drop (p0.off + 64 * d + 64 * k) (List.take p0.off p0.buf ++ xofBytes cv block bl fl c0 d) = [] :=
        List.drop_of_length_le (by rw [hL]; omega)
      rw [List.drop_append (l₁ := List.take p0.off p0.buf ++ xofBytes cv block bl fl c0 d), hnil, List.nil_append, hL, List.drop_drop]
      congr 1
      omega
    rw [t1, t2]
    simp only [List.append_assoc]

/-- one of the four loops: from a state satisfying the invariant to one with fewer than `k` blocks left -/
theorem xloop (cv : CV) (block : St) (bl fl : UInt8) (c0 : UInt64) (p0 : BPtr) (n0 : Nat)
    (hp0 : p0.off + 64 * n0 ≤ p0.buf.length) (k : Nat) (hk : 0 < k) (ck : UInt64) (hck : ck = UInt64.ofNat k)
    (xf : UInt64 → BPtr → BPtr)
    (hxf : ∀ c p, p.off ≤ p.buf.length → xf c p = wr p 0 (xofBytes cv block bl fl c k))
    (cond : UInt64 × BPtr × Nat → Bool) (body : UInt64 × BPtr × Nat → UInt64 × BPtr × Nat)
    (hcond : ∀ s, cond s = decide (k ≤ s.2.2))
    (hbody : ∀ c p n, body (c, p, n) = (c + ck, BPtr.add (BPtr.merge p (xf c p)) (64 * k), n - k))
    (s : UInt64 × BPtr × Nat) (hs : XInv cv block bl fl c0 p0 n0 s) :
    XInv cv block bl fl c0 p0 n0 (whileFuel (s.2.2 + 1) cond body s) ∧ (whileFuel (s.2.2 + 1) cond body s).2.2 < k := by
  have := whileFuel_spec (XInv cv block bl fl c0 p0 n0) (fun s => s.2.2) cond body (by
    intro s hP hc
    obtain ⟨c, p, n⟩ := s
    rw [hcond] at hc
    have hn : k ≤ n := by simpa using hc
    rw [hbody]
    exact ⟨xstep_inv cv block bl fl c0 p0 n0 hp0 k ck hck xf hxf c p n hP hn, by simp only; omega⟩)
    (s.2.2 + 1) s hs (by omega)
  refine ⟨this.1, ?_⟩
  have h2 := this.2
  rw [hcond] at h2
  simpa using h2

/-- **blake3_xof_many_avx512.**  If the `64 n` bytes at `out` lie inside the buffer, the function overwrites exactly
them with the `n` output blocks `Spec.compress cv block (counter + i) block_len flags`, `i = 0 … n-1` (64-bit
wrapping counter: the carry into the high word is propagated inside one 16-, 8- or 4-block call as well as
between calls), and changes nothing else. -/
theorem xof_many_eq (cv : CV) (block : St) (bl : UInt8) (counter : UInt64) (fl : UInt8) (out : BPtr) (n : Nat)
    (h : out.off + 64 * n ≤ out.buf.length) :
    (blake3_xof_many_avx512 cv block bl counter fl out n).buf
      = out.buf.take out.off ++ xofBytes cv block bl fl counter n ++ out.buf.drop (out.off + 64 * n) := by
  have h0 : XInv cv block bl fl counter out n (counter, out, n) :=
    ⟨0, by simp, by simp, by simp, by simp [xofBytes]⟩
  obtain ⟨i1, _⟩ := xloop cv block bl fl counter out n h 16 (by omega) 16 rfl
    (fun c p => blake3_xof16_avx512 cv block bl c fl p) (fun c p hp => xof16_eq cv block bl c fl p hp)
    blake3_xof_many_avx512_cond1 (blake3_xof_many_avx512_loop2 cv block bl fl) (fun _ => rfl) (fun _ _ _ => rfl) _ h0
  obtain ⟨i2, _⟩ := xloop cv block bl fl counter out n h 8 (by omega) 8 rfl
    (fun c p => blake3_xof8_avx512 cv block bl c fl p) (fun c p hp => xof8_eq cv block bl c fl p hp)
    blake3_xof_many_avx512_cond3 (blake3_xof_many_avx512_loop4 cv block bl fl) (fun _ => rfl) (fun _ _ _ => rfl) _ i1
  obtain ⟨i3, _⟩ := xloop cv block bl fl counter out n h 4 (by omega) 4 rfl
    (fun c p => blake3_xof4_avx512 cv block bl c fl p) (fun c p hp => xof4_eq cv block bl c fl p hp)
    blake3_xof_many_avx512_cond5 (blake3_xof_many_avx512_loop6 cv block bl fl) (fun _ => rfl) (fun _ _ _ => rfl) _ i2
  obtain ⟨i4, l4⟩ := xloop cv block bl fl counter out n h 1 (by omega) 1 rfl
    (fun c p => blake3_compress_xof_avx512 cv block bl c fl p)
    (fun c p hp => by rw [c512_compress_xof_eq cv block bl c fl p hp, xofBytes_one])
    blake3_xof_many_avx512_cond7 (blake3_xof_many_avx512_loop8 cv block bl fl) (fun _ => rfl) (fun _ _ _ => rfl) _ i3
  obtain ⟨d, _, hd, _, hbuf⟩ := i4
  have hdn : d = n := by omega
  rw [hdn] at hbuf
  exact hbuf

end B3.Simd.C512
