/-
`kernel_rfl`: close a goal `a = b` with the proof term `Eq.refl a` WITHOUT asking the elaborator to
check that `a` and `b` are definitionally equal; the check is done once, by the kernel, when the
theorem is added to the environment.  (The elaborator's `isDefEq` is two orders of magnitude slower
than the kernel on the unfolding of a whole BLAKE3 round over symbolic lanes.)

Soundness: nothing is assumed -- if `a` and `b` are not definitionally equal the kernel rejects the
declaration ("(kernel) declaration type mismatch").  No axiom is involved; `#print axioms` of the
theorems proved this way shows at most propext / Classical.choice / Quot.sound coming from other steps.
This is the only file of the project that imports the `Lean` package (part of the Lean 4 distribution).
-/
import Lean
open Lean Elab Tactic Meta in
elab "kernel_rfl" : tactic => do
  let g ← getMainGoal
  let t ← instantiateMVars (← g.getType)
  let t := t.cleanupAnnotations.headBeta
  let t ← if t.isEq then pure t else whnfR t
  let some (_, lhs, _) := t.eq? | throwError "kernel_rfl: the goal is not an equality{indentExpr t}"
  g.assign (← mkEqRefl lhs)
