/-
Helper lemmas for the generated SSE2 kernels (`B3.Gen.RsSse2`, translated from src/rust_sse2.rs), in
namespace `B3.Simd.Sse2`.  Same structure as `Sse41.lean` (whose generic definitions are reused):

  Sse2Prim       (trusted) lane model of the 16-bit-lane intrinsics used by `blend_epi16`
  Sse2Base       `blend_epi16` = `_mm_blend_epi16`; the round tactic
  Sse2RoundsA-D  the round pieces 1 .. 7 of `compress_pre` against `Spec.round`
  Sse2Compress   compress_pre / compress_in_place / compress_xof = Spec.compress
  Sse2WideBase, Sse2Lane0..3, Sse2Wide   lane k of the 4-way `round` = the specification's round
  Sse2Hash4      transposes, counters, the loop of hash4 and its output
  Sse2Hash1      the while loop of hash1
  Sse2HashMany   hash_many: groups of four through hash4, the rest through hash1

The theorems are restated in `B3/Simd/Sse2Props.lean`.
-/
import B3.Simd.Sse2Compress
import B3.Simd.Sse2Hash4
import B3.Simd.Sse2HashMany
