/- the generated Wasm SIMD `compress_pre`, `compress_in_place`, `compress_xof` against the specification
(same route as `Sse41Compress.lean`, whose generic tactics `atoms8` / `vec4of` are reused) -/
import B3.Simd.Sse41Compress
import B3.Simd.WasmRoundsA
import B3.Simd.WasmRoundsB
import B3.Simd.WasmRoundsC
import B3.Simd.WasmRoundsD
namespace B3.Simd.Wasm
open B3 B3.Simd B3.Gen.RsWasm

/-- the first piece of `compress_pre`: rows of the initial state, block words in their original order -/
theorem init_eq (cv : CV) (block : St) (bl : UInt8) (t : UInt64) (fl : UInt8) :
    compress_pre_init cv block bl t fl
      = rows8r (Spec.initState cv t bl.toUInt32 fl.toUInt32) block := by
  unfold compress_pre_init Spec.initState
  rw [Proofs.rs_iv]
  atoms8 cv; atoms16 block
  rfl

/-- the seven round pieces in sequence -/
theorem chain_eq (s0 w : St) :
    compress_pre_round7 (compress_pre_round6 (compress_pre_round5 (compress_pre_round4 (compress_pre_round3
      (compress_pre_round2 (compress_pre_round1 (rows8r s0 w))))))) = rows4 (Spec.rounds7 s0 w) := by
  rw [round1_eq, round2_eq, round3_eq, round4_eq, round5_eq, round6_eq, round7_eq]
  rfl

/-- `compress_pre` is the linear composition of its pieces (unfolding only) -/
theorem compress_pre_chain (cv : CV) (block : St) (bl : UInt8) (t : UInt64) (fl : UInt8) :
    compress_pre cv block bl t fl
      = vec4of (compress_pre_round7 (compress_pre_round6 (compress_pre_round5 (compress_pre_round4 (compress_pre_round3
          (compress_pre_round2 (compress_pre_round1 (compress_pre_init cv block bl t fl)))))))) := rfl

theorem compress_pre_eq (cv : CV) (block : St) (bl : UInt8) (t : UInt64) (fl : UInt8) :
    compress_pre cv block bl t fl
      = #v[row (Spec.rounds7 (Spec.initState cv t bl.toUInt32 fl.toUInt32) block) 0,
           row (Spec.rounds7 (Spec.initState cv t bl.toUInt32 fl.toUInt32) block) 1,
           row (Spec.rounds7 (Spec.initState cv t bl.toUInt32 fl.toUInt32) block) 2,
           row (Spec.rounds7 (Spec.initState cv t bl.toUInt32 fl.toUInt32) block) 3] := by
  rw [compress_pre_chain, init_eq, chain_eq]
  rfl

theorem compress_in_place_eq (cv : CV) (block : St) (bl : UInt8) (t : UInt64) (fl : UInt8) :
    compress_in_place cv block bl t fl = first8 (Spec.compress cv block t bl.toUInt32 fl.toUInt32) := by
  unfold compress_in_place Spec.compress
  rw [compress_pre_eq]
  generalize Spec.rounds7 _ _ = v
  atoms16 v; atoms8 cv
  kernel_rfl

/-- the body of `compress_xof` as a function of the value of `compress_pre` (unfolding only) -/
def xofOf (r : Vector V4 4) (cv : CV) : St :=
  transmute_m128x4 #v[xor r[0] r[2], xor r[1] r[3], xor r[2] (loadu_words cv 0), xor r[3] (loadu_words cv 4)]

theorem compress_xof_unfold (cv : CV) (block : St) (bl : UInt8) (t : UInt64) (fl : UInt8) :
    compress_xof cv block bl t fl = xofOf (compress_pre cv block bl t fl) cv := rfl

theorem compress_xof_eq (cv : CV) (block : St) (bl : UInt8) (t : UInt64) (fl : UInt8) :
    compress_xof cv block bl t fl = Spec.compress cv block t bl.toUInt32 fl.toUInt32 := by
  rw [compress_xof_unfold, compress_pre_eq]
  unfold Spec.compress
  generalize Spec.rounds7 _ _ = v
  atoms16 v; atoms8 cv
  kernel_rfl

end B3.Simd.Wasm
