/- round pieces 5-6 of the generated `compress_pre` (c/blake3_avx512.c) against `Spec.round` (kernel-checked) -/
import B3.Simd.CAvx512CompressA
namespace B3.Simd.C512
open B3 B3.Gen.CAvx512

theorem c_round5_eq (s w : St) :
    compress_pre_part6 (rowsV s) (grp0 w) (grp1 w) (grp2 w) (grp3 w)
      = crows (Spec.round s (Spec.permute w)) (Spec.permute w) := by c_round_tac s w

theorem c_round6_eq (s w : St) :
    compress_pre_part7 (rowsV s) (grp0 w) (grp1 w) (grp2 w) (grp3 w)
      = crows (Spec.round s (Spec.permute w)) (Spec.permute w) := by c_round_tac s w

end B3.Simd.C512
