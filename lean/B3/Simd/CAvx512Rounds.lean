/-
Width-independent part of the proofs about `round_fn4 / 8 / 16`: the scalar interpretation of a statement
list, its comparison with the specification's round (one kernel evaluation per list), and lanes as maps.
-/
import B3.Simd.CAvx512Base
import B3.Simd.RProg
namespace B3.Simd.C512
open B3
open B3.Gen.C (MSG_SCHEDULE)

/-- the operations on a single 32-bit word: what every lane of the registers does -/
def opsS : ROps UInt32 := ⟨(· + ·), (· ^^^ ·), (rotr · 16), (rotr · 12), (rotr · 8), (rotr · 7)⟩

/-- a word in a box: a register type different from `UInt32`, so that the kernel never tries to unify the
interpreter's chain of register updates with the specification's chain of word updates -/
structure W where
  w : UInt32

def opsW : ROps W :=
  ⟨fun a b => ⟨a.w + b.w⟩, fun a b => ⟨a.w ^^^ b.w⟩, fun a => ⟨rotr a.w 16⟩, fun a => ⟨rotr a.w 12⟩,
   fun a => ⟨rotr a.w 8⟩, fun a => ⟨rotr a.w 7⟩⟩

theorem homW : opsW.Hom opsS W.w := ⟨fun _ _ => rfl, fun _ _ => rfl, fun _ => rfl, fun _ => rfl, fun _ => rfl, fun _ => rfl⟩

def ofS (s : St) : Vector W 16 :=
  #v[⟨s[0]⟩, ⟨s[1]⟩, ⟨s[2]⟩, ⟨s[3]⟩, ⟨s[4]⟩, ⟨s[5]⟩, ⟨s[6]⟩, ⟨s[7]⟩, ⟨s[8]⟩, ⟨s[9]⟩, ⟨s[10]⟩, ⟨s[11]⟩, ⟨s[12]⟩, ⟨s[13]⟩, ⟨s[14]⟩, ⟨s[15]⟩]

def toS (r : Vector W 16) : St :=
  #v[r[0].w, r[1].w, r[2].w, r[3].w, r[4].w, r[5].w, r[6].w, r[7].w, r[8].w, r[9].w, r[10].w, r[11].w, r[12].w, r[13].w,
     r[14].w, r[15].w]

theorem toS_eq_map (r : Vector W 16) : toS r = r.map W.w := by
  apply Vector.ext
  intro i hi
  rw [Vector.getElem_map]
  match i, hi with
  | 0, _ | 1, _ | 2, _ | 3, _ | 4, _ | 5, _ | 6, _ | 7, _
  | 8, _ | 9, _ | 10, _ | 11, _ | 12, _ | 13, _ | 14, _ | 15, _ => rfl
  | n + 16, h => omega

theorem map_ofS (s : St) : (ofS s).map W.w = s := by
  rw [← toS_eq_map]
  conv => rhs; rw [Proofs.vec16_eta s]
  rfl

/-- from the boxed evaluation (what the kernel checks) to the scalar interpretation -/
theorem scalar_of_boxed (prog : List RStmt)
    (h : ∀ s x : St, toS (rrun opsW prog (ofS s) (ofS x)) = roundWithA s (fun i => x[i])) (s x : St) :
    rrun opsS prog s x = Spec.roundWith s (fun i => x[i]) := by
  rw [← roundWithA_eq, ← h, toS_eq_map, rrun_map homW, map_ofS, map_ofS]

/-- the kernel check of a statement list against the (re-associated) specification round -/
macro "boxed_round_tac " s:ident x:ident : tactic => `(tactic|
  (atoms16 $s
   rw [Proofs.vec16_eta $x]
   generalize $x[0] = x0; generalize $x[1] = x1; generalize $x[2] = x2; generalize $x[3] = x3
   generalize $x[4] = x4; generalize $x[5] = x5; generalize $x[6] = x6; generalize $x[7] = x7
   generalize $x[8] = x8; generalize $x[9] = x9; generalize $x[10] = x10; generalize $x[11] = x11
   generalize $x[12] = x12; generalize $x[13] = x13; generalize $x[14] = x14; generalize $x[15] = x15
   kernel_rfl))

/-! ### lanes as maps -/

theorem laneN_get {n : Nat} (l : Fin n) (v : Vector (Vector UInt32 n) 16) (i : Fin 16) : (laneN l v)[i] = v[i][l] := by
  match i with
  | ⟨0, _⟩ | ⟨1, _⟩ | ⟨2, _⟩ | ⟨3, _⟩ | ⟨4, _⟩ | ⟨5, _⟩ | ⟨6, _⟩ | ⟨7, _⟩
  | ⟨8, _⟩ | ⟨9, _⟩ | ⟨10, _⟩ | ⟨11, _⟩ | ⟨12, _⟩ | ⟨13, _⟩ | ⟨14, _⟩ | ⟨15, _⟩ => rfl
  | ⟨k + 16, h⟩ => omega

theorem laneN_eq_map {n : Nat} (l : Fin n) (v : Vector (Vector UInt32 n) 16) : laneN l v = v.map (fun a => a[l]) := by
  apply Vector.ext
  intro i hi
  rw [Vector.getElem_map]
  exact laneN_get l v ⟨i, hi⟩

theorem schedN_get {n : Nat} (m : Vector (Vector UInt32 n) 16) (r : Fin 7) (i : Fin 16) :
    (schedN m r)[i] = m[MSG_SCHEDULE[r][i]] := by
  match i with
  | ⟨0, _⟩ | ⟨1, _⟩ | ⟨2, _⟩ | ⟨3, _⟩ | ⟨4, _⟩ | ⟨5, _⟩ | ⟨6, _⟩ | ⟨7, _⟩
  | ⟨8, _⟩ | ⟨9, _⟩ | ⟨10, _⟩ | ⟨11, _⟩ | ⟨12, _⟩ | ⟨13, _⟩ | ⟨14, _⟩ | ⟨15, _⟩ => rfl
  | ⟨k + 16, h⟩ => omega

/-- a translated wide round that is the interpretation of a list whose scalar interpretation is the
specification's round, is the specification's round in every lane -/
theorem round_lane_of_run {n : Nat} (o : ROps (Vector UInt32 n)) (prog : List RStmt)
    (hom : ∀ l : Fin n, o.Hom opsS (fun a => a[l]))
    (hs : ∀ s x : St, rrun opsS prog s x = Spec.roundWith s (fun i => x[i]))
    (v m : Vector (Vector UInt32 n) 16) (r : Fin 7) (l : Fin n) :
    laneN l (rrun o prog v (schedN m r))
      = Spec.roundWith (laneN l v) (fun i => (laneN l m)[MSG_SCHEDULE[r][i]]) := by
  rw [laneN_eq_map, rrun_map (hom l), hs, ← laneN_eq_map]
  congr 1
  funext i
  rw [← laneN_eq_map, laneN_get, schedN_get, laneN_get]

end B3.Simd.C512
