/- the AVX2 8-way `round` lane by lane -/
import B3.Simd.Avx2Lane0
import B3.Simd.Avx2Lane1
import B3.Simd.Avx2Lane2
import B3.Simd.Avx2Lane3
import B3.Simd.Avx2Lane4
import B3.Simd.Avx2Lane5
import B3.Simd.Avx2Lane6
import B3.Simd.Avx2Lane7
namespace B3.Simd.Avx2
open B3 B3.Simd B3.Gen.RsAvx2
open B3.Gen.Rs (MSG_SCHEDULE)

theorem round_lane_aux (l : Fin 8) (v m : Vector V8 16) (r : Fin 7) :
    lane8 l (round v m r) = roundWithA (lane8 l v) (fun i => (sched8 m r)[i][l]) := by
  match l with
  | 0 => exact round_lane0 v m r
  | 1 => exact round_lane1 v m r
  | 2 => exact round_lane2 v m r
  | 3 => exact round_lane3 v m r
  | 4 => exact round_lane4 v m r
  | 5 => exact round_lane5 v m r
  | 6 => exact round_lane6 v m r
  | 7 => exact round_lane7 v m r

theorem sched8_get (m : Vector V8 16) (r : Fin 7) (i : Fin 16) : (sched8 m r)[i] = m[MSG_SCHEDULE[r][i]] := by
  match i with
  | ⟨0, _⟩ | ⟨1, _⟩ | ⟨2, _⟩ | ⟨3, _⟩ | ⟨4, _⟩ | ⟨5, _⟩ | ⟨6, _⟩ | ⟨7, _⟩
  | ⟨8, _⟩ | ⟨9, _⟩ | ⟨10, _⟩ | ⟨11, _⟩ | ⟨12, _⟩ | ⟨13, _⟩ | ⟨14, _⟩ | ⟨15, _⟩ => rfl
  | ⟨n + 16, h⟩ => omega

theorem lane8_get (l : Fin 8) (v : Vector V8 16) (i : Fin 16) : (lane8 l v)[i] = v[i][l] := by
  match i with
  | ⟨0, _⟩ | ⟨1, _⟩ | ⟨2, _⟩ | ⟨3, _⟩ | ⟨4, _⟩ | ⟨5, _⟩ | ⟨6, _⟩ | ⟨7, _⟩
  | ⟨8, _⟩ | ⟨9, _⟩ | ⟨10, _⟩ | ⟨11, _⟩ | ⟨12, _⟩ | ⟨13, _⟩ | ⟨14, _⟩ | ⟨15, _⟩ => rfl
  | ⟨n + 16, h⟩ => omega

theorem lane8_eq_map (l : Fin 8) (v : Vector V8 16) : lane8 l v = v.map (fun a => a[l]) := by
  apply Vector.ext
  intro i hi
  rw [Vector.getElem_map]
  exact lane8_get l v ⟨i, hi⟩

/-- lane `l` of the 8-way round is the specification's round on lane `l` -/
theorem round_lane (l : Fin 8) (v m : Vector V8 16) (r : Fin 7) :
    lane8 l (round v m r) = Spec.roundWith (lane8 l v) (fun i => (lane8 l m)[MSG_SCHEDULE[r][i]]) := by
  rw [round_lane_aux, roundWithA_eq]
  congr 1
  funext i
  rw [sched8_get, lane8_get]

end B3.Simd.Avx2
