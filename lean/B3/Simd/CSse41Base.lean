/-
Base definitions for the proofs about the generated C SSE4.1 kernels (`B3.Gen.CSse41`, translated from
c/blake3_sse41.c).  The rotations of the C file (byte shuffles for 16 and 8, `xor` of the two shifted
halves for 12 and 7) are first shown to be lane-wise `rotr` (`rot*_eq`, bit-level facts of `CBits.lean`);
everything else is then checked against the specification by kernel reduction over generalised lanes, as
for the Rust file.  The theorems themselves are stated in `B3/Simd/CSse41Props.lean`.
-/
import B3.Spec
import B3.Gen.CSse41
import B3.Proofs.Compress
import B3.Simd.KernelRfl
import B3.Simd.CBits
import B3.Simd.Sse41Base
namespace B3.Simd.CSse41
open B3.Simd.CI
open B3 B3.Simd B3.Gen.CSse41

/-! ### the four rotations -/

/-- the control register of `rot16`, byte by byte (evaluated by the kernel) -/
theorem rot16_mask : shufbOk (_mm_set_epi8 13 12 15 14 9 8 11 10 5 4 7 6 1 0 3 2) 0 2 ∧ shufbOk (_mm_set_epi8 13 12 15 14 9 8 11 10 5 4 7 6 1 0 3 2) 1 3 ∧ shufbOk (_mm_set_epi8 13 12 15 14 9 8 11 10 5 4 7 6 1 0 3 2) 2 0 ∧ shufbOk (_mm_set_epi8 13 12 15 14 9 8 11 10 5 4 7 6 1 0 3 2) 3 1 ∧ shufbOk (_mm_set_epi8 13 12 15 14 9 8 11 10 5 4 7 6 1 0 3 2) 4 6 ∧ shufbOk (_mm_set_epi8 13 12 15 14 9 8 11 10 5 4 7 6 1 0 3 2) 5 7 ∧ shufbOk (_mm_set_epi8 13 12 15 14 9 8 11 10 5 4 7 6 1 0 3 2) 6 4 ∧ shufbOk (_mm_set_epi8 13 12 15 14 9 8 11 10 5 4 7 6 1 0 3 2) 7 5 ∧ shufbOk (_mm_set_epi8 13 12 15 14 9 8 11 10 5 4 7 6 1 0 3 2) 8 10 ∧ shufbOk (_mm_set_epi8 13 12 15 14 9 8 11 10 5 4 7 6 1 0 3 2) 9 11 ∧ shufbOk (_mm_set_epi8 13 12 15 14 9 8 11 10 5 4 7 6 1 0 3 2) 10 8 ∧ shufbOk (_mm_set_epi8 13 12 15 14 9 8 11 10 5 4 7 6 1 0 3 2) 11 9 ∧ shufbOk (_mm_set_epi8 13 12 15 14 9 8 11 10 5 4 7 6 1 0 3 2) 12 14 ∧ shufbOk (_mm_set_epi8 13 12 15 14 9 8 11 10 5 4 7 6 1 0 3 2) 13 15 ∧ shufbOk (_mm_set_epi8 13 12 15 14 9 8 11 10 5 4 7 6 1 0 3 2) 14 12 ∧ shufbOk (_mm_set_epi8 13 12 15 14 9 8 11 10 5 4 7 6 1 0 3 2) 15 13 := by
  decide

/-- the control register of `rot8`, byte by byte (evaluated by the kernel) -/
theorem rot8_mask : shufbOk (_mm_set_epi8 12 15 14 13 8 11 10 9 4 7 6 5 0 3 2 1) 0 1 ∧ shufbOk (_mm_set_epi8 12 15 14 13 8 11 10 9 4 7 6 5 0 3 2 1) 1 2 ∧ shufbOk (_mm_set_epi8 12 15 14 13 8 11 10 9 4 7 6 5 0 3 2 1) 2 3 ∧ shufbOk (_mm_set_epi8 12 15 14 13 8 11 10 9 4 7 6 5 0 3 2 1) 3 0 ∧ shufbOk (_mm_set_epi8 12 15 14 13 8 11 10 9 4 7 6 5 0 3 2 1) 4 5 ∧ shufbOk (_mm_set_epi8 12 15 14 13 8 11 10 9 4 7 6 5 0 3 2 1) 5 6 ∧ shufbOk (_mm_set_epi8 12 15 14 13 8 11 10 9 4 7 6 5 0 3 2 1) 6 7 ∧ shufbOk (_mm_set_epi8 12 15 14 13 8 11 10 9 4 7 6 5 0 3 2 1) 7 4 ∧ shufbOk (_mm_set_epi8 12 15 14 13 8 11 10 9 4 7 6 5 0 3 2 1) 8 9 ∧ shufbOk (_mm_set_epi8 12 15 14 13 8 11 10 9 4 7 6 5 0 3 2 1) 9 10 ∧ shufbOk (_mm_set_epi8 12 15 14 13 8 11 10 9 4 7 6 5 0 3 2 1) 10 11 ∧ shufbOk (_mm_set_epi8 12 15 14 13 8 11 10 9 4 7 6 5 0 3 2 1) 11 8 ∧ shufbOk (_mm_set_epi8 12 15 14 13 8 11 10 9 4 7 6 5 0 3 2 1) 12 13 ∧ shufbOk (_mm_set_epi8 12 15 14 13 8 11 10 9 4 7 6 5 0 3 2 1) 13 14 ∧ shufbOk (_mm_set_epi8 12 15 14 13 8 11 10 9 4 7 6 5 0 3 2 1) 14 15 ∧ shufbOk (_mm_set_epi8 12 15 14 13 8 11 10 9 4 7 6 5 0 3 2 1) 15 12 := by
  decide

theorem shuf_rot16 (x : V4) :
    _mm_shuffle_epi8 x (_mm_set_epi8 13 12 15 14 9 8 11 10 5 4 7 6 1 0 3 2) = rotv 16 x := by
  rw [shuffle_epi8_lit x _ 2 3 0 1 6 7 4 5 10 11 8 9 14 15 12 13 rot16_mask, v4_eta x]
  generalize x[0] = a; generalize x[1] = b; generalize x[2] = c; generalize x[3] = d
  have hb := byte16_lanes a b c d
  exact v4_congr (by rw [hb.2.2.1, hb.2.2.2.1, hb.1, hb.2.1]; exact bytes_rot16 a) (by rw [hb.2.2.2.2.2.2.1, hb.2.2.2.2.2.2.2.1, hb.2.2.2.2.1, hb.2.2.2.2.2.1]; exact bytes_rot16 b) (by rw [hb.2.2.2.2.2.2.2.2.2.2.1, hb.2.2.2.2.2.2.2.2.2.2.2.1, hb.2.2.2.2.2.2.2.2.1, hb.2.2.2.2.2.2.2.2.2.1]; exact bytes_rot16 c) (by rw [hb.2.2.2.2.2.2.2.2.2.2.2.2.2.2.1, hb.2.2.2.2.2.2.2.2.2.2.2.2.2.2.2, hb.2.2.2.2.2.2.2.2.2.2.2.2.1, hb.2.2.2.2.2.2.2.2.2.2.2.2.2.1]; exact bytes_rot16 d)

theorem shuf_rot8 (x : V4) :
    _mm_shuffle_epi8 x (_mm_set_epi8 12 15 14 13 8 11 10 9 4 7 6 5 0 3 2 1) = rotv 8 x := by
  rw [shuffle_epi8_lit x _ 1 2 3 0 5 6 7 4 9 10 11 8 13 14 15 12 rot8_mask, v4_eta x]
  generalize x[0] = a; generalize x[1] = b; generalize x[2] = c; generalize x[3] = d
  have hb := byte16_lanes a b c d
  exact v4_congr (by rw [hb.2.1, hb.2.2.1, hb.2.2.2.1, hb.1]; exact bytes_rot8 a) (by rw [hb.2.2.2.2.2.1, hb.2.2.2.2.2.2.1, hb.2.2.2.2.2.2.2.1, hb.2.2.2.2.1]; exact bytes_rot8 b) (by rw [hb.2.2.2.2.2.2.2.2.2.1, hb.2.2.2.2.2.2.2.2.2.2.1, hb.2.2.2.2.2.2.2.2.2.2.2.1, hb.2.2.2.2.2.2.2.2.1]; exact bytes_rot8 c) (by rw [hb.2.2.2.2.2.2.2.2.2.2.2.2.2.1, hb.2.2.2.2.2.2.2.2.2.2.2.2.2.2.1, hb.2.2.2.2.2.2.2.2.2.2.2.2.2.2.2, hb.2.2.2.2.2.2.2.2.2.2.2.2.1]; exact bytes_rot8 d)

theorem rot16_eq (x : V4) : rot16 x = rotv 16 x := shuf_rot16 x
theorem rot8_eq (x : V4) : rot8 x = rotv 8 x := shuf_rot8 x

theorem rot12_eq (x : V4) : rot12 x = rotv 12 x := by
  show #v[srl32 x[0] 12 ^^^ sll32 x[0] 20, srl32 x[1] 12 ^^^ sll32 x[1] 20,
          srl32 x[2] 12 ^^^ sll32 x[2] 20, srl32 x[3] 12 ^^^ sll32 x[3] 20] = _
  rw [xor_rot12, xor_rot12, xor_rot12, xor_rot12]
  rfl

theorem rot7_eq (x : V4) : rot7 x = rotv 7 x := by
  show #v[srl32 x[0] 7 ^^^ sll32 x[0] 25, srl32 x[1] 7 ^^^ sll32 x[1] 25,
          srl32 x[2] 7 ^^^ sll32 x[2] 25, srl32 x[3] 7 ^^^ sll32 x[3] 25] = _
  rw [xor_rot7, xor_rot7, xor_rot7, xor_rot7]
  rfl

theorem rot16_fun : @rot16 = rotv 16 := funext rot16_eq
theorem rot12_fun : @rot12 = rotv 12 := funext rot12_eq
theorem rot8_fun : @rot8 = rotv 8 := funext rot8_eq
theorem rot7_fun : @rot7 = rotv 7 := funext rot7_eq

/-! ### g1 / g2 with the rotations in reference form -/

def g1I (row0 row1 row2 row3 m : V4) : V4 × V4 × V4 × V4 :=
  let row0 := (addv (addv row0 m) row1)
  let row3 := (xorv row3 row0)
  let row3 := (rotv 16 row3)
  let row2 := (addv row2 row3)
  let row1 := (xorv row1 row2)
  let row1 := (rotv 12 row1)
  (row0, row1, row2, row3)

def g2I (row0 row1 row2 row3 m : V4) : V4 × V4 × V4 × V4 :=
  let row0 := (addv (addv row0 m) row1)
  let row3 := (xorv row3 row0)
  let row3 := (rotv 8 row3)
  let row2 := (addv row2 row3)
  let row1 := (xorv row1 row2)
  let row1 := (rotv 7 row1)
  (row0, row1, row2, row3)

theorem g1_fun : @g1 = @g1I := by
  funext a b c d m
  unfold g1 g1I
  rw [rot16_fun, rot12_fun]

theorem g2_fun : @g2 = @g2I := by
  funext a b c d m
  unfold g2 g2I
  rw [rot8_fun, rot7_fun]

/-! ### the state of `compress_pre` between its pieces -/

/-- what a round piece of `compress_pre` returns: the array of the four rows of `s` and the grouped words of `w` -/
def rows5 (s w : St) : Vector V4 4 × V4 × V4 × V4 × V4 :=
  (#v[row s 0, row s 1, row s 2, row s 3], grp0 w, grp1 w, grp2 w, grp3 w)

/-- the rows of `s` and the words of `w` in their original order (what `compress_pre_init` returns) -/
def rows5r (s w : St) : Vector V4 4 × V4 × V4 × V4 × V4 :=
  (#v[row s 0, row s 1, row s 2, row s 3], row w 0, row w 1, row w 2, row w 3)

/-- rounds 2-6: one `Spec.round` with the permuted message; leave the permuted message in grouped order -/
macro "cround_tac " f:ident s:ident w:ident : tactic => `(tactic|
  (unfold $f
   rw [g1_fun, g2_fun]
   unfold Spec.round
   rw [← roundWithA_eq]
   atoms16 $s; atoms16 $w
   kernel_rfl))

end B3.Simd.CSse41
