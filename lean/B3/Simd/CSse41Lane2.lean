/- lane 2 of the generated C 4-way `round_fn` (kernel check) -/
import B3.Simd.CSse41WideBase
namespace B3.Simd.CSse41
open B3.Simd.CI
open B3 B3.Simd B3.Gen.CSse41
open B3.Gen.C (MSG_SCHEDULE)

theorem round_lane2 (v m : Vector V4 16) (r : Fin 7) :
    lane 2 (round_fn v m r) = roundWithA (lane 2 v) (fun i => (schedC m r)[i][(2 : Fin 4)]) := by
  cround_lane_tac v m r

end B3.Simd.CSse41
