/-
Lane model of the SSE2 intrinsics that `src/rust_sse2.rs` uses in addition to those of
`src/rust_sse41.rs` (its `blend_epi16` emulates the SSE4.1 instruction `_mm_blend_epi16` with
16-bit-lane set / compare and 128-bit and / andnot / or).  Extends `B3/Simd/Prim.lean`.

THIS FILE IS TRUSTED in the same sense as `Prim.lean`: each definition transcribes the pseudo-code of
the Intel Intrinsics Guide.  A 128-bit register stays `V4` (four 32-bit lanes); 16-bit word `2k` is the
low half of lane `k`, word `2k+1` its high half.  `i16` values are represented by their bit patterns
(`UInt16`).  Validated at run time by `B3/Simd/Run2.lean`.
-/
import B3.Simd.Prim
namespace B3.Simd
open B3

/-- the 32-bit lane whose low 16-bit word is `lo` and whose high 16-bit word is `hi` -/
def pack16 (lo hi : UInt16) : UInt32 := lo.toUInt32 ||| (hi.toUInt32 <<< 16)

/-- low / high 16-bit word of a 32-bit lane -/
def lo16 (x : UInt32) : UInt16 := x.toUInt16
def hi16 (x : UInt32) : UInt16 := (x >>> 16).toUInt16

/-- `dst[15:0] := e0; dst[31:16] := e1; dst[47:32] := e2; … dst[127:112] := e7`
(the first argument is the HIGHEST word) -/
def _mm_set_epi16 (e7 e6 e5 e4 e3 e2 e1 e0 : UInt16) : V4 :=
  #v[pack16 e0 e1, pack16 e2 e3, pack16 e4 e5, pack16 e6 e7]

/-- `FOR j := 0 to 7: i := j*16; dst[i+15:i] := a[15:0]` -/
def _mm_set1_epi16 (a : UInt16) : V4 := #v[pack16 a a, pack16 a a, pack16 a a, pack16 a a]

/-- `dst[127:0] := (a[127:0] AND b[127:0])` -/
def _mm_and_si128 (a b : V4) : V4 := #v[a[0] &&& b[0], a[1] &&& b[1], a[2] &&& b[2], a[3] &&& b[3]]

/-- `dst[127:0] := ((NOT a[127:0]) AND b[127:0])` (the FIRST operand is complemented) -/
def _mm_andnot_si128 (a b : V4) : V4 :=
  #v[~~~ a[0] &&& b[0], ~~~ a[1] &&& b[1], ~~~ a[2] &&& b[2], ~~~ a[3] &&& b[3]]

/-- one 16-bit word of `_mm_cmpeq_epi16`: `(a[i+15:i] == b[i+15:i]) ? 0xFFFF : 0` -/
def cmpeq16 (a b : UInt16) : UInt16 := if a = b then 0xFFFF else 0

/-- `FOR j := 0 to 7: i := j*16; dst[i+15:i] := (a[i+15:i] == b[i+15:i]) ? 0xFFFF : 0` -/
def _mm_cmpeq_epi16 (a b : V4) : V4 :=
  #v[pack16 (cmpeq16 (lo16 a[0]) (lo16 b[0])) (cmpeq16 (hi16 a[0]) (hi16 b[0])),
     pack16 (cmpeq16 (lo16 a[1]) (lo16 b[1])) (cmpeq16 (hi16 a[1]) (hi16 b[1])),
     pack16 (cmpeq16 (lo16 a[2]) (lo16 b[2])) (cmpeq16 (hi16 a[2]) (hi16 b[2])),
     pack16 (cmpeq16 (lo16 a[3]) (lo16 b[3])) (cmpeq16 (hi16 a[3]) (hi16 b[3]))]

/-! ### sanity checks of the model -/

example : _mm_set_epi16 0x80 0x40 0x20 0x10 0x08 0x04 0x02 0x01
    = #v[0x00020001, 0x00080004, 0x00200010, 0x00800040] := by decide

example : lo16 0xABCD1234 = 0x1234 ∧ hi16 0xABCD1234 = 0xABCD ∧ pack16 0x1234 0xABCD = 0xABCD1234 := by decide

example : _mm_cmpeq_epi16 #v[0x00020001, 0, 0xFFFF0000, 7] #v[0x00030001, 0, 0xFFFF0001, 0x10007]
    = #v[0x0000FFFF, 0xFFFFFFFF, 0xFFFF0000, 0x0000FFFF] := by decide

end B3.Simd
