/- `transpose_vecs`, `transpose_msg_vecs`, `load_counters` and `hash4` of the Wasm SIMD file against the specification
(same route as `Sse41Hash4.lean`; the definitions `blockAt`, `ctr`, `cvLane`, `flagsAt`, `foldBlocksN`, `outWords`,
`outCV` and the lemmas about them are reused from there) -/
import B3.Simd.Sse41Hash4
import B3.Simd.WasmWide
namespace B3.Simd.Wasm
open B3 B3.Simd B3.Gen.RsWasm
open B3.Gen.Rs (MSG_SCHEDULE IV)

/-! ### transposes -/

theorem transpose_vecs_get (vs : Vector V4 4) (i j : Fin 4) : (transpose_vecs vs)[i][j] = vs[j][i] := by
  rw [vec4_eta vs]
  generalize vs[0] = a; generalize vs[1] = b; generalize vs[2] = c; generalize vs[3] = d
  match i, j with
  | 0, 0 | 0, 1 | 0, 2 | 0, 3 | 1, 0 | 1, 1 | 1, 2 | 1, 3
  | 2, 0 | 2, 1 | 2, 2 | 2, 3 | 3, 0 | 3, 1 | 3, 2 | 3, 3 => rfl

/-- after the transposition, lane `i` of the 16 message vectors is the block of input `i` -/
theorem transpose_msg_vecs_lane (inputs : Vector Mem 4) (off : Nat) (i : Fin 4) :
    lane i (transpose_msg_vecs inputs off) = blockAt inputs[i] off := by
  rw [vec4_eta inputs]
  generalize inputs[0] = p0; generalize inputs[1] = p1; generalize inputs[2] = p2; generalize inputs[3] = p3
  match i with
  | 0 => kernel_rfl
  | 1 => kernel_rfl
  | 2 => kernel_rfl
  | 3 => kernel_rfl

/-! ### counters -/

theorem load_counters_lane (counter : UInt64) (incr : Bool) (i : Fin 4) :
    (load_counters counter incr).1[i] = (ctr counter incr i).toUInt32 ∧
    (load_counters counter incr).2[i] = ((ctr counter incr i) >>> 32).toUInt32 := by
  cases incr <;> (match i with | 0 | 1 | 2 | 3 => exact ⟨rfl, rfl⟩)

/-! ### hash4 -/

/-- the seven 4-way rounds, lane by lane -/
theorem rounds_lane (l : Fin 4) (v m : Vector V4 16) :
    lane l (round (round (round (round (round (round (round v m 0) m 1) m 2) m 3) m 4) m 5) m 6)
      = Spec.rounds7 (lane l v) (lane l m) := by
  simp only [round_lane, ← Proofs.rs_round_with, Proofs.rs_round_eq]
  unfold Spec.rounds7
  rfl

theorem lane_init' (i : Fin 4) (hv : Vector V4 8) (lo hi : V4) (bl fl : UInt32) :
    lane i #v[hv[0], hv[1], hv[2], hv[3], hv[4], hv[5], hv[6], hv[7],
              set1 IV[0], set1 IV[1], set1 IV[2], set1 IV[3], lo, hi, set1 bl, set1 fl]
      = #v[hv[0][i], hv[1][i], hv[2][i], hv[3][i], hv[4][i], hv[5][i], hv[6][i], hv[7][i],
           IV[0], IV[1], IV[2], IV[3], lo[i], hi[i], bl, fl] := by
  vatoms8 hv
  match i with
  | 0 | 1 | 2 | 3 => rfl

/-- lane `i` of the initial 4-way state is the specification's initial state of input `i` -/
theorem lane_init (i : Fin 4) (hv : Vector V4 8) (lo hi : V4) (t : UInt64) (bl fl : UInt32)
    (hlo : lo[i] = t.toUInt32) (hhi : hi[i] = (t >>> 32).toUInt32) :
    lane i #v[hv[0], hv[1], hv[2], hv[3], hv[4], hv[5], hv[6], hv[7],
              set1 IV[0], set1 IV[1], set1 IV[2], set1 IV[3], lo, hi, set1 bl, set1 fl]
      = Spec.initState (cvLane i hv) t bl fl := by
  rw [lane_init', hlo, hhi]
  unfold Spec.initState cvLane
  rw [← Proofs.rs_iv]
  rfl

/-- the output transformation `h_vecs[j] = xor(v[j], v[j+8])`, lane by lane -/
theorem cvLane_out (i : Fin 4) (hv : Vector V4 8) (v : Vector V4 16) (cv : CV) :
    cvLane i ((((((((hv.set 0 (xor v[0] v[8])).set 1 (xor v[1] v[9])).set 2 (xor v[2] v[10])).set 3 (xor v[3] v[11])).set 4
        (xor v[4] v[12])).set 5 (xor v[5] v[13])).set 6 (xor v[6] v[14])).set 7 (xor v[7] v[15]))
      = first8 (Spec.feedForward cv (lane i v)) := by
  vatoms8 hv; vatoms16 v
  match i with
  | 0 => kernel_rfl
  | 1 => kernel_rfl
  | 2 => kernel_rfl
  | 3 => kernel_rfl

/-- one iteration of the block loop of `hash4` -/
theorem loop_body (inputs : Vector Mem 4) (blocks : Nat) (flags fe : UInt8) (lo hi : V4)
    (bf : UInt8) (hv : Vector V4 8) (b : Nat) :
    (hash4_loop1 inputs blocks flags fe lo hi (bf, hv) b).1 = flags ∧
    ∀ (i : Fin 4) (t : UInt64), lo[i] = t.toUInt32 → hi[i] = (t >>> 32).toUInt32 →
      cvLane i (hash4_loop1 inputs blocks flags fe lo hi (bf, hv) b).2
        = first8 (Spec.compress (cvLane i hv) (blockAt inputs[i] (b * 64)) t 64
            (if b + 1 = blocks then bf ||| fe else bf).toUInt32) := by
  refine ⟨rfl, ?_⟩
  intro i t hlo hhi
  unfold hash4_loop1 Spec.compress
  simp only []
  rw [cvLane_out i _ _ (cvLane i hv), rounds_lane, transpose_msg_vecs_lane, lane_init i hv lo hi t _ _ hlo hhi]

/-- the loop of `hash4` after `n` iterations -/
theorem loop_inv (inputs : Vector Mem 4) (blocks : Nat) (flags fs fe : UInt8) (lo hi : V4) (hv0 : Vector V4 8) (n : Nat) :
    ((List.range n).foldl (hash4_loop1 inputs blocks flags fe lo hi) (flags ||| fs, hv0)).1
        = (if n = 0 then flags ||| fs else flags) ∧
    ∀ (i : Fin 4) (t : UInt64), lo[i] = t.toUInt32 → hi[i] = (t >>> 32).toUInt32 →
      cvLane i ((List.range n).foldl (hash4_loop1 inputs blocks flags fe lo hi) (flags ||| fs, hv0)).2
        = foldBlocksN (cvLane i hv0) (fun b => blockAt inputs[i] (b * 64)) blocks t flags fs fe n := by
  induction n with
  | zero => exact ⟨rfl, fun _ _ _ _ => rfl⟩
  | succ n ih =>
    obtain ⟨ih1, ih2⟩ := ih
    rw [List.range_succ, List.foldl_append]
    generalize (List.range n).foldl (hash4_loop1 inputs blocks flags fe lo hi) (flags ||| fs, hv0) = L at ih1 ih2 ⊢
    obtain ⟨bf, hv⟩ := L
    simp only at ih1 ih2
    simp only [List.foldl_cons, List.foldl_nil]
    obtain ⟨b1, b2⟩ := loop_body inputs blocks flags fe lo hi bf hv n
    refine ⟨by rw [b1]; simp, ?_⟩
    intro i t hlo hhi
    rw [b2 i t hlo hhi, ih2 i t hlo hhi, ih1, flags_step]
    unfold foldBlocksN
    rw [List.range_succ, List.foldl_append]
    rfl

/-- the initial chaining-value vectors and the loop of `hash4` -/
def hash4Loop (inputs : Vector Mem 4) (blocks : Nat) (key : CV) (counter : UInt64) (incr : Bool) (flags fs fe : UInt8) :
    UInt8 × Vector V4 8 :=
  (List.range blocks).foldl
    (hash4_loop1 inputs blocks flags fe (load_counters counter incr).1 (load_counters counter incr).2)
    (flags ||| fs, #v[set1 key[0], set1 key[1], set1 key[2], set1 key[3], set1 key[4], set1 key[5], set1 key[6], set1 key[7]])

/-- what follows the loop (two 4x4 transposes, eight stores) writes the four chaining values one after the
other, overwriting all of `out` -/
theorem hash4_eq_outWords (inputs : Vector Mem 4) (blocks : Nat) (key : CV) (counter : UInt64) (incr : Bool)
    (flags fs fe : UInt8) (out : Vector UInt32 32) :
    hash4 inputs blocks key counter incr flags fs fe out
      = outWords (hash4Loop inputs blocks key counter incr flags fs fe).2 := by
  unfold hash4 hash4Loop
  simp only []
  generalize (List.range blocks).foldl _ _ = L
  obtain ⟨bf, hv⟩ := L
  vatoms8 hv; atoms32 out
  kernel_rfl

theorem cvLane_key (i : Fin 4) (key : CV) :
    cvLane i #v[set1 key[0], set1 key[1], set1 key[2], set1 key[3], set1 key[4], set1 key[5], set1 key[6], set1 key[7]] = key := by
  conv => rhs; rw [Proofs.vec8_eta key]
  match i with
  | 0 | 1 | 2 | 3 => rfl

/-- output `i` of `hash4` is the specification's fold over the blocks of input `i` -/
theorem hash4_lane (inputs : Vector Mem 4) (blocks : Nat) (key : CV) (counter : UInt64) (incr : Bool)
    (flags fs fe : UInt8) (out : Vector UInt32 32) (i : Fin 4) :
    outCV i (hash4 inputs blocks key counter incr flags fs fe out)
      = foldBlocksN key (fun b => blockAt inputs[i] (b * 64)) blocks (ctr counter incr i) flags fs fe blocks := by
  rw [hash4_eq_outWords, outCV_outWords]
  unfold hash4Loop
  have h := (loop_inv inputs blocks flags fs fe (load_counters counter incr).1 (load_counters counter incr).2
    #v[set1 key[0], set1 key[1], set1 key[2], set1 key[3], set1 key[4], set1 key[5], set1 key[6], set1 key[7]] blocks).2
    i (ctr counter incr i) (load_counters_lane counter incr i).1 (load_counters_lane counter incr i).2
  rw [h, cvLane_key]

end B3.Simd.Wasm
