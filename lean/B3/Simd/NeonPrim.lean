/-
Lane model of the Arm NEON (`arm_neon.h`) intrinsics and of the two compiler vector builtins used by
`c/blake3_neon.c`.

THIS FILE IS TRUSTED: it is the statement of what the instructions do.  It cannot be validated by running the
kernels on this (x86) machine.  Each definition transcribes the entry of the intrinsic in the Arm "Neon Intrinsics
Reference" (the A64 instruction it maps to) and the operation pseudo-code of that instruction in the Arm
Architecture Reference Manual (A64 SIMD&FP instructions); both are quoted in the docstrings.  `Elem[v, e, esize]` is
bits `(e+1)*esize-1 : e*esize` of `v`: element 0 is the LEAST significant part of the register.

Representation.  `uint32x4_t` is `V4 = Vector UInt32 4`, lane `e` = `Elem[v, e, 32]`.  The file refuses to compile for
big-endian Arm (`#ifdef __ARM_BIG_ENDIAN / #error`, checked by the translator); on a little-endian machine
`vld1q_u8` / `vst1q_u8` (`LD1 {Vt.16B}, [Xn]` / `ST1`: "byte element `e` <-> address + `e`") followed / preceded by
`vreinterpretq_u32_u8` / `vreinterpretq_u8_u32` give: 32-bit lane `k` = the little-endian word at byte offset `4k` --
`loadu_mem` / `storeu_ptr` of `Prim.lean` / `PrimC.lean`, to which the translator maps the checked wrappers
`loadu_128` / `storeu_128`.  `uint8x16_t` and `uint16x8_t` values are the same 128 bits, kept as `V4`: byte element
`k` is byte `k % 4` of lane `k / 4` (`CI.byte16`), 16-bit element `k` is half `k % 2` of lane `k / 2`
(`CI.halfOf`, `CI.le16x2`); "`vreinterpretq_*`: Vector reinterpret cast operation" (no instruction) is the identity.
`uint32x2_t` (a 64-bit D register) is `V2`, `uint32x4x2_t` (`struct { uint32x4_t val[2]; }`) is `V4 × V4`.
-/
import B3.Prim
import B3.Simd.Prim
import B3.Simd.PrimC
namespace B3.Simd.Neon
open B3 B3.Simd
open B3.Simd.CI (byte16 halfOf le16x2)

/-- `uint32x2_t` -/
abbrev V2 := Vector UInt32 2
/-- `uint32x4x2_t`: `val[0]`, `val[1]` -/
abbrev V4x2 := V4 × V4

/-! ### arithmetic and logic -/

/-- `vaddq_u32` = `ADD Vd.4S, Vn.4S, Vm.4S`: "Add (vector).  This instruction adds corresponding elements in the two
source SIMD&FP registers, places the results into a vector".  `Elem[result, e, esize] = element1 + element2` (modulo
`2^esize`). -/
def vaddq_u32 (a b : V4) : V4 := #v[a[0] + b[0], a[1] + b[1], a[2] + b[2], a[3] + b[3]]

/-- `veorq_u32` = `EOR Vd.16B, Vn.16B, Vm.16B`: "Bitwise Exclusive OR (vector)". -/
def veorq_u32 (a b : V4) : V4 := #v[a[0] ^^^ b[0], a[1] ^^^ b[1], a[2] ^^^ b[2], a[3] ^^^ b[3]]

/-- `vorrq_u32` = `ORR Vd.16B, Vn.16B, Vm.16B`: "Bitwise inclusive OR (vector, register)". -/
def vorrq_u32 (a b : V4) : V4 := #v[a[0] ||| b[0], a[1] ||| b[1], a[2] ||| b[2], a[3] ||| b[3]]

/-- `LSR(x, shift)` on 32 bits for `0 ≤ shift ≤ 32` (a shift by the full width gives 0) -/
def lsr32 (x : UInt32) (shift : Nat) : UInt32 := if 32 ≤ shift then 0 else x >>> UInt32.ofNat shift

/-- `LSL(x, shift)` on 32 bits for `0 ≤ shift ≤ 31` -/
def lsl32 (x : UInt32) (shift : Nat) : UInt32 := if 32 ≤ shift then 0 else x <<< UInt32.ofNat shift

/-- `vshlq_n_u32(a, n)` = `SHL Vd.4S, Vn.4S, #n` (`0 ≤ n ≤ 31`): "Shift Left (immediate).  This instruction reads each
value from a vector, left shifts each result by an immediate value".  `Elem[result, e, esize] = LSL(Elem[operand, e,
esize], shift)`. -/
def vshlq_n_u32 (a : V4) (n : Nat) : V4 := #v[lsl32 a[0] n, lsl32 a[1] n, lsl32 a[2] n, lsl32 a[3] n]

/-- `vshrq_n_u32(a, n)` = `USHR Vd.4S, Vn.4S, #n` (`1 ≤ n ≤ 32`): "Unsigned Shift Right (immediate) … right shifts each
result by an immediate value, … truncated".  `Elem[result, e, esize] = (UInt(element) >> shift)<esize-1:0>`. -/
def vshrq_n_u32 (a : V4) (n : Nat) : V4 := #v[lsr32 a[0] n, lsr32 a[1] n, lsr32 a[2] n, lsr32 a[3] n]

/-- one element of SRI: "`mask = LSR(Ones(esize), shift); shifted = LSR(Elem[operand, e, esize], shift);
Elem[result, e, esize] = (Elem[operand2, e, esize] AND NOT(mask)) OR shifted`" where `operand2` is the previous value
of the destination register -/
def sri32 (dest src : UInt32) (shift : Nat) : UInt32 :=
  (dest &&& ~~~ lsr32 0xFFFFFFFF shift) ||| lsr32 src shift

/-- `vsriq_n_u32(a, b, n)` = `SRI Vd.4S, Vn.4S, #n` with `a -> Vd`, `b -> Vn` (`1 ≤ n ≤ 32`): "Shift Right and Insert
(immediate).  This instruction reads each vector element in the source SIMD&FP register, right shifts each vector
element by an immediate value, and inserts the result into the corresponding vector element in the destination
SIMD&FP register such that the new zero bits created by the shift are not inserted but retain their existing value." -/
def vsriq_n_u32 (a b : V4) (n : Nat) : V4 := #v[sri32 a[0] b[0] n, sri32 a[1] b[1] n, sri32 a[2] b[2] n, sri32 a[3] b[3] n]

/-! ### reinterpretation, element reversal -/

/-- "Vector reinterpret cast operation" (no instruction is generated; little-endian element correspondence) -/
def vreinterpretq_u32_u8 (a : V4) : V4 := a
def vreinterpretq_u8_u32 (a : V4) : V4 := a
def vreinterpretq_u32_u16 (a : V4) : V4 := a
def vreinterpretq_u16_u32 (a : V4) : V4 := a

/-- `vrev32q_u16` = `REV32 Vd.8H, Vn.8H`: "Reverse elements in 32-bit words (vector).  This instruction reverses the
order of 8-bit or 16-bit elements in each word of the vector": the two 16-bit elements of every 32-bit word swap -/
def vrev32q_u16 (a : V4) : V4 :=
  #v[le16x2 (halfOf a[0] 1) (halfOf a[0] 0), le16x2 (halfOf a[1] 1) (halfOf a[1] 0),
     le16x2 (halfOf a[2] 1) (halfOf a[2] 0), le16x2 (halfOf a[3] 1) (halfOf a[3] 0)]

/-! ### transposition, halves -/

/-- `vtrnq_u32(a, b)` = `TRN1 Vd1.4S, Vn.4S, Vm.4S; TRN2 Vd2.4S, Vn.4S, Vm.4S` (`a -> Vn`, `b -> Vm`, result
`val[0] = Vd1`, `val[1] = Vd2`).  TRN1/TRN2: "Transpose vectors (primary / secondary).  This instruction reads
corresponding even-numbered [TRN2: odd-numbered] vector elements from the two source SIMD&FP registers, starting at
zero, places each result into consecutive elements of a vector … Vector elements from the first source register are
placed into even-numbered elements of the destination vector, starting at zero, while vector elements from the second
source register are placed into odd-numbered elements of the destination vector."
`for p = 0 to pairs-1: Elem[result, 2*p+0, esize] = Elem[operand1, 2*p+part, esize];
Elem[result, 2*p+1, esize] = Elem[operand2, 2*p+part, esize]` (`part` = 0 for TRN1, 1 for TRN2). -/
def vtrnq_u32 (a b : V4) : V4x2 := (#v[a[0], b[0], a[2], b[2]], #v[a[1], b[1], a[3], b[3]])

/-- `vget_low_u32` = `DUP Vd.1D, Vn.D[0]`: the low 64 bits (elements 0, 1) -/
def vget_low_u32 (a : V4) : V2 := #v[a[0], a[1]]

/-- `vget_high_u32` = `DUP Vd.1D, Vn.D[1]`: the high 64 bits (elements 2, 3) -/
def vget_high_u32 (a : V4) : V2 := #v[a[2], a[3]]

/-- `vcombine_u32(low, high)` = `DUP Vd.1D, Vn.D[0]; INS Vd.D[1], Vm.D[0]`: "Join two smaller vectors into a single
larger vector": `low` becomes elements 0, 1 and `high` elements 2, 3 -/
def vcombine_u32 (low high : V2) : V4 := #v[low[0], low[1], high[0], high[1]]

/-! ### loads from `uint32_t` objects, duplication -/

/-- `vld1q_dup_u32(ptr)` = `LD1R {Vt.4S}, [Xn]`: "Load one single-element structure and Replicate to all lanes (of
one register)".  The argument here is the `uint32_t` the pointer designates (the translator only accepts `&x`). -/
def vld1q_dup_u32 (x : UInt32) : V4 := #v[x, x, x, x]

/-- `vdupq_n_u32(value)` = `DUP Vd.4S, rn`: "Duplicate general-purpose register to vector" -/
def vdupq_n_u32 (x : UInt32) : V4 := #v[x, x, x, x]

/-- `vld1q_u32(ptr)` = `LD1 {Vt.4S}, [Xn]`: "Load multiple single-element structures to one register": element `e`
is `ptr[e]`.  The argument here is the four-element `uint32_t` array the pointer designates (the translator only
accepts a whole local `uint32_t a[4]`). -/
def vld1q_u32 (p : Vector UInt32 4) : V4 := p

/-! ### the compiler builtins of `rot8_128` (byte shuffles)

clang, "Language Extensions", `__builtin_shufflevector(vec1, vec2, index…)`: "The elements of the input vectors are
numbered from left to right across both of the vectors … [the indices] may not be greater than or equal to twice the
number of elements in one input vector [compile error].  The result of `__builtin_shufflevector` is a vector with the
same element type as `vec1` and `vec2` but that has an element count equal to the number of indices specified."
(index `i < 16`: byte element `i` of `vec1`; `16 ≤ i < 32`: byte element `i - 16` of `vec2`).

GCC, "Vector Extensions", `__builtin_shuffle (vec0, vec1, mask)`: "The elements of the input vectors are numbered in
memory ordering of `vec0` beginning at 0 and `vec1` beginning at N.  The elements of `mask` are considered modulo N in
the single-operand case and modulo 2*N in the two-operand case."  A vector initialiser `{e0, e1, …}` gives element `k`
the value `ek`. -/

/-- byte element `i` of the concatenation `a ++ b` (0 for an index the compilers reject) -/
def sel32b (a b : V4) (i : Nat) : UInt8 :=
  if i < 16 then byte16 a i else if i < 32 then byte16 b (i - 16) else 0

def builtin_shufflevector_u8x16 (a b : V4) (i0 i1 i2 i3 i4 i5 i6 i7 i8 i9 i10 i11 i12 i13 i14 i15 : Nat) : V4 :=
  #v[le32 (sel32b a b i0) (sel32b a b i1) (sel32b a b i2) (sel32b a b i3),
     le32 (sel32b a b i4) (sel32b a b i5) (sel32b a b i6) (sel32b a b i7),
     le32 (sel32b a b i8) (sel32b a b i9) (sel32b a b i10) (sel32b a b i11),
     le32 (sel32b a b i12) (sel32b a b i13) (sel32b a b i14) (sel32b a b i15)]

/-- `(uint8x16_t){b0, …, b15}` -/
def u8x16_lit (b0 b1 b2 b3 b4 b5 b6 b7 b8 b9 b10 b11 b12 b13 b14 b15 : UInt8) : V4 :=
  #v[le32 b0 b1 b2 b3, le32 b4 b5 b6 b7, le32 b8 b9 b10 b11, le32 b12 b13 b14 b15]

/-- result byte `j` of `__builtin_shuffle(a, b, m)`: element `m[j] mod 32` of `a ++ b` -/
def shufm (a b m : V4) (j : Nat) : UInt8 := sel32b a b ((byte16 m j).toNat % 32)

def builtin_shuffle_u8x16 (a b m : V4) : V4 :=
  #v[le32 (shufm a b m 0) (shufm a b m 1) (shufm a b m 2) (shufm a b m 3),
     le32 (shufm a b m 4) (shufm a b m 5) (shufm a b m 6) (shufm a b m 7),
     le32 (shufm a b m 8) (shufm a b m 9) (shufm a b m 10) (shufm a b m 11),
     le32 (shufm a b m 12) (shufm a b m 13) (shufm a b m 14) (shufm a b m 15)]

/-! ### sanity checks of the model (evaluated) -/

example : vtrnq_u32 #v[10, 11, 12, 13] #v[20, 21, 22, 23] = (#v[10, 20, 12, 22], #v[11, 21, 13, 23]) := by decide
example : vcombine_u32 (vget_low_u32 #v[10, 11, 12, 13]) (vget_high_u32 #v[20, 21, 22, 23]) = #v[10, 11, 22, 23] := by decide
example : vrev32q_u16 #v[0x11112222, 0xAAAABBBB, 1, 0x00010000] = #v[0x22221111, 0xBBBBAAAA, 0x00010000, 1] := by decide
example : vsriq_n_u32 #v[0xABCDEF01, 0xFFFFFFFF, 0, 0x12345678] #v[0xFFFFFFFF, 0, 0x80000000, 0x9ABCDEF0] 8
    = #v[0xABFFFFFF, 0xFF000000, 0x00800000, 0x129ABCDE] := by decide
example : vsriq_n_u32 #v[1, 2, 3, 4] #v[0xFFFFFFFF, 5, 6, 7] 32 = #v[1, 2, 3, 4] := by decide
example : vshrq_n_u32 #v[0x80000000, 1, 2, 3] 32 = #v[0, 0, 0, 0] := by decide
example : builtin_shufflevector_u8x16 #v[0x03020100, 0x07060504, 0x0B0A0908, 0x0F0E0D0C] #v[0x13121110, 0, 0, 0x1F000000]
      1 2 3 0 5 6 7 4 9 10 11 8 13 14 16 31
    = #v[0x00030201, 0x04070605, 0x080B0A09, 0x1F100E0D] := by decide
example : builtin_shuffle_u8x16 #v[0x03020100, 0x07060504, 0x0B0A0908, 0x0F0E0D0C] #v[0x13121110, 0, 0, 0x1F000000]
      (u8x16_lit 1 2 3 0 5 6 7 4 9 10 11 8 13 14 48 63)
    = #v[0x00030201, 0x04070605, 0x080B0A09, 0x1F100E0D] := by decide

end B3.Simd.Neon
