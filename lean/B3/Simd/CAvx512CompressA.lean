/- round pieces 1-2 of the generated `compress_pre` (c/blake3_avx512.c) against `Spec.round` (kernel-checked) -/
import B3.Simd.CAvx512Base
namespace B3.Simd.C512
open B3 B3.Gen.CAvx512

/-- the four rows of a state as the array `rows[4]` -/
def rowsV (s : St) : Vector V4 4 := #v[row s 0, row s 1, row s 2, row s 3]

/-- what a round piece of `compress_pre` returns: the rows of `s` and the grouped words of `w` -/
def crows (s w : St) : Vector V4 4 × V4 × V4 × V4 × V4 := (rowsV s, grp0 w, grp1 w, grp2 w, grp3 w)

macro "c_round_tac " s:ident w:ident : tactic => `(tactic|
  (unfold Spec.round
   rw [← roundWithA_eq]
   atoms16 $s; atoms16 $w
   kernel_rfl))

/-- round 1: the block in its original order; leaves it in grouped order -/
theorem c_round1_eq (s w : St) :
    compress_pre_part2 (rowsV s) (row w 0) (row w 1) (row w 2) (row w 3) = crows (Spec.round s w) w := by
  c_round_tac s w

theorem c_round2_eq (s w : St) :
    compress_pre_part3 (rowsV s) (grp0 w) (grp1 w) (grp2 w) (grp3 w)
      = crows (Spec.round s (Spec.permute w)) (Spec.permute w) := by c_round_tac s w

end B3.Simd.C512
