/-
The theorems about the AVX2 kernels of src/rust_avx2.rs (as translated into `B3.Gen.RsAvx2` by
gen/extract_simd2.py, over the lane model `B3/Simd/Prim256.lean` of the 256-bit intrinsics).  Every statement
is for ALL arguments.  Proofs: `B3/Simd/Avx2*.lean`.  The reference functions (`specHashBlocks`, `blockOfMem`,
`blockOfBytes`, `specManyCV`) are those of `Sse41Props.lean` / `Sse41PropsMany.lean`.
-/
import B3.Simd.Sse41PropsMany
import B3.Simd.Avx2
namespace B3.Simd
open B3
open B3.Gen.Rs (MSG_SCHEDULE)

/-! ### main theorems -/

/-! #### the 8-way round -/

/-- lane `l` of the 8-way `round` is one round of the specification on lane `l` of the state, with the
message words of lane `l` taken in the order `MSG_SCHEDULE[r]`: eight independent rounds
(`lane8 l v = #v[v[0][l], …, v[15][l]] = v.map (·[l])`, see `Avx2.lane8_eq_map`) -/
theorem avx2_round_lane (v m : Vector V8 16) (r : Fin 7) :
    ∀ l : Fin 8, lane8 l (Gen.RsAvx2.round v m r)
      = Spec.roundWith (lane8 l v) (fun i => (lane8 l m)[MSG_SCHEDULE[r][i]]) :=
  fun l => Avx2.round_lane l v m r

/-- in the vocabulary of the portable code: lane `l` of the 8-way round = the portable `round` on lane `l` -/
theorem avx2_round_lane_portable (v m : Vector V8 16) (r : Fin 7) (l : Fin 8) :
    lane8 l (Gen.RsAvx2.round v m r) = Gen.Rs.round (lane8 l v) (lane8 l m) r := by
  rw [avx2_round_lane, Proofs.rs_round_with]

/-- the rotations are rotations: every lane of `rot16/12/8/7` is `rotr` of the lane -/
theorem avx2_rot_lane (x : V8) (l : Fin 8) :
    (Gen.RsAvx2.rot16 x)[l] = rotr x[l] 16 ∧ (Gen.RsAvx2.rot12 x)[l] = rotr x[l] 12 ∧
    (Gen.RsAvx2.rot8 x)[l] = rotr x[l] 8 ∧ (Gen.RsAvx2.rot7 x)[l] = rotr x[l] 7 := by
  match l with
  | 0 | 1 | 2 | 3 | 4 | 5 | 6 | 7 => exact ⟨rfl, rfl, rfl, rfl⟩

/-! #### transposes -/

/-- `interleave128 a b` = (low half of `a` ++ low half of `b`, high half of `a` ++ high half of `b`) -/
theorem avx2_interleave128 (a b : V8) :
    Gen.RsAvx2.interleave128 a b
      = (#v[a[0], a[1], a[2], a[3], b[0], b[1], b[2], b[3]], #v[a[4], a[5], a[6], a[7], b[4], b[5], b[6], b[7]]) := rfl

/-- `transpose_vecs` transposes the 8x8 matrix of 32-bit words -/
theorem avx2_transpose_vecs (vs : Vector V8 8) (i j : Fin 8) :
    (Gen.RsAvx2.transpose_vecs vs)[i][j] = vs[j][i] :=
  Avx2.transpose_vecs_get vs i j

/-- message vector `k`, lane `i` = little-endian word `k` of the 64 bytes at `block_offset` of input `i` -/
theorem avx2_transpose_msg_vecs (inputs : Vector Mem 8) (block_offset : Nat) (k : Fin 16) (i : Fin 8) :
    (Gen.RsAvx2.transpose_msg_vecs inputs block_offset)[k][i] = (inputs[i]).word (block_offset + 4 * k.val) := by
  rw [← Avx2.lane8_get, Avx2.transpose_msg_vecs_lane, blockAt_get]

/-! #### counters -/

/-- lane `i` of the low / high counter vector = low / high 32 bits of `counter + i` (UInt64 wrapping `+`:
the Rust code would panic in a debug build if it wrapped) when incrementing, of `counter` otherwise -/
theorem avx2_load_counters (counter : UInt64) (incr : Bool) (i : Fin 8) :
    (Gen.RsAvx2.load_counters counter incr).1[i]
        = (counter + (if incr then UInt64.ofNat i.val else 0)).toUInt32 ∧
    (Gen.RsAvx2.load_counters counter incr).2[i]
        = ((counter + (if incr then UInt64.ofNat i.val else 0)) >>> 32).toUInt32 :=
  Avx2.load_counters_lane counter incr i

example : (Gen.RsAvx2.load_counters 0xFFFFFFFC true).1 = #v[0xFFFFFFFC, 0xFFFFFFFD, 0xFFFFFFFE, 0xFFFFFFFF, 0, 1, 2, 3] ∧
          (Gen.RsAvx2.load_counters 0xFFFFFFFC true).2 = #v[0, 0, 0, 0, 1, 1, 1, 1] := by decide

/-! #### hash8 -/

/-- Output `i` of `hash8` (words `8i … 8i+7` of the 256 output bytes, whatever `out` held before) is the
chaining value of the `blocks` blocks of input `i` (`specHashBlocks`, `Sse41Props.lean`: block `b` gets
`flags ||| (b = 0 ? flags_start : 0) ||| (b + 1 = blocks ? flags_end : 0)`, block length 64), with counter
`counter + i` (wrapping) when `increment_counter` and `counter` otherwise.  Inputs are raw byte pointers,
modelled as byte-addressed memories; only bytes `0 … 64*blocks-1` of each are read. -/
theorem avx2_hash8_eq (inputs : Vector Mem 8) (blocks : Nat) (key : CV) (counter : UInt64) (incr : Bool)
    (flags flags_start flags_end : UInt8) (out : Vector UInt32 64) (i : Fin 8) :
    outCV8 i (Gen.RsAvx2.hash8 inputs blocks key counter incr flags flags_start flags_end out)
      = specHashBlocks key (blockOfMem inputs[i]) blocks
          (counter + (if incr then UInt64.ofNat i.val else 0)) flags flags_start flags_end := by
  rw [Avx2.hash8_lane]
  unfold foldBlocksN specHashBlocks flagsAt ctr8
  simp only [blockAt_eq_blockOfMem]

/-- `blocks = 0`: the loop body never runs and `hash8` stores the key eight times -/
example (inputs : Vector Mem 8) (key : CV) (counter : UInt64) (incr : Bool) (fl fs fe : UInt8)
    (out : Vector UInt32 64) (i : Fin 8) :
    outCV8 i (Gen.RsAvx2.hash8 inputs 0 key counter incr fl fs fe out) = key := by
  rw [avx2_hash8_eq]; rfl

/-- one block: output `i` is a single compression with all three flag bytes or-ed -/
example (inputs : Vector Mem 8) (key : CV) (counter : UInt64) (fl fs fe : UInt8) (out : Vector UInt32 64) :
    outCV8 6 (Gen.RsAvx2.hash8 inputs 1 key counter true fl fs fe out)
      = first8 (Spec.compress key (blockOfMem inputs[6] 0) (counter + 6) 64 (fl ||| fs ||| fe).toUInt32) := by
  rw [avx2_hash8_eq]; rfl

/-! #### hash_many -/

/-- **hash_many (AVX2).**  If every input has `N` bytes, `N` is a multiple of 64, the output slice lies inside
its buffer and has room for 32 bytes per input (the `debug_assert`), then `hash_many` -- groups of eight
inputs through `hash8`, the rest through `crate::sse41::hash_many` = `B3.Gen.RsSse41.hash_many` -- overwrites
bytes `off … off + 32·count` of the buffer with the chaining values of the inputs in order -- input `k`
hashed with counter `counter + k` (wrapping) if `increment_counter`, else `counter` (`specManyCV`) -- and
changes nothing else. -/
theorem avx2_hash_many_eq (N : Nat) (inputs : List (List UInt8)) (key : CV) (counter : UInt64) (incr : Bool)
    (flags fs fe : UInt8) (out : MutSlice) (hN : ∀ x ∈ inputs, x.length = N) (h64 : N % 64 = 0)
    (hwf : out.off + out.len ≤ out.buf.length) (hlen : 32 * inputs.length ≤ out.len) :
    (Gen.RsAvx2.hash_many N inputs key counter incr flags fs fe out).buf
      = out.buf.take out.off
        ++ (List.range inputs.length).flatMap (fun k => bytesOfWords (specManyCV N inputs key counter incr flags fs fe k))
        ++ out.buf.drop (out.off + 32 * inputs.length) := by
  rw [Avx2.hash_many_eq N inputs key counter incr flags fs fe out hN h64 hwf hlen, writeAt, outBytes_length,
    outBytes_eq_flatMap]
  simp only [cvOf, specManyCV, specHashBlocks, foldBlocksN, flagsAt, advN_eq]

/-- the hypotheses are satisfiable: nineteen two-block inputs (two groups of eight and three left over), a
buffer of 700 bytes of which the slice covers bytes 40 … 679 -/
example : ∃ (inputs : List (List UInt8)) (out : MutSlice), (∀ x ∈ inputs, x.length = 128) ∧ 128 % 64 = 0 ∧
    out.off + out.len ≤ out.buf.length ∧ 32 * inputs.length ≤ out.len ∧ inputs.length = 19 :=
  ⟨List.replicate 19 (List.replicate 128 0), ⟨List.replicate 700 0, 40, 640⟩,
   by intro x hx; rw [List.eq_of_mem_replicate hx, List.length_replicate], by decide,
   by show 40 + 640 ≤ (List.replicate 700 (0 : UInt8)).length; rw [List.length_replicate]; omega,
   by show 32 * (List.replicate 19 (List.replicate 128 (0 : UInt8))).length ≤ 640; rw [List.length_replicate]; omega,
   List.length_replicate⟩

/-- the `while` loop of `hash_many` ends because its condition becomes false, not because of the iteration
bound of the translation -/
theorem avx2_hash_many_loop_exits (N : Nat) (inputs : List (List UInt8)) (key : CV) (counter : UInt64) (incr : Bool)
    (flags fs fe : UInt8) (out : MutSlice) (hN : ∀ x ∈ inputs, x.length = N) (h64 : N % 64 = 0)
    (hwf : out.off + out.len ≤ out.buf.length) (hlen : 32 * inputs.length ≤ out.len) :
    Gen.RsAvx2.hash_many_cond1
      (whileFuel (inputs.length + 1) Gen.RsAvx2.hash_many_cond1 (Gen.RsAvx2.hash_many_loop2 N key incr flags fs fe)
        (out, counter, inputs)) = false := by
  obtain ⟨st, h1, h2⟩ := (Avx2.many_loop N key incr flags fs fe h64 inputs.length out counter inputs (inputs.length + 1)
    rfl hN hwf hlen (Nat.le_refl _)).2
  rw [h1]; exact h2

end B3.Simd
