/- round pieces 3-4 of the generated SSE2 `compress_pre` against `Spec.round` (kernel-checked, ~13 s each) -/
import B3.Simd.Sse2Base
namespace B3.Simd.Sse2
open B3 B3.Simd B3.Gen.RsSse2

theorem round3_eq (s w : St) :
    compress_pre_round3 (rows8 s w)
      = rows8 (Spec.round s (Spec.permute w)) (Spec.permute w) := by round_tac2 compress_pre_round3 s w
theorem round4_eq (s w : St) :
    compress_pre_round4 (rows8 s w)
      = rows8 (Spec.round s (Spec.permute w)) (Spec.permute w) := by round_tac2 compress_pre_round4 s w

end B3.Simd.Sse2
