/- all helper lemmas about the generated C SSE4.1 kernels (`B3.Gen.CSse41`) -/
import B3.Simd.CSse41Compress
import B3.Simd.CSse41Wide
import B3.Simd.CSse41Hash4
import B3.Simd.CSse41Hash1
import B3.Simd.CSse41HashMany
