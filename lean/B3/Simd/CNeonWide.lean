/- the C 4-way `round_fn4` lane by lane -/
import B3.Simd.CNeonLane0
import B3.Simd.CNeonLane1
import B3.Simd.CNeonLane2
import B3.Simd.CNeonLane3
namespace B3.Simd.CNeon
open B3.Simd.CI B3.Simd.Neon
open B3 B3.Simd B3.Gen.CNeon
open B3.Gen.C (MSG_SCHEDULE)

theorem round_lane_aux (l : Fin 4) (v m : Vector V4 16) (r : Fin 7) :
    lane l (round_fn4 v m r) = roundWithA (lane l v) (fun i => (schedC m r)[i][l]) := by
  match l with
  | 0 => exact round_lane0 v m r
  | 1 => exact round_lane1 v m r
  | 2 => exact round_lane2 v m r
  | 3 => exact round_lane3 v m r

theorem schedC_get (m : Vector V4 16) (r : Fin 7) (i : Fin 16) : (schedC m r)[i] = m[MSG_SCHEDULE[r][i]] := by
  match i with
  | ⟨0, _⟩ | ⟨1, _⟩ | ⟨2, _⟩ | ⟨3, _⟩ | ⟨4, _⟩ | ⟨5, _⟩ | ⟨6, _⟩ | ⟨7, _⟩
  | ⟨8, _⟩ | ⟨9, _⟩ | ⟨10, _⟩ | ⟨11, _⟩ | ⟨12, _⟩ | ⟨13, _⟩ | ⟨14, _⟩ | ⟨15, _⟩ => rfl
  | ⟨n + 16, h⟩ => omega

theorem lane_get' (l : Fin 4) (v : Vector V4 16) (i : Fin 16) : (lane l v)[i] = v[i][l] := by
  match i with
  | ⟨0, _⟩ | ⟨1, _⟩ | ⟨2, _⟩ | ⟨3, _⟩ | ⟨4, _⟩ | ⟨5, _⟩ | ⟨6, _⟩ | ⟨7, _⟩
  | ⟨8, _⟩ | ⟨9, _⟩ | ⟨10, _⟩ | ⟨11, _⟩ | ⟨12, _⟩ | ⟨13, _⟩ | ⟨14, _⟩ | ⟨15, _⟩ => rfl
  | ⟨n + 16, h⟩ => omega

/-- lane `l` of the 4-way round is the specification's round on lane `l` -/
theorem round_lane (l : Fin 4) (v m : Vector V4 16) (r : Fin 7) :
    lane l (round_fn4 v m r) = Spec.roundWith (lane l v) (fun i => (lane l m)[MSG_SCHEDULE[r][i]]) := by
  rw [round_lane_aux, roundWithA_eq]
  congr 1
  funext i
  rw [schedC_get, lane_get']

/-- the portable C `round_fn4` in the same vocabulary -/
theorem c_round_with (s m : St) (r : Fin 7) :
    Gen.C.round_fn s m r = Spec.roundWith s (fun i => m[MSG_SCHEDULE[r][i]]) := by
  unfold Gen.C.round_fn
  simp only [Proofs.c_g_eq]
  rfl

/-- the seven 4-way rounds, lane by lane -/
theorem rounds_lane (l : Fin 4) (v m : Vector V4 16) :
    lane l (round_fn4 (round_fn4 (round_fn4 (round_fn4 (round_fn4 (round_fn4 (round_fn4 v m 0) m 1) m 2) m 3) m 4) m 5) m 6)
      = Spec.rounds7 (lane l v) (lane l m) := by
  simp only [round_lane, ← c_round_with, Proofs.c_round_eq]
  unfold Spec.rounds7
  rfl

end B3.Simd.CNeon
