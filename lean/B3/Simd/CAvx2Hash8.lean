/- `transpose_vecs`, `transpose_msg_vecs`, `load_counters` and `blake3_hash8_avx2` (C) against the specification -/
import B3.Simd.CAvx2Wide
import B3.Simd.CSse41HashMany
namespace B3.Simd.CAvx2
open B3.Simd.CI
open B3 B3.Simd B3.Gen.CAvx2
open B3.Gen.C (MSG_SCHEDULE IV)

theorem vec8_eta'' {α : Type} (s : Vector α 8) : s = #v[s[0], s[1], s[2], s[3], s[4], s[5], s[6], s[7]] := by
  apply Vector.ext
  intro i hi
  match i, hi with
  | 0, _ | 1, _ | 2, _ | 3, _ | 4, _ | 5, _ | 6, _ | 7, _ => rfl
  | n + 8, h => omega

/-! ### transposes -/

/-- row `i` of the transposed matrix, by kernel reduction over symbolic registers -/
theorem transpose_vecs_row (a b c d e f g h : V8) (i : Fin 8) :
    (transpose_vecs #v[a, b, c, d, e, f, g, h])[i] = #v[a[i], b[i], c[i], d[i], e[i], f[i], g[i], h[i]] := by
  match i with
  | 0 => kernel_rfl
  | 1 => kernel_rfl
  | 2 => kernel_rfl
  | 3 => kernel_rfl
  | 4 => kernel_rfl
  | 5 => kernel_rfl
  | 6 => kernel_rfl
  | 7 => kernel_rfl

theorem transpose_vecs_get (vs : Vector V8 8) (i j : Fin 8) : (transpose_vecs vs)[i][j] = vs[j][i] := by
  rw [vec8_eta'' vs]
  generalize vs[0] = a; generalize vs[1] = b; generalize vs[2] = c; generalize vs[3] = d
  generalize vs[4] = e; generalize vs[5] = f; generalize vs[6] = g; generalize vs[7] = h
  rw [transpose_vecs_row]
  match j with
  | 0 | 1 | 2 | 3 | 4 | 5 | 6 | 7 => rfl

/-- after the transposition, lane `i` of the 16 message vectors is the block of input `i`, whatever the
(uninitialised) array held before -/
theorem transpose_msg_vecs_lane (inputs : PtrArr) (off : Nat) (out : Vector V8 16) (i : Fin 8) :
    lane8 i (transpose_msg_vecs inputs off out) = blockAt (inputs i.val) off := by
  have hi : inputs i.val = (#v[inputs 0, inputs 1, inputs 2, inputs 3, inputs 4, inputs 5, inputs 6, inputs 7] : Vector Mem 8)[i] := by
    match i with
    | 0 | 1 | 2 | 3 | 4 | 5 | 6 | 7 => rfl
  rw [hi]
  unfold transpose_msg_vecs
  generalize inputs 0 = p0; generalize inputs 1 = p1; generalize inputs 2 = p2; generalize inputs 3 = p3
  generalize inputs 4 = p4; generalize inputs 5 = p5; generalize inputs 6 = p6; generalize inputs 7 = p7
  vatoms16 out
  match i with
  | 0 => kernel_rfl
  | 1 => kernel_rfl
  | 2 => kernel_rfl
  | 3 => kernel_rfl
  | 4 => kernel_rfl
  | 5 => kernel_rfl
  | 6 => kernel_rfl
  | 7 => kernel_rfl

/-! ### counters -/

/-- the counter of input `i` of eight -/
def ctr8 (counter : UInt64) (incr : Bool) (i : Fin 8) : UInt64 :=
  counter + (if incr then UInt64.ofNat i.val else 0)

theorem load_counters_raw (counter : UInt64) (incr : Bool) (a b : V8) (i : Fin 8) :
    (load_counters counter incr a b).1[i]
      = counter.toUInt32 + ((0 - (if incr then 1 else 0)) &&& (#v[0, 1, 2, 3, 4, 5, 6, 7] : V8)[i]) ∧
    (load_counters counter incr a b).2[i]
      = (counter >>> 32).toUInt32
        - (if sgt32 (((0 - (if incr then 1 else 0)) &&& (#v[0, 1, 2, 3, 4, 5, 6, 7] : V8)[i]) ^^^ 0x80000000)
              ((counter.toUInt32 + ((0 - (if incr then 1 else 0)) &&& (#v[0, 1, 2, 3, 4, 5, 6, 7] : V8)[i])) ^^^ 0x80000000)
           then (0xFFFFFFFF : UInt32) else 0) := by
  match i with
  | 0 | 1 | 2 | 3 | 4 | 5 | 6 | 7 => exact ⟨rfl, rfl⟩

theorem load_counters_lane (counter : UInt64) (incr : Bool) (a b : V8) (i : Fin 8) :
    (load_counters counter incr a b).1[i] = (ctr8 counter incr i).toUInt32 ∧
    (load_counters counter incr a b).2[i] = ((ctr8 counter incr i) >>> 32).toUInt32 := by
  obtain ⟨r1, r2⟩ := load_counters_raw counter incr a b i
  rw [r1, r2]
  have key : ∀ (c : UInt32) (k : UInt64), c.toNat < 256 → c.toUInt64 = k →
      counter.toUInt32 + c = (counter + k).toUInt32 ∧
      (counter >>> 32).toUInt32 - (if sgt32 (c ^^^ 0x80000000) ((counter.toUInt32 + c) ^^^ 0x80000000) then (0xFFFFFFFF : UInt32) else 0)
        = ((counter + k) >>> 32).toUInt32 := by
    intro c k hc hk
    subst hk
    exact counter_add_words counter c hc
  cases incr
  · match i with
    | 0 => exact key _ _ (by decide) (by decide)
    | 1 => exact key _ _ (by decide) (by decide)
    | 2 => exact key _ _ (by decide) (by decide)
    | 3 => exact key _ _ (by decide) (by decide)
    | 4 => exact key _ _ (by decide) (by decide)
    | 5 => exact key _ _ (by decide) (by decide)
    | 6 => exact key _ _ (by decide) (by decide)
    | 7 => exact key _ _ (by decide) (by decide)
  · match i with
    | 0 => exact key _ _ (by decide) (by decide)
    | 1 => exact key _ _ (by decide) (by decide)
    | 2 => exact key _ _ (by decide) (by decide)
    | 3 => exact key _ _ (by decide) (by decide)
    | 4 => exact key _ _ (by decide) (by decide)
    | 5 => exact key _ _ (by decide) (by decide)
    | 6 => exact key _ _ (by decide) (by decide)
    | 7 => exact key _ _ (by decide) (by decide)

/-! ### hash8 -/

/-- lane `i` of the eight chaining-value vectors: the chaining value of input `i` -/
def cvLane8 (i : Fin 8) (h : Vector V8 8) : CV :=
  #v[h[0][i], h[1][i], h[2][i], h[3][i], h[4][i], h[5][i], h[6][i], h[7][i]]

macro "watoms8 " s:ident : tactic => `(tactic|
  (rw [vec8_eta'' $s]
   generalize $s[0] = h0; generalize $s[1] = h1; generalize $s[2] = h2; generalize $s[3] = h3
   generalize $s[4] = h4; generalize $s[5] = h5; generalize $s[6] = h6; generalize $s[7] = h7))

theorem lane_init' (i : Fin 8) (hv : Vector V8 8) (lo hi : V8) (bl fl : UInt32) :
    lane8 i #v[hv[0], hv[1], hv[2], hv[3], hv[4], hv[5], hv[6], hv[7],
              set1 IV[0], set1 IV[1], set1 IV[2], set1 IV[3], lo, hi, set1 bl, set1 fl]
      = #v[hv[0][i], hv[1][i], hv[2][i], hv[3][i], hv[4][i], hv[5][i], hv[6][i], hv[7][i],
           IV[0], IV[1], IV[2], IV[3], lo[i], hi[i], bl, fl] := by
  watoms8 hv
  match i with
  | 0 | 1 | 2 | 3 | 4 | 5 | 6 | 7 => rfl

theorem lane_init (i : Fin 8) (hv : Vector V8 8) (lo hi : V8) (t : UInt64) (bl fl : UInt32)
    (hlo : lo[i] = t.toUInt32) (hhi : hi[i] = (t >>> 32).toUInt32) :
    lane8 i #v[hv[0], hv[1], hv[2], hv[3], hv[4], hv[5], hv[6], hv[7],
              set1 IV[0], set1 IV[1], set1 IV[2], set1 IV[3], lo, hi, set1 bl, set1 fl]
      = Spec.initState (cvLane8 i hv) t bl fl := by
  rw [lane_init', hlo, hhi]
  unfold Spec.initState cvLane8
  rw [← Proofs.c_iv]
  rfl

theorem cvLane_out (i : Fin 8) (hv : Vector V8 8) (v : Vector V8 16) (cv : CV) :
    cvLane8 i ((((((((hv.set 0 (xorv v[0] v[8])).set 1 (xorv v[1] v[9])).set 2 (xorv v[2] v[10])).set 3 (xorv v[3] v[11])).set 4
        (xorv v[4] v[12])).set 5 (xorv v[5] v[13])).set 6 (xorv v[6] v[14])).set 7 (xorv v[7] v[15]))
      = first8 (Spec.feedForward cv (lane8 i v)) := by
  watoms8 hv; vatoms16 v
  match i with
  | 0 => kernel_rfl
  | 1 => kernel_rfl
  | 2 => kernel_rfl
  | 3 => kernel_rfl
  | 4 => kernel_rfl
  | 5 => kernel_rfl
  | 6 => kernel_rfl
  | 7 => kernel_rfl

/-- one iteration of the block loop of `blake3_hash8_avx2` -/
theorem loop_body (inputs : PtrArr) (blocks : Nat) (flags fe : UInt8) (lo hi : V8)
    (bf : UInt8) (hv : Vector V8 8) (b : Nat) :
    (blake3_hash8_avx2_loop1 inputs blocks flags fe lo hi (bf, hv) b).1 = flags ∧
    ∀ (i : Fin 8) (t : UInt64), lo[i] = t.toUInt32 → hi[i] = (t >>> 32).toUInt32 →
      cvLane8 i (blake3_hash8_avx2_loop1 inputs blocks flags fe lo hi (bf, hv) b).2
        = first8 (Spec.compress (cvLane8 i hv) (blockAt (inputs i.val) (b * 64)) t 64
            (if b + 1 = blocks then bf ||| fe else bf).toUInt32) := by
  refine ⟨rfl, ?_⟩
  intro i t hlo hhi
  unfold blake3_hash8_avx2_loop1 Spec.compress
  simp only []
  rw [cvLane_out i _ _ (cvLane8 i hv), rounds_lane, transpose_msg_vecs_lane, lane_init i hv lo hi t _ _ hlo hhi]

/-- the loop of `blake3_hash8_avx2` after `n` iterations -/
theorem loop_inv (inputs : PtrArr) (blocks : Nat) (flags fs fe : UInt8) (lo hi : V8) (hv0 : Vector V8 8) (n : Nat) :
    ((List.range n).foldl (blake3_hash8_avx2_loop1 inputs blocks flags fe lo hi) (flags ||| fs, hv0)).1
        = (if n = 0 then flags ||| fs else flags) ∧
    ∀ (i : Fin 8) (t : UInt64), lo[i] = t.toUInt32 → hi[i] = (t >>> 32).toUInt32 →
      cvLane8 i ((List.range n).foldl (blake3_hash8_avx2_loop1 inputs blocks flags fe lo hi) (flags ||| fs, hv0)).2
        = foldBlocksN (cvLane8 i hv0) (fun b => blockAt (inputs i.val) (b * 64)) blocks t flags fs fe n := by
  induction n with
  | zero => exact ⟨rfl, fun _ _ _ _ => rfl⟩
  | succ n ih =>
    obtain ⟨ih1, ih2⟩ := ih
    rw [List.range_succ, List.foldl_append]
    generalize (List.range n).foldl (blake3_hash8_avx2_loop1 inputs blocks flags fe lo hi) (flags ||| fs, hv0) = L at ih1 ih2 ⊢
    obtain ⟨bf, hv⟩ := L
    simp only at ih1 ih2
    simp only [List.foldl_cons, List.foldl_nil]
    obtain ⟨b1, b2⟩ := loop_body inputs blocks flags fe lo hi bf hv n
    refine ⟨by rw [b1]; simp, ?_⟩
    intro i t hlo hhi
    rw [b2 i t hlo hhi, ih2 i t hlo hhi, ih1, flags_step]
    unfold foldBlocksN
    rw [List.range_succ, List.foldl_append]
    rfl

/-- the initial chaining-value vectors and the loop of `blake3_hash8_avx2` -/
def hash8Loop (inputs : PtrArr) (blocks : Nat) (key : CV) (counter : UInt64) (incr : Bool) (flags fs fe : UInt8) :
    UInt8 × Vector V8 8 :=
  (List.range blocks).foldl
    (blake3_hash8_avx2_loop1 inputs blocks flags fe (load_counters counter incr uninit uninit).1
      (load_counters counter incr uninit uninit).2)
    (flags ||| fs, #v[set1 key[0], set1 key[1], set1 key[2], set1 key[3], set1 key[4], set1 key[5], set1 key[6], set1 key[7]])

/-- eight adjacent 32-byte stores are one 256-byte store -/
theorem store8 (m : Mem) (a : Nat) (v0 v1 v2 v3 v4 v5 v6 v7 : V8) :
    ((((((((m.write (a + 0) (bytesOfWords v0)).write (a + 32) (bytesOfWords v1)).write (a + 64) (bytesOfWords v2)).write (a + 96)
      (bytesOfWords v3)).write (a + 128) (bytesOfWords v4)).write (a + 160) (bytesOfWords v5)).write (a + 192) (bytesOfWords v6)).write
      (a + 224) (bytesOfWords v7))
      = m.write a (bytesOfWords v0 ++ bytesOfWords v1 ++ bytesOfWords v2 ++ bytesOfWords v3 ++ bytesOfWords v4
          ++ bytesOfWords v5 ++ bytesOfWords v6 ++ bytesOfWords v7) := by
  have len : ∀ v : V8, (bytesOfWords v).length = 32 := fun v => by rw [bytesOfWords_length]
  have step : ∀ (xs : List UInt8) (k : Nat) (v : V8), xs.length = k →
      (m.write a xs).write (a + k) (bytesOfWords v) = m.write a (xs ++ bytesOfWords v) := by
    intro xs k v hk; subst hk; exact Mem.write_write_adj m a xs _
  rw [Nat.add_zero, step _ 32 v1 (len v0), step _ 64 v2 (by simp [len]), step _ 96 v3 (by simp [len]),
    step _ 128 v4 (by simp [len]), step _ 160 v5 (by simp [len]), step _ 192 v6 (by simp [len]), step _ 224 v7 (by simp [len])]

/-- what follows the loop (one 8x8 transpose, eight stores) writes the eight chaining values one after the
other at the output pointer: 256 bytes, nothing else; the pointer itself is unchanged -/
theorem hash8_eq_write (inputs : PtrArr) (blocks : Nat) (key : CV) (counter : UInt64) (incr : Bool)
    (flags fs fe : UInt8) (out : BytePtr) :
    blake3_hash8_avx2 inputs blocks key counter incr flags fs fe out
      = ⟨out.mem.write out.off
          (bytesOfWords (cvLane8 0 (hash8Loop inputs blocks key counter incr flags fs fe).2)
           ++ bytesOfWords (cvLane8 1 (hash8Loop inputs blocks key counter incr flags fs fe).2)
           ++ bytesOfWords (cvLane8 2 (hash8Loop inputs blocks key counter incr flags fs fe).2)
           ++ bytesOfWords (cvLane8 3 (hash8Loop inputs blocks key counter incr flags fs fe).2)
           ++ bytesOfWords (cvLane8 4 (hash8Loop inputs blocks key counter incr flags fs fe).2)
           ++ bytesOfWords (cvLane8 5 (hash8Loop inputs blocks key counter incr flags fs fe).2)
           ++ bytesOfWords (cvLane8 6 (hash8Loop inputs blocks key counter incr flags fs fe).2)
           ++ bytesOfWords (cvLane8 7 (hash8Loop inputs blocks key counter incr flags fs fe).2)), out.off⟩ := by
  unfold blake3_hash8_avx2 hash8Loop
  simp only []
  generalize (List.range blocks).foldl _ _ = L
  obtain ⟨bf, hv⟩ := L
  simp only [storeu256_ptr]
  rw [store8]
  apply congrArg (fun bs => BytePtr.mk (out.mem.write out.off bs) out.off)
  watoms8 hv
  kernel_rfl

theorem cvLane_key (i : Fin 8) (key : CV) :
    cvLane8 i #v[set1 key[0], set1 key[1], set1 key[2], set1 key[3], set1 key[4], set1 key[5], set1 key[6], set1 key[7]] = key := by
  conv => rhs; rw [Proofs.vec8_eta key]
  match i with
  | 0 | 1 | 2 | 3 | 4 | 5 | 6 | 7 => rfl

/-- chaining value `i` left by the loop of `blake3_hash8_avx2` is the specification's fold over the blocks of input `i` -/
theorem hash8Loop_lane (inputs : PtrArr) (blocks : Nat) (key : CV) (counter : UInt64) (incr : Bool)
    (flags fs fe : UInt8) (i : Fin 8) :
    cvLane8 i (hash8Loop inputs blocks key counter incr flags fs fe).2
      = foldBlocksN key (fun b => blockAt (inputs i.val) (b * 64)) blocks (ctr8 counter incr i) flags fs fe blocks := by
  unfold hash8Loop
  have h := (loop_inv inputs blocks flags fs fe (load_counters counter incr uninit uninit).1 (load_counters counter incr uninit uninit).2
    #v[set1 key[0], set1 key[1], set1 key[2], set1 key[3], set1 key[4], set1 key[5], set1 key[6], set1 key[7]] blocks).2
    i (ctr8 counter incr i) (load_counters_lane counter incr _ _ i).1 (load_counters_lane counter incr _ _ i).2
  rw [h, cvLane_key]

end B3.Simd.CAvx2
