/- round piece 7 of the generated C `compress_pre` against `Spec.round` (kernel-checked) -/
import B3.Simd.CSse2Base
namespace B3.Simd.CSse2
open B3.Simd.CI
open B3 B3.Simd B3.Gen.CSse2

/-- the last round returns the rows only -/
theorem round7_eq (s w : St) :
    compress_pre_round7 (rows5 s w)
      = #v[row (Spec.round s (Spec.permute w)) 0, row (Spec.round s (Spec.permute w)) 1,
           row (Spec.round s (Spec.permute w)) 2, row (Spec.round s (Spec.permute w)) 3] := by
  cround_tac compress_pre_round7 s w

end B3.Simd.CSse2
