/- the generated `compress_pre`, `blake3_compress_in_place_avx512`, `blake3_compress_xof_avx512` against the specification -/
import B3.Simd.CAvx512CompressB
import B3.Simd.CAvx512CompressC
import B3.Simd.CAvx512CompressD
import B3.Simd.CAvx512Wide
namespace B3.Simd.C512
open B3 B3.Gen.CAvx512

macro "catoms8 " s:ident : tactic => `(tactic|
  (rw [Proofs.vec8_eta $s]
   generalize $s[0] = c0; generalize $s[1] = c1; generalize $s[2] = c2; generalize $s[3] = c3
   generalize $s[4] = c4; generalize $s[5] = c5; generalize $s[6] = c6; generalize $s[7] = c7))

/-- the first piece of `compress_pre` overwrites `rows[0..3]` (whatever the array held) with the rows of the
initial state and loads the block words in their original order -/
theorem c_init_eq (rows : Vector V4 4) (cv : CV) (block : St) (bl : UInt8) (t : UInt64) (fl : UInt8) :
    compress_pre_part1 rows cv block bl t fl
      = (rowsV (Spec.initState cv t bl.toUInt32 fl.toUInt32), row block 0, row block 1, row block 2, row block 3) := by
  unfold compress_pre_part1 Spec.initState
  rw [Proofs.c_iv, vec4_eta rows]
  generalize rows[0] = r0; generalize rows[1] = r1; generalize rows[2] = r2; generalize rows[3] = r3
  catoms8 cv; atoms16 block
  rfl

theorem c512_compress_pre_eq (rows : Vector V4 4) (cv : CV) (block : St) (bl : UInt8) (t : UInt64) (fl : UInt8) :
    compress_pre rows cv block bl t fl = rowsV (Spec.rounds7 (Spec.initState cv t bl.toUInt32 fl.toUInt32) block) := by
  unfold compress_pre
  simp only [c_init_eq, c_round1_eq, crows, c_round2_eq, c_round3_eq, c_round4_eq, c_round5_eq, c_round6_eq, c_round7_eq]
  rfl

theorem inplace_of_rows (v : St) (cv : CV) :
    storeu_words (xor_128 (rowsV v)[1] (rowsV v)[3]) (storeu_words (xor_128 (rowsV v)[0] (rowsV v)[2]) cv 0) 4
      = first8 (Spec.feedForward cv v) := by
  atoms16 v; catoms8 cv
  kernel_rfl

theorem c512_compress_in_place_eq (cv : CV) (block : St) (bl : UInt8) (t : UInt64) (fl : UInt8) :
    blake3_compress_in_place_avx512 cv block bl t fl = first8 (Spec.compress cv block t bl.toUInt32 fl.toUInt32) := by
  have h := inplace_of_rows (Spec.rounds7 (Spec.initState cv t bl.toUInt32 fl.toUInt32) block) cv
  rw [← c512_compress_pre_eq (Vector.replicate 4 (Vector.replicate 4 0))] at h
  exact h

/-- the four rows that `blake3_compress_xof_avx512` stores -/
def cxofRows (r : Vector V4 4) (cv : CV) : List (List UInt8) :=
  [bytesOfWords (xor_128 r[0] r[2]), bytesOfWords (xor_128 r[1] r[3]), bytesOfWords (xor_128 r[2] (loadu_words cv 0)),
   bytesOfWords (xor_128 r[3] (loadu_words cv 4))]

theorem c512_compress_xof_shape (cv : CV) (block : St) (bl : UInt8) (t : UInt64) (fl : UInt8) (out : BPtr) :
    blake3_compress_xof_avx512 cv block bl t fl out
      = wrAll 16 out 0 (cxofRows (compress_pre (Vector.replicate 4 (Vector.replicate 4 0)) cv block bl t fl) cv) := rfl

theorem cxofRows_flatten (v : St) (cv : CV) :
    (cxofRows (rowsV v) cv).flatten = bytesOfWords (Spec.feedForward cv v) := by
  atoms16 v; catoms8 cv
  kernel_rfl

theorem c512_compress_xof_eq (cv : CV) (block : St) (bl : UInt8) (t : UInt64) (fl : UInt8) (out : BPtr)
    (h : out.off ≤ out.buf.length) :
    blake3_compress_xof_avx512 cv block bl t fl out
      = wr out 0 (bytesOfWords (Spec.compress cv block t bl.toUInt32 fl.toUInt32)) := by
  rw [c512_compress_xof_shape, wrAll_flatten 16 _ _ out 0 h, c512_compress_pre_eq, cxofRows_flatten]
  · rfl
  · intro c hc
    unfold cxofRows at hc
    simp only [List.mem_cons, List.not_mem_nil, or_false] at hc
    rcases hc with h | h | h | h <;> rw [h, length_bytesOfWords]

end B3.Simd.C512
