/-
Primitive vocabulary of the translation of the build script and of the crate's `#[cfg]` gates
(`gen/ext_buildcfg.py` -> `B3/Gen/BuildRs.lean`, `B3/Gen/CfgGates.lean`).  Hand-written and small on purpose: this
file is the trusted mapping (with `DispatchPrim.lean`, whose `Cfg` / `Build` = "a cfg predicate" / "which cfg names and
key-value pairs are set" are reused here).

build.rs side
* A function of build.rs that only *reads* (environment variables, the target triple) is code in `P = Option`:
  `none` = the function panicked (`unwrap()` of an unset variable, index out of range, failed `assert!`).
* A function that *writes* (prints `cargo::rustc-cfg=..`, compiles C / assembly files with the `cc` crate, `panic!`s
  with a message) is code in `B`: a writer of `Event`s that may stop with `panic msg`.
* `cc::Build` is the record `CcBuild` of what was added to it, in order.

src side
* every gated item is a record carrying the list of `#[cfg(..)]` predicates in force (outermost first; all must hold,
  `Build.on`).
-/
import B3.DispatchPrim
namespace B3.BuildCfg
open B3.Dispatch

/-! ### build.rs: values -/

/-- read-only helpers: `none` = panicked -/
abbrev P := Option

/-- `cc::Build` as far as build.rs uses it: `.file(..)`, `.flag(..)`, `.emit_rerun_if_env_changed(..)` -/
structure CcBuild where
  files : List String := []
  flags : List String := []
  emitRerunIfEnvChanged : Bool := true
deriving DecidableEq, Repr

def CcBuild.new : CcBuild := {}
def CcBuild.file (b : CcBuild) (f : String) : CcBuild := { b with files := b.files ++ [f] }
def CcBuild.flag (b : CcBuild) (f : String) : CcBuild := { b with flags := b.flags ++ [f] }
def CcBuild.emit_rerun_if_env_changed (b : CcBuild) (v : Bool) : CcBuild := { b with emitRerunIfEnvChanged := v }

/-- what the build script does that matters to the rest of the build, in order -/
inductive Event where
  | rustcCfg (name : String)                 -- `println!("cargo::rustc-cfg=NAME")`
  | rustcCheckCfg (spec : String)            -- `println!("cargo::rustc-check-cfg=SPEC")`
  | setEnv (key value : String)              -- `env::set_var(key, value)`
  | compile (lib : String) (build : CcBuild) -- `build.compile(lib)`
  | readDir (path : String)                  -- `std::fs::read_dir(path)?` (the script fails if it cannot be listed)
  | removeFile (path : String)               -- `let _ = std::fs::remove_file(path)`
deriving DecidableEq, Repr

/-- writer of events that may panic with a message -/
inductive B (α : Type) where
  | ok (a : α) (log : List Event)
  | panic (msg : String)
deriving DecidableEq, Repr

def B.bind {α β : Type} (x : B α) (f : α → B β) : B β :=
  match x with
  | .panic m => .panic m
  | .ok a l =>
    match f a with
    | .panic m => .panic m
    | .ok b l' => .ok b (l ++ l')

instance : Monad B where
  pure a := .ok a []
  bind := B.bind

def emit (ev : Event) : B Unit := .ok () [ev]

/-- a read-only helper called from a writing function; `what` is the call as written -/
def B.ofP {α : Type} (what : String) : P α → B α
  | some a => .ok a []
  | none => .panic (what ++ " panicked")

/-- `assert!(c)` in a writing function -/
def B.assert (what : String) : P Bool → B Unit
  | some true => .ok () []
  | some false => .panic ("assertion failed: " ++ what)
  | none => .panic (what ++ " panicked")

/-- the events of a run that did not panic -/
def B.events? {α : Type} : B α → Option (List Event)
  | .ok _ l => some l
  | .panic _ => none

/-- the `cargo::rustc-cfg=` names among the events, in order -/
def cfgNames : List Event → List String
  | [] => []
  | .rustcCfg n :: r => n :: cfgNames r
  | _ :: r => cfgNames r

/-- the compiled libraries among the events, in order -/
def compiles : List Event → List (String × CcBuild)
  | [] => []
  | .compile l b :: r => (l, b) :: compiles r
  | _ :: r => compiles r

/-- every file handed to the C compiler / assembler, in order -/
def compiledFiles (evs : List Event) : List String := (compiles evs).flatMap (·.2.files)

/-! ### build.rs: library functions -/

namespace Rt

/-- `s.split(c)` for a one-character pattern, on the characters of `s`: never empty (`"".split("-")` is `[""]`) -/
def splitChars (sep : Char) : List Char → List Char → List (List Char)
  | acc, [] => [acc.reverse]
  | acc, c :: cs => if c = sep then acc.reverse :: splitChars sep [] cs else splitChars sep (c :: acc) cs

def split (s : String) (sep : Char) : List String := (splitChars sep [] s.toList).map String.ofList

/-- `v[i]` -/
def index {α : Type} (l : List α) (i : Nat) : P α := l[i]?

/-- `opt.unwrap()` / `res.unwrap()` -/
def unwrap {α : Type} (o : Option α) : P α := o

/-- `assert!(c)` in a read-only helper -/
def assert (c : Bool) : P Unit := if c then some () else none

/-- `a && b`: `b` is not evaluated (and cannot panic) when `a` is false -/
def and (a b : P Bool) : P Bool := a.bind fun x => if x then b else some false

/-- `a || b`: `b` is not evaluated when `a` is true -/
def or (a b : P Bool) : P Bool := a.bind fun x => if x then some true else b

end Rt

/-! ### the source side: gated items -/

/-- `[#[cfg(..)]] [#[path = ".."]] [pub] mod NAME;` at the top level of src/lib.rs -/
structure ModDecl where
  name : String
  gate : List Cfg
  file : String          -- the `#[path]`, or `NAME.rs`
deriving DecidableEq, Repr

/-- a variant of `enum Platform` -/
structure Variant where
  name : String
  gate : List Cfg
deriving DecidableEq, Repr

/-- one arm of a `match self { .. }` in `impl Platform` -/
structure MArm where
  pats : List String               -- `Platform::A | Platform::B` = ["A", "B"]; `_` = []
  gate : List Cfg
  callee : Option (List String)    -- path segments of the function the arm calls; `none`: the arm calls no kernel (a literal, or the portable loop)
  selfCalls : List String          -- `self.m(..)` calls in the arm (the portable loop of `xof_many` calls `self.compress_xof`)
deriving DecidableEq, Repr

/-- a method of `impl Platform` that dispatches by `match self` -/
structure Method where
  name : String
  gate : List Cfg
  arms : List MArm
deriving DecidableEq, Repr

/-- a function definition: in which file, under which gate -/
structure FnDef where
  file : String
  name : String
  gate : List Cfg
deriving DecidableEq, Repr

/-- a use of a name at a place where `gate` is in force -/
structure Ref where
  file : String
  within : String                  -- the enclosing function
  gate : List Cfg
  target : List String             -- path segments as written (`crate::sse41::hash_many`, `avx2_detected`, `Platform::AVX2`, `ffi::blake3_hash_many_avx2`)
deriving DecidableEq, Repr

/-- a declaration inside an `extern "C" { .. }` block (an imported symbol) or an `extern "C" fn` exported with `no_mangle` -/
structure Symbol where
  file : String
  name : String
  gate : List Cfg
deriving DecidableEq, Repr

/-- one step of `Platform::detect()`: under `gate`, `if test() { return Platform::V }` (`test = none`: unconditional) -/
structure DetectStep where
  gate : List Cfg
  test : Option String
  result : String                  -- the variant name, or "<override>" for the verification hook
deriving DecidableEq, Repr

/-- a run-time detection function: compile-time short-circuits (`if cfg!(c) { return false; }`) and the CPU features asked of `cpufeatures` -/
structure DetectedFn where
  name : String
  gate : List Cfg
  falseIf : List Cfg
  features : List String
deriving DecidableEq, Repr

end B3.BuildCfg
