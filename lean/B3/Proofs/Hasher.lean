/-
The representation invariant of `Hasher` and its preservation by `update_with_join`
(for every input, split, SIMD degree and hazmat input offset).
-/
import B3.Proofs.OneShot
import B3.Proofs.Arith
import B3.Tree.Final
namespace B3.Proofs
open B3 B3.Rs Hs Tr St
local notation "K₀" => Kern.spec

/-- chaining value of a chunk according to the specification -/
def leafF (key : CV) (flags : UInt8) (t : Nat) (s : List UInt8) : CV := (Spec.chunkNode key flags t s).chain

theorem leafCS_is (key : CV) (flags : UInt8) : leafCS K₀ key flags = leafF key flags := by
  funext t s; exact leafCS_eq key flags t s

theorem leafCV_is (key : CV) (flags : UInt8) : leafCV K₀ key flags = leafF key flags := by
  funext t s; exact leafCV_eq key flags t s

theorem lp2lt_pow (k : Nat) : lp2lt (2 ^ (k + 1)) = 2 ^ k := by
  have := Nat.two_pow_pos k
  apply lp2lt_unique <;> rw [Nat.pow_succ] <;> omega

theorem leftLen_pow (k : Nat) : leftLen 10 (2 ^ (k + 1) * 2 ^ 10) = 2 ^ k * 2 ^ 10 := by
  unfold leftLen; rw [nchunks_pow, lp2lt_pow]

/-- `compress_subtree_to_parent_node` on a complete subtree returns the chaining values of its halves -/
theorem pairSpec (key : CV) (flags : UInt8) (sd j : Nat) (hsd : sd = 2 ^ j) :
    PairSpec (Spec.parentCV key flags) key 10 (leafF key flags) (toParentNode K₀ key flags sd) := by
  intro t k s hs
  have hp := Nat.two_pow_pos k
  have h10 : (0 : Nat) < 2 ^ 10 := by decide
  have hpos : 0 < 2 ^ k * 2 ^ 10 := Nat.mul_pos hp h10
  have hlen : 2 ^ 10 < s.length := by rw [hs, pow_succ_mul]; omega
  unfold toParentNode
  rw [toPair_spec _ key 10 _ sd j hsd t s hlen, parentCV_eq, leafCV_is, hs, leftLen_pow,
    Nat.mul_div_cancel _ h10]
  have hhalf : 2 ^ k * 2 ^ 10 ≤ s.length := by rw [hs, pow_succ_mul]; omega
  obtain ⟨k', hk'⟩ : ∃ k', 2 ^ k = k' + 1 := ⟨2 ^ k - 1, by omega⟩
  rw [allLeaves_complete 10 (leafF key flags) k' t _ (by rw [List.length_take, Nat.min_eq_left hhalf, hk']),
    allLeaves_complete 10 (leafF key flags) k' _ _ (by rw [List.length_drop, hs, pow_succ_mul, hk']; omega)]

theorem new_buf_len (key : CV) (t : Nat) (flags : UInt8) : (ChunkState.new key t flags).buf.length ≤ 64 := by
  show ([] : List UInt8).length ≤ 64; simp

theorem absorbGo_count (c : ChunkState) (x : List UInt8) : (absorbGo c x).count = 64 * c.blocks + x.length := by
  induction hn : x.length using Nat.strongRecOn generalizing c x with
  | _ n ih =>
    by_cases h : x.length ≤ 64
    · rw [absorbGo_base _ _ h]; simp [ChunkState.count, hn]
    · rw [absorbGo_step _ _ h, ih (x.drop 64).length (by simp [List.length_drop]; omega) _ _ rfl]
      simp [ChunkState.compressBlock, List.length_drop]; omega

theorem new_update_count (key : CV) (t : Nat) (flags : UInt8) (x : List UInt8) :
    ((ChunkState.new key t flags).update K₀ x).count = x.length := by
  rw [update_eq_absorb _ _ (new_buf_len _ _ _), absorbGo_count]
  simp [ChunkState.new]

theorem new_update_t_flags (key : CV) (t : Nat) (flags : UInt8) (x : List UInt8) :
    ((ChunkState.new key t flags).update K₀ x).t = t ∧ ((ChunkState.new key t flags).update K₀ x).flags = flags := by
  rw [update_eq_absorb _ _ (new_buf_len _ _ _)]
  exact absorbGo_t_flags _ _

theorem new_update_empty (key : CV) (t : Nat) (flags : UInt8) :
    (ChunkState.new key t flags).update K₀ [] = ChunkState.new key t flags := by
  rw [update_eq_absorb _ _ (new_buf_len _ _ _), absorbGo_base _ _ (by simpa using new_buf_len key t flags)]
  rfl

theorem new_update_update (key : CV) (t : Nat) (flags : UInt8) (a b : List UInt8) :
    ((ChunkState.new key t flags).update K₀ a).update K₀ b = (ChunkState.new key t flags).update K₀ (a ++ b) :=
  update_update _ _ _ (new_buf_len _ _ _)

/-- The representation invariant: `m = done ++ tail` where `done` is a whole number of chunks whose
chaining values, grouped into lazily merged power-of-two blocks, make up the CV stack, and `tail`
(at most one chunk) sits in the chunk state. -/
def Rep (h : Hasher) (m : List UInt8) : Prop :=
  ∃ (done tail : List UInt8) (bs : List (List CV)),
    m = done ++ tail ∧ tail.length ≤ 1024 ∧
    h.cs = (ChunkState.new h.key h.cs.t h.cs.flags).update K₀ tail ∧
    Inv (Spec.parentCV h.key h.cs.flags) h.key 10 (leafF h.key h.cs.flags) h.toH done bs ∧
    (tail ≠ [] → bs.map List.length = bd (h.cs.t - h.t0)) ∧
    (tail = [] → 0 < h.cs.t - h.t0 → 2 ≤ bs.length)

theorem rep_new (key : CV) (flags : UInt8) : Rep (Hasher.newInternal key flags) [] := by
  refine ⟨[], [], [], rfl, by simp, ?_, ?_, ?_, ?_⟩
  · simp only [Hasher.newInternal]; rw [new_update_empty]; rfl
  · refine ⟨by simp [Hasher.toH, Hasher.newInternal], by simp [Hasher.toH, Hasher.newInternal, ChunkState.new], by simp [Hasher.toH, Hasher.newInternal], ?_, ?_⟩
    · rw [fullLeaves_short]; · rfl
      simp
    · simp only [Hasher.toH, Hasher.newInternal, ChunkState.new, Nat.sub_self, List.map_nil]
      have := @Lazy.canon 0
      rw [bd_zero] at this; exact this
  · intro h; exact absurd rfl h
  · intro _ h; simp [Hasher.newInternal, ChunkState.new] at h

end B3.Proofs

namespace B3.Proofs
open B3 B3.Rs Hs Tr St
local notation "K₀" => Kern.spec

theorem toH_eta (h : Hasher) (hh : Hs.H CV UInt8) (h1 : hh.tail = []) (h2 : hh.t0 = h.t0) :
    ({ h with stack := hh.stack, cs := { h.cs with t := hh.cc } } : Hasher).toH = hh := by
  cases hh; simp_all [Hasher.toH]

/-- phases 2 and 3 of `update_with_join` -/
theorem updateWhole_rep (sd j : Nat) (hsd : sd = 2 ^ j) (h : Hasher) (done input : List UInt8) (bs : List (List CV))
    (hcs : h.cs = ChunkState.new h.key h.cs.t h.cs.flags)
    (hi : Inv (Spec.parentCV h.key h.cs.flags) h.key 10 (leafF h.key h.cs.flags) h.toH done bs)
    (h2 : input = [] → 0 < h.cs.t - h.t0 → 2 ≤ bs.length)
    (hz : ∀ k, 2 ^ k * 2 ^ 10 ≤ input.length → 2 ^ k ∣ h.t0) :
    Rep (h.updateWhole K₀ sd input) (done ++ input) ∧
    (h.updateWhole K₀ sd input).key = h.key ∧ (h.updateWhole K₀ sd input).cs.flags = h.cs.flags ∧
    (h.updateWhole K₀ sd input).t0 = h.t0 := by
  unfold Hasher.updateWhole
  rw [parentCV_eq, leafCS_is]
  obtain ⟨cons, bs', r1, r2, r3, r4, r5, r6, r7⟩ :=
    loop_inv (Spec.parentCV h.key h.cs.flags) h.key 10 (leafF h.key h.cs.flags) (toParentNode K₀ h.key h.cs.flags sd)
      (pairSpec h.key h.cs.flags sd j hsd) input.length h.toH input done bs rfl hi hz
  generalize hL : loop (Spec.parentCV h.key h.cs.flags) h.key 10 (leafF h.key h.cs.flags)
      (toParentNode K₀ h.key h.cs.flags sd) h.toH input = L at *
  obtain ⟨hh, rem⟩ := L
  simp only at r1 r2 r3 r4 r5 r6 r7 ⊢
  have htail : hh.tail = [] := by rw [r4]; rfl
  have ht0 : hh.t0 = h.t0 := by rw [r5]; rfl
  have heta := toH_eta h hh htail ht0
  have hcs' : ({ h.cs with t := hh.cc } : ChunkState) = ChunkState.new h.key hh.cc h.cs.flags := by
    rw [hcs]; rfl
  by_cases hrem : rem = []
  · -- the loop consumed everything
    subst hrem
    simp only [List.isEmpty_nil, Bool.not_true, Bool.false_eq_true, if_false]
    refine ⟨⟨done ++ cons, [], bs', by rw [r1]; simp, by simp, ?_, ?_, fun hne => absurd rfl hne, ?_⟩, by first | rfl | trivial, by first | rfl | trivial, by first | rfl | trivial⟩
    · show ({ h.cs with t := hh.cc } : ChunkState) = _
      rw [hcs', new_update_empty]; rfl
    · rw [heta]; exact r3
    · intro _ hT
      by_cases hc : cons = []
      · obtain ⟨e1, e2⟩ := r7 hc
        subst e2
        have : hh.cc = h.cs.t := by rw [e1]; rfl
        apply h2 (by rw [r1, hc]; rfl)
        simpa [this] using hT
      · exact r6 rfl hc
  · -- at most one chunk remains: it goes to the chunk state, and the stack is merged
    have hne : (!rem.isEmpty) = true := by
      cases rem with
      | nil => exact absurd rfl hrem
      | cons a r => rfl
    simp only [hne, if_true]
    have hupd := new_update_t_flags h.key hh.cc h.cs.flags rem
    obtain ⟨bs'', m1, m2, m3⟩ := mergeStack_blocks (Spec.parentCV h.key h.cs.flags) h.key (hh.cc - hh.t0) _ r3.lz bs' rfl
    refine ⟨⟨done ++ cons, rem, bs'', by rw [r1]; simp, by simpa using r2, ?_, ?_, fun _ => ?_, fun hn => absurd hn hrem⟩, rfl, ?_, rfl⟩
    · simp only [Hasher.mergeCvStack]
      rw [hcs', hupd.1, hupd.2]
    · simp only [Hasher.mergeCvStack, Hasher.toH, hcs', hupd.1, hupd.2, parentCV_eq]
      refine ⟨?_, ?_, ?_, ?_, ?_⟩
      · simpa [ht0] using r3.t0le
      · simpa [ht0] using r3.len
      · simp only []
        rw [← ht0, r3.st]; exact m1
      · simp only []; rw [m2, ← ht0]; exact r3.fl
      · simp only []; rw [m3, ← ht0]; exact Lazy.canon
    · simp only [Hasher.mergeCvStack, hcs', hupd.1]
      rw [m3, ht0]
    · simp only [Hasher.mergeCvStack, hcs', hupd.2]

end B3.Proofs

namespace B3.Proofs
open B3 B3.Rs Hs Tr St
local notation "K₀" => Kern.spec

theorem pushCv_toH (h : Hasher) (cv : CV) (t : Nat) :
    (h.pushCv K₀ cv t).toH = Hs.pushCv (Spec.parentCV h.key h.cs.flags) h.key h.toH cv t := by
  simp [Hasher.pushCv, Hasher.mergeCvStack, Hasher.toH, Hs.pushCv, parentCV_eq]

/-- `update_with_join` after its assertion preserves the representation invariant -/
theorem updateOk_rep (sd j : Nat) (hsd : sd = 2 ^ j) (h : Hasher) (m x : List UInt8) (hr : Rep h m)
    (hz : ∀ k, 2 ^ k * 2 ^ 10 ≤ x.length → 2 ^ k ∣ h.t0) :
    Rep (h.updateOk K₀ sd x) (m ++ x) ∧
    (h.updateOk K₀ sd x).key = h.key ∧ (h.updateOk K₀ sd x).cs.flags = h.cs.flags ∧
    (h.updateOk K₀ sd x).t0 = h.t0 := by
  obtain ⟨done, tail, bs, hm, htl, hcs, hi, hcan, h2⟩ := hr
  have hcount : h.cs.count = tail.length := by rw [hcs, new_update_count]
  unfold Hasher.updateOk
  by_cases ht : tail = []
  · -- empty chunk state
    subst ht
    rw [if_neg (by rw [hcount]; simp)]
    rw [new_update_empty] at hcs
    have := updateWhole_rep sd j hsd h done x bs hcs hi (fun _ => h2 rfl) hz
    rw [hm]; simpa using this
  · have htpos : 0 < tail.length := List.length_pos_iff.mpr ht
    rw [if_pos (by rw [hcount]; exact htpos), hcount]
    have hupd : h.cs.update K₀ (x.take (min (1024 - tail.length) x.length))
        = (ChunkState.new h.key h.cs.t h.cs.flags).update K₀ (tail ++ x.take (min (1024 - tail.length) x.length)) := by
      have e := congrArg (fun c => ChunkState.update K₀ c (x.take (min (1024 - tail.length) x.length))) hcs
      rw [e, new_update_update]
    by_cases hd : (x.drop (min (1024 - tail.length) x.length)) = []
    · -- everything fits into the current chunk
      have hle : x.length ≤ 1024 - tail.length := by
        have := congrArg List.length hd
        simp [List.length_drop] at this; omega
      simp only [hd, List.isEmpty_nil, Bool.not_true, Bool.false_eq_true, if_false]
      rw [Nat.min_eq_right hle, List.take_of_length_le (Nat.le_refl _)] at hupd ⊢
      have htf := new_update_t_flags h.key h.cs.t h.cs.flags (tail ++ x)
      refine ⟨⟨done, tail ++ x, bs, by rw [hm]; simp, by simp; omega, ?_, ?_, fun _ => ?_, fun hn => ?_⟩, by first | rfl | trivial, ?_, by first | rfl | trivial⟩
      · show h.cs.update K₀ x = _
        rw [hupd, htf.1, htf.2]
      · have : ({ h with cs := h.cs.update K₀ x } : Hasher).toH = h.toH := by
          simp [Hasher.toH, hupd, htf.1]
        rw [this]; simp only [hupd, htf.2]; exact hi
      · simp only [hupd, htf.1]; exact hcan ht
      · simp at hn; exact absurd hn.1 ht
      · simp only [hupd, htf.2]
    · -- the chunk is completed and pushed; the rest goes through phases 2 and 3
      have hlt : 1024 - tail.length < x.length := by
        rcases Nat.lt_or_ge (1024 - tail.length) x.length with h' | h'
        · exact h'
        · exfalso; apply hd; apply List.drop_of_length_le; omega
      have hne : (!(x.drop (min (1024 - tail.length) x.length)).isEmpty) = true := by
        cases hx : x.drop (min (1024 - tail.length) x.length) with
        | nil => exact absurd hx hd
        | cons a r => rfl
      simp only [hne, if_true]
      rw [Nat.min_eq_left (Nat.le_of_lt hlt)] at hupd hd ⊢
      generalize hs : tail ++ x.take (1024 - tail.length) = s at hupd
      have hslen : s.length = 2 ^ 10 := by
        rw [← hs]; simp [List.length_take]; omega
      have htf := new_update_t_flags h.key h.cs.t h.cs.flags s
      -- the chaining value pushed is the leaf of the completed chunk
      have hcv : chain K₀ (h.cs.update K₀ (x.take (1024 - tail.length))).output = leafF h.key h.cs.flags h.cs.t s := by
        rw [hupd]; exact leafCS_eq h.key h.cs.flags h.cs.t s
      obtain ⟨bs1, i1, _⟩ := push_single (Spec.parentCV h.key h.cs.flags) h.key 10 (leafF h.key h.cs.flags) h.toH done bs s hi hslen
      have t1 : (h.cs.update K₀ (x.take (1024 - tail.length))).t = h.cs.t := by rw [hupd]; exact htf.1
      have f1 : (h.cs.update K₀ (x.take (1024 - tail.length))).flags = h.cs.flags := by rw [hupd]; exact htf.2
      generalize hc1 : h.cs.update K₀ (x.take (1024 - tail.length)) = cs1 at hcv t1 f1 ⊢
      -- the hasher handed to phases 2 and 3
      generalize hh2 : Hasher.pushCv K₀ { key := h.key, cs := cs1, t0 := h.t0, stack := h.stack } (chain K₀ cs1.output) cs1.t = hq
      have p1 : hq.key = h.key := by rw [← hh2]; simp [Hasher.pushCv, Hasher.mergeCvStack]
      have p2 : hq.cs = cs1 := by rw [← hh2]; simp [Hasher.pushCv, Hasher.mergeCvStack]
      have p3 : hq.t0 = h.t0 := by rw [← hh2]; simp [Hasher.pushCv, Hasher.mergeCvStack]
      have p4 : hq.stack = Hs.mergeStack (Spec.parentCV h.key h.cs.flags) h.key (popcount (h.cs.t - h.t0)) h.stack
            ++ [leafF h.key h.cs.flags h.cs.t s] := by
        rw [← hh2]; simp [Hasher.pushCv, Hasher.mergeCvStack, parentCV_eq, hcv, t1, f1]
      generalize hh3 : Hasher.mk hq.key (ChunkState.new hq.key (hq.cs.t + 1) hq.cs.flags) hq.t0 hq.stack = h3
      have k1 : h3.key = h.key := by rw [← hh3]; exact p1
      have k2 : h3.cs = ChunkState.new h.key (h.cs.t + 1) h.cs.flags := by rw [← hh3, p1, p2, t1, f1]
      have k3 : h3.t0 = h.t0 := by rw [← hh3]; exact p3
      have k4 : h3.toH = { Hs.pushCv (Spec.parentCV h.key h.cs.flags) h.key h.toH (leafF h.key h.cs.flags h.toH.cc s) h.toH.cc
                      with cc := h.toH.cc + 1 } := by
        rw [← hh3]
        simp only [Hasher.toH, Hs.pushCv, p1, p2, p3, p4, t1, f1, ChunkState.new]
      have k5 : h3.cs.t = h.cs.t + 1 ∧ h3.cs.flags = h.cs.flags := by rw [k2]; exact ⟨rfl, rfl⟩
      have hw := updateWhole_rep sd j hsd h3 (done ++ s) (x.drop (1024 - tail.length)) bs1
        (by rw [k5.1, k5.2, k1]; exact k2)
        (by rw [k4, k1, k5.2]; exact i1)
        (fun hnil => absurd hnil hd)
        (by
          intro k hk; rw [k3]; apply hz
          rw [List.length_drop] at hk; omega)
      have hfl : h3.cs.flags = h.cs.flags := k5.2
      have hgoal : m ++ x = done ++ s ++ x.drop (1024 - tail.length) := by
        rw [hm, ← hs]; simp
      rw [hgoal]
      refine ⟨hw.1, ?_, ?_, ?_⟩
      · rw [hw.2.1, k1]
      · rw [hw.2.2.1, hfl]
      · rw [hw.2.2.2, k3]

end B3.Proofs
