/-
`ChunkState`, `Output`, `OutputReader`, the `Hasher` constructors / finalizers of src/lib.rs and the
hazmat entry points of src/hazmat.rs, as translated statement by statement from the source
(Gen/RsState.lean, translator gen/ext_cs.py), equal the hand-written model (Model/Rs.lean) and do
not panic on the states the representation invariants allow.

The generated structures keep the code's representation (`buf : [u8; 64]` + `buf_len : u8`,
`blocks_compressed : u8`, `block : [u8; 64]`, chaining values as 32 bytes, ...); the abstraction
functions `toNode`, `absCS`, `absH`, `absR` map them to the model's (`buf : List UInt8` = the first
`buf_len` bytes, lengths as `Nat`, blocks as 16 words, chaining values as 8 words).
-/
import B3.Gen.RsState
import B3.Model.Rs
import B3.Proofs.Xof
import B3.Proofs.Skeleton
namespace B3.Proofs.RsState
open B3 B3.Arith B3.RsPrim B3.Gen.RsState

/-! ### the panic monad and the primitives -/

@[simp] theorem bind_ok {α β : Type} (a : α) (f : α → R β) : (R.ok a >>= f) = f a := rfl
@[simp] theorem bind_panic {α β : Type} (f : α → R β) : ((R.panic : R α) >>= f) = R.panic := rfl
@[simp] theorem pure_ok {α : Type} (a : α) : (pure a : R α) = R.ok a := rfl

/-- the result as an `Option` (`none` = panic) -/
def optOf {α : Type} : R α → Option α
  | .ok a => some a
  | .panic => none

@[simp] theorem optOf_ok {α : Type} (a : α) : optOf (R.ok a) = some a := rfl
@[simp] theorem optOf_panic {α : Type} : optOf (R.panic : R α) = none := rfl

theorem cadd_ok (a b : Nat) (h : a + b < 2 ^ 64) : cadd a b = .ok (a + b) := by
  unfold cadd W; rw [if_pos h]
theorem cadd_panic (a b : Nat) (h : ¬ a + b < 2 ^ 64) : cadd a b = .panic := by
  unfold cadd W; rw [if_neg h]
theorem csub_ok (a b : Nat) (h : b ≤ a) : csub a b = .ok (a - b) := by
  unfold csub; rw [if_pos h]
theorem csub_panic (a b : Nat) (h : ¬ b ≤ a) : csub a b = .panic := by
  unfold csub; rw [if_neg h]
theorem cmul_ok (a b : Nat) (h : a * b < 2 ^ 64) : cmul a b = .ok (a * b) := by
  unfold cmul W; rw [if_pos h]
theorem cmul_panic (a b : Nat) (h : ¬ a * b < 2 ^ 64) : cmul a b = .panic := by
  unfold cmul W; rw [if_neg h]
theorem cdiv_ok (a b : Nat) (h : b ≠ 0) : cdiv a b = .ok (a / b) := by
  unfold cdiv; rw [if_neg h]
theorem cmod_ok (a b : Nat) (h : b ≠ 0) : cmod a b = .ok (a % b) := by
  unfold cmod; rw [if_neg h]

theorem cadd8_ok (a b : UInt8) (h : a.toNat + b.toNat < 256) : cadd8 a b = .ok (a + b) := by
  unfold cadd8; rw [if_pos h]
theorem cadd8_panic (a b : UInt8) (h : ¬ a.toNat + b.toNat < 256) : cadd8 a b = .panic := by
  unfold cadd8; rw [if_neg h]

theorem toNat_add8 (a b : UInt8) (h : a.toNat + b.toNat < 256) : (a + b).toNat = a.toNat + b.toNat := by
  rw [UInt8.toNat_add]; omega

theorem asU8_toNat (n : Nat) (h : n < 256) : (asU8 n).toNat = n := by
  unfold asU8; rw [UInt8.toNat_ofNat']; omega

theorem sliceTo_ok {α : Type} (s : List α) (b : Nat) (h : b ≤ s.length) : sliceTo s b = .ok (s.take b) := by
  unfold sliceTo; rw [if_pos h]
theorem sliceFrom_ok {α : Type} (s : List α) (a : Nat) (h : a ≤ s.length) : sliceFrom s a = .ok (s.drop a) := by
  unfold sliceFrom; rw [if_pos h]
theorem arrayRef_ok {α : Type} (s : List α) (off len : Nat) (h : off + len ≤ s.length) :
    arrayRef s off len = .ok ((s.drop off).take len) := by
  unfold arrayRef; rw [if_pos h]
theorem winFrom_ok (w : Win) (a : Nat) (h : a ≤ w.len) : w.from a = .ok ⟨w.off + a, w.len - a⟩ := by
  unfold Win.from; rw [if_pos h]
theorem winTo_ok (w : Win) (b : Nat) (h : b ≤ w.len) : w.to b = .ok ⟨w.off, b⟩ := by
  unfold Win.to; rw [if_pos h]
theorem copy_ok {α : Type} (s : List α) (w : Win) (src : List α) (h : src.length = w.len) :
    copyFromSlice s w src = .ok (s.take w.off ++ src ++ s.drop (w.off + w.len)) := by
  unfold copyFromSlice; rw [if_pos h]
theorem copy_panic {α : Type} (s : List α) (w : Win) (src : List α) (h : src.length ≠ w.len) :
    copyFromSlice s w src = .panic := by
  unfold copyFromSlice; rw [if_neg h]


/-! ### bytes and words -/

theorem getD_cons_succ {α : Type} (a : α) (l : List α) (i : Nat) (d : α) : (a :: l).getD (i + 1) d = l.getD i d := by
  simp [List.getD]

theorem wordAt_shift (w : UInt32) (rest : List UInt8) (i : Nat) : wordAt (wordBytes w ++ rest) (i + 1) = wordAt rest i := by
  have e : ∀ k, (wordBytes w ++ rest).getD (4 * (i + 1) + k) 0 = rest.getD (4 * i + k) 0 := by
    intro k
    have : 4 * (i + 1) + k = (4 * i + k) + 1 + 1 + 1 + 1 := by omega
    rw [this]
    simp only [wordBytes, List.cons_append, List.nil_append, getD_cons_succ]
  have e0 := e 0
  simp only [Nat.add_zero] at e0
  simp only [wordAt, e0, e 1, e 2, e 3]

theorem wordAt_flat (ws : List UInt32) (rest : List UInt8) (i : Nat) (h : i < ws.length) :
    wordAt (ws.flatMap wordBytes ++ rest) i = ws[i] := by
  induction ws generalizing i with
  | nil => simp at h
  | cons w ws ih =>
    rw [List.flatMap_cons, List.append_assoc]
    cases i with
    | zero => simp [wordAt_wordBytes_append]
    | succ i =>
      rw [wordAt_shift]
      simp only [List.length_cons] at h
      rw [ih i (by omega)]
      simp

theorem wordsOfBytes_cat (l r : CV) : wordsOfBytes 16 (bytesOfWords l ++ bytesOfWords r) = catCV l r := by
  apply Vector.ext
  intro i hi
  simp only [wordsOfBytes, Vector.getElem_ofFn, catCV]
  have e : bytesOfWords l ++ bytesOfWords r = (l.toList ++ r.toList).flatMap wordBytes ++ [] := by
    simp [bytesOfWords, List.flatMap_append]
  rw [e, wordAt_flat _ _ i (by simp; omega)]
  rw [Vector.getElem_append]
  simp [List.getElem_append]

theorem getD_pad (xs : List UInt8) (k i : Nat) : (xs ++ List.replicate k 0).getD i 0 = xs.getD i 0 := by
  simp only [List.getD_eq_getElem?_getD]
  by_cases h : i < xs.length
  · rw [List.getElem?_append_left h]
  · have e : xs[i]? = none := List.getElem?_eq_none (by omega)
    rw [List.getElem?_append_right (by omega), e, List.getElem?_replicate]
    split <;> rfl

/-- zero padding does not change the words read from a block buffer -/
theorem wordsOfBytes_pad (n : Nat) (xs : List UInt8) (k : Nat) :
    wordsOfBytes n (xs ++ List.replicate k 0) = wordsOfBytes n xs := by
  apply Vector.ext
  intro i hi
  simp only [wordsOfBytes, Vector.getElem_ofFn, wordAt, getD_pad]

theorem u8_ofNat_toNat (x : UInt8) : UInt8.ofNat x.toNat = x := by
  apply UInt8.toNat_inj.mp
  rw [UInt8.toNat_ofNat']
  have := x.toNat_lt
  omega

/-! ### `Output` -/

/-- abstraction: the generated `Output` (block as 64 bytes, `block_len : u8`) as the model's `Node` -/
def toNode (o : Output) : Spec.Node :=
  { cv := o.input_chaining_value, block := wordsOfBytes 16 o.block, blen := o.block_len.toNat, t := o.counter, flags := o.flags }

theorem chaining_value_eq (K : Kern) (o : Output) :
    Output.chaining_value K.cip o = .ok (bytesOfWords (Rs.chain K (toNode o))) := by
  simp [Output.chaining_value, Rs.chain, toNode]

theorem root_hash_eq (K : Kern) (o : Output) :
    Output.root_hash K.cip o = .ok (Rs.rootHash K (toNode o)) := by
  simp [Output.root_hash, Rs.rootHash, toNode]
  rfl

theorem root_output_block_eq (K : Kern) (o : Output) :
    Output.root_output_block K.cxof o = .ok (bytesOfWords (Rs.rootBlock K (toNode o) o.counter)) := by
  simp [Output.root_output_block, Rs.rootBlock, toNode]
  rfl

/-- `parent_node_output` on two 32-byte children: no panic, the block is `left ++ right` -/
theorem parent_node_output_ok (l r : List UInt8) (key : CV) (flags : UInt8) (hl : l.length = 32) (hr : r.length = 32) :
    parent_node_output l r key flags
      = .ok { input_chaining_value := key, block := l ++ r, block_len := 64, counter := 0, flags := flags ||| Gen.Rs.PARENT } := by
  unfold parent_node_output
  simp only [Win.all, List.length_replicate]
  rw [winTo_ok _ 32 (by simp)]
  simp only [bind_ok]
  rw [copy_ok _ _ _ (by simpa using hl)]
  simp only [bind_ok]
  rw [winFrom_ok _ 32 (by simp [hl])]
  simp only [bind_ok]
  rw [copy_ok _ _ _ (by simp [hl, hr])]
  simp only [bind_ok, pure_ok]
  congr 2
  simp [hl]

theorem parent_node_output_eq (l r : CV) (key : CV) (flags : UInt8) :
    ∃ o, parent_node_output (bytesOfWords l) (bytesOfWords r) key flags = .ok o ∧ toNode o = Rs.parentOutput key flags l r := by
  refine ⟨_, parent_node_output_ok _ _ key flags (by rw [bytesOfWords_len]) (by rw [bytesOfWords_len]), ?_⟩
  simp only [toNode, Rs.parentOutput, wordsOfBytes_cat]
  rfl


/-! ### `ChunkState` -/

/-- abstraction: the model keeps the `buf_len` buffered bytes, the code a 64-byte array and a `u8` length -/
def absCS (g : ChunkState) : Rs.ChunkState :=
  { cv := g.cv, t := g.chunk_counter, buf := g.buf.take g.buf_len.toNat, blocks := g.blocks_compressed.toNat, flags := g.flags }

/-- representation invariant of the generated `ChunkState`: the buffer is a 64-byte array, `buf_len ≤ 64`, and
the bytes beyond `buf_len` are zero -/
structure CsInv (g : ChunkState) : Prop where
  len : g.buf.length = 64
  le : g.buf_len.toNat ≤ 64
  zero : g.buf.drop g.buf_len.toNat = List.replicate (64 - g.buf_len.toNat) 0

theorem absCS_buf_len (g : ChunkState) (hI : CsInv g) : (absCS g).buf.length = g.buf_len.toNat := by
  simp [absCS, hI.len, hI.le]

theorem u8_eq_zero_iff (x : UInt8) : x = 0 ↔ x.toNat = 0 := by
  constructor
  · intro h; subst h; rfl
  · intro h; apply UInt8.toNat_inj.mp; simpa using h

/-- the state `ChunkState::new` builds -/
def newG (key : CV) (t : Nat) (flags : UInt8) : ChunkState :=
  { cv := key, chunk_counter := t, buf := List.replicate 64 0, buf_len := 0, blocks_compressed := 0, flags := flags }

theorem cs_new_ok (key : CV) (t : Nat) (flags : UInt8) : ChunkState.new key t flags = .ok (newG key t flags) := rfl

theorem newG_abs (key : CV) (t : Nat) (flags : UInt8) : absCS (newG key t flags) = Rs.ChunkState.new key t flags := by
  simp [absCS, newG, Rs.ChunkState.new]

theorem newG_inv (key : CV) (t : Nat) (flags : UInt8) : CsInv (newG key t flags) :=
  ⟨by simp [newG], by simp [newG], by simp [newG]⟩

theorem cs_count_ok (g : ChunkState) (hI : CsInv g) : ChunkState.count g = .ok (absCS g).count := by
  have h1 := g.blocks_compressed.toNat_lt
  have h2 := g.buf_len.toNat_lt
  unfold ChunkState.count
  rw [cmul_ok _ _ (by omega)]
  simp only [bind_ok]
  rw [cadd_ok _ _ (by omega)]
  simp only [Rs.ChunkState.count, absCS_buf_len g hI]
  rfl

theorem cs_start_flag_ok (g : ChunkState) : ChunkState.start_flag g = .ok (absCS g).startFlag := by
  unfold ChunkState.start_flag Rs.ChunkState.startFlag
  by_cases h : g.blocks_compressed = 0
  · rw [if_pos h, if_pos (by simpa [absCS] using (u8_eq_zero_iff _).mp h)]; rfl
  · rw [if_neg h, if_neg (by simpa [absCS] using fun x => h ((u8_eq_zero_iff _).mpr x))]; rfl

/-- the state after `fill_buf` -/
def fillBufG (g : ChunkState) (input : List UInt8) : ChunkState :=
  { g with buf := g.buf.take g.buf_len.toNat ++ input.take (min (64 - g.buf_len.toNat) input.length)
                    ++ g.buf.drop (g.buf_len.toNat + min (64 - g.buf_len.toNat) input.length),
           buf_len := g.buf_len + asU8 (min (64 - g.buf_len.toNat) input.length) }

theorem cs_fill_buf_ok (g : ChunkState) (input : List UInt8) (hI : CsInv g) :
    ChunkState.fill_buf g input = .ok (fillBufG g input, input.drop (min (64 - g.buf_len.toNat) input.length)) := by
  have hle := hI.le
  unfold ChunkState.fill_buf
  rw [csub_ok _ _ hle]
  simp only [bind_ok]
  rw [sliceTo_ok _ _ (by omega)]
  simp only [bind_ok, Win.all]
  rw [winFrom_ok _ _ (by simp [hI.len]; omega)]
  simp only [bind_ok]
  rw [winTo_ok _ _ (by simp [hI.len]; omega)]
  simp only [bind_ok]
  rw [copy_ok _ _ _ (by simp)]
  simp only [bind_ok]
  rw [cadd8_ok _ _ (by rw [asU8_toNat _ (by omega)]; omega)]
  simp only [bind_ok]
  rw [sliceFrom_ok _ _ (by omega)]
  simp only [bind_ok, pure_ok, Nat.zero_add]
  rfl

theorem fillBufG_buf_len (g : ChunkState) (input : List UInt8) (hI : CsInv g) :
    (fillBufG g input).buf_len.toNat = g.buf_len.toNat + min (64 - g.buf_len.toNat) input.length := by
  have hle := hI.le
  simp only [fillBufG]
  rw [toNat_add8 _ _ (by rw [asU8_toNat _ (by omega)]; omega), asU8_toNat _ (by omega)]

theorem fillBufG_abs (g : ChunkState) (input : List UInt8) (hI : CsInv g) :
    absCS (fillBufG g input) = ((absCS g).fillBuf input).1 := by
  have hle := hI.le
  have hlen := hI.len
  have hb := fillBufG_buf_len g input hI
  simp only [absCS, Rs.ChunkState.fillBuf] at *
  rw [hb]
  simp only [fillBufG, List.length_take, hlen, Nat.min_eq_left hle]
  congr 1
  rw [List.append_assoc, List.take_append, List.take_append]
  simp [hlen, Nat.min_eq_left hle]
  rw [List.take_of_length_le (by simp; omega), List.take_take, Nat.min_self]

theorem fillBufG_inv (g : ChunkState) (input : List UInt8) (hI : CsInv g) : CsInv (fillBufG g input) := by
  have hle := hI.le
  have hlen := hI.len
  have hb := fillBufG_buf_len g input hI
  refine ⟨?_, by rw [hb]; omega, ?_⟩
  · simp [fillBufG, hlen]; omega
  · rw [hb]
    simp only [fillBufG]
    rw [List.append_assoc, List.drop_append, List.drop_append]
    simp [hlen, Nat.min_eq_left hle]
    have e1 : List.drop (g.buf_len.toNat + min (64 - g.buf_len.toNat) input.length) (List.take g.buf_len.toNat g.buf) = [] := by
      apply List.drop_of_length_le; simp; omega
    have e2 : g.buf.drop (g.buf_len.toNat + min (64 - g.buf_len.toNat) input.length)
        = (g.buf.drop g.buf_len.toNat).drop (min (64 - g.buf_len.toNat) input.length) := by
      rw [List.drop_drop]
    rw [e1, e2, hI.zero, List.nil_append, List.drop_replicate]
    congr 1
    omega


/-- one `compress_in_place` of a block into the chunk's chaining value, and `blocks_compressed += 1` -/
def compressG (K : Kern) (g : ChunkState) (block : List UInt8) : ChunkState :=
  { g with cv := K.cip g.cv (wordsOfBytes 16 block) 64 (UInt64.ofNat g.chunk_counter) (g.flags ||| (absCS g).startFlag),
           blocks_compressed := g.blocks_compressed + 1 }

theorem compressG_abs (K : Kern) (g : ChunkState) (block : List UInt8) (h : g.blocks_compressed.toNat < 255) :
    absCS (compressG K g block) = (absCS g).compressBlock K block := by
  simp only [absCS, compressG, Rs.ChunkState.compressBlock]
  rw [toNat_add8 _ _ (by simpa using (by omega : g.blocks_compressed.toNat + 1 < 256))]
  rfl

theorem compressG_inv (K : Kern) (g : ChunkState) (block : List UInt8) (hI : CsInv g) : CsInv (compressG K g block) :=
  ⟨hI.len, hI.le, hI.zero⟩

/-- the generated `while input.len() > BLOCK_LEN` loop is the model's `blockLoop`; it does not panic as long as
`blocks_compressed` stays within `u8` -/
theorem cs_loop_ok (K : Kern) (fuel : Nat) (g : ChunkState) (input : List UInt8) (hf : input.length < fuel) (hI : CsInv g)
    (hb : g.blocks_compressed.toNat + input.length / 64 ≤ 255) :
    ∃ g', ChunkState.update_loop K.cip fuel g input = .ok (g', ((absCS g).blockLoop K input).2) ∧
      absCS g' = ((absCS g).blockLoop K input).1 ∧ CsInv g' ∧ g'.buf = g.buf ∧ g'.buf_len = g.buf_len := by
  induction fuel generalizing g input with
  | zero => omega
  | succ fuel ih =>
    rw [ChunkState.update_loop, Rs.ChunkState.blockLoop]
    by_cases hc : input.length > 64
    · rw [if_pos hc, dif_pos hc, cs_start_flag_ok]
      simp only [bind_ok]
      rw [arrayRef_ok _ _ _ (by omega)]
      simp only [bind_ok]
      rw [cadd8_ok _ _ (by simpa using (by omega : g.blocks_compressed.toNat + 1 < 256))]
      simp only [bind_ok]
      rw [sliceFrom_ok _ _ (by omega)]
      simp only [bind_ok]
      have hlt : g.blocks_compressed.toNat < 255 := by omega
      obtain ⟨g', h1, h2, h3, h4, h5⟩ := ih (compressG K g (input.take 64)) (input.drop 64) (by simp; omega)
        (compressG_inv K g _ hI)
        (by have := compressG_abs K g (input.take 64) hlt
            have e : (compressG K g (input.take 64)).blocks_compressed.toNat = g.blocks_compressed.toNat + 1 := by
              have := congrArg Rs.ChunkState.blocks this
              simpa [absCS, Rs.ChunkState.compressBlock] using this
            rw [e]; simp; omega)
      rw [compressG_abs K g _ hlt] at h1 h2
      exact ⟨g', h1, h2, h3, h4, h5⟩
    · rw [if_neg hc, dif_neg hc]
      exact ⟨g, rfl, rfl, hI, rfl, rfl⟩


theorem update_def (K : Kern) (cs : Rs.ChunkState) (b : List UInt8) :
    cs.update K b =
      (let p : Rs.ChunkState × List UInt8 :=
        if 0 < cs.buf.length then
          (if !(cs.fillBuf b).2.isEmpty then
            ({ (cs.fillBuf b).1.compressBlock K (cs.fillBuf b).1.buf with buf := [] }, (cs.fillBuf b).2)
           else cs.fillBuf b)
        else (cs, b)
       ((p.1.blockLoop K p.2).1.fillBuf (p.1.blockLoop K p.2).2).1) := rfl

theorem u8_pos_iff (x : UInt8) : x > 0 ↔ 0 < x.toNat := by
  rw [gt_iff_lt, UInt8.lt_iff_toNat_lt]; rfl

/-- phases 2 and 3 of `update`: the block loop and the final `fill_buf` -/
theorem cs_update_tail (K : Kern) (g : ChunkState) (input : List UInt8) (hI : CsInv g)
    (hb : g.blocks_compressed.toNat + input.length / 64 ≤ 255) :
    ∃ g', (do let (self, input) ← ChunkState.update_loop K.cip (input.length + 1) g input
              let (self, _) ← ChunkState.fill_buf self input
              pure self : R ChunkState) = .ok g' ∧
      absCS g' = (((absCS g).blockLoop K input).1.fillBuf ((absCS g).blockLoop K input).2).1 ∧ CsInv g' := by
  obtain ⟨g1, h1, h2, h3, _, _⟩ := cs_loop_ok K (input.length + 1) g input (by omega) hI hb
  rw [h1]
  simp only [bind_ok]
  rw [cs_fill_buf_ok _ _ h3]
  simp only [bind_ok, pure_ok]
  exact ⟨_, rfl, by rw [fillBufG_abs _ _ h3, h2], fillBufG_inv _ _ h3⟩

/-- **`ChunkState::update` as translated = the model's `update`**, without panic, whenever the block counter
stays within `u8` (at most 255 blocks compressed) -/
theorem cs_update_ok (K : Kern) (g : ChunkState) (input : List UInt8) (hI : CsInv g)
    (hb : g.blocks_compressed.toNat + (g.buf_len.toNat + input.length) / 64 ≤ 255) :
    ∃ g', ChunkState.update K.cip g input = .ok g' ∧ absCS g' = (absCS g).update K input ∧ CsInv g' := by
  have hle := hI.le
  unfold ChunkState.update
  rw [update_def]
  by_cases h0 : g.buf_len > 0
  · have h0' : 0 < g.buf_len.toNat := (u8_pos_iff _).mp h0
    rw [if_pos h0, if_pos (by rw [absCS_buf_len g hI]; exact h0')]
    rw [cs_fill_buf_ok _ _ hI]
    simp only [bind_ok]
    have hI1 := fillBufG_inv g input hI
    have hbl := fillBufG_buf_len g input hI
    have ha := fillBufG_abs g input hI
    have hrest : ((absCS g).fillBuf input).2 = input.drop (min (64 - g.buf_len.toNat) input.length) := by
      simp [Rs.ChunkState.fillBuf, absCS_buf_len g hI]
    by_cases hr : (input.drop (min (64 - g.buf_len.toNat) input.length)).isEmpty
    · -- everything went into the buffer
      rw [hrest]
      simp only [hr, Bool.not_true, Bool.false_eq_true, if_false, bind_ok, pure_ok]
      have hlen : input.length ≤ 64 - g.buf_len.toNat := by simp at hr; omega
      have := cs_update_tail K (fillBufG g input) (input.drop (min (64 - g.buf_len.toNat) input.length)) hI1
        (by have e : (fillBufG g input).blocks_compressed = g.blocks_compressed := rfl
            rw [e]; simp; omega)
      obtain ⟨g', h1, h2, h3⟩ := this
      refine ⟨g', h1, ?_, h3⟩
      rw [h2, ha]
      have e : (absCS g).fillBuf input = (((absCS g).fillBuf input).1, input.drop (min (64 - g.buf_len.toNat) input.length)) := by
        rw [← hrest]
      rw [e]
    · -- the buffer is full and more input follows: compress it
      rw [hrest]
      have hlen : 64 - g.buf_len.toNat < input.length := by simp at hr; omega
      simp only [hr, Bool.not_false, if_true]
      rw [cs_start_flag_ok]
      simp only [bind_ok]
      have hfull : (fillBufG g input).buf_len.toNat = 64 := by rw [hbl]; omega
      have hbc : (fillBufG g input).blocks_compressed = g.blocks_compressed := rfl
      rw [cadd8_ok _ _ (by rw [hbc]; simpa using (by omega : g.blocks_compressed.toNat + 1 < 256))]
      simp only [bind_ok]
      -- the state after the compression
      let g2 : ChunkState := { compressG K (fillBufG g input) (fillBufG g input).buf with buf_len := 0, buf := List.replicate 64 0 }
      have hI2 : CsInv g2 := ⟨by simp [g2], by simp [g2], by simp [g2]⟩
      have hlt : (fillBufG g input).blocks_compressed.toNat < 255 := by rw [hbc]; omega
      have hab : absCS g2 = { ((absCS g).fillBuf input).1.compressBlock K ((absCS g).fillBuf input).1.buf with buf := [] } := by
        have e := compressG_abs K (fillBufG g input) (fillBufG g input).buf hlt
        rw [ha] at e
        have eb : ((absCS g).fillBuf input).1.buf = (fillBufG g input).buf := by
          rw [← ha]; simp only [absCS]; rw [hfull, List.take_of_length_le (by rw [hI1.len]; omega)]
        rw [eb, ← e]
        simp [absCS, g2, compressG]
      have := cs_update_tail K g2 (input.drop (min (64 - g.buf_len.toNat) input.length)) hI2
        (by have e : g2.blocks_compressed.toNat = g.blocks_compressed.toNat + 1 := by
              have := congrArg Rs.ChunkState.blocks (compressG_abs K (fillBufG g input) (fillBufG g input).buf hlt)
              simpa [absCS, Rs.ChunkState.compressBlock, g2, hbc] using this
            rw [e]; simp; omega)
      obtain ⟨g', h1, h2, h3⟩ := this
      refine ⟨g', h1, ?_, h3⟩
      rw [h2, hab]
  · have h0' : g.buf_len.toNat = 0 := by
      have : ¬ 0 < g.buf_len.toNat := fun x => h0 ((u8_pos_iff g.buf_len).mpr x)
      omega
    rw [if_neg h0, if_neg (by rw [absCS_buf_len g hI]; omega)]
    simp only [bind_ok, pure_ok]
    exact cs_update_tail K g input hI (by rw [h0'] at hb; simpa using hb)


theorem cs_output_ok (g : ChunkState) (hI : CsInv g) :
    ∃ o, ChunkState.output g = .ok o ∧ toNode o = (absCS g).output := by
  unfold ChunkState.output
  rw [cs_start_flag_ok]
  simp only [bind_ok, pure_ok]
  refine ⟨_, rfl, ?_⟩
  have e : g.buf = g.buf.take g.buf_len.toNat ++ List.replicate (64 - g.buf_len.toNat) 0 := by
    rw [← hI.zero, List.take_append_drop]
  simp only [toNode, Rs.ChunkState.output, absCS_buf_len g hI]
  congr 1
  · rw [e, wordsOfBytes_pad]; simp [absCS]

/-! #### the byte count of the model's chunk state (any kernel) -/

theorem fillBuf_count (cs : Rs.ChunkState) (b : List UInt8) (hl : cs.buf.length ≤ 64) :
    (cs.fillBuf b).1.count + (cs.fillBuf b).2.length = cs.count + b.length ∧ (cs.fillBuf b).1.buf.length ≤ 64 ∧
      (cs.fillBuf b).2.length = b.length - (64 - cs.buf.length) := by
  simp only [Rs.ChunkState.fillBuf, Rs.ChunkState.count, List.length_append, List.length_take, List.length_drop]
  omega

theorem blockLoop_count (K : Kern) (cs : Rs.ChunkState) (b : List UInt8) :
    (cs.blockLoop K b).1.count + (cs.blockLoop K b).2.length = cs.count + b.length ∧ (cs.blockLoop K b).1.buf = cs.buf ∧
      (cs.blockLoop K b).2.length ≤ 64 := by
  induction hn : b.length using Nat.strongRecOn generalizing cs b with
  | _ n ih =>
    rw [Rs.ChunkState.blockLoop]
    by_cases h : 64 < b.length
    · rw [dif_pos h]
      have := ih (b.drop 64).length (by simp; omega) (cs.compressBlock K (b.take 64)) (b.drop 64) rfl
      refine ⟨?_, this.2.1, this.2.2⟩
      rw [this.1]
      simp [Rs.ChunkState.compressBlock, Rs.ChunkState.count]
      omega
    · rw [dif_neg h]; exact ⟨by rw [hn], rfl, by simp at h; exact h⟩

/-- the model's `update` adds `b.length` to `count` and keeps the buffer within one block (any kernel) -/
theorem update_count (K : Kern) (cs : Rs.ChunkState) (b : List UInt8) (hl : cs.buf.length ≤ 64) :
    (cs.update K b).count = cs.count + b.length ∧ (cs.update K b).buf.length ≤ 64 := by
  rw [update_def]
  have key : ∀ (c : Rs.ChunkState) (r : List UInt8), c.buf.length ≤ 64 → (c.buf = [] ∨ r = []) →
      (((c.blockLoop K r).1.fillBuf (c.blockLoop K r).2).1).count = c.count + r.length ∧
      (((c.blockLoop K r).1.fillBuf (c.blockLoop K r).2).1).buf.length ≤ 64 := by
    intro c r hc hor
    have hbl := blockLoop_count K c r
    have hfb := fillBuf_count (c.blockLoop K r).1 (c.blockLoop K r).2 (by rw [hbl.2.1]; exact hc)
    refine ⟨?_, hfb.2.1⟩
    have : ((c.blockLoop K r).1.fillBuf (c.blockLoop K r).2).2.length = 0 := by
      rw [hfb.2.2, hbl.2.1]
      rcases hor with h | h
      · rw [h]; simp; have := hbl.2.2; omega
      · subst h
        have : (c.blockLoop K []).2 = [] := by rw [Rs.ChunkState.blockLoop, dif_neg (by simp)]
        rw [this]; simp
    omega
  by_cases h0 : 0 < cs.buf.length
  · simp only [if_pos h0]
    have hf := fillBuf_count cs b hl
    by_cases hr : (cs.fillBuf b).2.isEmpty
    · simp only [hr, Bool.not_true, Bool.false_eq_true, if_false]
      have e : (cs.fillBuf b).2 = [] := by simpa using hr
      have := key (cs.fillBuf b).1 (cs.fillBuf b).2 hf.2.1 (Or.inr e)
      refine ⟨?_, this.2⟩
      rw [this.1]; exact hf.1
    · simp only [hr, Bool.not_false, if_true]
      have hne : 0 < (cs.fillBuf b).2.length := by
        cases h : (cs.fillBuf b).2 with
        | nil => rw [h] at hr; simp at hr
        | cons a l => simp
      have hfull : (cs.fillBuf b).1.buf.length = 64 := by
        have := hf.2.2
        simp only [Rs.ChunkState.fillBuf, List.length_append, List.length_take] at this ⊢
        omega
      have := key { (cs.fillBuf b).1.compressBlock K (cs.fillBuf b).1.buf with buf := [] } (cs.fillBuf b).2 (by simp) (Or.inl rfl)
      refine ⟨?_, this.2⟩
      rw [this.1]
      have h1 := hf.1
      simp only [Rs.ChunkState.count, Rs.ChunkState.compressBlock, List.length_nil] at h1 ⊢
      omega
  · simp only [if_neg h0]
    have e : cs.buf = [] := List.eq_nil_of_length_eq_zero (by omega)
    exact key cs b hl (Or.inl e)

/-! #### any sequence of updates -/

/-- the generated `update` applied to a sequence of inputs -/
def updatesG (K : Kern) (g : ChunkState) : List (List UInt8) → R ChunkState
  | [] => .ok g
  | x :: xs => ChunkState.update K.cip g x >>= fun g' => updatesG K g' xs

theorem updatesG_ok (K : Kern) (xs : List (List UInt8)) (g : ChunkState) (hI : CsInv g)
    (h : (absCS g).count + xs.flatten.length ≤ 1024) :
    ∃ g', updatesG K g xs = .ok g' ∧ absCS g' = xs.foldl (fun cs x => cs.update K x) (absCS g) ∧ CsInv g' ∧
      (absCS g').count = (absCS g).count + xs.flatten.length := by
  induction xs generalizing g with
  | nil => exact ⟨g, rfl, rfl, hI, by simp⟩
  | cons x xs ih =>
    have hc : (absCS g).count = 64 * g.blocks_compressed.toNat + g.buf_len.toNat := by
      simp only [Rs.ChunkState.count, absCS_buf_len g hI]; rfl
    simp only [List.flatten_cons, List.length_append] at h
    have hle := hI.le
    obtain ⟨g1, h1, h2, h3⟩ := cs_update_ok K g x hI (by omega)
    have hcnt := (update_count K (absCS g) x (by rw [absCS_buf_len g hI]; exact hle)).1
    obtain ⟨g', h4, h5, h6, h7⟩ := ih g1 h3 (by rw [h2, hcnt]; omega)
    refine ⟨g', ?_, ?_, h6, ?_⟩
    · simp only [updatesG, h1, bind_ok]; exact h4
    · rw [h5, h2]; rfl
    · rw [h7, h2, hcnt]; simp only [List.flatten_cons, List.length_append]; omega


/-! ### `OutputReader` -/

def absR (r : OutputReader) : Rs.OutputReader := { inner := toNode r.inner, pwb := r.position_within_block.toNat }

/-- the read position of the generated reader -/
def posG (r : OutputReader) : Nat := r.inner.counter * 64 + r.position_within_block.toNat

theorem write_ok (b : MutSlice) (w : Win) (src : List UInt8) (h : src.length = w.len) :
    b.write w src = .ok { b with cur := b.cur.take w.off ++ src ++ b.cur.drop (w.off + w.len) } := by
  unfold MutSlice.write; rw [copy_ok _ _ _ h]

theorem advance_ok (b : MutSlice) (n : Nat) (h : n ≤ b.cur.length) :
    b.advance n = .ok ⟨b.done ++ b.cur.take n, b.cur.drop n⟩ := by
  unfold MutSlice.advance; rw [if_pos h]

theorem u8_eq_iff (x : UInt8) (n : Nat) (h : n < 256) : x = UInt8.ofNat n ↔ x.toNat = n := by
  constructor
  · intro e; subst e; rw [UInt8.toNat_ofNat']; omega
  · intro e; apply UInt8.toNat_inj.mp; rw [UInt8.toNat_ofNat']; omega

theorem rootBlock_len (K : Kern) (o : Spec.Node) (k : Nat) : (bytesOfWords (Rs.rootBlock K o k)).length = 64 := by
  rw [bytesOfWords_len]

/-- **`fill_one_block` as translated = the model's `fillOneBlock`**: the bytes appended to the part of the
destination left behind are the model's output, the destination advances by their number -/
theorem fill_one_block_ok (K : Kern) (r : OutputReader) (d c : List UInt8) (hp : r.position_within_block.toNat < 64)
    (hc : r.inner.counter + 1 < 2 ^ 64) :
    ∃ r', OutputReader.fill_one_block K.cxof r ⟨d, c⟩
        = .ok (r', ⟨d ++ ((absR r).fillOneBlock K c.length).1, c.drop ((absR r).fillOneBlock K c.length).1.length⟩) ∧
      absR r' = ((absR r).fillOneBlock K c.length).2 ∧ r'.position_within_block.toNat < 64 ∧
      ((absR r).fillOneBlock K c.length).1.length = min c.length (64 - r.position_within_block.toNat) ∧
      posG r' = posG r + min c.length (64 - r.position_within_block.toNat) ∧
      (r'.position_within_block.toNat = 0 ∨ c.length ≤ 64 - r.position_within_block.toNat) := by
  unfold OutputReader.fill_one_block
  rw [root_output_block_eq]
  simp only [bind_ok]
  have hbl := rootBlock_len K (toNode r.inner) r.inner.counter
  have ht : (toNode r.inner).t = r.inner.counter := rfl
  rw [sliceFrom_ok _ _ (by omega)]
  simp only [bind_ok, MutSlice.len, List.length_drop, hbl]
  rw [sliceTo_ok _ _ (by simp only [List.length_drop, hbl]; omega)]
  simp only [bind_ok, Win.all]
  rw [winTo_ok _ _ (by simp only []; omega)]
  simp only [bind_ok]
  rw [write_ok _ _ _ (by simp only [List.length_take, List.length_drop, hbl]; omega)]
  simp only [bind_ok]
  have htk : min c.length (64 - r.position_within_block.toNat) ≤ 64 := by omega
  rw [cadd8_ok _ _ (by rw [asU8_toNat _ (by omega)]; omega)]
  simp only [bind_ok]
  have hsum : (r.position_within_block + asU8 (min c.length (64 - r.position_within_block.toNat))).toNat
      = r.position_within_block.toNat + min c.length (64 - r.position_within_block.toNat) := by
    rw [toNat_add8 _ _ (by rw [asU8_toNat _ (by omega)]; omega), asU8_toNat _ (by omega)]
  have hout : ((absR r).fillOneBlock K c.length).1
      = ((bytesOfWords (Rs.rootBlock K (toNode r.inner) r.inner.counter)).drop r.position_within_block.toNat).take
          (min c.length (64 - r.position_within_block.toNat)) := by
    simp only [Rs.OutputReader.fillOneBlock, absR, List.length_drop, ht, hbl]
  have houtlen : ((absR r).fillOneBlock K c.length).1.length = min c.length (64 - r.position_within_block.toNat) := by
    rw [hout]; simp only [List.length_take, List.length_drop, hbl]; omega
  have hnew : ((absR r).fillOneBlock K c.length).2
      = if r.position_within_block.toNat + min c.length (64 - r.position_within_block.toNat) = 64
        then { inner := { toNode r.inner with t := r.inner.counter + 1 }, pwb := 0 }
        else { absR r with pwb := r.position_within_block.toNat + min c.length (64 - r.position_within_block.toNat) } := by
    simp only [Rs.OutputReader.fillOneBlock, absR, List.length_drop, ht, hbl]
  have hbuf : ∀ (x : List UInt8), x.length = min c.length (64 - r.position_within_block.toNat) →
      (List.take 0 c ++ x ++ List.drop (0 + min c.length (64 - r.position_within_block.toNat)) c).take
          (min c.length (64 - r.position_within_block.toNat)) = x ∧
      (List.take 0 c ++ x ++ List.drop (0 + min c.length (64 - r.position_within_block.toNat)) c).drop
          (min c.length (64 - r.position_within_block.toNat)) = c.drop (min c.length (64 - r.position_within_block.toNat)) := by
    intro x hx
    simp only [List.take_zero, List.nil_append, Nat.zero_add]
    rw [List.take_append_of_le_length (by omega), List.drop_append_of_le_length (by omega)]
    rw [List.take_of_length_le (by omega), List.drop_of_length_le (by omega)]
    exact ⟨rfl, rfl⟩
  have hb := hbuf (((bytesOfWords (Rs.rootBlock K (toNode r.inner) r.inner.counter)).drop r.position_within_block.toNat).take
          (min c.length (64 - r.position_within_block.toNat))) (by rw [← hout]; exact houtlen)
  by_cases h64 : r.position_within_block + asU8 (min c.length (64 - r.position_within_block.toNat)) = (64 : UInt8)
  · have h64' := (u8_eq_iff _ 64 (by omega)).mp h64
    rw [hsum] at h64'
    rw [if_pos h64]
    rw [cadd_ok _ _ hc]
    simp only [bind_ok, pure_ok]
    rw [advance_ok _ _ (by simp only [List.length_append, List.length_take, List.length_drop, hbl]; omega)]
    simp only [bind_ok]
    refine ⟨{ inner := { r.inner with counter := r.inner.counter + 1 }, position_within_block := 0 }, ?_, ?_, ?_, houtlen, ?_, ?_⟩
    · rw [houtlen, hout]
      simp only [hb.1, hb.2]
    · rw [hnew, if_pos h64']
      rfl
    · show (0 : UInt8).toNat < 64
      decide
    · show (r.inner.counter + 1) * 64 + (0 : UInt8).toNat = r.inner.counter * 64 + r.position_within_block.toNat + _
      have : (0 : UInt8).toNat = 0 := rfl
      omega
    · left; rfl
  · have h64' : ¬ (r.position_within_block.toNat + min c.length (64 - r.position_within_block.toNat) = 64) := by
      rw [← hsum]; exact fun x => h64 ((u8_eq_iff _ 64 (by omega)).mpr x)
    rw [if_neg h64]
    simp only [bind_ok, pure_ok]
    rw [advance_ok _ _ (by simp only [List.length_append, List.length_take, List.length_drop, hbl]; omega)]
    simp only [bind_ok]
    refine ⟨{ r with position_within_block := r.position_within_block + asU8 (min c.length (64 - r.position_within_block.toNat)) }, ?_, ?_, ?_, ?_, ?_, ?_⟩
    · rw [houtlen, hout]
      simp only [hb.1, hb.2]
    · rw [hnew, if_neg h64']
      simp only [absR, hsum]
    · show (r.position_within_block + asU8 (min c.length (64 - r.position_within_block.toNat))).toNat < 64
      rw [hsum]; omega
    · exact houtlen
    · show r.inner.counter * 64 + (r.position_within_block + asU8 (min c.length (64 - r.position_within_block.toNat))).toNat = _
      rw [hsum]; simp only [posG]; omega
    · right; omega


/-- contract of `Platform::xof_many` at the level of the word kernels: it writes the `n / 64` consecutive
`compress_xof` blocks with counters `t, t+1, …` (what its portable fallback loop and the SIMD kernels do) -/
def xofManyK (K : Kern) (cv : CV) (b : St) (bl : UInt8) (t : UInt64) (fl : UInt8) (n : Nat) : List UInt8 :=
  (List.range (n / 64)).flatMap fun i => bytesOfWords (K.cxof cv b bl (t + UInt64.ofNat i) fl)

theorem xofManyK_eq (K : Kern) (o : Output) (fb : Nat) :
    xofManyK K o.input_chaining_value (wordsOfBytes 16 o.block) o.block_len (UInt64.ofNat o.counter)
        (o.flags ||| Gen.Rs.ROOT) (fb * 64) = Rs.xofMany K (toNode o) o.counter fb := by
  unfold xofManyK Rs.xofMany
  rw [Nat.mul_div_cancel fb (by omega : 0 < 64)]
  congr 1
  funext i
  rw [← UInt64.ofNat_add]
  simp [Rs.rootBlock, toNode]
  rfl

theorem flatMap_len64 {α : Type} (f : α → List UInt8) (hf : ∀ a, (f a).length = 64) (l : List α) :
    (l.flatMap f).length = l.length * 64 := by
  induction l with
  | nil => rfl
  | cons a l ih => simp [List.flatMap_cons, ih, hf]; omega

theorem xofMany_len (K : Kern) (o : Spec.Node) (t n : Nat) : (Rs.xofMany K o t n).length = n * 64 := by
  unfold Rs.xofMany
  rw [flatMap_len64 _ (fun i => rootBlock_len K o (t + i))]
  simp

theorem bind_step {α β : Type} {x : R α} {f : α → R β} {a : α} (h : x = .ok a) : (x >>= f) = f a := by
  rw [h]; rfl

/-- first part of `fill`: get to a block boundary -/
theorem fill_phase1 (K : Kern) (r : OutputReader) (d c : List UInt8) (hp : r.position_within_block.toNat < 64)
    (hpos : posG r + c.length < 2 ^ 64) :
    ∃ r1, (if r.position_within_block ≠ 0 then do
              let (self, buf) ← OutputReader.fill_one_block K.cxof r ⟨d, c⟩
              pure (self, buf)
            else do
              pure (r, (⟨d, c⟩ : MutSlice)))
        = R.ok (r1, (⟨d ++ ((absR r).fillFirst K c.length).1, c.drop ((absR r).fillFirst K c.length).1.length⟩ : MutSlice)) ∧
      absR r1 = ((absR r).fillFirst K c.length).2.1 ∧
      ((absR r).fillFirst K c.length).2.2 = c.length - ((absR r).fillFirst K c.length).1.length ∧
      r1.position_within_block.toNat < 64 ∧
      posG r1 = posG r + ((absR r).fillFirst K c.length).1.length ∧
      ((absR r).fillFirst K c.length).1.length ≤ c.length ∧
      (r1.position_within_block.toNat = 0 ∨ c.length ≤ ((absR r).fillFirst K c.length).1.length) := by
  by_cases h0 : r.position_within_block ≠ 0
  · have h0' : (absR r).pwb ≠ 0 := fun x => h0 ((u8_eq_zero_iff _).mpr x)
    obtain ⟨r1, e1, e2, e3, e4, e5, e6⟩ := fill_one_block_ok K r d c hp (by simp only [posG] at hpos; omega)
    have hF : (absR r).fillFirst K c.length = (((absR r).fillOneBlock K c.length).1, ((absR r).fillOneBlock K c.length).2,
        c.length - ((absR r).fillOneBlock K c.length).1.length) := by
      simp only [Rs.OutputReader.fillFirst, if_pos h0']
    rw [if_pos h0, e1, hF]
    simp only [bind_ok, pure_ok]
    exact ⟨r1, rfl, e2, trivial, e3, by rw [e5, e4], by rw [e4]; omega, by rw [e4]; omega⟩
  · have h0' : ¬ (absR r).pwb ≠ 0 := fun x => h0 (fun y => x ((u8_eq_zero_iff _).mp y))
    have hz : r.position_within_block.toNat = 0 := by simpa [absR] using h0'
    rw [if_neg h0]
    simp only [pure_ok, Rs.OutputReader.fillFirst, if_neg h0']
    refine ⟨r, ?_, rfl, ?_, hp, ?_, ?_, Or.inl hz⟩ <;> simp

/-- middle part of `fill`: whole blocks through `xof_many` -/
theorem fill_phase2 (K : Kern) (r : OutputReader) (d c : List UInt8) (hpos : posG r + c.length < 2 ^ 64) :
    ∃ r2, (if c.length / 64 > 0 then do
              let t3 ← RsPrim.Win.to (RsPrim.Win.all c) (c.length / 64 * 64)
              let t4 ← RsPrim.MutSlice.write ⟨d, c⟩ t3 (xofManyK K r.inner.input_chaining_value (wordsOfBytes 16 r.inner.block) r.inner.block_len (UInt64.ofNat r.inner.counter) (r.inner.flags ||| Gen.Rs.ROOT) t3.len)
              let buf := t4
              let t5 ← Arith.cadd r.inner.counter (c.length / 64)
              let self := { r with inner := { r.inner with counter := t5 } }
              let t7 ← RsPrim.MutSlice.advance buf (c.length / 64 * 64)
              let buf := t7
              pure (self, buf)
            else do
              pure (r, (⟨d, c⟩ : MutSlice)))
        = R.ok (r2, (⟨d ++ ((absR r).fillMiddle K c.length).1, c.drop ((absR r).fillMiddle K c.length).1.length⟩ : MutSlice)) ∧
      absR r2 = ((absR r).fillMiddle K c.length).2.1 ∧
      ((absR r).fillMiddle K c.length).2.2 = c.length % 64 ∧
      ((absR r).fillMiddle K c.length).1.length = c.length / 64 * 64 ∧
      r2.position_within_block = r.position_within_block ∧
      posG r2 = posG r + c.length / 64 * 64 := by
  by_cases h0 : c.length / 64 > 0
  · have h0' : 0 < c.length / 64 := h0
    rw [if_pos h0]
    simp only [Win.all]
    rw [winTo_ok _ _ (by simp only []; omega)]
    simp only [bind_ok]
    have hx := xofManyK_eq K r.inner (c.length / 64)
    have hl := xofMany_len K (toNode r.inner) r.inner.counter (c.length / 64)
    rw [hx, write_ok _ _ _ (by rw [hl])]
    simp only [bind_ok]
    rw [cadd_ok _ _ (by simp only [posG] at hpos; omega)]
    simp only [bind_ok]
    rw [advance_ok _ _ (by simp only [List.length_append, List.length_take, List.length_drop, hl]; omega)]
    simp only [bind_ok, pure_ok, Rs.OutputReader.fillMiddle, if_pos h0']
    have ht : (absR r).inner.t = r.inner.counter := rfl
    have hi : (absR r).inner = toNode r.inner := rfl
    refine ⟨{ r with inner := { r.inner with counter := r.inner.counter + c.length / 64 } }, ?_, ?_, by omega, by rw [ht, hi, hl], rfl, ?_⟩
    · rw [ht, hi, hl]
      simp only [List.take_zero, List.nil_append, Nat.zero_add]
      rw [List.take_append_of_le_length (by omega), List.drop_append_of_le_length (by omega)]
      rw [List.take_of_length_le (by omega), List.drop_of_length_le (by omega)]
      rfl
    · rfl
    · simp only [posG]; omega
  · have h0' : ¬ 0 < c.length / 64 := h0
    rw [if_neg h0]
    simp only [pure_ok, Rs.OutputReader.fillMiddle, if_neg h0']
    have : c.length / 64 = 0 := by omega
    refine ⟨r, ?_, rfl, by omega, ?_, rfl, ?_⟩ <;> simp [this]

/-- last part of `fill`: a final partial block -/
theorem fill_phase3 (K : Kern) (r : OutputReader) (d c : List UInt8) (hp : r.position_within_block.toNat < 64)
    (hpos : posG r + c.length < 2 ^ 64) :
    ∃ r3, (if (!(⟨d, c⟩ : MutSlice).isEmpty) then do
              let (self, buf) ← OutputReader.fill_one_block K.cxof r ⟨d, c⟩
              pure (self, buf)
            else do
              pure (r, (⟨d, c⟩ : MutSlice)))
        = R.ok (r3, (⟨d ++ ((absR r).fillLast K c.length).1, c.drop ((absR r).fillLast K c.length).1.length⟩ : MutSlice)) ∧
      absR r3 = ((absR r).fillLast K c.length).2 ∧
      r3.position_within_block.toNat < 64 ∧
      ((absR r).fillLast K c.length).1.length = min c.length (64 - r.position_within_block.toNat) ∧
      posG r3 = posG r + ((absR r).fillLast K c.length).1.length := by
  by_cases h0 : c = []
  · subst h0
    simp only [MutSlice.isEmpty, List.isEmpty_nil, Bool.not_true, Bool.false_eq_true, if_false, pure_ok,
      Rs.OutputReader.fillLast, List.length_nil, Nat.lt_irrefl]
    refine ⟨r, ?_, rfl, hp, ?_, ?_⟩ <;> simp
  · have hpos' : 0 < c.length := List.length_pos_iff.mpr h0
    have he : (⟨d, c⟩ : MutSlice).isEmpty = false := by
      simp only [MutSlice.isEmpty]; cases c with
      | nil => exact absurd rfl h0
      | cons a l => rfl
    obtain ⟨r1, e1, e2, e3, e4, e5, e6⟩ := fill_one_block_ok K r d c hp (by simp only [posG] at hpos; omega)
    rw [he]
    simp only [Bool.not_false, if_true, e1, bind_ok, pure_ok, Rs.OutputReader.fillLast, if_pos hpos']
    exact ⟨r1, rfl, e2, e3, e4, by rw [e5, e4]⟩


/-- **`OutputReader::fill` as translated = the model's `fill`**: for a destination `done ++ cur` of which `cur`
is still to be filled, the generated code returns with `cur` empty and the model's output appended to `done` -/
theorem fill_ok (K : Kern) (r : OutputReader) (d c : List UInt8) (hp : r.position_within_block.toNat < 64)
    (hpos : posG r + c.length < 2 ^ 64) :
    ∃ r', OutputReader.fill K.cxof (xofManyK K) r ⟨d, c⟩ = .ok (r', ⟨d ++ ((absR r).fill K c.length).1, []⟩) ∧
      absR r' = ((absR r).fill K c.length).2 ∧ r'.position_within_block.toNat < 64 ∧
      ((absR r).fill K c.length).1.length = c.length ∧ posG r' = posG r + c.length := by
  unfold OutputReader.fill
  by_cases he : c = []
  · subst he
    refine ⟨r, ?_, ?_, hp, ?_, ?_⟩ <;> simp [MutSlice.isEmpty, Rs.OutputReader.fill]
  · have hne : (⟨d, c⟩ : MutSlice).isEmpty = false := by
      simp only [MutSlice.isEmpty]; cases c with
      | nil => exact absurd rfl he
      | cons a l => rfl
    have hlen : c.length ≠ 0 := fun h => he (List.eq_nil_of_length_eq_zero h)
    rw [hne]
    simp only [Bool.false_eq_true, if_false]
    have hfd : (absR r).fill K c.length =
        (((absR r).fillFirst K c.length).1 ++
          (((absR r).fillFirst K c.length).2.1.fillMiddle K ((absR r).fillFirst K c.length).2.2).1 ++
          ((((absR r).fillFirst K c.length).2.1.fillMiddle K ((absR r).fillFirst K c.length).2.2).2.1.fillLast K
            (((absR r).fillFirst K c.length).2.1.fillMiddle K ((absR r).fillFirst K c.length).2.2).2.2).1,
         ((((absR r).fillFirst K c.length).2.1.fillMiddle K ((absR r).fillFirst K c.length).2.2).2.1.fillLast K
            (((absR r).fillFirst K c.length).2.1.fillMiddle K ((absR r).fillFirst K c.length).2.2).2.2).2) := by
      simp only [Rs.OutputReader.fill, if_neg hlen]
    rw [hfd]
    -- first part
    obtain ⟨r1, e1, a1, b1, p1, q1, l1, o1⟩ := fill_phase1 K r d c hp hpos
    rw [bind_step e1]
    generalize (absR r).fillFirst K c.length = F1 at e1 a1 b1 q1 l1 o1 ⊢
    obtain ⟨out1, m1, n1⟩ := F1
    simp only [] at e1 a1 b1 q1 l1 o1 ⊢
    subst a1 b1
    simp only [MutSlice.len]
    rw [cdiv_ok _ _ (by omega)]
    simp only [bind_ok]
    rw [cmul_ok _ _ (by simp only [List.length_drop]; omega)]
    simp only [bind_ok]
    -- middle part
    have hc1 : (c.drop out1.length).length = c.length - out1.length := List.length_drop
    obtain ⟨r2, e2, a2, b2, l2, p2, q2⟩ := fill_phase2 K r1 (d ++ out1) (c.drop out1.length) (by rw [hc1]; omega)
    rw [bind_step e2]
    rw [hc1] at a2 b2 l2 q2 ⊢
    generalize (absR r1).fillMiddle K (c.length - out1.length) = F2 at a2 b2 l2 q2 ⊢
    obtain ⟨out2, m2, n2⟩ := F2
    simp only [] at a2 b2 l2 q2 ⊢
    subst a2 b2
    -- last part
    have hc2 : ((c.drop out1.length).drop out2.length).length = (c.length - out1.length) % 64 := by
      simp only [List.length_drop, l2]; omega
    obtain ⟨r3, e3, a3, p3, l3, q3⟩ := fill_phase3 K r2 (d ++ out1 ++ out2) ((c.drop out1.length).drop out2.length)
      (by rw [p2]; exact p1) (by rw [hc2]; omega)
    rw [bind_step e3]
    rw [hc2] at a3 l3 q3 ⊢
    generalize (absR r2).fillLast K ((c.length - out1.length) % 64) = F3 at a3 l3 q3 ⊢
    obtain ⟨out3, m3⟩ := F3
    simp only [] at a3 l3 q3 ⊢
    subst a3
    -- everything has been written
    have hl3 : out3.length = (c.length - out1.length) % 64 := by
      rw [l3, p2]
      rcases o1 with h | h
      · rw [h]; omega
      · have : c.length - out1.length = 0 := by omega
        rw [this]; simp
    refine ⟨r3, ?_, rfl, p3, ?_, ?_⟩
    · have : List.drop out3.length (List.drop out2.length (List.drop out1.length c)) = [] := by
        apply List.eq_nil_of_length_eq_zero; simp only [List.length_drop]; omega
      simp only [pure_ok, List.append_assoc, this]
    · simp only [List.length_append]; omega
    · omega


/-! ### `Hasher`: constructors, `reset`, `count`, finalizers, and the hazmat entry points -/

/-- abstraction: the generated `Hasher` as the model's (chaining values on the stack as words) -/
def absH (g : Hasher) : Rs.Hasher :=
  { key := g.key, cs := absCS g.chunk_state, t0 := g.initial_chunk_counter, stack := g.cv_stack.map (wordsOfBytes 8) }

/-- the state `Hasher::new_internal` builds -/
def newInternalG (key : CV) (flags : UInt8) : Hasher :=
  { key := key, chunk_state := newG key 0 flags, initial_chunk_counter := 0, cv_stack := [] }

theorem new_internal_ok (key : CV) (flags : UInt8) : Hasher.new_internal key flags = .ok (newInternalG key flags) := rfl

theorem newInternalG_abs (key : CV) (flags : UInt8) : absH (newInternalG key flags) = Rs.Hasher.newInternal key flags := by
  simp only [absH, newInternalG, Rs.Hasher.newInternal, newG_abs, List.map_nil]

theorem newInternalG_inv (key : CV) (flags : UInt8) : CsInv (newInternalG key flags).chunk_state := newG_inv key 0 flags

/-- contract of the given function `hash_all_at_once` -/
def HaoSpec (K : Kern) (sd : Nat) (hao : List UInt8 → CV → UInt8 → Output) : Prop :=
  ∀ input key flags, toNode (hao input key flags) = Rs.hashAllAtOnce K key flags sd input

theorem iv_eq : Gen.Rs.IV = Spec.IV := by decide

theorem hash_derive_key_context_ok (K : Kern) (sd : Nat) (hao : List UInt8 → CV → UInt8 → Output) (hH : HaoSpec K sd hao)
    (ctx : List UInt8) :
    hash_derive_key_context K.cip hao ctx
      = .ok (Rs.rootHash K (Rs.hashAllAtOnce K Spec.IV Spec.DERIVE_KEY_CONTEXT sd ctx)) := by
  unfold hash_derive_key_context
  rw [root_hash_eq, hH, iv_eq]
  rfl

theorem hasher_new_ok : Hasher.new = .ok (newInternalG Gen.Rs.IV 0) := rfl
theorem hasher_new_keyed_ok (key : List UInt8) :
    Hasher.new_keyed key = .ok (newInternalG (wordsOfBytes 8 key) Gen.Rs.KEYED_HASH) := rfl
theorem hasher_new_from_context_key_ok (ck : List UInt8) :
    Hasher.new_from_context_key ck = .ok (newInternalG (wordsOfBytes 8 ck) Gen.Rs.DERIVE_KEY_MATERIAL) := rfl

theorem hasher_new_derive_key_ok (K : Kern) (sd : Nat) (hao : List UInt8 → CV → UInt8 → Output) (hH : HaoSpec K sd hao)
    (ctx : List UInt8) :
    Hasher.new_derive_key K.cip hao ctx
      = .ok (newInternalG (wordsOfBytes 8 (Rs.rootHash K (Rs.hashAllAtOnce K Spec.IV Spec.DERIVE_KEY_CONTEXT sd ctx)))
          Gen.Rs.DERIVE_KEY_MATERIAL) := by
  unfold Hasher.new_derive_key
  rw [hash_derive_key_context_ok K sd hao hH]
  rfl

theorem hasher_reset_ok (g : Hasher) : Hasher.reset g = .ok (newInternalG g.key g.chunk_state.flags) := rfl

theorem hasher_count_ok (g : Hasher) (hI : CsInv g.chunk_state) : optOf (Hasher.count g) = (absH g).count? := by
  unfold Hasher.count Rs.Hasher.count?
  have hc := cs_count_ok g.chunk_state hI
  have ht : (absH g).cs.t = g.chunk_state.chunk_counter := rfl
  have h0 : (absH g).t0 = g.initial_chunk_counter := rfl
  have hcs : (absH g).cs = absCS g.chunk_state := rfl
  rw [ht, h0, hcs]
  by_cases h1 : g.initial_chunk_counter ≤ g.chunk_state.chunk_counter
  · rw [csub_ok _ _ h1]
    simp only [bind_ok]
    by_cases h2 : (g.chunk_state.chunk_counter - g.initial_chunk_counter) * 1024 < 2 ^ 64
    · rw [cmul_ok _ _ h2, hc]
      simp only [bind_ok]
      by_cases h3 : (g.chunk_state.chunk_counter - g.initial_chunk_counter) * 1024 + (absCS g.chunk_state).count < 2 ^ 64
      · rw [cadd_ok _ _ h3, if_pos ⟨h1, h3⟩]; rfl
      · rw [cadd_panic _ _ h3, if_neg (fun h => h3 h.2)]; rfl
    · rw [cmul_panic _ _ h2, if_neg (fun h => h2 (by omega))]; rfl
  · rw [csub_panic _ _ h1, if_neg (fun h => h1 h.1)]; rfl

theorem assertEq_ok (a b : Nat) (h : a = b) : Arith.assertEq a b = .ok () := by
  unfold Arith.assertEq; rw [if_pos h]
theorem assertEq_panic (a b : Nat) (h : a ≠ b) : Arith.assertEq a b = .panic := by
  unfold Arith.assertEq; rw [if_neg h]
theorem assertNe_ok (a b : Nat) (h : a ≠ b) : RsPrim.assertNe a b = .ok () := by
  unfold RsPrim.assertNe; rw [if_pos h]
theorem assertNe_panic (a b : Nat) (h : a = b) : RsPrim.assertNe a b = .panic := by
  unfold RsPrim.assertNe; rw [if_neg (by simpa using h)]

/-- contract of the given function `final_output` at one hasher state -/
def FoSpec (K : Kern) (fo : Hasher → R Output) (g : Hasher) : Prop :=
  ∃ o, fo g = .ok o ∧ toNode o = (absH g).finalOutput K

theorem hasher_finalize_ok (K : Kern) (fo : Hasher → R Output) (g : Hasher) (hfo : FoSpec K fo g) :
    optOf (Hasher.finalize K.cip fo g) = (absH g).finalize K := by
  obtain ⟨o, h1, h2⟩ := hfo
  unfold Hasher.finalize Rs.Hasher.finalize
  have h0 : (absH g).t0 = g.initial_chunk_counter := rfl
  rw [h0]
  by_cases h : g.initial_chunk_counter = 0
  · rw [assertEq_ok _ _ h, if_neg (by simpa using h)]
    simp only [bind_ok]
    rw [h1]
    simp only [bind_ok]
    rw [root_hash_eq, h2]; rfl
  · rw [assertEq_panic _ _ h, if_pos h]; rfl

theorem hasher_finalize_xof_ok (K : Kern) (fo : Hasher → R Output) (g : Hasher) (hfo : FoSpec K fo g) :
    (g.initial_chunk_counter = 0 →
      ∃ r, Hasher.finalize_xof fo g = .ok r ∧ absR r = Rs.OutputReader.new ((absH g).finalOutput K) ∧
        r.position_within_block.toNat < 64) ∧
    (g.initial_chunk_counter ≠ 0 → Hasher.finalize_xof fo g = .panic) := by
  obtain ⟨o, h1, h2⟩ := hfo
  unfold Hasher.finalize_xof
  constructor
  · intro h
    rw [assertEq_ok _ _ h]
    simp only [bind_ok]
    rw [h1]
    exact ⟨_, rfl, by simp only [absR, Rs.OutputReader.new, ← h2]; rfl, (by decide : (0 : UInt8).toNat < 64)⟩
  · intro h
    rw [assertEq_panic _ _ h]; rfl

theorem hasher_finalize_non_root_ok (K : Kern) (fo : Hasher → R Output) (g : Hasher) (hI : CsInv g.chunk_state)
    (hfo : FoSpec K fo g) :
    optOf (Hasher.finalize_non_root K.cip fo g) = ((absH g).finalizeNonRoot K).map bytesOfWords := by
  obtain ⟨o, h1, h2⟩ := hfo
  unfold Hasher.finalize_non_root Rs.Hasher.finalizeNonRoot
  have hc := hasher_count_ok g hI
  cases hcnt : Hasher.count g with
  | panic =>
    rw [hcnt] at hc
    simp only [optOf_panic] at hc
    rw [← hc]; rfl
  | ok n =>
    rw [hcnt] at hc
    simp only [optOf_ok] at hc
    rw [← hc]
    simp only [bind_ok]
    by_cases hz : n = 0
    · rw [assertNe_panic _ _ hz, if_pos hz]; rfl
    · rw [assertNe_ok _ _ hz, if_neg hz]
      simp only [bind_ok]
      rw [h1]
      simp only [bind_ok]
      rw [chaining_value_eq, h2]; rfl

theorem hasher_set_input_offset_ok (g : Hasher) (offset : Nat) (hI : CsInv g.chunk_state) :
    (optOf (Hasher.set_input_offset g offset)).map absH = (absH g).setInputOffset offset ∧
    (∀ g', Hasher.set_input_offset g offset = .ok g' → CsInv g'.chunk_state ∧ g'.key = g.key ∧ g'.cv_stack = g.cv_stack) := by
  unfold Hasher.set_input_offset Rs.Hasher.setInputOffset
  have hc := hasher_count_ok g hI
  cases hcnt : Hasher.count g with
  | panic =>
    rw [hcnt] at hc
    simp only [optOf_panic] at hc
    rw [← hc]
    simp only [bind_panic]
    exact ⟨by simp, by intro g' h; cases h⟩
  | ok n =>
    rw [hcnt] at hc
    simp only [optOf_ok] at hc
    rw [← hc]
    simp only [bind_ok]
    by_cases hz : n = 0
    · subst hz
      rw [assertEq_ok _ _ rfl]
      simp only [bind_ok]
      rw [cmod_ok _ _ (by omega)]
      simp only [bind_ok]
      by_cases hm : offset % 1024 = 0
      · rw [assertEq_ok _ _ hm, cdiv_ok _ _ (by omega)]
        simp only [bind_ok, pure_ok, optOf_ok, Option.map_some]
        rw [if_neg (by simp [hm])]
        exact ⟨rfl, by intro g' h; cases h; exact ⟨⟨hI.len, hI.le, hI.zero⟩, rfl, rfl⟩⟩
      · rw [assertEq_panic _ _ hm]
        simp only [bind_panic, optOf_panic, Option.map_none]
        rw [if_pos (Or.inr hm)]
        exact ⟨rfl, by intro g' h; cases h⟩
    · rw [assertEq_panic _ _ hz]
      simp only [bind_panic, optOf_panic, Option.map_none]
      rw [if_pos (Or.inl (by simpa using hz))]
      exact ⟨rfl, by intro g' h; cases h⟩


/-! #### hazmat: `Mode`, `merge_subtrees_*` -/

/-- the key words / flags byte the model uses for a hazmat `Mode` value -/
def keyOf : Mode → CV
  | .Hash => Spec.IV
  | .KeyedHash k => wordsOfBytes 8 k
  | .DeriveKeyMaterial ck => wordsOfBytes 8 ck

def flagsOf : Mode → UInt8
  | .Hash => 0
  | .KeyedHash _ => Spec.KEYED_HASH
  | .DeriveKeyMaterial _ => Spec.DERIVE_KEY_MATERIAL

/-- the hazmat `Mode` value of a specification mode (the context key of `derive` comes from
`hash_derive_key_context`) -/
def modeOf (K : Kern) (sd : Nat) : Spec.Mode → Mode
  | .hash => .Hash
  | .keyed k => .KeyedHash k
  | .derive ctx => .DeriveKeyMaterial (Rs.rootHash K (Rs.hashAllAtOnce K Spec.IV Spec.DERIVE_KEY_CONTEXT sd ctx))

theorem keyOf_modeOf (K : Kern) (sd : Nat) (m : Spec.Mode) :
    keyOf (modeOf K sd m) = Rs.modeKeyWords K sd m ∧ flagsOf (modeOf K sd m) = Rs.modeFlags m := by
  cases m <;> exact ⟨rfl, rfl⟩

theorem key_words_ok (m : Mode) : Mode.key_words m = .ok (keyOf m) := by
  cases m
  · show R.ok Gen.Rs.IV = _
    rw [iv_eq]; rfl
  · rfl
  · rfl

theorem flags_byte_ok (m : Mode) : Mode.flags_byte m = .ok (flagsOf m) := by
  cases m <;> rfl

theorem merge_inner_ok (l r : CV) (m : Mode) :
    ∃ o, merge_subtrees_inner (bytesOfWords l) (bytesOfWords r) m = .ok o ∧
      toNode o = Rs.parentOutput (keyOf m) (flagsOf m) l r := by
  obtain ⟨o, h1, h2⟩ := parent_node_output_eq l r (keyOf m) (flagsOf m)
  unfold merge_subtrees_inner
  rw [key_words_ok, flags_byte_ok]
  simp only [bind_ok]
  rw [h1]
  exact ⟨o, rfl, h2⟩

theorem merge_non_root_ok (K : Kern) (l r : CV) (m : Mode) :
    merge_subtrees_non_root K.cip (bytesOfWords l) (bytesOfWords r) m
      = .ok (bytesOfWords (Rs.parentCV K (keyOf m) (flagsOf m) l r)) := by
  obtain ⟨o, h1, h2⟩ := merge_inner_ok l r m
  unfold merge_subtrees_non_root
  rw [h1]
  simp only [bind_ok]
  rw [chaining_value_eq, h2]; rfl

theorem merge_root_ok (K : Kern) (l r : CV) (m : Mode) :
    merge_subtrees_root K.cip (bytesOfWords l) (bytesOfWords r) m
      = .ok (Rs.rootHash K (Rs.parentOutput (keyOf m) (flagsOf m) l r)) := by
  obtain ⟨o, h1, h2⟩ := merge_inner_ok l r m
  unfold merge_subtrees_root
  rw [h1]
  simp only [bind_ok]
  rw [root_hash_eq, h2]

theorem merge_root_xof_ok (l r : CV) (m : Mode) :
    ∃ rd, merge_subtrees_root_xof (bytesOfWords l) (bytesOfWords r) m = .ok rd ∧
      absR rd = Rs.OutputReader.new (Rs.parentOutput (keyOf m) (flagsOf m) l r) ∧ rd.position_within_block.toNat < 64 := by
  obtain ⟨o, h1, h2⟩ := merge_inner_ok l r m
  unfold merge_subtrees_root_xof
  rw [h1]
  exact ⟨_, rfl, by simp only [absR, Rs.OutputReader.new, ← h2]; rfl, (by decide : (0 : UInt8).toNat < 64)⟩

/-! #### an instance of the given function `final_output`: the generated skeleton (`Gen/Skeleton.lean`) on top of the
generated `ChunkState::output` / `count` -/

theorem wordsOfBytes_bytesOfWords {n : Nat} (v : Vector UInt32 n) : wordsOfBytes n (bytesOfWords v) = v := by
  apply Vector.ext
  intro i hi
  simp only [wordsOfBytes, Vector.getElem_ofFn]
  have e : bytesOfWords v = v.toList.flatMap wordBytes ++ [] := by simp [bytesOfWords]
  rw [e, wordAt_flat _ _ i (by simpa using hi)]
  simp

/-- a model node as a generated `Output` (block as bytes, length as `u8`) -/
def fromNode (n : Spec.Node) : Output :=
  { input_chaining_value := n.cv, block := bytesOfWords n.block, block_len := UInt8.ofNat n.blen, counter := n.t, flags := n.flags }

theorem toNode_fromNode (n : Spec.Node) (h : n.blen ≤ 64) : toNode (fromNode n) = n := by
  simp only [toNode, fromNode, wordsOfBytes_bytesOfWords, UInt8.toNat_ofNat']
  have : n.blen % 2 ^ 8 = n.blen := by omega
  rw [this]

/-- `Hasher::final_output` assembled from generated code only: `Gen.Rs.Skel.final_output` (G6) applied to the generated
`ChunkState::output` and `ChunkState::count` (G8) -/
def foSkel (K : Kern) (g : Hasher) : R Output := do
  let o ← ChunkState.output g.chunk_state
  let n ← ChunkState.count g.chunk_state
  let node ← Gen.Rs.Skel.final_output (Rs.parentOutput g.key g.chunk_state.flags) (Rs.chain K)
    (g.cv_stack.map (wordsOfBytes 8)) (toNode o) n
  pure (fromNode node)

theorem foldr_parent_blen (K : Kern) (key : CV) (flags : UInt8) (l : List CV) (out : Spec.Node) (h : out.blen ≤ 64) :
    (l.foldr (fun cv o => Rs.parentOutput key flags cv (Rs.chain K o)) out).blen ≤ 64 := by
  cases l with
  | nil => exact h
  | cons a l => simp [List.foldr, Rs.parentOutput]

theorem finalOutput_blen (K : Kern) (h : Rs.Hasher) (hb : h.cs.buf.length ≤ 64) : (h.finalOutput K).blen ≤ 64 := by
  unfold Rs.Hasher.finalOutput
  by_cases he : h.stack.isEmpty
  · rw [if_pos he]; exact hb
  · rw [if_neg he]
    by_cases hc : 0 < h.cs.count
    · simp only [hc, if_true]
      exact foldr_parent_blen K _ _ _ _ hb
    · simp only [hc, if_false]
      exact foldr_parent_blen K _ _ _ _ (by simp [Rs.parentOutput])

/-- the assembled `final_output` satisfies the contract on every state the representation invariant allows -/
theorem foSkel_spec (K : Kern) (g : Hasher) (hI : CsInv g.chunk_state)
    (hok : (absH g).stack = [] ∨ 0 < (absH g).cs.count ∨ 2 ≤ (absH g).stack.length) : FoSpec K (foSkel K) g := by
  obtain ⟨o, h1, h2⟩ := cs_output_ok g.chunk_state hI
  unfold FoSpec foSkel
  rw [h1, cs_count_ok _ hI]
  simp only [bind_ok]
  have := final_output_eq K (absH g) hok
  rw [h2]
  have e : Gen.Rs.Skel.final_output (Rs.parentOutput g.key g.chunk_state.flags) (Rs.chain K)
      (g.cv_stack.map (wordsOfBytes 8)) (absCS g.chunk_state).output (absCS g.chunk_state).count
      = .ok ((absH g).finalOutput K) := this
  rw [e]
  simp only [bind_ok, pure_ok]
  exact ⟨_, rfl, toNode_fromNode _ (finalOutput_blen K _ (by
    show (absCS g.chunk_state).buf.length ≤ 64
    rw [absCS_buf_len _ hI]; exact hI.le))⟩


/-! #### the given functions can be instantiated -/

theorem hashAllAtOnce_blen (K : Kern) (key : CV) (flags : UInt8) (sd : Nat) (input : List UInt8) :
    (Rs.hashAllAtOnce K key flags sd input).blen ≤ 64 := by
  unfold Rs.hashAllAtOnce
  split
  · exact (update_count K (Rs.ChunkState.new key 0 flags) input (by simp [Rs.ChunkState.new])).2
  · simp [Rs.parentOutput]

/-- the model's `hashAllAtOnce`, returned in the code's representation, satisfies the contract of the given function
`hash_all_at_once` -/
theorem haoSpec_model (K : Kern) (sd : Nat) :
    HaoSpec K sd (fun input key flags => fromNode (Rs.hashAllAtOnce K key flags sd input)) :=
  fun input key flags => toNode_fromNode _ (hashAllAtOnce_blen K key flags sd input)

theorem foldl_update_flatten (cs : Rs.ChunkState) (hl : cs.buf.length ≤ 64) (xs : List (List UInt8)) :
    xs.foldl (fun cs x => cs.update Kern.spec x) cs = cs.update Kern.spec xs.flatten := by
  induction xs generalizing cs with
  | nil =>
    show cs = cs.update Kern.spec []
    rw [update_eq_absorb _ _ hl, List.append_nil, absorbGo_base _ _ hl]
  | cons x xs ih =>
    simp only [List.foldl_cons, List.flatten_cons]
    rw [ih _ (update_buf_len cs x hl), update_update cs x _ hl]

end B3.Proofs.RsState
