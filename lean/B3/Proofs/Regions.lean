/-
The arithmetic regions generated from inside larger functions (Gen/Regions.lean) equal the functions
the models use: the subtree sizing of `update_with_join` / `blake3_hasher_update_base` (the shrink
loop), and the position arithmetic of `OutputReader` (`position`, `set_position`, `Seek::seek`).
-/
import B3.Gen.Regions
import B3.Proofs.Arith
import B3.Tree.Arith
import B3.Model.Rs
namespace B3.Proofs
open B3 B3.Arith

theorem half_pow_succ (e : Nat) : 2 ^ (e + 1) / 2 = 2 ^ e := by rw [Nat.pow_succ]; omega

/-- the generated Rust shrink loop, started on a power of two with enough fuel, is the model's `shrink` -/
theorem rs_shrink_loop_eq (fuel e csf : Nat) (hf : e < fuel) :
    Gen.Rs.update_shrink_loop fuel (2 ^ e) csf = .ok (Ar.shrink (2 ^ e) csf) := by
  induction fuel generalizing e with
  | zero => omega
  | succ fuel ih =>
    have hp := Nat.two_pow_pos e
    rw [Gen.Rs.update_shrink_loop, Ar.shrink]
    simp only [csub, if_pos (show 1 ≤ 2 ^ e by omega), bind]
    by_cases hm : (2 ^ e - 1) &&& csf ≠ 0
    · rw [if_pos hm, dif_pos hm]
      cases e with
      | zero => simp at hm
      | succ e =>
        simp only [cdiv, if_neg (show (2 : Nat) ≠ 0 by omega), half_pow_succ]
        exact ih e (by omega)
    · rw [if_neg hm, dif_neg hm]; rfl

theorem rs_update_subtree_len_eq (n cc : Nat) (h1 : 0 < n) (h2 : n < 2 ^ 63) (h3 : cc * 1024 < 2 ^ 64) :
    Gen.Rs.update_subtree_len n cc = .ok (Ar.shrink (Ar.lp2le n) (cc * 2 ^ 10)) := by
  have hl : Nat.log2 n < 63 := (Nat.log2_lt (by omega)).mpr h2
  unfold Gen.Rs.update_subtree_len
  rw [rs_largest_power_of_two_leq_spec n h1 h2]
  have e1 : cmul cc 1024 = .ok (cc * 1024) := by unfold cmul W; rw [if_pos h3]
  rw [e1]
  simp only [bind]
  rw [rs_shrink_loop_eq 64 (Nat.log2 n) _ (by omega)]
  rfl

/-- the C loop (unsigned wrapping arithmetic) -/
theorem c_shrink_loop_eq (fuel e csf : Nat) (hf : e < fuel) :
    Gen.C.update_shrink_loop fuel (2 ^ e) csf = .ok (Ar.shrink (2 ^ e) csf) := by
  induction fuel generalizing e with
  | zero => omega
  | succ fuel ih =>
    have hp := Nat.two_pow_pos e
    rw [Gen.C.update_shrink_loop, Ar.shrink]
    simp only [wsub, if_pos (show 1 ≤ 2 ^ e by omega), bind]
    by_cases hm : (2 ^ e - 1) &&& csf ≠ 0
    · rw [if_pos hm, dif_pos hm]
      cases e with
      | zero => simp at hm
      | succ e =>
        simp only [cdiv, if_neg (show (2 : Nat) ≠ 0 by omega), half_pow_succ]
        exact ih e (by omega)
    · rw [if_neg hm, dif_neg hm]; rfl

theorem c_update_subtree_len_eq (n cc : Nat) (h1 : 0 < n) (h2 : n < 2 ^ 64) (h3 : cc * 1024 < 2 ^ 64) :
    Gen.C.update_subtree_len n cc = .ok (Ar.shrink (Ar.lp2le n) (cc * 2 ^ 10)) := by
  have hl : Nat.log2 n < 64 := (Nat.log2_lt (by omega)).mpr h2
  unfold Gen.C.update_subtree_len
  rw [c_round_down_spec n h2, if_neg (by omega)]
  have e1 : wmul cc 1024 = .ok (cc * 1024) := by unfold wmul W; rw [if_pos h3]
  rw [e1]
  simp only [bind]
  rw [c_shrink_loop_eq 64 (Nat.log2 n) _ (by omega)]
  rfl

/-! ### OutputReader position arithmetic -/

def toGenSeek : Rs.SeekFrom → Gen.Rs.SeekFrom
  | .start x => .start x
  | .current d => .current d
  | .end d => .end d

theorem reader_position_eq (r : Rs.OutputReader) (h : r.position < 2 ^ 64) :
    Gen.Rs.reader_position r.inner.t r.pwb = .ok r.position := by
  unfold Rs.OutputReader.position at h ⊢
  unfold Gen.Rs.reader_position
  have e1 : cmul r.inner.t 64 = .ok (r.inner.t * 64) := by unfold cmul W; rw [if_pos (by omega)]
  have e2 : cadd (r.inner.t * 64) r.pwb = .ok (r.inner.t * 64 + r.pwb) := by unfold cadd W; rw [if_pos h]
  rw [e1]; simp only [bind]; rw [e2]

theorem reader_set_position_eq (r : Rs.OutputReader) (p : Nat) :
    Gen.Rs.reader_set_position p = .ok ((r.setPosition p).inner.t, (r.setPosition p).pwb) := by
  unfold Gen.Rs.reader_set_position Rs.OutputReader.setPosition
  simp only [bind, cmod, cdiv, pure]
  rw [if_neg (by omega), if_neg (by omega)]
  have : p % 64 % 256 = p % 64 := by omega
  simp only [this]

/-- the generated `Seek::seek` computes exactly the position the model's `seek` moves to (and fails
exactly when it fails) -/
theorem reader_seek_eq (r : Rs.OutputReader) (sf : Rs.SeekFrom) :
    Gen.Rs.seek r.position (toGenSeek sf) = (r.seek sf).map (fun x => x.2) := by
  have hsp : ∀ p, (r.setPosition p).position = p := by
    intro p; unfold Rs.OutputReader.setPosition Rs.OutputReader.position; simp only []; omega
  cases sf with
  | start x =>
    simp only [Gen.Rs.seek, Gen.Rs.seek_target, toGenSeek, Rs.OutputReader.seek, hsp, Int.ofNat_eq_natCast]
    by_cases h : (x : Int) < 0
    · simp only [if_pos h]; rfl
    · simp only [if_neg h]; rfl
  | current d =>
    simp only [Gen.Rs.seek, Gen.Rs.seek_target, toGenSeek, Rs.OutputReader.seek, hsp, Int.ofNat_eq_natCast]
    by_cases h : (r.position : Int) + d < 0
    · simp only [if_pos h]; rfl
    · simp only [if_neg h]; rfl
  | «end» d => rfl

end B3.Proofs
