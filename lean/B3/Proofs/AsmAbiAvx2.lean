import B3.Gen.AsmAbiAvx2Unix
import B3.Gen.AsmAbiAvx2Wgnu
import B3.Gen.AsmAbiAvx2Msvc
import B3.Asm.Abi

/-! Kernel evaluation of the checker `B3.Asm.abiOk` on the generated abstractions of the avx2 assembly files
(`decide +kernel`: the kernel itself runs the abstract interpreter). -/

namespace B3.Proofs.AsmAbi
open B3.Asm B3.Gen.AsmAbi

theorem hash_many_avx2_unix_ok : abiOk .sysv hash_many_avx2_unix = true := by decide +kernel
theorem hash_many_avx2_wgnu_ok : abiOk .win64 hash_many_avx2_wgnu = true := by decide +kernel
theorem hash_many_avx2_msvc_ok : abiOk .win64 hash_many_avx2_msvc = true := by decide +kernel

end B3.Proofs.AsmAbi
