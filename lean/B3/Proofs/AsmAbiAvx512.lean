import B3.Gen.AsmAbiAvx512Unix
import B3.Gen.AsmAbiAvx512Wgnu
import B3.Gen.AsmAbiAvx512Msvc
import B3.Asm.Abi

/-! Kernel evaluation of the checker `B3.Asm.abiOk` on the generated abstractions of the avx512 assembly files
(`decide +kernel`: the kernel itself runs the abstract interpreter). -/

namespace B3.Proofs.AsmAbi
open B3.Asm B3.Gen.AsmAbi

theorem hash_many_avx512_unix_ok : abiOk .sysv hash_many_avx512_unix = true := by decide +kernel
theorem compress_in_place_avx512_unix_ok : abiOk .sysv compress_in_place_avx512_unix = true := by decide +kernel
theorem compress_xof_avx512_unix_ok : abiOk .sysv compress_xof_avx512_unix = true := by decide +kernel
theorem xof_many_avx512_unix_ok : abiOk .sysv xof_many_avx512_unix = true := by decide +kernel
theorem hash_many_avx512_wgnu_ok : abiOk .win64 hash_many_avx512_wgnu = true := by decide +kernel
theorem compress_in_place_avx512_wgnu_ok : abiOk .win64 compress_in_place_avx512_wgnu = true := by decide +kernel
theorem compress_xof_avx512_wgnu_ok : abiOk .win64 compress_xof_avx512_wgnu = true := by decide +kernel
theorem hash_many_avx512_msvc_ok : abiOk .win64 hash_many_avx512_msvc = true := by decide +kernel
theorem compress_in_place_avx512_msvc_ok : abiOk .win64 compress_in_place_avx512_msvc = true := by decide +kernel
theorem compress_xof_avx512_msvc_ok : abiOk .win64 compress_xof_avx512_msvc = true := by decide +kernel

end B3.Proofs.AsmAbi
