/-
`blake3_hasher_update` of c/blake3.c (Gen/CState.lean) for an environment whose `compress_subtree_to_parent_node` is ANY
function meeting the contract `TpnSpecC` (on more than one chunk of input it writes the model's `toParentNode`), instead of
the model's function itself as in Proofs/CStateUpdate.lean.  The translated `compress_subtree_to_parent_node` of Gen/CWide.lean
meets the contract (Proofs/CWideTree.lean), which closes the `Env` field: `c_hasher_update_full` in Proofs/CWide.lean.

The first part shows that the translated chunk-state / CV-stack functions do not depend on that field of the environment; the
second part is the proof of Proofs/CStateUpdate.lean (`update_loop_eq'`, `k1_eq`, `hasher_update_base_eq`, `hasher_update_eq`)
with the one step that unfolds the field replaced by the contract.
-/
import B3.Proofs.CState
namespace B3.Proofs.CWide
open B3 B3.CMem B3.Gen.CState B3.Proofs.CS

/-- the environment of Proofs/CStateChunk.lean (`envOf`: kernel `K`, uninitialised memory `junk`) with the given
`compress_subtree_to_parent_node` -/
def envT (K : Kern) (sd : Nat) (junk : Nat → Nat → UInt8)
    (tpn : List UInt8 → Nat → CV → Nat → UInt8 → List UInt8 → Bool → List UInt8) : Env :=
  { envOf K sd junk with compress_subtree_to_parent_node := tpn }

/-- the contract `blake3_hasher_update` needs of `compress_subtree_to_parent_node(input, input_len, key, chunk_counter, flags,
out, use_tbb)`: for more than one chunk of input (`input_len` bytes available at `input`, counters not wrapping) it fills the
64 bytes of `out` with the two chaining values of the model's `toParentNode` -/
def TpnSpecC (K : Kern) (sd : Nat) (tpn : List UInt8 → Nat → CV → Nat → UInt8 → List UInt8 → Bool → List UInt8) : Prop :=
  ∀ (input : List UInt8) (L : Nat) (key : CV) (t : Nat) (flags : UInt8) (out : List UInt8) (tbb : Bool),
    1024 < L → L ≤ input.length → L < 2 ^ 64 → t + Hs.nchunks 10 L ≤ 2 ^ 64 → out.length = 64 →
    tpn input L key t flags out tbb = pairBytes (Rs.toParentNode K key flags sd t (input.take L))

/-- the model's function (the field of `envOf`) meets the contract -/
theorem envOf_tpn_spec (K : Kern) (sd : Nat) (junk : Nat → Nat → UInt8) :
    TpnSpecC K sd (envOf K sd junk).compress_subtree_to_parent_node := by
  intro input L key t flags out tbb _ _ _ _ ho
  show pairBytes _ ++ out.drop 64 = _
  rw [List.drop_of_length_le (by omega), List.append_nil]

section
variable (K : Kern) (sd : Nat) (junk : Nat → Nat → UInt8)
variable (tpn : List UInt8 → Nat → CV → Nat → UInt8 → List UInt8 → Bool → List UInt8)

/-! ### the chunk-state and CV-stack functions do not use the field -/

theorem ocv_T : output_chaining_value (envT K sd junk tpn) = output_chaining_value (envOf K sd junk) := rfl

theorem update_loop_T (fuel : Nat) :
    chunk_state_update_loop (envT K sd junk tpn) fuel = chunk_state_update_loop (envOf K sd junk) fuel := by
  induction fuel with
  | zero => rfl
  | succ fuel ih =>
    funext a b c
    rw [chunk_state_update_loop, chunk_state_update_loop, ih]
    rfl

theorem update_T : chunk_state_update (envT K sd junk tpn) = chunk_state_update (envOf K sd junk) := by
  funext a b c
  unfold chunk_state_update
  simp only [update_loop_T]
  rfl

theorem merge_loop_T (fuel : Nat) :
    hasher_merge_cv_stack_loop (envT K sd junk tpn) fuel = hasher_merge_cv_stack_loop (envOf K sd junk) fuel := by
  induction fuel with
  | zero => rfl
  | succ fuel ih =>
    funext a b
    rw [hasher_merge_cv_stack_loop, hasher_merge_cv_stack_loop, ih]
    rfl

theorem merge_T : hasher_merge_cv_stack (envT K sd junk tpn) = hasher_merge_cv_stack (envOf K sd junk) := by
  funext a b
  unfold hasher_merge_cv_stack
  simp only [merge_loop_T]

theorem push_T : hasher_push_cv (envT K sd junk tpn) = hasher_push_cv (envOf K sd junk) := by
  funext a b c
  unfold hasher_push_cv
  simp only [merge_T]

/-! the lemmas of Proofs/CStateChunk.lean / CStateStack.lean that are stated for `envOf`, for `envT` -/

theorem ocv_eqT (o : output_t) (cv : List UInt8) (hb : o.block.length = 64) (hc : cv.length = 32) :
    output_chaining_value (envT K sd junk tpn) o cv = .ok (bytesOfWords (Rs.chain K (nodeOf o))) := by
  rw [ocv_T]; exact ocv_eq K sd junk o cv hb hc

theorem update_eq_1024T {g : blake3_chunk_state} {cs : Rs.ChunkState} (hr : CsRel g cs) (input : List UInt8) (input_len : Nat)
    (hl : input_len ≤ input.length) (hb : cs.count + input_len ≤ 1024) :
    ∃ g', chunk_state_update (envT K sd junk tpn) g input input_len = .ok g' ∧ CsRel g' (cs.update K (input.take input_len)) := by
  rw [update_T]; exact update_eq_1024 K sd junk hr input input_len hl hb

theorem merge_eqT {g : blake3_hasher} {h : Rs.Hasher} (hr : HRel g h) (t : Nat) (ht : t ≠ 0 ∨ h.stack = []) :
    ∃ g', hasher_merge_cv_stack (envT K sd junk tpn) g t = .ok g' ∧ HRel g' (h.mergeCvStack K t) := by
  rw [merge_T]; exact merge_eq K sd junk hr t ht

theorem push_eqT {g : blake3_hasher} {h : Rs.Hasher} (hr : HRel g h) (cv : CV) (t : Nat) (ht : t ≠ 0 ∨ h.stack = [])
    (h54 : min h.stack.length (St.popcount t) ≤ 54) :
    ∃ g', hasher_push_cv (envT K sd junk tpn) g (bytesOfWords cv) t = .ok g' ∧ HRel g' (h.pushCv K cv t) := by
  rw [push_T]; exact push_eq K sd junk hr cv t ht h54

/-! ### `blake3_hasher_update_base` (the proof of Proofs/CStateUpdate.lean, the field replaced by its contract) -/

theorem update_loop_eqT (htpn : TpnSpecC K sd tpn) (tbb : Bool) (fuel : Nat) : ∀ (g : blake3_hasher) (h : Rs.Hasher) (input : List UInt8) (n : Nat),
    HRel g h → h.cs.count = 0 → n ≤ input.length → n < fuel →
    h.cs.t * 1024 + n < 2 ^ 64 → (h.cs.t = 0 → h.stack = []) →
    ∃ g' inp',
      blake3_hasher_update_base_loop (envT K sd junk tpn) fuel g n input tbb
        = .ok (g', (mloop K sd h (input.take n)).2.length, inp') ∧
      HRel g' (after h (mloop K sd h (input.take n)).1) ∧
      inp'.take (mloop K sd h (input.take n)).2.length = (mloop K sd h (input.take n)).2 ∧
      (mloop K sd h (input.take n)).2.length ≤ inp'.length ∧
      (mloop K sd h (input.take n)).2.length ≤ 1024 ∧
      (mloop K sd h (input.take n)).1.cc * 1024 + (mloop K sd h (input.take n)).2.length = h.cs.t * 1024 + n ∧
      ((mloop K sd h (input.take n)).1.cc = 0 → (mloop K sd h (input.take n)).1.stack = []) ∧
      ((mloop K sd h (input.take n)).2 = [] → 0 < n → 2 ≤ (mloop K sd h (input.take n)).1.stack.length) ∧
      (n ≤ 1024 → (mloop K sd h (input.take n)).1 = h.toH) := by
  induction fuel with
  | zero => intro g h input n _ _ _ hf; omega
  | succ fuel ih =>
    intro g h input n hr hfresh hl hf htot hzero
    have hxl : (input.take n).length = n := by rw [List.length_take]; omega
    rw [blake3_hasher_update_base_loop]
    by_cases hc : n > 1024
    · rw [if_pos hc]
      obtain ⟨k, hk1, hk2, -⟩ := Hs.subtree_len_spec 10 h.cs.t n (by rw [pow10]; exact hc)
      rw [pow10] at hk1 hk2
      have hn64 : n < 2 ^ 64 := by omega
      have hlog : Nat.log2 n < 64 := (Nat.log2_lt (by omega)).mpr hn64
      rw [c_round_down_spec n hn64, if_neg (by omega)]
      simp only [ok_bind]
      rw [hr.cs.t, hr.key, hr.cs.flags, w64mul_eq h.cs.t 1024 (tot_mul _ _ htot)]
      rw [shrink_loop2_eq _ 64 _ _ hlog]
      simp only [ok_bind]
      have hst : Ar.shrink (2 ^ Nat.log2 n) (h.cs.t * 1024) = 2 ^ k * 1024 := by
        have := hk1; unfold Ar.lp2le at this; exact this
      rw [hst]
      cases k with
      | zero =>
        have e20 : 2 ^ 0 * 1024 = 1024 := rfl
        rw [e20] at hk1 hk2 hst ⊢
        rw [if_pos (by omega)]
        have ht54 : h.cs.t < 2 ^ 54 := tot_t54 _ _ htot
        have hpre : h.cs.t ≠ 0 ∨ h.stack = [] := by
          by_cases ht : h.cs.t = 0
          · exact Or.inr (hzero ht)
          · exact Or.inl ht
        have h54 : min h.stack.length (St.popcount h.cs.t) ≤ 54 := by
          have := popcount_le_of_lt_pow 54 h.cs.t ht54; omega
        obtain ⟨c1, ec1, hc1⟩ := init_eq (envT K sd junk tpn) (blake3_chunk_state.uninit ((envT K sd junk tpn).junk 401)) h.key h.cs.flags
          (by simp [blake3_chunk_state.sized, blake3_chunk_state.uninit, uninitBytes_length])
        simp only [ec1, ok_bind]
        have hc2 := csrel_set_counter 0 h.cs.t hc1
        obtain ⟨c3, ec3, hc3⟩ := update_eq_1024T K sd junk tpn hc2 input 1024 (by omega) (by simp [Rs.ChunkState.new, Rs.ChunkState.count])
        simp only [ec3, ok_bind]
        obtain ⟨o, eo, hno, hob⟩ := output_eq (envT K sd junk tpn) hc3
        simp only [eo, ok_bind]
        rw [rd_all _ _ (uninitBytes_length _ _ _)]; simp only [ok_bind]
        rw [ocv_eqT K sd junk tpn o _ hob (uninitBytes_length _ _ _)]; simp only [ok_bind]
        rw [wr_all _ _ (by rw [bytesOfWords_length, uninitBytes_length])]; simp only [ok_bind]
        rw [rd_all _ _ (by rw [bytesOfWords_length])]; simp only [ok_bind]
        have hct : c3.chunk_counter = h.cs.t := by
          rw [hc3.t]; exact (update_shape K _ _ (by simp [Rs.ChunkState.new])).1
        rw [hct]
        obtain ⟨g2, eg2, hr2⟩ := push_eqT K sd junk tpn hr (Rs.chain K (nodeOf o)) h.cs.t hpre h54
        simp only [eg2, ok_bind, pure_ok]
        rw [ptr_ok _ _ (by omega)]; simp only [ok_bind]
        have hleaf : Rs.chain K (nodeOf o) = Rs.leafCS K h.key h.cs.flags h.cs.t (input.take 1024) := by rw [hno]; rfl
        rw [hleaf] at hr2
        have hx1 : (input.take n).take 1024 = input.take 1024 := by rw [List.take_take, Nat.min_eq_left (by omega)]
        have hx2 : (input.take n).drop 1024 = (input.drop 1024).take (n - 1024) := by rw [List.drop_take]
        have hf2 := pushCv_fields K h (Rs.leafCS K h.key h.cs.flags h.cs.t (input.take 1024)) h.cs.t
        have htoH := CS.pushCv_toH K h (Rs.leafCS K h.key h.cs.flags h.cs.t (input.take 1024)) h.cs.t
        generalize hh2 : h.pushCv K (Rs.leafCS K h.key h.cs.flags h.cs.t (input.take 1024)) h.cs.t = h2 at hr2 hf2 htoH
        obtain ⟨h', hh'⟩ : ∃ h' : Rs.Hasher, h' = { h2 with cs := { h2.cs with t := h.cs.t + 1 } } := ⟨_, rfl⟩
        have hk1' : Ar.shrink (Ar.lp2le (input.take n).length) (h.toH.cc * 2 ^ 10) = 1024 := by
          rw [hxl, pow10]; exact hk1
        have hstep : mloop K sd h (input.take n) = mloop K sd h' ((input.drop 1024).take (n - 1024)) := by
          unfold mloop
          rw [Hs.loop_step _ _ _ _ _ _ _ (by rw [hxl, pow10]; exact hc) (by rw [hk1', hxl]; omega)]
          simp only [hk1', hx1, hx2, pow10, Nat.le_refl, if_true, Nat.div_self (show 0 < 1024 by omega)]
          have e1 : h'.key = h.key := by rw [hh']; exact hf2.1
          have e2 : h'.cs.flags = h.cs.flags := by rw [hh']; show h2.cs.flags = _; rw [hf2.2.1]
          have e3 : h'.toH = { h2.toH with cc := h.toH.cc + 1 } := by rw [hh']; rfl
          rw [e1, e2, e3, htoH]
          rfl
        rw [hstep]
        have hr3 : HRel { g2 with chunk := { g2.chunk with chunk_counter := h.cs.t + 1 } } h' := by
          rw [hh']; exact hrel_set_counter hr2 (h.cs.t + 1)
        have hcc : g2.chunk.chunk_counter = h.cs.t := by rw [hr2.cs.t, hf2.2.1]
        rw [hcc, Nat.div_self (show 0 < 1024 by omega), w64add_eq _ _ (by omega), w64sub_eq _ _ (by omega)]
        have hfresh' : h'.cs.count = 0 := by
          rw [hh']; simp only [Rs.ChunkState.count, hf2.2.1]; exact hfresh
        have ht' : h'.cs.t = h.cs.t + 1 := by rw [hh']
        obtain ⟨g', inp', a1, a2, a3, a4, a5, a6, a7, a8, a9⟩ := ih _ h' (input.drop 1024) (n - 1024) hr3 hfresh'
          (by rw [List.length_drop]; omega) (by omega) (by rw [ht']; exact tot_step1 _ _ htot (by omega)) (by rw [ht']; intro h0; simp at h0)
        refine ⟨g', inp', a1, ?_, a3, a4, a5, ?_, a7, fun hn _ => a8 hn (by omega), by omega⟩
        rotate_left
        · exact tot_count h.cs.t h'.cs.t n (n - 1024) _ 1 ht' (by simp) (by omega) _ a6
        · have : after h (mloop K sd h' ((input.drop 1024).take (n - 1024))).1 = after h' (mloop K sd h' ((input.drop 1024).take (n - 1024))).1 := by
            rw [hh']; simp only [after, hf2.1, hf2.2.1, hf2.2.2.1]
          rw [this]; exact a2
      | succ k =>
        have hp := Nat.two_pow_pos k
        have e2k : 2 ^ (k + 1) = 2 * 2 ^ k := by rw [Nat.pow_succ]; omega
        obtain ⟨st, hsdef⟩ : ∃ st, 2 ^ (k + 1) * 1024 = st := ⟨_, rfl⟩
        rw [hsdef] at hk1
        rw [hsdef] at hk2
        rw [hsdef] at hst
        rw [hsdef]
        have hst1 : 1024 < st := by rw [← hsdef, e2k, Nat.mul_comm]; omega
        have hdiv : st / 1024 = 2 ^ (k + 1) := by rw [← hsdef]; exact Nat.mul_div_cancel _ (by omega)
        have hpair := tot_pair h.cs.t n (2 ^ k) htot (by rw [← e2k, hsdef]; exact hk2)
        rw [if_neg (by omega)]
        have ht54 : h.cs.t < 2 ^ 54 := tot_t54 _ _ htot
        have hpre : h.cs.t ≠ 0 ∨ h.stack = [] := by
          by_cases ht : h.cs.t = 0
          · exact Or.inr (hzero ht)
          · exact Or.inl ht
        have h54 : min h.stack.length (St.popcount h.cs.t) ≤ 54 := by
          have := popcount_le_of_lt_pow 54 h.cs.t ht54; omega
        rw [rd_all _ _ (uninitBytes_length _ _ _)]; simp only [ok_bind]
        generalize hp2 : Rs.toParentNode K h.key h.cs.flags sd h.cs.t (input.take st) = p
        have hsub : (envT K sd junk tpn).compress_subtree_to_parent_node input st h.key h.cs.t h.cs.flags
            (uninitBytes ((envT K sd junk tpn).junk 403) 0 64) tbb = bytesOfWords p.1 ++ bytesOfWords p.2 := by
          have := htpn input st h.key h.cs.t h.cs.flags (uninitBytes ((envT K sd junk tpn).junk 403) 0 64) tbb hst1 (by omega)
            (by omega) (by rw [← hsdef, ← pow10, Hs.nchunks_pow, e2k]; omega) (uninitBytes_length _ _ _)
          rw [hp2] at this
          exact this
        rw [hsub, wr_all _ _ (by simp [bytesOfWords_length, uninitBytes_length])]; simp only [ok_bind]
        rw [rd_left _ _ 32 (by rw [bytesOfWords_length])]; simp only [ok_bind]
        obtain ⟨g2, eg2, hr2⟩ := push_eqT K sd junk tpn hr p.1 h.cs.t hpre h54
        simp only [eg2, ok_bind]
        rw [rd_right _ _ 32 32 (by rw [bytesOfWords_length]) (by rw [bytesOfWords_length])]; simp only [ok_bind]
        have hf2 := pushCv_fields K h p.1 h.cs.t
        have htoH2 := CS.pushCv_toH K h p.1 h.cs.t
        generalize hh2 : h.pushCv K p.1 h.cs.t = h2 at hr2 hf2 htoH2
        have hcc2 : g2.chunk.chunk_counter = h.cs.t := by rw [hr2.cs.t, hf2.2.1]
        rw [hcc2, hdiv, half_pow_succ, w64add_eq _ _ (by omega)]
        have h54' : min h2.stack.length (St.popcount (h.cs.t + 2 ^ k)) ≤ 54 := by
          have := popcount_le_of_lt_pow 54 (h.cs.t + 2 ^ k) hpair.1; omega
        obtain ⟨g3, eg3, hr3⟩ := push_eqT K sd junk tpn hr2 p.2 (h.cs.t + 2 ^ k) (Or.inl (by omega)) h54'
        simp only [eg3, ok_bind, pure_ok]
        rw [ptr_ok _ _ (by omega)]; simp only [ok_bind]
        have hf3 := pushCv_fields K h2 p.2 (h.cs.t + 2 ^ k)
        have htoH3 := CS.pushCv_toH K h2 p.2 (h.cs.t + 2 ^ k)
        have hlen3 := pushCv_len2 K h2 p.2 (h.cs.t + 2 ^ k) hf2.2.2.2 (by omega) (by rw [hf2.2.2.1]; exact hr.t0)
        generalize hh3 : h2.pushCv K p.2 (h.cs.t + 2 ^ k) = h3 at hr3 hf3 htoH3 hlen3
        have hx1 : (input.take n).take st = input.take st := by rw [List.take_take, Nat.min_eq_left (by omega)]
        have hx2 : (input.take n).drop st = (input.drop st).take (n - st) := by rw [List.drop_take]
        obtain ⟨h', hh'⟩ : ∃ h' : Rs.Hasher, h' = { h3 with cs := { h3.cs with t := h.cs.t + 2 ^ (k + 1) } } := ⟨_, rfl⟩
        have hk1' : Ar.shrink (Ar.lp2le (input.take n).length) (h.toH.cc * 2 ^ 10) = st := by
          rw [hxl, pow10]; exact hk1
        have hstep : mloop K sd h (input.take n) = mloop K sd h' ((input.drop st).take (n - st)) := by
          unfold mloop
          rw [Hs.loop_step _ _ _ _ _ _ _ (by rw [hxl, pow10]; exact hc) (by rw [hk1', hxl]; omega)]
          simp only [hk1', hx1, hx2, pow10, hdiv, half_pow_succ]
          rw [if_neg (by omega)]
          have e1 : h'.key = h.key := by rw [hh']; show h3.key = _; rw [hf3.1, hf2.1]
          have e2 : h'.cs.flags = h.cs.flags := by rw [hh']; show h3.cs.flags = _; rw [hf3.2.1, hf2.2.1]
          have e3 : h'.toH = { h3.toH with cc := h.toH.cc + 2 ^ (k + 1) } := by rw [hh']; rfl
          rw [e1, e2, e3, htoH3, htoH2, hf2.1, hf2.2.1]
          have e4 : h.toH.cc = h.cs.t := rfl
          rw [e4, hp2]
        rw [hstep]
        have hr4 : HRel { g3 with chunk := { g3.chunk with chunk_counter := h.cs.t + 2 ^ (k + 1) } } h' := by
          rw [hh']; exact hrel_set_counter hr3 _
        have hcc3 : g3.chunk.chunk_counter = h.cs.t := by rw [hr3.cs.t, hf3.2.1, hf2.2.1]
        rw [hcc3, w64add_eq _ _ (by rw [e2k]; omega), w64sub_eq _ _ (by omega)]
        have hfresh' : h'.cs.count = 0 := by
          rw [hh']; simp only [Rs.ChunkState.count, hf3.2.1, hf2.2.1]; exact hfresh
        have ht' : h'.cs.t = h.cs.t + 2 ^ (k + 1) := by rw [hh']
        obtain ⟨g', inp', a1, a2, a3, a4, a5, a6, a7, a8, a9⟩ := ih _ h' (input.drop st) (n - st) hr4 hfresh'
          (by rw [List.length_drop]; omega) (by omega)
          (by rw [ht', ← hsdef]; exact tot_step _ _ _ htot (by rw [hsdef]; exact hk2))
          (by rw [ht']; intro h0; omega)
        refine ⟨g', inp', a1, ?_, a3, a4, a5, ?_, a7, ?_, by omega⟩
        rotate_left
        · exact tot_count h.cs.t h'.cs.t n (n - st) _ (2 ^ (k + 1)) ht' (by rw [hsdef]) (by rw [hsdef]; exact hk2) _ a6
        · intro hn _
          by_cases hz : 0 < n - st
          · exact a8 hn hz
          · rw [a9 (by omega), hh']
            exact hlen3
        · have : after h (mloop K sd h' ((input.drop st).take (n - st))).1 = after h' (mloop K sd h' ((input.drop st).take (n - st))).1 := by
            rw [hh']; simp only [after, hf3.1, hf3.2.1, hf3.2.2.1, hf2.1, hf2.2.1, hf2.2.2.1]
          rw [this]; exact a2
    · rw [if_neg hc]
      have hstop : mloop K sd h (input.take n) = (h.toH, input.take n) := by
        unfold mloop; rw [Hs.loop_stop]; rw [hxl, pow10]; exact hc
      rw [hstop]
      simp only [pure_ok, hxl]
      refine ⟨g, input, rfl, ?_, rfl, hl, by omega, rfl, hzero, ?_, by simp⟩
      · cases h; exact hr
      · intro hnil hn
        have := congrArg List.length hnil
        rw [hxl] at this; simp at this; omega

/-- phases 2 and 3 of `blake3_hasher_update_base`: the loop over whole subtrees, then the last partial chunk and the merge -/
theorem k1_eqT (htpn : TpnSpecC K sd tpn) (tbb : Bool) {g : blake3_hasher} {h : Rs.Hasher} (hr : HRel g h) (hcount : h.cs.count = 0)
    (input : List UInt8) (n : Nat) (hl : n ≤ input.length) (hn : 0 < n) (htot : h.cs.t * 1024 + n < 2 ^ 64)
    (hzero : h.cs.t = 0 → h.stack = []) :
    ∃ g', blake3_hasher_update_base_k1 (envT K sd junk tpn) g n tbb input = .ok g' ∧
      HRel g' (h.updateWhole K sd (input.take n)) ∧ Shape (h.updateWhole K sd (input.take n)) ∧
      (h.updateWhole K sd (input.take n)).cs.t * 1024 + (h.updateWhole K sd (input.take n)).cs.count = h.cs.t * 1024 + n := by
  unfold blake3_hasher_update_base_k1
  obtain ⟨g1, inp1, a1, a2, a3, a4, a5, a6, a7, a8, _⟩ := update_loop_eqT K sd junk tpn htpn tbb (n + 1) g h input n hr hcount hl (by omega) htot hzero
  simp only [a1, ok_bind]
  rw [updateWhole_def]
  generalize mloop K sd h (input.take n) = L at *
  have hblen : h.cs.buf.length ≤ 64 := hr.cs.len
  have hacount : (after h L.1).cs.count = 0 := hcount
  by_cases hrem : L.2.length > 0
  · have hne : (!L.2.isEmpty) = true := by
      cases hL : L.2 with
      | nil => rw [hL] at hrem; simp at hrem
      | cons a r => rfl
    rw [if_pos hrem, hne, if_pos rfl]
    obtain ⟨c, ec, hc⟩ := update_eq_1024T K sd junk tpn a2.cs inp1 L.2.length a4 (by rw [hacount]; omega)
    rw [a3] at hc
    simp only [ec, ok_bind]
    have hr2 := hrel_set_chunk a2 c _ hc
    have hsh := update_shape K (after h L.1).cs L.2 hblen
    obtain ⟨g3, e3, hr3⟩ := merge_eqT K sd junk tpn hr2 c.chunk_counter (by
      rw [hc.t, hsh.1]
      by_cases hz : L.1.cc = 0
      · exact Or.inr (a7 hz)
      · exact Or.inl hz)
    simp only [e3, ok_bind, pure_ok]
    rw [hc.t] at hr3
    refine ⟨g3, rfl, hr3, ⟨?_, ?_, ?_⟩, ?_⟩
    · show ((after h L.1).cs.update K L.2).count ≤ 1024
      rw [hsh.2.2.1, hacount]; omega
    · intro hz
      have hz' : L.1.cc = 0 := by rw [← hz]; exact hsh.1.symm
      show Hs.mergeStack _ _ _ (after h L.1).stack = []
      have : (after h L.1).stack = [] := a7 hz'
      rw [this, mergeStack_nil]
    · right; left
      show 0 < ((after h L.1).cs.update K L.2).count
      rw [hsh.2.2.1]; omega
    · show ((after h L.1).cs.update K L.2).t * 1024 + ((after h L.1).cs.update K L.2).count = _
      rw [hsh.1, hsh.2.2.1, hacount, Nat.zero_add]; exact a6
  · have hnil : L.2 = [] := List.eq_nil_of_length_eq_zero (by omega)
    have hne : (!L.2.isEmpty) = false := by rw [hnil]; rfl
    rw [if_neg hrem, hne, if_neg (by simp)]
    simp only [pure_ok]
    refine ⟨g1, rfl, a2, ⟨by rw [hacount]; omega, a7, Or.inr (Or.inr (a8 hnil hn))⟩, ?_⟩
    rw [hacount, ← a6, hnil]; rfl

/-- **`blake3_hasher_update_base`, as translated with data and control flow, is the model's `C.update`**, for every hasher
in the representation relation with the shape of a reachable hasher and every input that keeps the total below 2^64
bytes; the shape is re-established and the byte count advances by `input_len` -/
theorem hasher_update_base_eqT (htpn : TpnSpecC K sd tpn) (tbb : Bool) {g : blake3_hasher} {h : Rs.Hasher} (hr : HRel g h) (hs : Shape h)
    (input : List UInt8) (n : Nat) (hl : n ≤ input.length) (htot : absorbed h + n < 2 ^ 64) :
    ∃ g', blake3_hasher_update_base (envT K sd junk tpn) g input n tbb = .ok g' ∧
      HRel g' (C.update K sd h (input.take n)) ∧ Shape (C.update K sd h (input.take n)) ∧
      absorbed (C.update K sd h (input.take n)) = absorbed h + n := by
  unfold absorbed at htot ⊢
  have hxl : (input.take n).length = n := by rw [List.length_take]; omega
  have hblen : h.cs.buf.length ≤ 64 := hr.cs.len
  unfold blake3_hasher_update_base C.update
  by_cases hn0 : n = 0
  · rw [if_pos hn0, if_pos (by rw [hxl]; exact hn0)]
    exact ⟨g, rfl, hr, hs, by omega⟩
  · rw [if_neg hn0, if_neg (by rw [hxl]; exact hn0)]
    simp only [len_eq _ hr.cs, ok_bind]
    unfold Rs.Hasher.updateOk
    by_cases hcnt : 0 < h.cs.count
    · rw [if_pos hcnt, if_pos hcnt]
      have hc1024 := hs.count
      rw [w64sub_eq _ _ hc1024]
      have htake : (if 1024 - h.cs.count > n then (do let take := n; pure take : R Nat)
          else (do pure (1024 - h.cs.count) : R Nat)) = .ok (min (1024 - h.cs.count) n) := by
        by_cases hc : 1024 - h.cs.count > n
        · rw [if_pos hc, Nat.min_eq_right (by omega)]; rfl
        · rw [if_neg hc, Nat.min_eq_left (by omega)]; rfl
      simp only [htake, ok_bind, hxl]
      generalize hk : min (1024 - h.cs.count) n = k
      have hk1 : k ≤ 1024 - h.cs.count := by omega
      have hk2 : k ≤ n := by omega
      obtain ⟨c1, ec1, hc1⟩ := update_eq_1024T K sd junk tpn hr.cs input k (by omega) (by omega)
      simp only [ec1, ok_bind]
      rw [ptr_ok _ _ (by omega)]; simp only [ok_bind]
      rw [w64sub_eq _ _ hk2]
      have ex1 : (input.take n).take k = input.take k := by rw [List.take_take, Nat.min_eq_left hk2]
      have ex2 : (input.take n).drop k = (input.drop k).take (n - k) := by rw [List.drop_take]
      rw [ex1, ex2]
      have hsh := update_shape K h.cs (input.take k) hblen
      have hlk : (input.take k).length = k := by rw [List.length_take]; omega
      rw [hlk] at hsh
      have hr1 := hrel_set_chunk hr c1 _ hc1
      by_cases hrem : n - k > 0
      · have hne : (!((input.drop k).take (n - k)).isEmpty) = true := by
          cases hd : (input.drop k).take (n - k) with
          | nil => have := congrArg List.length hd; rw [List.length_take, List.length_drop] at this; simp at this; omega
          | cons a r => rfl
        rw [if_pos hrem, hne, if_pos rfl]
        have hkeq : k = 1024 - h.cs.count := by omega
        obtain ⟨o, eo, hno, hob⟩ := output_eq (envT K sd junk tpn) hc1
        simp only [eo, ok_bind]
        rw [rd_all _ _ (uninitBytes_length _ _ _)]; simp only [ok_bind]
        rw [ocv_eqT K sd junk tpn o _ hob (uninitBytes_length _ _ _)]; simp only [ok_bind]
        rw [wr_all _ _ (by rw [bytesOfWords_length, uninitBytes_length])]; simp only [ok_bind]
        rw [rd_all _ _ (by rw [bytesOfWords_length])]; simp only [ok_bind]
        rw [hno, hc1.t, hsh.1]
        have ht54 : h.cs.t < 2 ^ 54 := by omega
        obtain ⟨g2, eg2, hr2⟩ := push_eqT K sd junk tpn hr1 (Rs.chain K (h.cs.update K (input.take k)).output) h.cs.t
          (by by_cases ht : h.cs.t = 0
              · exact Or.inr (hs.zero ht)
              · exact Or.inl ht)
          (by have := popcount_le_of_lt_pow 54 h.cs.t ht54
              show min h.stack.length _ ≤ 54
              omega)
        simp only [eg2, ok_bind]
        have hf2 := pushCv_fields K ({ h with cs := h.cs.update K (input.take k) } : Rs.Hasher)
          (Rs.chain K (h.cs.update K (input.take k)).output) h.cs.t
        generalize hh2 : Rs.Hasher.pushCv K { h with cs := h.cs.update K (input.take k) }
          (Rs.chain K (h.cs.update K (input.take k)).output) h.cs.t = h2 at hr2 hf2 ⊢
        have hcc2 : g2.chunk.chunk_counter = h.cs.t := by rw [hr2.cs.t, hf2.2.1]; exact hsh.1
        have ht2 : h2.cs.t = h.cs.t := by rw [hf2.2.1]; exact hsh.1
        rw [hcc2, w64add_eq _ _ (by omega)]
        obtain ⟨c3, ec3, hc3⟩ := reset_eq (envT K sd junk tpn) g2.chunk g2.key (h.cs.t + 1) hr2.sized.1
        simp only [ec3, ok_bind]
        rw [hr2.key, hr2.cs.flags, ← ht2] at hc3
        have hr3 := hrel_set_chunk hr2 c3 _ hc3
        obtain ⟨g4, e4, hr4, hs4, hab4⟩ := k1_eqT K sd junk tpn htpn tbb hr3 rfl (input.drop k) (n - k)
          (by rw [List.length_drop]; omega) hrem
          (by show (h2.cs.t + 1) * 1024 + (n - k) < 2 ^ 64
              rw [ht2, Nat.mul_comm]; unfold Rs.ChunkState.count at *; omega)
          (by intro h0; simp [Rs.ChunkState.new] at h0)
        refine ⟨g4, e4, hr4, hs4, ?_⟩
        rw [Nat.mul_comm 1024, hab4]
        show (h2.cs.t + 1) * 1024 + (n - k) = _
        rw [ht2, Nat.mul_comm]; omega
      · have hne : (!((input.drop k).take (n - k)).isEmpty) = false := by
          have : n - k = 0 := by omega
          rw [this]; rfl
        rw [if_neg hrem, hne, if_neg (by simp)]
        simp only [pure_ok]
        refine ⟨_, rfl, hr1, ⟨?_, ?_, ?_⟩, ?_⟩
        · show (h.cs.update K (input.take k)).count ≤ 1024
          rw [hsh.2.2.1]; omega
        · intro hz
          have : h.cs.t = 0 := by rw [← hz]; exact hsh.1.symm
          exact hs.zero this
        · right; left
          show 0 < (h.cs.update K (input.take k)).count
          rw [hsh.2.2.1]; omega
        · show 1024 * (h.cs.update K (input.take k)).t + (h.cs.update K (input.take k)).count = _
          rw [hsh.1, hsh.2.2.1]; omega
    · rw [if_neg hcnt, if_neg hcnt]
      obtain ⟨g4, e4, hr4, hs4, hab4⟩ := k1_eqT K sd junk tpn htpn tbb hr (by omega) input n hl (by omega)
        (by rw [Nat.mul_comm]; omega) hs.zero
      refine ⟨g4, e4, hr4, hs4, ?_⟩
      rw [Nat.mul_comm 1024, hab4, Nat.mul_comm]; omega

/-- `blake3_hasher_update` -/
theorem hasher_update_eqT (htpn : TpnSpecC K sd tpn) {g : blake3_hasher} {h : Rs.Hasher} (hr : HRel g h) (hs : Shape h)
    (input : List UInt8) (n : Nat) (hl : n ≤ input.length) (htot : absorbed h + n < 2 ^ 64) :
    ∃ g', blake3_hasher_update (envT K sd junk tpn) g input n = .ok g' ∧
      HRel g' (C.update K sd h (input.take n)) ∧ Shape (C.update K sd h (input.take n)) ∧
      absorbed (C.update K sd h (input.take n)) = absorbed h + n := by
  unfold blake3_hasher_update
  obtain ⟨g', e, a, b, c⟩ := hasher_update_base_eqT K sd junk tpn htpn false hr hs input n hl htot
  simp only [e, ok_bind, pure_ok]
  exact ⟨g', rfl, a, b, c⟩

end

end B3.Proofs.CWide
