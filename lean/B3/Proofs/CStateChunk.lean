/-
The chunk-state and output layer of c/blake3.c as translated with data (Gen/CState.lean) equals the model
(`Rs.ChunkState.*`, `Rs.chain`, `Rs.parentOutput`) under the representation relation `CsRel` between the C struct
`blake3_chunk_state` (64-byte buffer + `buf_len`, `uint8_t` counters) and the model's `ChunkState`.
-/
import B3.Gen.CState
import B3.Model.C
import B3.Proofs.CStateMem
namespace B3.Proofs.CS
open B3 B3.CMem B3.Gen.CState

/-- the node an `output_t` denotes -/
def nodeOf (o : output_t) : Spec.Node :=
  { cv := o.input_cv, block := wordsOfBytes 16 o.block, blen := o.block_len.toNat, t := o.counter, flags := o.flags }

/-- the 64 bytes `compress_subtree_to_parent_node` writes: the two chaining values -/
def pairBytes (p : CV × CV) : List UInt8 := bytesOfWords p.1 ++ bytesOfWords p.2

/-- the parameters of the translated code, instantiated with the model's kernels: `blake3_compress_in_place` reads the
block as 16 little-endian words, `compress_subtree_to_parent_node` writes the pair of chaining values of the model's
`toParentNode` into the first 64 bytes of `out`, `output_root_bytes` writes the model's `outputRootBytes` -/
def envOf (K : Kern) (sd : Nat) (junk : Nat → Nat → UInt8) : Env where
  junk := junk
  blake3_compress_in_place cv block bl ctr fl := K.cip cv (wordsOfBytes 16 block) bl (UInt64.ofNat ctr) fl
  compress_subtree_to_parent_node input len key ctr fl out _ :=
    pairBytes (Rs.toParentNode K key fl sd ctr (input.take len)) ++ out.drop 64
  output_root_bytes o seek out len := C.outputRootBytes K (nodeOf o) seek len ++ out.drop len

/-- representation of the model's chunk state by the C struct -/
structure CsRel (g : blake3_chunk_state) (cs : Rs.ChunkState) : Prop where
  cv : g.cv = cs.cv
  t : g.chunk_counter = cs.t
  buf : g.buf = zpad cs.buf
  len : cs.buf.length ≤ 64
  buf_len : g.buf_len.toNat = cs.buf.length
  blocks : g.blocks_compressed.toNat = cs.blocks
  flags : g.flags = cs.flags

theorem CsRel.sized {g : blake3_chunk_state} {cs : Rs.ChunkState} (h : CsRel g cs) : g.buf.length = 64 := by
  rw [h.buf, zpad_length _ h.len]

section
variable (E : Env)

theorem start_flag_eq {g : blake3_chunk_state} {cs : Rs.ChunkState} (hr : CsRel g cs) :
    chunk_state_maybe_start_flag E g = .ok cs.startFlag := by
  unfold chunk_state_maybe_start_flag Rs.ChunkState.startFlag
  by_cases h : cs.blocks = 0
  · have : g.blocks_compressed = 0 := by
      apply UInt8.toNat_inj.mp; rw [hr.blocks, h]; rfl
    rw [if_pos this, if_pos h]; rfl
  · have : g.blocks_compressed ≠ 0 := by
      intro h0; apply h; rw [← hr.blocks, h0]; rfl
    rw [if_neg this, if_neg h]; rfl

theorem len_eq {g : blake3_chunk_state} {cs : Rs.ChunkState} (hr : CsRel g cs) :
    chunk_state_len E g = .ok cs.count := by
  unfold chunk_state_len Rs.ChunkState.count
  have hb := g.blocks_compressed.toNat_lt
  have hl := hr.len
  rw [hr.blocks] at hb
  rw [hr.blocks, hr.buf_len, w64mul_eq _ _ (by omega), w64add_eq _ _ (by omega)]
  rfl

/-- `chunk_state_fill_buf`: copies `min(64 - buf_len, input_len)` bytes behind the buffered ones -/
theorem fill_buf_eq {g : blake3_chunk_state} {cs : Rs.ChunkState} (hr : CsRel g cs) (input : List UInt8) (input_len : Nat)
    (hl : input_len ≤ input.length) :
    ∃ g', chunk_state_fill_buf E g input input_len = .ok (g', min (64 - cs.buf.length) input_len) ∧
      CsRel g' (cs.fillBuf (input.take input_len)).1 ∧
      (cs.fillBuf (input.take input_len)).2 = (input.take input_len).drop (min (64 - cs.buf.length) input_len) := by
  have hlen := hr.len
  have hbl := hr.buf_len
  unfold chunk_state_fill_buf
  rw [hbl, w64sub_eq _ _ hlen]
  have htake : (if 64 - cs.buf.length > input_len then (do let take := input_len; pure take : R Nat)
      else (do pure (64 - cs.buf.length) : R Nat)) = .ok (min (64 - cs.buf.length) input_len) := by
    by_cases hc : 64 - cs.buf.length > input_len
    · rw [if_pos hc, Nat.min_eq_right (by omega)]; rfl
    · rw [if_neg hc, Nat.min_eq_left (by omega)]; rfl
  simp only [htake, ok_bind]
  generalize hk : min (64 - cs.buf.length) input_len = k
  have hk1 : k ≤ 64 - cs.buf.length := by omega
  have hk2 : k ≤ input_len := by omega
  rw [memcpy_ok _ _ _ _ _ (by omega) (by rw [hr.sized]; omega)]
  simp only [ok_bind, pure_ok]
  refine ⟨_, rfl, ⟨hr.cv, hr.t, ?_, ?_, ?_, hr.blocks, hr.flags⟩, ?_⟩
  · simp only [Rs.ChunkState.fillBuf, List.length_take, Nat.min_eq_left hl, hk]
    rw [hr.buf, List.drop_zero]
    have e : (input.take input_len).take k = input.take k := by
      rw [List.take_take, Nat.min_eq_left hk2]
    rw [e]
    have hx : (input.take k).length = k := by rw [List.length_take]; omega
    have := zpad_write cs.buf (input.take k) (by omega)
    rw [hx] at this
    exact this
  · simp only [Rs.ChunkState.fillBuf, List.length_take, Nat.min_eq_left hl, hk, List.length_append]
    omega
  · simp only [Rs.ChunkState.fillBuf, List.length_take, Nat.min_eq_left hl, hk, List.length_append]
    rw [UInt8.toNat_add, hbl, u8_toNat_ofNat_lt k (by omega)]
    omega
  · simp only [Rs.ChunkState.fillBuf, List.length_take, Nat.min_eq_left hl, hk]

theorem init_eq (g : blake3_chunk_state) (key : CV) (flags : UInt8) (hs : g.sized) :
    ∃ g', chunk_state_init E g key flags = .ok g' ∧ CsRel g' (Rs.ChunkState.new key 0 flags) := by
  unfold chunk_state_init
  rw [memcpyW_32]
  simp only [ok_bind, pure_ok]
  rw [memset_all _ _ _ hs]
  exact ⟨_, rfl, rfl, rfl, rfl, by simp [Rs.ChunkState.new], rfl, rfl, rfl⟩

theorem reset_eq (g : blake3_chunk_state) (key : CV) (t : Nat) (hs : g.sized) :
    ∃ g', chunk_state_reset E g key t = .ok g' ∧ CsRel g' (Rs.ChunkState.new key t g.flags) := by
  unfold chunk_state_reset
  rw [memcpyW_32]
  simp only [ok_bind, pure_ok]
  rw [memset_all _ _ _ hs]
  exact ⟨_, rfl, rfl, rfl, rfl, by simp [Rs.ChunkState.new], rfl, rfl, rfl⟩

theorem make_output_eq (cv : CV) (block : List UInt8) (bl : UInt8) (ctr : Nat) (fl : UInt8) (hb : block.length = 64) :
    make_output E cv block bl ctr fl = .ok { input_cv := cv, counter := ctr, block := block, block_len := bl, flags := fl } := by
  unfold make_output
  simp only [memcpyW_32, ok_bind, pure_ok]
  rw [memcpy_ok _ _ _ _ _ (by omega) (by simp [output_t.uninit, uninitBytes_length])]
  simp only [ok_bind]
  congr 2
  simp [output_t.uninit, uninitBytes_length, ← hb]

theorem output_eq {g : blake3_chunk_state} {cs : Rs.ChunkState} (hr : CsRel g cs) :
    ∃ o, chunk_state_output E g = .ok o ∧ nodeOf o = cs.output ∧ o.block.length = 64 := by
  unfold chunk_state_output
  rw [start_flag_eq E hr]
  simp only [ok_bind]
  rw [rd_all _ _ hr.sized]
  simp only [ok_bind]
  rw [make_output_eq E _ _ _ _ _ hr.sized]
  refine ⟨_, rfl, ?_, hr.sized⟩
  simp only [nodeOf, Rs.ChunkState.output, hr.cv, hr.t, hr.buf, hr.buf_len, hr.flags, wordsOfBytes_zpad]
  rfl

theorem parent_output_eq (block : List UInt8) (key : CV) (flags : UInt8) (l r : CV)
    (hb : block = bytesOfWords l ++ bytesOfWords r) :
    ∃ o, parent_output E block key flags = .ok o ∧ nodeOf o = Rs.parentOutput key flags l r ∧ o.block.length = 64 := by
  have hlen : block.length = 64 := by rw [hb]; simp [bytesOfWords_length]
  unfold parent_output
  rw [rd_all _ _ hlen]
  simp only [ok_bind]
  rw [make_output_eq E _ _ _ _ _ hlen]
  refine ⟨_, rfl, ?_, hlen⟩
  simp only [nodeOf, Rs.parentOutput, hb, wordsOfBytes_pair]
  rfl

end

section
variable (K : Kern) (sd : Nat) (junk : Nat → Nat → UInt8)

/-- `output_chaining_value` writes the 32 little-endian bytes of the model's `chain` -/
theorem ocv_eq (o : output_t) (cv : List UInt8) (hb : o.block.length = 64) (hc : cv.length = 32) :
    output_chaining_value (envOf K sd junk) o cv = .ok (bytesOfWords (Rs.chain K (nodeOf o))) := by
  unfold output_chaining_value
  simp only [memcpyW_32, ok_bind, pure_ok]
  rw [rd_all _ _ hb]
  simp only [ok_bind]
  unfold store_cv_words
  rw [wr_all _ _ (by rw [bytesOfWords_length, hc])]
  simp only [ok_bind]
  simp only [envOf, Rs.chain, nodeOf, u8_ofNat_toNat]

theorem update_def (cs : Rs.ChunkState) (b : List UInt8) :
    cs.update K b =
      (let p : Rs.ChunkState × List UInt8 :=
        if 0 < cs.buf.length then
          (if !(cs.fillBuf b).2.isEmpty then
            ({ (cs.fillBuf b).1.compressBlock K (cs.fillBuf b).1.buf with buf := [] }, (cs.fillBuf b).2)
           else cs.fillBuf b)
        else (cs, b)
       ((p.1.blockLoop K p.2).1.fillBuf (p.1.blockLoop K p.2).2).1) := rfl

theorem blockLoop_stop (cs : Rs.ChunkState) (x : List UInt8) (h : ¬ 64 < x.length) : cs.blockLoop K x = (cs, x) := by
  rw [Rs.ChunkState.blockLoop, dif_neg h]

theorem blockLoop_step (cs : Rs.ChunkState) (x : List UInt8) (h : 64 < x.length) :
    cs.blockLoop K x = (cs.compressBlock K (x.take 64)).blockLoop K (x.drop 64) := by
  rw [Rs.ChunkState.blockLoop, dif_pos h]

/-- one `blake3_compress_in_place` of a block + `blocks_compressed += 1` -/
theorem compress_rel {g : blake3_chunk_state} {cs : Rs.ChunkState} (hr : CsRel g cs) (block : List UInt8) (sf : UInt8)
    (hsf : sf = cs.startFlag) (hb : cs.blocks + 1 < 256) :
    CsRel { g with cv := (envOf K sd junk).blake3_compress_in_place g.cv block 64 g.chunk_counter (g.flags ||| sf),
                   blocks_compressed := g.blocks_compressed + 1 } (cs.compressBlock K block) := by
  refine ⟨?_, hr.t, hr.buf, hr.len, hr.buf_len, ?_, hr.flags⟩
  · simp only [envOf, Rs.ChunkState.compressBlock, hr.cv, hr.t, hr.flags, hsf]
  · simp only [Rs.ChunkState.compressBlock]
    rw [UInt8.toNat_add, hr.blocks]
    have : (1 : UInt8).toNat = 1 := rfl
    rw [this]; omega

/-- the `while (input_len > BLAKE3_BLOCK_LEN)` loop of `chunk_state_update` is the model's `blockLoop` -/
theorem update_loop_eq (fuel : Nat) : ∀ (g : blake3_chunk_state) (cs : Rs.ChunkState) (input : List UInt8) (input_len : Nat),
    CsRel g cs → input_len ≤ input.length → input_len < fuel → cs.blocks + input_len / 64 < 256 →
    ∃ g' inp', chunk_state_update_loop (envOf K sd junk) fuel g input input_len
        = .ok (g', inp', (cs.blockLoop K (input.take input_len)).2.length) ∧
      CsRel g' (cs.blockLoop K (input.take input_len)).1 ∧
      inp'.take (cs.blockLoop K (input.take input_len)).2.length = (cs.blockLoop K (input.take input_len)).2 ∧
      (cs.blockLoop K (input.take input_len)).2.length ≤ inp'.length ∧
      (cs.blockLoop K (input.take input_len)).1.blocks + (cs.blockLoop K (input.take input_len)).2.length / 64 < 256 := by
  induction fuel with
  | zero => intro g cs input input_len _ _ hf; omega
  | succ fuel ih =>
    intro g cs input input_len hr hl hf hb
    rw [chunk_state_update_loop]
    have hxl : (input.take input_len).length = input_len := by rw [List.length_take]; omega
    by_cases hc : input_len > 64
    · rw [if_pos hc, rd_take _ _ (by omega)]
      simp only [ok_bind, start_flag_eq _ hr]
      rw [ptr_ok _ _ (by omega)]
      simp only [ok_bind]
      rw [w64sub_eq _ _ (by omega)]
      rw [blockLoop_step K _ _ (by rw [hxl]; exact hc)]
      have e1 : (input.take input_len).take 64 = input.take 64 := by
        rw [List.take_take, Nat.min_eq_left (by omega)]
      have e2 : (input.take input_len).drop 64 = (input.drop 64).take (input_len - 64) := by
        rw [List.drop_take]
      rw [e1, e2]
      have hr' := compress_rel K sd junk hr (input.take 64) cs.startFlag rfl (by omega)
      exact ih _ _ (input.drop 64) (input_len - 64) hr' (by rw [List.length_drop]; omega) (by omega)
        (by simp only [Rs.ChunkState.compressBlock]; omega)
    · rw [if_neg hc, blockLoop_stop K _ _ (by rw [hxl]; exact hc)]
      simp only [pure_ok]
      exact ⟨g, input, by rw [hxl], hr, by rw [hxl], by rw [hxl]; exact hl, by rw [hxl]; exact hb⟩

/-- **`chunk_state_update`, as translated with its data, is the model's `ChunkState::update`**: for every chunk state in
the representation relation and every input of `input_len` bytes, as long as `blocks_compressed` (a `uint8_t`) does not
wrap around - which holds whenever the chunk stays within 1024 bytes (`update_eq_1024`) -/
theorem update_eq {g : blake3_chunk_state} {cs : Rs.ChunkState} (hr : CsRel g cs) (input : List UInt8) (input_len : Nat)
    (hl : input_len ≤ input.length) (hb : cs.blocks + (cs.buf.length + input_len) / 64 < 256) :
    ∃ g', chunk_state_update (envOf K sd junk) g input input_len = .ok g' ∧ CsRel g' (cs.update K (input.take input_len)) := by
  have hlen := hr.len
  rw [update_def]
  unfold chunk_state_update
  have hxl : (input.take input_len).length = input_len := by rw [List.length_take]; omega
  generalize hx : input.take input_len = x at *
  by_cases hpos : 0 < cs.buf.length
  · have hg : g.buf_len > 0 := by
      show (0 : UInt8) < g.buf_len
      rw [UInt8.lt_iff_toNat_lt, hr.buf_len]; exact hpos
    rw [if_pos hg, if_pos hpos]
    obtain ⟨g1, e1, hr1, hrest⟩ := fill_buf_eq (envOf K sd junk) hr input input_len hl
    rw [hx] at hr1 hrest
    generalize hk : min (64 - cs.buf.length) input_len = k at *
    have hk1 : k ≤ 64 - cs.buf.length := by omega
    have hk2 : k ≤ input_len := by omega
    simp only [e1, ok_bind]
    rw [ptr_ok _ _ (by omega)]
    simp only [ok_bind]
    rw [w64sub_eq _ _ hk2]
    have hlen1 : (cs.fillBuf x).1.buf.length = cs.buf.length + k := by
      simp only [Rs.ChunkState.fillBuf, List.length_append, List.length_take, hxl]
      omega
    have hblk1 : (cs.fillBuf x).1.blocks = cs.blocks := rfl
    by_cases hrem : input_len - k > 0
    · -- the buffer is full and more input follows: compress it
      have hne : (!(cs.fillBuf x).2.isEmpty) = true := by
        rw [hrest]
        cases hd : x.drop k with
        | nil => have := congrArg List.length hd; rw [List.length_drop, hxl] at this; simp at this; omega
        | cons a r => rfl
      rw [if_pos hrem, hne, if_pos rfl]
      have hfull : (cs.fillBuf x).1.buf.length = 64 := by omega
      rw [rd_all _ _ hr1.sized]
      simp only [ok_bind, start_flag_eq _ hr1]
      rw [memset_all _ _ _ (by simpa using hr1.sized)]
      simp only [ok_bind, pure_ok]
      have hr2 := compress_rel K sd junk hr1 g1.buf (cs.fillBuf x).1.startFlag rfl (by omega)
      have hr2' : CsRel { g1 with cv := (envOf K sd junk).blake3_compress_in_place g1.cv g1.buf 64 g1.chunk_counter (g1.flags ||| (cs.fillBuf x).1.startFlag), blocks_compressed := g1.blocks_compressed + 1, buf_len := 0, buf := List.replicate 64 0 }
          ({ (cs.fillBuf x).1.compressBlock K (cs.fillBuf x).1.buf with buf := [] } : Rs.ChunkState) := by
        refine ⟨?_, hr2.t, rfl, by simp, rfl, hr2.blocks, hr2.flags⟩
        have := hr2.cv
        simp only [envOf, Rs.ChunkState.compressBlock] at this ⊢
        rw [this, hr1.buf, wordsOfBytes_zpad]
      obtain ⟨g3, inp3, e3, hr3, ht3, hl3, hb3⟩ := update_loop_eq K sd junk (input_len - k + 1) _ _ (input.drop k) (input_len - k) hr2'
        (by rw [List.length_drop]; omega) (by omega)
        (by simp only [Rs.ChunkState.compressBlock, hblk1]; omega)
      have e4 : (input.drop k).take (input_len - k) = x.drop k := by rw [← hx, List.drop_take]
      rw [e4, ← hrest] at e3 hr3 ht3 hl3 hb3
      simp only [e3, ok_bind]
      obtain ⟨g4, e5, hr4, _⟩ := fill_buf_eq (envOf K sd junk) hr3 inp3 _ hl3
      rw [ht3] at hr4
      simp only [e5, ok_bind]
      exact ⟨g4, rfl, hr4⟩
    · -- everything went into the buffer
      have hnil : x.drop k = [] := by
        apply List.eq_nil_of_length_eq_zero; rw [List.length_drop, hxl]; omega
      have hne : (!(cs.fillBuf x).2.isEmpty) = false := by rw [hrest, hnil]; rfl
      rw [if_neg hrem, hne, if_neg (by simp)]
      simp only [ok_bind, pure_ok]
      have h0 : input_len - k = 0 := by omega
      obtain ⟨g3, inp3, e3, hr3, ht3, hl3, hb3⟩ := update_loop_eq K sd junk (input_len - k + 1) _ _ (input.drop k) (input_len - k) hr1
        (by rw [List.length_drop]; omega) (by omega) (by rw [hblk1]; omega)
      have e4 : (input.drop k).take (input_len - k) = (cs.fillBuf x).2 := by rw [hrest, ← hx, List.drop_take]
      rw [e4] at e3 hr3 ht3 hl3 hb3
      simp only [e3, ok_bind]
      obtain ⟨g4, e5, hr4, _⟩ := fill_buf_eq (envOf K sd junk) hr3 inp3 _ hl3
      rw [ht3] at hr4
      simp only [e5, ok_bind]
      exact ⟨g4, rfl, hr4⟩
  · have hg : ¬ g.buf_len > 0 := by
      show ¬ (0 : UInt8) < g.buf_len
      rw [UInt8.lt_iff_toNat_lt, hr.buf_len]; exact hpos
    rw [if_neg hg, if_neg hpos]
    simp only [ok_bind, pure_ok]
    obtain ⟨g3, inp3, e3, hr3, ht3, hl3, hb3⟩ := update_loop_eq K sd junk (input_len + 1) _ _ input input_len hr hl (by omega) (by omega)
    rw [hx] at e3 hr3 ht3 hl3 hb3
    simp only [e3, ok_bind]
    obtain ⟨g4, e5, hr4, _⟩ := fill_buf_eq (envOf K sd junk) hr3 inp3 _ hl3
    rw [ht3] at hr4
    simp only [e5, ok_bind]
    exact ⟨g4, rfl, hr4⟩

/-- for a chunk that stays within 1024 bytes `blocks_compressed` never exceeds 16 -/
theorem update_eq_1024 {g : blake3_chunk_state} {cs : Rs.ChunkState} (hr : CsRel g cs) (input : List UInt8) (input_len : Nat)
    (hl : input_len ≤ input.length) (hb : cs.count + input_len ≤ 1024) :
    ∃ g', chunk_state_update (envOf K sd junk) g input input_len = .ok g' ∧ CsRel g' (cs.update K (input.take input_len)) :=
  update_eq K sd junk hr input input_len hl (by unfold Rs.ChunkState.count at hb; omega)

/-! ### shape of the model's chunk state (for any kernel) -/

theorem blockLoop_shape (cs : Rs.ChunkState) (x : List UInt8) :
    (cs.blockLoop K x).1.t = cs.t ∧ (cs.blockLoop K x).1.flags = cs.flags ∧ (cs.blockLoop K x).1.buf = cs.buf ∧
    64 * (cs.blockLoop K x).1.blocks + (cs.blockLoop K x).2.length = 64 * cs.blocks + x.length ∧
    (cs.blockLoop K x).2.length ≤ 64 := by
  induction hn : x.length using Nat.strongRecOn generalizing cs x with
  | _ n ih =>
    by_cases h : 64 < x.length
    · rw [blockLoop_step K _ _ h]
      obtain ⟨a, b, c, d, e⟩ := ih (x.drop 64).length (by rw [List.length_drop]; omega) (cs.compressBlock K (x.take 64)) (x.drop 64) rfl
      refine ⟨a, b, c, ?_, e⟩
      rw [d]; simp only [Rs.ChunkState.compressBlock, List.length_drop]; omega
    · rw [blockLoop_stop K _ _ h]
      exact ⟨rfl, rfl, rfl, by simp only [hn], by simp only []; omega⟩

theorem update_shape (cs : Rs.ChunkState) (x : List UInt8) (hl : cs.buf.length ≤ 64) :
    (cs.update K x).t = cs.t ∧ (cs.update K x).flags = cs.flags ∧ (cs.update K x).count = cs.count + x.length ∧
    (cs.update K x).buf.length ≤ 64 := by
  rw [update_def]
  have hfill : ∀ (c : Rs.ChunkState) (y : List UInt8), c.buf.length + y.length ≤ 64 →
      (c.fillBuf y).1.t = c.t ∧ (c.fillBuf y).1.flags = c.flags ∧ (c.fillBuf y).1.blocks = c.blocks ∧
      (c.fillBuf y).1.buf.length = c.buf.length + y.length := by
    intro c y hy
    refine ⟨rfl, rfl, rfl, ?_⟩
    simp only [Rs.ChunkState.fillBuf, List.length_append, List.length_take]
    omega
  by_cases hpos : 0 < cs.buf.length
  · rw [if_pos hpos]
    generalize hk : min (64 - cs.buf.length) x.length = k
    have f1 : (cs.fillBuf x).1 = { cs with buf := cs.buf ++ x.take k } := by simp only [Rs.ChunkState.fillBuf, hk]
    have f2 : (cs.fillBuf x).2 = x.drop k := by simp only [Rs.ChunkState.fillBuf, hk]
    by_cases hrem : k < x.length
    · have hne : (!(cs.fillBuf x).2.isEmpty) = true := by
        rw [f2]
        cases hd : x.drop k with
        | nil => have := congrArg List.length hd; rw [List.length_drop] at this; simp at this; omega
        | cons a r => rfl
      rw [hne, if_pos rfl]
      simp only []
      obtain ⟨a, b, c, d, e⟩ := blockLoop_shape K ({ (cs.fillBuf x).1.compressBlock K (cs.fillBuf x).1.buf with buf := [] } : Rs.ChunkState) (cs.fillBuf x).2
      obtain ⟨p, q, r, t⟩ := hfill _ _ (by rw [c]; simpa using e)
      refine ⟨by rw [p, a]; rfl, by rw [q, b]; rfl, ?_, by rw [t, c]; simpa using e⟩
      unfold Rs.ChunkState.count
      rw [t, r, c]
      simp only [Rs.ChunkState.compressBlock, f1, f2, List.length_drop, List.length_nil] at d ⊢
      omega
    · have hnil : x.drop k = [] := by
        apply List.eq_nil_of_length_eq_zero; rw [List.length_drop]; omega
      have hne : (!(cs.fillBuf x).2.isEmpty) = false := by rw [f2, hnil]; rfl
      rw [hne, if_neg (by simp)]
      simp only []
      rw [f2, hnil, blockLoop_stop K _ _ (by simp)]
      simp only []
      obtain ⟨p, q, r, t⟩ := hfill (cs.fillBuf x).1 [] (by rw [f1]; simp only [List.length_append, List.length_take, List.length_nil]; omega)
      refine ⟨by rw [p, f1], by rw [q, f1], ?_, ?_⟩
      · unfold Rs.ChunkState.count
        rw [t, r, f1]; simp only [List.length_append, List.length_take, List.length_nil]; omega
      · rw [t, f1]; simp only [List.length_append, List.length_take, List.length_nil]; omega
  · rw [if_neg hpos]
    simp only []
    have hb0 : cs.buf.length = 0 := by omega
    obtain ⟨a, b, c, d, e⟩ := blockLoop_shape K cs x
    obtain ⟨p, q, r, t⟩ := hfill (cs.blockLoop K x).1 (cs.blockLoop K x).2 (by rw [c]; omega)
    refine ⟨by rw [p, a], by rw [q, b], ?_, by rw [t, c]; omega⟩
    unfold Rs.ChunkState.count
    rw [t, r, c]; omega

end

end B3.Proofs.CS
