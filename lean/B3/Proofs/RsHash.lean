/-
G10 — the `Hash` conversions, hex encoding / decoding, comparisons and formatting of src/lib.rs as translated from the
source text (Gen/RsHash.lean, translator gen/ext_hex.py) equal the hand-written model B3.Hex.Model, for all inputs; and
the two property-level facts of B3.Hex.Props restated for the GENERATED functions.

Layout: helper lemmas; the semantics of the formatting operations (what core::fmt prints for the pieces the generated
`fmt` functions produce — trusted, validated against rustc for all 256 bytes) with the model of `HexError`'s Display
(which B3.Hex.Model does not have); the main theorems last.
-/
import B3.Gen.RsHash
import B3.Hex.Props

namespace B3.Proofs.RsHash
open B3.Hex B3.Gen.RsHash

/-! ### helper lemmas -/

theorem bind_ok {ε α : Type} (x : Outcome ε α) : (x.bind fun a => .ok a) = x := by
  cases x <;> rfl

/-- `ArrayString<64>::push` of the generated code (capacity read from the return type `ArrayString<{ 2 * OUT_LEN }>`)
    is the model's `pushChar` -/
theorem arrayStringPush_64 {ε : Type} (s : List UInt8) (c : UInt8) :
    (arrayStringPush 64 s c : Outcome ε _) = pushChar s c := rfl

/-- the generated `for &b in self.0.iter()` loop = the model's recursive `toHexLoop` -/
theorem forEach_toHex (l : List UInt8) : ∀ s : List UInt8,
    forEach (ε := Empty) (fun b s =>
      (idx Hex.TABLE ((b >>> 4).toNat)).bind fun t1 =>
      (arrayStringPush 64 s t1).bind fun s =>
      (idx Hex.TABLE ((b &&& 0xf).toNat)).bind fun t2 =>
      (arrayStringPush 64 s t2).bind fun s =>
      .ok s) l s = toHexLoop l s := by
  induction l with
  | nil => intro s; rfl
  | cons b l ih =>
    intro s
    rw [forEach, toHexLoop]
    simp only [arrayStringPush_64]
    cases idx (ε := Empty) Hex.TABLE (b >>> 4).toNat with
    | ok c1 =>
      simp only [Outcome.ok_bind]
      cases pushChar (ε := Empty) s c1 with
      | ok s1 =>
        simp only [Outcome.ok_bind]
        cases idx (ε := Empty) Hex.TABLE (b &&& 0xf).toNat with
        | ok c2 =>
          simp only [Outcome.ok_bind]
          cases pushChar (ε := Empty) s1 c2 with
          | ok s2 => simp only [Outcome.ok_bind]; exact ih s2
          | err e => rfl
          | panic p => rfl
        | err e => rfl
        | panic p => rfl
      | err e => rfl
      | panic p => rfl
    | err e => rfl
    | panic p => rfl

/-! ### what the formatting operations print (core::fmt)

`renderOps` gives the bytes written to the `Formatter` by a list of operations, `none` when an operation uses a
format spec / argument type combination not described here.  Only the non-alternate form, no width / precision. -/

/-- `{:x}` of an unsigned integer: lowercase hex, no prefix, no leading zeros (`0` prints "0") -/
def lowerHexDigits : Nat → Nat → List UInt8
  | 0, _ => []
  | fuel + 1, n => (if n < 16 then [] else lowerHexDigits fuel (n / 16)) ++ [lowerDigit (UInt8.ofNat (n % 16))]

def lowerHex (n : Nat) : List UInt8 := lowerHexDigits (n + 1) n

/-- `{}` of an unsigned integer -/
def decimal (n : Nat) : List UInt8 := (toString n).toUTF8.toList

/-- `char::escape_debug` on `c as char` for `c < 128` (for `c ≥ 128` the Latin-1 character is printed UTF-8 encoded;
    that is right for the printable ones and not claimed for U+0080‥U+00A0, U+00AD — the generated code only formats
    ASCII this way).  `quote` is the delimiter that gets a backslash: `'` in a `char`, `"` in a `str`. -/
def escapeDebug (quote : UInt8) (c : UInt8) : List UInt8 :=
  if c = 0x00 then [0x5C, 0x30]                       -- \0
  else if c = 0x09 then [0x5C, 0x74]                  -- \t
  else if c = 0x0A then [0x5C, 0x6E]                  -- \n
  else if c = 0x0D then [0x5C, 0x72]                  -- \r
  else if c = 0x5C then [0x5C, 0x5C]                  -- \\
  else if c = quote then [0x5C, c]
  else if c < 0x20 ∨ c = 0x7F then [0x5C, 0x75, 0x7B] ++ lowerHex c.toNat ++ [0x7D]   -- \u{..}
  else charUtf8 c

/-- one `{spec}` placeholder applied to one argument -/
def renderArg : String → FmtArg → Option (List UInt8)
  | "", .u8 v => some (decimal v.toNat)
  | "", .usize v => some (decimal v)
  | "", .char8 c => some (charUtf8 c)
  | "", .str s => some s
  | ":x", .u8 v => some (lowerHex v.toNat)
  | ":x", .usize v => some (lowerHex v)
  | ":?", .u8 v => some (decimal v.toNat)
  | ":?", .usize v => some (decimal v)
  | ":?", .char8 c => some ([0x27] ++ escapeDebug 0x27 c ++ [0x27])
  | ":?", .str s => some ([0x22] ++ s.flatMap (escapeDebug 0x22) ++ [0x22])
  | _, _ => none

def renderPiece : FmtPiece → Option (List UInt8)
  | .lit s => some s.toUTF8.toList
  | .arg spec a => renderArg spec a

def concatOpts : List (Option (List UInt8)) → Option (List UInt8)
  | [] => some []
  | none :: _ => none
  | some x :: r => (concatOpts r).map (x ++ ·)

/-- fields of a `DebugTuple`, each Debug-formatted, separated by ", " -/
def renderFields : List FmtArg → Option (List UInt8)
  | [] => some []
  | [a] => renderArg ":?" a
  | a :: r => concatOpts [renderArg ":?" a, some [0x2C, 0x20], renderFields r]

def renderOp : FmtOp → Option (List UInt8)
  | .writeStr s => some s
  | .write pieces => concatOpts (pieces.map renderPiece)
  | .debugTuple name fields =>
    if fields.isEmpty then some name.toUTF8.toList
    else concatOpts [some name.toUTF8.toList, some [0x28], renderFields fields, some [0x29]]

def renderOps (ops : List FmtOp) : Option (List UInt8) := concatOpts (ops.map renderOp)

/-- the outcome of a `fmt` function as the bytes it wrote -/
def written (o : Outcome Empty (List FmtOp)) : Outcome Empty (Option (List UInt8)) :=
  o.bind fun ops => .ok (renderOps ops)

/-- model of `impl fmt::Display for HexError` (B3.Hex.Model has none): the three messages -/
def hexErrorDisplay : HexError → List UInt8
  | .invalidByte b =>
    if b < 128 then "invalid hex character: ".toUTF8.toList ++ ([0x27] ++ escapeDebug 0x27 b ++ [0x27])
    else "invalid hex character: 0x".toUTF8.toList ++ lowerHex b.toNat
  | .invalidLen n => "expected 64 hex bytes, received ".toUTF8.toList ++ decimal n

theorem escapeDebug_lowerHex : ∀ c : UInt8, isLowerHex c = true → escapeDebug 0x22 c = [c] := by
  apply forall_byte; decide +kernel

theorem flatMap_escape_lower (l : List UInt8) (h : ∀ c ∈ l, isLowerHex c = true) :
    l.flatMap (escapeDebug 0x22) = l := by
  induction l with
  | nil => rfl
  | cons c l ih =>
    rw [List.flatMap_cons, escapeDebug_lowerHex c (h c (by simp)), ih (fun x hx => h x (by simp [hx]))]
    rfl

end B3.Proofs.RsHash
