/-
Simulation lemmas for the capstone (Proofs/Capstone.lean).

The code generated from src/lib.rs is parametric: `Gen.Rs.Skel` (G6) in `parentOutput` / `chain`, `Gen.RsUpdate` (G9) in
an environment `Env CS Out` of `ChunkState` operations.  The `…_eq_model` theorems of Proofs/Skeleton.lean and
Proofs/RsUpdate.lean are about the instance built from the hand-written model (`modelEnv`).  Here: whenever another
instance (in the capstone: the one built from the G8-generated `ChunkState` / `Output` functions over byte arrays) is
related to the model instance by a representation relation that the operations preserve, the generated functions, run
on related arguments, return related results — and do not panic where the model instance does not.  Nothing about
BLAKE3 is re-proved: the proofs follow the generated code's own structure, statement by statement.
-/
import B3.Proofs.RsUpdate
namespace B3.Proofs.CapSim
open B3 B3.Arith B3.Gen.RsUpdate

/-! ### the relational lifting of the panic monad -/

/-- `r` simulates `r₀`: when `r₀` returns a value, `r` returns a related one (in particular it does not panic) -/
def relR {α β : Type} (Rel : α → β → Prop) (r : R α) (r₀ : R β) : Prop :=
  ∀ v₀, r₀ = .ok v₀ → ∃ v, r = .ok v ∧ Rel v v₀

theorem relR_ok {α β : Type} {Rel : α → β → Prop} {a : α} {b : β} (h : Rel a b) : relR Rel (R.ok a) (R.ok b) := by
  intro v₀ hv; cases hv; exact ⟨a, rfl, h⟩

theorem relR_pure {α β : Type} {Rel : α → β → Prop} {a : α} {b : β} (h : Rel a b) :
    relR Rel (pure a : R α) (pure b : R β) := relR_ok h

theorem relR_panic {α β : Type} {Rel : α → β → Prop} (r : R α) : relR Rel r (R.panic : R β) := by
  intro v₀ hv; cases hv

theorem relR_bind {α β α' β' : Type} {R1 : α → β → Prop} {R2 : α' → β' → Prop} {r : R α} {r₀ : R β}
    {f : α → R α'} {f₀ : β → R β'} (h : relR R1 r r₀) (hf : ∀ a b, R1 a b → relR R2 (f a) (f₀ b)) :
    relR R2 (r >>= f) (r₀ >>= f₀) := by
  intro v₀ hv
  cases hr : r₀ with
  | panic => rw [hr] at hv; cases hv
  | ok b =>
    obtain ⟨a, ha, hab⟩ := h b hr
    rw [hr] at hv
    obtain ⟨v, hv1, hv2⟩ := hf a b hab v₀ hv
    exact ⟨v, by rw [ha]; exact hv1, hv2⟩

/-- the same first computation on both sides -/
theorem relR_bind_same {α α' β' : Type} {R2 : α' → β' → Prop} (r : R α) {f : α → R α'} {f₀ : α → R β'}
    (hf : ∀ a, r = .ok a → relR R2 (f a) (f₀ a)) : relR R2 (r >>= f) (r >>= f₀) := by
  intro v₀ hv
  cases hr : r with
  | panic => rw [hr] at hv; cases hv
  | ok a => rw [hr] at hv; exact hf a hr v₀ hv

theorem relR_of_eq {α β : Type} {Rel : α → β → Prop} {r r' : R α} {r₀ : R β} (e : r = r') (h : relR Rel r' r₀) :
    relR Rel r r₀ := by rw [e]; exact h

theorem relR_ite {α β : Type} {Rel : α → β → Prop} (c : Prop) [Decidable c] {a b : R α} {a₀ b₀ : R β}
    (h1 : c → relR Rel a a₀) (h2 : ¬ c → relR Rel b b₀) : relR Rel (if c then a else b) (if c then a₀ else b₀) := by
  by_cases h : c
  · rw [if_pos h, if_pos h]; exact h1 h
  · rw [if_neg h, if_neg h]; exact h2 h

theorem sliceTo_len {α : Type} (s t : List α) (n : Nat) (h : sliceTo s n = .ok t) : t.length ≤ n := by
  unfold sliceTo at h
  split at h
  · cases h; rw [List.length_take]; omega
  · cases h

theorem sliceFrom_len {α : Type} (s t : List α) (n : Nat) (h : sliceFrom s n = .ok t) : t.length = s.length - n := by
  unfold sliceFrom at h
  split at h
  · cases h; rw [List.length_drop]
  · cases h

theorem csub_val (a b c : Nat) (h : csub a b = .ok c) : b ≤ a ∧ c = a - b := by
  unfold csub at h
  split at h
  · cases h; exact ⟨by assumption, rfl⟩
  · cases h

/-! ### G6: the `Hasher` skeleton under a change of `parentOutput` / `chain` -/

section skel
open B3.Gen.Rs
variable {Out Out₀ : Type} (po : CV → CV → Out) (ch : Out → CV) (po₀ : CV → CV → Out₀) (ch₀ : Out₀ → CV)

/-- `merge_cv_stack`'s loop only uses the chaining value of the parent of two entries -/
theorem merge_loop_congr (hpc : ∀ l r, ch (po l r) = ch₀ (po₀ l r)) (fuel : Nat) (s : List CV) (t : Nat) :
    Skel.merge_cv_stack_loop po ch fuel s t = Skel.merge_cv_stack_loop po₀ ch₀ fuel s t := by
  induction fuel generalizing s with
  | zero => rfl
  | succ fuel ih =>
    rw [Skel.merge_cv_stack_loop, Skel.merge_cv_stack_loop]
    by_cases hc : s.length > t
    · rw [if_pos hc, if_pos hc]
      cases h1 : Arith.pop s with
      | panic => rfl
      | ok p1 =>
        obtain ⟨a1, s1⟩ := p1
        simp only [RsUpdate.bind_ok]
        cases h2 : Arith.pop s1 with
        | panic => rfl
        | ok p2 =>
          obtain ⟨a2, s2⟩ := p2
          simp only [RsUpdate.bind_ok]
          rw [hpc]
          exact ih _
    · rw [if_neg hc, if_neg hc]

theorem merge_cv_stack_congr (hpc : ∀ l r, ch (po l r) = ch₀ (po₀ l r)) (s : List CV) (t0 t : Nat) :
    Skel.merge_cv_stack po ch s t0 t = Skel.merge_cv_stack po₀ ch₀ s t0 t := by
  unfold Skel.merge_cv_stack
  simp only [merge_loop_congr po ch po₀ ch₀ hpc]

theorem push_cv_congr (hpc : ∀ l r, ch (po l r) = ch₀ (po₀ l r)) (s : List CV) (t0 : Nat) (cv : CV) (t : Nat) :
    Skel.push_cv po ch s t0 cv t = Skel.push_cv po₀ ch₀ s t0 cv t := by
  unfold Skel.push_cv
  rw [merge_cv_stack_congr po ch po₀ ch₀ hpc]

variable (RO : Out → Out₀ → Prop)

theorem final_loop_sim (hpo : ∀ l r, RO (po l r) (po₀ l r)) (hch : ∀ o n, RO o n → ch o = ch₀ n) (fuel : Nat)
    (o : Out) (o₀ : Out₀) (n : Nat) (s : List CV) (ho : RO o o₀) :
    relR (fun a b => RO a.1 b.1 ∧ a.2 = b.2) (Skel.final_output_loop po ch fuel o n s)
      (Skel.final_output_loop po₀ ch₀ fuel o₀ n s) := by
  induction fuel generalizing o o₀ n with
  | zero => exact relR_panic _
  | succ fuel ih =>
    rw [Skel.final_output_loop, Skel.final_output_loop]
    apply relR_ite
    · intro _
      apply relR_bind_same; intro t1 _
      apply relR_bind_same; intro t2 _
      apply relR_bind_same; intro n' _
      rw [hch o o₀ ho]
      exact ih _ _ _ (hpo _ _)
    · intro _
      exact relR_pure ⟨ho, rfl⟩

/-- **`final_output` under a change of representation of `Output`**: related chunk outputs give related results -/
theorem final_output_sim (hpo : ∀ l r, RO (po l r) (po₀ l r)) (hch : ∀ o n, RO o n → ch o = ch₀ n)
    (s : List CV) (o : Out) (o₀ : Out₀) (n : Nat) (ho : RO o o₀) :
    relR RO (Skel.final_output po ch s o n) (Skel.final_output po₀ ch₀ s o₀ n) := by
  unfold Skel.final_output
  apply relR_ite
  · intro _; exact relR_pure ho
  · intro _
    have hfirst : relR (fun (a : Out × Nat) (b : Out₀ × Nat) => RO a.1 b.1 ∧ a.2 = b.2)
        (if n > 0 then do
            let output := o
            pure (output, s.length)
          else do
            let t1 ← Arith.csub s.length 2
            let t2 ← Arith.getIdx s t1
            let t3 ← Arith.csub s.length 1
            let t4 ← Arith.getIdx s t3
            let output := (po t2 t4)
            let num_cvs_remaining ← Arith.csub s.length 2
            pure (output, num_cvs_remaining))
        (if n > 0 then do
            let output := o₀
            pure (output, s.length)
          else do
            let t1 ← Arith.csub s.length 2
            let t2 ← Arith.getIdx s t1
            let t3 ← Arith.csub s.length 1
            let t4 ← Arith.getIdx s t3
            let output := (po₀ t2 t4)
            let num_cvs_remaining ← Arith.csub s.length 2
            pure (output, num_cvs_remaining)) := by
      apply relR_ite
      · intro _; exact relR_pure ⟨ho, rfl⟩
      · intro _
        apply relR_bind_same; intro t1 _
        apply relR_bind_same; intro t2 _
        apply relR_bind_same; intro t3 _
        apply relR_bind_same; intro t4 _
        apply relR_bind_same; intro n' _
        exact relR_pure ⟨hpo _ _, rfl⟩
    refine relR_bind hfirst ?_
    rintro ⟨a1, a2⟩ ⟨b1, b2⟩ ⟨h1, h2⟩
    simp only at h1 h2
    subst h2
    refine relR_bind (final_loop_sim po ch po₀ ch₀ RO hpo hch _ a1 b1 a2 s h1) ?_
    rintro ⟨c1, c2⟩ ⟨d1, d2⟩ ⟨h3, _⟩
    exact relR_pure h3

end skel

theorem relR_refl {α : Type} (r : R α) : relR Eq r r := fun v hv => ⟨v, hv, rfl⟩

theorem relR_mono {α β : Type} {R1 R2 : α → β → Prop} {r : R α} {r₀ : R β} (h : ∀ a b, R1 a b → R2 a b)
    (hr : relR R1 r r₀) : relR R2 r r₀ := by
  intro v₀ hv
  obtain ⟨v, h1, h2⟩ := hr v₀ hv
  exact ⟨v, h1, h v v₀ h2⟩

/-! ### G9: `update_with_join` and the subtree functions under a change of environment -/

section env
variable (K : Kern) (sd : Nat)
variable (hm : Nat → List (List UInt8) → CV → Nat → Bool → UInt8 → UInt8 → UInt8 → List CV → R (List CV)) (M M2 : Nat)
variable (tpn : List UInt8 → CV → Nat → UInt8 → R (List CV))
variable {CS Out : Type} (E : Env CS Out) (RC : CS → Rs.ChunkState → Prop) (RO : Out → Spec.Node → Prop)

local notation "E₀" => RsUpdate.modelEnv K sd hm M M2 tpn

/-- `E` represents the model environment: `RC` relates its chunk states and `RO` its outputs to the model's, and every
operation preserves the relations.  `cs_update` needs to do so only while the chunk state holds at most `CHUNK_LEN`
bytes (beyond that the `u8` block counter of the real `ChunkState` may overflow; the translated callers never go
there, which is part of what the simulation theorems below establish). -/
structure EnvSim : Prop where
  new : ∀ k c f, RC (E.cs_new k c f) (Rs.ChunkState.new k c f)
  update : ∀ cs m x, RC cs m → m.count + x.length ≤ 1024 → RC (E.cs_update cs x) (m.update K x)
  output : ∀ cs m, RC cs m → RO (E.cs_output cs) m.output
  count : ∀ cs m, RC cs m → E.cs_count cs = m.count
  counter : ∀ cs m, RC cs m → E.cs_chunk_counter cs = m.t
  flags : ∀ cs m, RC cs m → E.cs_flags cs = m.flags
  set : ∀ cs m t, RC cs m → RC (E.cs_set_chunk_counter cs t) { m with t := t }
  chain : ∀ o n, RO o n → E.chaining_value o = Rs.chain K n
  parent : ∀ l r k f, RO (E.parent_node_output l r k f) (Rs.parentOutput k f l r)
  mkOut : ∀ k l r bl t f, RO (E.mk_output k [l, r] bl t f)
    { cv := k, block := catCV l r, blen := bl.toNat, t := t, flags := f }
  hm_eq : E.hash_many = hm
  sd_eq : E.simd_degree = sd
  M_eq : E.MAX_SIMD_DEGREE = M
  M2_eq : E.MAX_SIMD_DEGREE_OR_2 = M2

variable (S : EnvSim K sd hm M M2 E RC RO)
include S

/-- the chaining value of one chunk (at most `CHUNK_LEN` bytes through a fresh `ChunkState`) -/
theorem leaf_eq (x : List UInt8) (hx : x.length ≤ 1024) : ∀ (k : CV) (c : Nat) (f : UInt8),
    E.chaining_value (E.cs_output (E.cs_update (E.cs_new k c f) x))
      = Rs.chain K (Rs.ChunkState.output (Rs.ChunkState.update K (Rs.ChunkState.new k c f) x)) := by
  intro k c f
  exact S.chain _ _ (S.output _ _ (S.update _ _ _ (S.new k c f)
    (by simp only [Rs.ChunkState.new, Rs.ChunkState.count, List.length_nil]; omega)))

theorem pc_eq (k : CV) (f : UInt8) : ∀ l r,
    E.chaining_value (E.parent_node_output l r k f) = Rs.chain K (Rs.parentOutput k f l r) :=
  fun l r => S.chain _ _ (S.parent l r k f)

theorem parents_for_congr (chunks acc : List (List CV)) :
    compress_parents_parallel_for E chunks acc = compress_parents_parallel_for E₀ chunks acc := by
  induction chunks generalizing acc with
  | nil => rfl
  | cons c cs ih =>
    rw [compress_parents_parallel_for, compress_parents_parallel_for]
    simp only [S.M2_eq, RsUpdate.E_M2, ih]

theorem chunks_for_congr (chunks acc : List (List UInt8)) :
    compress_chunks_parallel_for E chunks acc = compress_chunks_parallel_for E₀ chunks acc := by
  induction chunks generalizing acc with
  | nil => rfl
  | cons c cs ih =>
    rw [compress_chunks_parallel_for, compress_chunks_parallel_for]
    simp only [S.M_eq, RsUpdate.E_M, ih]

/-- `compress_parents_parallel` does not touch a `ChunkState` at all -/
theorem parents_congr (cvs : List CV) (key : CV) (flags : UInt8) (out : List CV) :
    compress_parents_parallel E cvs key flags out = compress_parents_parallel E₀ cvs key flags out := by
  unfold compress_parents_parallel
  simp only [parents_for_congr K sd hm M M2 tpn E RC RO S, S.hm_eq, RsUpdate.E_hm]

/-- `compress_chunks_parallel`: the partial last chunk goes through a fresh `ChunkState` -/
theorem chunks_congr (input : List UInt8) (key : CV) (t : Nat) (flags : UInt8) (out : List CV) :
    compress_chunks_parallel E input key t flags out = compress_chunks_parallel E₀ input key t flags out := by
  have hrem : (chunksExact 1024 input).2.length ≤ 1024 :=
    Nat.le_of_lt (RsUpdate.chunksExact_facts 1024 (by omega) input).2.1
  unfold compress_chunks_parallel
  simp only [chunks_for_congr K sd hm M M2 tpn E RC RO S, S.hm_eq, RsUpdate.E_hm, leaf_eq K sd hm M M2 E RC RO S _ hrem,
    RsUpdate.E_new, RsUpdate.E_update, RsUpdate.E_output, RsUpdate.E_chain]

theorem wide_congr (fuel : Nat) : ∀ (input : List UInt8) (key : CV) (t : Nat) (flags : UInt8) (out : List CV),
    compress_subtree_wide E fuel input key t flags out = compress_subtree_wide E₀ fuel input key t flags out := by
  induction fuel with
  | zero => intros; rfl
  | succ fuel ih =>
    intro input key t flags out
    rw [compress_subtree_wide, compress_subtree_wide]
    simp only [S.sd_eq, S.M2_eq, RsUpdate.E_sd, RsUpdate.E_M2, chunks_congr K sd hm M M2 tpn E RC RO S,
      parents_congr K sd hm M M2 tpn E RC RO S, ih]

theorem tpn_loop_congr (fuel : Nat) : ∀ (cva : List CV) (n : Nat) (outa : List CV) (key : CV) (flags : UInt8),
    compress_subtree_to_parent_node_loop E fuel cva n outa key flags
      = compress_subtree_to_parent_node_loop E₀ fuel cva n outa key flags := by
  induction fuel with
  | zero => intros; rfl
  | succ fuel ih =>
    intro cva n outa key flags
    rw [compress_subtree_to_parent_node_loop, compress_subtree_to_parent_node_loop]
    simp only [parents_congr K sd hm M M2 tpn E RC RO S, ih]

/-- **`compress_subtree_to_parent_node`** (with `compress_subtree_wide`, `compress_chunks_parallel`,
`compress_parents_parallel` below it) computes the same in both environments, for all arguments, panics included -/
theorem to_parent_node_congr (input : List UInt8) (key : CV) (t : Nat) (flags : UInt8) :
    compress_subtree_to_parent_node E input key t flags = compress_subtree_to_parent_node E₀ input key t flags := by
  unfold compress_subtree_to_parent_node
  simp only [S.M2_eq, RsUpdate.E_M2, wide_congr K sd hm M M2 tpn E RC RO S, tpn_loop_congr K sd hm M M2 tpn E RC RO S]

theorem count_congr (cs : CS) (m : Rs.ChunkState) (hrc : RC cs m) (t0 : Nat) :
    hasher_count E cs t0 = hasher_count E₀ m t0 := by
  unfold hasher_count
  rw [S.counter cs m hrc, S.count cs m hrc]
  rfl

/-- the relation between the results of the `while input.len() > CHUNK_LEN` loop: related chunk states, equal CV
stacks and remaining inputs; on the model side the loop keeps the chunk state's byte count and leaves at most one chunk -/
def LoopRel (m : Rs.ChunkState) (a : CS × List CV × List UInt8) (b : Rs.ChunkState × List CV × List UInt8) : Prop :=
  RC a.1 b.1 ∧ a.2 = b.2 ∧ b.1.count = m.count ∧ b.2.2.length ≤ 1024

omit S in
theorem LoopRel_set (m : Rs.ChunkState) (t : Nat) (a : CS × List CV × List UInt8)
    (b : Rs.ChunkState × List CV × List UInt8) (h : LoopRel RC ({ m with t := t } : Rs.ChunkState) a b) :
    LoopRel RC m a b := h

theorem loop_sim (htpn : E.compress_subtree_to_parent_node = tpn) (fuel : Nat) :
    ∀ (cs : CS) (m : Rs.ChunkState) (st : List CV) (inp : List UInt8) (key : CV) (t0 : Nat), RC cs m →
      relR (LoopRel RC m) (update_with_join_loop E fuel cs st inp key t0)
        (update_with_join_loop E₀ fuel m st inp key t0) := by
  induction fuel with
  | zero => intros; exact relR_panic _
  | succ fuel ih =>
    intro cs m st inp key t0 hrc
    have hpc := pc_eq K sd hm M M2 E RC RO S key m.flags
    rw [update_with_join_loop, update_with_join_loop]
    apply relR_ite
    · intro _
      simp only [S.counter cs m hrc, S.flags cs m hrc, htpn, RsUpdate.E_counter, RsUpdate.E_flags, RsUpdate.E_new,
        RsUpdate.E_update, RsUpdate.E_output, RsUpdate.E_chain, RsUpdate.E_pno, RsUpdate.E_tpn, RsUpdate.E_set]
      apply relR_bind_same; intro t5 _
      apply relR_bind_same; intro t6 _
      apply relR_bind_same; intro sl _
      apply relR_bind_same; intro t9 _
      refine relR_bind (R1 := Eq) ?_ ?_
      · apply relR_ite
        · intro hsl
          apply relR_bind_same; intro t10 h10
          have hl := sliceTo_len _ _ _ h10
          rw [leaf_eq K sd hm M M2 E RC RO S t10 (by omega), push_cv_congr _ _ _ _ hpc]
          exact relR_refl _
        · intro _
          apply relR_bind_same; intro t11 _
          apply relR_bind_same; intro t12 _
          apply relR_bind_same; intro t13 _
          apply relR_bind_same; intro t14 _
          simp only [push_cv_congr _ _ _ _ hpc]
          exact relR_refl _
      · intro a b hab
        subst hab
        apply relR_bind_same; intro t17 _
        apply relR_bind_same; intro t18 _
        exact relR_mono (LoopRel_set RC m t17) (ih _ _ _ _ _ _ (S.set cs m t17 hrc))
    · intro hle
      exact relR_pure ⟨hrc, rfl, rfl, by simp only; omega⟩

/-- phases 2 and 3 of `update_with_join`, entered with an empty chunk state -/
theorem rest1_sim (htpn : E.compress_subtree_to_parent_node = tpn) (cs : CS) (m : Rs.ChunkState) (st : List CV)
    (inp : List UInt8) (key : CV) (t0 : Nat) (hrc : RC cs m) (hz : m.count = 0) :
    relR (fun a b => RC a.1 b.1 ∧ a.2 = b.2) (update_with_join_rest1 E key cs t0 st inp)
      (update_with_join_rest1 E₀ key m t0 st inp) := by
  unfold update_with_join_rest1
  refine relR_bind (loop_sim K sd hm M M2 tpn E RC RO S htpn _ cs m st inp key t0 hrc) ?_
  rintro ⟨c1, s1, i1⟩ ⟨m1, s1', i1'⟩ ⟨h1, h2, h3, h4⟩
  simp only [Prod.mk.injEq] at h1 h2 h3 h4
  obtain ⟨rfl, rfl⟩ := h2
  simp only
  refine relR_bind (R1 := fun a b => RC a.1 b.1 ∧ a.2 = b.2) ?_ ?_
  · apply relR_ite
    · intro _
      have hu := S.update c1 m1 i1 h1 (by omega)
      simp only [S.flags _ _ hu, S.counter _ _ hu, RsUpdate.E_update, RsUpdate.E_flags, RsUpdate.E_counter,
        RsUpdate.E_chain, RsUpdate.E_pno,
        merge_cv_stack_congr _ _ _ _ (pc_eq K sd hm M M2 E RC RO S key (Rs.ChunkState.update K m1 i1).flags)]
      apply relR_bind_same; intro s2 _
      exact relR_pure ⟨hu, rfl⟩
    · intro _
      exact relR_pure ⟨h1, rfl⟩
  · rintro ⟨c2, s2⟩ ⟨m2, s2'⟩ ⟨h5, h6⟩
    simp only at h5 h6
    subst h6
    exact relR_pure ⟨h5, rfl⟩

/-- **`Hasher::update_with_join` under a change of environment.**  On related chunk states (same key, counter offset,
CV stack and input), whenever the instance over the model returns `(chunk_state, cv_stack)`, so does the instance over
`E` — it does not panic — with a related chunk state and the same CV stack. -/
theorem update_with_join_sim (htpn : E.compress_subtree_to_parent_node = tpn) (cs : CS) (m : Rs.ChunkState)
    (st : List CV) (x : List UInt8) (key : CV) (t0 : Nat) (hrc : RC cs m) :
    relR (fun a b => RC a.1 b.1 ∧ a.2 = b.2) (update_with_join E key cs t0 st x)
      (update_with_join E₀ key m t0 st x) := by
  unfold update_with_join
  apply relR_bind_same; intro t1 _
  apply relR_bind_same; intro t2 _
  rw [count_congr K sd hm M M2 tpn E RC RO S cs m hrc t0]
  apply relR_bind_same; intro u _
  simp only [S.count cs m hrc, RsUpdate.E_count]
  apply relR_ite
  · intro hpos
    apply relR_bind_same; intro want hw
    obtain ⟨hw1, hw2⟩ := csub_val _ _ _ hw
    apply relR_bind_same; intro t20 h20
    have hl := sliceTo_len _ _ _ h20
    have hu := S.update cs m t20 hrc (by omega)
    apply relR_bind_same; intro t21 _
    apply relR_ite
    · intro _
      simp only [S.flags _ _ hu, S.counter _ _ hu, S.chain _ _ (S.output _ _ hu), RsUpdate.E_update, RsUpdate.E_flags,
        RsUpdate.E_counter, RsUpdate.E_chain, RsUpdate.E_pno, RsUpdate.E_output, RsUpdate.E_new,
        push_cv_congr _ _ _ _ (pc_eq K sd hm M M2 E RC RO S key (Rs.ChunkState.update K m t20).flags)]
      apply relR_bind_same; intro s1 _
      apply relR_bind_same; intro t22 _
      exact rest1_sim K sd hm M M2 tpn E RC RO S htpn _ _ _ _ _ _ (S.new _ _ _)
        (by simp only [Rs.ChunkState.new, Rs.ChunkState.count, List.length_nil])
    · intro _
      exact relR_pure ⟨hu, rfl⟩
  · intro hz
    exact rest1_sim K sd hm M M2 tpn E RC RO S htpn _ _ _ _ _ _ hrc (by omega)

end env

end B3.Proofs.CapSim
