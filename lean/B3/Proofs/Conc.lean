/-
Small interleaving semantics used by C08 and C18.
(1) Two sequences of writes to disjoint index sets: every interleaving yields the same memory.
(2) The feature-detection cache protocol: any interleaving of `load; if undefined then compute;
    store` by any number of threads returns the computed value to every thread.
-/
namespace B3.Conc

/-- a write: index and value -/
abbrev Write (α : Type) := Nat × α

def apply {α : Type} (mem : Nat → Option α) (w : Write α) : Nat → Option α :=
  fun i => if i = w.1 then some w.2 else mem i

def applyAll {α : Type} (mem : Nat → Option α) (ws : List (Write α)) : Nat → Option α := ws.foldl apply mem

/-- `zs` is an interleaving of `xs` and `ys` (each list's own order is kept) -/
inductive Interleave {α : Type} : List α → List α → List α → Prop
  | nil : Interleave [] [] []
  | left (x : α) {xs ys zs : List α} : Interleave xs ys zs → Interleave (x :: xs) ys (x :: zs)
  | right (y : α) {xs ys zs : List α} : Interleave xs ys zs → Interleave xs (y :: ys) (y :: zs)

theorem apply_comm {α : Type} (mem : Nat → Option α) (a b : Write α) (h : a.1 ≠ b.1) :
    apply (apply mem a) b = apply (apply mem b) a := by
  funext i
  simp only [apply]
  by_cases h1 : i = b.1 <;> by_cases h2 : i = a.1 <;> simp_all

theorem applyAll_comm_one {α : Type} (a : Write α) : ∀ (ws : List (Write α)) (mem : Nat → Option α),
    (∀ w ∈ ws, w.1 ≠ a.1) → applyAll (apply mem a) ws = apply (applyAll mem ws) a := by
  intro ws
  induction ws with
  | nil => intro mem _; rfl
  | cons w ws ih =>
    intro mem h
    simp only [applyAll, List.foldl_cons] at ih ⊢
    rw [apply_comm mem a w (Ne.symm (h w (by simp)))]
    exact ih _ (fun w' hw' => h w' (by simp [hw']))

/-- **Disjoint writes are confluent**: if no index written by `xs` is written by `ys`, every
interleaving of the two write sequences produces the memory that `xs` then `ys` produce. -/
theorem disjoint_writes_confluent {α : Type} {xs ys zs : List (Write α)} (hi : Interleave xs ys zs) :
    ∀ (mem : Nat → Option α), (∀ x ∈ xs, ∀ y ∈ ys, x.1 ≠ y.1) → applyAll mem zs = applyAll (applyAll mem xs) ys := by
  induction hi with
  | nil => intro mem _; rfl
  | left x _ ih =>
    intro mem hd
    simp only [applyAll, List.foldl_cons] at ih ⊢
    exact ih _ (fun a ha b hb => hd a (by simp [ha]) b hb)
  | @right y xs ys zs _ ih =>
    intro mem hd
    have h1 := ih (apply mem y) (fun a ha b hb => hd a ha b (by simp [hb]))
    simp only [applyAll, List.foldl_cons] at h1 ⊢
    rw [h1]
    have := applyAll_comm_one y xs mem (fun w hw => hd w hw y (by simp))
    simp only [applyAll] at this
    rw [this]

/-! ### the detection cache -/

/-- state of one thread running `get_cpu_features()` -/
inductive Th where
  | start                       -- about to load the cache
  | loaded (v : Option Nat)     -- has loaded `v`; `none` = UNDEFINED
  | done (r : Nat)              -- returned `r`
deriving DecidableEq

structure Sys where
  cell : Option Nat
  threads : List Th

/-- one step of thread `i`; `f` is the value detection computes (a function of the CPU only) -/
def stepTh (f : Nat) (s : Sys) (i : Nat) : Sys :=
  match s.threads[i]? with
  | some .start => { s with threads := s.threads.set i (.loaded s.cell) }
  | some (.loaded none) => { cell := some f, threads := s.threads.set i (.done f) }
  | some (.loaded (some v)) => { s with threads := s.threads.set i (.done v) }
  | _ => s

def Inv (f : Nat) (s : Sys) : Prop :=
  (s.cell = none ∨ s.cell = some f) ∧
  ∀ t ∈ s.threads, match t with
    | .start => True
    | .loaded v => v = none ∨ v = some f
    | .done r => r = f

theorem inv_step (f : Nat) (s : Sys) (i : Nat) (h : Inv f s) : Inv f (stepTh f s i) := by
  unfold stepTh
  cases hi : s.threads[i]? with
  | none => exact h
  | some t =>
    have hmem : t ∈ s.threads := List.mem_of_getElem? hi
    cases t with
    | start =>
      refine ⟨h.1, ?_⟩
      intro t' ht'
      rcases List.mem_or_eq_of_mem_set ht' with h' | h'
      · exact h.2 t' h'
      · subst h'; exact h.1
    | loaded v =>
      cases v with
      | none =>
        refine ⟨Or.inr rfl, ?_⟩
        intro t' ht'
        rcases List.mem_or_eq_of_mem_set ht' with h' | h'
        · exact h.2 t' h'
        · subst h'; rfl
      | some v =>
        refine ⟨h.1, ?_⟩
        intro t' ht'
        rcases List.mem_or_eq_of_mem_set ht' with h' | h'
        · exact h.2 t' h'
        · subst h'
          have := h.2 _ hmem
          simp at this
          exact this
    | done r => exact h

/-- **The detection-cache race is benign**: from `n` threads at their first call and an undefined
cache, after any schedule (any sequence of thread indices) the cache is undefined or holds `f`, and
every thread that has returned has returned `f`. -/
theorem detect_cache_race_benign (f n : Nat) (sched : List Nat) :
    Inv f (sched.foldl (stepTh f) { cell := none, threads := List.replicate n .start }) := by
  have h0 : Inv f { cell := none, threads := List.replicate n Th.start } := by
    refine ⟨Or.inl rfl, ?_⟩
    intro t ht
    rw [List.eq_of_mem_replicate ht]
    trivial
  generalize ({ cell := none, threads := List.replicate n Th.start } : Sys) = s at h0
  induction sched generalizing s with
  | nil => exact h0
  | cons i sched ih => exact ih _ (inv_step f s i h0)

end B3.Conc
