/-
The one-shot entry points of src/lib.rs (`hash`, `keyed_hash`, `derive_key`, with `hazmat::hash_derive_key_context`) and
`Hasher::update` / `Hasher::update_rayon`, as translated from the source (Gen/RsOneShot.lean: what they call, with which key
words and flag bytes, which `Join` they instantiate), equal the model's `Rs.oneShot` / `Rs.Hasher.update` for every mode
and input, and - composed with `hash_all_at_once_eq_model` (Props/C01T.lean) and `hash_eq_spec` (Props/C01.lean) - the
specification's `Spec.hash`.
-/
import B3.Gen.RsOneShot
import B3.Props.C01T
import B3.Props.C01
import B3.Proofs.RsUpdateLt
namespace B3.Proofs.RsOneShot
open B3 B3.Arith B3.Gen.RsUpdate B3.Proofs.RsUpdate B3.Gen.RsOneShot

section
variable (K : Kern) (sd : Nat)
variable (hm : Nat → List (List UInt8) → CV → Nat → Bool → UInt8 → UInt8 → UInt8 → List CV → R (List CV)) (M M2 : Nat)
variable (tpn : List UInt8 → CV → Nat → UInt8 → R (List CV))

local notation "E₀" => modelEnv K sd hm M M2 tpn

/-- the translated entry point for each mode of the specification: `hash(m)`, `keyed_hash(key, m)`,
`derive_key(context, m)` -/
def runOneShot {CS Out : Type} (E : Env CS Out) (root_hash : Out → List UInt8) : Spec.Mode → List UInt8 → R (List UInt8)
  | .hash, m => Gen.RsOneShot.hash E root_hash m
  | .keyed k, m => keyed_hash E root_hash k m
  | .derive ctx, m => derive_key E root_hash ctx m

/-- `derive_key` hashes two strings: the context and the key material -/
def modeInputsFit : Spec.Mode → Prop
  | .derive ctx => ctx.length < 2 ^ 64
  | _ => True

/-- what the entry points need of `hash_all_at_once`: it returns the model's root node (a consequence of the `hash_many`
contract: `hash_all_at_once_eq_model`, Props/C01T.lean, or its variant with the strict counter bound, Proofs/RsUpdateLt.lean) -/
def HaaoOk : Prop :=
  ∀ (input : List UInt8) (key : CV) (flags : UInt8), input.length < 2 ^ 64 →
    hash_all_at_once E₀ input key flags = .ok (Rs.hashAllAtOnce K key flags sd input)

theorem haao_with (J : JoinImpl) (H : HaaoOk K sd hm M M2 tpn) (input : List UInt8) (key : CV)
    (flags : UInt8) (hlt : input.length < 2 ^ 64) :
    hash_all_at_once_with E₀ J input key flags = .ok (Rs.hashAllAtOnce K key flags sd input) :=
  H input key flags hlt

theorem ctx_eq (H : HaaoOk K sd hm M M2 tpn) (ctx : List UInt8) (hlt : ctx.length < 2 ^ 64) :
    hash_derive_key_context E₀ (Rs.rootHash K) ctx
      = .ok (Rs.rootHash K (Rs.hashAllAtOnce K Spec.IV Spec.DERIVE_KEY_CONTEXT sd ctx)) := by
  unfold hash_derive_key_context
  rw [haao_with K sd hm M M2 tpn _ H ctx _ _ hlt, Proofs.rs_iv]
  rfl

/-- the three entry points from the `hash_all_at_once` fact -/
theorem oneshot_of_haao (H : HaaoOk K sd hm M M2 tpn) (mode : Spec.Mode) (m : List UInt8)
    (hlt : m.length < 2 ^ 64) (hctx : modeInputsFit mode) :
    runOneShot E₀ (Rs.rootHash K) mode m = .ok (Rs.oneShot K sd mode m) := by
  cases mode with
  | hash =>
    show Gen.RsOneShot.hash _ _ m = _
    unfold Gen.RsOneShot.hash Rs.oneShot
    rw [haao_with K sd hm M M2 tpn _ H m _ _ hlt, Proofs.rs_iv]
    rfl
  | keyed k =>
    show keyed_hash _ _ k m = _
    unfold keyed_hash Rs.oneShot
    simp only []
    rw [haao_with K sd hm M M2 tpn _ H m _ _ hlt]
    rfl
  | derive ctx =>
    show derive_key _ _ ctx m = _
    unfold derive_key Rs.oneShot
    rw [ctx_eq K sd hm M M2 tpn H ctx hctx]
    simp only [bind_ok]
    rw [haao_with K sd hm M M2 tpn _ H m _ _ hlt]
    rfl

/-- `x >>= pure` in the panic monad -/
theorem bind_pure_R {α : Type} (x : R α) : (do let t ← x; pure t) = x := by
  cases x <;> rfl

end

end B3.Proofs.RsOneShot
