/-
The extended output: `OutputReader::fill` (Rust) and `output_root_bytes` (C) return slices of the
specification's output stream and advance the position by the number of bytes produced.
-/
import B3.Proofs.OneShot
import B3.Model.C
namespace B3.Proofs
open B3 B3.Rs
local notation "K₀" => Kern.spec

theorem bytesOfWords_len {n : Nat} (v : Vector UInt32 n) : (bytesOfWords v).length = 4 * n := by
  unfold bytesOfWords
  have : ∀ (l : List UInt32), (l.flatMap wordBytes).length = 4 * l.length := by
    intro l
    induction l with
    | nil => rfl
    | cons a l ih => simp [List.flatMap_cons, ih, wordBytes]; omega
  rw [this]; simp

theorem xofBlock_len (o : Spec.Node) (k : Nat) : (o.xofBlock k).length = 64 := by
  unfold Spec.Node.xofBlock; rw [bytesOfWords_len]

/-- the model's root output block is the specification's -/
theorem rootBlock_eq (o : Spec.Node) (k : Nat) (h : o.blen ≤ 64) : bytesOfWords (rootBlock K₀ o k) = o.xofBlock k := by
  have e : (UInt8.ofNat o.blen).toUInt32 = UInt32.ofNat o.blen := by
    apply UInt32.toNat_inj.mp
    simp [UInt8.toNat_toUInt32, UInt8.toNat_ofNat', UInt32.toNat_ofNat']
    omega
  unfold Rs.rootBlock Spec.Node.xofBlock Spec.Node.rootBlock
  simp only [Kern.spec]
  rw [e]

theorem stream_length (o : Spec.Node) (p n : Nat) : (o.stream p n).length = n := by
  simp [Spec.Node.stream]

theorem stream_add (o : Spec.Node) (p a b : Nat) : o.stream p (a + b) = o.stream p a ++ o.stream (p + a) b := by
  unfold Spec.Node.stream
  rw [List.range_add, List.map_append, List.map_map]
  have : ((fun i => o.streamByte (p + i)) ∘ fun x => a + x) = fun i => o.streamByte (p + a + i) := by
    funext i; simp only [Function.comp, Nat.add_assoc]
  rw [this]

theorem stream_zero (o : Spec.Node) (p : Nat) : o.stream p 0 = [] := rfl

/-- a slice inside one block -/
theorem stream_in_block (o : Spec.Node) (k off m : Nat) (h : off + m ≤ 64) :
    o.stream (64 * k + off) m = ((o.xofBlock k).drop off).take m := by
  apply List.ext_getElem
  · simp [stream_length, xofBlock_len]; omega
  · intro j h1 h2
    simp only [Spec.Node.stream, List.getElem_map, List.getElem_range, Spec.Node.streamByte,
      List.getElem_take, List.getElem_drop]
    rw [stream_length] at h1
    have e1 : (64 * k + off + j) / 64 = k := by omega
    have e2 : (64 * k + off + j) % 64 = off + j := by omega
    rw [e1, e2, List.getD_eq_getElem?_getD, List.getElem?_eq_getElem (by rw [xofBlock_len]; omega)]
    rfl

theorem stream_block (o : Spec.Node) (k : Nat) : o.stream (64 * k) 64 = o.xofBlock k := by
  have := stream_in_block o k 0 64 (by omega)
  simp only [Nat.add_zero, List.drop_zero] at this
  rw [this, List.take_of_length_le (by rw [xofBlock_len]; omega)]

/-- `xof_many`: `n` whole blocks from block `t` -/
theorem xofMany_eq (o : Spec.Node) (h : o.blen ≤ 64) (t n : Nat) : xofMany K₀ o t n = o.stream (64 * t) (64 * n) := by
  induction n with
  | zero => simp [xofMany, stream_zero]
  | succ n ih =>
    unfold xofMany at ih ⊢
    rw [List.range_succ, List.flatMap_append, ih, show 64 * (n + 1) = 64 * n + 64 by omega, stream_add]
    congr 1
    simp only [List.flatMap_cons, List.flatMap_nil, List.append_nil]
    rw [rootBlock_eq _ _ h, ← stream_block, Nat.mul_add]

/-- same node, any counter: what seeking and reading may change -/
def SameNode (a b : Spec.Node) : Prop :=
  a.cv = b.cv ∧ a.block = b.block ∧ a.blen = b.blen ∧ a.flags = b.flags

theorem stream_congr {a b : Spec.Node} (h : SameNode a b) (p n : Nat) : a.stream p n = b.stream p n := by
  obtain ⟨h1, h2, h3, h4⟩ := h
  simp only [Spec.Node.stream, Spec.Node.streamByte, Spec.Node.xofBlock, Spec.Node.rootBlock, h1, h2, h3, h4]

theorem fillOneBlock_spec (r : OutputReader) (want : Nat) (hb : r.inner.blen ≤ 64) (hp : r.pwb < 64) :
    (r.fillOneBlock K₀ want).1 = r.inner.stream r.position (min want (64 - r.pwb)) ∧
    (r.fillOneBlock K₀ want).2.position = r.position + min want (64 - r.pwb) ∧
    (r.fillOneBlock K₀ want).2.pwb < 64 ∧ SameNode (r.fillOneBlock K₀ want).2.inner r.inner := by
  have hlen : (bytesOfWords (rootBlock K₀ r.inner r.inner.t)).length = 64 := by rw [bytesOfWords_len]
  simp only [OutputReader.fillOneBlock, List.length_drop, hlen]
  refine ⟨?_, ?_, ?_, ?_⟩
  · rw [rootBlock_eq _ _ hb]
    have := stream_in_block r.inner r.inner.t r.pwb (min want (64 - r.pwb)) (by omega)
    rw [← this, OutputReader.position, Nat.mul_comm]
  · split <;> simp [OutputReader.position] <;> omega
  · split <;> simp <;> omega
  · split <;> exact ⟨rfl, rfl, rfl, rfl⟩

theorem SameNode.trans {a b c : Spec.Node} (h1 : SameNode a b) (h2 : SameNode b c) : SameNode a c :=
  ⟨h1.1.trans h2.1, h1.2.1.trans h2.2.1, h1.2.2.1.trans h2.2.2.1, h1.2.2.2.trans h2.2.2.2⟩

/-- what each of the three parts of `fill` delivers: the next `n - n'` bytes of the stream -/
structure Part (r : OutputReader) (n : Nat) (o : List UInt8) (r' : OutputReader) (n' : Nat) : Prop where
  le : n' ≤ n
  bytes : o = r.inner.stream r.position (n - n')
  pos : r'.position = r.position + (n - n')
  pwb : r'.pwb < 64
  same : SameNode r'.inner r.inner

theorem fillFirst_spec (r : OutputReader) (n : Nat) (hb : r.inner.blen ≤ 64) (hp : r.pwb < 64) :
    Part r n (r.fillFirst K₀ n).1 (r.fillFirst K₀ n).2.1 (r.fillFirst K₀ n).2.2 ∧
    ((r.fillFirst K₀ n).2.2 = 0 ∨ (r.fillFirst K₀ n).2.1.pwb = 0) := by
  unfold OutputReader.fillFirst
  by_cases hpw : r.pwb ≠ 0
  · rw [if_pos hpw]
    obtain ⟨a1, a2, a3, a4⟩ := fillOneBlock_spec r n hb hp
    have hl : (r.fillOneBlock K₀ n).1.length = min n (64 - r.pwb) := by rw [a1, stream_length]
    simp only
    rw [hl]
    refine ⟨⟨by omega, ?_, ?_, a3, a4⟩, ?_⟩
    · rw [a1]; congr 1; omega
    · rw [a2]; omega
    · by_cases hd : n ≤ 64 - r.pwb
      · left; omega
      · right
        have := a2; simp only [OutputReader.position] at this; omega
  · rw [if_neg hpw]
    simp at hpw
    exact ⟨⟨Nat.le_refl _, by simp [stream_zero], by simp, hp, ⟨rfl, rfl, rfl, rfl⟩⟩, Or.inr hpw⟩

theorem fillMiddle_spec (r : OutputReader) (n : Nat) (hb : r.inner.blen ≤ 64) (hp : r.pwb = 0) :
    Part r n (r.fillMiddle K₀ n).1 (r.fillMiddle K₀ n).2.1 (r.fillMiddle K₀ n).2.2 ∧
    (r.fillMiddle K₀ n).2.1.pwb = 0 ∧ (r.fillMiddle K₀ n).2.2 < 64 := by
  unfold OutputReader.fillMiddle
  have hpos : r.position = 64 * r.inner.t := by simp [OutputReader.position, hp]; omega
  by_cases hf : 0 < n / 64
  · rw [if_pos hf]
    simp only
    refine ⟨⟨by omega, ?_, ?_, by show r.pwb < 64; omega, ⟨rfl, rfl, rfl, rfl⟩⟩, hp, by omega⟩
    · rw [xofMany_eq _ hb, hpos]; congr 1; omega
    · simp [OutputReader.position, hp]; omega
  · rw [if_neg hf]
    exact ⟨⟨Nat.le_refl _, by simp [stream_zero], by simp, by show r.pwb < 64; omega, ⟨rfl, rfl, rfl, rfl⟩⟩, hp,
      by show n < 64; omega⟩

theorem fillLast_spec (r : OutputReader) (n : Nat) (hb : r.inner.blen ≤ 64) (hp : r.pwb = 0) (hn : n < 64) :
    Part r n (r.fillLast K₀ n).1 (r.fillLast K₀ n).2 0 := by
  unfold OutputReader.fillLast
  by_cases h0 : 0 < n
  · rw [if_pos h0]
    obtain ⟨a1, a2, a3, a4⟩ := fillOneBlock_spec r n hb (by omega)
    rw [hp] at a1 a2
    have hmin : min n (64 - 0) = n := by omega
    rw [hmin] at a1 a2
    exact ⟨by omega, by simpa using a1, by simpa using a2, a3, a4⟩
  · rw [if_neg h0]
    have : n = 0 := by omega
    subst this
    exact ⟨Nat.le_refl _, by simp [stream_zero], by simp, by show r.pwb < 64; omega, ⟨rfl, rfl, rfl, rfl⟩⟩

/-- **`OutputReader::fill`**: for a reader at position `p`, filling `n` bytes returns
`S[p, p+n)` of the node's output stream and advances the position to `p + n`; the node itself
(input chaining value, block, length, flags) is never changed. -/
theorem fill_eq_slice (r : OutputReader) (n : Nat) (hb : r.inner.blen ≤ 64) (hp : r.pwb < 64) :
    (r.fill K₀ n).1 = r.inner.stream r.position n ∧ (r.fill K₀ n).2.position = r.position + n ∧
    (r.fill K₀ n).2.pwb < 64 ∧ SameNode (r.fill K₀ n).2.inner r.inner := by
  unfold OutputReader.fill
  by_cases h0 : n = 0
  · subst h0; simp [stream_zero, SameNode]; exact hp
  · rw [if_neg h0]
    simp only
    obtain ⟨p1, e1⟩ := fillFirst_spec r n hb hp
    generalize r.fillFirst K₀ n = f1 at p1 e1 ⊢
    obtain ⟨o1, r1, n1⟩ := f1
    simp only at p1 e1 ⊢
    have hb1 : r1.inner.blen ≤ 64 := by rw [p1.same.2.2.1]; exact hb
    rcases e1 with e1 | e1
    · -- everything was delivered by the first part
      subst e1
      have hm : r1.fillMiddle K₀ 0 = ([], r1, 0) := by simp [OutputReader.fillMiddle]
      rw [hm]
      simp only [OutputReader.fillLast, Nat.lt_irrefl, if_false, List.append_nil]
      exact ⟨by simpa using p1.bytes, by simpa using p1.pos, p1.pwb, p1.same⟩
    · obtain ⟨p2, e2, e3⟩ := fillMiddle_spec r1 n1 hb1 e1
      generalize r1.fillMiddle K₀ n1 = f2 at p2 e2 e3 ⊢
      obtain ⟨o2, r2, n2⟩ := f2
      simp only at p2 e2 e3 ⊢
      have hb2 : r2.inner.blen ≤ 64 := by rw [p2.same.2.2.1]; exact hb1
      have p3 := fillLast_spec r2 n2 hb2 e2 e3
      have s1 := stream_congr p1.same
      have s2 := stream_congr (p2.same.trans p1.same)
      refine ⟨?_, ?_, p3.pwb, (p3.same.trans p2.same).trans p1.same⟩
      · rw [p1.bytes, p2.bytes, p3.bytes, s1, s2, p1.pos, p2.pos, p1.pos]
        have h1 := p1.le; have h2 := p2.le
        rw [← stream_add, Nat.add_assoc, ← stream_add]
        congr 1; omega
      · rw [p3.pos, p2.pos, p1.pos]
        have h1 := p1.le; have h2 := p2.le
        omega

end B3.Proofs

namespace B3.Proofs
open B3 B3.Rs
local notation "K₀" => Kern.spec

/-- **C `output_root_bytes`**: exactly `S[seek, seek + out_len)` -/
theorem c_outputRootBytes_eq (o : Spec.Node) (hb : o.blen ≤ 64) (seek outLen : Nat) :
    C.outputRootBytes K₀ o seek outLen = o.stream seek outLen := by
  unfold C.outputRootBytes
  by_cases h0 : outLen = 0
  · subst h0; simp [stream_zero]
  · rw [if_neg h0]
    have hseek : seek = 64 * (seek / 64) + seek % 64 := by omega
    by_cases hoff : seek % 64 = 0
    · -- block aligned
      simp only [hoff, ne_eq, not_true_eq_false, if_false, List.nil_append]
      have hs : seek = 64 * (seek / 64) := by omega
      have e2 : (if ¬ outLen / 64 = 0 then xofMany K₀ o (seek / 64) (outLen / 64) else []) = o.stream seek (64 * (outLen / 64)) := by
        split
        · rw [xofMany_eq _ hb, ← hs]
        · rename_i h; simp at h; rw [Nat.div_eq_of_lt h]; simp [stream_zero]
      have e3 : (if ¬ outLen - outLen / 64 * 64 = 0 then
            (bytesOfWords (rootBlock K₀ o (seek / 64 + outLen / 64))).take (outLen - outLen / 64 * 64) else [])
          = o.stream (seek + 64 * (outLen / 64)) (outLen - outLen / 64 * 64) := by
        split
        · rw [rootBlock_eq _ _ hb]
          have := stream_in_block o (seek / 64 + outLen / 64) 0 (outLen - outLen / 64 * 64) (by omega)
          simp only [Nat.add_zero, List.drop_zero] at this
          rw [← this]; congr 1; omega
        · rename_i h; simp at h; rw [h]; rfl
      rw [e2, e3, ← stream_add]
      congr 1; omega
    · simp only [hoff, ne_eq, not_false_eq_true, if_true]
      generalize hn1 : (if outLen > 64 - seek % 64 then 64 - seek % 64 else outLen) = n1
      have hn1' : n1 = min outLen (64 - seek % 64) := by rw [← hn1]; split <;> omega
      have e1 : ((bytesOfWords (rootBlock K₀ o (seek / 64))).drop (seek % 64)).take n1 = o.stream seek n1 := by
        rw [rootBlock_eq _ _ hb]
        have := stream_in_block o (seek / 64) (seek % 64) n1 (by omega)
        rw [← this, ← hseek]
      generalize hrem : outLen - n1 = rem
      have e2 : (if ¬ rem / 64 = 0 then xofMany K₀ o (seek / 64 + 1) (rem / 64) else []) = o.stream (seek + n1) (64 * (rem / 64)) := by
        split
        · rw [xofMany_eq _ hb]
          have : rem ≠ 0 := by intro h; simp [h] at *
          congr 1; omega
        · rename_i h; simp at h; rw [Nat.div_eq_of_lt h]; simp [stream_zero]
      have e3 : (if ¬ rem - rem / 64 * 64 = 0 then
            (bytesOfWords (rootBlock K₀ o (seek / 64 + 1 + rem / 64))).take (rem - rem / 64 * 64) else [])
          = o.stream (seek + n1 + 64 * (rem / 64)) (rem - rem / 64 * 64) := by
        split
        · rename_i hne
          rw [rootBlock_eq _ _ hb]
          have := stream_in_block o (seek / 64 + 1 + rem / 64) 0 (rem - rem / 64 * 64) (by omega)
          simp only [Nat.add_zero, List.drop_zero] at this
          rw [← this]
          have : rem ≠ 0 := by intro h; simp [h] at hne
          congr 1; omega
        · rename_i h; simp at h; rw [h]; rfl
      rw [e1, e2, e3, ← stream_add, Nat.add_assoc, ← stream_add]
      congr 1; omega

end B3.Proofs
