/-
src/traits.rs and src/guts.rs, as translated from the source on every run (Gen/RsTraits.lean, artefact
G13-traits: every method body statement by statement over the inherent operations of `RsApi.Api`),
instantiated with the executable model of the crate (`modelApi`), are the hand-written models of
`Model/Traits.lean` for every state and every input; restated for the generated code: the state the
resetting finalizers leave behind, `KeyInit::new`, the guts API against the specification, and two
end-to-end statements (a reused MAC / XOF hasher) against `Spec.hash` / `Spec.xof`.
-/
import B3.Gen.RsTraits
import B3.Model.Traits
import B3.Props.C16
import B3.Props.C03
namespace B3.Proofs.RsTraits
open B3 B3.Rs B3.RsApi

/-! ### the model as an instance of the interface the translation is written against -/

/-- each field is the model's function for the inherent operation named in `Api`'s docstring; the
platform (`Platform::detect()`) is the pair of model parameters `K`, `sd` -/
@[reducible] def modelApi (K : Kern) (sd : Nat) : Api where
  Hasher := Rs.Hasher
  OutputReader := Rs.OutputReader
  Hash := List UInt8
  Output := Spec.Node
  ChunkState := Rs.ChunkState
  Platform := Unit
  hasher_update h x := ofOption (h.update K sd x)
  hasher_reset h := h.reset
  hasher_finalize h := ofOption (h.finalize K)
  -- `assert_eq!(self.initial_chunk_counter, 0); OutputReader::new(self.final_output())`
  hasher_finalize_xof h := if h.t0 ≠ 0 then .panic else .ok (OutputReader.new (h.finalOutput K))
  -- `Self::new_internal(&words_from_le_bytes_32(key), KEYED_HASH)`
  hasher_new_keyed key := Hasher.newInternal (wordsOfBytes 8 key) Spec.KEYED_HASH
  -- `Self::new()` = `Self::new_internal(IV, 0)`
  hasher_default := Hasher.newInternal Spec.IV 0
  reader_fill r buf := ((r.fill K buf.length).2, (r.fill K buf.length).1)
  hash_as_bytes b := b
  hash_from_bytes b := b
  chunk_state_new key t flags _ := ChunkState.new key t flags
  chunk_state_count cs := cs.count
  chunk_state_update cs x := cs.update K x
  chunk_state_output cs := cs.output
  output_chaining_value o := bytesOfWords (chain K o)
  -- `debug_assert_eq!(self.counter, 0)`
  output_root_hash o := if o.t = 0 then .ok (rootHash K o) else .panic
  parent_node_output l r key flags _ := parentOutput key flags (wordsOfBytes 8 l) (wordsOfBytes 8 r)
  platform_detect := ()

variable (K : Kern) (sd : Nat)

theorem rootHash_length (o : Spec.Node) : (rootHash K o).length = 32 := by
  unfold rootHash; rw [Proofs.bytesOfWords_len]

theorem copy_ok (dst src : List UInt8) (h : dst.length = src.length) : copy_from_slice dst src = .ok src := by
  unfold copy_from_slice; rw [if_pos h]

theorem gen_iv : Gen.Rs.IV = Spec.IV := by decide

/-! ### generated = model (`Model/Traits.lean`), for every kernel, SIMD degree, state and input -/

theorem update_eq_model (h : Hasher) (data : List UInt8) :
    Gen.RsTraits.Update.update (modelApi K sd) h data = ofOption (Traits.update K sd h data) := by
  unfold Gen.RsTraits.Update.update Traits.update
  simp only [modelApi]

theorem reset_eq_model (h : Hasher) :
    Gen.RsTraits.Reset.reset (modelApi K sd) h = .ok (Traits.reset h) := rfl

theorem finalize_length (h : Hasher) (o : List UInt8) (hf : h.finalize K = some o) : o.length = 32 := by
  unfold Hasher.finalize at hf
  by_cases h0 : h.t0 ≠ 0
  · rw [if_pos h0] at hf; cases hf
  · rw [if_neg h0] at hf; cases hf; exact rootHash_length K _

theorem finalize_into_eq_model (h : Hasher) (out : List UInt8) (hout : out.length = Gen.RsTraits.OutputSize) :
    Gen.RsTraits.FixedOutput.finalize_into (modelApi K sd) h out = ofOption (Traits.finalizeInto K h) := by
  unfold Gen.RsTraits.FixedOutput.finalize_into Traits.finalizeInto
  simp only [modelApi]
  cases hf : h.finalize K with
  | none => rfl
  | some o =>
    have hl : out.length = o.length := by rw [finalize_length K h o hf, hout]; rfl
    simp only [ofOption, bind, copy_ok out o hl]

theorem finalize_into_reset_eq_model (h : Hasher) (out : List UInt8) (hout : out.length = Gen.RsTraits.OutputSize) :
    Gen.RsTraits.FixedOutputReset.finalize_into_reset (modelApi K sd) h out
      = ofOption ((Traits.finalizeIntoReset K h).map fun p => (p.2, p.1)) := by
  unfold Gen.RsTraits.FixedOutputReset.finalize_into_reset Traits.finalizeIntoReset
  simp only [modelApi]
  cases hf : h.finalize K with
  | none => rfl
  | some o =>
    have hl : out.length = o.length := by rw [finalize_length K h o hf, hout]; rfl
    simp only [ofOption, bind, copy_ok out o hl]
    rfl

theorem finalize_xof_eq_model (h : Hasher) :
    Gen.RsTraits.ExtendableOutput.finalize_xof (modelApi K sd) h = ofOption (Traits.finalizeXof K h) := by
  unfold Gen.RsTraits.ExtendableOutput.finalize_xof Traits.finalizeXof
  simp only [modelApi]
  by_cases h0 : h.t0 ≠ 0
  · rw [if_pos h0, if_pos h0]; rfl
  · rw [if_neg h0, if_neg h0]; rfl

theorem finalize_xof_reset_eq_model (h : Hasher) :
    Gen.RsTraits.ExtendableOutputReset.finalize_xof_reset (modelApi K sd) h = ofOption (Traits.finalizeXofReset K h) := by
  unfold Gen.RsTraits.ExtendableOutputReset.finalize_xof_reset Traits.finalizeXofReset Traits.finalizeXof
  simp only [modelApi]
  by_cases h0 : h.t0 ≠ 0
  · rw [if_pos h0, if_pos h0]; rfl
  · rw [if_neg h0, if_neg h0]; rfl

theorem read_eq_model (r : OutputReader) (buffer : List UInt8) :
    Gen.RsTraits.XofReader.read (modelApi K sd) r buffer
      = .ok ((Traits.xofRead K r buffer.length).2, (Traits.xofRead K r buffer.length).1) := rfl

theorem key_init_new_eq_model (key : List UInt8) :
    Gen.RsTraits.KeyInit.new (modelApi K sd) key = .ok (Traits.keyInitNew key) := rfl

theorem guts_new_eq_model (c : Nat) :
    Gen.RsTraits.Guts.ChunkState.new (modelApi K sd) c = .ok (Traits.gutsNew c) := by
  unfold Gen.RsTraits.Guts.ChunkState.new Traits.gutsNew
  simp only [modelApi, gen_iv]; rfl

theorem guts_len_eq_model (cs : ChunkState) :
    Gen.RsTraits.Guts.ChunkState.len (modelApi K sd) cs = .ok (Traits.gutsLen cs) := rfl

theorem guts_update_eq_model (cs : ChunkState) (input : List UInt8) :
    Gen.RsTraits.Guts.ChunkState.update (modelApi K sd) cs input = .ok (Traits.gutsUpdate K cs input) := rfl

theorem guts_finalize_eq_model (cs : ChunkState) (isRoot : Bool) :
    Gen.RsTraits.Guts.ChunkState.finalize (modelApi K sd) cs isRoot = ofOption (Traits.gutsFinalize K cs isRoot) := by
  unfold Gen.RsTraits.Guts.ChunkState.finalize Traits.gutsFinalize
  simp only [modelApi]
  cases isRoot
  · rfl
  · simp only [if_true]
    have : cs.output.t = cs.t := rfl
    rw [this]
    by_cases h0 : cs.t = 0
    · rw [if_pos h0, if_pos h0]; rfl
    · rw [if_neg h0, if_neg h0]; rfl

theorem guts_parent_cv_eq_model (l r : List UInt8) (isRoot : Bool) :
    Gen.RsTraits.Guts.parent_cv (modelApi K sd) l r isRoot
      = .ok (Traits.gutsParentCv K (wordsOfBytes 8 l) (wordsOfBytes 8 r) isRoot) := by
  unfold Gen.RsTraits.Guts.parent_cv Traits.gutsParentCv
  simp only [modelApi, gen_iv]
  cases isRoot <;> rfl


/-! ### the bodies as compositions of the inherent operations, for ANY implementation of `Api`

These restate the generated definitions in closed form; they are what a reordering of the statements
of a body (reset before finalize), a dropped call or a different inherent method breaks. -/

section abstract
variable (I : Api)

theorem update_is_inherent (h : I.Hasher) (data : List UInt8) :
    Gen.RsTraits.Update.update I h data = I.hasher_update h data := by
  unfold Gen.RsTraits.Update.update
  cases I.hasher_update h data <;> rfl

theorem reset_is_inherent (h : I.Hasher) : Gen.RsTraits.Reset.reset I h = .ok (I.hasher_reset h) := rfl

theorem finalize_into_is_inherent (h : I.Hasher) (out : List UInt8) :
    Gen.RsTraits.FixedOutput.finalize_into I h out
      = (I.hasher_finalize h >>= fun hash => copy_from_slice out (I.hash_as_bytes hash)) := by
  unfold Gen.RsTraits.FixedOutput.finalize_into
  cases I.hasher_finalize h with
  | panic => rfl
  | ok hash => simp only [bind]

/-- `finalize_into_reset` = the consuming `finalize_into` on the state before, and the state left
behind is the inherent `reset` of the state before (finalize FIRST, then reset) -/
theorem finalize_into_reset_is_finalize_then_reset (h : I.Hasher) (out : List UInt8) :
    Gen.RsTraits.FixedOutputReset.finalize_into_reset I h out
      = (Gen.RsTraits.FixedOutput.finalize_into I h out >>= fun out' => pure (I.hasher_reset h, out')) := by
  unfold Gen.RsTraits.FixedOutputReset.finalize_into_reset Gen.RsTraits.FixedOutput.finalize_into
  cases I.hasher_finalize h with
  | panic => rfl
  | ok hash => simp only [bind]

theorem finalize_xof_is_inherent (h : I.Hasher) :
    Gen.RsTraits.ExtendableOutput.finalize_xof I h = I.hasher_finalize_xof h := by
  unfold Gen.RsTraits.ExtendableOutput.finalize_xof
  cases I.hasher_finalize_xof h <;> rfl

theorem finalize_xof_reset_is_finalize_then_reset (h : I.Hasher) :
    Gen.RsTraits.ExtendableOutputReset.finalize_xof_reset I h
      = (Gen.RsTraits.ExtendableOutput.finalize_xof I h >>= fun reader => pure (reader, I.hasher_reset h)) := by
  unfold Gen.RsTraits.ExtendableOutputReset.finalize_xof_reset Gen.RsTraits.ExtendableOutput.finalize_xof
  cases I.hasher_finalize_xof h <;> rfl

theorem read_is_fill (r : I.OutputReader) (buffer : List UInt8) :
    Gen.RsTraits.XofReader.read I r buffer = .ok (I.reader_fill r buffer) := rfl

/-- `KeyInit::new(k)` is `Hasher::new_keyed(k)` -/
theorem key_init_new_is_new_keyed (key : List UInt8) :
    Gen.RsTraits.KeyInit.new I key = .ok (I.hasher_new_keyed key) := rfl

/-- guts: regular hash mode (`IV`, flags 0) at the given chunk counter, on the detected platform -/
theorem guts_new_is (c : Nat) :
    Gen.RsTraits.Guts.ChunkState.new I c = .ok (I.chunk_state_new Gen.Rs.IV c 0 I.platform_detect) := rfl

theorem guts_finalize_is (cs : I.ChunkState) (isRoot : Bool) :
    Gen.RsTraits.Guts.ChunkState.finalize I cs isRoot
      = if isRoot then I.output_root_hash (I.chunk_state_output cs)
        else .ok (I.hash_from_bytes (I.output_chaining_value (I.chunk_state_output cs))) := by
  unfold Gen.RsTraits.Guts.ChunkState.finalize
  cases isRoot
  · rfl
  · simp only [if_true]

theorem guts_parent_cv_is (l r : I.Hash) (isRoot : Bool) :
    Gen.RsTraits.Guts.parent_cv I l r isRoot
      = (let o := I.parent_node_output (I.hash_as_bytes l) (I.hash_as_bytes r) Gen.Rs.IV 0 I.platform_detect
         if isRoot then I.output_root_hash o else .ok (I.hash_from_bytes (I.output_chaining_value o))) := by
  unfold Gen.RsTraits.Guts.parent_cv
  cases isRoot
  · rfl
  · simp only [if_true]

end abstract

/-! ### helper lemmas for the statements against the specification -/

open Props in
/-- a register of the C02 history machine that satisfies its invariant finalizes to the specification's
hash and root node (the body of `C02.history_correct`, for a register rather than a run) -/
theorem ok_finalize (r : C02.Reg) (hr : C02.Ok r) :
    r.h.finalize genK = some (Spec.hash r.mode r.absorbed) ∧ r.h.finalOutput genK = Spec.root r.mode r.absorbed := by
  obtain ⟨rep, k1, k2, k3⟩ := hr
  have hroot : r.h.finalOutput genK = Spec.root r.mode r.absorbed := by
    rw [Proofs.genK_eq_spec, Proofs.finalOutput_root r.h r.absorbed rep k3, k1, k2]; rfl
  refine ⟨?_, hroot⟩
  unfold Hasher.finalize
  rw [if_neg (by simp [k3]), hroot]
  congr 1
  rw [Proofs.genK_eq_spec]
  exact Proofs.rootHash_eq _ (Proofs.rootNode_blen _ _ _)

open Props in
theorem ok_reset (sd j : Nat) (hsd : sd = 2 ^ j) (r : C02.Reg) (hr : C02.Ok r) :
    C02.Ok { r with h := r.h.reset, absorbed := [] } := by
  have := C02.step_ok sd j hsd [r] (.reset 0) (by simpa using hr)
  simpa [C02.step] using this

open Props in
/-- any number of trait-level `update`s on a register that satisfies the invariant: no panic, and the
invariant holds for the concatenation -/
theorem ok_updates (sd j : Nat) (hsd : sd = 2 ^ j) (xs : List (List UInt8)) :
    ∀ (r : C02.Reg), C02.Ok r →
      ∃ h', xs.foldlM (Gen.RsTraits.Update.update (modelApi genK sd)) r.h = .ok h' ∧
        C02.Ok { r with h := h', absorbed := r.absorbed ++ xs.flatten } := by
  induction xs with
  | nil => intro r hr; exact ⟨r.h, rfl, by simpa using hr⟩
  | cons y ys ih =>
    intro r hr
    obtain ⟨h', hu⟩ := C02.update_total sd r y hr.2.2.2
    have hstep : C02.step sd [r] (.update 0 y) = [{ r with h := h', absorbed := r.absorbed ++ y }] := by
      simp [C02.step, hu]
    have hok := C02.step_ok sd j hsd [r] (.update 0 y) (by simpa using hr)
    rw [hstep] at hok
    obtain ⟨h'', e1, e2⟩ := ih { r with h := h', absorbed := r.absorbed ++ y } (by simpa using hok)
    refine ⟨h'', ?_, by simpa [List.append_assoc] using e2⟩
    rw [List.foldlM_cons, update_eq_model]
    simp only [Traits.update, hu, ofOption, bind]
    exact e1

open Props in
/-- updates on a freshly constructed hasher of a mode -/
theorem updates_fresh (sd j : Nat) (hsd : sd = 2 ^ j) (mode : Spec.Mode) (xs : List (List UInt8)) :
    ∃ h', xs.foldlM (Gen.RsTraits.Update.update (modelApi genK sd)) (Hasher.newInternal mode.key mode.flags) = .ok h' ∧
      C02.Ok { h := h', mode := mode, absorbed := xs.flatten } := by
  obtain ⟨h', e, ok⟩ := ok_updates sd j hsd xs { h := Hasher.newInternal mode.key mode.flags, mode := mode, absorbed := [] }
    ⟨Proofs.rep_new _ _, rfl, rfl, rfl⟩
  exact ⟨h', e, by simpa using ok⟩

theorem wordAt_cons_succ (w : UInt32) (rest : List UInt8) (i : Nat) :
    wordAt (wordBytes w ++ rest) (i + 1) = wordAt rest i := by
  have h : ∀ k, (wordBytes w ++ rest).getD (4 * (i + 1) + k) 0 = rest.getD (4 * i + k) 0 := by
    intro k
    simp only [List.getD_eq_getElem?_getD]
    rw [List.getElem?_append_right (by simp [wordBytes]; omega)]
    congr 2
    simp [wordBytes]; omega
  unfold wordAt
  have h0 := h 0
  simp only [Nat.add_zero] at h0
  rw [h0, h 1, h 2, h 3]

theorem wordAt_flatMap (l : List UInt32) : ∀ (i : Nat) (h : i < l.length), wordAt (l.flatMap wordBytes) i = l[i] := by
  induction l with
  | nil => intro i h; simp at h
  | cons w l ih =>
    intro i h
    rw [List.flatMap_cons]
    cases i with
    | zero => rw [wordAt_wordBytes_append]; rfl
    | succ i => rw [wordAt_cons_succ, ih i (by simpa using h)]; rfl

/-- words -> little-endian bytes -> words is the identity (`le_bytes_from_words_32` / `words_from_le_bytes_32`) -/
theorem words_bytes_roundtrip {n : Nat} (v : Vector UInt32 n) : wordsOfBytes n (bytesOfWords v) = v := by
  apply Vector.ext
  intro i hi
  unfold wordsOfBytes bytesOfWords
  rw [Vector.getElem_ofFn]
  simp only []
  rw [wordAt_flatMap v.toList i (by simpa using hi)]
  simp

theorem chunkGo_t (flags : UInt8) (t : Nat) (cv : CV) (first : Bool) (c : List UInt8) :
    (Spec.chunkGo flags t cv first c).t = t := by
  induction hn : c.length using Nat.strongRecOn generalizing cv first c with
  | _ n ih =>
    by_cases h : c.length ≤ 64
    · rw [Spec.chunkGo, dif_pos h]
    · rw [Spec.chunkGo, dif_neg h]
      exact ih (c.drop 64).length (by simp [List.length_drop]; omega) _ _ _ rfl

theorem rootNode_t (key : CV) (flags : UInt8) (m : List UInt8) : (Spec.rootNode key flags m).t = 0 := by
  unfold Spec.rootNode
  simp only []
  split
  · unfold Spec.chunkNode; exact chunkGo_t _ _ _ _ _
  · rfl

/-- two consecutive `XofReader::read`s (generated) on the reader that `finalize_xof` returns for a root node of
the specification produce the first `n1` bytes of the specification's output stream and the next `n2` -/
theorem read_twice (sd : Nat) (mode : Spec.Mode) (m : List UInt8) (buf1 buf2 : List UInt8) :
    ∃ rd1 rd2,
      Gen.RsTraits.XofReader.read (modelApi genK sd) (OutputReader.new (Spec.root mode m)) buf1
        = .ok (rd1, Spec.xof mode m 0 buf1.length) ∧
      Gen.RsTraits.XofReader.read (modelApi genK sd) rd1 buf2 = .ok (rd2, Spec.xof mode m buf1.length buf2.length) := by
  have hb : (Spec.root mode m).blen ≤ 64 := Proofs.rootNode_blen _ _ _
  have h0 : Props.C03.WellFormed (Spec.root mode m) (OutputReader.new (Spec.root mode m)) :=
    ⟨by simp [OutputReader.new], ⟨rfl, rfl, rfl, rfl⟩, hb⟩
  have hp : (OutputReader.new (Spec.root mode m)).position = 0 := by
    simp [OutputReader.new, OutputReader.position, Spec.root, rootNode_t]
  obtain ⟨w1, f1⟩ := Props.C03.rstep_wf _ _ (.fill buf1.length) h0
  obtain ⟨a1, a2⟩ := f1 _ rfl
  obtain ⟨_, f2⟩ := Props.C03.rstep_wf _ _ (.fill buf2.length) w1
  obtain ⟨b1, _⟩ := f2 _ rfl
  refine ⟨((OutputReader.new (Spec.root mode m)).fill genK buf1.length).2,
    ((((OutputReader.new (Spec.root mode m)).fill genK buf1.length).2).fill genK buf2.length).2, ?_, ?_⟩
  · rw [read_eq_model]
    simp only [Traits.xofRead, Spec.xof]
    rw [hp] at a1
    exact congrArg R.ok (Prod.ext rfl a1)
  · rw [read_eq_model]
    simp only [Traits.xofRead, Spec.xof]
    rw [a2, hp, Nat.zero_add] at b1
    exact congrArg R.ok (Prod.ext rfl b1)

end B3.Proofs.RsTraits
