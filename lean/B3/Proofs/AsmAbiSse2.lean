import B3.Gen.AsmAbiSse2Unix
import B3.Gen.AsmAbiSse2Wgnu
import B3.Gen.AsmAbiSse2Msvc
import B3.Asm.Abi

/-! Kernel evaluation of the checker `B3.Asm.abiOk` on the generated abstractions of the sse2 assembly files
(`decide +kernel`: the kernel itself runs the abstract interpreter). -/

namespace B3.Proofs.AsmAbi
open B3.Asm B3.Gen.AsmAbi

theorem hash_many_sse2_unix_ok : abiOk .sysv hash_many_sse2_unix = true := by decide +kernel
theorem compress_in_place_sse2_unix_ok : abiOk .sysv compress_in_place_sse2_unix = true := by decide +kernel
theorem compress_xof_sse2_unix_ok : abiOk .sysv compress_xof_sse2_unix = true := by decide +kernel
theorem hash_many_sse2_wgnu_ok : abiOk .win64 hash_many_sse2_wgnu = true := by decide +kernel
theorem compress_in_place_sse2_wgnu_ok : abiOk .win64 compress_in_place_sse2_wgnu = true := by decide +kernel
theorem compress_xof_sse2_wgnu_ok : abiOk .win64 compress_xof_sse2_wgnu = true := by decide +kernel
theorem hash_many_sse2_msvc_ok : abiOk .win64 hash_many_sse2_msvc = true := by decide +kernel
theorem compress_in_place_sse2_msvc_ok : abiOk .win64 compress_in_place_sse2_msvc = true := by decide +kernel
theorem compress_xof_sse2_msvc_ok : abiOk .win64 compress_xof_sse2_msvc = true := by decide +kernel

end B3.Proofs.AsmAbi
