/-
The subtree functions of src/lib.rs as translated in Gen/RsUpdate.lean equal the model under the `hash_many` contract with
the STRICT counter bound (`HashManySpecLt` of Proofs/PortableMany.lean: `t + inputs.len() < 2^64`), which is what the portable
implementation of src/portable.rs satisfies in a build with overflow checks (its `counter += 1` after the last input
overflows at `t + inputs.len() = 2^64`).  The proofs are those of Proofs/RsUpdate.lean (`parents_eq`, `chunks_eq`, `wide_eq`,
`condense_loop_eq`, `to_parent_node_eq`, `hash_all_at_once_eq_model`) with the hypothesis on the chunk counters made strict;
everything that does not mention the contract is reused from there.
-/
import B3.Proofs.RsUpdate
import B3.Proofs.PortableMany
namespace B3.Proofs.RsUpdateLt
open B3 B3.Arith B3.Gen.RsUpdate B3.Proofs.RsUpdate
open B3.Proofs.PortableMany (HashManySpecLt)

section part2
variable (K : Kern) (sd : Nat)
variable (hm : Nat → List (List UInt8) → CV → Nat → Bool → UInt8 → UInt8 → UInt8 → List CV → R (List CV)) (M M2 : Nat)
variable (tpn : List UInt8 → CV → Nat → UInt8 → R (List CV))

local notation "E₀" => modelEnv K sd hm M M2 tpn

/-- **`compress_parents_parallel`**, as translated, writes `pairUp` of its input to the front of `out` and returns its
length; nothing else of `out` changes. Obligations: at most `2 * MAX_SIMD_DEGREE_OR_2` children (the ArrayVec capacity:
the source's `debug_assert!(num_children <= 2 * MAX_SIMD_DEGREE_OR_2)`) and room in `out` for the result. -/
theorem parents_eq (hspec : HashManySpecLt K hm) (cvs : List CV) (key : CV) (flags : UInt8) (out : List CV)
    (hcap : cvs.length ≤ 2 * M2) (hout : (cvs.length + 1) / 2 ≤ out.length) (hol : out.length < 2 ^ 64) :
    compress_parents_parallel E₀ cvs key flags out
      = .ok ((Tr.pairUp (Rs.parentCV K key flags) cvs).length,
             Tr.pairUp (Rs.parentCV K key flags) cvs ++ out.drop (Tr.pairUp (Rs.parentCV K key flags) cvs).length) := by
  obtain ⟨f1, f2, f3, f4, f5⟩ := chunksExact_facts 2 (by omega) cvs
  have hpu := pairUp_chunks (Rs.parentCV K key flags) key cvs
  have hpl := Tr.pairUp_length (Rs.parentCV K key flags) cvs
  unfold compress_parents_parallel
  simp only [cdiv_ok _ 32 (by omega), bind_ok]
  rw [parents_for_eq K sd hm M M2 tpn _ [] f1 (by simp; omega)]
  simp only [bind_ok, List.nil_append, E_hm]
  rw [hspec 64 _ key 0 false (flags ||| 4) 0 0 out
    (by intro s hs
        simp only [List.mem_map] at hs
        obtain ⟨c, hc, rfl⟩ := hs
        rw [cvsBytes_length, f1 c hc])
    (by omega) (by omega) (by rw [List.length_map]; omega) (by intro h; simp at h)]
  simp only [bind_ok, List.length_map]
  rw [hashMany_parents K key flags _ f1]
  generalize hch : (chunksExact 2 cvs).1 = chunks at *
  generalize hrm : (chunksExact 2 cvs).2 = rem at *
  have hml : (chunks.map fun c => Rs.parentCV K key flags (c.getD 0 key) (c.getD 1 key)).length = chunks.length := by simp
  by_cases hr : (!rem.isEmpty) = true
  · rw [if_pos hr]
    have hrl : rem.length = 1 := by
      have h0 : rem ≠ [] := by intro h; subst h; simp at hr
      have := List.length_pos_iff.mpr h0
      omega
    rw [copyInto_ok _ _ _ _ (by simp; omega) hrl]
    simp only [bind_ok, cadd_ok chunks.length 1 (by omega), pure_ok]
    rw [hpu]
    congr 1
    simp only [List.length_append, List.length_map, hrl]
    rw [List.take_left' hml, List.drop_append, List.drop_drop, hml,
      List.drop_of_length_le (by rw [hml]; omega)]
    have : chunks.length + (chunks.length + 1 - chunks.length) = chunks.length + 1 := by omega
    rw [this, List.nil_append]
  · rw [if_neg hr]
    have hrn : rem = [] := by
      cases rem with
      | nil => rfl
      | cons a r => simp at hr
    subst hrn
    simp only [pure_ok, hpu, List.append_nil, List.length_map]

/-- **`compress_chunks_parallel`**, as translated, writes the chaining values of all chunks of a non-empty input (whole
chunks through `hash_many`, the partial one through a `ChunkState`) to the front of `out` and returns their number.
Obligations: at most `MAX_SIMD_DEGREE` chunks of input (the source's `debug_assert`, here the ArrayVec capacity), room in
`out`, chunk counters below 2^64. -/
theorem chunks_eq (hspec : HashManySpecLt K hm) (input : List UInt8) (key : CV) (t : Nat) (flags : UInt8) (out : List CV)
    (hpos : 0 < input.length) (hcap : input.length ≤ M * 1024)
    (hout : Hs.nchunks 10 input.length ≤ out.length) (hol : out.length < 2 ^ 64)
    (hctr : t + Hs.nchunks 10 input.length < 2 ^ 64) :
    compress_chunks_parallel E₀ input key t flags out
      = .ok ((Hs.allLeaves 10 (Rs.leafCV K key flags) t input).length,
             Hs.allLeaves 10 (Rs.leafCV K key flags) t input
               ++ out.drop (Hs.allLeaves 10 (Rs.leafCV K key flags) t input).length) := by
  obtain ⟨f1, f2, f3, f4, f5⟩ := chunksExact_facts 1024 (by omega) input
  have hal := allLeaves_chunks (Rs.leafCV K key flags) t input hpos
  have hlen := Hs.allLeaves_length 10 (Rs.leafCV K key flags) t input hpos
  have hnc : Hs.nchunks 10 input.length = input.length / 1024 + (if input.length % 1024 = 0 then 0 else 1) := by
    unfold Hs.nchunks; rw [two_pow_ten]; split <;> omega
  have hM : (chunksExact 1024 input).1.length ≤ M := by
    rw [f3]
    exact Nat.div_le_of_le_mul (by rw [Nat.mul_comm]; exact hcap)
  unfold compress_chunks_parallel
  simp only []
  rw [chunks_for_eq K sd hm M M2 tpn _ [] f1 (by simp; exact hM)]
  simp only [bind_ok, List.nil_append, E_hm, E_new, E_update, E_output, E_chain]
  generalize hch : (chunksExact 1024 input).1 = chunks at *
  generalize hrm : (chunksExact 1024 input).2 = rem at *
  rw [hspec 1024 chunks key t true flags 1 2 out f1 (by omega) (by omega) (by omega) (by intro _; omega)]
  simp only [bind_ok]
  rw [hashMany_chunks K key flags t chunks f1]
  have hll := leavesFrom_length (Rs.leafCV K key flags) t chunks
  by_cases hr : (!rem.isEmpty) = true
  · rw [if_pos hr]
    have h0 : rem ≠ [] := by intro h; subst h; simp at hr
    have hrl := List.length_pos_iff.mpr h0
    rw [if_neg h0] at hal
    rw [if_neg (by omega)] at hnc
    simp only [cadd_ok t chunks.length (by omega), bind_ok]
    rw [setIdx_ok _ _ _ (by rw [List.length_append, hll, List.length_drop]; omega)]
    simp only [bind_ok, cadd_ok chunks.length 1 (by omega), pure_ok]
    rw [hal]
    have hleaf : Rs.leafCV K key flags (t + chunks.length) rem
        = Rs.chain K (Rs.ChunkState.update K (Rs.ChunkState.new key (t + chunks.length) flags) rem).output := by
      unfold Rs.leafCV
      rw [if_neg (by omega)]; rfl
    rw [hleaf]
    have hset : (leavesFrom (Rs.leafCV K key flags) t chunks ++ List.drop chunks.length out).set chunks.length
          (Rs.chain K (Rs.ChunkState.update K (Rs.ChunkState.new key (t + chunks.length) flags) rem).output)
        = (leavesFrom (Rs.leafCV K key flags) t chunks
            ++ [Rs.chain K (Rs.ChunkState.update K (Rs.ChunkState.new key (t + chunks.length) flags) rem).output])
            ++ List.drop (chunks.length + 1) out := by
      rw [List.set_append_right _ _ (by rw [hll]; omega), hll, Nat.sub_self, List.append_assoc]
      have hd := List.drop_eq_getElem_cons (show chunks.length < out.length by omega)
      rw [hd]
      rfl
    rw [hset]
    simp only [List.length_append, hll, List.length_singleton]
  · rw [if_neg hr]
    have hrn : rem = [] := by
      cases rem with
      | nil => rfl
      | cons a r => simp at hr
    subst hrn
    rw [if_pos rfl] at hal
    simp only [pure_ok, hal, List.append_nil, hll]

/-- **`compress_subtree_wide`**, as translated (recursion by fuel), writes the model's `wide` to the front of `out` and
returns its length. -/
theorem wide_eq (hspec : HashManySpecLt K hm) (hp : PlatOk sd M M2) (fuel : Nat) :
    ∀ (input : List UInt8) (key : CV) (t : Nat) (flags : UInt8) (out : List CV),
      input.length ≤ fuel → 0 < input.length → input.length < 2 ^ 64 → t + Hs.nchunks 10 input.length < 2 ^ 64 →
      (Rs.wide K key flags sd t input).length ≤ out.length → out.length < 2 ^ 64 →
      compress_subtree_wide E₀ fuel input key t flags out
        = .ok ((Rs.wide K key flags sd t input).length,
               Rs.wide K key flags sd t input ++ out.drop (Rs.wide K key flags sd t input).length) := by
  obtain ⟨⟨j, hsd⟩, hM, hMM2, h2M2, hsmall⟩ := hp
  have hpj := Nat.two_pow_pos j
  induction fuel with
  | zero => intro input _ _ _ _ h1 h2; omega
  | succ fuel ih =>
    intro input key t flags out hfuel hpos hlt hctr hout hol
    have hsd16 : sd ≤ 2 ^ 16 := by omega
    rw [compress_subtree_wide]
    simp only [E_sd, E_M2, cmul_ok sd 1024 (by omega1), bind_ok]
    unfold Rs.wide at hout ⊢
    by_cases hb : input.length ≤ sd * 1024
    · rw [if_pos hb]
      have hbase := Hs.wide_base (Rs.parentCV K key flags) 10 (Rs.leafCV K key flags) sd t input (by rw [two_pow_ten]; exact hb)
      rw [hbase] at hout ⊢
      have hlen := Hs.allLeaves_length 10 (Rs.leafCV K key flags) t input hpos
      rw [chunks_eq K sd hm M M2 tpn hspec input key t flags out hpos
        (Nat.le_trans hb (Nat.mul_le_mul_right _ hM)) (by rw [← hlen]; exact hout) hol hctr]
      rfl
    · rw [if_neg hb]
      have hbig : 1024 < input.length := by
        have : 1024 ≤ sd * 1024 := Nat.le_mul_of_pos_left _ (by omega)
        omega
      obtain ⟨a, f1, f2, f3, f4, f5, f6, f7⟩ := Hs.split_facts 10 sd j input.length hsd (by rw [two_pow_ten]; omega)
      have hpa := Nat.two_pow_pos a
      have hja : 2 ^ j ≤ 2 ^ a := Nat.pow_le_pow_right (by omega) f3
      rw [two_pow_ten] at f1 f2 f4
      have hL : 0 < Hs.leftLen 10 input.length ∧ Hs.leftLen 10 input.length < input.length := by
        rw [f1]; exact ⟨Nat.mul_pos hpa (by omega), f2⟩
      have hstep := Hs.wide_step (Rs.parentCV K key flags) 10 (Rs.leafCV K key flags) sd t input
        (by rw [two_pow_ten]; exact hb) hL
      rw [f1, two_pow_ten, Nat.mul_div_cancel _ (show 0 < 1024 by omega)] at hstep
      -- the two recursive results and their sizes
      have htl : (input.take (2 ^ a * 1024)).length = 2 ^ a * 1024 := by rw [List.length_take]; omega
      have hdl : (input.drop (2 ^ a * 1024)).length = input.length - 2 ^ a * 1024 := List.length_drop
      obtain ⟨_, l2, l3, l4⟩ := Hs.wide_spec (Rs.parentCV K key flags) key 10 (Rs.leafCV K key flags) sd j hsd
        _ t (input.take (2 ^ a * 1024)) rfl (by omega)
      obtain ⟨_, r2, r3, _⟩ := Hs.wide_spec (Rs.parentCV K key flags) key 10 (Rs.leafCV K key flags) sd j hsd
        _ (t + 2 ^ a) (input.drop (2 ^ a * 1024)) rfl (by omega)
      obtain ⟨_, w2, w3, _⟩ := Hs.wide_spec (Rs.parentCV K key flags) key 10 (Rs.leafCV K key flags) sd j hsd
        _ t input rfl hpos
      have l4' := l4 a (by rw [htl, two_pow_ten])
      rw [hstep] at hout w3 ⊢
      generalize hWl : Hs.wide (Rs.parentCV K key flags) 10 (Rs.leafCV K key flags) sd t (input.take (2 ^ a * 1024)) = Wl
        at *
      generalize hWr : Hs.wide (Rs.parentCV K key flags) 10 (Rs.leafCV K key flags) sd (t + 2 ^ a)
        (input.drop (2 ^ a * 1024)) = Wr at *
      have hmax : max sd 2 ≤ M2 := by omega
      -- the degree chosen is the number of chaining values the left half returns
      have hdeg : (if (input.take (2 ^ a * 1024)).length = 1024 then (pure 1 : R Nat) else pure (max sd 2)) = .ok Wl.length := by
        rw [htl, l4']
        by_cases ha : a = 0
        · subst ha
          have : sd = 1 := by rw [hsd]; simp at hja; omega
          rw [if_pos (by simp), if_pos (by omega)]; rfl
        · have h2a : 2 ≤ 2 ^ a := by
            obtain ⟨a', rfl⟩ : ∃ a', a = a' + 1 := ⟨a - 1, by omega⟩
            have := Nat.two_pow_pos a'
            rw [Nat.pow_succ]; omega
          rw [if_neg (by omega)]
          by_cases hc : 2 ^ a ≤ sd
          · rw [if_pos hc]
            have : max sd 2 = 2 ^ a := by omega
            rw [this]; rfl
          · rw [if_neg hc]; rfl
      have hrep : (List.replicate (2 * M2) zeroCV).length = 2 * M2 := List.length_replicate
      -- the two recursive calls
      have hleft := ih (input.take (2 ^ a * 1024)) key t flags ((List.replicate (2 * M2) zeroCV).take Wl.length)
        (by omega) (by omega) (by omega)
        (by rw [htl, ← two_pow_ten, Hs.nchunks_pow]; omega)
        (by unfold Rs.wide; rw [hWl, List.length_take, hrep]; omega)
        (by rw [List.length_take, hrep]; omega)
      have hright := ih (input.drop (2 ^ a * 1024)) key (t + 2 ^ a) flags ((List.replicate (2 * M2) zeroCV).drop Wl.length)
        (by omega) (by omega) (by omega)
        (by rw [hdl, f4]; omega)
        (by unfold Rs.wide; rw [hWr, List.length_drop, hrep]; omega)
        (by rw [List.length_drop, hrep]; omega)
      unfold Rs.wide at hleft hright
      rw [hWl] at hleft
      rw [hWr] at hright
      rw [List.drop_of_length_le (by rw [List.length_take, hrep]; omega), List.append_nil] at hleft
      rw [(Proofs.gen_leftLen input.length hbig hlt).1, f1]
      simp only [bind_ok, splitAt_ok input _ (Nat.le_of_lt f2), htl, cdiv_ok _ 1024 (by omega),
        Nat.mul_div_cancel _ (show 0 < 1024 by omega), cadd_ok t (2 ^ a) (by omega), cmul_ok 2 M2 (by omega)]
      rw [htl] at hdeg
      rw [hdeg]
      simp only [bind_ok, splitAt_ok _ Wl.length (show Wl.length ≤ (List.replicate (2 * M2) zeroCV).length by rw [hrep]; omega)]
      rw [hleft]
      simp only [bind_ok]
      rw [hright]
      simp only [bind_ok]
      by_cases h1 : Wl.length = 1
      · -- the degree-1 special case: the two chaining values are returned as they are
        rw [if_pos h1] at hout w3 ⊢
        simp only [if_pos h1]
        have hsd1 : sd = 1 := by
          rw [h1] at l4'
          by_cases hc : 2 ^ a ≤ sd
          · rw [if_pos hc] at l4'; omega
          · rw [if_neg hc] at l4'; omega
        have hr1 : Wr.length = 1 := by
          rw [List.length_append, hsd1] at w3
          have : max 1 2 = 2 := rfl
          omega
        match Wl, Wr, h1, hr1 with
        | [x], [y], _, _ =>
          have hout2 : 2 ≤ out.length := by simpa using hout
          rw [sliceTo_ok _ 2 (by simp)]
          simp only [bind_ok]
          rw [copyInto_ok _ _ _ _ (by omega) (by simp)]
          simp [pure_ok]
          all_goals rfl
      · rw [if_neg h1] at hout w3 ⊢
        simp only [if_neg h1]
        have hlen : (Wl ++ Wr).length ≤ 2 * M2 := by rw [List.length_append]; omega
        rw [cadd_ok _ _ (by omega)]
        simp only [bind_ok]
        have htake : (Wl ++ (Wr ++ List.drop Wr.length (List.drop Wl.length (List.replicate (2 * M2) zeroCV)))).take
            (Wl.length + Wr.length) = Wl ++ Wr := by
          rw [← List.append_assoc]
          exact List.take_left' (by rw [List.length_append])
        rw [sliceTo_ok _ _ (by simp), htake]
        simp only [bind_ok]
        rw [parents_eq K sd hm M M2 tpn hspec (Wl ++ Wr) key flags out hlen
          (by rw [← Tr.pairUp_length (Rs.parentCV K key flags)]; exact hout) hol]
        rfl

/-- the `while num_cvs > 2` loop condenses the first `num_cvs` entries of `cv_array` -/
theorem condense_loop_eq (hspec : HashManySpecLt K hm) (hsmall : M2 ≤ 2 ^ 16) (key : CV) (flags : UInt8) (fuel : Nat) :
    ∀ (cvs rest outa : List CV), cvs.length < fuel → cvs.length ≤ 2 * (M2 / 2) → outa.length = M2 / 2 →
      ∃ rest' outa', compress_subtree_to_parent_node_loop E₀ fuel (cvs ++ rest) cvs.length outa key flags
          = .ok (Hs.condense (Rs.parentCV K key flags) cvs ++ rest', (Hs.condense (Rs.parentCV K key flags) cvs).length, outa') := by
  induction fuel with
  | zero => intro _ _ _ h; omega
  | succ fuel ih =>
    intro cvs rest outa hf hc ho
    rw [compress_subtree_to_parent_node_loop, Hs.condense]
    by_cases h : 2 < cvs.length
    · rw [if_pos h, dif_pos h]
      have hpl := Tr.pairUp_length (Rs.parentCV K key flags) cvs
      rw [sliceTo_ok _ _ (by simp), List.take_left' rfl]
      simp only [bind_ok]
      rw [parents_eq K sd hm M M2 tpn hspec cvs key flags outa (by omega) (by omega) (by omega)]
      simp only [bind_ok]
      rw [sliceTo_ok _ _ (by simp), List.take_left' rfl]
      simp only [bind_ok]
      rw [copyInto_ok _ _ _ _ (by simp; omega) rfl]
      simp only [bind_ok, List.take_zero, List.nil_append, Nat.zero_add]
      obtain ⟨rest', outa', e⟩ := ih (Tr.pairUp (Rs.parentCV K key flags) cvs) (List.drop (Tr.pairUp (Rs.parentCV K key flags) cvs).length (cvs ++ rest))
        (Tr.pairUp (Rs.parentCV K key flags) cvs ++ List.drop (Tr.pairUp (Rs.parentCV K key flags) cvs).length outa)
        (by omega) (by omega) (by rw [List.length_append, List.length_drop]; omega)
      exact ⟨rest', outa', e⟩
    · rw [if_neg h, dif_neg h]
      exact ⟨rest, outa, rfl⟩

/-- **`compress_subtree_to_parent_node`**, as translated, returns the model's `toParentNode` (the two children of the
subtree's top node), for every input of more than one chunk -/
theorem to_parent_node_eq (hspec : HashManySpecLt K hm) (hp : PlatOk sd M M2) (input : List UInt8) (key : CV) (t : Nat)
    (flags : UInt8) (hbig : 1024 < input.length) (hlt : input.length < 2 ^ 64)
    (hctr : t + Hs.nchunks 10 input.length < 2 ^ 64) :
    compress_subtree_to_parent_node E₀ input key t flags
      = .ok [(Rs.toParentNode K key flags sd t input).1, (Rs.toParentNode K key flags sd t input).2] := by
  obtain ⟨⟨j, hsd⟩, hM, hMM2, h2M2, hsmall⟩ := id hp
  obtain ⟨_, w2, w3, _⟩ := Hs.wide_spec (Rs.parentCV K key flags) key 10 (Rs.leafCV K key flags) sd j hsd
    _ t input rfl (by omega)
  have w4 := wide_length_ge_two sd (Rs.parentCV K key flags) key (Rs.leafCV K key flags) j hsd t input hbig
  obtain ⟨b, hb1, hb2⟩ := Hs.max_pow j
  rw [← hsd] at hb1
  have heven : max sd 2 ≤ 2 * (M2 / 2) := by
    obtain ⟨b', rfl⟩ : ∃ b', b = b' + 1 := ⟨b - 1, by omega⟩
    rw [Nat.pow_succ] at hb1
    omega
  unfold compress_subtree_to_parent_node
  simp only [E_M2]
  rw [wide_eq K sd hm M M2 tpn hspec hp input.length input key t flags (List.replicate M2 zeroCV) (Nat.le_refl _) (by omega) hlt hctr
    (by unfold Rs.wide; rw [List.length_replicate]; omega) (by rw [List.length_replicate]; omega)]
  simp only [bind_ok, cdiv_ok M2 2 (by omega)]
  unfold Rs.wide Rs.toParentNode Hs.toPair
  generalize Hs.wide (Rs.parentCV K key flags) 10 (Rs.leafCV K key flags) sd t input = W at *
  obtain ⟨rest', outa', e⟩ := condense_loop_eq K sd hm M M2 tpn hspec hsmall key flags (W.length + 1) W
    (List.drop W.length (List.replicate M2 zeroCV)) (List.replicate (M2 / 2) zeroCV) (by omega) (by omega) (by simp)
  rw [e]
  simp only [bind_ok]
  have hc2 := condense_length (Rs.parentCV K key flags) W.length W rfl w4
  generalize Hs.condense (Rs.parentCV K key flags) W = C at *
  match C, hc2 with
  | [x, y], _ =>
    unfold arrayRef
    rw [if_pos (by simp)]
    rfl

theorem nchunks_le (n : Nat) (h : 0 < n) : Hs.nchunks 10 n ≤ n := by
  unfold Hs.nchunks; rw [two_pow_ten]; omega

/-- `hash_all_at_once` = `Rs.hashAllAtOnce` under the strict contract, for every input shorter than 2^64 bytes -/
theorem hash_all_at_once_eq_model (hspec : HashManySpecLt K hm) (hp : PlatOk sd M M2) (input : List UInt8) (key : CV)
    (flags : UInt8) (hlt : input.length < 2 ^ 64) :
    hash_all_at_once (modelEnv K sd hm M M2 tpn) input key flags = .ok (Rs.hashAllAtOnce K key flags sd input) := by
  unfold hash_all_at_once Rs.hashAllAtOnce
  by_cases h : input.length ≤ 1024
  · rw [if_pos h, if_pos h]; rfl
  · rw [if_neg h, if_neg h]
    rw [to_parent_node_eq K sd hm M M2 tpn hspec hp input key 0 flags (by omega) hlt
      (by have := nchunks_le input.length (by omega); omega)]
    rfl

end part2

end B3.Proofs.RsUpdateLt
