/-
The chunk-state and hasher layer of c/blake3.c, translated from the source with its data (Gen/CState.lean: C structs,
byte arrays, `uint8_t` counters, pointers into the input) equals the model (`C.update`, `C.finalizeSeek`, `C.reset`,
`C.initDeriveKeyRaw`, `Rs.ChunkState.update`, ...) under the representation relation `HRel` / `CsRel`:

  * `buf` (64 bytes) + `buf_len`   <->  the model's list of buffered bytes, followed by zeros;
  * `cv_stack` (1760 bytes) + `cv_stack_len`  <->  the little-endian bytes of the model's `List CV`, followed by stale bytes;
  * `blocks_compressed`, `buf_len`, `cv_stack_len` are `uint8_t` and wrap modulo 256 in the translation; the theorems show
    they never do on the states considered.

Helper modules: CStateMem (memory primitives), CStateChunk (chunk state, outputs), CStateStack (CV stack),
CStateUpdate (`blake3_hasher_update_base`).  The main theorems are at the end of this file.
-/
import B3.Proofs.CStateUpdate
namespace B3.Proofs.CS
open B3 B3.CMem B3.Gen.CState

section
variable (K : Kern) (sd : Nat) (junk : Nat → Nat → UInt8)

/-! ### `blake3_hasher_finalize_seek` -/

theorem stack_entry (s : List CV) (rest : List UInt8) (i : Nat) (hi : i < s.length) (d : CV) :
    stackBytes s ++ rest = stackBytes (s.take i) ++ bytesOfWords (s.getD i d) ++ (stackBytes (s.drop (i + 1)) ++ rest) := by
  have e : s = s.take i ++ (s.getD i d :: s.drop (i + 1)) := by
    have : s.getD i d = s[i] := by simp [List.getD, List.getElem?_eq_getElem hi]
    rw [this, ← List.drop_eq_getElem_cons hi, List.take_append_drop]
  conv => lhs; rw [e]
  rw [stackBytes_append]
  simp [stackBytes, List.append_assoc]

/-- the `while (cvs_remaining > 0)` walk over the byte stack is the model's right fold -/
theorem finalize_loop_eq (g : blake3_hasher) (stack : List CV) (hst : StRel g stack) (fuel : Nat) :
    ∀ (o : output_t) (r : Nat), r < fuel → r ≤ stack.length → o.block.length = 64 →
    ∃ o', blake3_hasher_finalize_seek_loop (envOf K sd junk) fuel o r g = .ok (o', 0) ∧
      nodeOf o' = (stack.take r).foldr (fun cv out => Rs.parentOutput g.key g.chunk.flags cv (Rs.chain K out)) (nodeOf o) ∧
      o'.block.length = 64 := by
  induction fuel with
  | zero => intro o r hf; omega
  | succ fuel ih =>
    intro o r hf hr hob
    rw [blake3_hasher_finalize_seek_loop]
    cases r with
    | zero =>
      rw [if_neg (by omega)]
      exact ⟨o, rfl, by simp, hob⟩
    | succ r =>
      rw [if_pos (by omega)]
      have hle := hst.le
      rw [w64sub_eq _ _ (by omega)]
      simp only [Nat.add_sub_cancel]
      rw [w64mul_eq _ _ (by omega)]
      obtain ⟨rest, hb⟩ := hst.bytes
      rw [hb, stack_entry stack rest r (by omega) g.key]
      rw [memcpy_mid0 _ _ _ _ _ 32 (by rw [stackBytes_length, List.length_take]; omega) (by rw [bytesOfWords_length])
        (by rw [uninitBytes_length]; omega)]
      simp only [ok_bind]
      have hj : ((uninitBytes ((envOf K sd junk).junk 503) 0 64).drop 32).length = 32 := by
        rw [List.length_drop, uninitBytes_length]
      rw [rd_right _ _ 32 32 (by rw [bytesOfWords_length]) hj]
      simp only [ok_bind]
      rw [ocv_eq K sd junk o _ hob hj]
      simp only [ok_bind]
      rw [wr_right _ _ _ 32 (by rw [bytesOfWords_length]) (by rw [bytesOfWords_length, hj])]
      simp only [ok_bind]
      rw [rd_all _ 64 (by simp [bytesOfWords_length])]
      simp only [ok_bind]
      obtain ⟨o2, eo2, hno2, hob2⟩ := parent_output_eq (envOf K sd junk)
        (bytesOfWords (stack.getD r g.key) ++ bytesOfWords (Rs.chain K (nodeOf o))) g.key g.chunk.flags _ _ rfl
      simp only [eo2, ok_bind]
      obtain ⟨o', e1, e2, e3⟩ := ih o2 r (by omega) (by omega) hob2
      refine ⟨o', e1, ?_, e3⟩
      rw [e2, hno2, take_succ_foldr _ stack r g.key (by omega)]

theorem getD_append_two (s0 : List CV) (l r d : CV) :
    (s0 ++ [l, r]).getD (s0.length + 2 - 2) d = l ∧ (s0 ++ [l, r]).getD (s0.length + 2 - 1) d = r := by
  simp [List.getD]

/-- **`blake3_hasher_finalize_seek`**: the stack walk produces the model's root node and the bytes written are the
model's `finalizeSeek`; the rest of the caller's buffer is unchanged -/
theorem finalize_seek_eq {g : blake3_hasher} {h : Rs.Hasher} (hr : HRel g h) (hs : Shape h) (seek : Nat) (out : List UInt8)
    (n : Nat) :
    blake3_hasher_finalize_seek (envOf K sd junk) g seek out n = .ok (C.finalizeSeek K h seek n ++ out.drop n) := by
  unfold blake3_hasher_finalize_seek C.finalizeSeek
  by_cases hn : n = 0
  · rw [if_pos hn, if_pos hn, hn]; rfl
  · rw [if_neg hn, if_neg hn]
    unfold Rs.Hasher.finalOutput
    by_cases hemp : h.stack = []
    · have hl0 : g.cv_stack_len = 0 := by
        apply UInt8.toNat_inj.mp; rw [hr.st.len, hemp]; rfl
      rw [if_pos hl0, hemp, if_pos (show ([] : List CV).isEmpty = true from rfl)]
      obtain ⟨o, eo, hno, _⟩ := output_eq (envOf K sd junk) hr.cs
      simp only [eo, ok_bind, pure_ok]
      simp only [envOf, hno]
    · have hlpos : 0 < h.stack.length := List.length_pos_iff.mpr hemp
      have hl0 : ¬ g.cv_stack_len = 0 := by
        intro h0
        have := hr.st.len
        rw [h0] at this
        have e0 : (0 : UInt8).toNat = 0 := rfl
        omega
      have hne : ¬ (h.stack.isEmpty = true) := by
        intro he; apply hemp; exact List.isEmpty_iff.mp he
      rw [if_neg hl0, if_neg hne]
      simp only [len_eq _ hr.cs, ok_bind]
      have hle := hr.st.le
      by_cases hcnt : 0 < h.cs.count
      · rw [if_pos hcnt]
        simp only [hcnt, if_true]
        obtain ⟨o, eo, hno, hob⟩ := output_eq (envOf K sd junk) hr.cs
        simp only [eo, ok_bind, pure_ok]
        rw [hr.st.len]
        obtain ⟨o', e1, e2, _⟩ := finalize_loop_eq K sd junk g h.stack hr.st (h.stack.length + 1) o h.stack.length
          (by omega) (by omega) hob
        simp only [e1, ok_bind]
        simp only [envOf, e2, hno, hr.key, hr.cs.flags]
      · rw [if_neg hcnt]
        simp only [hcnt, if_false]
        have h2 : 2 ≤ h.stack.length := by
          rcases hs.fin with a | a | a
          · exact absurd a hemp
          · exact absurd a hcnt
          · exact a
        obtain ⟨s0, l, r, es⟩ := list_split_two h.stack h2
        have hlen : h.stack.length = s0.length + 2 := by rw [es]; simp
        have hsz : CMem.sizeOfInt ((g.cv_stack_len.toNat : Int) - (2 : Int)) = s0.length := by
          unfold CMem.sizeOfInt
          rw [hr.st.len, hlen, if_pos (by omega)]; omega
        rw [hsz, w64mul_eq _ _ (by omega)]
        obtain ⟨rest, hb⟩ := hr.st.bytes
        have hb1 : g.cv_stack = stackBytes s0 ++ (bytesOfWords l ++ bytesOfWords r) ++ rest := by
          rw [hb, es, stackBytes_append, stackBytes_two]
        rw [hb1, rd_mid' _ _ _ _ 64 (by rw [stackBytes_length]; omega) (by simp [bytesOfWords_length])]
        simp only [ok_bind]
        obtain ⟨o, eo, hno, hob⟩ := parent_output_eq (envOf K sd junk) (bytesOfWords l ++ bytesOfWords r) g.key g.chunk.flags l r rfl
        simp only [eo, ok_bind, pure_ok]
        obtain ⟨o', e1, e2, _⟩ := finalize_loop_eq K sd junk g h.stack hr.st (s0.length + 1) o s0.length
          (by omega) (by omega) hob
        simp only [e1, ok_bind]
        have hg := getD_append_two s0 l r h.key
        simp only [envOf, e2, hno, hr.key, hr.cs.flags]
        rw [hlen, es, hg.1, hg.2]
        simp

theorem finalize_eq {g : blake3_hasher} {h : Rs.Hasher} (hr : HRel g h) (hs : Shape h) (out : List UInt8) (n : Nat) :
    blake3_hasher_finalize (envOf K sd junk) g out n = .ok (C.finalize K h n ++ out.drop n) := by
  unfold blake3_hasher_finalize C.finalize
  rw [finalize_seek_eq K sd junk hr hs]
  rfl

/-! ### initialisers and reset -/

theorem init_base_eq (E : Env) (g : blake3_hasher) (key : CV) (flags : UInt8) (hs : g.sized) :
    ∃ g', hasher_init_base E g key flags = .ok g' ∧ HRel g' (C.initBase key flags) ∧ g'.cv_stack = g.cv_stack := by
  unfold hasher_init_base
  rw [memcpyW_32]
  simp only [ok_bind]
  obtain ⟨c, ec, hc⟩ := init_eq E g.chunk key flags hs.1
  simp only [ec, ok_bind, pure_ok]
  exact ⟨_, rfl, ⟨rfl, hc, ⟨hs.2, rfl, ⟨g.cv_stack, rfl⟩⟩, rfl⟩, rfl⟩

theorem shape_init (key : CV) (flags : UInt8) : Shape (C.initBase key flags) ∧ absorbed (C.initBase key flags) = 0 :=
  ⟨⟨by simp [C.initBase, Rs.Hasher.newInternal, Rs.ChunkState.new, Rs.ChunkState.count], fun _ => rfl, Or.inl rfl⟩, rfl⟩

theorem shape_reset (h : Rs.Hasher) : Shape (C.reset h) ∧ absorbed (C.reset h) = 0 :=
  ⟨⟨by simp [C.reset, Rs.ChunkState.new, Rs.ChunkState.count], fun _ => rfl, Or.inl rfl⟩, rfl⟩

theorem iv_eq : Gen.C.IV = Spec.IV := by decide

theorem init_eq_model (E : Env) (g : blake3_hasher) (hs : g.sized) :
    ∃ g', blake3_hasher_init E g = .ok g' ∧ HRel g' (C.initBase Spec.IV 0) := by
  unfold blake3_hasher_init
  obtain ⟨g', e, hr, _⟩ := init_base_eq E g Gen.C.IV 0 hs
  simp only [e, ok_bind, pure_ok]
  rw [iv_eq] at hr
  exact ⟨g', rfl, hr⟩

theorem getD_take {α : Type} (l : List α) (m i : Nat) (d : α) (h : i < m) : (l.take m).getD i d = l.getD i d := by
  simp [List.getD, h]

theorem wordsOfBytes_take (n : Nat) (l : List UInt8) : wordsOfBytes n (l.take (4 * n)) = wordsOfBytes n l := by
  unfold wordsOfBytes
  congr 1
  funext i
  have hi := i.isLt
  unfold wordAt
  rw [getD_take _ _ _ _ (by omega), getD_take _ _ _ _ (by omega), getD_take _ _ _ _ (by omega), getD_take _ _ _ _ (by omega)]

theorem load_key_words_eq (key : List UInt8) (h : 32 ≤ key.length) : CMem.load_key_words key 0 = .ok (wordsOfBytes 8 key) := by
  unfold CMem.load_key_words
  rw [rd_take _ _ h]
  simp only []
  rw [show (32 : Nat) = 4 * 8 from rfl, wordsOfBytes_take]

/-- `blake3_hasher_init_keyed`: the key is the first 32 bytes at `key` -/
theorem init_keyed_eq_model (E : Env) (g : blake3_hasher) (key : List UInt8) (hs : g.sized) (hk : 32 ≤ key.length) :
    ∃ g', blake3_hasher_init_keyed E g key = .ok g' ∧ HRel g' (C.initBase (wordsOfBytes 8 key) Spec.KEYED_HASH) := by
  unfold blake3_hasher_init_keyed
  simp only [load_key_words_eq key hk, ok_bind]
  obtain ⟨g', e, hr, _⟩ := init_base_eq E g (wordsOfBytes 8 key) 16 hs
  simp only [e, ok_bind, pure_ok]
  exact ⟨g', rfl, hr⟩

/-- `blake3_hasher_reset` does exactly what `hasher_init_base` does with the hasher's own key and flags: every field the
code re-initialises (`key` is already there, the whole chunk state, `cv_stack_len`) gets the same bytes; the 1760 bytes of
`cv_stack` are left as they were by both -/
theorem reset_eq_init_base (E : Env) (g : blake3_hasher) : blake3_hasher_reset E g = hasher_init_base E g g.key g.chunk.flags := by
  unfold blake3_hasher_reset hasher_init_base chunk_state_reset chunk_state_init
  simp only [memcpyW_32, ok_bind, pure_ok]

theorem hasher_reset_eq {g : blake3_hasher} {h : Rs.Hasher} (hr : HRel g h) :
    ∃ g', blake3_hasher_reset (envOf K sd junk) g = .ok g' ∧ HRel g' (C.reset h) ∧ g'.cv_stack = g.cv_stack := by
  rw [reset_eq_init_base]
  obtain ⟨g', e, hr', hst⟩ := init_base_eq (envOf K sd junk) g g.key g.chunk.flags hr.sized
  refine ⟨g', e, ?_, hst⟩
  rw [hr.key, hr.cs.flags] at hr'
  have : C.reset h = C.initBase h.key h.cs.flags := by
    simp [C.reset, C.initBase, Rs.Hasher.newInternal, hr.t0]
  rw [this]; exact hr'

/-! ### `blake3_hasher_init_derive_key_raw`, `blake3_hasher_init_derive_key` -/

theorem finalizeSeek_length (h : C.Hasher) (seek outLen : Nat) : (C.finalizeSeek K h seek outLen).length = outLen := by
  have hx : ∀ (o : Spec.Node) (t n : Nat), (Rs.xofMany K o t n).length = 64 * n := by
    intro o t n
    unfold Rs.xofMany
    induction n with
    | zero => simp
    | succ n ih =>
      rw [List.range_succ, List.flatMap_append, List.length_append, ih]
      simp [bytesOfWords_length]; omega
  unfold C.finalizeSeek
  by_cases h0 : outLen = 0
  · simp [h0]
  · rw [if_neg h0]
    unfold C.outputRootBytes
    rw [if_neg h0]
    have len_mid : ∀ (o : Spec.Node) (c n : Nat), (if n / 64 ≠ 0 then Rs.xofMany K o c (n / 64) else []).length = 64 * (n / 64) := by
      intro o c n
      split
      · exact hx o c _
      · rename_i hh; simp at hh; simp; omega
    have len_last : ∀ (v : St) (r : Nat), r < 64 → (if r ≠ 0 then (bytesOfWords v).take r else []).length = r := by
      intro v r hr
      split
      · rw [List.length_take, bytesOfWords_length]; omega
      · rename_i hh; simp at hh; simp [hh]
    by_cases hoff : seek % 64 = 0
    · simp only [hoff, ne_eq, not_true_eq_false, if_false, List.length_append, List.length_nil]
      rw [len_mid, len_last _ _ (by omega)]; omega
    · simp only [hoff, ne_eq, not_false_eq_true, if_true, List.length_append]
      rw [len_mid, len_last _ _ (by omega), List.length_take, List.length_drop, bytesOfWords_length]
      split <;> omega

/-- `blake3_hasher_init_derive_key_raw`: the context is hashed through a complete hasher (init with DERIVE_KEY_CONTEXT,
update, finalize of 32 bytes) and the result keys the new hasher with DERIVE_KEY_MATERIAL -/
theorem init_derive_key_raw_eq (g : blake3_hasher) (hs : g.sized) (context : List UInt8) (n : Nat) (hl : n ≤ context.length)
    (hn : n < 2 ^ 64) :
    ∃ g', blake3_hasher_init_derive_key_raw (envOf K sd junk) g context n = .ok g' ∧
      HRel g' (C.initDeriveKeyRaw K sd (context.take n)) := by
  unfold blake3_hasher_init_derive_key_raw C.initDeriveKeyRaw
  obtain ⟨c1, e1, hr1, _⟩ := init_base_eq (envOf K sd junk) (blake3_hasher.uninit ((envOf K sd junk).junk 601)) Gen.C.IV 32
    (by simp [blake3_hasher.sized, blake3_chunk_state.sized, blake3_hasher.uninit, blake3_chunk_state.uninit, uninitBytes_length])
  simp only [e1, ok_bind]
  rw [iv_eq] at hr1
  have hs1 := shape_init Spec.IV 32
  obtain ⟨c2, e2, hr2, hs2, _⟩ := hasher_update_eq K sd junk hr1 hs1.1 context n hl (by rw [hs1.2]; omega)
  simp only [e2, ok_bind]
  rw [finalize_eq K sd junk hr2 hs2]
  simp only [ok_bind]
  have hfl : (C.finalize K (C.update K sd (C.initBase Spec.IV 32) (context.take n)) 32).length = 32 := by
    unfold C.finalize; exact finalizeSeek_length K _ _ _
  rw [List.drop_of_length_le (by rw [uninitBytes_length]; omega), List.append_nil]
  rw [load_key_words_eq _ (by rw [hfl]; omega)]
  simp only [ok_bind]
  obtain ⟨g', e3, hr3, _⟩ := init_base_eq (envOf K sd junk) g
    (wordsOfBytes 8 (C.finalize K (C.update K sd (C.initBase Spec.IV 32) (context.take n)) 32)) 64 hs
  simp only [e3, ok_bind, pure_ok]
  exact ⟨g', rfl, hr3⟩

theorem strlen_eq (s rest : List UInt8) (hs : ∀ b ∈ s, b ≠ 0) : CMem.strlen (s ++ 0 :: rest) = .ok s.length := by
  induction s with
  | nil => simp [CMem.strlen]
  | cons a s ih =>
    have ha : a ≠ 0 := hs a (by simp)
    simp only [List.cons_append, CMem.strlen, if_neg ha, ih (fun b hb => hs b (by simp [hb])), List.length_cons]

theorem init_derive_key_eq (g : blake3_hasher) (hs : g.sized) (s rest : List UInt8) (hz : ∀ b ∈ s, b ≠ 0)
    (hn : s.length < 2 ^ 64) :
    ∃ g', blake3_hasher_init_derive_key (envOf K sd junk) g (s ++ 0 :: rest) = .ok g' ∧
      HRel g' (C.initDeriveKeyRaw K sd s) := by
  unfold blake3_hasher_init_derive_key
  simp only [strlen_eq s rest hz, ok_bind]
  obtain ⟨g', e, hr⟩ := init_derive_key_raw_eq K sd junk g hs (s ++ 0 :: rest) s.length (by simp) hn
  simp only [e, ok_bind, pure_ok]
  rw [List.take_left' rfl] at hr
  exact ⟨g', rfl, hr⟩

end

end B3.Proofs.CS
