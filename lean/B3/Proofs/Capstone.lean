/-
Capstone: the pieces of src/lib.rs that are translated from the source separately — the kernels (G2), `ChunkState` /
`Output` / `OutputReader` / the `Hasher` constructors and finalizers (G8), the `Hasher` skeleton `merge_cv_stack` /
`push_cv` / `final_output` (G6), `update_with_join` and the subtree functions (G9), the reader's position arithmetic
(G3b) — assembled into one `Hasher` API in which every operation is generated code, and the theorems that carry the
model-level results (`history_correct`, `reader_history`, `hash_eq_spec`) over to it.

What is hand-written here is only the plumbing between the pieces: which field of `Hasher` goes to which parameter of
`update_with_join`, the conversion between chaining values as 32 bytes (G8's `cv_stack`) and as 8 words (G6 / G9), and
the carriers `R ChunkState` / `R Output` through which a panic of a G8 function is passed along G9's (total)
environment operations.  The simulation lemmas are in Proofs/CapSim.lean.
-/
import B3.Proofs.CapSim
import B3.Props.C01
import B3.Props.C01T
import B3.Props.C02T
import B3.Props.C02
import B3.Props.C03
namespace B3.Proofs.Capstone
open B3 B3.Arith B3.Gen.RsState
open B3.Proofs.RsState (toNode absCS absH absR CsInv posG)
open B3.Proofs.CapSim (relR EnvSim)

/-- the type of `Platform::hash_many` in the translation of G9 -/
abbrev HM := Nat → List (List UInt8) → CV → Nat → Bool → UInt8 → UInt8 → UInt8 → List CV → R (List CV)

/-! ### the environment of G9 built from the functions of G8 -/

/-- a chaining value returned as 32 bytes by G8, as the 8 words G6 / G9 work with.  G9's environment has
`chaining_value : Out → CV` total, so a panic cannot be passed on here: it becomes the all-zero value.  That this case
never arises is part of the simulation (`tEnv_sim`: every output whose chaining value is taken is `.ok`). -/
def cvOfR (r : R (List UInt8)) : CV :=
  match r with
  | .ok b => wordsOfBytes 8 b
  | .panic => Gen.RsUpdate.zeroCV

def natOfR (r : R Nat) : Nat :=
  match r with
  | .ok n => n
  | .panic => 0

/-- **G9's `Env` instantiated by G8**: chunk states are `R ChunkState` and outputs `R Output` (a panic of
`ChunkState::update`, `ChunkState::output`, `parent_node_output` stays a panic of everything computed from it), every
operation is the function generated from src/lib.rs.  `cs_set_chunk_counter` is the field assignment
`self.chunk_state.chunk_counter = …`, `mk_output` the struct literal `Output { … }` of `hash_all_at_once` (the 64-byte
block as the bytes of the two chaining values). -/
def tEnvWith (K : Kern) (sd : Nat) (hm : HM) (M M2 : Nat) (tpn : List UInt8 → CV → Nat → UInt8 → R (List CV)) :
    Gen.RsUpdate.Env (R ChunkState) (R Output) where
  cs_new := fun key t flags => ChunkState.new key t flags
  cs_update := fun cs x => cs >>= fun c => ChunkState.update K.cip c x
  cs_output := fun cs => cs >>= ChunkState.output
  cs_count := fun cs => natOfR (cs >>= ChunkState.count)
  cs_chunk_counter := fun cs => match cs with | .ok c => c.chunk_counter | .panic => 0
  cs_flags := fun cs => match cs with | .ok c => c.flags | .panic => 0
  cs_set_chunk_counter := fun cs t => cs >>= fun c => pure { c with chunk_counter := t }
  chaining_value := fun o => cvOfR (o >>= Output.chaining_value K.cip)
  parent_node_output := fun l r key flags => parent_node_output (bytesOfWords l) (bytesOfWords r) key flags
  mk_output := fun key block blen t flags =>
    .ok { input_chaining_value := key, block := Gen.RsUpdate.cvsBytes block, block_len := blen, counter := t, flags := flags }
  compress_subtree_to_parent_node := tpn
  hash_many := hm
  simd_degree := sd
  MAX_SIMD_DEGREE := M
  MAX_SIMD_DEGREE_OR_2 := M2

/-- the environment of the subtree functions (they do not call `compress_subtree_to_parent_node` back) -/
def tEnvSub (K : Kern) (sd : Nat) (hm : HM) (M M2 : Nat) : Gen.RsUpdate.Env (R ChunkState) (R Output) :=
  tEnvWith K sd hm M M2 (fun _ _ _ _ => .panic)

/-- **the environment of the translated hasher**: `update_with_join` calls the translated
`compress_subtree_to_parent_node` (which calls the translated `compress_subtree_wide`, `compress_chunks_parallel`,
`compress_parents_parallel`), all of them over the G8 `ChunkState` -/
def tEnv (K : Kern) (sd : Nat) (hm : HM) (M M2 : Nat) : Gen.RsUpdate.Env (R ChunkState) (R Output) :=
  tEnvWith K sd hm M M2 (Gen.RsUpdate.compress_subtree_to_parent_node (tEnvSub K sd hm M M2))

/-- representation relation for chunk states: not panicked, the invariant `CsInv` holds, and `absCS` gives the model's -/
def RCt (cs : R ChunkState) (m : Rs.ChunkState) : Prop := ∃ c, cs = .ok c ∧ CsInv c ∧ absCS c = m

/-- representation relation for outputs: not panicked, and `toNode` gives the model's node -/
def ROt (o : R Output) (n : Spec.Node) : Prop := ∃ out, o = .ok out ∧ toNode out = n

theorem cvOfR_bytes (v : CV) : cvOfR (.ok (bytesOfWords v)) = v := RsState.wordsOfBytes_bytesOfWords v

/-- **the G8 functions represent the model's**, operation by operation (the `…_eq_model` facts of Proofs/RsState.lean),
whatever `compress_subtree_to_parent_node` is plugged in -/
theorem tEnvWith_sim (K : Kern) (sd : Nat) (hm : HM) (M M2 : Nat) (tpn : List UInt8 → CV → Nat → UInt8 → R (List CV)) :
    EnvSim K sd hm M M2 (tEnvWith K sd hm M M2 tpn) RCt ROt where
  new := fun k c f => ⟨_, RsState.cs_new_ok k c f, RsState.newG_inv k c f, RsState.newG_abs k c f⟩
  update := by
    rintro cs m x ⟨c, rfl, hI, rfl⟩ hg
    have hc : (absCS c).count = 64 * c.blocks_compressed.toNat + c.buf_len.toNat := by
      simp only [Rs.ChunkState.count, RsState.absCS_buf_len c hI]; rfl
    obtain ⟨g', h1, h2, h3⟩ := RsState.cs_update_ok K c x hI (by omega)
    exact ⟨g', h1, h3, h2⟩
  output := by
    rintro cs m ⟨c, rfl, hI, rfl⟩
    obtain ⟨o, h1, h2⟩ := RsState.cs_output_ok c hI
    exact ⟨o, h1, h2⟩
  count := by
    rintro cs m ⟨c, rfl, hI, rfl⟩
    show natOfR (ChunkState.count c) = _
    rw [RsState.cs_count_ok c hI]; rfl
  counter := by rintro cs m ⟨c, rfl, hI, rfl⟩; rfl
  flags := by rintro cs m ⟨c, rfl, hI, rfl⟩; rfl
  set := by
    rintro cs m t ⟨c, rfl, hI, rfl⟩
    exact ⟨{ c with chunk_counter := t }, rfl, ⟨hI.len, hI.le, hI.zero⟩, rfl⟩
  chain := by
    rintro o n ⟨out, rfl, rfl⟩
    show cvOfR (Output.chaining_value K.cip out) = _
    rw [RsState.chaining_value_eq, cvOfR_bytes]
  parent := fun l r k f => RsState.parent_node_output_eq l r k f
  mkOut := by
    intro k l r bl t f
    refine ⟨_, rfl, ?_⟩
    simp only [toNode, RsUpdate.words_of_cv_pair]
  hm_eq := rfl
  sd_eq := rfl
  M_eq := rfl
  M2_eq := rfl

/-- the `compress_subtree_to_parent_node` that the model-side `update_with_join` of `update_with_join_full` calls -/
def mTpn (K : Kern) (sd : Nat) (hm : HM) (M M2 : Nat) : List UInt8 → CV → Nat → UInt8 → R (List CV) :=
  Gen.RsUpdate.compress_subtree_to_parent_node (RsUpdate.modelEnv K sd hm M M2 (RsUpdate.modelTpn K sd))

/-- **part 2 of G9 over G8 = part 2 of G9 over the model**, for all arguments (panics included) -/
theorem tEnv_tpn (K : Kern) (sd : Nat) (hm : HM) (M M2 : Nat) :
    (tEnv K sd hm M M2).compress_subtree_to_parent_node = mTpn K sd hm M M2 := by
  funext input key t flags
  exact CapSim.to_parent_node_congr K sd hm M M2 (RsUpdate.modelTpn K sd) (tEnvSub K sd hm M M2) RCt ROt
    (tEnvWith_sim K sd hm M M2 _) input key t flags

theorem tEnv_sim (K : Kern) (sd : Nat) (hm : HM) (M M2 : Nat) : EnvSim K sd hm M M2 (tEnv K sd hm M M2) RCt ROt :=
  tEnvWith_sim K sd hm M M2 _

/-! ### the translated hasher: every operation is generated code -/

/-- the representation relation between the translated hasher state (G8's `Hasher`: byte arrays, `u8` counters) and
the model's: `absH` maps one to the other, the chunk state satisfies `CsInv`, the CV stack holds 32-byte entries -/
structure TRel (g : Hasher) (h : Rs.Hasher) : Prop where
  abs : absH g = h
  inv : CsInv g.chunk_state
  cv32 : ∀ b ∈ g.cv_stack, b.length = 32

section hasher
variable (K : Kern) (sd : Nat) (hm : HM) (M M2 : Nat)

/-- **`Hasher::update`** (= `update_with_join::<SerialJoin>`): G9's `update_with_join` over G8's `ChunkState` and G6's
`push_cv` / `merge_cv_stack`.  The plumbing: the fields of `self` go in, the two fields the function assigns come out;
the CV stack is converted between 32-byte entries and 8-word chaining values. -/
def tUpdate (g : Hasher) (x : List UInt8) : R Hasher := do
  let (cs, st) ← Gen.RsUpdate.update_with_join (tEnv K sd hm M M2) g.key (.ok g.chunk_state) g.initial_chunk_counter
    (g.cv_stack.map (wordsOfBytes 8)) x
  let cs ← cs
  pure { g with chunk_state := cs, cv_stack := st.map bytesOfWords }

/-- **`hash_all_at_once`**: G9's over G8 -/
def tHao (input : List UInt8) (key : CV) (flags : UInt8) : R Output := do
  let o ← Gen.RsUpdate.hash_all_at_once (tEnv K sd hm M M2) input key flags
  o

def zeroOutput : Output :=
  { input_chaining_value := Gen.RsUpdate.zeroCV, block := [], block_len := 0, counter := 0, flags := 0 }

/-- `hash_all_at_once` as the total function G8's `new_derive_key` takes as a parameter -/
def tHaoTotal (input : List UInt8) (key : CV) (flags : UInt8) : Output :=
  match tHao K sd hm M M2 input key flags with
  | .ok o => o
  | .panic => zeroOutput

/-- **`Hasher::new_derive_key`**: G8's, calling G9's `hash_all_at_once` on the context string.  G8 takes that function
as a total one; the first line runs the one call it makes in the panic monad, so that a panic of `hash_all_at_once`
is a panic of the constructor. -/
def tNewDeriveKey (ctx : List UInt8) : R Hasher := do
  let _ ← tHao K sd hm M M2 ctx Gen.Rs.IV Gen.Rs.DERIVE_KEY_CONTEXT
  Hasher.new_derive_key K.cip (tHaoTotal K sd hm M M2) ctx

/-- the constructor of each mode: `Hasher::new`, `new_keyed`, `new_derive_key` -/
def tCtor : Spec.Mode → R Hasher
  | .hash => Hasher.new
  | .keyed k => Hasher.new_keyed k
  | .derive ctx => tNewDeriveKey K sd hm M M2 ctx

/-- **`Hasher::final_output`**: G6's `Skel.final_output` over G8's `ChunkState::output` / `count`,
`parent_node_output`, `Output::chaining_value` -/
def tFinalOutput (g : Hasher) : R Output := do
  let n ← ChunkState.count g.chunk_state
  let o ← Gen.Rs.Skel.final_output (Out := R Output)
    (fun l r => parent_node_output (bytesOfWords l) (bytesOfWords r) g.key g.chunk_state.flags)
    (fun o => cvOfR (o >>= Output.chaining_value K.cip))
    (g.cv_stack.map (wordsOfBytes 8)) (ChunkState.output g.chunk_state) n
  o

/-- **`Hasher::finalize`**: G8's over `tFinalOutput` -/
def tFinalize (g : Hasher) : R (List UInt8) := Hasher.finalize K.cip (tFinalOutput K) g

/-- **`Hasher::finalize_xof`** -/
def tFinalizeXof (g : Hasher) : R OutputReader := Hasher.finalize_xof (tFinalOutput K) g

/-- the one-shot functions (`hash`, `keyed_hash`, `derive_key` are `hash_all_at_once(input, key_words, flags).root_hash()`):
key words and flags byte of the hazmat `Mode` (G8), G9's `hash_all_at_once`, G8's `root_hash` -/
def tOneShot (m : Mode) (input : List UInt8) : R (List UInt8) := do
  let key ← Mode.key_words m
  let flags ← Mode.flags_byte m
  let o ← tHao K sd hm M M2 input key flags
  Output.root_hash K.cip o

/-! #### simulation: constructors, `update`, `reset`, `final_output` -/

theorem runUpdate_ok (tpn : List UInt8 → CV → Nat → UInt8 → R (List CV)) (h h' : Rs.Hasher) (x : List UInt8)
    (e : RsUpdate.runUpdate K sd hm M M2 tpn h x = .ok h') :
    Gen.RsUpdate.update_with_join (RsUpdate.modelEnv K sd hm M M2 tpn) h.key h.cs h.t0 h.stack x = .ok (h'.cs, h'.stack) ∧
      h'.key = h.key ∧ h'.t0 = h.t0 := by
  unfold RsUpdate.runUpdate at e
  cases hr : Gen.RsUpdate.update_with_join (RsUpdate.modelEnv K sd hm M M2 tpn) h.key h.cs h.t0 h.stack x with
  | panic => rw [hr] at e; cases e
  | ok r =>
    rw [hr] at e
    simp only [R.ok.injEq] at e
    subst e
    exact ⟨rfl, rfl, rfl⟩

theorem map_words_bytes (st : List CV) : (st.map bytesOfWords).map (wordsOfBytes 8) = st := by
  rw [List.map_map]
  conv => rhs; rw [← List.map_id st]
  apply List.map_congr_left
  intro v _
  exact RsState.wordsOfBytes_bytesOfWords v

/-- **translated `update` simulates the model's** (`update_with_join_full` of G9 carried over to the G8 state): on
related states, for every input satisfying `UpdPre`, it returns a related state — no panic — and keeps key, input
offset and flags -/
theorem tUpdate_sim (hspec : RsUpdate.HashManySpec K hm) (hp : RsUpdate.PlatOk sd M M2) (g : Hasher) (h : Rs.Hasher)
    (hr : TRel g h) (x : List UInt8) (pre : RsUpdate.UpdPre h x) (h' : Rs.Hasher) (hu : h.update K sd x = some h') :
    ∃ g', tUpdate K sd hm M M2 g x = .ok g' ∧ TRel g' h' ∧ g'.key = g.key ∧
      g'.initial_chunk_counter = g.initial_chunk_counter := by
  obtain ⟨rfl, hI, h32⟩ := hr
  have hfull := RsUpdate.update_with_join_full K sd hm M M2 hspec hp (absH g) x pre h' hu
  obtain ⟨e0, hk, ht0⟩ := runUpdate_ok K sd hm M M2 _ (absH g) h' x hfull
  have sim := CapSim.update_with_join_sim K sd hm M M2 (mTpn K sd hm M M2) (tEnv K sd hm M M2) RCt ROt
    (tEnv_sim K sd hm M M2) (tEnv_tpn K sd hm M M2) (.ok g.chunk_state) (absH g).cs (absH g).stack x (absH g).key (absH g).t0
    ⟨g.chunk_state, rfl, hI, rfl⟩
  obtain ⟨⟨cs', st'⟩, e1, ⟨c', hc', hI', habs'⟩, hst⟩ := sim _ e0
  simp only at hc' hst
  subst hc' hst
  have e1' : Gen.RsUpdate.update_with_join (tEnv K sd hm M M2) g.key (.ok g.chunk_state) g.initial_chunk_counter
      (g.cv_stack.map (wordsOfBytes 8)) x = .ok (.ok c', h'.stack) := e1
  refine ⟨{ g with chunk_state := c', cv_stack := h'.stack.map bytesOfWords }, ?_, ⟨?_, hI', ?_⟩, rfl, rfl⟩
  · unfold tUpdate
    rw [e1']
    rfl
  · cases h'
    simp only [absH, map_words_bytes] at hk ht0 habs' ⊢
    rw [habs', ← hk, ← ht0]
  · intro b hb
    simp only [List.mem_map] at hb
    obtain ⟨v, _, rfl⟩ := hb
    rw [RsUpdate.bytesOfWords_len]

/-- `reset`: G8's `reset_eq_model`, in terms of `TRel` -/
theorem tReset_sim (g : Hasher) (h : Rs.Hasher) (hr : TRel g h) :
    ∃ g', Hasher.reset g = .ok g' ∧ TRel g' h.reset ∧ g'.key = g.key ∧ g'.chunk_state.flags = g.chunk_state.flags ∧
      g'.initial_chunk_counter = 0 := by
  obtain ⟨g', h1, h2, _, _, h5, h6⟩ := RsState.reset_eq_model g
  have e : g' = RsState.newInternalG g.key g.chunk_state.flags := by
    have := RsState.hasher_reset_ok g
    rw [h1] at this
    exact R.ok.inj this
  subst e
  refine ⟨_, h1, ⟨by rw [h2, hr.abs], h5, ?_⟩, rfl, rfl, rfl⟩
  intro b hb
  simp [RsState.newInternalG] at hb

/-- **translated `hash_all_at_once` = model**, for every input shorter than 2^64 bytes: no panic, and the output
represents the model's node (`compress_subtree_to_parent_node_eq_model` of G9 carried over to G8) -/
theorem tHao_sim (hspec : RsUpdate.HashManySpec K hm) (hp : RsUpdate.PlatOk sd M M2) (input : List UInt8) (key : CV)
    (flags : UInt8) (hlt : input.length < 2 ^ 64) :
    ∃ o, tHao K sd hm M M2 input key flags = .ok o ∧ toNode o = Rs.hashAllAtOnce K key flags sd input := by
  have S := tEnv_sim K sd hm M M2
  unfold tHao Gen.RsUpdate.hash_all_at_once Rs.hashAllAtOnce
  by_cases h : input.length ≤ 1024
  · rw [if_pos h, if_pos h]
    obtain ⟨o, h1, h2⟩ := S.output _ _ (S.update _ _ input (S.new key 0 flags)
      (by simp only [Rs.ChunkState.new, Rs.ChunkState.count, List.length_nil]; omega))
    refine ⟨o, ?_, h2⟩
    simp only [RsState.pure_ok, RsState.bind_ok]
    exact h1
  · rw [if_neg h, if_neg h]
    rw [CapSim.to_parent_node_congr K sd hm M M2 (RsUpdate.modelTpn K sd) (tEnv K sd hm M M2) RCt ROt S,
      RsUpdate.compress_subtree_to_parent_node_eq_model K sd hm M M2 _ hspec hp input key 0 flags (by omega) hlt
        (by have := RsUpdate.nchunks_le input.length (by omega); omega)]
    obtain ⟨o, h1, h2⟩ := S.mkOut key (Rs.toParentNode K key flags sd 0 input).1 (Rs.toParentNode K key flags sd 0 input).2
      64 0 (flags ||| 4)
    refine ⟨o, ?_, ?_⟩
    · simp only [RsState.pure_ok, RsState.bind_ok]
      exact h1
    · rw [h2]; rfl

theorem tHaoTotal_eq (input : List UInt8) (key : CV) (flags : UInt8) (o : Output)
    (h : tHao K sd hm M M2 input key flags = .ok o) : tHaoTotal K sd hm M M2 input key flags = o := by
  unfold tHaoTotal; rw [h]

theorem cv_stack_nil_of_abs (g : Hasher) (key : CV) (flags : UInt8) (h : absH g = Rs.Hasher.newInternal key flags) :
    g.cv_stack = [] := by
  have : (absH g).stack = [] := by rw [h]; rfl
  exact List.map_eq_nil_iff.mp this

/-- **the constructors establish the relation**: `Hasher::new`, `new_keyed`, `new_derive_key` (through G9's
`hash_all_at_once` on the context string, shorter than 2^64 bytes) return — no panic — a state related to the model's
fresh hasher of the mode -/
theorem tCtor_sim (hspec : RsUpdate.HashManySpec K hm) (hp : RsUpdate.PlatOk sd M M2) (mode : Spec.Mode)
    (hctx : ∀ ctx, mode = .derive ctx → ctx.length < 2 ^ 64) :
    ∃ g, tCtor K sd hm M M2 mode = .ok g ∧
      TRel g (Rs.Hasher.newInternal (Rs.modeKeyWords K sd mode) (Rs.modeFlags mode)) ∧ g.initial_chunk_counter = 0 := by
  have hmodel := (RsState.hasher_ctors_eq_model K sd _ (RsState.haoSpec_model K sd)).1
  cases mode with
  | hash =>
    obtain ⟨g, h1, h2, h3⟩ := hmodel .hash
    have hg : g = RsState.newInternalG Gen.Rs.IV 0 := by
      have : R.ok g = R.ok (RsState.newInternalG Gen.Rs.IV 0) := by rw [← h1]; rfl
      exact R.ok.inj this
    refine ⟨g, h1, ⟨h2, h3, ?_⟩, by rw [hg]; rfl⟩
    rw [cv_stack_nil_of_abs g _ _ h2]; simp
  | keyed k =>
    obtain ⟨g, h1, h2, h3⟩ := hmodel (.keyed k)
    have hg : g = RsState.newInternalG (wordsOfBytes 8 k) Gen.Rs.KEYED_HASH := by
      have : R.ok g = R.ok (RsState.newInternalG (wordsOfBytes 8 k) Gen.Rs.KEYED_HASH) := by rw [← h1]; rfl
      exact R.ok.inj this
    refine ⟨g, h1, ⟨h2, h3, ?_⟩, by rw [hg]; rfl⟩
    rw [cv_stack_nil_of_abs g _ _ h2]; simp
  | derive ctx =>
    obtain ⟨o, h1, h2⟩ := tHao_sim K sd hm M M2 hspec hp ctx Gen.Rs.IV Gen.Rs.DERIVE_KEY_CONTEXT (hctx ctx rfl)
    refine ⟨RsState.newInternalG (wordsOfBytes 8 (Rs.rootHash K (toNode o))) Gen.Rs.DERIVE_KEY_MATERIAL, ?_,
      ⟨?_, RsState.newInternalG_inv _ _, by simp [RsState.newInternalG]⟩, rfl⟩
    · show tNewDeriveKey K sd hm M M2 ctx = _
      unfold tNewDeriveKey
      rw [h1]
      simp only [RsState.bind_ok]
      unfold Hasher.new_derive_key hash_derive_key_context
      rw [RsState.root_hash_eq, tHaoTotal_eq K sd hm M M2 _ _ _ o h1]
      rfl
    · rw [RsState.newInternalG_abs, h2, RsState.iv_eq]
      rfl

theorem chain_rot (o : R Output) (n : Spec.Node) (h : ROt o n) :
    cvOfR (o >>= Output.chaining_value K.cip) = Rs.chain K n := by
  obtain ⟨out, rfl, rfl⟩ := h
  show cvOfR (Output.chaining_value K.cip out) = _
  rw [RsState.chaining_value_eq, cvOfR_bytes]

/-- **translated `final_output` meets G8's contract `FoSpec`** on every state related to a model state on which the
model-side skeleton does not panic (`final_output_eq` of G6 carried over to G8's `Output`) -/
theorem tFinalOutput_spec (g : Hasher) (h : Rs.Hasher) (hr : TRel g h)
    (hok : h.stack = [] ∨ 0 < h.cs.count ∨ 2 ≤ h.stack.length) : RsState.FoSpec K (tFinalOutput K) g := by
  obtain ⟨rfl, hI, _⟩ := hr
  obtain ⟨o, ho1, ho2⟩ := RsState.cs_output_ok g.chunk_state hI
  have hfo := final_output_eq K (absH g) hok
  have sim := CapSim.final_output_sim
    (fun l r => parent_node_output (bytesOfWords l) (bytesOfWords r) g.key g.chunk_state.flags)
    (fun o => cvOfR (o >>= Output.chaining_value K.cip))
    (Rs.parentOutput (absH g).key (absH g).cs.flags) (Rs.chain K) ROt
    (fun l r => RsState.parent_node_output_eq l r g.key g.chunk_state.flags) (chain_rot K)
    (absH g).stack (ChunkState.output g.chunk_state) (absH g).cs.output (absH g).cs.count ⟨o, ho1, ho2⟩
  obtain ⟨v, hv1, out, hv2, hv3⟩ := sim _ hfo
  subst hv2
  refine ⟨out, ?_, hv3⟩
  unfold tFinalOutput
  rw [RsState.cs_count_ok _ hI]
  simp only [RsState.bind_ok]
  have hv1' : Gen.Rs.Skel.final_output (Out := R Output)
      (fun l r => parent_node_output (bytesOfWords l) (bytesOfWords r) g.key g.chunk_state.flags)
      (fun o => cvOfR (o >>= Output.chaining_value K.cip))
      (g.cv_stack.map (wordsOfBytes 8)) (ChunkState.output g.chunk_state) (absCS g.chunk_state).count = .ok (.ok out) := hv1
  rw [hv1']
  rfl

end hasher

/-! ### the translated reader: G8's `fill`, G3b's `position` / `set_position` / `seek` -/

section reader
variable (K : Kern)

/-- **`OutputReader::fill`** on a destination of `n` bytes: G8's `fill` with the portable `xof_many` loop
(`xofManyK`); returns the reader and the caller's buffer after the call -/
def tFill (r : OutputReader) (n : Nat) : R (OutputReader × List UInt8) := do
  let (r', b) ← OutputReader.fill K.cxof (RsState.xofManyK K) r ⟨[], List.replicate n 0⟩
  pure (r', b.done ++ b.cur)

/-- **`OutputReader::position`** (G3b, checked u64 arithmetic) -/
def tPosition (r : OutputReader) : R Nat := Gen.Rs.reader_position r.inner.counter r.position_within_block.toNat

/-- **`OutputReader::set_position`** (G3b: the two values it assigns; the `as u8` cast) -/
def tSetPosition (r : OutputReader) (p : Nat) : R OutputReader := do
  let (c, pw) ← Gen.Rs.reader_set_position p
  pure { inner := { r.inner with counter := c }, position_within_block := RsPrim.asU8 pw }

/-- **`impl Seek for OutputReader`** (G3b's `seek` decides between `Err` and the target; then `set_position`,
`position`): the reader and `Some(new position)` / `None` for `Err` -/
def tSeek (r : OutputReader) (sf : Rs.SeekFrom) : R (OutputReader × Option Nat) := do
  let pos ← tPosition r
  match Gen.Rs.seek pos (toGenSeek sf) with
  | none => pure (r, none)
  | some p => do
    let r' ← tSetPosition r p
    let q ← tPosition r'
    pure (r', some q)

/-- representation relation for readers -/
structure RRel (r : OutputReader) (m : Rs.OutputReader) : Prop where
  abs : absR r = m
  pwb : r.position_within_block.toNat < 64

theorem tFill_sim (r : OutputReader) (m : Rs.OutputReader) (hr : RRel r m) (n : Nat) (hpos : m.position + n < 2 ^ 64) :
    ∃ r', tFill K r n = .ok (r', (m.fill K n).1) ∧ RRel r' (m.fill K n).2 ∧ (m.fill K n).2.position = m.position + n := by
  obtain ⟨rfl, hp⟩ := hr
  obtain ⟨r', h1, h2, h3, _, h5, h6⟩ := RsState.reader_fill_eq_model K r (List.replicate n 0) hp
    (by rw [List.length_replicate]; exact hpos)
  rw [List.length_replicate] at h1 h2 h5
  refine ⟨r', ?_, ⟨h2, h3⟩, ?_⟩
  · unfold tFill
    rw [h1]
    simp only [RsState.bind_ok, RsState.pure_ok, List.append_nil]
  · rw [← h2]
    show posG r' = posG r + n
    exact h5

theorem tSetPosition_sim (r : OutputReader) (m : Rs.OutputReader) (hr : RRel r m) (p : Nat) :
    ∃ r', tSetPosition r p = .ok r' ∧ RRel r' (m.setPosition p) := by
  obtain ⟨rfl, hp⟩ := hr
  have h64 : p % 64 < 64 := Nat.mod_lt _ (by omega)
  refine ⟨{ inner := { r.inner with counter := p / 64 }, position_within_block := RsPrim.asU8 (p % 64) }, ?_, ?_, ?_⟩
  · unfold tSetPosition
    rw [reader_set_position_eq (absR r) p]
    rfl
  · simp only [absR, Rs.OutputReader.setPosition, RsState.asU8_toNat _ (show p % 64 < 256 by omega)]
    rfl
  · simp only [RsState.asU8_toNat _ (show p % 64 < 256 by omega)]
    exact h64

theorem tPosition_sim (r : OutputReader) (m : Rs.OutputReader) (hr : RRel r m) (h : m.position < 2 ^ 64) :
    tPosition r = .ok m.position := by
  obtain ⟨rfl, _⟩ := hr
  exact reader_position_eq (absR r) h

/-- what a successful model `seek` does: `set_position` to the position it returns, which fits in `u64` -/
theorem seek_some (m m' : Rs.OutputReader) (sf : Rs.SeekFrom) (q : Nat) (h : m.seek sf = some (m', q)) :
    m' = m.setPosition q ∧ q < 2 ^ 64 := by
  rw [Props.C03.seek_spec] at h
  cases sf with
  | start x =>
    simp only [Option.some.injEq, Prod.mk.injEq] at h
    obtain ⟨h1, h2⟩ := h
    subst h2
    exact ⟨h1.symm, by omega⟩
  | current d =>
    simp only at h
    split at h
    · cases h
    · simp only [Option.some.injEq, Prod.mk.injEq] at h
      obtain ⟨h1, h2⟩ := h
      subst h2
      exact ⟨h1.symm, by omega⟩
  | «end» x => cases h

theorem tSeek_sim (r : OutputReader) (m : Rs.OutputReader) (hr : RRel r m) (hpos : m.position < 2 ^ 64)
    (sf : Rs.SeekFrom) :
    match m.seek sf with
    | none => tSeek r sf = .ok (r, none)
    | some (m', q) => ∃ r', tSeek r sf = .ok (r', some q) ∧ RRel r' m' ∧ m'.position = q ∧ q < 2 ^ 64 := by
  have hseek := reader_seek_eq m sf
  cases hs : m.seek sf with
  | none =>
    simp only
    rw [hs] at hseek
    unfold tSeek
    rw [tPosition_sim r m hr hpos]
    simp only [RsState.bind_ok]
    rw [hseek]
    rfl
  | some mq =>
    obtain ⟨m', q⟩ := mq
    simp only
    rw [hs] at hseek
    obtain ⟨hm', hq⟩ := seek_some m m' sf q hs
    subst hm'
    obtain ⟨r', h1, h2⟩ := tSetPosition_sim r m hr q
    have hpq := Props.C03.set_position_position m q
    refine ⟨r', ?_, h2, hpq, hq⟩
    unfold tSeek
    rw [tPosition_sim r m hr hpos]
    simp only [RsState.bind_ok]
    rw [hseek]
    simp only [Option.map_some, h1, RsState.bind_ok]
    rw [tPosition_sim r' _ h2 (by rw [hpq]; exact hq), hpq]
    rfl

end reader

/-! ### reader histories -/

section rhist
open B3.Props.C03 (ROp rstep WellFormed)

/-- one operation on the translated reader; the bytes it produces (none for `set_position` / `seek`) -/
def trstep (r : OutputReader) : ROp → R (OutputReader × List UInt8)
  | .fill n => tFill genK r n
  | .setPosition p => do
    let r' ← tSetPosition r p
    pure (r', [])
  | .seek sf => do
    let (r', _) ← tSeek r sf
    pure (r', [])

/-- a sequence of operations; the list of the outputs -/
def trrun : OutputReader → List ROp → R (OutputReader × List (List UInt8))
  | r, [] => pure (r, [])
  | r, op :: ops => do
    let (r', o) ← trstep r op
    let (r'', os) ← trrun r' ops
    pure (r'', o :: os)

/-- the position after an operation, on exact integers (the documented behaviour of `fill`, `set_position`, `seek`:
`Start(x)` and `Current(d)` saturate at `u64::MAX`, a `Current` seek before 0 and every `End` seek fail and leave the
position alone) -/
def specPos (p : Nat) : ROp → Nat
  | .fill n => p + n
  | .setPosition q => q
  | .seek (.start x) => min x (2 ^ 64 - 1)
  | .seek (.current d) => if (p : Int) + d < 0 then p else (min ((p : Int) + d) (2 ^ 64 - 1)).toNat
  | .seek (.end _) => p

/-- the bytes an operation at position `p` must produce: `fill` of `n` bytes = the slice `[p, p + n)` of the
output stream of the node -/
def specOut (o : Spec.Node) (p : Nat) : ROp → List UInt8
  | .fill n => o.stream p n
  | _ => []

def specRun (o : Spec.Node) : Nat → List ROp → List (List UInt8)
  | _, [] => []
  | p, op :: ops => specOut o p op :: specRun o (specPos p op) ops

/-- what the source requires: a `fill` stays below the end of the stream (2^64 bytes: beyond it the block counter
overflows), a `set_position` argument is a `u64` -/
def ROpOk (p : Nat) : ROp → Prop
  | .fill n => p + n < 2 ^ 64
  | .setPosition q => q < 2 ^ 64
  | .seek _ => True

def RBounded : Nat → List ROp → Prop
  | _, [] => True
  | p, op :: ops => ROpOk p op ∧ RBounded (specPos p op) ops

theorem rstep_pos (m : Rs.OutputReader) (op : ROp) (o : Spec.Node) (hw : WellFormed o m) :
    (rstep m op).1.position = specPos m.position op ∧ (rstep m op).2 = specOut o m.position op := by
  cases op with
  | fill n =>
    have := (Props.C03.rstep_wf o m (.fill n) hw).2 n rfl
    exact ⟨this.2, this.1⟩
  | setPosition p => exact ⟨Props.C03.set_position_position m p, rfl⟩
  | seek sf =>
    have hs := Props.C03.seek_spec m sf
    cases sf with
    | start x =>
      simp only at hs
      simp only [rstep, hs, specPos, specOut, Props.C03.set_position_position, and_self]
    | current d =>
      simp only at hs
      by_cases hd : (m.position : Int) + d < 0
      · rw [if_pos hd] at hs
        simp only [rstep, hs, specPos, specOut, if_pos hd, and_self]
      · rw [if_neg hd] at hs
        simp only [rstep, hs, specPos, specOut, if_neg hd, Props.C03.set_position_position, and_self]
    | «end» x =>
      simp only at hs
      simp only [rstep, hs, specPos, specOut, and_self]

/-- **one reader operation, translated = model** (no panic; the relation and the `u64` range of the position are kept) -/
theorem trstep_sim (r : OutputReader) (m : Rs.OutputReader) (hr : RRel r m) (hpos : m.position < 2 ^ 64) (op : ROp)
    (hop : ROpOk m.position op) :
    ∃ r', trstep r op = .ok (r', (rstep m op).2) ∧ RRel r' (rstep m op).1 ∧ (rstep m op).1.position < 2 ^ 64 := by
  cases op with
  | fill n =>
    obtain ⟨r', h1, h2, h3⟩ := tFill_sim genK r m hr n hop
    exact ⟨r', h1, h2, by show (m.fill genK n).2.position < _; rw [h3]; exact hop⟩
  | setPosition p =>
    obtain ⟨r', h1, h2⟩ := tSetPosition_sim r m hr p
    refine ⟨r', ?_, h2, by show (m.setPosition p).position < _; rw [Props.C03.set_position_position]; exact hop⟩
    simp only [trstep, h1, RsState.bind_ok]
    rfl
  | seek sf =>
    have := tSeek_sim r m hr hpos sf
    cases hs : m.seek sf with
    | none =>
      rw [hs] at this
      simp only at this
      refine ⟨r, ?_, by simp only [rstep, hs]; exact hr, by simp only [rstep, hs]; exact hpos⟩
      simp only [trstep, this, RsState.bind_ok, rstep, hs]
      rfl
    | some mq =>
      obtain ⟨m', q⟩ := mq
      rw [hs] at this
      obtain ⟨r', h1, h2, h3, h4⟩ := this
      refine ⟨r', ?_, by simp only [rstep, hs]; exact h2, by simp only [rstep, hs]; rw [h3]; exact h4⟩
      simp only [trstep, h1, RsState.bind_ok, rstep, hs]
      rfl

/-- **any history of reader operations**: the translated reader does not panic and returns, operation by operation,
the slices of the node's output stream -/
theorem trrun_spec (o : Spec.Node) (ops : List ROp) : ∀ (r : OutputReader) (m : Rs.OutputReader), RRel r m →
    WellFormed o m → m.position < 2 ^ 64 → RBounded m.position ops →
    ∃ r', trrun r ops = .ok (r', specRun o m.position ops) := by
  induction ops with
  | nil => intro r m _ _ _ _; exact ⟨r, rfl⟩
  | cons op ops ih =>
    intro r m hr hw hpos hb
    obtain ⟨hop, hb'⟩ := hb
    obtain ⟨r1, h1, h2, h3⟩ := trstep_sim r m hr hpos op hop
    obtain ⟨p1, p2⟩ := rstep_pos m op o hw
    have hw' := (Props.C03.rstep_wf o m op hw).1
    rw [← p1] at hb'
    obtain ⟨r', h4⟩ := ih r1 (rstep m op).1 h2 hw' h3 hb'
    refine ⟨r', ?_⟩
    simp only [trrun, specRun, h1, RsState.bind_ok, h4, RsState.pure_ok, p2, p1]

theorem trrun_prefix (ops ops' : List ROp) : ∀ (p : Nat), RBounded p (ops ++ ops') → RBounded p ops := by
  induction ops with
  | nil => intro _ _; trivial
  | cons op ops ih => intro p h; exact ⟨h.1, ih _ h.2⟩

end rhist

/-! ### hasher histories -/

section hist
open B3.Props.C02 (Op Reg step run Ok newReg)
variable (sd : Nat) (hm : HM) (M M2 : Nat)

/-- one state-changing operation on a bank of translated hashers (the history machine of Props/C02.lean, on the
translated state; kernels: the generated `compress_in_place` / `compress_xof`) -/
def tstep (s : List Hasher) : Op → R (List Hasher)
  | .new mode => do
    let g ← tCtor genK sd hm M M2 mode
    pure (s ++ [g])
  | .update i x => match s[i]? with
    | some g => do
      let g' ← tUpdate genK sd hm M M2 g x
      pure (s.set i g')
    | none => pure s
  | .clone i => match s[i]? with
    | some g => pure (s ++ [g])
    | none => pure s
  | .reset i => match s[i]? with
    | some g => do
      let g' ← Hasher.reset g
      pure (s.set i g')
    | none => pure s

/-- a history: every step in the panic monad, so `.ok` of the whole means `.ok` of every intermediate operation -/
def trun : List Hasher → List Op → R (List Hasher)
  | s, [] => pure s
  | s, op :: ops => do
    let s' ← tstep sd hm M M2 s op
    trun s' ops

/-- what the source requires of an operation, given the (ghost) bytes absorbed so far: an `update` piece is a slice
(shorter than 2^63 bytes) and keeps the total below 2^64 bytes (`count()` is a `u64`); a context string is a slice -/
def OpOk (s : List Reg) : Op → Prop
  | .new mode => ∀ ctx, mode = .derive ctx → ctx.length < 2 ^ 64
  | .update i x => ∀ r, s[i]? = some r → x.length < 2 ^ 63 ∧ r.absorbed.length + x.length < 2 ^ 64
  | .clone _ => True
  | .reset _ => True

def Bounded : List Reg → List Op → Prop
  | _, [] => True
  | s, op :: ops => OpOk s op ∧ Bounded (step sd s op) ops

/-- the translated bank represents the model's bank, register by register -/
def SRel (ts : List Hasher) (s : List Reg) : Prop :=
  ts.length = s.length ∧ ∀ (i : Nat) (g : Hasher) (r : Reg), ts[i]? = some g → s[i]? = some r → TRel g r.h

/-- the model-side invariant of a register: `Ok` of Props/C02.lean and fewer than 2^64 bytes absorbed -/
def RegOk (r : Reg) : Prop := Ok r ∧ r.absorbed.length < 2 ^ 64

theorem srel_append (ts : List Hasher) (s : List Reg) (g : Hasher) (r : Reg) (h : SRel ts s) (hg : TRel g r.h) :
    SRel (ts ++ [g]) (s ++ [r]) := by
  obtain ⟨hl, hi⟩ := h
  refine ⟨by simp [hl], ?_⟩
  intro i g' r' h1 h2
  by_cases hlt : i < ts.length
  · rw [List.getElem?_append_left hlt] at h1
    rw [List.getElem?_append_left (by omega)] at h2
    exact hi i g' r' h1 h2
  · rw [List.getElem?_append_right (by omega)] at h1
    rw [List.getElem?_append_right (by omega)] at h2
    rw [hl] at h1
    cases hk : i - s.length with
    | zero =>
      rw [hk] at h1 h2
      simp only [List.getElem?_cons_zero, Option.some.injEq] at h1 h2
      subst h1 h2
      exact hg
    | succ k =>
      rw [hk] at h1
      simp at h1

theorem srel_set (ts : List Hasher) (s : List Reg) (i : Nat) (g : Hasher) (r : Reg) (h : SRel ts s) (hg : TRel g r.h) :
    SRel (ts.set i g) (s.set i r) := by
  obtain ⟨hl, hi⟩ := h
  refine ⟨by simp [hl], ?_⟩
  intro k g' r' h1 h2
  rw [List.getElem?_set] at h1 h2
  by_cases hk : i = k
  · rw [if_pos hk] at h1 h2
    split at h1
    · split at h2
      · cases h1; cases h2; exact hg
      · cases h2
    · cases h1
  · rw [if_neg hk] at h1 h2
    exact hi k g' r' h1 h2

theorem srel_get (ts : List Hasher) (s : List Reg) (i : Nat) (r : Reg) (h : SRel ts s) (hr : s[i]? = some r) :
    ∃ g, ts[i]? = some g ∧ TRel g r.h := by
  obtain ⟨hl, hi⟩ := h
  have hlt : i < s.length := by
    rcases Nat.lt_or_ge i s.length with h | h
    · exact h
    · rw [List.getElem?_eq_none h] at hr; cases hr
  have : ts[i]? = some ts[i] := List.getElem?_eq_getElem (by omega)
  exact ⟨_, this, hi i _ r this hr⟩

theorem srel_none (ts : List Hasher) (s : List Reg) (i : Nat) (h : SRel ts s) (hr : s[i]? = none) : ts[i]? = none := by
  rw [List.getElem?_eq_none_iff] at hr ⊢
  have := h.1
  omega

variable {sd}

theorem regOk_step (j : Nat) (hsd : sd = 2 ^ j) (s : List Reg) (op : Op) (hs : ∀ r ∈ s, RegOk r) (hop : OpOk s op) :
    ∀ r ∈ step sd s op, RegOk r := by
  have hok := Props.C02.step_ok sd j hsd s op (fun r hr => (hs r hr).1)
  intro r hr
  refine ⟨hok r hr, ?_⟩
  cases op with
  | new mode =>
    simp only [step, List.mem_append, List.mem_singleton] at hr
    rcases hr with hr | hr
    · exact (hs r hr).2
    · subst hr; show ([] : List UInt8).length < _; simp
  | update i x =>
    cases hi : s[i]? with
    | none => simp only [step, hi] at hr; exact (hs r hr).2
    | some r0 =>
      cases hu : r0.h.update genK sd x with
      | none => simp only [step, hi, hu] at hr; exact (hs r hr).2
      | some h' =>
        simp only [step, hi, hu] at hr
        rcases List.mem_or_eq_of_mem_set hr with hr | hr
        · exact (hs r hr).2
        · subst hr
          show (r0.absorbed ++ x).length < _
          rw [List.length_append]
          exact (hop r0 hi).2
  | clone i =>
    cases hi : s[i]? with
    | none => simp only [step, hi] at hr; exact (hs r hr).2
    | some r0 =>
      simp only [step, hi, List.mem_append, List.mem_singleton] at hr
      rcases hr with hr | hr
      · exact (hs r hr).2
      · subst hr; exact (hs _ (List.mem_of_getElem? hi)).2
  | reset i =>
    cases hi : s[i]? with
    | none => simp only [step, hi] at hr; exact (hs r hr).2
    | some r0 =>
      simp only [step, hi] at hr
      rcases List.mem_or_eq_of_mem_set hr with hr | hr
      · exact (hs r hr).2
      · subst hr; show ([] : List UInt8).length < _; simp

/-- `UpdPre` for a register satisfying the invariant and an input within the bounds -/
theorem updPre_of_ok (r : Reg) (x : List UInt8) (hr : Ok r) (hx : x.length < 2 ^ 63)
    (htot : r.absorbed.length + x.length < 2 ^ 64) : RsUpdate.UpdPre r.h x := by
  obtain ⟨rep, _, _, k3⟩ := hr
  have hc := (rep_count r.h r.absorbed rep).1
  unfold Rs.Hasher.count at hc
  rw [k3, Nat.sub_zero] at hc
  exact RsUpdate.updPre_of_rep r.h r.absorbed x rep hx (by omega1)

/-- **one operation of the history machine, translated = model**: on related banks, an operation within the bounds
does not panic and leaves related banks -/
theorem tstep_sim (hspec : RsUpdate.HashManySpec genK hm) (hp : RsUpdate.PlatOk sd M M2)
    (ts : List Hasher) (s : List Reg) (h : SRel ts s) (hs : ∀ r ∈ s, RegOk r) (op : Op) (hop : OpOk s op) :
    ∃ ts', tstep sd hm M M2 ts op = .ok ts' ∧ SRel ts' (step sd s op) := by
  cases op with
  | new mode =>
    obtain ⟨g, h1, h2, _⟩ := tCtor_sim genK sd hm M M2 hspec hp mode hop
    refine ⟨ts ++ [g], ?_, srel_append ts s g (newReg sd mode) h h2⟩
    simp only [tstep, h1, RsState.bind_ok]
    rfl
  | update i x =>
    cases hi : s[i]? with
    | none =>
      refine ⟨ts, ?_, by simp only [step, hi]; exact h⟩
      simp only [tstep, srel_none ts s i h hi]
      rfl
    | some r0 =>
      obtain ⟨g, hg1, hg2⟩ := srel_get ts s i r0 h hi
      have hr0 := hs r0 (List.mem_of_getElem? hi)
      obtain ⟨hx, htot⟩ := hop r0 hi
      obtain ⟨h', hu⟩ := Props.C02.update_total sd r0 x hr0.1.2.2.2
      obtain ⟨g', h1, h2, _, _⟩ := tUpdate_sim genK sd hm M M2 hspec hp g r0.h hg2 x
        (updPre_of_ok r0 x hr0.1 hx htot) h' hu
      refine ⟨ts.set i g', ?_, ?_⟩
      · simp only [tstep, hg1, h1, RsState.bind_ok]
        rfl
      · simp only [step, hi, hu]
        exact srel_set ts s i g' _ h h2
  | clone i =>
    cases hi : s[i]? with
    | none =>
      refine ⟨ts, ?_, by simp only [step, hi]; exact h⟩
      simp only [tstep, srel_none ts s i h hi]
      rfl
    | some r0 =>
      obtain ⟨g, hg1, hg2⟩ := srel_get ts s i r0 h hi
      refine ⟨ts ++ [g], ?_, by simp only [step, hi]; exact srel_append ts s g r0 h hg2⟩
      simp only [tstep, hg1]
      rfl
  | reset i =>
    cases hi : s[i]? with
    | none =>
      refine ⟨ts, ?_, by simp only [step, hi]; exact h⟩
      simp only [tstep, srel_none ts s i h hi]
      rfl
    | some r0 =>
      obtain ⟨g, hg1, hg2⟩ := srel_get ts s i r0 h hi
      obtain ⟨g', h1, h2, _⟩ := tReset_sim g r0.h hg2
      refine ⟨ts.set i g', ?_, ?_⟩
      · simp only [tstep, hg1, h1, RsState.bind_ok]
        rfl
      · simp only [step, hi]
        exact srel_set ts s i g' _ h h2

/-- **any history, translated = model**: within the bounds no operation panics, and the banks stay related -/
theorem trun_sim (j : Nat) (hsd : sd = 2 ^ j) (hspec : RsUpdate.HashManySpec genK hm) (hp : RsUpdate.PlatOk sd M M2)
    (ops : List Op) : ∀ (ts : List Hasher) (s : List Reg), SRel ts s → (∀ r ∈ s, RegOk r) → Bounded sd s ops →
      ∃ ts', trun sd hm M M2 ts ops = .ok ts' ∧ SRel ts' (ops.foldl (step sd) s) ∧
        ∀ r ∈ ops.foldl (step sd) s, RegOk r := by
  induction ops with
  | nil => intro ts s h hs _; exact ⟨ts, rfl, h, hs⟩
  | cons op ops ih =>
    intro ts s h hs hb
    obtain ⟨hop, hb'⟩ := hb
    obtain ⟨ts1, h1, h2⟩ := tstep_sim hm M M2 hspec hp ts s h hs op hop
    obtain ⟨ts', h3, h4, h5⟩ := ih ts1 (step sd s op) h2 (regOk_step j hsd s op hs hop) hb'
    refine ⟨ts', ?_, h4, h5⟩
    simp only [trun, h1, RsState.bind_ok]
    exact h3

omit hm M M2 in
theorem bounded_prefix (ops ops' : List Op) : ∀ (s : List Reg), Bounded sd s (ops ++ ops') → Bounded sd s ops := by
  induction ops with
  | nil => intro _ _; trivial
  | cons op ops ih => intro s h; exact ⟨h.1, ih _ h.2⟩

end hist

/-! ### queries on a related state; a single hasher -/

section final
open B3.Props.C02 (Op Reg step run Ok newReg)

theorem optOf_some {α : Type} (x : R α) (v : α) (h : RsState.optOf x = some v) : x = .ok v := by
  cases x with
  | ok a => simp only [RsState.optOf_ok, Option.some.injEq] at h; rw [h]
  | panic => simp at h

theorem chunkGo_t (flags : UInt8) (t : Nat) (cv : CV) (first : Bool) (c : List UInt8) :
    (Spec.chunkGo flags t cv first c).t = t := by
  induction hn : c.length using Nat.strongRecOn generalizing cv first c with
  | _ n ih =>
    by_cases h : c.length ≤ 64
    · rw [Spec.chunkGo, dif_pos h]
    · rw [Spec.chunkGo, dif_neg h]
      exact ih (c.drop 64).length (by simp [List.length_drop]; omega) _ _ _ rfl

/-- the root node of the specification has output counter 0 -/
theorem root_t (mode : Spec.Mode) (m : List UInt8) : (Spec.root mode m).t = 0 := by
  unfold Spec.root Spec.rootNode
  simp only []
  split
  · unfold Spec.chunkNode; exact chunkGo_t _ _ _ _ _
  · rfl

theorem new_reader_wf (o : Spec.Node) (hb : o.blen ≤ 64) (ht : o.t = 0) :
    Props.C03.WellFormed o (Rs.OutputReader.new o) ∧ (Rs.OutputReader.new o).position = 0 :=
  ⟨⟨by simp [Rs.OutputReader.new], ⟨rfl, rfl, rfl, rfl⟩, hb⟩, by simp [Rs.OutputReader.new, Rs.OutputReader.position, ht]⟩

/-- **the queries of a translated hasher related to a model register**: given what `history_correct` says of the
register, `finalize`, `count` and `finalize_xof` (followed by any reader history within the bounds) return — no
panic — the specification's hash, the number of bytes absorbed, and the slices of the specification's output stream -/
theorem reg_queries (g : Hasher) (r : Reg) (hr : TRel g r.h) (hok : RegOk r)
    (hfin : r.h.finalize genK = some (Spec.hash r.mode r.absorbed))
    (hroot : r.h.finalOutput genK = Spec.root r.mode r.absorbed) (hcount : r.h.count = r.absorbed.length) :
    tFinalize genK g = .ok (Spec.hash r.mode r.absorbed) ∧ Hasher.count g = .ok r.absorbed.length ∧
    ∃ rd, tFinalizeXof genK g = .ok rd ∧ ∀ rops, RBounded 0 rops →
      ∃ rd', trrun rd rops = .ok (rd', specRun (Spec.root r.mode r.absorbed) 0 rops) := by
  obtain ⟨⟨rep, _, _, k3⟩, hlen⟩ := hok
  have hfo := tFinalOutput_spec genK g r.h hr (rep_final_ok r.h r.absorbed rep)
  obtain ⟨c1, c2, c3, _⟩ := RsState.hasher_finalize_eq_model genK (tFinalOutput genK) g hr.inv hfo
  rw [hr.abs] at c1 c2 c3
  refine ⟨optOf_some _ _ (by rw [← hfin]; exact c2), optOf_some _ _ ?_, ?_⟩
  · rw [c1]
    unfold Rs.Hasher.count?
    unfold Rs.Hasher.count at hcount
    rw [if_pos ⟨by rw [k3]; omega, by rw [hcount]; exact hlen⟩, hcount]
  · have h0 : g.initial_chunk_counter = 0 := by
      have : (absH g).t0 = 0 := by rw [hr.abs]; exact k3
      exact this
    obtain ⟨rd, e1, e2, e3⟩ := c3 h0
    rw [hroot] at e2
    refine ⟨rd, e1, ?_⟩
    intro rops hb
    obtain ⟨hw, hp0⟩ := new_reader_wf (Spec.root r.mode r.absorbed) (rootNode_blen _ _ _) (root_t _ _)
    have := trrun_spec (Spec.root r.mode r.absorbed) rops rd _ ⟨e2, e3⟩ hw (by rw [hp0]; omega) (by rw [hp0]; exact hb)
    rw [hp0] at this
    exact this

variable (sd : Nat) (hm : HM) (M M2 : Nat)

/-! #### a single hasher: updates and resets -/

/-- the state-changing operations on one hasher -/
inductive HOp where
  | update (x : List UInt8)
  | reset

/-- the bytes absorbed after an operation: `update` appends, `reset` starts over -/
def habs : List UInt8 → HOp → List UInt8
  | a, .update x => a ++ x
  | _, .reset => []

def hstep (g : Hasher) : HOp → R Hasher
  | .update x => tUpdate genK sd hm M M2 g x
  | .reset => Hasher.reset g

def hrun : Hasher → List HOp → R Hasher
  | g, [] => pure g
  | g, op :: ops => do
    let g' ← hstep sd hm M M2 g op
    hrun g' ops

/-- every piece is a slice (shorter than 2^63 bytes) and the bytes absorbed since the last `reset` stay below 2^64 -/
def HBounded : List UInt8 → List HOp → Prop
  | _, [] => True
  | a, .update x :: ops => x.length < 2 ^ 63 ∧ a.length + x.length < 2 ^ 64 ∧ HBounded (a ++ x) ops
  | _, .reset :: ops => HBounded [] ops

def HOp.toOp : HOp → Op
  | .update x => .update 0 x
  | .reset => .reset 0

theorem trun_single (hops : List HOp) : ∀ (g : Hasher),
    trun sd hm M M2 [g] (hops.map HOp.toOp) = (hrun sd hm M M2 g hops >>= fun g' => pure [g']) := by
  induction hops with
  | nil => intro g; rfl
  | cons op hops ih =>
    intro g
    cases op with
    | update x =>
      simp only [List.map_cons, HOp.toOp, trun, tstep, hrun, hstep, List.getElem?_cons_zero]
      cases hu : tUpdate genK sd hm M M2 g x with
      | panic => rfl
      | ok g' =>
        simp only [RsState.bind_ok, RsState.pure_ok, List.set_cons_zero]
        exact ih g'
    | reset =>
      simp only [List.map_cons, HOp.toOp, trun, tstep, hrun, hstep, List.getElem?_cons_zero]
      cases hu : Hasher.reset g with
      | panic => rfl
      | ok g' =>
        simp only [RsState.bind_ok, RsState.pure_ok, List.set_cons_zero]
        exact ih g'

variable {sd}

omit hm M M2 in
theorem run_single (j : Nat) (hsd : sd = 2 ^ j) (hops : List HOp) : ∀ (r : Reg), RegOk r → HBounded r.absorbed hops →
    Bounded sd [r] (hops.map HOp.toOp) ∧
    ∃ r', (hops.map HOp.toOp).foldl (step sd) [r] = [r'] ∧ r'.mode = r.mode ∧ r'.absorbed = hops.foldl habs r.absorbed := by
  induction hops with
  | nil => intro r _ _; exact ⟨trivial, r, rfl, rfl, rfl⟩
  | cons op hops ih =>
    intro r hr hb
    have hrs : ∀ q ∈ [r], RegOk q := by intro q hq; simp only [List.mem_singleton] at hq; subst hq; exact hr
    cases op with
    | update x =>
      obtain ⟨hx, htot, hb'⟩ := hb
      obtain ⟨h', hu⟩ := Props.C02.update_total sd r x hr.1.2.2.2
      have hop : OpOk [r] (.update 0 x) := by
        intro q hq
        simp only [List.getElem?_cons_zero, Option.some.injEq] at hq
        subst hq; exact ⟨hx, htot⟩
      have hstep : step sd [r] (.update 0 x) = [{ r with h := h', absorbed := r.absorbed ++ x }] := by
        simp [step, hu]
      have hok' := regOk_step j hsd [r] (.update 0 x) hrs hop
      rw [hstep] at hok'
      obtain ⟨i1, r', i2, i3, i4⟩ := ih _ (hok' _ (List.mem_singleton.mpr rfl)) hb'
      refine ⟨⟨hop, by show Bounded sd (step sd [r] (Op.update 0 x)) _; rw [hstep]; exact i1⟩, r', ?_, i3, i4⟩
      simp only [List.map_cons, HOp.toOp, List.foldl_cons, hstep]
      exact i2
    | reset =>
      have hstep : step sd [r] (.reset 0) = [{ r with h := r.h.reset, absorbed := [] }] := by
        simp [step]
      have hok' := regOk_step j hsd [r] (.reset 0) hrs trivial
      rw [hstep] at hok'
      obtain ⟨i1, r', i2, i3, i4⟩ := ih _ (hok' _ (List.mem_singleton.mpr rfl)) hb
      refine ⟨⟨trivial, by show Bounded sd (step sd [r] (Op.reset 0)) _; rw [hstep]; exact i1⟩, r', ?_, i3, i4⟩
      simp only [List.map_cons, HOp.toOp, List.foldl_cons, hstep]
      exact i2

end final

/-! ### the one-shot functions -/

section oneshot
variable (K : Kern) (sd : Nat) (hm : HM) (M M2 : Nat)

/-- `hazmat::hash_derive_key_context` (G8) over G9's `hash_all_at_once`: the context key of the model -/
theorem tDeriveContext (hspec : RsUpdate.HashManySpec K hm) (hp : RsUpdate.PlatOk sd M M2) (ctx : List UInt8)
    (hlt : ctx.length < 2 ^ 64) :
    hash_derive_key_context K.cip (tHaoTotal K sd hm M M2) ctx
      = .ok (Rs.rootHash K (Rs.hashAllAtOnce K Spec.IV Spec.DERIVE_KEY_CONTEXT sd ctx)) := by
  obtain ⟨o, h1, h2⟩ := tHao_sim K sd hm M M2 hspec hp ctx Gen.Rs.IV Gen.Rs.DERIVE_KEY_CONTEXT hlt
  unfold hash_derive_key_context
  rw [RsState.root_hash_eq, tHaoTotal_eq K sd hm M M2 _ _ _ o h1, h2, RsState.iv_eq]
  rfl

/-- the hazmat `Mode` value of each mode, computed by translated code (`derive_key` computes the context key with
`hazmat::hash_derive_key_context`; as in `tNewDeriveKey`, the call of `hash_all_at_once` it makes is run in the panic
monad first) -/
def tModeOf : Spec.Mode → R Mode
  | .hash => pure .Hash
  | .keyed k => pure (.KeyedHash k)
  | .derive ctx => do
    let _ ← tHao K sd hm M M2 ctx Gen.Rs.IV Gen.Rs.DERIVE_KEY_CONTEXT
    let ck ← hash_derive_key_context K.cip (tHaoTotal K sd hm M M2) ctx
    pure (.DeriveKeyMaterial ck)

/-- `hash` / `keyed_hash` / `derive_key` of a mode: translated code only -/
def tHashMode (mode : Spec.Mode) (input : List UInt8) : R (List UInt8) := do
  let m ← tModeOf K sd hm M M2 mode
  tOneShot K sd hm M M2 m input

theorem tModeOf_ok (hspec : RsUpdate.HashManySpec K hm) (hp : RsUpdate.PlatOk sd M M2) (mode : Spec.Mode)
    (hctx : ∀ ctx, mode = .derive ctx → ctx.length < 2 ^ 64) :
    tModeOf K sd hm M M2 mode = .ok (RsState.modeOf K sd mode) := by
  cases mode with
  | hash => rfl
  | keyed k => rfl
  | derive ctx =>
    obtain ⟨o, h1, _⟩ := tHao_sim K sd hm M M2 hspec hp ctx Gen.Rs.IV Gen.Rs.DERIVE_KEY_CONTEXT (hctx ctx rfl)
    show (do
      let _ ← tHao K sd hm M M2 ctx Gen.Rs.IV Gen.Rs.DERIVE_KEY_CONTEXT
      let ck ← hash_derive_key_context K.cip (tHaoTotal K sd hm M M2) ctx
      pure (Mode.DeriveKeyMaterial ck)) = _
    rw [h1, tDeriveContext K sd hm M M2 hspec hp ctx (hctx ctx rfl)]
    rfl

/-- translated `hash_all_at_once(input, mode.key_words(), mode.flags_byte()).root_hash()` = the model's -/
theorem tOneShot_eq_model (hspec : RsUpdate.HashManySpec K hm) (hp : RsUpdate.PlatOk sd M M2) (m : Mode)
    (input : List UInt8) (hlt : input.length < 2 ^ 64) :
    tOneShot K sd hm M M2 m input
      = .ok (Rs.rootHash K (Rs.hashAllAtOnce K (RsState.keyOf m) (RsState.flagsOf m) sd input)) := by
  obtain ⟨o, h1, h2⟩ := tHao_sim K sd hm M M2 hspec hp input (RsState.keyOf m) (RsState.flagsOf m) hlt
  unfold tOneShot
  rw [RsState.key_words_ok, RsState.flags_byte_ok]
  simp only [RsState.bind_ok]
  rw [h1]
  simp only [RsState.bind_ok]
  rw [RsState.root_hash_eq, h2]

theorem tHashMode_eq_model (hspec : RsUpdate.HashManySpec K hm) (hp : RsUpdate.PlatOk sd M M2) (mode : Spec.Mode)
    (hctx : ∀ ctx, mode = .derive ctx → ctx.length < 2 ^ 64) (input : List UInt8) (hlt : input.length < 2 ^ 64) :
    tHashMode K sd hm M M2 mode input = .ok (Rs.oneShot K sd mode input) := by
  unfold tHashMode
  rw [tModeOf_ok K sd hm M M2 hspec hp mode hctx]
  simp only [RsState.bind_ok]
  rw [tOneShot_eq_model K sd hm M M2 hspec hp _ input hlt, (RsState.keyOf_modeOf K sd mode).1,
    (RsState.keyOf_modeOf K sd mode).2]
  rfl

end oneshot

/-! ### lists of update pieces -/

section pieces
variable (sd : Nat) (hm : HM) (M M2 : Nat)

theorem foldl_habs_updates (xs : List (List UInt8)) : ∀ (a : List UInt8),
    (xs.map HOp.update).foldl habs a = a ++ xs.flatten := by
  induction xs with
  | nil => intro a; simp
  | cons x xs ih => intro a; simp only [List.map_cons, List.foldl_cons, habs, ih, List.flatten_cons, List.append_assoc]

theorem hbounded_updates (xs : List (List UInt8)) : ∀ (a : List UInt8), (∀ x ∈ xs, x.length < 2 ^ 63) →
    a.length + xs.flatten.length < 2 ^ 64 → HBounded a (xs.map HOp.update) := by
  induction xs with
  | nil => intro _ _ _; trivial
  | cons x xs ih =>
    intro a h1 h2
    simp only [List.flatten_cons, List.length_append] at h2
    refine ⟨h1 x (by simp), by omega, ih _ (fun y hy => h1 y (by simp [hy])) ?_⟩
    rw [List.length_append]; omega

end pieces

/-! ### sufficient conditions for the bounds; prefixes -/

section bounds
open B3.Props.C02 (Op Reg step run)

/-- the bytes an operation feeds to a hasher -/
def opTotal : Op → Nat
  | .update _ x => x.length
  | _ => 0

/-- an `update` piece is a slice, a context string is a slice -/
def OpSmall : Op → Prop
  | .new mode => ∀ ctx, mode = .derive ctx → ctx.length < 2 ^ 64
  | .update _ x => x.length < 2 ^ 63
  | _ => True

theorem step_absorbed_le (sd : Nat) (s : List Reg) (op : Op) (T : Nat) (hs : ∀ r ∈ s, r.absorbed.length ≤ T) :
    ∀ r ∈ step sd s op, r.absorbed.length ≤ T + opTotal op := by
  intro r hr
  cases op with
  | new mode =>
    simp only [step, List.mem_append, List.mem_singleton] at hr
    rcases hr with hr | hr
    · exact Nat.le_trans (hs r hr) (Nat.le_add_right _ _)
    · subst hr; show ([] : List UInt8).length ≤ _; simp
  | update i x =>
    cases hi : s[i]? with
    | none => simp only [step, hi] at hr; exact Nat.le_trans (hs r hr) (Nat.le_add_right _ _)
    | some r0 =>
      cases hu : r0.h.update genK sd x with
      | none => simp only [step, hi, hu] at hr; exact Nat.le_trans (hs r hr) (Nat.le_add_right _ _)
      | some h' =>
        simp only [step, hi, hu] at hr
        rcases List.mem_or_eq_of_mem_set hr with hr | hr
        · exact Nat.le_trans (hs r hr) (Nat.le_add_right _ _)
        · subst hr
          show (r0.absorbed ++ x).length ≤ T + x.length
          rw [List.length_append]
          have := hs r0 (List.mem_of_getElem? hi)
          omega
  | clone i =>
    cases hi : s[i]? with
    | none => simp only [step, hi] at hr; exact Nat.le_trans (hs r hr) (Nat.le_add_right _ _)
    | some r0 =>
      simp only [step, hi, List.mem_append, List.mem_singleton] at hr
      rcases hr with hr | hr
      · exact Nat.le_trans (hs r hr) (Nat.le_add_right _ _)
      · subst hr; exact Nat.le_trans (hs _ (List.mem_of_getElem? hi)) (Nat.le_add_right _ _)
  | reset i =>
    cases hi : s[i]? with
    | none => simp only [step, hi] at hr; exact Nat.le_trans (hs r hr) (Nat.le_add_right _ _)
    | some r0 =>
      simp only [step, hi] at hr
      rcases List.mem_or_eq_of_mem_set hr with hr | hr
      · exact Nat.le_trans (hs r hr) (Nat.le_add_right _ _)
      · subst hr; show ([] : List UInt8).length ≤ _; simp

/-- **the bounds hold for every history that feeds fewer than 2^64 bytes in total**, in pieces shorter than 2^63
bytes (whatever the interleaving of `new`, `update`, `clone`, `reset`) -/
theorem bounded_of_total (sd : Nat) (ops : List Op) : ∀ (s : List Reg) (T : Nat), (∀ r ∈ s, r.absorbed.length ≤ T) →
    (∀ op ∈ ops, OpSmall op) → T + (ops.map opTotal).sum < 2 ^ 64 → Bounded sd s ops := by
  induction ops with
  | nil => intro _ _ _ _ _; trivial
  | cons op ops ih =>
    intro s T hs hsm htot
    simp only [List.map_cons, List.sum_cons] at htot
    refine ⟨?_, ih _ (T + opTotal op) (step_absorbed_le sd s op T hs) (fun o ho => hsm o (by simp [ho])) (by omega)⟩
    have h1 := hsm op (by simp)
    cases op with
    | new mode => exact h1
    | update i x =>
      intro r hr
      have := hs r (List.mem_of_getElem? hr)
      simp only [opTotal] at htot
      exact ⟨h1, by omega⟩
    | clone i => trivial
    | reset i => trivial

theorem hbounded_prefix (a b : List HOp) : ∀ (m : List UInt8), HBounded m (a ++ b) → HBounded m a := by
  induction a with
  | nil => intro _ _; trivial
  | cons op a ih =>
    intro m h
    cases op with
    | update x => exact ⟨h.1, h.2.1, ih _ h.2.2⟩
    | reset => exact ih _ h

end bounds

/-! ### the translated `Hasher` API as one record -/

/-- the operations of `Hasher` / `OutputReader` the theorems are about -/
structure HasherApi where
  new : Spec.Mode → R Hasher
  update : Hasher → List UInt8 → R Hasher
  reset : Hasher → R Hasher
  count : Hasher → R Nat
  finalize : Hasher → R (List UInt8)
  finalize_xof : Hasher → R OutputReader
  fill : OutputReader → Nat → R (OutputReader × List UInt8)
  position : OutputReader → R Nat
  set_position : OutputReader → Nat → R OutputReader
  seek : OutputReader → Rs.SeekFrom → R (OutputReader × Option Nat)
  hash : Spec.Mode → List UInt8 → R (List UInt8)

/-- **the translated hasher**: every field is generated code (G2, G3b, G6, G8, G9) plus the plumbing above; left open are
`hash_many` (`hm`), the SIMD degree and the two MAX_SIMD_DEGREE constants -/
def translatedHasher (sd : Nat) (hm : HM) (M M2 : Nat) : HasherApi where
  new := tCtor genK sd hm M M2
  update := tUpdate genK sd hm M M2
  reset := Hasher.reset
  count := Hasher.count
  finalize := tFinalize genK
  finalize_xof := tFinalizeXof genK
  fill := tFill genK
  position := tPosition
  set_position := tSetPosition
  seek := tSeek
  hash := tHashMode genK sd hm M M2

/-! ### main theorems -/

section main
open B3.Props.C02 (Op Reg step run Ok newReg)
variable (sd : Nat) (hm : HM) (M M2 : Nat)

/-- **every history of the translated hasher agrees with the specification** (assembled from `trun_sim`,
`history_correct`, `reg_queries`) -/
theorem history_all (j : Nat) (hsd : sd = 2 ^ j) (hspec : RsUpdate.HashManySpec genK hm) (hp : RsUpdate.PlatOk sd M M2)
    (ops : List Op) (hb : Bounded sd [] ops) :
    ∃ ts, trun sd hm M M2 [] ops = .ok ts ∧ ts.length = (run sd ops).length ∧
      ∀ (i : Nat) (g : Hasher) (r : Reg), ts[i]? = some g → (run sd ops)[i]? = some r →
        TRel g r.h ∧
        tFinalize genK g = .ok (Spec.hash r.mode r.absorbed) ∧ Hasher.count g = .ok r.absorbed.length ∧
        ∃ rd, tFinalizeXof genK g = .ok rd ∧ ∀ rops, RBounded 0 rops →
          ∃ rd', trrun rd rops = .ok (rd', specRun (Spec.root r.mode r.absorbed) 0 rops) := by
  obtain ⟨ts, h1, h2, h3⟩ := trun_sim hm M M2 j hsd hspec hp ops [] [] ⟨rfl, by intro i g r h; simp at h⟩
    (by intro r hr; simp at hr) hb
  refine ⟨ts, h1, h2.1, ?_⟩
  intro i g r hg hr
  have hmem : r ∈ run sd ops := List.mem_of_getElem? hr
  obtain ⟨a, b, c⟩ := Props.C02.history_correct sd j hsd ops r hmem
  have hrel := h2.2 i g r hg hr
  exact ⟨hrel, reg_queries g r hrel (h3 r hmem) a b c⟩

variable {sd}

/-- **one translated hasher, any mode, any sequence of `update`s and `reset`s within the bounds** -/
theorem single_history (j : Nat) (hsd : sd = 2 ^ j) (hspec : RsUpdate.HashManySpec genK hm) (hp : RsUpdate.PlatOk sd M M2)
    (mode : Spec.Mode) (hctx : ∀ ctx, mode = .derive ctx → ctx.length < 2 ^ 64) (hops : List HOp)
    (hb : HBounded [] hops) :
    ∃ g0 g, tCtor genK sd hm M M2 mode = .ok g0 ∧ hrun sd hm M M2 g0 hops = .ok g ∧
      tFinalize genK g = .ok (Spec.hash mode (hops.foldl habs [])) ∧
      Hasher.count g = .ok (hops.foldl habs []).length ∧
      ∃ rd, tFinalizeXof genK g = .ok rd ∧ ∀ rops, RBounded 0 rops →
        ∃ rd', trrun rd rops = .ok (rd', specRun (Spec.root mode (hops.foldl habs [])) 0 rops) := by
  have hnew : ∀ q ∈ step sd [] (.new mode), RegOk q := regOk_step j hsd [] (.new mode) (by intro q hq; simp at hq) hctx
  have hs0 : step sd [] (.new mode) = [newReg sd mode] := rfl
  rw [hs0] at hnew
  obtain ⟨b1, r', b2, b3, b4⟩ := run_single j hsd hops (newReg sd mode) (hnew _ (by simp)) hb
  have hbd : Bounded sd [] (Op.new mode :: hops.map HOp.toOp) := ⟨hctx, by rw [hs0]; exact b1⟩
  obtain ⟨ts, h1, h2, h3⟩ := history_all sd hm M M2 j hsd hspec hp _ hbd
  have hrunm : run sd (Op.new mode :: hops.map HOp.toOp) = [r'] := by
    unfold run
    rw [List.foldl_cons, hs0]; exact b2
  obtain ⟨g0, c1, _, _⟩ := tCtor_sim genK sd hm M M2 hspec hp mode hctx
  have h1' : trun sd hm M M2 [] (Op.new mode :: hops.map HOp.toOp)
      = (hrun sd hm M M2 g0 hops >>= fun g' => pure [g']) := by
    rw [← trun_single]
    simp only [trun, tstep, c1, RsState.bind_ok, RsState.pure_ok, List.nil_append]
  rw [h1'] at h1
  cases hg : hrun sd hm M M2 g0 hops with
  | panic => rw [hg] at h1; cases h1
  | ok g =>
    rw [hg] at h1
    simp only [RsState.bind_ok, RsState.pure_ok, R.ok.injEq] at h1
    subst h1
    obtain ⟨_, q1, q2, q3⟩ := h3 0 g r' rfl (by rw [hrunm]; rfl)
    rw [b3, b4] at q1 q3
    rw [b4] at q2
    exact ⟨g0, g, c1, hg, q1, q2, q3⟩

end main

end B3.Proofs.Capstone
