/-
BUILD-CFG, part 2 (property C04): a verified tautology checker for `Cfg` formulas (the cfg predicates of `B3/DispatchPrim.lean`), and
formulas that express "for every row of a table".  `valid c = true` is decided by evaluation; `valid_sound` turns it into "for every build".
-/
import B3.DispatchPrim
set_option linter.unusedSimpArgs false
namespace B3.Proofs.BuildCfg
open B3 B3.Dispatch

/-! ## 2. a verified tautology checker for `Cfg` formulas -/

/-- an atom of a cfg predicate: a bare name, or `key = "value"` -/
inductive Atom where
  | flag (n : String)
  | kv (k v : String)
deriving DecidableEq, Repr

def atomVal (b : Build) : Atom → Bool
  | .flag n => b.flag n
  | .kv k v => b.kv k v

/-- the atoms of a formula, with repetitions -/
def atomsRaw : Cfg → List Atom
  | .flag n => [.flag n]
  | .kv k v => [.kv k v]
  | .tt => []
  | .ff => []
  | .and a b => atomsRaw a ++ atomsRaw b
  | .or a b => atomsRaw a ++ atomsRaw b
  | .not a => atomsRaw a

def dedup : List Atom → List Atom
  | [] => []
  | a :: l => if (dedup l).contains a then dedup l else a :: dedup l

theorem mem_dedup (a : Atom) (l : List Atom) (h : a ∈ l) : a ∈ dedup l := by
  induction l with
  | nil => cases h
  | cons x xs ih =>
    unfold dedup
    rcases List.mem_cons.mp h with h | h
    · subst h
      split
      · next hc => simpa using hc
      · exact List.mem_cons_self
    · split
      · exact ih h
      · exact List.mem_cons_of_mem _ (ih h)

/-- the atoms of a formula, each once -/
def atoms (c : Cfg) : List Atom := dedup (atomsRaw c)

/-- a formula whose atoms are positions in a list -/
inductive ICfg where
  | atom (i : Nat)
  | tt
  | ff
  | and (a b : ICfg)
  | or (a b : ICfg)
  | not (a : ICfg)

def ICfg.evalF (f : Nat → Bool) : ICfg → Bool
  | .atom i => f i
  | .tt => true
  | .ff => false
  | .and a b => a.evalF f && b.evalF f
  | .or a b => a.evalF f || b.evalF f
  | .not a => !a.evalF f

/-- every atom position is below `n` -/
def ICfg.bounded (n : Nat) : ICfg → Prop
  | .atom i => i < n
  | .tt => True
  | .ff => True
  | .and a b => a.bounded n ∧ b.bounded n
  | .or a b => a.bounded n ∧ b.bounded n
  | .not a => a.bounded n

def compile (as : List Atom) : Cfg → ICfg
  | .flag n => .atom (as.idxOf (.flag n))
  | .kv k v => .atom (as.idxOf (.kv k v))
  | .tt => .tt
  | .ff => .ff
  | .and a b => .and (compile as a) (compile as b)
  | .or a b => .or (compile as a) (compile as b)
  | .not a => .not (compile as a)

/-- the valuation of positions that build `b` induces -/
def valOf (as : List Atom) (b : Build) (i : Nat) : Bool := ((as[i]?).map (atomVal b)).getD false

theorem valOf_idxOf (as : List Atom) (b : Build) (a : Atom) (h : a ∈ as) : valOf as b (as.idxOf a) = atomVal b a := by
  unfold valOf
  induction as with
  | nil => cases h
  | cons x xs ih =>
    by_cases hx : x = a
    · subst hx; simp
    · have hm : a ∈ xs := by
        rcases List.mem_cons.mp h with h | h
        · exact absurd h.symm hx
        · exact h
      have hxa : (x == a) = false := by simpa using hx
      have := ih hm
      simp only [List.idxOf_cons, hxa, cond_false, List.getElem?_cons_succ]
      exact this

theorem compile_evalF (as : List Atom) (b : Build) (c : Cfg) (h : ∀ a ∈ atomsRaw c, a ∈ as) :
    (compile as c).evalF (valOf as b) = c.eval b := by
  induction c with
  | flag n => simpa [compile, ICfg.evalF, Cfg.eval, atomVal] using valOf_idxOf as b (.flag n) (h _ (by simp [atomsRaw]))
  | kv k v => simpa [compile, ICfg.evalF, Cfg.eval, atomVal] using valOf_idxOf as b (.kv k v) (h _ (by simp [atomsRaw]))
  | tt => rfl
  | ff => rfl
  | and x y ihx ihy =>
    simp only [compile, ICfg.evalF, Cfg.eval]
    rw [ihx (fun a ha => h a (by simp [atomsRaw, ha])), ihy (fun a ha => h a (by simp [atomsRaw, ha]))]
  | or x y ihx ihy =>
    simp only [compile, ICfg.evalF, Cfg.eval]
    rw [ihx (fun a ha => h a (by simp [atomsRaw, ha])), ihy (fun a ha => h a (by simp [atomsRaw, ha]))]
  | not x ih =>
    simp only [compile, ICfg.evalF, Cfg.eval]
    rw [ih (fun a ha => h a (by simpa [atomsRaw] using ha))]

theorem compile_bounded (as : List Atom) (c : Cfg) (h : ∀ a ∈ atomsRaw c, a ∈ as) : (compile as c).bounded as.length := by
  induction c with
  | flag n => exact List.idxOf_lt_length_of_mem (h _ (by simp [atomsRaw]))
  | kv k v => exact List.idxOf_lt_length_of_mem (h _ (by simp [atomsRaw]))
  | tt => trivial
  | ff => trivial
  | and x y ihx ihy =>
    exact ⟨ihx (fun a ha => h a (by simp [atomsRaw, ha])), ihy (fun a ha => h a (by simp [atomsRaw, ha]))⟩
  | or x y ihx ihy =>
    exact ⟨ihx (fun a ha => h a (by simp [atomsRaw, ha])), ihy (fun a ha => h a (by simp [atomsRaw, ha]))⟩
  | not x ih => exact ih (fun a ha => h a (by simpa [atomsRaw] using ha))

theorem evalF_congr (ic : ICfg) (f g : Nat → Bool) (n : Nat) (hb : ic.bounded n) (h : ∀ i, i < n → f i = g i) :
    ic.evalF f = ic.evalF g := by
  induction ic with
  | atom i => exact h i hb
  | tt => rfl
  | ff => rfl
  | and x y ihx ihy => simp only [ICfg.evalF]; rw [ihx hb.1, ihy hb.2]
  | or x y ihx ihy => simp only [ICfg.evalF]; rw [ihx hb.1, ihy hb.2]
  | not x ih => simp only [ICfg.evalF]; rw [ih hb]

/-! #### truth tables as bit masks: row `k` (`k < 2^n`) is the assignment `i ↦ k.testBit i` -/

/-- the column of variable `i` among `n` variables: bit `k` is `k.testBit i` -/
def varTT : Nat → Nat → Nat
  | 0, _ => 0
  | n + 1, i => if i = n then (2 ^ (2 ^ n) - 1) <<< (2 ^ n) else varTT n i ||| (varTT n i <<< (2 ^ n))

theorem two_pow_succ_two_pow (n : Nat) : 2 ^ (2 ^ (n + 1)) = 2 ^ (2 ^ n) * 2 ^ (2 ^ n) := by
  rw [← Nat.pow_add]; congr 1; rw [Nat.pow_succ]; omega

theorem varTT_lt (n i : Nat) : varTT n i < 2 ^ (2 ^ n) := by
  induction n with
  | zero => simp [varTT]
  | succ n ih =>
    have hp : 0 < 2 ^ (2 ^ n) := Nat.two_pow_pos _
    unfold varTT
    rw [two_pow_succ_two_pow]
    split
    · rw [Nat.shiftLeft_eq]
      exact Nat.mul_lt_mul_of_pos_right (by omega) hp
    · have he : 2 ^ (2 ^ n) * 2 ^ (2 ^ n) = 2 ^ (2 ^ n + 2 ^ n) := (Nat.pow_add _ _ _).symm
      rw [he]
      apply Nat.or_lt_two_pow
      · rw [← he]; exact Nat.lt_of_lt_of_le ih (Nat.le_mul_of_pos_right _ hp)
      · rw [← he, Nat.shiftLeft_eq]; exact Nat.mul_lt_mul_of_pos_right ih hp

theorem testBit_top (n k : Nat) (hk : k < 2 ^ (n + 1)) : k.testBit n = decide (2 ^ n ≤ k) := by
  by_cases h : 2 ^ n ≤ k
  · have : k = 2 ^ n + (k - 2 ^ n) := by omega
    rw [this, Nat.testBit_two_pow_add_eq, Nat.testBit_lt_two_pow (by rw [Nat.pow_succ] at hk; omega)]
    simp
  · rw [Nat.testBit_lt_two_pow (by omega)]; simp [h]

theorem varTT_testBit (n i k : Nat) (hi : i < n) (hk : k < 2 ^ n) : (varTT n i).testBit k = k.testBit i := by
  induction n generalizing k with
  | zero => cases hi
  | succ n ih =>
    unfold varTT
    have hk' : k < 2 ^ n + 2 ^ n := by rw [Nat.pow_succ] at hk; omega
    split
    · next h =>
      subst h
      rw [Nat.testBit_shiftLeft, Nat.testBit_two_pow_sub_one, testBit_top i k hk]
      by_cases hge : 2 ^ i ≤ k
      · have : k - 2 ^ i < 2 ^ i := by omega
        simp [hge, this]
      · simp [hge]
    · next h =>
      have hi' : i < n := by omega
      rw [Nat.testBit_or, Nat.testBit_shiftLeft]
      by_cases hge : 2 ^ n ≤ k
      · have h1 : (varTT n i).testBit k = false :=
          Nat.testBit_lt_two_pow (Nat.lt_of_lt_of_le (varTT_lt n i) (Nat.pow_le_pow_right (by omega) hge))
        have h2 := ih (k - 2 ^ n) hi' (by omega)
        have h3 : k = 2 ^ n + (k - 2 ^ n) := by omega
        rw [h1, h2]
        conv => rhs; rw [h3, Nat.testBit_two_pow_add_gt hi']
        simp [hge]
      · have : ¬ k ≥ 2 ^ n := hge
        rw [ih k hi' (by omega)]
        simp [this]

def ttOf (n mask : Nat) : ICfg → Nat
  | .atom i => varTT n i
  | .tt => mask
  | .ff => 0
  | .and a b => ttOf n mask a &&& ttOf n mask b
  | .or a b => ttOf n mask a ||| ttOf n mask b
  | .not a => mask ^^^ ttOf n mask a

theorem ttOf_testBit (n : Nat) (ic : ICfg) (hb : ic.bounded n) (k : Nat) (hk : k < 2 ^ n) :
    (ttOf n (2 ^ (2 ^ n) - 1) ic).testBit k = ic.evalF (fun i => k.testBit i) := by
  induction ic with
  | atom i => exact varTT_testBit n i k hb hk
  | tt => simp [ttOf, ICfg.evalF, Nat.testBit_two_pow_sub_one, hk]
  | ff => simp [ttOf, ICfg.evalF]
  | and x y ihx ihy => simp only [ttOf, ICfg.evalF, Nat.testBit_and, ihx hb.1, ihy hb.2]
  | or x y ihx ihy => simp only [ttOf, ICfg.evalF, Nat.testBit_or, ihx hb.1, ihy hb.2]
  | not x ih => simp [ttOf, ICfg.evalF, Nat.testBit_xor, ih hb, Nat.testBit_two_pow_sub_one, hk]

/-- the row of a valuation -/
def natOfFn (f : Nat → Bool) : Nat → Nat
  | 0 => 0
  | n + 1 => (if f n then 2 ^ n else 0) + natOfFn f n

theorem natOfFn_lt (f : Nat → Bool) (n : Nat) : natOfFn f n < 2 ^ n := by
  induction n with
  | zero => simp [natOfFn]
  | succ n ih => unfold natOfFn; rw [Nat.pow_succ]; split <;> omega

theorem natOfFn_testBit (f : Nat → Bool) (n i : Nat) (hi : i < n) : (natOfFn f n).testBit i = f i := by
  induction n with
  | zero => cases hi
  | succ n ih =>
    unfold natOfFn
    by_cases h : i = n
    · subst h
      cases hf : f i
      · simp [Nat.testBit_lt_two_pow (natOfFn_lt f i)]
      · simp only [if_true]
        rw [Nat.testBit_two_pow_add_eq, Nat.testBit_lt_two_pow (natOfFn_lt f i)]; rfl
    · have hi' : i < n := by omega
      cases hf : f n
      · simpa using ih hi'
      · simp only [if_true]
        rw [Nat.testBit_two_pow_add_gt hi', ih hi']

/-- the formula holds under every assignment of its atoms (one pass over the formula with `2^n`-bit truth tables) -/
def valid (c : Cfg) : Bool :=
  let as := atoms c
  let n := as.length
  let mask := 2 ^ (2 ^ n) - 1
  ttOf n mask (compile as c) == mask

theorem valid_sound (c : Cfg) (h : valid c = true) (b : Build) : c.eval b = true := by
  unfold valid at h
  have hmem : ∀ a ∈ atomsRaw c, a ∈ atoms c := fun a ha => mem_dedup a _ ha
  have hb := compile_bounded (atoms c) c hmem
  have hk := natOfFn_lt (valOf (atoms c) b) (atoms c).length
  rw [← compile_evalF (atoms c) b c hmem,
    evalF_congr _ _ (fun i => (natOfFn (valOf (atoms c) b) (atoms c).length).testBit i) _ hb
      (fun i hi => (natOfFn_testBit _ _ i hi).symm),
    ← ttOf_testBit _ _ hb _ hk, beq_iff_eq.mp h, Nat.testBit_two_pow_sub_one]
  simpa using hk

/-! ### formulas over tables -/

/-- all predicates of a gate hold -/
def gateF (g : List Cfg) : Cfg := g.foldr .and .tt
def allF (cs : List Cfg) : Cfg := cs.foldr .and .tt
def anyF (cs : List Cfg) : Cfg := cs.foldr .or .ff
def impF (a b : Cfg) : Cfg := .or (.not a) b
def constF (p : Bool) : Cfg := if p then .tt else .ff

/-- at most one of the formulas holds -/
def atMostOneF : List Cfg → Cfg
  | [] => .tt
  | c :: cs => .and (impF c (.not (anyF cs))) (atMostOneF cs)

def exactlyOneF (cs : List Cfg) : Cfg := .and (anyF cs) (atMostOneF cs)

theorem gateF_eval (b : Build) (g : List Cfg) : (gateF g).eval b = b.on g := by
  induction g with
  | nil => rfl
  | cons x xs ih => simp [gateF, Build.on, Cfg.eval] at ih ⊢; rw [ih]

theorem allF_eval (b : Build) (cs : List Cfg) : (allF cs).eval b = cs.all (·.eval b) := by
  induction cs with
  | nil => rfl
  | cons x xs ih => simp [allF, Cfg.eval] at ih ⊢; rw [ih]

theorem anyF_eval (b : Build) (cs : List Cfg) : (anyF cs).eval b = cs.any (·.eval b) := by
  induction cs with
  | nil => rfl
  | cons x xs ih => simp [anyF, Cfg.eval] at ih ⊢; rw [ih]

theorem impF_eval (b : Build) (x y : Cfg) : (impF x y).eval b = (!x.eval b || y.eval b) := rfl

theorem constF_eval (b : Build) (p : Bool) : (constF p).eval b = p := by cases p <;> rfl

/-- how many of the formulas hold -/
def countTrue (b : Build) (cs : List Cfg) : Nat := (cs.filter (·.eval b)).length

theorem countTrue_cons (b : Build) (x : Cfg) (xs : List Cfg) :
    countTrue b (x :: xs) = (if x.eval b = true then 1 else 0) + countTrue b xs := by
  unfold countTrue
  cases hx : x.eval b <;> simp [List.filter, hx]; omega

theorem anyF_false_iff (b : Build) (cs : List Cfg) : (anyF cs).eval b = false ↔ countTrue b cs = 0 := by
  induction cs with
  | nil => simp [anyF, Cfg.eval, countTrue]
  | cons x xs ih =>
    rw [countTrue_cons]
    show (x.eval b || (anyF xs).eval b) = false ↔ _
    cases hx : x.eval b
    · simpa using ih
    · simp

theorem atMostOneF_eval (b : Build) (cs : List Cfg) : (atMostOneF cs).eval b = true ↔ countTrue b cs ≤ 1 := by
  induction cs with
  | nil => simp [atMostOneF, Cfg.eval, countTrue]
  | cons x xs ih =>
    rw [countTrue_cons]
    show ((!x.eval b || !(anyF xs).eval b) && (atMostOneF xs).eval b) = true ↔ _
    have h0 := anyF_false_iff b xs
    cases hx : x.eval b
    · simpa using ih
    · cases ha : (anyF xs).eval b
      · have := h0.mp ha
        simp [ih, this]
      · have : countTrue b xs ≠ 0 := fun h => by rw [h0.mpr h] at ha; cases ha
        simp
        omega

theorem exactlyOneF_eval (b : Build) (cs : List Cfg) : (exactlyOneF cs).eval b = true ↔ countTrue b cs = 1 := by
  show ((anyF cs).eval b && (atMostOneF cs).eval b) = true ↔ _
  rw [Bool.and_eq_true, atMostOneF_eval]
  have h0 := anyF_false_iff b cs
  constructor
  · rintro ⟨h1, h2⟩
    have : countTrue b cs ≠ 0 := fun h => by rw [h0.mpr h] at h1; cases h1
    omega
  · intro h
    refine ⟨?_, by omega⟩
    cases ha : (anyF cs).eval b
    · rw [h0.mp ha] at h; cases h
    · rfl

/-- `∀ x ∈ tbl, pre x → post x` as a formula -/
def tableF {α : Type} (tbl : List α) (pre post : α → Cfg) : Cfg := allF (tbl.map fun x => impF (pre x) (post x))

theorem tableF_eval {α : Type} (b : Build) (tbl : List α) (pre post : α → Cfg) (h : (tableF tbl pre post).eval b = true) :
    ∀ x ∈ tbl, (pre x).eval b = true → (post x).eval b = true := by
  intro x hx hp
  simp only [tableF, allF_eval, List.all_map, List.all_eq_true] at h
  have := h x hx
  simp only [Function.comp, impF_eval, hp, Bool.not_true, Bool.false_or] at this
  exact this

end B3.Proofs.BuildCfg
