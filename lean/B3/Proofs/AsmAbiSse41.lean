import B3.Gen.AsmAbiSse41Unix
import B3.Gen.AsmAbiSse41Wgnu
import B3.Gen.AsmAbiSse41Msvc
import B3.Asm.Abi

/-! Kernel evaluation of the checker `B3.Asm.abiOk` on the generated abstractions of the sse41 assembly files
(`decide +kernel`: the kernel itself runs the abstract interpreter). -/

namespace B3.Proofs.AsmAbi
open B3.Asm B3.Gen.AsmAbi

theorem hash_many_sse41_unix_ok : abiOk .sysv hash_many_sse41_unix = true := by decide +kernel
theorem compress_in_place_sse41_unix_ok : abiOk .sysv compress_in_place_sse41_unix = true := by decide +kernel
theorem compress_xof_sse41_unix_ok : abiOk .sysv compress_xof_sse41_unix = true := by decide +kernel
theorem hash_many_sse41_wgnu_ok : abiOk .win64 hash_many_sse41_wgnu = true := by decide +kernel
theorem compress_in_place_sse41_wgnu_ok : abiOk .win64 compress_in_place_sse41_wgnu = true := by decide +kernel
theorem compress_xof_sse41_wgnu_ok : abiOk .win64 compress_xof_sse41_wgnu = true := by decide +kernel
theorem hash_many_sse41_msvc_ok : abiOk .win64 hash_many_sse41_msvc = true := by decide +kernel
theorem compress_in_place_sse41_msvc_ok : abiOk .win64 compress_in_place_sse41_msvc = true := by decide +kernel
theorem compress_xof_sse41_msvc_ok : abiOk .win64 compress_xof_sse41_msvc = true := by decide +kernel

end B3.Proofs.AsmAbi
