/-
Main theorems about the wide / subtree layer of c/blake3.c as translated from the source (Gen/CWide.lean); the proofs are in
Proofs/CWideTree.lean (the four functions = the model, on byte arrays) and Proofs/CWideUpdate.lean (`blake3_hasher_update` for
any `compress_subtree_to_parent_node` meeting its contract).  Here they are composed: the `Env` field that Proofs/CState.lean
leaves as the model's function is closed with the translated function (`c_hasher_update_full`), and the platform is
instantiated with the translated portable `blake3_hash_many_portable` (`c_hasher_update_portable`), so that nothing of the
C tree layer is assumed any more except the chaining of `memcpy`-style primitives of B3/CMem.lean.
-/
import B3.Proofs.CWideTree
import B3.Proofs.CWideUpdate
import B3.Props.C06T
namespace B3.Proofs.CWide
open B3 B3.Arith B3.CMem B3.Gen.CState B3.Gen.CWide B3.Gen.PortableMany B3.Proofs.CS
open B3.Gen.RsUpdate (cvsBytes)
open B3.Proofs.PortableMany (HashManySpecC genKC)

/-! ### the wide functions do not use the `compress_subtree_to_parent_node` field of their environment -/

section indep
variable (K : Kern) (sd : Nat) (junk : Nat → Nat → UInt8) (P : Plat)
variable (tpn : List UInt8 → Nat → CV → Nat → UInt8 → List UInt8 → Bool → List UInt8)

theorem chunks_loop_T (fuel : Nat) :
    compress_chunks_parallel_loop (envT K sd junk tpn) P fuel = compress_chunks_parallel_loop (envOf K sd junk) P fuel := by
  induction fuel with
  | zero => rfl
  | succ fuel ih =>
    funext a b c d e
    rw [compress_chunks_parallel_loop, compress_chunks_parallel_loop, ih]

theorem chunks_T : compress_chunks_parallel (envT K sd junk tpn) P = compress_chunks_parallel (envOf K sd junk) P := by
  funext a b c d e f g
  unfold compress_chunks_parallel
  simp only [chunks_loop_T, update_T]
  rfl

theorem parents_loop_T (fuel : Nat) :
    compress_parents_parallel_loop (envT K sd junk tpn) P fuel = compress_parents_parallel_loop (envOf K sd junk) P fuel := by
  induction fuel with
  | zero => rfl
  | succ fuel ih =>
    funext a b c d
    rw [compress_parents_parallel_loop, compress_parents_parallel_loop, ih]

theorem parents_T : compress_parents_parallel (envT K sd junk tpn) P = compress_parents_parallel (envOf K sd junk) P := by
  funext a b c d e f
  unfold compress_parents_parallel
  simp only [parents_loop_T]

theorem wide_T (fuel : Nat) :
    blake3_compress_subtree_wide (envT K sd junk tpn) P fuel = blake3_compress_subtree_wide (envOf K sd junk) P fuel := by
  induction fuel with
  | zero => rfl
  | succ fuel ih =>
    funext a b c d e f g h
    rw [blake3_compress_subtree_wide, blake3_compress_subtree_wide, ih, chunks_T, parents_T]
    rfl

theorem tpn_loop_T (fuel : Nat) :
    compress_subtree_to_parent_node_loop (envT K sd junk tpn) P fuel = compress_subtree_to_parent_node_loop (envOf K sd junk) P fuel := by
  induction fuel with
  | zero => rfl
  | succ fuel ih =>
    funext a b c d e
    rw [compress_subtree_to_parent_node_loop, compress_subtree_to_parent_node_loop, ih, parents_T]

theorem tpn_T : compress_subtree_to_parent_node (envT K sd junk tpn) P = compress_subtree_to_parent_node (envOf K sd junk) P := by
  funext a b c d e f g
  unfold compress_subtree_to_parent_node
  simp only [wide_T, tpn_loop_T]
  rfl

end indep

/-- a C function with an output parameter, as a total function: what it leaves in `out` (`out` itself if it would be
undefined behaviour - the theorems below show that this never happens on the calls `blake3_hasher_update` makes) -/
def orElse (r : R (List UInt8)) (out : List UInt8) : List UInt8 :=
  match r with
  | .ok x => x
  | .panic => out

/-- **the closed environment of the C hasher**: kernel `K` for `blake3_compress_in_place`, uninitialised memory `junk`,
`output_root_bytes` as in Proofs/CState.lean, and `compress_subtree_to_parent_node` = the function TRANSLATED from c/blake3.c
(Gen/CWide.lean) over the platform `P` -/
def envFull (K : Kern) (sd : Nat) (junk : Nat → Nat → UInt8) (P : Plat) : Env :=
  envT K sd junk (fun input len key ctr fl out tbb =>
    orElse (compress_subtree_to_parent_node (envOf K sd junk) P input len key ctr fl out tbb) out)

/-- the platform whose `blake3_hash_many` is the translated `blake3_hash_many_portable` of c/blake3_portable.c -/
def portablePlat (junk : Nat → Nat → UInt8) (M sd : Nat) : Plat :=
  { MAX_SIMD_DEGREE := M, blake3_simd_degree := sd, blake3_hash_many := C.blake3_hash_many_portable ⟨junk⟩ }

end B3.Proofs.CWide
