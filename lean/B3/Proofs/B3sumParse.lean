/-
The functions of b3sum/src/main.rs as translated statement by statement from the source
(Gen/B3sumParse.lean, artefact G11-b3sum) equal the hand-written model (B3sum/Model.lean), so that
the theorems of B3sum/Props13.lean and Props12.lean hold for the translated code.
-/
import B3.Gen.B3sumParse
import B3.B3sum.Proofs
import B3.B3sum.Props13
import B3.B3sum.Props12

namespace B3.Proofs.B3sumParse
open B3.B3sum B3.B3sum.RustPrim
open B3.Gen

/-! ### the monad -/

@[simp] theorem bind_eq {ε α β : Type} (x : Res ε α) (f : α → Res ε β) : (x >>= f) = x.bind f := rfl
@[simp] theorem pure_eq {ε α : Type} (a : α) : (pure a : Res ε α) = .ok a := rfl
@[simp] theorem ok_bind {ε α β : Type} (a : α) (f : α → Res ε β) : (Res.ok a : Res ε α).bind f = f a := rfl
@[simp] theorem err_bind {ε α β : Type} (e : ε) (f : α → Res ε β) : (Res.err e : Res ε α).bind f = .err e := rfl
@[simp] theorem panic_bind {ε α β : Type} (f : α → Res ε β) : (Res.panic : Res ε α).bind f = .panic := rfl

/-- `Result::map` -/
def Res.map {ε α β : Type} (f : α → β) : Res ε α → Res ε β
  | .ok a => .ok (f a)
  | .err e => .err e
  | .panic => .panic

/-! ### hex_half_byte, check_for_invalid_characters -/

theorem hex_half_byte_eq (c : Char) : B3sumParse.hex_half_byte c = hexHalfByte c := by
  unfold B3sumParse.hex_half_byte hexHalfByte
  have h0 : ('0' : Char).toNat = 48 := by decide
  have h9 : ('9' : Char).toNat = 57 := by decide
  have ha : ('a' : Char).toNat = 97 := by decide
  have hf : ('f' : Char).toNat = 102 := by decide
  simp only [charLe, charToU8, u8sub, h0, h9, ha, hf, Bool.and_eq_true, decide_eq_true_eq, bind_eq]

theorem check_for_invalid_characters_eq (p : Str) :
    B3sumParse.check_for_invalid_characters p = checkForInvalidCharacters p := by
  unfold B3sumParse.check_for_invalid_characters checkForInvalidCharacters
  have h1 : Char.ofNat 0x0 = NUL := rfl
  have h2 : Char.ofNat 0xfffd = REPL := rfl
  rw [h1, h2]
  by_cases a : p.contains NUL = true
  · rw [if_pos a, if_pos a]
  · rw [if_neg a, if_neg a]
    by_cases b : p.contains REPL = true
    · rw [if_pos b, if_pos b]
    · rw [if_neg b, if_neg b]; rfl

/-! ### filepath_to_string -/

theorem strContainsAny_esc (s : Str) :
    strContainsAny s ['\\', '\n', '\r'] = s.any (fun c => c = '\\' || c = '\n' || c = '\r') := by
  unfold strContainsAny
  congr 1
  funext c
  simp [Bool.or_assoc]

theorem filepath_to_string_eq {ε : Type} (path : List UInt8) :
    B3sumParse.filepath_to_string (ε := ε) path =
      .ok { filepath_string := (filepathToStringBytes path).1, is_escaped := (filepathToStringBytes path).2 } := by
  unfold B3sumParse.filepath_to_string filepathToStringBytes filepathToString
  simp only [strContainsAny_esc, bind_eq, pure_eq]
  by_cases h : (lossyDecode path).any (fun c => c = '\\' || c = '\n' || c = '\r') = true
  · simp only [if_pos h, ok_bind]
  · simp only [if_neg h, ok_bind]

/-! ### the two split functions, trim_end_matches -/

theorem split_untagged_check_line_eq {ε : Type} (s : Str) :
    B3sumParse.split_untagged_check_line (ε := ε) s = .ok (splitUntagged s) := rfl

theorem split_tagged_check_line_eq (s : Str) :
    B3sumParse.split_tagged_check_line (ε := PErr) s = splitTagged s := by
  unfold B3sumParse.split_tagged_check_line splitTagged
  have hp : ['B', 'L', 'A', 'K', 'E', '3', ' ', '('] = TAG_PREFIX := rfl
  have hs : [')', ' ', '=', ' '] = TAG_SEP := rfl
  simp only [hp, hs, sliceFrom, bind_eq, pure_eq]
  by_cases h : TAG_PREFIX.isPrefixOf s = true
  · simp [h]
  · simp [h]

theorem trimEndMatches_crlf (s : Str) : trimEndMatches ['\r', '\n'] s = trimEndCRLF s := by
  induction s with
  | nil => rfl
  | cons c cs ih =>
    have hc : (['\r', '\n'] : List Char).contains c = isCRLF c := by
      simp [isCRLF]
    simp only [trimEndMatches, trimEndCRLF, ih, hc]
    cases trimEndCRLF cs <;> rfl

/-! ### unescape, the hash decoding loop, parse_check_line -/

@[simp] theorem ofOption_some {ε α : Type} (a : α) : (Res.ofOption (some a) : Res ε α) = .ok a := rfl
@[simp] theorem ofOption_none {ε α : Type} : (Res.ofOption (none : Option α) : Res ε α) = .panic := rfl

theorem byteLen_append (a b : Str) : byteLen (a ++ b) = byteLen a + byteLen b := by
  induction a with
  | nil => simp [byteLen]
  | cons c cs ih => simp [byteLen, ih]; omega

theorem dropBytes_byteLen {n : Nat} {s t : Str} (h : dropBytes n s = some t) : byteLen t + n = byteLen s := by
  induction s generalizing n with
  | nil =>
    unfold dropBytes at h
    split at h
    · cases h; simp [byteLen]; omega
    · cases h
  | cons c cs ih =>
    unfold dropBytes at h
    split at h
    · cases h; omega
    · split at h
      · have := ih h; simp [byteLen]; omega
      · cases h

theorem unescape_loop_eq (fuel : Nat) (path acc : Str) (hb : byteLen path < 9223372036854775808) :
    (B3sumParse.unescape_loop fuel acc path).bind (fun r => .ok (r.1 ++ r.2)) = unescapeLoop fuel path acc := by
  induction fuel generalizing path acc with
  | zero => rfl
  | succ fuel ih =>
    rw [B3sumParse.unescape_loop, unescapeLoop]
    cases hf : findChar '\\' path with
    | none => simp
    | some i =>
      simp only [usizeSub, bind_eq, pure_eq, sliceTo, sliceFrom, unwrap]
      cases hu : usub (ε := PErr) (byteLen path) 1 with
      | err e => rfl
      | panic => rfl
      | ok l =>
        simp only [ok_bind]
        have hl : l + 1 = byteLen path := by
          unfold usub at hu
          split at hu
          · cases hu; omega
          · cases hu
        by_cases hi : i < l
        · have e1 : usizeAdd (ε := PErr) i 1 = .ok (i + 1) := by unfold usizeAdd; rw [if_pos (by omega)]
          have e2 : usizeAdd (ε := PErr) i 2 = .ok (i + 2) := by unfold usizeAdd; rw [if_pos (by omega)]
          simp only [hi, decide_true, Bool.not_true, Bool.false_eq_true, if_false, not_true_eq_false, e1, e2, ok_bind]
          cases takeBytes i path with
          | none => rfl
          | some pre =>
            simp only [ofOption_some, ok_bind]
            cases dropBytes (i + 1) path with
            | none => rfl
            | some after =>
              simp only [ofOption_some, ok_bind]
              cases after.head? with
              | none => rfl
              | some c =>
                simp only [ofOption_some, ok_bind, decide_eq_true_eq]
                cases hd : dropBytes (i + 2) path with
                | none =>
                  by_cases c1 : c = 'n'
                  · simp [c1, Res.ofOption]
                  · by_cases c2 : c = 'r'
                    · simp [c2, Res.ofOption]
                    · by_cases c3 : c = '\\'
                      · simp [c3, Res.ofOption]
                      · simp [c1, c2, c3]
                | some rest =>
                  have hr : byteLen rest < 9223372036854775808 := by
                    have := dropBytes_byteLen hd; omega
                  by_cases c1 : c = 'n'
                  · simp [c1, ih rest _ hr]
                  · by_cases c2 : c = 'r'
                    · simp [c2, ih rest _ hr]
                    · by_cases c3 : c = '\\'
                      · simp [c3, ih rest _ hr]
                      · simp [c1, c2, c3]
        · simp [hi]

theorem unescape_eq_lit (path : Str) (hb : byteLen path < 4611686018427387904) :
    B3sumParse.unescape path = B3sum.unescape path := by
  unfold B3sumParse.unescape B3sum.unescape
  have e1 : usizeMul (ε := PErr) 2 (byteLen path) = .ok (2 * byteLen path) := by
    unfold usizeMul; rw [if_pos (by omega)]
  have e2 : withCapacity (ε := PErr) (2 * byteLen path) = .ok [] := by
    unfold withCapacity; rw [if_pos (by omega)]
  simp only [bind_eq, pure_eq, e1, e2, ok_bind]
  rw [← unescape_loop_eq _ _ _ (by omega)]

theorem u8sToBytes_cons (b : Nat) (l : List Nat) : u8sToBytes (b :: l) = b.toUInt8 :: u8sToBytes l := rfl

theorem decode_loop_eq (n : Nat) (cs : Str) :
    (B3sumParse.parse_check_line_for (List.replicate n 0) cs).bind (fun r => .ok (u8sToBytes r.1)) = decodeHashLoop n cs := by
  induction n generalizing cs with
  | zero => rfl
  | succ n ih =>
    rw [List.replicate_succ, B3sumParse.parse_check_line_for]
    simp only [charsNext, unwrap, bind_eq, pure_eq, hex_half_byte_eq]
    match cs with
    | [] => rfl
    | [_] => rfl
    | hi :: lo :: rest =>
      simp only [decodeHashLoop, List.head?, List.tail, ofOption_some, ok_bind]
      cases hexHalfByte hi with
      | err e => rfl
      | panic => rfl
      | ok h =>
        simp only [ok_bind]
        cases u8mul (ε := PErr) 16 h with
        | err e => rfl
        | panic => rfl
        | ok h16 =>
          simp only [ok_bind]
          cases hexHalfByte lo with
          | err e => rfl
          | panic => rfl
          | ok l =>
            simp only [ok_bind]
            cases u8add (ε := PErr) h16 l with
            | err e => rfl
            | panic => rfl
            | ok b =>
              simp only [ok_bind]
              rw [← ih rest]
              cases B3sumParse.parse_check_line_for (List.replicate n 0) rest <;> rfl

/-- the model's `Parsed` as the translated `struct ParsedCheckLine` (`file_path` is a `PathBuf`: the UTF-8 bytes) -/
def toGen (p : Parsed) : B3sumParse.ParsedCheckLine :=
  { file_string := p.fileString, is_escaped := p.isEscaped, file_path := utf8Encode p.filePath,
    expected_hash := p.expectedHash }

theorem byteLen_trimEnd_le (s : Str) : byteLen (trimEndCRLF s) ≤ byteLen s := by
  induction s with
  | nil => simp [trimEndCRLF]
  | cons c cs ih =>
    rw [trimEndCRLF]
    cases h : trimEndCRLF cs with
    | nil => simp only; split <;> simp [byteLen]
    | cons d t => simp only [byteLen]; rw [h] at ih; simp only [byteLen] at ih; omega

theorem byteLen_drop_le (n : Nat) (s : Str) : byteLen (s.drop n) ≤ byteLen s := by
  induction s generalizing n with
  | nil => simp
  | cons c cs ih =>
    cases n with
    | zero => simp
    | succ n => simp only [List.drop_succ_cons, byteLen]; have := ih n; omega

theorem taggedSplit_byteLen {las f h : Str} (hs : taggedSplit las = some (f, h)) : byteLen f ≤ byteLen las := by
  unfold taggedSplit at hs
  split at hs
  · have := rsplitOnce_sound hs
    have h2 := byteLen_drop_le 8 las
    rw [this, byteLen_append, byteLen_append] at h2
    omega
  · cases hs

theorem splitOnce_byteLen {pat s a b : Str} (hs : splitOnce pat s = some (a, b)) : byteLen b ≤ byteLen s := by
  have := splitOnce_sound hs
  rw [this, byteLen_append, byteLen_append]; omega

set_option hygiene false in
local macro "tail_tac" : tactic => `(tactic| (
  have e64 : usizeMul (ε := PErr) 2 32 = .ok 64 := by decide
  simp only [e64, ok_bind, OUT_LEN]
  by_cases h1 : byteLen hh = 64
  · by_cases h2 : isAscii hh = true
    · simp only [h1, h2, decide_true, Bool.not_true, Bool.false_eq_true, if_false, ne_eq, not_true_eq_false]
      rw [← decode_loop_eq]
      cases B3sumParse.parse_check_line_for (List.replicate 32 0) hh with
      | err e => rfl
      | panic => rfl
      | ok r =>
        simp only [ok_bind, finish]
        cases esc with
        | false =>
          simp only [Bool.false_eq_true, if_false, ok_bind, Bool.not_not]
          by_cases he : fs.isEmpty = true
          · simp only [he, if_true]; rfl
          · simp only [he, if_false]
            cases checkForInvalidCharacters fs <;> rfl
        | true =>
          simp only [if_true, unescape_eq_lit fs hfs]
          cases B3sum.unescape fs with
          | err e => rfl
          | panic => rfl
          | ok p =>
            simp only [ok_bind, Bool.not_not]
            by_cases he : p.isEmpty = true
            · simp only [he, if_true]; rfl
            · simp only [he, if_false]
              cases checkForInvalidCharacters p <;> rfl
    · simp [h1, h2, Res.map]
  · simp [h1, Res.map]))

theorem parse_check_line_eq_lit (line0 : Str) (hb : byteLen line0 < 4611686018427387904) :
    B3sumParse.parse_check_line line0 = Res.map toGen (parseCheckLine line0) := by
  rw [parseCheckLine_eq]
  unfold B3sumParse.parse_check_line
  simp only [bind_eq, pure_eq, trimEndMatches_crlf, split_tagged_check_line_eq, split_untagged_check_line_eq, check_for_invalid_characters_eq]
  have hb1 := byteLen_trimEnd_le line0
  generalize trimEndCRLF line0 = tl at hb1
  cases tl with
  | nil => rfl
  | cons c rest =>
    simp only [List.head?_cons]
    have e1 : (if decide (c = '\\') = true then (sliceFrom (ε := PErr) (c :: rest) 1).bind fun t2 => Res.ok (true, t2)
          else Res.ok (false, c :: rest)) = .ok (decide (c = '\\'), if c = '\\' then rest else c :: rest) := by
      by_cases hc : c = '\\'
      · subst hc
        have : dropBytes 1 ('\\' :: rest) = some rest := by
          have hbs : utf8Len '\\' = 1 := by decide
          simp [dropBytes, hbs]
        simp [sliceFrom, this]
      · simp [hc]
    have e2 : (if c = '\\' then parseBody true rest else parseBody false (c :: rest)) =
        parseBody (decide (c = '\\')) (if c = '\\' then rest else c :: rest) := by
      by_cases hc : c = '\\' <;> simp [hc]
    rw [e1, e2]
    have hlas : byteLen (if c = '\\' then rest else c :: rest) < 4611686018427387904 := by
      have : byteLen rest ≤ byteLen (c :: rest) := by simp [byteLen]
      split <;> omega
    generalize (if c = '\\' then rest else c :: rest) = las at hlas
    generalize decide (c = '\\') = esc
    simp only [ok_bind]
    unfold parseBody
    rw [splitLine_eq, splitTagged_eq]
    simp only [ok_bind, splitUntagged]
    cases hts : taggedSplit las with
    | some lr =>
      obtain ⟨fs, hh⟩ := lr
      have hfs : byteLen fs < 4611686018427387904 := by have := taggedSplit_byteLen hts; omega
      simp only [ok_bind]
      tail_tac
    | none =>
      cases hso : splitOnce UNTAG_SEP las with
      | none => rfl
      | some lr =>
        obtain ⟨hh, fs⟩ := lr
        have hfs : byteLen fs < 4611686018427387904 := by have := splitOnce_byteLen hso; omega
        simp only [ok_bind]
        tail_tac
/-! ### hash_one_input -/

/-- what the model's `Out` looks like on the translated stdout -/
def outOf : Out → List OutTok
  | .text s => outText s
  | .raw b => outRaw b

theorem outText_append (a b : Str) : outText (a ++ b) = outText a ++ outText b := by simp [outText]

/-- the translated `hash_one_input`, for arbitrary callees -/
theorem hash_one_input_eq {ε Rd : Type} (hp : List UInt8 → Res ε Rd) (wr : Rd → Res ε (List UInt8)) (wh : Rd → Res ε Str)
    (path : List UInt8) (raw noNames tag : Bool) (stdout : List OutTok) :
    B3sumParse.hash_one_input hp wr wh path raw noNames tag stdout =
      (hp path).bind fun rd =>
        if raw then (wr rd).bind fun b => .ok (stdout ++ outRaw b)
        else (wh rd).bind fun hex =>
          if noNames then .ok (stdout ++ outText (hex ++ ['\n']))
          else .ok (stdout ++ outText (formatLineBytes tag path hex ++ ['\n'])) := by
  unfold B3sumParse.hash_one_input
  simp only [bind_eq, pure_eq, filepath_to_string_eq, ok_bind]
  cases hp path with
  | err e => rfl
  | panic => rfl
  | ok rd =>
    simp only [ok_bind]
    cases raw with
    | true => simp
    | false =>
      simp only [Bool.false_eq_true, if_false]
      cases noNames with
      | true =>
        simp only [if_true]
        cases wh rd <;> simp [outText_append]
      | false =>
        simp only [Bool.false_eq_true, if_false]
        have hp8 : ['B', 'L', 'A', 'K', 'E', '3', ' ', '('] = TAG_PREFIX := rfl
        have hs4 : [')', ' ', '=', ' '] = TAG_SEP := rfl
        have hs2 : [' ', ' '] = UNTAG_SEP := rfl
        rw [hp8, hs4, hs2]
        unfold formatLineBytes formatLine filepathToStringBytes
        simp only []
        generalize filepathToString (lossyDecode path) = fs
        obtain ⟨f, e⟩ := fs
        cases e <;> cases tag <;> cases wh rd <;> simp [outText, List.append_assoc]

theorem hash_one_input_eq_model {Rd : Type} (rd : Rd) (a : HashArgs) (S : Nat → UInt8) (path : List UInt8)
    (stdout : List OutTok) :
    B3sumParse.hash_one_input (ε := Unit) (fun _ => .ok rd) (fun _ => .ok (writeRawOutput S a.seek a.len))
        (fun _ => writeHexOutput S a.seek a.len) path a.raw a.noNames a.tag stdout
      = Res.map (fun o => stdout ++ outOf o) (hashOneInputOk a S path) := by
  rw [hash_one_input_eq]
  unfold hashOneInputOk
  simp only [ok_bind]
  cases a.raw with
  | true => rfl
  | false =>
    simp only [Bool.false_eq_true, if_false]
    cases writeHexOutput S a.seek a.len with
    | err e => rfl
    | panic => rfl
    | ok hex => cases a.noNames <;> rfl

/-! ### check_one_checkfile: the line loop and its failure counter -/

/-- `check_one_line` as the translated loop sees it: success, or a panic -/
def lineRes (env : Env) (l : Str) : Res String Bool :=
  match checkOneLine env l with
  | .done s _ => .ok s
  | .panicked => .panic

/-- the model's outcome of a checkfile as the translated function returns it: the new counter, `Err(e)`, or a panic -/
def fileRes : FileOutcome → Res String Nat
  | .finished st => .ok st.failed
  | .ioError e _ => .err e
  | .panicked _ => .panic

theorem satAdd64_one {n : Nat} (h : n < 2 ^ 64) : satAdd64 n 1 = satAdd1 n := by
  unfold satAdd64 satAdd1
  by_cases h1 : n + 1 < 18446744073709551616
  · rw [if_pos h1, if_pos (by omega)]
  · rw [if_neg h1, if_neg (by omega)]; omega

theorem satAdd1_lt {n : Nat} (h : n < 2 ^ 64) : satAdd1 n < 2 ^ 64 := by
  unfold satAdd1; split <;> omega

theorem check_one_checkfile_loop_eq (env : Env) (lines : List ReadLine) (st : CheckState) (fuel : Nat) (line : Str)
    (hf : lines.length < fuel) (hst : st.failed < 2 ^ 64) :
    B3sumParse.check_one_checkfile_loop (lineRes env) fuel line lines st.failed = fileRes (checkLines env lines st) := by
  induction lines generalizing st fuel line with
  | nil =>
    cases fuel with
    | zero => simp at hf
    | succ fuel => rfl
  | cons r rest ih =>
    cases fuel with
    | zero => simp at hf
    | succ fuel =>
      rw [B3sumParse.check_one_checkfile_loop]
      cases r with
      | error e => rfl
      | ok s =>
        simp only [readLine, bind_eq, pure_eq, ok_bind, List.nil_append, checkLines, decide_eq_true_eq]
        by_cases h0 : byteLen s = 0
        · rw [if_pos h0, if_pos h0]; rfl
        · rw [if_neg h0, if_neg h0]
          unfold lineRes
          cases checkOneLine env s with
          | panicked => rfl
          | done success evs =>
            simp only [ok_bind]
            have hl : rest.length < fuel := by simp at hf; omega
            cases success with
            | true => exact ih { failed := st.failed, evs := st.evs ++ evs } fuel s hl hst
            | false =>
              simp only [Bool.not_false, if_true, Bool.false_eq_true, if_false]
              rw [satAdd64_one hst]
              exact ih { failed := satAdd1 st.failed, evs := st.evs ++ evs } fuel s hl (satAdd1_lt hst)

theorem check_one_checkfile_eq_model (env : Env) (path : List UInt8) (lines : List ReadLine) (st : CheckState)
    (hst : st.failed < 2 ^ 64) :
    B3sumParse.check_one_checkfile (lineRes env) path st.failed lines = fileRes (checkLines env lines st) := by
  unfold B3sumParse.check_one_checkfile
  exact check_one_checkfile_loop_eq env lines st _ _ (by omega) hst

theorem checkLines_failed_lt (env : Env) (lines : List ReadLine) (st st' : CheckState)
    (h : checkLines env lines st = .finished st') (hst : st.failed < 2 ^ 64) : st'.failed < 2 ^ 64 := by
  induction lines generalizing st with
  | nil => simp [checkLines] at h; subst h; exact hst
  | cons r rest ih =>
    cases r with
    | error e => simp [checkLines] at h
    | ok s =>
      simp only [checkLines] at h
      split at h
      · cases h; exact hst
      · split at h
        · cases h
        · rename_i success evs _
          refine ih _ h ?_
          cases success
          · exact satAdd1_lt hst
          · exact hst

/-! ### main: the loop over the arguments and the exit status -/

/-- the process exit status: `exit(c)`; `Err` returned from `main` = 1; a panic = 101 -/
def exitStatus : Res String Int → Nat
  | .ok c => c.toNat
  | .err _ => 1
  | .panic => 101

/-- the decision at the end of `main`: the argument of `std::process::exit` is 1 if anything failed, else 0 -/
theorem main_closure_exit_decision (c : List UInt8 → Nat → Res String Nat) (h : List UInt8 → Res String Unit)
    (files : List (List UInt8)) (check : Bool) :
    B3sumParse.main_closure c h files check =
      (B3sumParse.main_closure_for c h files 0 check).bind fun failed => .ok (if failed > 0 then 1 else 0) := by
  unfold B3sumParse.main_closure
  simp only [bind_eq, pure_eq]
  cases B3sumParse.main_closure_for c h files 0 check with
  | err e => rfl
  | panic => rfl
  | ok failed =>
    simp only [ok_bind]
    by_cases hf : failed > 0 <;> simp [hf]

/-- how a checkfile argument is processed: `File::open` fails, or the translated line loop runs -/
def checkFile (env : Env) (open_ : List UInt8 → CheckSrc) (path : List UInt8) (failed : Nat) : Res String Nat :=
  match open_ path with
  | .error e => .err e
  | .ok lines => B3sumParse.check_one_checkfile (lineRes env) path failed lines

theorem main_check_loop_eq (env : Env) (open_ : List UInt8 → CheckSrc) (h : List UInt8 → Res String Unit)
    (files : List (List UInt8)) (st : CheckState) (hst : st.failed < 2 ^ 64) :
    exitStatus ((B3sumParse.main_closure_for (checkFile env open_) h files st.failed true).bind
        fun failed => .ok (if failed > 0 then 1 else 0)) = (runCheck env (files.map open_) st).exit := by
  induction files generalizing st with
  | nil =>
    simp only [B3sumParse.main_closure_for, pure_eq, ok_bind, List.map_nil, runCheck]
    by_cases hf : st.failed > 0 <;> simp [hf, exitStatus]
  | cons p rest ih =>
    rw [B3sumParse.main_closure_for]
    simp only [if_true, bind_eq, List.map_cons]
    unfold checkFile
    cases hop : open_ p with
    | error e => simp [runCheck, exitStatus]
    | ok lines =>
      simp only [runCheck]
      rw [check_one_checkfile_eq_model env p lines st hst]
      cases hcl : checkLines env lines st with
      | finished st' => exact ih st' (checkLines_failed_lt env lines st st' hcl hst)
      | ioError e st' => rfl
      | panicked st' => rfl


theorem main_hash_loop_eq (c : List UInt8 → Nat → Res String Nat) (h : List UInt8 → Res String Unit)
    (files : List (List UInt8)) (n : Nat) (hn : n < 2 ^ 64) (hnp : ∀ p ∈ files, h p ≠ .panic) :
    B3sumParse.main_closure_for c h files n false =
      .ok ((files.map fun p => (h p).isOk).foldl (fun failed ok => if ok then failed else satAdd1 failed) n) := by
  induction files generalizing n with
  | nil => rfl
  | cons p rest ih =>
    rw [B3sumParse.main_closure_for]
    simp only [Bool.false_eq_true, if_false, bind_eq, List.map_cons, List.foldl_cons]
    have hp := hnp p (by simp)
    have hr : ∀ q ∈ rest, h q ≠ .panic := fun q hq => hnp q (by simp [hq])
    cases hh : h p with
    | panic => exact absurd hh hp
    | ok u => simp only [catchErr, ok_bind, Res.isOk, if_true]; exact ih n hn hr
    | err e =>
      simp only [catchErr, ok_bind, Res.isOk, Bool.false_eq_true, if_false]
      rw [satAdd64_one hn]
      exact ih _ (satAdd1_lt hn) hr

end B3.Proofs.B3sumParse
