/-
The chunk layer: `ChunkState::update` in any split computes the specification's chunk node, and
`hash1` (the per-lane loop of `hash_many`) computes the same chaining value for whole chunks.
-/
import B3.Model.Rs
namespace B3.Proofs
open B3 B3.Rs

local notation "K₀" => Kern.spec

/-- canonical absorption of `bytes` into a chunk state whose buffer is (treated as) empty -/
def absorbGo (cs : ChunkState) (bytes : List UInt8) : ChunkState :=
  if h : bytes.length ≤ 64 then { cs with buf := bytes }
  else absorbGo (cs.compressBlock K₀ (bytes.take 64)) (bytes.drop 64)
termination_by bytes.length
decreasing_by simp [List.length_drop]; omega

theorem absorbGo_base (cs : ChunkState) (b : List UInt8) (h : b.length ≤ 64) : absorbGo cs b = { cs with buf := b } := by
  rw [absorbGo, dif_pos h]

theorem absorbGo_step (cs : ChunkState) (b : List UInt8) (h : ¬ b.length ≤ 64) :
    absorbGo cs b = absorbGo (cs.compressBlock K₀ (b.take 64)) (b.drop 64) := by
  rw [absorbGo, dif_neg h]

theorem compressBlock_buf_irrel (cs : ChunkState) (z blk : List UInt8) :
    ({ cs with buf := z } : ChunkState).compressBlock K₀ blk = { cs.compressBlock K₀ blk with buf := z } := by
  simp [ChunkState.compressBlock, ChunkState.startFlag]

theorem absorbGo_buf_irrel (cs : ChunkState) (z b : List UInt8) :
    absorbGo { cs with buf := z } b = absorbGo cs b := by
  induction hn : b.length using Nat.strongRecOn generalizing cs b with
  | _ n ih =>
    by_cases h : b.length ≤ 64
    · rw [absorbGo_base _ _ h, absorbGo_base _ _ h]
    · rw [absorbGo_step _ _ h, absorbGo_step _ _ h, compressBlock_buf_irrel]
      exact ih (b.drop 64).length (by simp [List.length_drop]; omega) _ _ rfl

theorem absorbGo_buf_len (cs : ChunkState) (b : List UInt8) : (absorbGo cs b).buf.length ≤ 64 := by
  induction hn : b.length using Nat.strongRecOn generalizing cs b with
  | _ n ih =>
    by_cases h : b.length ≤ 64
    · rw [absorbGo_base _ _ h]; exact h
    · rw [absorbGo_step _ _ h]
      exact ih (b.drop 64).length (by simp [List.length_drop]; omega) _ _ rfl

theorem absorbGo_t_flags (cs : ChunkState) (b : List UInt8) :
    (absorbGo cs b).t = cs.t ∧ (absorbGo cs b).flags = cs.flags := by
  induction hn : b.length using Nat.strongRecOn generalizing cs b with
  | _ n ih =>
    by_cases h : b.length ≤ 64
    · rw [absorbGo_base _ _ h]; exact ⟨rfl, rfl⟩
    · rw [absorbGo_step _ _ h]
      exact ih (b.drop 64).length (by simp [List.length_drop]; omega) _ _ rfl

/-- the block loop followed by the final `fill_buf`, from an empty buffer -/
theorem blockLoop_fill (cs : ChunkState) (input : List UInt8) (hb : cs.buf = []) :
    ((cs.blockLoop K₀ input).1.fillBuf (cs.blockLoop K₀ input).2).1 = absorbGo cs input := by
  induction hn : input.length using Nat.strongRecOn generalizing cs input with
  | _ n ih =>
    by_cases h : input.length ≤ 64
    · rw [ChunkState.blockLoop, dif_neg (by omega), absorbGo_base _ _ h]
      simp only [ChunkState.fillBuf, hb, List.length_nil, List.nil_append]
      rw [List.take_of_length_le (by omega)]
    · rw [ChunkState.blockLoop, dif_pos (by omega), absorbGo_step _ _ h]
      exact ih (input.drop 64).length (by simp [List.length_drop]; omega) _ _
        (by simp [ChunkState.compressBlock, hb]) rfl

theorem update_def (cs : ChunkState) (b : List UInt8) :
    cs.update K₀ b =
      (let p : ChunkState × List UInt8 :=
        if 0 < cs.buf.length then
          (if !(cs.fillBuf b).2.isEmpty then
            ({ (cs.fillBuf b).1.compressBlock K₀ (cs.fillBuf b).1.buf with buf := [] }, (cs.fillBuf b).2)
           else cs.fillBuf b)
        else (cs, b)
       ((p.1.blockLoop K₀ p.2).1.fillBuf (p.1.blockLoop K₀ p.2).2).1) := rfl

/-- `ChunkState::update` is canonical absorption of buffer ++ input -/
theorem update_eq_absorb (cs : ChunkState) (b : List UInt8) (hl : cs.buf.length ≤ 64) :
    cs.update K₀ b = absorbGo { cs with buf := [] } (cs.buf ++ b) := by
  rw [update_def]
  by_cases hb : 0 < cs.buf.length
  · simp only [if_pos hb]
    have f1 : (cs.fillBuf b).1 = { cs with buf := cs.buf ++ b.take (min (64 - cs.buf.length) b.length) } := rfl
    have f2 : (cs.fillBuf b).2 = b.drop (min (64 - cs.buf.length) b.length) := rfl
    by_cases hr : (b.drop (min (64 - cs.buf.length) b.length)).isEmpty
    · -- everything fits in the buffer
      have hlen : b.length ≤ 64 - cs.buf.length := by
        simp at hr; omega
      have e1 : b.drop (min (64 - cs.buf.length) b.length) = [] := by simpa using hr
      rw [f2, hr]
      simp only [Bool.not_true, Bool.false_eq_true, if_false]
      have e3 : cs.fillBuf b = ({ cs with buf := cs.buf ++ b }, []) := by
        show (_, _) = _
        rw [e1, Nat.min_eq_right hlen, List.take_of_length_le (Nat.le_refl _)]
      rw [e3]
      show (((({ cs with buf := cs.buf ++ b } : ChunkState).blockLoop K₀ []).1.fillBuf _).1) = _
      rw [ChunkState.blockLoop, dif_neg (by simp)]
      rw [absorbGo_base _ _ (by simp; omega)]
      simp [ChunkState.fillBuf]
    · have hlen : 64 - cs.buf.length < b.length := by
        simp at hr; omega
      rw [f2]
      simp only [hr, Bool.not_false, if_true]
      rw [f1, Nat.min_eq_left (by omega)]
      have hfull : (cs.buf ++ b.take (64 - cs.buf.length)).length = 64 := by
        simp [List.length_take]; omega
      rw [absorbGo_step _ _ (by simp; omega)]
      have e1 : (cs.buf ++ b).take 64 = cs.buf ++ b.take (64 - cs.buf.length) := by
        rw [List.take_append]; rw [List.take_of_length_le hl]
      have e2 : (cs.buf ++ b).drop 64 = b.drop (64 - cs.buf.length) := by
        rw [List.drop_append]; rw [List.drop_of_length_le hl]; simp
      rw [e1, e2]
      have e4 : ({ ({ cs with buf := cs.buf ++ b.take (64 - cs.buf.length) } : ChunkState).compressBlock K₀
                (cs.buf ++ b.take (64 - cs.buf.length)) with buf := [] } : ChunkState)
            = ({ cs with buf := [] } : ChunkState).compressBlock K₀ (cs.buf ++ b.take (64 - cs.buf.length)) := by
        simp [ChunkState.compressBlock, ChunkState.startFlag]
      show ((ChunkState.blockLoop K₀ _ _).1.fillBuf _).1 = _
      rw [e4]
      exact blockLoop_fill _ _ (by simp [ChunkState.compressBlock])
  · simp only [if_neg hb]
    have hnil : cs.buf = [] := List.eq_nil_of_length_eq_zero (by omega)
    rw [blockLoop_fill _ _ hnil, hnil, List.nil_append]
    exact (absorbGo_buf_irrel cs [] b).symm.trans (by rw [← hnil])

theorem absorbGo_append (c : ChunkState) (x y : List UInt8) :
    absorbGo { absorbGo c x with buf := [] } ((absorbGo c x).buf ++ y) = absorbGo c (x ++ y) := by
  induction hn : x.length using Nat.strongRecOn generalizing c x with
  | _ n ih =>
    by_cases h : x.length ≤ 64
    · rw [absorbGo_base _ _ h]
      exact absorbGo_buf_irrel c [] (x ++ y)
    · rw [absorbGo_step _ _ h]
      rw [ih (x.drop 64).length (by simp [List.length_drop]; omega) _ _ rfl]
      rw [absorbGo_step c (x ++ y) (by simp; omega)]
      rw [List.take_append_of_le_length (by omega), List.drop_append_of_le_length (by omega)]

/-- split independence at the chunk level -/
theorem update_update (cs : ChunkState) (b1 b2 : List UInt8) (hl : cs.buf.length ≤ 64) :
    (cs.update K₀ b1).update K₀ b2 = cs.update K₀ (b1 ++ b2) := by
  rw [update_eq_absorb cs b1 hl, update_eq_absorb _ b2 (absorbGo_buf_len _ _), absorbGo_append,
    update_eq_absorb cs (b1 ++ b2) hl, List.append_assoc]

theorem update_buf_len (cs : ChunkState) (b : List UInt8) (hl : cs.buf.length ≤ 64) :
    (cs.update K₀ b).buf.length ≤ 64 := by
  rw [update_eq_absorb cs b hl]; exact absorbGo_buf_len _ _

theorem u8_64 : (64 : UInt8).toUInt32 = 64 := by decide

/-- the node denoted by canonical absorption is the specification's chunk node -/
theorem absorbGo_output (c : ChunkState) (x : List UInt8) :
    (absorbGo c x).output = Spec.chunkGo c.flags c.t c.cv (decide (c.blocks = 0)) x := by
  induction hn : x.length using Nat.strongRecOn generalizing c x with
  | _ n ih =>
    by_cases h : x.length ≤ 64
    · rw [absorbGo_base _ _ h, Spec.chunkGo, dif_pos h]
      simp only [ChunkState.output, ChunkState.startFlag, Spec.startFlag]
      by_cases hb : c.blocks = 0 <;> simp [hb]
    · rw [absorbGo_step _ _ h, Spec.chunkGo, dif_neg h]
      rw [ih (x.drop 64).length (by simp [List.length_drop]; omega) _ _ rfl]
      simp only [ChunkState.compressBlock, ChunkState.startFlag, Spec.startFlag, Kern.spec, u8_64]
      by_cases hb : c.blocks = 0 <;> simp [hb]

/-- `ChunkState::new(key, t, flags).update(b).output()` is the specification's chunk node, for any
number of bytes -/
theorem new_update_output (key : CV) (flags : UInt8) (t : Nat) (b : List UInt8) :
    ((ChunkState.new key t flags).update K₀ b).output = Spec.chunkNode key flags t b := by
  rw [update_eq_absorb _ _ (by simp [ChunkState.new])]
  simp only [ChunkState.new, List.nil_append]
  rw [absorbGo_output]
  rfl

theorem chunkGo_blen (flags : UInt8) (t : Nat) (cv : CV) (first : Bool) (c : List UInt8) :
    (Spec.chunkGo flags t cv first c).blen ≤ 64 := by
  induction hn : c.length using Nat.strongRecOn generalizing cv first c with
  | _ n ih =>
    by_cases h : c.length ≤ 64
    · rw [Spec.chunkGo, dif_pos h]; exact h
    · rw [Spec.chunkGo, dif_neg h]
      exact ih (c.drop 64).length (by simp [List.length_drop]; omega) _ _ _ rfl

/-- `Output::chaining_value` through the specification kernel is the spec's `Node.chain` -/
theorem chain_eq (o : Spec.Node) (h : o.blen ≤ 64) : chain K₀ o = o.chain := by
  simp only [chain, Kern.spec, Spec.Node.chain]
  have : (UInt8.ofNat o.blen).toUInt32 = UInt32.ofNat o.blen := by
    apply UInt32.toNat_inj.mp
    simp [UInt8.toNat_toUInt32, UInt8.toNat_ofNat', UInt32.toNat_ofNat']
    omega
  rw [this]

/-- chunk chaining value through a fresh `ChunkState` -/
theorem leafCS_eq (key : CV) (flags : UInt8) (t : Nat) (s : List UInt8) :
    leafCS K₀ key flags t s = (Spec.chunkNode key flags t s).chain := by
  unfold leafCS
  rw [new_update_output, chain_eq _ (by unfold Spec.chunkNode; exact chunkGo_blen _ _ _ _ _)]

end B3.Proofs

namespace B3.Proofs
open B3 B3.Rs
local notation "K₀" => Kern.spec

theorem u8_or_zero (x : UInt8) : x ||| 0 = x := by
  apply UInt8.toNat_inj.mp; simp

/-- the per-lane loop of `hash_many` on a whole number of blocks computes the chaining value of
the specification's chunk node -/
theorem hash1Loop_eq (flags : UInt8) (t : Nat) :
    ∀ (n : Nat) (cv : CV) (first : Bool) (s : List UInt8), s.length = 64 * (n + 1) →
      hash1Loop K₀ t flags Spec.CHUNK_END cv (flags ||| Spec.startFlag first) s
        = chain K₀ (Spec.chunkGo flags t cv first s) := by
  intro n
  induction n with
  | zero =>
    intro cv first s hs
    have hs' : s.length = 64 := by omega
    rw [hash1Loop, dif_pos (by omega), Spec.chunkGo, dif_pos (by omega)]
    simp only [hs', if_true]
    rw [hash1Loop, dif_neg (by simp [List.length_drop]; omega)]
    rw [List.take_of_length_le (by omega)]
    simp [chain, hs']
  | succ n ih =>
    intro cv first s hs
    rw [hash1Loop, dif_pos (by omega), Spec.chunkGo, dif_neg (by omega)]
    simp only [show s.length ≠ 64 by omega, if_false]
    have := ih (Kern.spec.cip cv (wordsOfBytes 16 (s.take 64)) 64 (UInt64.ofNat t) (flags ||| Spec.startFlag first))
      false (s.drop 64) (by simp [List.length_drop]; omega)
    have e0 : flags ||| Spec.startFlag false = flags := by
      simp [Spec.startFlag, u8_or_zero]
    rw [e0] at this
    rw [this]
    simp [Kern.spec, u8_64]

theorem hash1_eq (key : CV) (flags : UInt8) (t : Nat) (s : List UInt8) (hs : s.length = 1024) :
    hash1 K₀ key t flags Spec.CHUNK_START Spec.CHUNK_END s = (Spec.chunkNode key flags t s).chain := by
  unfold hash1
  have := hash1Loop_eq flags t 15 key true s (by omega)
  simp only [Spec.startFlag, if_true] at this
  rw [this, chain_eq _ (chunkGo_blen _ _ _ _ _)]
  rfl

/-- chunk chaining values as `compress_chunks_parallel` computes them (SIMD lanes for whole chunks,
a `ChunkState` for the partial one) are the specification's -/
theorem leafCV_eq (key : CV) (flags : UInt8) (t : Nat) (s : List UInt8) :
    leafCV K₀ key flags t s = (Spec.chunkNode key flags t s).chain := by
  unfold leafCV
  split
  · rename_i h; exact hash1_eq key flags t s h
  · exact leafCS_eq key flags t s

theorem leafCV_eq_leafCS (key : CV) (flags : UInt8) : leafCV K₀ key flags = leafCS K₀ key flags := by
  funext t s; rw [leafCV_eq, leafCS_eq]

end B3.Proofs
