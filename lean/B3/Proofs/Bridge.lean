/-
Bridges between the arithmetic helpers generated from the sources (Gen/Arith.lean, exact machine
arithmetic) and the mathematical functions the hand-written models use in their place.
-/
import B3.Proofs.Arith
import B3.Model.Rs
namespace B3.Proofs
open B3 B3.Arith

/-- `largest_power_of_two_leq` (src/lib.rs) is the `lp2le` the model's update loop uses -/
theorem gen_lp2le (n : Nat) (h1 : 0 < n) (h2 : n < 2 ^ 63) :
    Gen.Rs.largest_power_of_two_leq n = .ok (Ar.lp2le n) := rs_largest_power_of_two_leq_spec n h1 h2

/-- C `round_down_to_power_of_2` is the same function -/
theorem gen_c_round_down (n : Nat) (h1 : 0 < n) (h2 : n < 2 ^ 64) :
    Gen.C.round_down_to_power_of_2 n = .ok (Ar.lp2le n) := by
  rw [c_round_down_spec n h2, if_neg (by omega)]; rfl

theorem nchunks_pred (n : Nat) (h : 0 < n) : Hs.nchunks 10 n - 1 = (n - 1) / 1024 := by
  unfold Hs.nchunks
  have : (2 : Nat) ^ 10 = 1024 := by decide
  rw [this]; omega

/-- `hazmat::left_subtree_len` (and the C twin) is the split point `leftLen` of the model's
`compress_subtree_wide`, for every length in (1024, 2^64) -/
theorem gen_leftLen (n : Nat) (h1 : 1024 < n) (h2 : n < 2 ^ 64) :
    Gen.Rs.left_subtree_len n = .ok (Hs.leftLen 10 n) ∧ Gen.C.left_subtree_len n = .ok (Hs.leftLen 10 n) := by
  have key : Hs.leftLen 10 n = 2 ^ Nat.log2 (n - 1) := by
    unfold Hs.leftLen Tr.lp2lt
    rw [nchunks_pred n (by omega)]
    have hq : (n - 1) / 1024 ≠ 0 := by omega
    obtain ⟨b1, b2⟩ := log2_bounds ((n - 1) / 1024) hq
    have hlog : Nat.log2 (n - 1) = Nat.log2 ((n - 1) / 1024) + 10 := by
      apply log2_unique
      · rw [Nat.pow_add]; omega
      · rw [show Nat.log2 ((n - 1) / 1024) + 10 + 1 = (Nat.log2 ((n - 1) / 1024) + 1) + 10 by omega, Nat.pow_add]
        omega
    rw [hlog, Nat.pow_add]
  rw [key]
  exact ⟨rs_left_subtree_len_spec n h1 h2, c_left_subtree_len_spec n h1 h2⟩

theorem tz_agree (n : Nat) (h : n ≠ 0) : Rs.tz n = Arith.tz n := by
  induction n using Nat.strongRecOn with
  | _ n ih =>
    rw [Rs.tz, Arith.tz, dif_neg h, dif_neg h]
    split
    · rfl
    · rw [ih (n / 2) (by omega) (by omega)]

/-- `hazmat::max_subtree_len` is the model's `maxSubtreeLen` on the chunk counter -/
theorem gen_maxSubtreeLen (t0 : Nat) (h : t0 < 2 ^ 54) :
    Gen.Rs.max_subtree_len (t0 * 1024) = .ok (Rs.maxSubtreeLen t0) := by
  rw [rs_max_subtree_len_spec (t0 * 1024) (by omega)]
  unfold Rs.maxSubtreeLen
  by_cases h0 : t0 = 0
  · simp [h0]
  · rw [if_neg (by omega), if_pos (by omega), if_neg h0, Nat.mul_div_cancel _ (by omega : 0 < 1024), tz_agree t0 h0]

end B3.Proofs
