/-
The wide / subtree layer of c/blake3.c - `compress_chunks_parallel`, `compress_parents_parallel`,
`blake3_compress_subtree_wide` (serial and TBB build), `compress_subtree_to_parent_node` - as translated from the source with
its data (Gen/CWide.lean: byte arrays, arrays of pointers, `size_t` index arithmetic, every access range-checked), equals
the model (`Rs.wide`, `Rs.toParentNode`: lists of chaining values <-> their little-endian bytes) for every platform that
meets the `hash_many` contract `HashManySpecC` (Proofs/PortableMany.lean; the portable implementation is proved to meet it)
with a SIMD degree that is a power of two not above `MAX_SIMD_DEGREE`.  Every theorem concludes `.ok`, i.e. no array bound
is exceeded, no assertion fails, no recursion / loop runs out of fuel.  The second half closes the `Env` field
`compress_subtree_to_parent_node` that Proofs/CState*.lean leave as the model's function (`c_hasher_update_full`).
-/
import B3.Gen.CWide
import B3.Proofs.PortableMany
import B3.Proofs.CState
namespace B3.Proofs.CWide
open B3 B3.Arith B3.CMem B3.Gen.CState B3.Gen.CWide B3.Gen.PortableMany B3.Proofs.CS
open B3.Gen.RsUpdate (cvsBytes chunksExact)
open B3.Proofs.RsUpdate (hashManyModel PlatOk leavesFrom)
open B3.Proofs.PortableMany (HashManySpecC cvsBytes_cons cvsBytes_append)

/-! ### writing a segment into a byte array -/

/-- `a` with the bytes `b` written at offset `off` -/
def splice (a : List UInt8) (off : Nat) (b : List UInt8) : List UInt8 := a.take off ++ b ++ a.drop (off + b.length)

theorem splice_length (a b : List UInt8) (off : Nat) (h : off + b.length ≤ a.length) : (splice a off b).length = a.length := by
  simp only [splice, List.length_append, List.length_take, List.length_drop]; omega

theorem wr_splice (a b : List UInt8) (off : Nat) (h : off + b.length ≤ a.length) : wr a off b = .ok (splice a off b) :=
  wr_ok a off b h

theorem splice_nil (a : List UInt8) (off : Nat) : splice a off [] = a := by
  simp [splice]

/-- reading back a part of what was written -/
theorem rd_splice (a x y z : List UInt8) (off n : Nat) (h : off + (x ++ y ++ z).length ≤ a.length) (hn : y.length = n) :
    rd (splice a off (x ++ y ++ z)) (off + x.length) n = .ok y := by
  unfold splice
  have e : a.take off ++ (x ++ y ++ z) ++ a.drop (off + (x ++ y ++ z).length)
      = (a.take off ++ x) ++ y ++ (z ++ a.drop (off + (x ++ y ++ z).length)) := by simp [List.append_assoc]
  rw [e]
  exact rd_mid' _ _ _ _ _ (by simp [List.length_take]; omega) hn

/-- overwriting a part of what was written -/
theorem splice_splice (a x y z y' : List UInt8) (off : Nat) (h : off + (x ++ y ++ z).length ≤ a.length)
    (hy : y'.length = y.length) :
    splice (splice a off (x ++ y ++ z)) (off + x.length) y' = splice a off (x ++ y' ++ z) := by
  have hl : (a.take off).length = off := by rw [List.length_take]; simp at h; omega
  have e1 : splice a off (x ++ y ++ z) = (a.take off ++ x) ++ y ++ (z ++ a.drop (off + (x ++ y ++ z).length)) := by
    simp [splice, List.append_assoc]
  have hpre : (a.take off ++ x).length = off + x.length := by rw [List.length_append, hl]
  unfold splice at e1 ⊢
  rw [e1]
  have t1 : ((a.take off ++ x) ++ y ++ (z ++ a.drop (off + (x ++ y ++ z).length))).take (off + x.length) = a.take off ++ x := by
    rw [List.append_assoc]; exact List.take_left' hpre
  have t2 : ((a.take off ++ x) ++ y ++ (z ++ a.drop (off + (x ++ y ++ z).length))).drop (off + x.length + y'.length)
      = z ++ a.drop (off + (x ++ y ++ z).length) := by
    rw [hy]; exact List.drop_left' (by rw [List.length_append, hpre])
  rw [t1, t2]
  have hlen : (x ++ y' ++ z).length = (x ++ y ++ z).length := by simp [hy]
  rw [hlen]
  simp [List.append_assoc]

/-- extending what was written -/
theorem splice_append (a x y : List UInt8) (off : Nat) (h : off + (x ++ y).length ≤ a.length) :
    splice (splice a off x) (off + x.length) y = splice a off (x ++ y) := by
  have hl : (a.take off).length = off := by rw [List.length_take]; simp at h; omega
  unfold splice
  have hpre : (a.take off ++ x).length = off + x.length := by rw [List.length_append, hl]
  have t1 : (a.take off ++ x ++ a.drop (off + x.length)).take (off + x.length) = a.take off ++ x := List.take_left' hpre
  have t2 : (a.take off ++ x ++ a.drop (off + x.length)).drop (off + x.length + y.length) = a.drop (off + x.length + y.length) := by
    rw [← List.drop_drop, List.drop_left' hpre, List.drop_drop]
  rw [t1, t2, List.length_append]
  simp [List.append_assoc, Nat.add_assoc]

theorem memcpy_splice (dst : List UInt8) (doff : Nat) (src : List UInt8) (soff n : Nat) (h1 : soff + n ≤ src.length)
    (h2 : doff + n ≤ dst.length) : memcpy dst doff src soff n = .ok (splice dst doff ((src.drop soff).take n)) := by
  rw [memcpy_ok _ _ _ _ _ h1 h2]
  unfold splice
  have : ((src.drop soff).take n).length = n := by rw [List.length_take, List.length_drop]; omega
  rw [this]

theorem take_set_succ {α : Type} (l : List α) (k : Nat) (a : α) (h : k < l.length) : (l.set k a).take (k + 1) = l.take k ++ [a] := by
  rw [List.set_eq_take_append_cons_drop, if_pos h]
  have : (l.take k).length = k := by rw [List.length_take]; omega
  rw [show l.take k ++ a :: l.drop (k + 1) = (l.take k ++ [a]) ++ l.drop (k + 1) by simp]
  exact List.take_left' (by rw [List.length_append, this]; rfl)

/-! ### the platform -/

/-- what is assumed of the platform constants (c/blake3_impl.h, c/blake3_dispatch.c): `blake3_simd_degree()` returns `sd`,
a power of two not above `MAX_SIMD_DEGREE`, and `MAX_SIMD_DEGREE` is small -/
structure PlatOkC (P : Plat) (sd : Nat) : Prop where
  deg : P.blake3_simd_degree = sd
  pow : ∃ j, sd = 2 ^ j
  le_M : sd ≤ P.MAX_SIMD_DEGREE
  small : P.MAX_SIMD_DEGREE ≤ 2 ^ 16

/-- the three values of `MAX_SIMD_DEGREE` in c/blake3_impl.h with the degrees c/blake3_dispatch.c returns for them -/
example (hm) : PlatOkC ⟨16, 16, hm⟩ 16 ∧ PlatOkC ⟨16, 8, hm⟩ 8 ∧ PlatOkC ⟨16, 4, hm⟩ 4 ∧ PlatOkC ⟨16, 1, hm⟩ 1 ∧ PlatOkC ⟨4, 4, hm⟩ 4 ∧
    PlatOkC ⟨1, 1, hm⟩ 1 ∧ MAX_SIMD_DEGREE_values = [16, 4, 1] :=
  ⟨⟨rfl, ⟨4, rfl⟩, by simp, by simp⟩, ⟨rfl, ⟨3, rfl⟩, by simp, by simp⟩, ⟨rfl, ⟨2, rfl⟩, by simp, by simp⟩,
   ⟨rfl, ⟨0, rfl⟩, by simp, by simp⟩, ⟨rfl, ⟨2, rfl⟩, by simp, by simp⟩, ⟨rfl, ⟨0, rfl⟩, by simp, by simp⟩, rfl⟩

theorem platOk_of (P : Plat) (sd : Nat) (h : PlatOkC P sd) : PlatOk sd P.MAX_SIMD_DEGREE P.MAX_SIMD_DEGREE_OR_2 := by
  obtain ⟨_, hpow, hle, hsm⟩ := h
  unfold Plat.MAX_SIMD_DEGREE_OR_2
  refine ⟨hpow, hle, ?_, ?_, ?_⟩ <;> split <;> omega

theorem M2_def (P : Plat) : P.MAX_SIMD_DEGREE_OR_2 = max P.MAX_SIMD_DEGREE 2 := by
  unfold Plat.MAX_SIMD_DEGREE_OR_2; split <;> omega

/-! ### arrays of pointers: the two `while` loops that fill them -/

theorem range'_map_take (f : Nat → List UInt8) (k m : Nat) :
    (List.range' k (m + 1)).map f = f k :: (List.range' (k + 1) m).map f := by
  rw [List.range'_succ]; rfl

/-- the `while (input_len - input_position >= BLAKE3_CHUNK_LEN)` loop of `compress_chunks_parallel`: entry `i` of
`chunks_array` receives `&input[1024 * i]` for every whole chunk; `MAX_SIMD_DEGREE` entries suffice -/
theorem chunks_loop_eq (E : Env) (P : Plat) (input : List UInt8) (L : Nat) (hL : L ≤ input.length) (hL64 : L < 2 ^ 64)
    (hcap : L / 1024 ≤ P.MAX_SIMD_DEGREE) (fuel : Nat) :
    ∀ (k : Nat) (arr : List (List UInt8)), arr.length = P.MAX_SIMD_DEGREE → k ≤ L / 1024 → L / 1024 - k < fuel →
      ∃ arr', compress_chunks_parallel_loop E P fuel arr (1024 * k) k input L = .ok (arr', 1024 * (L / 1024), L / 1024) ∧
        arr'.length = P.MAX_SIMD_DEGREE ∧
        arr'.take (L / 1024) = arr.take k ++ (List.range' k (L / 1024 - k)).map (fun i => input.drop (1024 * i)) := by
  induction fuel with
  | zero => intro _ _ _ _ h; omega
  | succ fuel ih =>
    intro k arr ha hk hf
    rw [compress_chunks_parallel_loop]
    have hkL : 1024 * k ≤ L := by omega
    rw [w64sub_eq _ _ hkL]
    by_cases hlt : k < L / 1024
    · rw [if_pos (by omega)]
      simp only [ptr_ok input (1024 * k) (by omega), ok_bind, CPtr.setPtr, if_pos (show k < arr.length by omega),
        w64add_eq (1024 * k) 1024 (by omega), w64add_eq k 1 (by omega)]
      obtain ⟨arr', e, l1, l2⟩ := ih (k + 1) (arr.set k (input.drop (1024 * k))) (by simpa using ha) (by omega) (by omega)
      rw [show 1024 * k + 1024 = 1024 * (k + 1) by omega, e]
      refine ⟨arr', rfl, l1, ?_⟩
      rw [l2, take_set_succ _ _ _ (by omega)]
      obtain ⟨m, hm⟩ : ∃ m, L / 1024 - k = m + 1 := ⟨L / 1024 - k - 1, by omega⟩
      rw [hm, range'_map_take, show L / 1024 - (k + 1) = m by omega]
      simp
    · rw [if_neg (by omega)]
      have hke : k = L / 1024 := by omega
      refine ⟨arr, by rw [← hke]; rfl, ha, ?_⟩
      rw [← hke, Nat.sub_self]; simp

/-- the `while (num_chaining_values - (2 * parents_array_len) >= 2)` loop of `compress_parents_parallel`: entry `i` of
`parents_array` receives `&child_chaining_values[2 * i * BLAKE3_OUT_LEN]` for every pair; `MAX_SIMD_DEGREE_OR_2` entries
suffice -/
theorem parents_loop_eq (E : Env) (P : Plat) (child : List UInt8) (num : Nat) (hL : 32 * num ≤ child.length) (h64 : num < 2 ^ 32)
    (hcap : num / 2 ≤ P.MAX_SIMD_DEGREE_OR_2) (fuel : Nat) :
    ∀ (k : Nat) (arr : List (List UInt8)), arr.length = P.MAX_SIMD_DEGREE_OR_2 → k ≤ num / 2 → num / 2 - k < fuel →
      ∃ arr', compress_parents_parallel_loop E P fuel arr k child num = .ok (arr', num / 2) ∧
        arr'.length = P.MAX_SIMD_DEGREE_OR_2 ∧
        arr'.take (num / 2) = arr.take k ++ (List.range' k (num / 2 - k)).map (fun i => child.drop (64 * i)) := by
  induction fuel with
  | zero => intro _ _ _ _ h; omega
  | succ fuel ih =>
    intro k arr ha hk hf
    rw [compress_parents_parallel_loop]
    rw [w64mul_eq 2 k (by omega), w64sub_eq _ _ (by omega)]
    by_cases hlt : k < num / 2
    · rw [if_pos (by omega)]
      simp only [w64mul_eq (2 * k) 32 (by omega), ptr_ok child (2 * k * 32) (by omega), ok_bind, CPtr.setPtr,
        if_pos (show k < arr.length by omega), w64add_eq k 1 (by omega)]
      obtain ⟨arr', e, l1, l2⟩ := ih (k + 1) (arr.set k (child.drop (2 * k * 32))) (by simpa using ha) (by omega) (by omega)
      rw [e]
      refine ⟨arr', rfl, l1, ?_⟩
      rw [l2, take_set_succ _ _ _ (by omega)]
      obtain ⟨m, hm⟩ : ∃ m, num / 2 - k = m + 1 := ⟨num / 2 - k - 1, by omega⟩
      rw [hm, range'_map_take, show num / 2 - (k + 1) = m by omega, show 2 * k * 32 = 64 * k by omega]
      simp
    · rw [if_neg (by omega)]
      have hke : k = num / 2 := by omega
      refine ⟨arr, by rw [← hke]; rfl, ha, ?_⟩
      rw [← hke, Nat.sub_self]; simp

/-! ### `compress_chunks_parallel` -/

theorem chunksExact_range {α : Type} (c : Nat) (hc : 0 < c) (s : List α) :
    (chunksExact c s).1 = (List.range (s.length / c)).map (fun i => (s.drop (c * i)).take c) := by
  induction hl : s.length using Nat.strongRecOn generalizing s with
  | _ l ih =>
    subst hl
    by_cases h : c ≤ s.length
    · rw [RsUpdate.chunksExact_step c s ⟨hc, h⟩]
      simp only []
      rw [ih (s.drop c).length (by rw [List.length_drop]; omega) (s.drop c) rfl, List.length_drop]
      have e : s.length / c = (s.length - c) / c + 1 := by
        have : s.length = (s.length - c) + c := by omega
        conv => lhs; rw [this, Nat.add_div_right _ hc]
      rw [e, List.range_succ_eq_map, List.map_cons, List.map_map]
      have e2 : List.map ((fun i => List.take c (List.drop (c * i) s)) ∘ Nat.succ) (List.range ((s.length - c) / c))
          = List.map (fun i => List.take c (List.drop (c * i) (List.drop c s))) (List.range ((s.length - c) / c)) := by
        apply List.map_congr_left
        intro i _
        show (s.drop (c * (i + 1))).take c = ((s.drop c).drop (c * i)).take c
        rw [List.drop_drop, Nat.mul_succ, Nat.add_comm]
      rw [e2]
      simp
    · rw [RsUpdate.chunksExact_stop c s (fun hh => h hh.2), Nat.div_eq_of_lt (by omega)]
      rfl

theorem rd_len (a : List UInt8) (off n : Nat) (h : off + n ≤ a.length) : ∃ w, rd a off n = .ok w ∧ w.length = n :=
  ⟨_, rd_ok a off n h, by rw [List.length_take, List.length_drop]; omega⟩

section
variable (K : Kern) (sd : Nat) (junk : Nat → Nat → UInt8) (P : Plat)

local notation "E₀" => envOf K sd junk

/-- **`compress_chunks_parallel`** writes the chaining values of all chunks of the `input_len` bytes at `input` (whole chunks
through `blake3_hash_many`, a partial last chunk through a chunk state) at `out + out_off` and returns their number; nothing
else of the array changes.  Obligations: `0 < input_len <= MAX_SIMD_DEGREE * BLAKE3_CHUNK_LEN` (the `BLAKE3_TESTING`
assertions; here the size of `chunks_array`), room in `out`, counters below 2^64. -/
theorem chunksC_eq (hspec : HashManySpecC K P.blake3_hash_many) (input : List UInt8) (L : Nat) (key : CV) (t : Nat)
    (flags : UInt8) (out : List UInt8) (off : Nat) (hpos : 0 < L) (hL : L ≤ input.length)
    (hcap : L ≤ P.MAX_SIMD_DEGREE * 1024) (hM : P.MAX_SIMD_DEGREE ≤ 2 ^ 16)
    (hout : off + 32 * Hs.nchunks 10 L ≤ out.length) (hol : out.length < 2 ^ 64) (hctr : t + Hs.nchunks 10 L ≤ 2 ^ 64) :
    compress_chunks_parallel E₀ P input L key t flags out off
      = .ok (splice out off (cvsBytes (Hs.allLeaves 10 (Rs.leafCV K key flags) t (input.take L))),
             (Hs.allLeaves 10 (Rs.leafCV K key flags) t (input.take L)).length) := by
  have hsl : (input.take L).length = L := by rw [List.length_take]; omega
  obtain ⟨f1, f2, f3, f4, f5⟩ := RsUpdate.chunksExact_facts 1024 (by omega) (input.take L)
  rw [hsl] at f3 f4
  have hal := RsUpdate.allLeaves_chunks (Rs.leafCV K key flags) t (input.take L) (by omega)
  have hnc : Hs.nchunks 10 L = L / 1024 + (if L % 1024 = 0 then 0 else 1) := by
    unfold Hs.nchunks; rw [RsUpdate.two_pow_ten]; split <;> omega
  have hn : L / 1024 ≤ P.MAX_SIMD_DEGREE := Nat.div_le_of_le_mul (by rw [Nat.mul_comm]; exact hcap)
  have hL64 : L < 2 ^ 64 := by omega
  have hnc1 : 1 ≤ Hs.nchunks 10 L ∧ L / 1024 ≤ Hs.nchunks 10 L := by rw [hnc]; split <;> omega
  have ht64 : t < 2 ^ 64 := by omega
  -- the whole chunks as the pointers see them
  have hchunks : (List.range (L / 1024)).map (fun i => (input.drop (1024 * i)).take 1024) = (chunksExact 1024 (input.take L)).1 := by
    rw [chunksExact_range 1024 (by omega), hsl]
    apply List.map_congr_left
    intro i hi
    have hi' : i < L / 1024 := List.mem_range.mp hi
    rw [List.drop_take, List.take_take, Nat.min_eq_left (by omega)]
  have hrem : (chunksExact 1024 (input.take L)).2 = (input.drop (1024 * (L / 1024))).take (L - 1024 * (L / 1024)) := by
    have hfl : ((chunksExact 1024 (input.take L)).1.flatten).length = 1024 * (L / 1024) := by
      have := congrArg List.length f5
      rw [List.length_append, f4, hsl] at this
      omega
    have := congrArg (List.drop (1024 * (L / 1024))) f5
    rw [List.drop_left' hfl] at this
    rw [this, List.drop_take]
  unfold compress_chunks_parallel
  obtain ⟨arr', e, l1, l2⟩ := chunks_loop_eq E₀ P input L hL hL64 hn (L + 1) 0 (CPtr.uninitPtrs P.MAX_SIMD_DEGREE)
    (by simp [CPtr.uninitPtrs]) (by omega) (by have := Nat.div_le_self L 1024; omega)
  simp only [Nat.mul_zero] at e
  simp only [e, ok_bind]
  simp only [List.take_zero, List.nil_append, Nat.sub_zero, ← List.range_eq_range'] at l2
  rw [hspec arr' (L / 1024) 16 key t true flags 1 2 out off (by omega)
    (by rw [l2]
        intro x hx
        simp only [List.mem_map, List.mem_range] at hx
        obtain ⟨i, hi, rfl⟩ := hx
        rw [List.length_drop]; omega)
    (by omega) (by omega) (by omega) (by omega)]
  simp only [ok_bind]
  rw [l2, List.map_map]
  have hmm : (List.range (L / 1024)).map ((fun x : List UInt8 => x.take (64 * 16)) ∘ fun i => input.drop (1024 * i))
      = (chunksExact 1024 (input.take L)).1 := by rw [← hchunks]; rfl
  rw [hmm, RsUpdate.hashMany_chunks K key flags t _ f1]
  generalize hch : (chunksExact 1024 (input.take L)).1 = chunks at *
  have hll := RsUpdate.leavesFrom_length (Rs.leafCV K key flags) t chunks
  have hbl : (cvsBytes (leavesFrom (Rs.leafCV K key flags) t chunks)).length = 32 * (L / 1024) := by
    rw [RsUpdate.cvsBytes_length, hll, f3]
  have hsp : out.take off ++ cvsBytes (leavesFrom (Rs.leafCV K key flags) t chunks) ++ out.drop (off + 32 * (L / 1024))
      = splice out off (cvsBytes (leavesFrom (Rs.leafCV K key flags) t chunks)) := by
    unfold splice; rw [hbl]
  rw [hsp]
  by_cases hr : L > 1024 * (L / 1024)
  · rw [if_pos hr]
    rw [if_neg (by omega)] at hnc
    have hrne : (chunksExact 1024 (input.take L)).2 ≠ [] := by
      intro h0; rw [h0] at f4; simp at f4; omega
    rw [if_neg hrne] at hal
    rw [w64add_eq t (L / 1024) (by omega)]
    obtain ⟨c1, ec1, hc1⟩ := init_eq E₀ (blake3_chunk_state.uninit ((E₀).junk 701)) key flags
      (by simp [blake3_chunk_state.sized, blake3_chunk_state.uninit, uninitBytes_length])
    simp only [ec1, ok_bind, ptr_ok input (1024 * (L / 1024)) (by omega), w64sub_eq L (1024 * (L / 1024)) (by omega)]
    have hc2 := csrel_set_counter 0 (t + L / 1024) hc1
    obtain ⟨c3, ec3, hc3⟩ := update_eq_1024 K sd junk hc2 (input.drop (1024 * (L / 1024))) (L - 1024 * (L / 1024))
      (by rw [List.length_drop]; omega) (by simp [Rs.ChunkState.new, Rs.ChunkState.count]; omega)
    simp only [ec3, ok_bind]
    obtain ⟨o, eo, hno, hob⟩ := output_eq E₀ hc3
    simp only [eo, ok_bind]
    rw [w64mul_eq (L / 1024) 32 (by omega), w64add_eq off (L / 1024 * 32) (by omega)]
    have hoff : off + L / 1024 * 32 = off + (cvsBytes (leavesFrom (Rs.leafCV K key flags) t chunks)).length := by
      rw [hbl]; omega
    obtain ⟨wd, ewd, hwd⟩ := rd_len (splice out off (cvsBytes (leavesFrom (Rs.leafCV K key flags) t chunks))) (off + L / 1024 * 32) 32
      (by rw [splice_length _ _ _ (by rw [hbl]; omega)]; omega)
    simp only [ewd, ok_bind]
    rw [ocv_eq K sd junk o wd hob hwd]
    simp only [ok_bind]
    rw [wr_splice _ _ _ (by rw [splice_length _ _ _ (by rw [hbl]; omega), bytesOfWords_length]; omega)]
    simp only [ok_bind, pure_ok]
    rw [hoff, splice_append _ _ _ _ (by rw [List.length_append, hbl, bytesOfWords_length]; omega)]
    rw [hal, ← hch, f3] at *
    have hleaf : Rs.leafCV K key flags (t + L / 1024) ((chunksExact 1024 (input.take L)).2) = Rs.chain K (nodeOf o) := by
      rw [hno, hrem]
      unfold Rs.leafCV
      rw [if_neg (by rw [← hrem, f4]; omega)]
      rfl
    rw [hleaf, cvsBytes_append, w64add_eq _ 1 (by omega)]
    simp [cvsBytes, hll, f3]
  · rw [if_neg hr]
    have hz : L % 1024 = 0 := by omega
    have hrn : (chunksExact 1024 (input.take L)).2 = [] := List.eq_nil_of_length_eq_zero (by rw [f4]; exact hz)
    rw [if_pos hrn, List.append_nil] at hal
    rw [hal, hll, f3]
    rfl

/-! ### `compress_parents_parallel` -/

theorem cvsBytes_take (l : List CV) (n : Nat) : (cvsBytes l).take (32 * n) = cvsBytes (l.take n) := by
  induction l generalizing n with
  | nil => simp [cvsBytes]
  | cons c cs ih =>
    cases n with
    | zero => simp [cvsBytes]
    | succ n =>
      have hl : (bytesOfWords c).length = 32 := by rw [bytesOfWords_length]
      rw [cvsBytes_cons, List.take_succ_cons, cvsBytes_cons, ← ih n, show 32 * (n + 1) = 32 + 32 * n by omega,
        List.take_append, hl, List.take_of_length_le (by omega)]
      simp

/-- the 64 bytes at `&child_chaining_values[2 * i * BLAKE3_OUT_LEN]` are the `i`-th pair of chaining values -/
theorem pair_window (cvs : List CV) (rest : List UInt8) (i : Nat) (h : 2 * (i + 1) ≤ cvs.length) :
    ((cvsBytes cvs ++ rest).drop (64 * i)).take 64 = cvsBytes ((cvs.drop (2 * i)).take 2) := by
  have hlen := RsUpdate.cvsBytes_length cvs
  rw [List.drop_append_of_le_length (by omega), show 64 * i = 32 * (2 * i) by omega, PortableMany.cvsBytes_drop]
  have hl2 := RsUpdate.cvsBytes_length (cvs.drop (2 * i))
  rw [List.length_drop] at hl2
  rw [List.take_append_of_le_length (by omega), show (64 : Nat) = 32 * 2 by rfl, cvsBytes_take]

/-- **`compress_parents_parallel`** writes one layer of parent chaining values (an odd last child copied through) at
`out + out_off` and returns their number.  `child_chaining_values` points to (at least) `num_chaining_values` chaining
values.  Obligations: at most `2 * MAX_SIMD_DEGREE_OR_2` children (size of `parents_array`), room in `out`. -/
theorem parentsC_eq (E : Env) (hspec : HashManySpecC K P.blake3_hash_many) (cvs : List CV) (rest : List UInt8) (key : CV)
    (flags : UInt8) (out : List UInt8) (off : Nat) (hcap : cvs.length ≤ 2 * P.MAX_SIMD_DEGREE_OR_2)
    (hM : P.MAX_SIMD_DEGREE ≤ 2 ^ 16) (hout : off + 32 * ((cvs.length + 1) / 2) ≤ out.length) (hol : out.length < 2 ^ 64) :
    compress_parents_parallel E P (cvsBytes cvs ++ rest) cvs.length key flags out off
      = .ok (splice out off (cvsBytes (Tr.pairUp (Rs.parentCV K key flags) cvs)),
             (Tr.pairUp (Rs.parentCV K key flags) cvs).length) := by
  obtain ⟨f1, f2, f3, f4, f5⟩ := RsUpdate.chunksExact_facts 2 (by omega) cvs
  have hpu := RsUpdate.pairUp_chunks (Rs.parentCV K key flags) key cvs
  have hM2 := M2_def P
  have hclen : (cvsBytes cvs ++ rest).length = 32 * cvs.length + rest.length := by
    rw [List.length_append, RsUpdate.cvsBytes_length]
  have hchunks : (List.range (cvs.length / 2)).map (fun i => ((cvsBytes cvs ++ rest).drop (64 * i)).take 64)
      = (chunksExact 2 cvs).1.map cvsBytes := by
    rw [chunksExact_range 2 (by omega), List.map_map]
    apply List.map_congr_left
    intro i hi
    have hi' : i < cvs.length / 2 := List.mem_range.mp hi
    exact pair_window cvs rest i (by omega)
  have hrem : (chunksExact 2 cvs).2 = cvs.drop (2 * (cvs.length / 2)) := by
    have hfl : ((chunksExact 2 cvs).1.flatten).length = 2 * (cvs.length / 2) := by
      have := congrArg List.length f5
      rw [List.length_append, f4] at this
      omega
    have := congrArg (List.drop (2 * (cvs.length / 2))) f5
    rw [List.drop_left' hfl] at this
    exact this
  unfold compress_parents_parallel
  obtain ⟨arr', e, l1, l2⟩ := parents_loop_eq E P (cvsBytes cvs ++ rest) cvs.length (by omega) (by omega) (by omega)
    (cvs.length + 1) 0 (CPtr.uninitPtrs P.MAX_SIMD_DEGREE_OR_2) (by simp [CPtr.uninitPtrs]) (by omega)
    (by have := Nat.div_le_self cvs.length 2; omega)
  simp only [e, ok_bind]
  simp only [List.take_zero, List.nil_append, Nat.sub_zero, ← List.range_eq_range'] at l2
  rw [hspec arr' (cvs.length / 2) 1 key 0 false (flags ||| 4) 0 0 out off (by omega)
    (by rw [l2]
        intro x hx
        simp only [List.mem_map, List.mem_range] at hx
        obtain ⟨i, hi, rfl⟩ := hx
        rw [List.length_drop, hclen]; omega)
    (by omega) (by omega) (by omega) (by omega)]
  simp only [ok_bind]
  rw [l2, List.map_map]
  have hmm : (List.range (cvs.length / 2)).map ((fun x : List UInt8 => x.take (64 * 1)) ∘ fun i => (cvsBytes cvs ++ rest).drop (64 * i))
      = (chunksExact 2 cvs).1.map cvsBytes := by rw [← hchunks]; rfl
  rw [hmm, RsUpdate.hashMany_parents K key flags _ f1]
  generalize hch : (chunksExact 2 cvs).1 = chunks at *
  obtain ⟨PP, hPP⟩ : ∃ PP, PP = chunks.map (fun c => Rs.parentCV K key flags (c.getD 0 key) (c.getD 1 key)) := ⟨_, rfl⟩
  rw [← hPP] at hpu ⊢
  have hpl : PP.length = cvs.length / 2 := by rw [hPP, List.length_map, f3]
  have hbl : (cvsBytes PP).length = 32 * (cvs.length / 2) := by rw [RsUpdate.cvsBytes_length, hpl]
  have hsp : out.take off ++ cvsBytes PP ++ out.drop (off + 32 * (cvs.length / 2)) = splice out off (cvsBytes PP) := by
    unfold splice; rw [hbl]
  rw [hsp, w64mul_eq 2 (cvs.length / 2) (by omega)]
  by_cases hr : cvs.length > 2 * (cvs.length / 2)
  · rw [if_pos hr]
    rw [w64mul_eq (cvs.length / 2) 32 (by omega), w64add_eq off _ (by omega), w64mul_eq _ 32 (by omega)]
    rw [memcpy_splice _ _ _ _ _ (by rw [hclen]; omega) (by rw [splice_length _ _ _ (by rw [hbl]; omega)]; omega)]
    simp only [ok_bind, pure_ok]
    have hlast : ((cvsBytes cvs ++ rest).drop (2 * (cvs.length / 2) * 32)).take 32 = cvsBytes (chunksExact 2 cvs).2 := by
      rw [hrem, List.drop_append_of_le_length (by rw [RsUpdate.cvsBytes_length]; omega),
        show 2 * (cvs.length / 2) * 32 = 32 * (2 * (cvs.length / 2)) by omega, PortableMany.cvsBytes_drop]
      have hl2 := RsUpdate.cvsBytes_length (cvs.drop (2 * (cvs.length / 2)))
      rw [List.length_drop] at hl2
      rw [List.take_append_of_le_length (by omega), List.take_of_length_le (by omega)]
    rw [hlast]
    have hoff : off + cvs.length / 2 * 32 = off + (cvsBytes PP).length := by rw [hbl]; omega
    have hr2 : (cvsBytes (chunksExact 2 cvs).2).length = 32 := by rw [RsUpdate.cvsBytes_length, f4]; omega
    rw [hoff, splice_append _ _ _ _ (by rw [List.length_append, hbl, hr2]; omega), ← cvsBytes_append, ← hpu,
      w64add_eq _ 1 (by omega)]
    congr 2
    rw [hpu, List.length_append, hpl, f4]; omega
  · rw [if_neg hr]
    have hrn : (chunksExact 2 cvs).2 = [] := List.eq_nil_of_length_eq_zero (by rw [f4]; omega)
    rw [hrn, List.append_nil] at hpu
    rw [hpu, hpl]
    rfl

/-! ### `blake3_compress_subtree_wide` -/

/-- the TBB build (`blake3_compress_subtree_wide_join_tbb` of c/blake3_tbb.cpp inlined) makes the same two recursive calls
as the serial build: as functions (no schedule) the two translations coincide -/
theorem wide_tbb_eq_serial (E : Env) (fuel : Nat) :
    blake3_compress_subtree_wide_tbb E P fuel = blake3_compress_subtree_wide E P fuel := by
  induction fuel with
  | zero => funext a b c d e f g h; rfl
  | succ fuel ih =>
    funext input input_len key chunk_counter flags out out_off use_tbb
    rw [blake3_compress_subtree_wide_tbb, blake3_compress_subtree_wide, ih]

theorem splice_zero (a b : List UInt8) : splice a 0 b = b ++ a.drop b.length := by
  simp [splice]

/-- **`blake3_compress_subtree_wide`** (recursion by fuel `input_len`) writes the model's `Rs.wide` of the `input_len` bytes
at `input` as bytes at `out + out_off` and returns its length; nothing else of the array changes; `cv_array[2 *
MAX_SIMD_DEGREE_OR_2 * BLAKE3_OUT_LEN]` is large enough for both halves at every level. -/
theorem wideC_eq (hspec : HashManySpecC K P.blake3_hash_many) (hp : PlatOkC P sd) (tbb : Bool) (fuel : Nat) :
    ∀ (input : List UInt8) (L : Nat) (key : CV) (t : Nat) (flags : UInt8) (out : List UInt8) (off : Nat),
      L ≤ fuel → 0 < L → L ≤ input.length → L < 2 ^ 64 → t + Hs.nchunks 10 L ≤ 2 ^ 64 →
      off + 32 * (Rs.wide K key flags sd t (input.take L)).length ≤ out.length → out.length < 2 ^ 64 →
      blake3_compress_subtree_wide E₀ P fuel input L key t flags out off tbb
        = .ok (splice out off (cvsBytes (Rs.wide K key flags sd t (input.take L))),
               (Rs.wide K key flags sd t (input.take L)).length) := by
  obtain ⟨hdeg, ⟨j, hsd⟩, hM, hsmall⟩ := id hp
  obtain ⟨_, _, hMM2, h2M2, hM2small⟩ := platOk_of P sd hp
  have hpj := Nat.two_pow_pos j
  induction fuel with
  | zero => intro input L _ _ _ _ _ h1 h2; omega
  | succ fuel ih =>
    intro input L key t flags out off hfuel hpos hL hlt hctr hout hol
    have hsl : (input.take L).length = L := by rw [List.length_take]; omega
    rw [blake3_compress_subtree_wide]
    simp only [hdeg, w64mul_eq sd 1024 (by omega)]
    unfold Rs.wide at hout ⊢
    by_cases hb : L ≤ sd * 1024
    · rw [if_pos hb]
      have hbase := Hs.wide_base (Rs.parentCV K key flags) 10 (Rs.leafCV K key flags) sd t (input.take L)
        (by rw [RsUpdate.two_pow_ten, hsl]; exact hb)
      rw [hbase] at hout ⊢
      have hlen := Hs.allLeaves_length 10 (Rs.leafCV K key flags) t (input.take L) (by omega)
      rw [hsl] at hlen
      rw [chunksC_eq K sd junk P hspec input L key t flags out off hpos hL
        (Nat.le_trans hb (Nat.mul_le_mul_right _ hM)) hsmall (by rw [← hlen]; exact hout) hol hctr]
      rfl
    · rw [if_neg hb]
      have hbig : 1024 < L := by
        have : 1024 ≤ sd * 1024 := Nat.le_mul_of_pos_left _ (by omega)
        omega
      obtain ⟨a, f1, f2, f3, f4, f5, f6, f7⟩ := Hs.split_facts 10 sd j L hsd (by rw [RsUpdate.two_pow_ten]; omega)
      have hpa := Nat.two_pow_pos a
      have hja : 2 ^ j ≤ 2 ^ a := Nat.pow_le_pow_right (by omega) f3
      rw [RsUpdate.two_pow_ten] at f1 f2 f4
      have hLl : 0 < Hs.leftLen 10 (input.take L).length ∧ Hs.leftLen 10 (input.take L).length < (input.take L).length := by
        rw [hsl, f1]; exact ⟨Nat.mul_pos hpa (by omega), f2⟩
      have hstep := Hs.wide_step (Rs.parentCV K key flags) 10 (Rs.leafCV K key flags) sd t (input.take L)
        (by rw [RsUpdate.two_pow_ten, hsl]; exact hb) hLl
      rw [hsl, f1, RsUpdate.two_pow_ten, Nat.mul_div_cancel _ (show 0 < 1024 by omega)] at hstep
      have htt : (input.take L).take (2 ^ a * 1024) = input.take (2 ^ a * 1024) := by
        rw [List.take_take, Nat.min_eq_left (by omega)]
      have hdt : (input.take L).drop (2 ^ a * 1024) = (input.drop (2 ^ a * 1024)).take (L - 2 ^ a * 1024) := List.drop_take ..
      rw [htt, hdt] at hstep
      have htl : (input.take (2 ^ a * 1024)).length = 2 ^ a * 1024 := by rw [List.length_take]; omega
      have hdl : ((input.drop (2 ^ a * 1024)).take (L - 2 ^ a * 1024)).length = L - 2 ^ a * 1024 := by
        rw [List.length_take, List.length_drop]; omega
      obtain ⟨_, l2, l3, l4⟩ := Hs.wide_spec (Rs.parentCV K key flags) key 10 (Rs.leafCV K key flags) sd j hsd
        _ t (input.take (2 ^ a * 1024)) rfl (by omega)
      obtain ⟨_, r2, r3, _⟩ := Hs.wide_spec (Rs.parentCV K key flags) key 10 (Rs.leafCV K key flags) sd j hsd
        _ (t + 2 ^ a) ((input.drop (2 ^ a * 1024)).take (L - 2 ^ a * 1024)) rfl (by omega)
      obtain ⟨_, w2, w3, _⟩ := Hs.wide_spec (Rs.parentCV K key flags) key 10 (Rs.leafCV K key flags) sd j hsd
        _ t (input.take L) rfl (by omega)
      have l4' := l4 a (by rw [htl, RsUpdate.two_pow_ten])
      rw [hstep] at hout w3 ⊢
      generalize hWl : Hs.wide (Rs.parentCV K key flags) 10 (Rs.leafCV K key flags) sd t (input.take (2 ^ a * 1024)) = Wl at *
      generalize hWr : Hs.wide (Rs.parentCV K key flags) 10 (Rs.leafCV K key flags) sd (t + 2 ^ a)
        ((input.drop (2 ^ a * 1024)).take (L - 2 ^ a * 1024)) = Wr at *
      have hmax : max sd 2 ≤ P.MAX_SIMD_DEGREE_OR_2 := by omega
      -- the degree chosen is the number of chaining values the left half returns
      have hdegree : (if (2 ^ a * 1024 > 1024 ∧ sd = 1) then (pure 2 : R Nat) else pure sd) = .ok Wl.length := by
        rw [l4']
        by_cases ha : a = 0
        · subst ha
          have : sd = 1 := by rw [hsd]; simp at hja; omega
          rw [if_neg (by omega), if_pos (by omega)]; rw [this]; rfl
        · have h2a : 2 ≤ 2 ^ a := by
            obtain ⟨a', rfl⟩ : ∃ a', a = a' + 1 := ⟨a - 1, by omega⟩
            have := Nat.two_pow_pos a'
            rw [Nat.pow_succ]; omega
          by_cases h1 : sd = 1
          · rw [if_pos ⟨by omega, h1⟩, if_neg (by omega), h1]; rfl
          · rw [if_neg (fun hh => h1 hh.2)]
            by_cases hc : 2 ^ a ≤ sd
            · rw [if_pos hc]; have : sd = 2 ^ a := by omega
              rw [this]; rfl
            · rw [if_neg hc]
              have : max sd 2 = sd := by omega
              rw [this]; rfl
      have hcvl : (uninitBytes ((E₀).junk 801) 0 (2 * P.MAX_SIMD_DEGREE_OR_2 * 32)).length = 2 * P.MAX_SIMD_DEGREE_OR_2 * 32 :=
        uninitBytes_length _ _ _
      generalize hcv : uninitBytes ((E₀).junk 801) 0 (2 * P.MAX_SIMD_DEGREE_OR_2 * 32) = cv0 at hcvl
      have hbl : (cvsBytes Wl).length = 32 * Wl.length := RsUpdate.cvsBytes_length Wl
      have hbr : (cvsBytes Wr).length = 32 * Wr.length := RsUpdate.cvsBytes_length Wr
      -- the two recursive calls
      have hleft := ih input (2 ^ a * 1024) key t flags cv0 0 (by omega) (by omega) (by omega) (by omega)
        (by rw [← RsUpdate.two_pow_ten, Hs.nchunks_pow]; omega)
        (by unfold Rs.wide; rw [hWl]; omega) (by omega)
      have hright := ih (input.drop (2 ^ a * 1024)) (L - 2 ^ a * 1024) key (t + 2 ^ a) flags (splice cv0 0 (cvsBytes Wl))
        (32 * Wl.length) (by omega) (by omega) (by rw [List.length_drop]; omega) (by omega)
        (by rw [f4]; omega)
        (by unfold Rs.wide; rw [hWr, splice_length _ _ _ (by omega)]; omega)
        (by rw [splice_length _ _ _ (by omega)]; omega)
      unfold Rs.wide at hleft hright
      rw [hWl] at hleft
      rw [hWr] at hright
      rw [(Proofs.gen_leftLen L hbig hlt).2, f1]
      simp only [ok_bind, w64sub_eq L _ (Nat.le_of_lt f2), ptr_ok input _ (by omega : 2 ^ a * 1024 ≤ input.length),
        Nat.mul_div_cancel _ (show 0 < 1024 by omega), w64add_eq t (2 ^ a) (by omega)]
      rw [hdegree]
      simp only [ok_bind, w64mul_eq Wl.length 32 (by omega)]
      rw [hleft]
      simp only [ok_bind]
      rw [show Wl.length * 32 = 32 * Wl.length by omega, hright]
      simp only [ok_bind]
      have hcv2 : splice (splice cv0 0 (cvsBytes Wl)) (32 * Wl.length) (cvsBytes Wr)
          = cvsBytes (Wl ++ Wr) ++ cv0.drop (32 * (Wl ++ Wr).length) := by
        have := splice_append cv0 (cvsBytes Wl) (cvsBytes Wr) 0 (by rw [List.length_append, hbl, hbr]; omega)
        rw [Nat.zero_add, hbl] at this
        rw [this, splice_zero, ← cvsBytes_append, RsUpdate.cvsBytes_length]
      rw [hcv2]
      by_cases h1 : Wl.length = 1
      · -- the degree-1 special case: the two chaining values are returned as they are
        rw [if_pos h1] at hout w3 ⊢
        rw [if_pos h1]
        have hsd1 : sd = 1 := by
          rw [h1] at l4'
          by_cases hc : 2 ^ a ≤ sd
          · rw [if_pos hc] at l4'; omega
          · rw [if_neg hc] at l4'; omega
        have hr1 : Wr.length = 1 := by
          rw [List.length_append, hsd1] at w3
          have : max 1 2 = 2 := rfl
          omega
        have h64 : (cvsBytes (Wl ++ Wr)).length = 64 := by rw [RsUpdate.cvsBytes_length, List.length_append, h1, hr1]
        rw [memcpy_splice _ _ _ _ _ (by rw [List.length_append, h64]; omega)
          (by rw [List.length_append, h1, hr1] at hout; omega)]
        simp only [ok_bind, pure_ok, List.drop_zero]
        rw [List.take_left' h64, List.length_append, h1, hr1]
      · rw [if_neg h1] at hout w3 ⊢
        rw [if_neg h1]
        have hlen : (Wl ++ Wr).length ≤ 2 * P.MAX_SIMD_DEGREE_OR_2 := by rw [List.length_append]; omega
        rw [w64add_eq _ _ (by omega), ← List.length_append]
        rw [Tr.pairUp_length] at hout
        rw [parentsC_eq K P E₀ hspec (Wl ++ Wr) _ key flags out off hlen hsmall hout hol]
        rfl

/-! ### `compress_subtree_to_parent_node` -/

/-- the `while (num_cvs > 2)` loop: one layer of parents into `out_array`, copied back to the front of `cv_array` -/
theorem condenseC_loop_eq (hspec : HashManySpecC K P.blake3_hash_many) (hM : P.MAX_SIMD_DEGREE ≤ 2 ^ 16) (key : CV)
    (flags : UInt8) (fuel : Nat) :
    ∀ (cvs : List CV) (rest outa : List UInt8), cvs.length < fuel → cvs.length ≤ 2 * (P.MAX_SIMD_DEGREE_OR_2 / 2) →
      outa.length = P.MAX_SIMD_DEGREE_OR_2 * 32 / 2 →
      ∃ rest' outa', compress_subtree_to_parent_node_loop E₀ P fuel (cvsBytes cvs ++ rest) cvs.length outa key flags
        = .ok (cvsBytes (Hs.condense (Rs.parentCV K key flags) cvs) ++ rest',
               (Hs.condense (Rs.parentCV K key flags) cvs).length, outa') := by
  have hM2 := M2_def P
  induction fuel with
  | zero => intro _ _ _ h; omega
  | succ fuel ih =>
    intro cvs rest outa hf hc ho
    rw [compress_subtree_to_parent_node_loop, Hs.condense]
    by_cases h : 2 < cvs.length
    · rw [if_pos h, dif_pos h]
      have hpl := Tr.pairUp_length (Rs.parentCV K key flags) cvs
      rw [parentsC_eq K P E₀ hspec cvs rest key flags outa 0 (by omega) hM (by omega) (by omega)]
      simp only [ok_bind]
      generalize hPU : Tr.pairUp (Rs.parentCV K key flags) cvs = PU at *
      have hbl : (cvsBytes PU).length = 32 * PU.length := RsUpdate.cvsBytes_length PU
      have hcl : (cvsBytes cvs ++ rest).length = 32 * cvs.length + rest.length := by
        rw [List.length_append, RsUpdate.cvsBytes_length]
      have hsrc : ((splice outa 0 (cvsBytes PU)).drop 0).take (PU.length * 32) = cvsBytes PU := by
        rw [List.drop_zero, splice_zero, show PU.length * 32 = (cvsBytes PU).length by rw [hbl]; omega]
        exact List.take_left' rfl
      rw [w64mul_eq PU.length 32 (by omega),
        memcpy_splice _ _ _ _ _ (by rw [splice_length _ _ _ (by omega)]; omega) (by rw [hcl]; omega), hsrc]
      simp only [ok_bind]
      rw [splice_zero (cvsBytes cvs ++ rest)]
      obtain ⟨rest', outa', e⟩ := ih PU ((cvsBytes cvs ++ rest).drop (cvsBytes PU).length)
        (splice outa 0 (cvsBytes PU)) (by omega) (by omega)
        (by rw [splice_length _ _ _ (by omega)]; exact ho)
      exact ⟨rest', outa', e⟩
    · rw [if_neg h, dif_neg h]
      exact ⟨rest, outa, rfl⟩

/-- **`compress_subtree_to_parent_node`** writes the model's `toParentNode` (the two children of the subtree's top node, 64
bytes) to `out`, for every input of more than one chunk: `cv_array[MAX_SIMD_DEGREE_OR_2 * BLAKE3_OUT_LEN]` and
`out_array[MAX_SIMD_DEGREE_OR_2 * BLAKE3_OUT_LEN / 2]` are large enough, the `assert(num_cvs <= MAX_SIMD_DEGREE_OR_2)`
holds, and when `MAX_SIMD_DEGREE_OR_2 = 2` (the loop is compiled out) exactly two chaining values come back. -/
theorem tpnC_eq (hspec : HashManySpecC K P.blake3_hash_many) (hp : PlatOkC P sd) (tbb : Bool) (input : List UInt8) (L : Nat)
    (key : CV) (t : Nat) (flags : UInt8) (out : List UInt8) (hbig : 1024 < L) (hL : L ≤ input.length) (hlt : L < 2 ^ 64)
    (hctr : t + Hs.nchunks 10 L ≤ 2 ^ 64) (ho : 64 ≤ out.length) :
    compress_subtree_to_parent_node E₀ P input L key t flags out tbb
      = .ok (pairBytes (Rs.toParentNode K key flags sd t (input.take L)) ++ out.drop 64) := by
  obtain ⟨hdeg, ⟨j, hsd⟩, hM, hsmall⟩ := id hp
  obtain ⟨_, _, hMM2, h2M2, hM2small⟩ := platOk_of P sd hp
  have hsl : (input.take L).length = L := by rw [List.length_take]; omega
  obtain ⟨_, w2, w3, _⟩ := Hs.wide_spec (Rs.parentCV K key flags) key 10 (Rs.leafCV K key flags) sd j hsd
    _ t (input.take L) rfl (by omega)
  have w4 := RsUpdate.wide_length_ge_two sd (Rs.parentCV K key flags) key (Rs.leafCV K key flags) j hsd t (input.take L)
    (by rw [hsl]; exact hbig)
  obtain ⟨b, hb1, hb2⟩ := Hs.max_pow j
  rw [← hsd] at hb1
  have heven : max sd 2 ≤ 2 * (P.MAX_SIMD_DEGREE_OR_2 / 2) := by
    obtain ⟨b', rfl⟩ : ∃ b', b = b' + 1 := ⟨b - 1, by omega⟩
    rw [Nat.pow_succ] at hb1
    omega
  unfold compress_subtree_to_parent_node
  have hcvl : (uninitBytes ((E₀).junk 1001) 0 (P.MAX_SIMD_DEGREE_OR_2 * 32)).length = P.MAX_SIMD_DEGREE_OR_2 * 32 :=
    uninitBytes_length _ _ _
  generalize uninitBytes ((E₀).junk 1001) 0 (P.MAX_SIMD_DEGREE_OR_2 * 32) = cv0 at hcvl
  simp only []
  rw [wideC_eq K sd junk P hspec hp tbb L input L key t flags cv0 0 (Nat.le_refl _) (by omega) hL hlt hctr
    (by unfold Rs.wide; omega) (by omega)]
  unfold Rs.wide Rs.toParentNode Hs.toPair
  generalize Hs.wide (Rs.parentCV K key flags) 10 (Rs.leafCV K key flags) sd t (input.take L) = W at *
  simp only [ok_bind, assertTrue, decide_eq_true (show W.length ≤ P.MAX_SIMD_DEGREE_OR_2 by omega), if_true, splice_zero]
  have hc2 := RsUpdate.condense_length (Rs.parentCV K key flags) W.length W rfl w4
  -- the conditionally compiled loop
  have hloop : ∃ rest', (if P.MAX_SIMD_DEGREE_OR_2 > 2 then do
        let out_array : List UInt8 := uninitBytes ((E₀).junk 1002) 0 (P.MAX_SIMD_DEGREE_OR_2 * 32 / 2)
        let (cv_array, num_cvs, out_array) ← compress_subtree_to_parent_node_loop E₀ P (W.length + 1)
          (cvsBytes W ++ cv0.drop (cvsBytes W).length) W.length out_array key flags
        pure (cv_array, num_cvs)
      else do
        pure (cvsBytes W ++ cv0.drop (cvsBytes W).length, W.length))
      = .ok (cvsBytes (Hs.condense (Rs.parentCV K key flags) W) ++ rest', (Hs.condense (Rs.parentCV K key flags) W).length) := by
    by_cases h2 : P.MAX_SIMD_DEGREE_OR_2 > 2
    · rw [if_pos h2]
      obtain ⟨rest', outa', e⟩ := condenseC_loop_eq K sd junk P hspec hsmall key flags (W.length + 1) W
        (cv0.drop (cvsBytes W).length) (uninitBytes ((E₀).junk 1002) 0 (P.MAX_SIMD_DEGREE_OR_2 * 32 / 2)) (by omega) (by omega)
        (uninitBytes_length _ _ _)
      simp only [e, ok_bind, pure_ok]
      exact ⟨rest', rfl⟩
    · rw [if_neg h2]
      have : ¬ 2 < W.length := by omega
      rw [Hs.condense, dif_neg this]
      exact ⟨_, rfl⟩
  obtain ⟨rest', e⟩ := hloop
  rw [e]
  simp only [ok_bind]
  generalize Hs.condense (Rs.parentCV K key flags) W = C at *
  match C, hc2 with
  | [x, y], _ =>
    have h64 : (cvsBytes [x, y]).length = 64 := by rw [RsUpdate.cvsBytes_length]; rfl
    rw [memcpy_splice _ _ _ _ _ (by rw [List.length_append, h64]; omega) (by omega)]
    simp only [ok_bind, pure_ok, List.drop_zero]
    rw [List.take_left' h64, splice_zero, h64]
    simp [pairBytes, cvsBytes]

end

end B3.Proofs.CWide
