/-
The portable many-input kernels - `hash1` / `hash_many` of src/portable.rs and `hash_one_portable` /
`blake3_hash_many_portable` of c/blake3_portable.c, as translated statement by statement (Gen/PortableMany.lean) -
satisfy the `hash_many` contract that the tree layers assume of their platform (`HashManySpec` of Proofs/RsUpdate.lean for
the Rust crate, `HashManySpecC` below for c/blake3.c), with the *generated* `compress_in_place` of Gen/RsPortable.lean /
Gen/CPortable.lean (proved equal to `Spec.compress` in Proofs/Compress.lean) as the kernel.  So at the portable level the
contract is a theorem, not an assumption.
-/
import B3.Gen.PortableMany
import B3.Proofs.RsUpdate
import B3.Proofs.CStateMem
import B3.Proofs.GenK
namespace B3.Proofs.PortableMany
open B3 B3.Arith B3.Gen.RsUpdate B3.Proofs.RsUpdate

/-! ### kernels -/

/-- the kernels generated from c/blake3_portable.c -/
def genKC : Kern := { cip := Gen.C.compress_in_place, cxof := Gen.C.compress_xof }

theorem genKC_eq_spec : genKC = Kern.spec := by
  have h1 : Gen.C.compress_in_place = Kern.spec.cip := by
    funext cv m bl t fl; exact Proofs.c_compress_in_place_eq cv m bl t fl
  have h2 : Gen.C.compress_xof = Kern.spec.cxof := by
    funext cv m bl t fl; exact Proofs.c_compress_xof_eq cv m bl t fl
  unfold genKC
  rw [h1, h2]

/-! ### the model's `hash1` depends on the counter only through its 64-bit value -/

theorem hash1Loop_step (K : Kern) (t : Nat) (flags fend : UInt8) (cv : CV) (bf : UInt8) (s : List UInt8) (h : 64 ≤ s.length) :
    Rs.hash1Loop K t flags fend cv bf s
      = Rs.hash1Loop K t flags fend
          (K.cip cv (wordsOfBytes 16 (s.take 64)) 64 (UInt64.ofNat t) (if s.length = 64 then bf ||| fend else bf)) flags (s.drop 64) := by
  rw [Rs.hash1Loop, dif_pos h]

theorem hash1Loop_stop (K : Kern) (t : Nat) (flags fend : UInt8) (cv : CV) (bf : UInt8) (s : List UInt8) (h : ¬ 64 ≤ s.length) :
    Rs.hash1Loop K t flags fend cv bf s = cv := by
  rw [Rs.hash1Loop, dif_neg h]

theorem hash1Loop_congr (K : Kern) (t t' : Nat) (h : UInt64.ofNat t = UInt64.ofNat t') (flags fend : UInt8) :
    ∀ (n : Nat) (s : List UInt8) (cv : CV) (bf : UInt8), s.length = n →
      Rs.hash1Loop K t flags fend cv bf s = Rs.hash1Loop K t' flags fend cv bf s := by
  intro n
  induction n using Nat.strongRecOn with
  | _ n ih =>
    intro s cv bf hn
    by_cases h64 : 64 ≤ s.length
    · rw [hash1Loop_step K t _ _ _ _ _ h64, hash1Loop_step K t' _ _ _ _ _ h64, h]
      exact ih (s.drop 64).length (by rw [List.length_drop]; omega) _ _ _ rfl
    · rw [hash1Loop_stop K t _ _ _ _ _ h64, hash1Loop_stop K t' _ _ _ _ _ h64]

theorem hash1_congr (K : Kern) (t t' : Nat) (h : UInt64.ofNat t = UInt64.ofNat t') (key : CV) (flags fs fe : UInt8)
    (s : List UInt8) : Rs.hash1 K key t flags fs fe s = Rs.hash1 K key t' flags fs fe s :=
  hash1Loop_congr K t t' h flags fe s.length s key _ rfl

theorem ofNat_succ_congr (t t' : Nat) (h : UInt64.ofNat t = UInt64.ofNat t') : UInt64.ofNat (t + 1) = UInt64.ofNat (t' + 1) := by
  have e : ∀ n : Nat, UInt64.ofNat (n + 1) = UInt64.ofNat n + 1 := by
    intro n; apply UInt64.toNat_inj.mp; simp [UInt64.toNat_add]
  rw [e, e, h]

theorem hashManyModel_congr (K : Kern) (key : CV) (flags fs fe : UInt8) (inc : Bool) (xs : List (List UInt8)) :
    ∀ (t t' : Nat), UInt64.ofNat t = UInt64.ofNat t' →
      hashManyModel K key flags fs fe inc t xs = hashManyModel K key flags fs fe inc t' xs := by
  induction xs with
  | nil => intro _ _ _; rfl
  | cons x xs ih =>
    intro t t' h
    simp only [hashManyModel]
    rw [hash1_congr K t t' h]
    congr 1
    cases inc with
    | true => exact ih _ _ (ofNat_succ_congr t t' h)
    | false => exact ih _ _ h

/-! ### Rust: `portable::hash1`, `portable::hash_many` -/

open B3.Gen.PortableMany.Rs renaming hash1 → g_hash1, hash1_loop → g_hash1_loop, hash_many → g_hash_many,
  hash_many_for → g_hash_many_for

theorem arrayRef_ok {α : Type} (s : List α) (off len : Nat) (h : off + len ≤ s.length) :
    arrayRef s off len = .ok ((s.drop off).take len) := by
  unfold arrayRef; rw [if_pos h]

/-- the `while slice.len() >= BLOCK_LEN` loop of `hash1` is the model's `hash1Loop` with the generated kernel -/
theorem rs_hash1_loop_eq (counter : Nat) (flags fend : UInt8) (fuel : Nat) :
    ∀ (cv : CV) (bf : UInt8) (s : List UInt8), s.length < fuel →
      ∃ bf' s', g_hash1_loop fuel cv bf s counter flags fend
        = .ok (Rs.hash1Loop genK counter flags fend cv bf s, bf', s') := by
  induction fuel with
  | zero => intro _ _ s h; omega
  | succ fuel ih =>
    intro cv bf s hf
    rw [g_hash1_loop]
    by_cases h64 : 64 ≤ s.length
    · rw [if_pos (show s.length ≥ 64 from h64), hash1Loop_step _ _ _ _ _ _ _ h64]
      by_cases he : s.length = 64
      · simp only [he, if_true, pure_ok, bind_ok, arrayRef_ok s 0 64 (by omega), sliceFrom_ok s 64 h64, List.drop_zero]
        exact ih _ _ _ (by rw [List.length_drop]; omega)
      · simp only [he, if_false, pure_ok, bind_ok, arrayRef_ok s 0 64 (by omega), sliceFrom_ok s 64 h64, List.drop_zero]
        exact ih _ _ _ (by rw [List.length_drop]; omega)
    · rw [if_neg (by omega), hash1Loop_stop _ _ _ _ _ _ _ h64]
      exact ⟨bf, s, rfl⟩

/-- **`portable::hash1`** = the model's `hash1` with the generated `compress_in_place`, for every input, key, counter and
flags: no hypothesis (the array type `[u8; N]` is not even needed) -/
theorem rs_hash1_eq (N : Nat) (input : List UInt8) (key : CV) (counter : Nat) (flags fs fe : UInt8) (out : List UInt8) :
    g_hash1 N input key counter flags fs fe out = .ok (bytesOfWords (Rs.hash1 genK key counter flags fs fe input)) := by
  unfold g_hash1 Rs.hash1
  obtain ⟨bf', s', e⟩ := rs_hash1_loop_eq counter flags fe (input.length + 1) key (flags ||| fs) input (by omega)
  simp only [e, bind_ok, pure_ok]

/-- the chaining values of `hash_many`'s result as the bytes `out` receives -/
theorem cvsBytes_cons (c : CV) (cs : List CV) : cvsBytes (c :: cs) = bytesOfWords c ++ cvsBytes cs := by
  simp [cvsBytes]

theorem copyInto_whole (dst src : List UInt8) (n : Nat) (h1 : dst.length = n) (h2 : src.length = n) :
    copyInto dst 0 n src = .ok src := by
  rw [copyInto_ok _ _ _ _ (by omega) h2]
  simp [List.drop_of_length_le (Nat.le_of_eq h1)]

/-- the `for (&input, output) in inputs.iter().zip(out.chunks_exact_mut(OUT_LEN))` loop -/
theorem rs_hash_many_for_eq (N : Nat) (key : CV) (inc : Bool) (flags fs fe : UInt8) :
    ∀ (inputs chunks : List (List UInt8)) (t : Nat), inputs.length ≤ chunks.length → (∀ c ∈ chunks, c.length = 32) →
      (inc = true → t + inputs.length < 2 ^ 64) →
      ∃ t', g_hash_many_for N inputs chunks t key inc flags fs fe
        = .ok ((hashManyModel genK key flags fs fe inc t inputs).map bytesOfWords ++ chunks.drop inputs.length, t') := by
  intro inputs
  induction inputs with
  | nil =>
    intro chunks t _ _ _
    cases chunks <;> exact ⟨t, rfl⟩
  | cons x xs ih =>
    intro chunks t hl h32 hctr
    cases chunks with
    | nil => simp at hl
    | cons c cs =>
      have hc : c.length = 32 := h32 c (by simp)
      rw [g_hash_many_for]
      simp only [arrayRef_ok c 0 32 (by omega), bind_ok, rs_hash1_eq]
      rw [copyInto_whole c _ 32 hc (by rw [bytesOfWords_len])]
      simp only [bind_ok]
      cases inc with
      | true =>
        have hc1 := hctr rfl
        simp only [List.length_cons] at hc1
        simp only [if_true, cadd_ok t 1 (by omega), bind_ok, pure_ok]
        obtain ⟨t', e⟩ := ih cs (t + 1) (by simpa using hl) (fun c' hc' => h32 c' (by simp [hc'])) (fun _ => by omega)
        simp only [e, bind_ok, pure_ok]
        exact ⟨t', by simp [hashManyModel]⟩
      | false =>
        simp only [Bool.false_eq_true, if_false, bind_ok, pure_ok]
        obtain ⟨t', e⟩ := ih cs t (by simpa using hl) (fun c' hc' => h32 c' (by simp [hc'])) (fun h => by simp at h)
        simp only [e, bind_ok, pure_ok]
        exact ⟨t', by simp [hashManyModel]⟩

theorem flatten_map_bytes (cs : List CV) : (cs.map bytesOfWords).flatten = cvsBytes cs := by
  induction cs with
  | nil => rfl
  | cons c cs ih => simp [cvsBytes_cons, ih]

/-- dropping `k` whole chunks = dropping `n * k` elements -/
theorem chunks_drop_flatten {α : Type} (n : Nat) : ∀ (chunks : List (List α)) (k : Nat), (∀ c ∈ chunks, c.length = n) →
    k ≤ chunks.length → (chunks.drop k).flatten = chunks.flatten.drop (n * k) := by
  intro chunks
  induction chunks with
  | nil => intro k _ hk; simp at hk; subst hk; simp
  | cons c cs ih =>
    intro k hn hk
    cases k with
    | zero => simp
    | succ k =>
      have hc : c.length = n := hn c (by simp)
      simp only [List.drop_succ_cons, List.flatten_cons]
      rw [ih k (fun c' hc' => hn c' (by simp [hc'])) (by simpa using hk)]
      rw [show n * (k + 1) = c.length + n * k by rw [hc]; exact Nat.mul_succ n k ▸ (by omega)]
      rw [← List.drop_drop, List.drop_left]

/-- **`portable::hash_many`** writes the chaining values of all inputs (counter `t + i` for input `i` when incrementing)
to the front of `out` and leaves the rest alone, whenever `out` has room (`inputs.len() * OUT_LEN <= out.len()`, the
source's `debug_assert!`) and the counter increments do not overflow.  NB the *strict* bound: the code increments the
counter after the last input too, which is a u64 overflow panic (in a build with overflow checks) when
`t + inputs.len() = 2^64` - see `rs_hash_many_boundary_panics`. -/
theorem rs_hash_many_eq (N : Nat) (inputs : List (List UInt8)) (key : CV) (t : Nat) (inc : Bool) (flags fs fe : UInt8)
    (out : List UInt8) (hout : 32 * inputs.length ≤ out.length) (hctr : inc = true → t + inputs.length < 2 ^ 64) :
    g_hash_many N inputs key t inc flags fs fe out
      = .ok (cvsBytes (hashManyModel genK key flags fs fe inc t inputs) ++ out.drop (32 * inputs.length)) := by
  obtain ⟨f1, f2, f3, f4, f5⟩ := chunksExact_facts 32 (by omega) out
  unfold g_hash_many
  obtain ⟨t', e⟩ := rs_hash_many_for_eq N key inc flags fs fe inputs (chunksExact 32 out).1 t (by rw [f3]; omega) f1 hctr
  simp only [e, bind_ok, pure_ok, List.flatten_append, flatten_map_bytes, List.append_assoc]
  congr 2
  rw [chunks_drop_flatten 32 _ _ f1 (by rw [f3]; omega)]
  have hlen : ((chunksExact 32 out).1.flatten).length = 32 * (out.length / 32) := by
    have := congrArg List.length f5
    rw [List.length_append, f4] at this
    omega
  have hk : 32 * inputs.length ≤ ((chunksExact 32 out).1.flatten).length := by rw [hlen]; omega
  conv => rhs; rw [← f5]
  rw [List.drop_append_of_le_length hk]

/-- the boundary: one input, counter `2^64 - 1`, incrementing - the chaining value is computed and then `counter += 1`
overflows -/
theorem rs_hash_many_boundary_panics (N : Nat) (x : List UInt8) (key : CV) (flags fs fe : UInt8) (out : List UInt8)
    (hout : 32 ≤ out.length) :
    g_hash_many N [x] key (2 ^ 64 - 1) true flags fs fe out = .panic := by
  obtain ⟨f1, f2, f3, f4, f5⟩ := chunksExact_facts 32 (by omega) out
  unfold g_hash_many
  have hpos : 0 < (chunksExact 32 out).1.length := by rw [f3]; omega
  match hc : (chunksExact 32 out).1, hpos with
  | c :: cs, _ =>
    have h32 : c.length = 32 := f1 c (by rw [hc]; simp)
    simp only []
    rw [hc]
    simp only [g_hash_many_for, arrayRef_ok c 0 32 (by omega), bind_ok, rs_hash1_eq]
    rw [copyInto_whole c _ 32 h32 (by rw [bytesOfWords_len])]
    simp only [bind_ok, if_true]
    rw [cadd_panic _ _ (by omega)]
    rfl

/-! ### the Rust contract at the granularity of chaining values -/

/-- `HashManySpec` of Proofs/RsUpdate.lean with the strict counter bound `t + inputs.len() < 2^64` (see
`rs_hash_many_boundary_panics` for why the portable Rust implementation needs it) -/
def HashManySpecLt (K : Kern)
    (hm : Nat → List (List UInt8) → CV → Nat → Bool → UInt8 → UInt8 → UInt8 → List CV → R (List CV)) : Prop :=
  ∀ (N : Nat) (inputs : List (List UInt8)) (key : CV) (t : Nat) (inc : Bool) (flags fs fe : UInt8) (out : List CV),
    (∀ s ∈ inputs, s.length = N) → N % 64 = 0 → 0 < N → inputs.length ≤ out.length →
    (inc = true → t + inputs.length < 2 ^ 64) →
    hm N inputs key t inc flags fs fe out = .ok (hashManyModel K key flags fs fe inc t inputs ++ out.drop inputs.length)

theorem hashManySpec_lt (K : Kern) (hm) (h : HashManySpec K hm) : HashManySpecLt K hm :=
  fun N inputs key t inc flags fs fe out a b c d e => h N inputs key t inc flags fs fe out a b c d (fun hi => Nat.le_of_lt (e hi))

/-- the chaining values held by a byte array (whole 32-byte groups) -/
def cvsOfBytes (b : List UInt8) : List CV := (chunksExact 32 b).1.map (wordsOfBytes 8)

theorem cvsBytes_append (a b : List CV) : cvsBytes (a ++ b) = cvsBytes a ++ cvsBytes b := by
  simp [cvsBytes]

theorem cvsOfBytes_cvsBytes (l : List CV) : cvsOfBytes (cvsBytes l) = l := by
  induction l with
  | nil => unfold cvsOfBytes; rw [chunksExact_stop 32 _ (by simp [cvsBytes])]; rfl
  | cons c cs ih =>
    unfold cvsOfBytes at ih ⊢
    have hl : (bytesOfWords c).length = 32 := by rw [bytesOfWords_len]
    rw [cvsBytes_cons, chunksExact_step 32 _ ⟨by omega, by rw [List.length_append]; omega⟩]
    simp only [List.map_cons]
    rw [List.take_left' hl, List.drop_left' hl, ih, CS.wordsOfBytes_bytesOfWords']

theorem cvsBytes_drop (l : List CV) (n : Nat) : (cvsBytes l).drop (32 * n) = cvsBytes (l.drop n) := by
  induction l generalizing n with
  | nil => simp [cvsBytes]
  | cons c cs ih =>
    cases n with
    | zero => simp
    | succ n =>
      rw [cvsBytes_cons, List.drop_succ_cons, ← ih n]
      have hl : (bytesOfWords c).length = 32 := by rw [bytesOfWords_len]
      rw [show 32 * (n + 1) = 32 + 32 * n by omega, ← List.drop_drop, List.drop_left' hl]

/-- a `hash_many` that works on the bytes of the output array, seen at the granularity of chaining values -/
def liftHM (f : Nat → List (List UInt8) → CV → Nat → Bool → UInt8 → UInt8 → UInt8 → List UInt8 → R (List UInt8)) :
    Nat → List (List UInt8) → CV → Nat → Bool → UInt8 → UInt8 → UInt8 → List CV → R (List CV) :=
  fun N inputs key t inc flags fs fe out =>
    match f N inputs key t inc flags fs fe (cvsBytes out) with
    | .ok b => .ok (cvsOfBytes b)
    | .panic => .panic

/-! ### C: `hash_one_portable`, `blake3_hash_many_portable` -/

open B3.Gen.PortableMany.C B3.Gen.PortableMany B3.CMem

theorem ofNat_mod (n : Nat) : UInt64.ofNat (n % 18446744073709551616) = UInt64.ofNat n := by
  apply UInt64.toNat_inj.mp; simp

theorem ofNat_w64add (a b : Nat) : UInt64.ofNat (w64add a b) = UInt64.ofNat (a + b) := by
  unfold w64add
  split
  · rfl
  · exact ofNat_mod _

/-- the `while (blocks > 0)` loop of `hash_one_portable` is the model's `hash1Loop` (kernel: the generated C
`compress_in_place`) over the first `blocks` blocks at `input` -/
theorem c_hash_one_loop_eq (E : Env) (counter : Nat) (flags fend : UInt8) (fuel : Nat) :
    ∀ (blocks : Nat) (input : List UInt8) (cv : CV) (bf : UInt8), blocks < fuel → 64 * blocks ≤ input.length →
      ∃ bf', hash_one_portable_loop E fuel input blocks cv bf counter flags fend
        = .ok (input.drop (64 * blocks), 0, Rs.hash1Loop genKC counter flags fend cv bf (input.take (64 * blocks)), bf') := by
  induction fuel with
  | zero => intro b _ _ _ h; omega
  | succ fuel ih =>
    intro blocks input cv bf hf hl
    rw [hash_one_portable_loop]
    cases blocks with
    | zero =>
      rw [if_neg (by omega), hash1Loop_stop _ _ _ _ _ _ _ (by simp)]
      exact ⟨bf, rfl⟩
    | succ b =>
      rw [if_pos (by omega)]
      have hs : (input.take (64 * (b + 1))).length = 64 * (b + 1) := by rw [List.length_take]; omega
      rw [hash1Loop_step _ _ _ _ _ _ _ (by rw [hs]; omega)]
      have ht : (input.take (64 * (b + 1))).take 64 = input.take 64 := by
        rw [List.take_take, Nat.min_eq_left (by omega)]
      have hd : (input.take (64 * (b + 1))).drop 64 = (input.drop 64).take (64 * b) := by
        rw [List.drop_take]; first | rfl | (congr 1; omega)
      rw [ht, hd, hs]
      simp only [CS.rd_ok input 0 64 (by omega), bind_ok, pure_ok, CS.ptr_ok input 64 (by omega), List.drop_zero,
        CS.w64sub_eq (b + 1) 1 (by omega), Nat.add_sub_cancel]
      obtain ⟨bf', e⟩ := ih b (input.drop 64)
        (blake3_compress_in_place_portable cv (input.take 64) 64 counter (if b + 1 = 1 then bf ||| fend else bf)) flags
        (by omega) (by rw [List.length_drop]; omega)
      have hdd : (input.drop 64).drop (64 * b) = input.drop (64 * (b + 1)) := by rw [List.drop_drop]; congr 1; omega
      rw [hdd] at e
      have hcond : (64 * (b + 1) = 64) ↔ (b + 1 = 1) := by omega
      by_cases hb : b + 1 = 1
      · simp only [hb, if_true, bind_ok, pure_ok] at e ⊢
        exact ⟨bf', e⟩
      · have hb' : ¬ (64 * (b + 1) = 64) := by omega
        simp only [hb, hb', if_false, bind_ok, pure_ok] at e ⊢
        exact ⟨bf', e⟩

/-- **`hash_one_portable`** = the model's `hash1` of the first `blocks` blocks at `input`; writes the 32 bytes at `out` -/
theorem c_hash_one_eq (E : Env) (input : List UInt8) (blocks : Nat) (key : CV) (counter : Nat) (flags fs fe : UInt8)
    (out : List UInt8) (hl : 64 * blocks ≤ input.length) (ho : out.length = 32) :
    hash_one_portable E input blocks key counter flags fs fe out
      = .ok (bytesOfWords (Rs.hash1 genKC key counter flags fs fe (input.take (64 * blocks)))) := by
  unfold hash_one_portable Rs.hash1
  obtain ⟨bf', e⟩ := c_hash_one_loop_eq E counter flags fe (blocks + 1) blocks input key (flags ||| fs) (by omega) hl
  simp only [CS.memcpyW_32, bind_ok, pure_ok, e]
  unfold store_cv_words
  rw [CS.wr_all _ _ (by rw [bytesOfWords_len, ho])]
  rfl

theorem splice_length (out b : List UInt8) (off : Nat) (h : off + b.length ≤ out.length) :
    (out.take off ++ b ++ out.drop (off + b.length)).length = out.length := by
  simp only [List.length_append, List.length_take, List.length_drop]; omega

theorem splice_take (out b : List UInt8) (off : Nat) (h : off + b.length ≤ out.length) :
    (out.take off ++ b ++ out.drop (off + b.length)).take (off + b.length) = out.take off ++ b :=
  List.take_left' (by rw [List.length_append, List.length_take]; omega)

theorem splice_drop (out b : List UInt8) (off k : Nat) (h : off + b.length ≤ out.length) :
    (out.take off ++ b ++ out.drop (off + b.length)).drop (off + b.length + k) = out.drop (off + b.length + k) := by
  rw [← List.drop_drop, List.drop_left' (by rw [List.length_append, List.length_take]; omega), List.drop_drop]

/-- the `while (num_inputs > 0)` loop of `blake3_hash_many_portable` -/
theorem c_hash_many_loop_eq (E : Env) (blocks : Nat) (key : CV) (inc : Bool) (flags fs fe : UInt8) (fuel : Nat) :
    ∀ (num : Nat) (inputs : List (List UInt8)) (t : Nat) (out : List UInt8) (off : Nat), num < fuel → num ≤ inputs.length →
      (∀ x ∈ inputs.take num, 64 * blocks ≤ x.length) → off + 32 * num ≤ out.length →
      ∃ t', blake3_hash_many_portable_loop E fuel inputs num t out off blocks key inc flags fs fe
        = .ok (inputs.drop num, 0, t',
               out.take off ++ cvsBytes (hashManyModel genKC key flags fs fe inc t ((inputs.take num).map (·.take (64 * blocks))))
                 ++ out.drop (off + 32 * num), off + 32 * num) := by
  induction fuel with
  | zero => intro n _ _ _ _ h; omega
  | succ fuel ih =>
    intro num inputs t out off hf hn hx ho
    rw [blake3_hash_many_portable_loop]
    cases num with
    | zero =>
      rw [if_neg (by omega)]
      exact ⟨t, by simp [hashManyModel, cvsBytes]⟩
    | succ n =>
      rw [if_pos (by omega)]
      match inputs, hn, hx with
      | x :: xs, hn, hx =>
        have hxl : 64 * blocks ≤ x.length := hx x (by simp)
        have hw : ((out.drop off).take 32).length = 32 := by rw [List.length_take, List.length_drop]; omega
        have hb : (bytesOfWords (Rs.hash1 genKC key t flags fs fe (x.take (64 * blocks)))).length = 32 := by
          rw [bytesOfWords_len]
        simp only [getIdx, List.getElem?_cons_zero, bind_ok, CS.rd_ok out off 32 (by omega),
          c_hash_one_eq E x blocks key t flags fs fe _ hxl hw]
        rw [CS.wr_ok out off _ (by rw [hb]; omega), hb]
        simp only [bind_ok]
        obtain ⟨t1, ht1, hmod⟩ : ∃ t1, (if inc = true then (pure (w64add t 1) : R Nat) else pure t) = .ok t1 ∧
            UInt64.ofNat t1 = UInt64.ofNat (if inc = true then t + 1 else t) := by
          cases inc with
          | true => exact ⟨w64add t 1, rfl, ofNat_w64add t 1⟩
          | false => exact ⟨t, rfl, rfl⟩
        have hcnt : (if inc = true then do let counter := w64add t 1; (pure counter : R Nat) else do pure t) = .ok t1 := ht1
        simp only [hcnt, bind_ok]
        simp only [CPtr.ptrsAdvance, List.length_cons, if_pos (show 1 ≤ xs.length + 1 by omega), List.drop_succ_cons, List.drop_zero,
          bind_ok, CS.w64sub_eq (n + 1) 1 (by omega), Nat.add_sub_cancel]
        obtain ⟨out', hout'⟩ : ∃ o, o = out.take off ++ bytesOfWords (Rs.hash1 genKC key t flags fs fe (x.take (64 * blocks)))
            ++ out.drop (off + 32) := ⟨_, rfl⟩
        rw [← hout']
        have hlen' : out'.length = out.length := by
          have := splice_length out (bytesOfWords (Rs.hash1 genKC key t flags fs fe (x.take (64 * blocks)))) off (by rw [hb]; omega)
          rw [hb] at this; rw [hout']; exact this
        simp only [CPtr.advOff, if_pos (show off + 32 ≤ out'.length by rw [hlen']; omega), bind_ok]
        obtain ⟨t', e⟩ := ih n xs t1 out' (off + 32) (by omega) (by simpa using hn)
          (fun y hy => hx y (by simp [List.take_succ_cons, hy])) (by rw [hlen']; omega)
        have e1 : out'.take (off + 32) = out.take off ++ bytesOfWords (Rs.hash1 genKC key t flags fs fe (x.take (64 * blocks))) := by
          have := splice_take out (bytesOfWords (Rs.hash1 genKC key t flags fs fe (x.take (64 * blocks)))) off (by rw [hb]; omega)
          rw [hb] at this; rw [hout']; exact this
        have e2 : out'.drop (off + 32 + 32 * n) = out.drop (off + 32 * (n + 1)) := by
          have := splice_drop out (bytesOfWords (Rs.hash1 genKC key t flags fs fe (x.take (64 * blocks)))) off (32 * n) (by rw [hb]; omega)
          rw [hb] at this
          rw [hout', this]; congr 1; omega
        have e3 : off + 32 + 32 * n = off + 32 * (n + 1) := by omega
        rw [e, e1, e2, e3, hashManyModel_congr genKC key flags fs fe inc _ t1 _ hmod]
        refine ⟨t', ?_⟩
        simp only [List.take_succ_cons, List.map_cons, hashManyModel, cvsBytes_cons, List.append_assoc, List.drop_succ_cons]

/-- the contract that c/blake3.c assumes of `blake3_hash_many` (every implementation: portable, SSE2/4.1, AVX2, AVX-512,
NEON): for `num_inputs` pointers to at least `blocks` blocks of input each and room for `num_inputs` chaining values at
`out + out_off`, it writes `hash1` of the first `blocks` blocks of every input there (counter `t + i`, modulo 2^64, for
input `i` when incrementing) and leaves the rest of the array alone.  Nothing is assumed when a pointer is bad or the
output too small (undefined behaviour): the theorems of Proofs/CWide.lean show that the callers never get there. -/
def HashManySpecC (K : Kern)
    (hm : List (List UInt8) → Nat → Nat → CV → Nat → Bool → UInt8 → UInt8 → UInt8 → List UInt8 → Nat → R (List UInt8)) : Prop :=
  ∀ (inputs : List (List UInt8)) (num blocks : Nat) (key : CV) (t : Nat) (inc : Bool) (flags fs fe : UInt8)
    (out : List UInt8) (off : Nat),
    num ≤ inputs.length → (∀ x ∈ inputs.take num, 64 * blocks ≤ x.length) → off + 32 * num ≤ out.length →
    num < 2 ^ 64 → blocks < 2 ^ 64 → t < 2 ^ 64 →
    hm inputs num blocks key t inc flags fs fe out off
      = .ok (out.take off ++ cvsBytes (hashManyModel K key flags fs fe inc t ((inputs.take num).map (·.take (64 * blocks))))
              ++ out.drop (off + 32 * num))

end B3.Proofs.PortableMany
