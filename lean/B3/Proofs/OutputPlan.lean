/-
c/blake3.c `output_root_bytes`, translated into the list of writes it performs (Gen/Regions.lean,
`Gen.C.output_root_plan`): the writes are back to back, stay inside the 64-byte scratch block, add up
to exactly `out_len` bytes, and deliver the bytes of the model's `C.outputRootBytes`.
-/
import B3.Gen.Regions
import B3.Model.C
import B3.Proofs.Xof
namespace B3.Proofs
open B3 B3.Arith B3.Gen.C

/-- `x & -64` on 64-bit values clears the low six bits -/
theorem and_neg64 (x : Nat) (h : x < 2 ^ 64) : x &&& 18446744073709551552 = x / 64 * 64 := by
  apply Nat.eq_of_testBit_eq
  intro j
  have hM : (18446744073709551552 : Nat) = (2 ^ 58 - 1) * 2 ^ 6 := by decide
  have h64 : (64 : Nat) = 2 ^ 6 := by decide
  rw [Nat.testBit_and, hM, h64, Nat.testBit_mul_two_pow, Nat.testBit_mul_two_pow, Nat.testBit_div_two_pow,
    Nat.testBit_two_pow_sub_one]
  by_cases h6 : 6 ≤ j
  · have e : j - 6 + 6 = j := by omega
    rw [e]
    by_cases hj : j < 64
    · simp [h6]; omega
    · have : x.testBit j = false := Nat.testBit_lt_two_pow (Nat.lt_of_lt_of_le h (Nat.pow_le_pow_right (by omega) (by omega)))
      simp [this]
  · simp [h6]

/-- the plan in closed form -/
def planSpec (seek outLen : Nat) : List Ev :=
  if outLen = 0 then [] else
  let ctr := seek / 64
  let off := seek % 64
  let n1 := if off ≠ 0 then min outLen (64 - off) else 0
  let ctr1 := if off ≠ 0 then ctr + 1 else ctr
  let rem := outLen - n1
  (if off ≠ 0 then [Ev.copy 0 (some ctr) off n1] else []) ++
  (if rem / 64 ≠ 0 then [Ev.many n1 ctr1 (rem / 64)] else []) ++
  (if rem % 64 ≠ 0 then [Ev.copy (n1 + rem / 64 * 64) (some (ctr1 + rem / 64)) 0 (rem % 64)] else [])

theorem w64sub_eq (a b : Nat) (h : b ≤ a) : w64sub a b = a - b := by unfold w64sub; rw [if_pos h]
theorem w64add_eq (a b : Nat) (h : a + b < 2 ^ 64) : w64add a b = a + b := by unfold w64add; rw [if_pos h]

theorem plan_eq_spec (seek outLen : Nat) (hs : seek < 2 ^ 64) (ho : outLen < 2 ^ 64) :
    output_root_plan seek outLen = planSpec seek outLen := by
  unfold output_root_plan planSpec
  by_cases h0 : outLen = 0
  · rw [if_pos h0, if_pos h0]
  · rw [if_neg h0, if_neg h0]
    have a7 : w64add (seek / 64) 1 = seek / 64 + 1 := w64add_eq _ _ (by omega)
    by_cases hoff : seek % 64 ≠ 0
    · simp only [hoff, if_true, ne_eq, not_false_eq_true, List.nil_append]
      have a1 : w64sub 64 (seek % 64) = 64 - seek % 64 := w64sub_eq _ _ (by omega)
      simp only [a1]
      have a2 : (if outLen > 64 - seek % 64 then 64 - seek % 64 else outLen) = min outLen (64 - seek % 64) := by
        split <;> omega
      simp only [a2]
      have f1 : min outLen (64 - seek % 64) ≤ outLen := Nat.min_le_left _ _
      have f2 : min outLen (64 - seek % 64) ≤ 64 := by omega
      generalize min outLen (64 - seek % 64) = n1 at f1 f2 ⊢
      have a3 : w64sub outLen n1 = outLen - n1 := w64sub_eq _ _ f1
      have a4 : w64add 0 n1 = n1 := by rw [w64add_eq _ _ (by omega)]; omega
      simp only [a3, a4]
      generalize hrem : outLen - n1 = rem
      have hr : rem < 2 ^ 64 := by omega
      simp only [and_neg64 rem hr]
      have a6 : w64sub rem (rem / 64 * 64) = rem % 64 := by rw [w64sub_eq _ _ (by omega)]; omega
      have a8 : w64add n1 (rem / 64 * 64) = n1 + rem / 64 * 64 := w64add_eq _ _ (by omega)
      have a9 : w64add (seek / 64 + 1) (rem / 64) = seek / 64 + 1 + rem / 64 := w64add_eq _ _ (by omega)
      simp only [a6, a7, a8, a9]
      by_cases c1 : rem / 64 = 0 <;> by_cases c2 : rem % 64 = 0 <;> simp [c1, c2]
    · have hoff' : seek % 64 = 0 := by omega
      simp only [hoff', ne_eq, not_true_eq_false, if_false, List.nil_append, Nat.sub_zero]
      have hr : outLen < 2 ^ 64 := ho
      simp only [and_neg64 outLen hr]
      have a6 : w64sub outLen (outLen / 64 * 64) = outLen % 64 := by rw [w64sub_eq _ _ (by omega)]; omega
      have a8 : w64add 0 (outLen / 64 * 64) = outLen / 64 * 64 := by rw [w64add_eq _ _ (by omega)]; omega
      have a9 : w64add (seek / 64) (outLen / 64) = seek / 64 + outLen / 64 := w64add_eq _ _ (by omega)
      simp only [a6, a8, a9]
      by_cases c1 : outLen / 64 = 0 <;> by_cases c2 : outLen % 64 = 0 <;> simp [c1, c2]

/-! ### what the plan writes -/

def _root_.B3.Gen.C.Ev.len : Ev → Nat
  | .copy _ _ _ n => n
  | .many _ _ nb => 64 * nb

def _root_.B3.Gen.C.Ev.dst : Ev → Nat
  | .copy d _ _ _ => d
  | .many d _ _ => d

/-- a memcpy reads a scratch block that has been filled, inside its 64 bytes; an `xof_many` call
is made for at least one block -/
def _root_.B3.Gen.C.Ev.ok : Ev → Prop
  | .copy _ blk src n => blk.isSome = true ∧ src + n ≤ 64
  | .many _ _ nb => 0 < nb

/-- the writes are back to back from offset `p` on -/
def Contig : Nat → List Ev → Prop
  | _, [] => True
  | p, e :: es => e.dst = p ∧ e.ok ∧ Contig (p + e.len) es

def totalLen (es : List Ev) : Nat := (es.map Ev.len).sum

/-- the bytes an event writes, for kernels `K` and root node `o` -/
def _root_.B3.Gen.C.Ev.bytes (K : Kern) (o : Spec.Node) : Ev → List UInt8
  | .copy _ (some blk) src n => ((bytesOfWords (Rs.rootBlock K o blk)).drop src).take n
  | .copy _ none _ _ => []
  | .many _ ctr nb => Rs.xofMany K o ctr nb

theorem plan_extent (seek outLen : Nat) (hs : seek < 2 ^ 64) (ho : outLen < 2 ^ 64) :
    Contig 0 (output_root_plan seek outLen) ∧ totalLen (output_root_plan seek outLen) = outLen := by
  rw [plan_eq_spec seek outLen hs ho]
  unfold planSpec
  by_cases h0 : outLen = 0
  · simp [h0, Contig, totalLen]
  · rw [if_neg h0]
    by_cases hoff : seek % 64 ≠ 0
    · simp only [hoff, if_true, ne_eq, not_false_eq_true]
      have f1 : min outLen (64 - seek % 64) ≤ outLen := Nat.min_le_left _ _
      have f2 : min outLen (64 - seek % 64) ≤ 64 - seek % 64 := Nat.min_le_right _ _
      generalize min outLen (64 - seek % 64) = n1 at f1 f2 ⊢
      by_cases c1 : (outLen - n1) / 64 = 0 <;> by_cases c2 : (outLen - n1) % 64 = 0 <;>
        simp [c1, c2, Contig, totalLen, Ev.dst, Ev.ok, Ev.len] <;> omega
    · have hoff' : seek % 64 = 0 := by omega
      simp only [hoff', ne_eq, not_true_eq_false, if_false, List.nil_append, Nat.sub_zero]
      by_cases c1 : outLen / 64 = 0 <;> by_cases c2 : outLen % 64 = 0 <;>
        simp [c1, c2, Contig, totalLen, Ev.dst, Ev.ok, Ev.len] <;> omega

theorem plan_bytes (K : Kern) (o : Spec.Node) (seek outLen : Nat) (hs : seek < 2 ^ 64) (ho : outLen < 2 ^ 64) :
    ((output_root_plan seek outLen).map (Ev.bytes K o)).flatten = C.outputRootBytes K o seek outLen := by
  rw [plan_eq_spec seek outLen hs ho]
  unfold planSpec C.outputRootBytes
  by_cases h0 : outLen = 0
  · simp [h0]
  · rw [if_neg h0, if_neg h0]
    by_cases hoff : seek % 64 ≠ 0
    · simp only [hoff, if_true, ne_eq, not_false_eq_true]
      have a2 : (if outLen > 64 - seek % 64 then 64 - seek % 64 else outLen) = min outLen (64 - seek % 64) := by
        split <;> omega
      simp only [a2]
      generalize min outLen (64 - seek % 64) = n1
      generalize outLen - n1 = rem
      have e : rem - rem / 64 * 64 = rem % 64 := by omega
      simp only [e]
      by_cases c1 : rem / 64 = 0 <;> by_cases c2 : rem % 64 = 0 <;> simp [c1, c2, Ev.bytes]
    · have hoff' : seek % 64 = 0 := by omega
      simp only [hoff', ne_eq, not_true_eq_false, if_false, List.nil_append, Nat.sub_zero]
      have e : outLen - outLen / 64 * 64 = outLen % 64 := by omega
      simp only [e]
      by_cases c1 : outLen / 64 = 0 <;> by_cases c2 : outLen % 64 = 0 <;> simp [c1, c2, Ev.bytes]

end B3.Proofs
