/-
The I/O half of b3sum/src/main.rs as translated statement by statement from the source (Gen/B3sumIo.lean, artefact
G28-b3sum-io) equals the hand-written model (B3sum/Model.lean); the theorems of B3sum/Props12.lean restated for the
translated code.
-/
import B3.Gen.B3sumIo
import B3.Proofs.B3sumParse
set_option linter.unusedSimpArgs false

namespace B3.Proofs.B3sumIo
open B3.B3sum B3.B3sum.RustPrim B3.B3sum.IoPrim
open B3.Gen
open B3.Proofs.B3sumParse (bind_eq pure_eq ok_bind err_bind panic_bind ofOption_some ofOption_none)

/-! ### the `Io` monad -/

@[simp] theorem io_bind_eq {α β : Type} (x : Io α) (f : α → Io β) : (x >>= f) = Io.bind x f := rfl
@[simp] theorem io_pure_apply {α : Type} (a : α) (s : Streams) : (pure a : Io α) s = (.ok a, s) := rfl

theorem io_bind_apply {α β : Type} (x : Io α) (f : α → Io β) (s : Streams) :
    Io.bind x f s = match x s with
      | (.ok a, s') => f a s'
      | (.err e, s') => (.err e, s')
      | (.panic, s') => (.panic, s') := rfl

@[simp] theorem io_bind_of_ok {α β : Type} {x : Io α} {f : α → Io β} {s s' : Streams} {a : α} (h : x s = (.ok a, s')) :
    Io.bind x f s = f a s' := by rw [io_bind_apply, h]

theorem io_bind_assoc {α β γ : Type} (x : Io α) (f : α → Io β) (g : β → Io γ) :
    Io.bind (Io.bind x f) g = Io.bind x (fun a => Io.bind (f a) g) := by
  funext s
  simp only [io_bind_apply]
  rcases x s with ⟨r, s'⟩
  cases r <;> rfl

@[simp] theorem liftR_ok_bind {α β : Type} (a : α) (f : α → Io β) (s : Streams) :
    Io.bind (liftR (.ok a)) f s = f a s := rfl
@[simp] theorem liftR_err_bind {α β : Type} (e : String) (f : α → Io β) (s : Streams) :
    Io.bind (liftR (.err e)) f s = (.err e, s) := rfl
@[simp] theorem liftR_panic_bind {α β : Type} (f : α → Io β) (s : Streams) :
    Io.bind (liftR (.panic : Res String α)) f s = (.panic, s) := rfl
@[simp] theorem liftR_apply {α : Type} (x : Res String α) (s : Streams) : liftR x s = (x, s) := rfl
@[simp] theorem pure_bind_io {α β : Type} (a : α) (f : α → Io β) (s : Streams) :
    Io.bind (pure a) f s = f a s := rfl
/-- appending text to stdout -/
def addOut (s : Streams) (t : List OutTok) : Streams := { s with out := s.out ++ t }
/-- appending text to stderr -/
def addErr (s : Streams) (t : Str) : Streams := { s with err := s.err ++ t }

@[simp] theorem printOut_bind {β : Type} (t : Str) (f : Unit → Io β) (s : Streams) :
    Io.bind (printOut t) f s = f () (addOut s (outText t)) := rfl
@[simp] theorem printErr_bind {β : Type} (t : Str) (f : Unit → Io β) (s : Streams) :
    Io.bind (printErr t) f s = f () (addErr s t) := rfl
@[simp] theorem addOut_addOut (s : Streams) (a b : List OutTok) : addOut (addOut s a) b = addOut s (a ++ b) := by
  simp [addOut]
@[simp] theorem addErr_addErr (s : Streams) (a b : Str) : addErr (addErr s a) b = addErr s (a ++ b) := by
  simp [addErr]
@[simp] theorem addOut_nil (s : Streams) : addOut s [] = s := by simp [addOut]
@[simp] theorem addErr_nil (s : Streams) : addErr s [] = s := by simp [addErr]

/-! ### write_hex_output -/

theorem outText_append (a b : Str) : outText (a ++ b) = outText a ++ outText b := by simp [outText]

theorem fillAt_length (S : Nat → UInt8) (pos n : Nat) : (fillAt S pos n).length = n := by simp [fillAt]

theorem hex_loop (fuel : Nat) (rd : Reader) (block : List UInt8) (len : Nat) (s : Streams)
    (hb : block.length = 64) (hf : len ≤ fuel) :
    ∃ r, B3sumIo.write_hex_output_loop (fuel + 1) rd block len s =
      (.ok r, addOut s (outText (hexEncode (fillAt rd.S rd.pos len)))) := by
  induction fuel generalizing rd block len s with
  | zero =>
    have : len = 0 := by omega
    subst this
    refine ⟨(rd, block, 0), ?_⟩
    rw [B3sumIo.write_hex_output_loop]
    simp [fillAt, hexEncode, outText]
  | succ fuel ih =>
    rw [B3sumIo.write_hex_output_loop]
    by_cases hl : len > 0
    · simp only [hl, decide_true, if_true, io_bind_eq, readerFill, hb]
      have hmin : min len 64 ≤ 64 := by omega
      have hlen : (fillAt rd.S rd.pos 64).length = 64 := fillAt_length _ _ _
      have hmul : usizeMul (ε := String) 2 (min len 64) = .ok (2 * min len 64) := by
        unfold usizeMul; rw [if_pos (by omega)]
      have htk : sliceTo (ε := String) (hexEncode (fillAt rd.S rd.pos 64)) (2 * min len 64) =
          .ok (hexEncode (fillAt rd.S rd.pos (min len 64))) := by
        unfold sliceTo
        rw [takeBytes_ascii (allHex_hexEncode _).ascii _ (by rw [← byteLen_of_ascii (allHex_hexEncode _).ascii, byteLen_hexEncode, hlen]; omega),
          hexEncode_take, fillAt_take rd.S rd.pos (by omega)]
        rfl
      have hsub : usizeSub (ε := String) len (min len 64) = .ok (len - min len 64) := by
        simp [usizeSub, usub]; omega
      rw [hlen]
      simp only [hmul, liftR_ok_bind, htk, printOut_bind, hsub]
      obtain ⟨r, hr⟩ := ih { rd with pos := rd.pos + 64 } (fillAt rd.S rd.pos 64) (len - min len 64)
        (addOut s (outText (hexEncode (fillAt rd.S rd.pos (min len 64))))) hlen (by omega)
      refine ⟨r, ?_⟩
      rw [hr]
      simp only [addOut_addOut, ← outText_append, ← hexEncode_append]
      congr 5
      by_cases h64 : len ≥ 64
      · have e : min len 64 = 64 := by omega
        rw [e]
        have : len = 64 + (len - 64) := by omega
        conv => rhs; rw [this, fillAt_add]
      · have e : min len 64 = len := by omega
        rw [e]
        simp [fillAt]
    · have : len = 0 := by omega
      subst this
      refine ⟨(rd, block, 0), ?_⟩
      simp [fillAt, hexEncode, outText]


/-- what a model computation that yields text does to the streams (the model's `write_hex_output` has no `Err`) -/
def textOut (r : Res Unit Str) (s : Streams) : Res String Unit × Streams :=
  match r with
  | .ok t => (.ok (), addOut s (outText t))
  | .err _ => (.panic, s)
  | .panic => (.panic, s)

theorem write_hex_output_eq (rd : Reader) (args : B3sumIo.Args) (s : Streams) :
    B3sumIo.write_hex_output rd args s = (.ok (), addOut s (outText (hexEncode (fillAt rd.S rd.pos args.len)))) := by
  unfold B3sumIo.write_hex_output
  obtain ⟨r, hr⟩ := hex_loop args.len rd (List.replicate 64 (0 : UInt8)) args.len s (by simp) (Nat.le_refl _)
  simp only [io_bind_eq]
  rw [io_bind_of_ok hr]
  rfl

theorem write_raw_output_eq (rd : Reader) (args : B3sumIo.Args) (s : Streams) :
    B3sumIo.write_raw_output rd args s = (.ok (), addOut s (outRaw (fillAt rd.S rd.pos args.len))) := rfl

@[simp] theorem write_hex_output_bind {β : Type} (rd : Reader) (args : B3sumIo.Args) (f : Unit → Io β) (s : Streams) :
    Io.bind (B3sumIo.write_hex_output rd args) f s = f () (addOut s (outText (hexEncode (fillAt rd.S rd.pos args.len)))) :=
  io_bind_of_ok (write_hex_output_eq rd args s)

@[simp] theorem write_raw_output_bind {β : Type} (rd : Reader) (args : B3sumIo.Args) (f : Unit → Io β) (s : Streams) :
    Io.bind (B3sumIo.write_raw_output rd args) f s = f () (addOut s (outRaw (fillAt rd.S rd.pos args.len))) :=
  io_bind_of_ok (write_raw_output_eq rd args s)

/-! ### read_key_from_stdin -/

/-- equality of two `String`s built from literals, `String.ofList`, `++` and `toString` -/
local macro "str_eq" : tactic =>
  `(tactic| (apply String.toList_injective; simp only [String.toList_append, String.toList_ofList]; simp))

theorem natToStr_32 : natToStr 32 = ['3', '2'] := by decide

/-- the two error messages of `read_key_from_stdin` -/
def keyShortMsg (n : Nat) : String := "expected 32 key bytes from stdin, found " ++ toString n
def keyLongMsg : String := "read more than 32 key bytes from stdin"

theorem read_key_eq (w : World) :
    B3sumIo.read_key_from_stdin w =
      match w.stdin with
      | .error e => .err e
      | .ok bytes =>
        if bytes.length < 32 then .err (keyShortMsg bytes.length)
        else if bytes.length > 32 then .err keyLongMsg
        else .ok bytes := by
  unfold B3sumIo.read_key_from_stdin
  have e1 : usizeAdd (ε := String) 32 1 = .ok 33 := by decide
  have e2 : vecWithCapacity (ε := String) 33 = .ok [] := by decide
  simp only [e1, e2, bind_eq, ok_bind, stdinOf, srcTake, readToEnd]
  cases hs : w.stdin with
  | error e => rfl
  | ok bytes =>
    simp only [ok_bind, List.nil_append, List.length_take, decide_eq_true_eq]
    by_cases h1 : bytes.length < 32
    · have : min 33 bytes.length = bytes.length := by omega
      rw [this, if_pos h1, if_pos h1]
      refine congrArg Res.err ?_
      rw [natToStr_32]
      unfold keyShortMsg natToStr
      str_eq
    · have hm : ¬ (min 33 bytes.length < 32) := by omega
      rw [if_neg hm, if_neg h1]
      by_cases h2 : bytes.length > 32
      · have : min 33 bytes.length > 32 := by omega
        rw [if_pos this, if_pos h2]
        refine congrArg Res.err ?_
        rw [natToStr_32]
        unfold keyLongMsg
        str_eq
      · have hm2 : ¬ (min 33 bytes.length > 32) := by omega
        rw [if_neg hm2, if_neg h2]
        have hl : bytes.length = 32 := by omega
        have ht : List.take 33 bytes = bytes := List.take_of_length_le (by omega)
        have ht2 : List.take 32 bytes = bytes := List.take_of_length_le (by omega)
        simp [sliceBytesTo, arrayFromSlice, ht, ht2, hl]


theorem read_key_ne_panic (w : World) : B3sumIo.read_key_from_stdin w ≠ .panic := by
  rw [read_key_eq]
  cases w.stdin with
  | error e => simp
  | ok bytes =>
    simp only
    split
    · simp
    · split <;> simp

/-! ### Args::parse -/

def rawManyMsg : String := "Only one filename can be provided when using --raw"

/-- `file_args`: the positional arguments, or `-` when there are none -/
def fileArgsOf (cli : B3sumIo.Inner) : List (List UInt8) := if cli.file.isEmpty then [utf8Encode ['-']] else cli.file

theorem args_parse_eq (w : World) (cli : B3sumIo.Inner) :
    B3sumIo.Args.parse w cli =
      if cli.raw && decide ((fileArgsOf cli).length > 1) then .err rawManyMsg
      else if cli.keyed then
        (B3sumIo.read_key_from_stdin w).bind fun key =>
          .ok { inner := cli, file_args := fileArgsOf cli, base_hasher := hasherNewKeyed key }
      else
        match cli.derive_key with
        | some context => .ok { inner := cli, file_args := fileArgsOf cli, base_hasher := hasherNewDeriveKey context }
        | none => .ok { inner := cli, file_args := fileArgsOf cli, base_hasher := hasherNew } := by
  unfold B3sumIo.Args.parse
  have hf : (if (!cli.file.isEmpty) = true then (Res.ok cli.file : Res String _) else Res.ok [utf8Encode ['-']]) =
      .ok (fileArgsOf cli) := by
    unfold fileArgsOf
    cases cli.file.isEmpty <;> rfl
  simp only [bind_eq, pure_eq]
  simp only [hf, ok_bind]
  by_cases h1 : (cli.raw && decide ((fileArgsOf cli).length > 1)) = true
  · rw [if_pos h1, if_pos h1]
    refine congrArg Res.err ?_
    unfold rawManyMsg
    str_eq
  · rw [if_neg h1, if_neg h1]
    cases cli.keyed with
    | true =>
      simp only [if_true]
      cases B3sumIo.read_key_from_stdin w <;> rfl
    | false =>
      simp only [Bool.false_eq_true, if_false]
      cases cli.derive_key <;> rfl

/-! ### hash_path -/

def dashKeyedMsg : String := "Cannot open `-` in keyed mode"

/-- the input that `hash_path` absorbs for `path`: stdin for `-` (refused in keyed mode), the file otherwise -/
def inputOf (w : World) (args : B3sumIo.Args) (path : List UInt8) : Except String (List UInt8) :=
  if path = utf8Encode ['-'] then (if args.keyed then .error dashKeyedMsg else w.stdin) else w.fs path

/-- the output stream for an input: mode and prefix of the base hasher -/
def streamOf (w : World) (args : B3sumIo.Args) (contents : List UInt8) : Nat → UInt8 :=
  w.xof args.base_hasher.mode (args.base_hasher.input ++ contents)

theorem hash_path_eq (w : World) (args : B3sumIo.Args) (path : List UInt8) :
    B3sumIo.hash_path w args path =
      match inputOf w args path with
      | .error e => .err e
      | .ok contents => .ok { S := streamOf w args contents, pos := args.seek } := by
  unfold B3sumIo.hash_path inputOf streamOf
  simp only [bind_eq, pure_eq, decide_eq_true_eq]
  by_cases hp : path = utf8Encode ['-']
  · rw [if_pos hp, if_pos hp]
    by_cases hk : args.keyed = true
    · rw [if_pos hk, if_pos hk]
      simp only [err_bind]
      refine congrArg Res.err ?_
      unfold dashKeyedMsg
      str_eq
    · rw [if_neg hk, if_neg hk]
      simp only [stdinOf, hasherUpdateReader]
      cases w.stdin <;> rfl
  · rw [if_neg hp, if_neg hp]
    by_cases hm : args.no_mmap = true
    · rw [if_pos hm]
      simp only [fileOpen, hasherUpdateReader]
      cases w.fs path <;> rfl
    · rw [if_neg hm]
      simp only [hasherUpdateMmap]
      cases w.fs path <;> rfl

theorem hash_path_ne_panic (w : World) (args : B3sumIo.Args) (path : List UInt8) :
    B3sumIo.hash_path w args path ≠ .panic := by
  rw [hash_path_eq]; cases inputOf w args path <;> simp


/-! ### hash_one_input -/

open B3.Proofs.B3sumParse (outOf filepath_to_string_eq)

/-- the arguments of the model's `hash_one_input` -/
def hashArgsOf (args : B3sumIo.Args) : HashArgs :=
  { raw := args.raw, noNames := args.no_names, tag := args.tag, len := args.len, seek := args.seek }

/-- everything `hash_one_input` writes for an output reader (the closed form of `hashOneInputOk`, see
`hash_one_input_output` of Props12) -/
def hashOut (args : B3sumIo.Args) (rd : Reader) (path : List UInt8) : Out :=
  if args.raw then .raw (fillAt rd.S rd.pos args.len)
  else if args.no_names then .text (hexEncode (fillAt rd.S rd.pos args.len) ++ ['\n'])
  else .text (formatLineBytes args.tag path (hexEncode (fillAt rd.S rd.pos args.len)) ++ ['\n'])

theorem hash_one_input_eq (w : World) (args : B3sumIo.Args) (path : List UInt8) (s : Streams) :
    B3sumIo.hash_one_input w path args s =
      match B3sumIo.hash_path w args path with
      | .ok rd => (.ok (), addOut s (outOf (hashOut args rd path)))
      | .err e => (.err e, s)
      | .panic => (.panic, s) := by
  unfold B3sumIo.hash_one_input
  simp only [io_bind_eq]
  cases B3sumIo.hash_path w args path with
  | err e => rfl
  | panic => rfl
  | ok rd =>
    simp only [liftR_ok_bind, hashOut]
    by_cases hraw : args.raw = true
    · rw [if_pos hraw, if_pos hraw]
      simp only [write_raw_output_bind, io_pure_apply, outOf]
    · rw [if_neg hraw, if_neg hraw]
      by_cases hnn : args.no_names = true
      · rw [if_pos hnn, if_pos hnn]
        simp only [write_hex_output_bind, printOut_bind, io_pure_apply, addOut_addOut, outOf, outText_append]
      · rw [if_neg hnn, if_neg hnn]
        simp only [filepath_to_string_eq, liftR_ok_bind]
        have hp8 : ['B', 'L', 'A', 'K', 'E', '3', ' ', '('] = TAG_PREFIX := rfl
        have hs4 : [')', ' ', '=', ' '] = TAG_SEP := rfl
        have hs2 : [' ', ' '] = UNTAG_SEP := rfl
        rw [hp8, hs4, hs2]
        unfold formatLineBytes formatLine filepathToStringBytes
        simp only []
        generalize filepathToString (lossyDecode path) = fs
        obtain ⟨f, e⟩ := fs
        by_cases htag : args.tag = true
        · rw [if_pos htag]
          simp only [htag, if_true]
          cases e <;>
          simp only [Bool.false_eq_true, if_true, if_false, io_bind_assoc, pure_bind_io, printOut_bind, write_hex_output_bind,
            io_pure_apply, addOut_addOut, outOf, outText_append, List.append_assoc, List.nil_append, List.cons_append] <;>
          simp [outText]
        · rw [if_neg htag]
          simp only [htag, Bool.false_eq_true, if_false]
          cases e <;>
          simp only [Bool.false_eq_true, if_true, if_false, io_bind_assoc, pure_bind_io, printOut_bind, write_hex_output_bind,
            io_pure_apply, addOut_addOut, outOf, outText_append, List.append_assoc, List.nil_append, List.cons_append] <;>
          simp [outText]

/-- the link to the model: `hashOut` is what `hashOneInputOk` computes -/
theorem hashOut_eq_model (args : B3sumIo.Args) (S : Nat → UInt8) (path : List UInt8) :
    hashOneInputOk (hashArgsOf args) S path = .ok (hashOut args { S := S, pos := args.seek } path) := by
  rw [hash_one_input_output]; rfl


/-! ### check_one_line -/

open B3.Proofs.B3sumParse (parse_check_line_eq_lit toGen)

/-- the environment of the model's `--check` run: the input that `hash_path` absorbs for a path, and the 32 bytes that
`check_one_line` reads from the positioned output reader -/
def envOf (w : World) (args : B3sumIo.Args) : Env :=
  { fs := inputOf w args
    hash := fun contents => fillAt (streamOf w args contents) args.seek 32
    quiet := args.quiet }

/-- one line written by the process, as it appears on the two streams -/
def emitEv (s : Streams) : Ev → Streams
  | .out l => addOut s (outText (l.toList ++ ['\n']))
  | .diag l => addErr s (l.toList ++ ['\n'])

def emitEvs (evs : List Ev) (s : Streams) : Streams := evs.foldl emitEv s

@[simp] theorem emitEvs_nil (s : Streams) : emitEvs [] s = s := rfl
theorem emitEvs_append (a b : List Ev) (s : Streams) : emitEvs (a ++ b) s = emitEvs b (emitEvs a s) := by
  simp [emitEvs, List.foldl_append]

/-- the model's outcome of one line, on the streams -/
def lineOut (o : LineOutcome) (s : Streams) : Res String Bool × Streams :=
  match o with
  | .done ok evs => (.ok ok, emitEvs evs s)
  | .panicked => (.panic, s)

theorem check_one_line_eq (w : World) (args : B3sumIo.Args) (line : Str) (s : Streams)
    (hb : byteLen line < 4611686018427387904) :
    B3sumIo.check_one_line w line args s = lineOut (checkOneLine (envOf w args) line) s := by
  unfold B3sumIo.check_one_line checkOneLine
  rw [parse_check_line_eq_lit line hb]
  simp only [io_bind_eq]
  cases parseCheckLine line with
  | panic => rfl
  | err e =>
    simp only [B3sumParse.Res.map, catchErr, liftR_ok_bind, printErr_bind, io_pure_apply, lineOut, emitEvs, List.foldl, emitEv]
    congr 2
    rw [String.toList_append]
    simp
  | ok p =>
    simp only [B3sumParse.Res.map, catchErr, liftR_ok_bind, toGen, hash_path_eq, hashPath, envOf]
    cases hin : inputOf w args (utf8Encode p.filePath) with
    | error e =>
      cases p.isEscaped <;>
        simp only [Bool.false_eq_true, if_true, if_false, pure_bind_io, liftR_ok_bind, printOut_bind, io_pure_apply, lineOut,
          emitEvs, List.foldl, emitEv] <;>
        simp [String.toList_append, String.toList_ofList]
    | ok contents =>
      simp only [readerFill, List.length_replicate, hashEq, decide_eq_true_eq]
      by_cases hh : p.expectedHash = fillAt (streamOf w args contents) args.seek 32
      · by_cases hq : args.quiet = true
        · cases p.isEscaped <;>
            simp only [Bool.false_eq_true, if_true, if_false, pure_bind_io, liftR_ok_bind] <;>
            rw [if_pos hh, if_pos hh] <;>
            simp [hq, lineOut]
        · cases p.isEscaped <;>
            simp only [Bool.false_eq_true, if_true, if_false, pure_bind_io, liftR_ok_bind] <;>
            rw [if_pos hh, if_pos hh] <;>
            simp [hq, lineOut, emitEvs, emitEv, io_bind_assoc, String.toList_append, String.toList_ofList]
      · cases p.isEscaped <;>
          simp only [Bool.false_eq_true, if_true, if_false, pure_bind_io, liftR_ok_bind] <;>
          rw [if_neg hh, if_neg hh] <;>
          simp [lineOut, emitEvs, emitEv, String.toList_append, String.toList_ofList]


/-! ### check_one_checkfile -/

open B3.Proofs.B3sumParse (satAdd64_one satAdd1_lt checkLines_failed_lt)

/-- a checkfile argument as the model sees it: `-` is standard input, anything else is opened as a file; the
`read_line` results are those of `Model.readLines` (a failing stdin fails at the first `read_line`) -/
def openSrc (w : World) (path : List UInt8) : CheckSrc :=
  if path = utf8Encode ['-'] then .ok (bufReaderNew w.stdin)
  else match w.fs path with
    | .error e => .error e
    | .ok contents => .ok (readLines contents)

/-- every line that `read_line` delivers is shorter than 2^62 bytes -/
def LinesSmall (lines : List ReadLine) : Prop := ∀ l, Except.ok l ∈ lines → byteLen l < 4611686018427387904

/-- the model's outcome of a checkfile as the translated function ends, given the streams `s0` at the start of the run
(the model accumulates all lines written since then) -/
def fileOut (s0 : Streams) : FileOutcome → Res String Nat × Streams
  | .finished st => (.ok st.failed, emitEvs st.evs s0)
  | .ioError e st => (.err e, emitEvs st.evs s0)
  | .panicked st => (.panic, emitEvs st.evs s0)

theorem check_one_checkfile_loop_eq (w : World) (args : B3sumIo.Args) (lines : List ReadLine) (st : CheckState)
    (fuel : Nat) (line : Str) (s0 : Streams) (hf : lines.length < fuel) (hst : st.failed < 2 ^ 64) (hs : LinesSmall lines) :
    B3sumIo.check_one_checkfile_loop w fuel line lines st.failed args (emitEvs st.evs s0) =
      fileOut s0 (checkLines (envOf w args) lines st) := by
  induction lines generalizing st fuel line with
  | nil =>
    cases fuel with
    | zero => simp at hf
    | succ fuel => rfl
  | cons r rest ih =>
    cases fuel with
    | zero => simp at hf
    | succ fuel =>
      rw [B3sumIo.check_one_checkfile_loop]
      cases r with
      | error e => rfl
      | ok l =>
        simp only [readLine, io_bind_eq, liftR_ok_bind, List.nil_append, checkLines, decide_eq_true_eq]
        by_cases h0 : byteLen l = 0
        · rw [if_pos h0, if_pos h0]; rfl
        · rw [if_neg h0, if_neg h0]
          have hl : rest.length < fuel := by simp at hf; omega
          have hsr : LinesSmall rest := fun x hx => hs x (List.mem_cons_of_mem _ hx)
          rw [io_bind_apply, check_one_line_eq w args l _ (hs l (List.mem_cons_self))]
          cases checkOneLine (envOf w args) l with
          | panicked => rfl
          | done success evs =>
            simp only [lineOut, ← emitEvs_append]
            cases success with
            | true => exact ih { failed := st.failed, evs := st.evs ++ evs } fuel l hl hst hsr
            | false =>
              simp only [Bool.not_false, if_true, Bool.false_eq_true, if_false]
              rw [satAdd64_one hst]
              exact ih { failed := satAdd1 st.failed, evs := st.evs ++ evs } fuel l hl (satAdd1_lt hst) hsr

/-- the outcome of one checkfile argument: it cannot be opened, or its lines are checked -/
def fileArgOut (env : Env) (src : CheckSrc) (st : CheckState) : FileOutcome :=
  match src with
  | .error e => .ioError e st
  | .ok lines => checkLines env lines st

theorem check_one_checkfile_eq (w : World) (args : B3sumIo.Args) (path : List UInt8) (st : CheckState) (s0 : Streams)
    (hst : st.failed < 2 ^ 64) (hs : ∀ lines, openSrc w path = .ok lines → LinesSmall lines) :
    B3sumIo.check_one_checkfile w path args st.failed (emitEvs st.evs s0) =
      fileOut s0 (fileArgOut (envOf w args) (openSrc w path) st) := by
  unfold B3sumIo.check_one_checkfile
  simp only [io_bind_eq, decide_eq_true_eq]
  unfold openSrc at hs ⊢
  by_cases hp : path = utf8Encode ['-']
  · rw [if_pos hp] at hs
    rw [if_pos hp, if_pos hp]
    simp only [pure_bind_io, stdinOf, fileArgOut]
    exact check_one_checkfile_loop_eq w args _ st _ _ s0 (by omega) hst (hs _ rfl)
  · rw [if_neg hp] at hs
    rw [if_neg hp, if_neg hp]
    simp only [fileOpen]
    cases hfs : w.fs path with
    | error e => rfl
    | ok contents =>
      rw [hfs] at hs
      simp only [liftR_ok_bind, pure_bind_io, bufReaderNew, fileArgOut]
      exact check_one_checkfile_loop_eq w args _ st _ _ s0 (by omega) hst (hs _ rfl)


/-! ### main with `--check` -/

/-- the `for path in &args.file_args` loop of `main` with `--check` -/
def loopOutcome (env : Env) : List CheckSrc → CheckState → FileOutcome
  | [], st => .finished st
  | src :: rest, st =>
    match fileArgOut env src st with
    | .finished st' => loopOutcome env rest st'
    | o => o

/-- what follows the loop: the WARNING line and the exit status; `Err` returned from `main` makes the Rust runtime
print `Error: ..` and exit with 1; a panic exits with 101 -/
def finishRun : FileOutcome → RunResult
  | .finished st =>
    if st.failed > 0 then { exit := 1, evs := st.evs ++ [.diag (warningLine st.failed)] } else { exit := 0, evs := st.evs }
  | .ioError e st => { exit := 1, evs := st.evs ++ [.diag ("Error: " ++ e)] }
  | .panicked st => { exit := 101, evs := st.evs }

theorem runCheck_eq_finishRun (env : Env) (files : List CheckSrc) (st : CheckState) :
    runCheck env files st = finishRun (loopOutcome env files st) := by
  induction files generalizing st with
  | nil => rfl
  | cons src rest ih =>
    cases src with
    | error e => rfl
    | ok lines =>
      simp only [runCheck, loopOutcome, fileArgOut]
      cases checkLines env lines st with
      | finished st' => exact ih st'
      | ioError e st' => rfl
      | panicked st' => rfl

/-- the process as seen from outside: exit status and the two streams.  `Ok(c)` is `std::process::exit(c)`; an `Err`
returned from `main` is reported by the Rust runtime on stderr, exit status 1; a panic is exit status 101 -/
def processExit (r : Res String Int × Streams) : Nat × Streams :=
  match r with
  | (.ok c, s) => (c.toNat, s)
  | (.err e, s) => (1, addErr s (("Error: " ++ e).toList ++ ['\n']))
  | (.panic, s) => (101, s)

def ArgsSmall (w : World) (files : List (List UInt8)) : Prop :=
  ∀ p ∈ files, ∀ lines, openSrc w p = .ok lines → LinesSmall lines

theorem fileArgOut_failed_lt (env : Env) (src : CheckSrc) (st st' : CheckState)
    (h : fileArgOut env src st = .finished st') (hst : st.failed < 2 ^ 64) : st'.failed < 2 ^ 64 := by
  cases src with
  | error e => simp [fileArgOut] at h
  | ok lines => exact checkLines_failed_lt env lines st st' h hst

theorem main_check_loop_eq (w : World) (args : B3sumIo.Args) (hc : args.check = true) (files : List (List UInt8))
    (st : CheckState) (s0 : Streams) (hst : st.failed < 2 ^ 64) (hs : ArgsSmall w files) :
    B3sumIo.main_closure_for w files st.failed args (emitEvs st.evs s0) =
      fileOut s0 (loopOutcome (envOf w args) (files.map (openSrc w)) st) := by
  induction files generalizing st with
  | nil => rfl
  | cons p rest ih =>
    rw [B3sumIo.main_closure_for]
    rw [if_pos hc]
    simp only [io_bind_eq, List.map_cons, loopOutcome]
    rw [io_bind_apply, check_one_checkfile_eq w args p st s0 hst (hs p (List.mem_cons_self))]
    have hr : ArgsSmall w rest := fun q hq => hs q (List.mem_cons_of_mem _ hq)
    cases ho : fileArgOut (envOf w args) (openSrc w p) st with
    | finished st' => exact ih st' (fileArgOut_failed_lt _ _ _ _ ho hst) hr
    | ioError e st' => rfl
    | panicked st' => rfl

theorem warning_text (n : Nat) :
    ['b', '3', 's', 'u', 'm'] ++ [':', ' ', 'W', 'A', 'R', 'N', 'I', 'N', 'G', ':', ' '] ++ natToStr n ++
        [' ', 'c', 'o', 'm', 'p', 'u', 't', 'e', 'd', ' ', 'c', 'h', 'e', 'c', 'k', 's', 'u', 'm'] ++
        (if n = 1 then ([] : Str) else ['s']) ++ [' ', 'd', 'i', 'd', ' ', 'N', 'O', 'T', ' ', 'm', 'a', 't', 'c', 'h'] ++ ['\n'] =
      (warningLine n).toList ++ ['\n'] := by
  unfold warningLine natToStr
  by_cases h : n = 1 <;> simp [h, String.toList_append]

theorem main_closure_check_eq (w : World) (args : B3sumIo.Args) (hc : args.check = true) (s0 : Streams)
    (hs : ArgsSmall w args.file_args) :
    processExit (B3sumIo.main_closure w args s0) =
      ((runCheckMain (envOf w args) (args.file_args.map (openSrc w))).exit,
       emitEvs (runCheckMain (envOf w args) (args.file_args.map (openSrc w))).evs s0) := by
  unfold B3sumIo.main_closure runCheckMain
  rw [runCheck_eq_finishRun]
  simp only [io_bind_eq, pure_bind_io]
  have h := main_check_loop_eq w args hc args.file_args { failed := 0, evs := [] } s0 (by decide) hs
  simp only [emitEvs_nil] at h
  rw [io_bind_apply, h]
  cases loopOutcome (envOf w args) (args.file_args.map (openSrc w)) { failed := 0, evs := [] } with
  | ioError e st => simp [fileOut, finishRun, processExit, emitEvs_append, emitEvs, emitEv]
  | panicked st => rfl
  | finished st =>
    simp only [fileOut, finishRun, hc, Bool.true_and, decide_eq_true_eq]
    by_cases hf : st.failed > 0
    · rw [if_pos hf, if_pos hf, if_pos hf]
      have hw := warning_text st.failed
      by_cases h1 : st.failed = 1
      · rw [if_pos h1] at hw
        simp only [h1, if_true, io_bind_assoc, pure_bind_io, printErr_bind, io_pure_apply, processExit, emitEvs_append, emitEvs, List.foldl,
          emitEv] at hw ⊢
        rw [hw]; simp [List.foldl_append, emitEv]
      · rw [if_neg h1] at hw
        simp only [h1, if_false, io_bind_assoc, pure_bind_io, printErr_bind, io_pure_apply, processExit, emitEvs_append, emitEvs, List.foldl,
          emitEv] at hw ⊢
        rw [hw]; simp [List.foldl_append, emitEv]
    · rw [if_neg hf, if_neg hf, if_neg hf]
      rfl


/-! ### main without `--check` -/

/-- one iteration of the `for` loop of `main` without `--check`: the failure counter and the streams -/
def hashStep (w : World) (args : B3sumIo.Args) (acc : Nat × Streams) (path : List UInt8) : Nat × Streams :=
  match B3sumIo.hash_path w args path with
  | .ok rd => (acc.1, addOut acc.2 (outOf (hashOut args rd path)))
  | .err e => (satAdd1 acc.1, addErr acc.2 (("b3sum: " ++ String.ofList (lossyDecode path) ++ ": " ++ e).toList ++ ['\n']))
  | .panic => acc

theorem hashStep_fst_lt (w : World) (args : B3sumIo.Args) (acc : Nat × Streams) (path : List UInt8) (h : acc.1 < 2 ^ 64) :
    (hashStep w args acc path).1 < 2 ^ 64 := by
  unfold hashStep
  cases B3sumIo.hash_path w args path with
  | ok rd => exact h
  | err e => exact satAdd1_lt h
  | panic => exact h

theorem main_hash_loop_eq (w : World) (args : B3sumIo.Args) (hc : args.check = false) (files : List (List UInt8))
    (n : Nat) (s : Streams) (hn : n < 2 ^ 64) :
    B3sumIo.main_closure_for w files n args s =
      (.ok (files.foldl (hashStep w args) (n, s)).1, (files.foldl (hashStep w args) (n, s)).2) := by
  induction files generalizing n s with
  | nil => rfl
  | cons p rest ih =>
    rw [B3sumIo.main_closure_for]
    rw [if_neg (by simp [hc])]
    simp only [io_bind_eq, List.foldl_cons]
    have hstep := hashStep_fst_lt w args (n, s) p hn
    rw [io_bind_apply]
    unfold catchIo
    rw [hash_one_input_eq]
    unfold hashStep at hstep ⊢
    cases hh : B3sumIo.hash_path w args p with
    | panic => exact absurd hh (hash_path_ne_panic w args p)
    | ok rd =>
      rw [hh] at hstep
      simp only [pure_bind_io]
      exact ih n _ hn
    | err e =>
      rw [hh] at hstep
      simp only [pure_bind_io, printErr_bind]
      rw [satAdd64_one hn]
      have ht : ['b', '3', 's', 'u', 'm'] ++ [':', ' '] ++ lossyDecode p ++ [':', ' '] ++ e.toList ++ ['\n'] =
          ("b3sum: " ++ String.ofList (lossyDecode p) ++ ": " ++ e).toList ++ ['\n'] := by
        simp [String.toList_append, String.toList_ofList]
      rw [ht]
      exact ih _ _ hstep

theorem main_closure_hash_eq (w : World) (args : B3sumIo.Args) (hc : args.check = false) (s : Streams) :
    B3sumIo.main_closure w args s =
      (.ok (if (args.file_args.foldl (hashStep w args) (0, s)).1 > 0 then 1 else 0),
       (args.file_args.foldl (hashStep w args) (0, s)).2) := by
  unfold B3sumIo.main_closure
  simp only [io_bind_eq, pure_bind_io]
  rw [io_bind_apply, main_hash_loop_eq w args hc args.file_args 0 s (by decide)]
  simp only [hc, Bool.false_and, Bool.false_eq_true, if_false, io_bind_assoc, pure_bind_io, decide_eq_true_eq]
  split <;> rfl

/-- the failure counter of the loop is the model's fold over "could this input be hashed" -/
theorem hashStep_count (w : World) (args : B3sumIo.Args) (files : List (List UInt8)) (n : Nat) (s : Streams) :
    (files.foldl (hashStep w args) (n, s)).1 =
      (files.map fun p => (B3sumIo.hash_path w args p).isOk).foldl (fun failed ok => if ok then failed else satAdd1 failed) n := by
  induction files generalizing n s with
  | nil => rfl
  | cons p rest ih =>
    simp only [List.foldl_cons, List.map_cons]
    unfold hashStep
    cases hh : B3sumIo.hash_path w args p with
    | panic => exact absurd hh (hash_path_ne_panic w args p)
    | ok rd => simp only [Res.isOk, if_true]; exact ih _ _
    | err e => simp only [Res.isOk, Bool.false_eq_true, if_false]; exact ih _ _

/-! ### main -/

theorem main_eq (w : World) (cli : B3sumIo.Inner) (s : Streams) :
    B3sumIo.main w cli s =
      match B3sumIo.Args.parse w cli with
      | .ok args => B3sumIo.main_closure w args s
      | .err e => (.err e, s)
      | .panic => (.panic, s) := by
  unfold B3sumIo.main
  simp only [io_bind_eq]
  cases B3sumIo.Args.parse w cli with
  | err e => rfl
  | panic => rfl
  | ok args =>
    simp only [liftR_ok_bind]
    cases args.num_threads <;> rfl

theorem args_parse_ne_panic (w : World) (cli : B3sumIo.Inner) : B3sumIo.Args.parse w cli ≠ .panic := by
  rw [args_parse_eq]
  split
  · simp
  · split
    · have := read_key_ne_panic w
      cases h : B3sumIo.read_key_from_stdin w with
      | panic => exact absurd h this
      | ok k => simp
      | err e => simp
    · split <;> simp

theorem args_parse_inner {w : World} {cli : B3sumIo.Inner} {args : B3sumIo.Args}
    (h : B3sumIo.Args.parse w cli = .ok args) : args.inner = cli ∧ args.file_args = fileArgsOf cli := by
  rw [args_parse_eq] at h
  split at h
  · cases h
  · split at h
    · cases hk : B3sumIo.read_key_from_stdin w with
      | ok k => rw [hk] at h; simp only [ok_bind, Res.ok.injEq] at h; subst h; exact ⟨rfl, rfl⟩
      | err e => rw [hk] at h; cases h
      | panic => rw [hk] at h; cases h
    · split at h <;> (simp only [Res.ok.injEq] at h; subst h; exact ⟨rfl, rfl⟩)

/-! ### well-formedness of real readers; a sufficient check for `ArgsSmall` -/

theorem openSrc_wellFormed (w : World) (files : List (List UInt8)) : WellFormed (files.map (openSrc w)) := by
  intro lines hl l hmem
  simp only [List.mem_map] at hl
  obtain ⟨p, _, hp⟩ := hl
  unfold openSrc at hp
  split at hp
  · have := Except.ok.inj hp
    subst this
    unfold bufReaderNew at hmem
    cases hs : w.stdin with
    | error e => rw [hs] at hmem; simp at hmem
    | ok b => rw [hs] at hmem; exact readLines_wellFormed b l hmem
  · cases hf : w.fs p with
    | error e => rw [hf] at hp; cases hp
    | ok c =>
      rw [hf] at hp
      have := Except.ok.inj hp
      subst this
      exact readLines_wellFormed c l hmem

/-- a decidable sufficient condition for `ArgsSmall` -/
def argsSmallB (w : World) (files : List (List UInt8)) : Bool :=
  files.all fun p =>
    match openSrc w p with
    | .error _ => true
    | .ok lines => lines.all fun rl =>
      match rl with
      | .error _ => true
      | .ok l => decide (byteLen l < 4611686018427387904)

theorem argsSmall_of_check {w : World} {files : List (List UInt8)} (h : argsSmallB w files = true) : ArgsSmall w files := by
  intro p hp lines hl l hmem
  unfold argsSmallB at h
  rw [List.all_eq_true] at h
  have := h p hp
  rw [hl] at this
  simp only [List.all_eq_true] at this
  have := this _ hmem
  simpa using this


theorem checkOneLine_ok_ev {env : Env} {line : Str} {evs : List Ev} (h : checkOneLine env line = .done true evs) :
    evs = [] ∧ env.quiet = true ∨ (∃ name, evs = [.out (name ++ ": OK")]) ∧ env.quiet = false := by
  unfold checkOneLine at h
  cases hp : parseCheckLine line with
  | panic => rw [hp] at h; simp at h
  | err e => rw [hp] at h; simp at h
  | ok p =>
    rw [hp] at h
    simp only at h
    cases hh : hashPath env p.filePath with
    | error e => rw [hh] at h; simp at h
    | ok found =>
      rw [hh] at h
      simp only at h
      split at h
      · simp only [LineOutcome.done.injEq, true_and] at h
        cases hq : env.quiet with
        | true => rw [hq] at h; simp at h; exact Or.inl ⟨h, rfl⟩
        | false => rw [hq] at h; simp at h; exact Or.inr ⟨⟨_, h.symm⟩, rfl⟩
      · simp at h

/-- a small world for the examples: a checkfile `c` with one entry for the (empty) file `x`, every hash is `aa…aa` -/
def demoWorld : World :=
  { fs := fun p => if p = [0x63] then .ok (utf8Encode goodLine) else if p = [0x78] then .ok []
                   else .error "No such file or directory (os error 2)"
    stdin := .ok (List.replicate 32 0x6b)
    xof := fun _ _ _ => 0xaa }

def demoCli : B3sumIo.Inner := { B3sumIo.Inner.default with check := true, file := [[0x63], [0x2d]] }
def demoArgs : B3sumIo.Args := { inner := demoCli, file_args := demoCli.file, base_hasher := hasherNew }

end B3.Proofs.B3sumIo
