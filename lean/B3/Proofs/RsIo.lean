/-
src/io.rs (`copy_wide`, `maybe_mmap_file`) and the io-facing methods of src/lib.rs (`Hasher::update_reader`,
`update_mmap`, `update_mmap_rayon`, `impl std::io::Write for Hasher`, `impl std::io::Read for OutputReader`) as
translated statement by statement from the source (Gen/RsIo.lean, artefact G12-io) equal the hand-written model
`B3.Io.Model`, for every reader script and every file state; the C11 properties are then restated for the
generated code.

Error values: the model names an error by a `String`; the generated code has `io::Error`s with a kind
(`IoError`).  `ofModel` embeds the model's results (`k ↦ ErrorKind.Other k`); every error the translated functions
produce themselves is of that form, so the equalities below are exact.
-/
import B3.Gen.RsIo
import B3.Io.Props
import B3.Proofs.Xof
namespace B3.Proofs.RsIo
open B3 B3.Io B3.Arith B3.Gen.RsIo

/-! ### the correspondence between the generated vocabulary and the model's -/

/-- a result of the model, as an `io::Result` -/
def ofModel {α : Type} : Except String α → IoResult α
  | .ok a => .ok a
  | .error k => .error ⟨.Other k⟩

/-- the model's name of an `io::Error` -/
def errName : IoError → String
  | ⟨.Interrupted⟩ => "Interrupted"
  | ⟨.Other k⟩ => k

/-- an `io::Result`, as the model sees it -/
def toModel {α : Type} : IoResult α → Except String α
  | .ok a => .ok a
  | .error e => .error (errName e)

@[simp] theorem toModel_ofModel {α : Type} (r : Except String α) : toModel (ofModel r) = r := by
  cases r <;> rfl

/-- what `maybe_mmap_file` can observe of a `File`: the model's `FileEnv` -/
def env (f : File) : FileEnv :=
  { initialCursor := f.cursor
    seekEnd := f.sys.seekEnd (-(SEEK_OFFSET : Int))
    mapOk := f.sys.mapOk
    rewindErr := f.sys.rewindErr
    isizeMax := f.sys.isizeMax }

/-- a `File` as the model's `OpenFile` -/
def toOpen (f : File) : OpenFile := { env := env f, contents := f.contents, readerAt := f.readerAt }

/-- every `FileEnv` / `OpenFile` of the model is the view of some `File` -/
def ofOpen (o : OpenFile) : File :=
  { sys := { seekEnd := fun _ => o.env.seekEnd, mapOk := o.env.mapOk, rewindErr := o.env.rewindErr, isizeMax := o.env.isizeMax }
    contents := o.contents
    readerAt := o.readerAt
    cursor := o.env.initialCursor }

theorem toOpen_ofOpen (o : OpenFile) : toOpen (ofOpen o) = o := rfl

/-- where the cursor is after the seek-to-end probe -/
def probeCursor (f : File) : Nat :=
  match f.sys.seekEnd (-(SEEK_OFFSET : Int)) with
  | .ok p => p
  | .err => f.cursor

/-- the value and the file state that `maybe_mmap_file` returns when the model's decision is `p`: a mapping of the first
`len` bytes (the cursor stays where the probe left it), `Ok(None)` with the cursor where the model says ordinary reads
start, or the error of the failed `rewind` (cursor where the probe left it) -/
def resultOfPlan (f : File) : MmapPlan → IoResult (Option Mmap) × File
  | .mapped len => (.ok (some ⟨len, f.contents.take len⟩), { f with cursor := probeCursor f })
  | .fallbackRead c => (.ok none, { f with cursor := c })
  | .err k => (.error ⟨.Other k⟩, { f with cursor := probeCursor f })

/-- ... and back: nothing of the model's decision is lost -/
def planOf : IoResult (Option Mmap) × File → MmapPlan
  | (.ok (some m), _) => .mapped m.len
  | (.ok none, f) => .fallbackRead f.cursor
  | (.error e, _) => .err (errName e)

theorem planOf_resultOfPlan (f : File) (p : MmapPlan) : planOf (resultOfPlan f p) = p := by
  cases p <;> rfl

/-! ### the scripted reader -/

theorem readCall_ok_length (buf : Nat) (evs : List ReadEvent) :
    ∀ {bs : List UInt8} {rest : List ReadEvent}, readCall buf evs = (.ok bs, rest) → bs.length ≤ buf := by
  induction evs with
  | nil => intro bs rest h; simp [readCall] at h; rw [h.1]; simp
  | cons e r ih =>
    intro bs rest h
    cases e with
    | data d =>
      simp only [readCall] at h
      split at h
      · exact ih h
      · split at h
        · simp only [Prod.mk.injEq, ReadResult.ok.injEq] at h; rw [← h.1]; assumption
        · simp only [Prod.mk.injEq, ReadResult.ok.injEq] at h; rw [← h.1, List.length_take]; omega
    | interrupted => simp [readCall] at h
    | fail k => simp [readCall] at h
    | eof => simp [readCall] at h; rw [h.1]; simp

/-- a successful non-empty `read` delivers the next bytes of the data the script yields before its first `fail`/`eof` -/
theorem readCall_ok_data (buf : Nat) (evs : List ReadEvent) :
    ∀ {bs : List UInt8} {rest : List ReadEvent}, readCall buf evs = (.ok bs, rest) → bs ≠ [] →
      dataBefore evs = bs ++ dataBefore rest := by
  induction evs with
  | nil => intro bs rest h hne; simp [readCall] at h; exact absurd h.1 hne
  | cons e r ih =>
    intro bs rest h hne
    cases e with
    | data d =>
      simp only [readCall] at h
      split at h
      · rename_i h0
        have : d = [] := List.length_eq_zero_iff.mp h0
        subst this
        simpa using ih h hne
      · split at h
        · simp only [Prod.mk.injEq, ReadResult.ok.injEq] at h
          rw [← h.1, ← h.2]; simp
        · simp only [Prod.mk.injEq, ReadResult.ok.injEq] at h
          rw [← h.1, ← h.2]
          simp only [dataBefore_data, ← List.append_assoc, List.take_append_drop]
    | interrupted => simp [readCall] at h
    | fail k => simp [readCall] at h
    | eof => simp [readCall] at h; exact absurd h.1 hne

theorem readCall_interrupted_data (buf : Nat) (evs : List ReadEvent) :
    ∀ {rest : List ReadEvent}, readCall buf evs = (.interrupted, rest) → dataBefore evs = dataBefore rest := by
  induction evs with
  | nil => intro rest h; simp [readCall] at h
  | cons e r ih =>
    intro rest h
    cases e with
    | data d =>
      simp only [readCall] at h
      split at h
      · rename_i h0
        have : d = [] := List.length_eq_zero_iff.mp h0
        subst this
        simpa using ih h
      · split at h <;> simp at h
    | interrupted => simp [readCall] at h; rw [h]; simp
    | fail k => simp [readCall] at h
    | eof => simp [readCall] at h

/-! ### `copy_wide` -/

theorem slice_prefix (bs rest : List UInt8) : slice (bs ++ rest) 0 bs.length = .ok bs := by
  unfold slice
  rw [if_pos ⟨Nat.zero_le _, by simp⟩]
  simp

section
variable {H : Type} (upd : H → List UInt8 → H)

/-- the translated `loop` of `copy_wide` is the model's `copyLoop`, for every reader script, hasher, buffer contents and
running total, as long as the `u64` total cannot overflow -/
theorem copy_wide_loop_eq (buf : Nat) (fuel : Nat) :
    ∀ (evs : List ReadEvent) (h : H) (buffer : List UInt8) (t : Nat),
      weight evs < fuel → buffer.length = buf → t + (dataBefore evs).length < 2 ^ 64 →
      copy_wide_loop upd fuel evs h buffer t =
        .ok ((copyLoop upd buf evs h t).1, ofModel (copyLoop upd buf evs h t).2.1, (copyLoop upd buf evs h t).2.2) := by
  induction fuel with
  | zero => intro evs h buffer t hf; omega
  | succ fuel ih =>
    intro evs h buffer t hf hb ht
    rw [copy_wide_loop]
    have hw := readCall_weight buf evs
    cases hr : readCall buf evs with
    | mk res rest =>
      rw [hr] at hw
      cases res with
      | ok bs =>
        have hread : Reader.read evs buffer = ((.ok bs.length, bs ++ buffer.drop bs.length), rest) := by
          simp only [Reader.read, hb, hr]
        rw [hread]
        cases bs with
        | nil =>
          simp only [List.length_nil, if_true, bind, pure]
          rw [copyLoop_of_ok_nil upd h t hr]; rfl
        | cons b bs =>
          have hlen := readCall_ok_length buf evs hr
          have hdata := readCall_ok_data buf evs hr (by simp)
          have hne : (b :: bs).length ≠ 0 := by simp
          have hadd : t + (b :: bs).length < 2 ^ 64 := by
            rw [hdata, List.length_append] at ht; omega
          have hcadd : cadd t (b :: bs).length = .ok (t + (b :: bs).length) := by
            unfold cadd W; rw [if_pos hadd]
          simp only [hne, if_false, bind, pure, slice_prefix, hcadd]
          rw [ih rest _ _ _ (by have := hw.2 (by simp); simp only [] at this; omega)
            (by rw [List.length_append, List.length_drop]; omega)
            (by rw [hdata, List.length_append] at ht; omega)]
          rw [copyLoop_of_ok_cons upd h t hr]
      | interrupted =>
        have hread : Reader.read evs buffer = ((.error ⟨.Interrupted⟩, buffer), rest) := by
          simp only [Reader.read, hb, hr]
        rw [hread]
        simp only [if_true, pure]
        rw [ih rest _ _ _ (by have := hw.2 (by simp); simp only [] at this; omega) hb
          (by rw [readCall_interrupted_data buf evs hr] at ht; exact ht)]
        rw [copyLoop_of_interrupted upd h t hr]
      | err k =>
        have hread : Reader.read evs buffer = ((.error ⟨.Other k⟩, buffer), rest) := by
          simp only [Reader.read, hb, hr]
        rw [hread]
        have hk : ¬ (ErrorKind.Other k = ErrorKind.Interrupted) := by intro h; cases h
        simp only [hk, if_false, pure]
        rw [copyLoop_of_err upd h t hr]; rfl

theorem copy_wide_eq (evs : List ReadEvent) (h : H) (hlen : (dataBefore evs).length < 2 ^ 64) :
    copy_wide upd evs h =
      .ok ((copyWide upd evs h).1, ofModel (copyWide upd evs h).2.1, (copyWide upd evs h).2.2) := by
  unfold copy_wide copyWide
  exact copy_wide_loop_eq upd BUFFER _ evs h _ 0 (by omega) (by rw [List.length_replicate]; rfl) (by omega)

theorem update_reader_eq (evs : List ReadEvent) (h : H) (hlen : (dataBefore evs).length < 2 ^ 64) :
    update_reader upd evs h = .ok ((updateReader upd evs h).1, ofModel (updateReader upd evs h).2) := by
  unfold update_reader updateReader
  rw [copy_wide_eq upd evs h hlen]
  generalize copyWide upd evs h = r
  obtain ⟨h', res, rest⟩ := r
  cases res <;> rfl

end

/-! ### `maybe_mmap_file` -/

/-- what the theorems about `maybe_mmap_file` assume of the target and of the state the file is in:
`isize::MAX` is at least 16383 and fits a `u64` (both hold on every Rust target: `isize` has at least 16 bits, and
`isize::MAX as u64` is a `u64`), and - in a build with debug assertions - the cursor is at 0 whenever
`stream_position` can tell (otherwise the `assert_eq!` at the top of the function panics, see
`maybe_mmap_file_debug_assert`) -/
structure Admissible (debug_assertions : Bool) (f : File) : Prop where
  isize_lo : SEEK_OFFSET ≤ f.sys.isizeMax
  isize_hi : f.sys.isizeMax < 2 ^ 64
  fresh : debug_assertions = true → f.sys.streamPositionOk = true → f.cursor = 0

theorem neg_seek_offset : (-(SEEK_OFFSET : Int)) = -16383 := by decide

theorem maybe_mmap_file_k1_eq (dbg : Bool) (f : File) (h1 : SEEK_OFFSET ≤ f.sys.isizeMax) (h2 : f.sys.isizeMax < 2 ^ 64) :
    maybe_mmap_file_k1 dbg f = .ok (resultOfPlan f (mmapPlan (env f))) := by
  have hS : SEEK_OFFSET = 16383 := rfl
  rw [hS] at h1
  have e1 : csub 16384 1 = .ok 16383 := rfl
  have e2 : cnegI64 (asI64 16383) = .ok (-16383) := by decide
  unfold maybe_mmap_file_k1 mmapPlan
  simp only [bind, pure, e1, e2, File.seek, env, neg_seek_offset]
  cases hs : f.sys.seekEnd (-16383) with
  | err => simp only [resultOfPlan]
  | ok p =>
    simp only []
    by_cases hp : p = 0
    · subst hp; simp only [if_true, resultOfPlan]
    · have e3 : csub f.sys.isizeMax 16383 = .ok (f.sys.isizeMax - 16383) := by
        unfold csub; rw [if_pos h1]
      simp only [hp, if_false, e3, hS]
      by_cases hle : p ≤ f.sys.isizeMax - 16383
      · have e4 : cadd p 16383 = .ok (p + 16383) := by
          unfold cadd W; rw [if_pos (by omega)]
        have e5 : asUsize f.sys.isizeMax (p + 16383) = p + 16383 := by
          unfold asUsize; rw [if_pos (by omega)]
        simp only [hle, if_true, e4, e5, MmapOptions.map, MmapOptions.setLen, true_and]
        cases hm : f.sys.mapOk (p + 16383) with
        | true =>
          simp only [if_true, resultOfPlan, probeCursor, neg_seek_offset, hs]
        | false =>
          simp only [Bool.false_eq_true, if_false, File.rewind]
          cases hr : f.sys.rewindErr with
          | none => simp only [resultOfPlan]
          | some k => simp only [resultOfPlan, probeCursor, neg_seek_offset, hs]
      · simp only [hle, if_false, false_and, File.rewind]
        cases hr : f.sys.rewindErr with
        | none => simp only [resultOfPlan]
        | some k => simp only [resultOfPlan, probeCursor, neg_seek_offset, hs]

theorem maybe_mmap_file_eq (dbg : Bool) (f : File) (ha : Admissible dbg f) :
    maybe_mmap_file dbg f = .ok (resultOfPlan f (mmapPlan (env f))) := by
  unfold maybe_mmap_file
  have hk := maybe_mmap_file_k1_eq dbg f ha.isize_lo ha.isize_hi
  by_cases hd : dbg = true
  · rw [if_pos hd]
    unfold File.stream_position
    by_cases hsp : f.sys.streamPositionOk = true
    · have hc := ha.fresh hd hsp
      simp only [hsp, if_true, hc, assertEq, bind, hk]
    · simp only [hsp, if_false, Bool.false_eq_true, hk]
  · rw [if_neg hd]; exact hk

/-- with debug assertions on, a seekable file whose cursor is not at the start makes `maybe_mmap_file` panic
(`assert_eq!(position, 0, "initial file offset isn't at the beginning")` is represented) -/
theorem maybe_mmap_file_debug_assert (f : File) (hsp : f.sys.streamPositionOk = true) (hc : f.cursor ≠ 0) :
    maybe_mmap_file true f = .panic := by
  unfold maybe_mmap_file File.stream_position
  simp only [hsp, if_true, assertEq, hc, if_false, bind]

/-! ### `update_mmap`, `update_mmap_rayon` -/

/-- `Admissible`, and no reader script of the file yields `2^64` bytes or more (the `u64` total of `copy_wide`) -/
structure AdmissibleFile (debug_assertions : Bool) (f : File) : Prop extends Admissible debug_assertions f where
  reads_lt : ∀ c, (dataBefore (f.readerAt c)).length < 2 ^ 64

section
variable {H : Type} (upd updR : H → List UInt8 → H)

theorem mmap_body_eq (updMapped : H → List UInt8 → H) (f : File) (h : H) (hreads : ∀ c, (dataBefore (f.readerAt c)).length < 2 ^ 64) :
    (match resultOfPlan f (mmapPlan (env f)) with
      | (r4, file) =>
        match r4 with
        | .error e6 => (pure (h, .error e6) : R (H × IoResult Unit))
        | .ok v5 =>
          match v5 with
          | some v7 => pure (updMapped h v7.bytes, .ok ())
          | none => do
            let (hasher, r8, _) ← copy_wide upd (File.reader file) h
            match r8 with
            | .error e10 => pure (hasher, .error e10)
            | .ok _ => pure (hasher, .ok ())) =
      .ok ((updateMmapFile updMapped upd (toOpen f) h).1, ofModel (updateMmapFile updMapped upd (toOpen f) h).2) := by
  unfold updateMmapFile
  simp only [toOpen]
  cases mmapPlan (env f) with
  | mapped len => rfl
  | fallbackRead c =>
    simp only [resultOfPlan, File.reader, bind]
    rw [copy_wide_eq upd _ h (hreads c)]
    unfold updateReader
    generalize copyWide upd (f.readerAt c) h = r
    obtain ⟨h', res, rest⟩ := r
    cases res <;> rfl
  | err k => rfl

theorem update_mmap_file_eq (dbg : Bool) (f : File) (h : H) (ha : AdmissibleFile dbg f) :
    update_mmap upd dbg (.ok f) h =
      .ok ((updateMmapFile upd upd (toOpen f) h).1, ofModel (updateMmapFile upd upd (toOpen f) h).2) := by
  unfold update_mmap
  simp only [bind, maybe_mmap_file_eq dbg f ha.toAdmissible]
  exact mmap_body_eq upd upd f h ha.reads_lt

theorem update_mmap_rayon_file_eq (dbg : Bool) (f : File) (h : H) (ha : AdmissibleFile dbg f) :
    update_mmap_rayon upd updR dbg (.ok f) h =
      .ok ((updateMmapFile updR upd (toOpen f) h).1, ofModel (updateMmapFile updR upd (toOpen f) h).2) := by
  unfold update_mmap_rayon
  simp only [bind, maybe_mmap_file_eq dbg f ha.toAdmissible]
  exact mmap_body_eq upd updR f h ha.reads_lt

end

/-- the result of `File::open`, as the model sees it -/
def openedModel : IoResult File → Except String OpenFile
  | .ok f => .ok (toOpen f)
  | .error e => .error (errName e)

/-- the model's view of what a translated method returns -/
def view {H α : Type} : R (H × IoResult α) → R (H × Except String α)
  | .ok (h, r) => .ok (h, toModel r)
  | .panic => .panic

/-! ### witnesses for the hypotheses -/

/-- a regular file on a POSIX system, freshly opened: `lseek(fd, off, SEEK_END)` fails with EINVAL iff the target
`len + off` is negative and otherwise moves there; reads deliver one `Interrupted`, then the rest of the file, then end of
file; `mapOk` says which mappings succeed -/
def posixFile (contents : List UInt8) (mapOk : Nat → Bool) : File :=
  { sys := { seekEnd := fun off => if (contents.length : Int) + off < 0 then .err else .ok ((contents.length : Int) + off).toNat
             mapOk := mapOk }
    contents := contents
    readerAt := fun c => [.interrupted, .data (contents.drop c), .eof]
    cursor := 0 }

theorem posixFile_regular (contents : List UInt8) (mapOk : Nat → Bool) :
    RegularFile (env (posixFile contents mapOk)) contents.length := by
  refine ⟨rfl, ?_, rfl⟩
  have hS : SEEK_OFFSET = 16383 := rfl
  simp only [env, posixFile, hS]
  by_cases h : contents.length < 16383
  · have h1 : (contents.length : Int) + -((16383 : Nat) : Int) < 0 := by omega
    rw [if_pos h1, if_pos h]
  · have h1 : ¬ (contents.length : Int) + -((16383 : Nat) : Int) < 0 := by omega
    have e : ((contents.length : Int) + -((16383 : Nat) : Int)).toNat = contents.length - 16383 := by omega
    rw [if_neg h1, if_neg h, e]

theorem posixFile_isize_lo (contents : List UInt8) (mapOk : Nat → Bool) :
    SEEK_OFFSET ≤ (posixFile contents mapOk).sys.isizeMax := by
  show SEEK_OFFSET ≤ 2 ^ 63 - 1; decide

theorem posixFile_isize_hi (contents : List UInt8) (mapOk : Nat → Bool) :
    (posixFile contents mapOk).sys.isizeMax < 2 ^ 64 := by
  show 2 ^ 63 - 1 < 2 ^ 64; decide

theorem posixFile_faithful (contents : List UInt8) (mapOk : Nat → Bool) :
    FaithfulReads (toOpen (posixFile contents mapOk)) := by
  constructor
  · intro c; simp [toOpen, posixFile]
  · intro c; rw [failsFirst_iff]; simp [toOpen, posixFile, outcome]

theorem posixFile_admissible (dbg : Bool) (contents : List UInt8) (mapOk : Nat → Bool) (hlen : contents.length < 2 ^ 64) :
    AdmissibleFile dbg (posixFile contents mapOk) := by
  refine ⟨⟨posixFile_isize_lo _ _, posixFile_isize_hi _ _, fun _ _ => rfl⟩, ?_⟩
  intro c
  simp only [posixFile, dataBefore_interrupted, dataBefore_data, dataBefore_eof, List.append_nil, List.length_drop]
  omega

end B3.Proofs.RsIo
