/-
The CV stack of the C hasher as a byte array: `hasher_merge_cv_stack` and `hasher_push_cv`, translated with their
data (Gen/CState.lean), equal the model's `mergeCvStack` / `pushCv` under the representation relation `HRel`
(`cv_stack` bytes = the little-endian bytes of the model's list of chaining values, followed by stale bytes).
-/
import B3.Proofs.CStateChunk
import B3.Proofs.Skeleton
namespace B3.Proofs.CS
open B3 B3.CMem B3.Gen.CState

/-- the bytes of a list of chaining values, back to back -/
def stackBytes (s : List CV) : List UInt8 := s.flatMap bytesOfWords

theorem stackBytes_length (s : List CV) : (stackBytes s).length = 32 * s.length := by
  induction s with
  | nil => rfl
  | cons a s ih => simp only [stackBytes, List.flatMap_cons, List.length_append, List.length_cons] at ih ⊢
                   rw [ih, bytesOfWords_length]; omega

theorem stackBytes_append (a b : List CV) : stackBytes (a ++ b) = stackBytes a ++ stackBytes b := by
  simp [stackBytes, List.flatMap_append]

theorem stackBytes_one (x : CV) : stackBytes [x] = bytesOfWords x := by simp [stackBytes]

theorem stackBytes_two (x y : CV) : stackBytes [x, y] = bytesOfWords x ++ bytesOfWords y := by simp [stackBytes]

/-- `cv_stack` / `cv_stack_len` represent the model's stack -/
structure StRel (g : blake3_hasher) (stack : List CV) : Prop where
  sized : g.cv_stack.length = 1760
  len : g.cv_stack_len.toNat = stack.length
  bytes : ∃ rest, g.cv_stack = stackBytes stack ++ rest

theorem StRel.le {g : blake3_hasher} {stack : List CV} (h : StRel g stack) : stack.length ≤ 55 := by
  obtain ⟨rest, e⟩ := h.bytes
  have := h.sized
  rw [e, List.length_append, stackBytes_length] at this
  omega

/-- representation of the model's hasher by the C struct (the C hasher has no input offset) -/
structure HRel (g : blake3_hasher) (h : Rs.Hasher) : Prop where
  key : g.key = h.key
  cs : CsRel g.chunk h.cs
  st : StRel g h.stack
  t0 : h.t0 = 0

theorem HRel.sized {g : blake3_hasher} {h : Rs.Hasher} (hr : HRel g h) : g.sized := ⟨hr.cs.sized, hr.st.sized⟩

theorem list_split_two {α : Type} (s : List α) (h : 2 ≤ s.length) : ∃ s0 l r, s = s0 ++ [l, r] := by
  induction s with
  | nil => simp at h
  | cons a s ih =>
    match s, ih with
    | [], _ => simp at h
    | [b], _ => exact ⟨[], a, b, rfl⟩
    | b :: c :: s', ih =>
      obtain ⟨s0, l, r, e⟩ := ih (by simp)
      exact ⟨a :: s0, l, r, by rw [e]; rfl⟩

theorem mergeStack_length {α : Type} (node : α → α → α) (d : α) (target : Nat) :
    ∀ (s : List α), (1 ≤ target ∨ s = []) → (Hs.mergeStack node d target s).length = min s.length target := by
  intro s
  induction hn : s.length using Nat.strongRecOn generalizing s with
  | _ n ih =>
    intro ht
    by_cases hc : target < s.length
    · have h2 : 2 ≤ s.length := by
        rcases ht with h | h
        · omega
        · subst h; simp at hc
      obtain ⟨s0, l, r, e⟩ := list_split_two s h2
      subst e
      rw [Hs.mergeStack_step node d target s0 l r hc]
      rw [ih (s0 ++ [node l r]).length (by rw [← hn]; simp) (s0 ++ [node l r]) rfl
        (by rcases ht with h | h
            · exact Or.inl h
            · simp at h)]
      simp at hc hn ⊢; omega
    · rw [Hs.mergeStack, dif_neg (by omega)]; omega

section
variable (K : Kern) (sd : Nat) (junk : Nat → Nat → UInt8)

/-- the `while (self->cv_stack_len > post_merge_stack_len)` loop on the byte array is the model's `mergeStack` -/
theorem merge_loop_eq (target : Nat) (fuel : Nat) : ∀ (g : blake3_hasher) (stack : List CV),
    StRel g stack → stack.length < fuel → (1 ≤ target ∨ stack = []) →
    ∃ g', hasher_merge_cv_stack_loop (envOf K sd junk) fuel g target = .ok g' ∧
      StRel g' (Hs.mergeStack (Rs.parentCV K g.key g.chunk.flags) g.key target stack) ∧
      g'.key = g.key ∧ g'.chunk = g.chunk := by
  induction fuel with
  | zero => intro g stack _ hf; omega
  | succ fuel ih =>
    intro g stack hr hf ht
    rw [hasher_merge_cv_stack_loop]
    by_cases hc : stack.length > target
    · rw [if_pos (by rw [hr.len]; exact hc)]
      have h2 : 2 ≤ stack.length := by
        rcases ht with h | h
        · omega
        · subst h; simp at hc
      obtain ⟨s0, l, r, e⟩ := list_split_two stack h2
      subst e
      obtain ⟨rest, hb⟩ := hr.bytes
      have hlen : g.cv_stack_len.toNat = s0.length + 2 := by rw [hr.len]; simp
      have hoff : (((g.cv_stack_len.toNat : Int) - (2 : Int)) * (32 : Int)).toNat = (stackBytes s0).length := by
        rw [hlen, stackBytes_length]; omega
      rw [idx_ok _ (by rw [hlen]; omega), hoff]
      simp only [ok_bind]
      have hb1 : g.cv_stack = stackBytes s0 ++ (bytesOfWords l ++ bytesOfWords r) ++ rest := by
        rw [hb, stackBytes_append, stackBytes_two]
      have hb2 : g.cv_stack = stackBytes s0 ++ bytesOfWords l ++ (bytesOfWords r ++ rest) := by
        rw [hb1]; simp only [List.append_assoc]
      rw [hb1, rd_mid _ _ _ 64 (by simp [bytesOfWords_length])]
      simp only [ok_bind]
      obtain ⟨o, eo, hno, hob⟩ := parent_output_eq (envOf K sd junk) (bytesOfWords l ++ bytesOfWords r) g.key g.chunk.flags l r rfl
      simp only [eo, ok_bind]
      rw [← hb1, hb2, rd_mid _ _ _ 32 (by simp [bytesOfWords_length])]
      simp only [ok_bind]
      rw [ocv_eq K sd junk o _ hob (by simp [bytesOfWords_length])]
      simp only [ok_bind]
      rw [wr_mid _ _ _ _ _ rfl (by simp [bytesOfWords_length])]
      simp only [ok_bind]
      rw [Hs.mergeStack_step _ _ target s0 l r hc]
      have hr' : StRel { g with cv_stack := stackBytes s0 ++ bytesOfWords (Rs.chain K (nodeOf o)) ++ (bytesOfWords r ++ rest),
                                cv_stack_len := g.cv_stack_len - 1 } (s0 ++ [Rs.parentCV K g.key g.chunk.flags l r]) := by
        refine ⟨?_, ?_, ⟨bytesOfWords r ++ rest, ?_⟩⟩
        · have := hr.sized
          rw [hb2] at this
          simp only [List.length_append, bytesOfWords_length] at this ⊢
          exact this
        · simp only [List.length_append, List.length_cons, List.length_nil]
          rw [UInt8.toNat_sub, hlen]
          have : (1 : UInt8).toNat = 1 := rfl
          rw [this]
          have := hr.le
          simp at this
          omega
        · simp only [stackBytes_append, stackBytes_one, Rs.parentCV, hno]
      obtain ⟨g', e1, e2, e3, e4⟩ := ih _ _ hr' (by simp at hf ⊢; omega) (by
        rcases ht with h | h
        · exact Or.inl h
        · simp at h)
      exact ⟨g', e1, e2, e3, e4⟩
    · rw [if_neg (by rw [hr.len]; exact hc), Hs.mergeStack, dif_neg (by omega)]
      exact ⟨g, rfl, hr, rfl, rfl⟩

theorem merge_eq {g : blake3_hasher} {h : Rs.Hasher} (hr : HRel g h) (t : Nat) (ht : t ≠ 0 ∨ h.stack = []) :
    ∃ g', hasher_merge_cv_stack (envOf K sd junk) g t = .ok g' ∧ HRel g' (h.mergeCvStack K t) := by
  unfold hasher_merge_cv_stack
  obtain ⟨g', e1, e2, e3, e4⟩ := merge_loop_eq K sd junk (Arith.popcnt t) (g.cv_stack_len.toNat + 1) g h.stack hr.st
    (by rw [hr.st.len]; omega)
    (by rcases ht with h0 | h0
        · left; rw [popcnt_eq_popcount]; exact popcount_pos t h0
        · exact Or.inr h0)
  simp only [e1]
  refine ⟨g', rfl, ?_, ?_, ?_, hr.t0⟩
  · rw [e3]; exact hr.key
  · rw [e4]; exact hr.cs
  · simp only [Rs.Hasher.mergeCvStack, hr.t0, Nat.sub_zero]
    rw [hr.key, hr.cs.flags, popcnt_eq_popcount] at e2
    exact e2

/-- `hasher_push_cv` on the byte array is the model's `pushCv` (the array has room for one more entry whenever the
merged stack has at most 54) -/
theorem push_eq {g : blake3_hasher} {h : Rs.Hasher} (hr : HRel g h) (cv : CV) (t : Nat) (ht : t ≠ 0 ∨ h.stack = [])
    (h54 : min h.stack.length (St.popcount t) ≤ 54) :
    ∃ g', hasher_push_cv (envOf K sd junk) g (bytesOfWords cv) t = .ok g' ∧ HRel g' (h.pushCv K cv t) := by
  unfold hasher_push_cv
  obtain ⟨g1, e1, hr1⟩ := merge_eq K sd junk hr t ht
  simp only [e1, ok_bind, pure_ok]
  have hlen1 : (h.mergeCvStack K t).stack.length = min h.stack.length (St.popcount t) := by
    simp only [Rs.Hasher.mergeCvStack, hr.t0, Nat.sub_zero]
    apply mergeStack_length
    rcases ht with h0 | h0
    · exact Or.inl (popcount_pos t h0)
    · exact Or.inr h0
  generalize hs1 : (h.mergeCvStack K t).stack = s1 at *
  have hl := hr1.st.len
  rw [hs1] at hl
  obtain ⟨rest, hb⟩ := hr1.st.bytes
  rw [hs1] at hb
  have hsz := hr1.st.sized
  have hoff : (((g1.cv_stack_len.toNat : Int)) * (32 : Int)).toNat = (stackBytes s1).length := by
    rw [hl, stackBytes_length]; omega
  rw [idx_ok _ (by omega), hoff]
  simp only [ok_bind]
  have hrl : 32 ≤ rest.length := by
    rw [hb, List.length_append, stackBytes_length] at hsz; omega
  rw [memcpy_ok _ _ _ _ _ (by rw [bytesOfWords_length]; omega) (by rw [hsz, stackBytes_length]; omega)]
  simp only [ok_bind]
  refine ⟨_, rfl, hr1.key, hr1.cs, ⟨?_, ?_, ⟨rest.drop 32, ?_⟩⟩, hr1.t0⟩
  · simp only [hb, List.take_left', List.length_append, List.length_take, List.length_drop, bytesOfWords_length, stackBytes_length] at hsz ⊢
    omega
  · simp only [Rs.Hasher.pushCv, hs1, List.length_append, List.length_cons, List.length_nil]
    rw [UInt8.toNat_add, hl]
    have : (1 : UInt8).toNat = 1 := rfl
    rw [this]; omega
  · simp only [Rs.Hasher.pushCv, hs1, stackBytes_append, stackBytes_one, hb, List.take_left', List.drop_zero]
    rw [List.take_of_length_le (by rw [bytesOfWords_length]; omega), List.drop_append, List.drop_of_length_le (by omega)]
    simp

end

end B3.Proofs.CS
