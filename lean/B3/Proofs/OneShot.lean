/-
`hash_all_at_once` computes the specification's root node, for every input and every SIMD degree.
-/
import B3.Proofs.Chunk
import B3.Tree.Pair
namespace B3.Proofs
open B3 B3.Rs Hs Tr
local notation "K₀" => Kern.spec

theorem parentCV_eq (key : CV) (flags : UInt8) : Rs.parentCV K₀ key flags = Spec.parentCV key flags := by
  funext l r
  unfold Rs.parentCV Spec.parentCV
  rw [chain_eq _ (by simp [parentOutput])]
  rfl

/-- the leaves `compress_subtree_wide` works on are the chaining values of the spec's chunks -/
theorem allLeaves_eq_leafCVs (key : CV) (flags : UInt8) :
    ∀ (n t : Nat) (s : List UInt8), s.length = n →
      allLeaves 10 (leafCV K₀ key flags) t s = Spec.leafCVs key flags t (Spec.chunks s) := by
  intro n
  induction n using Nat.strongRecOn with
  | _ n ih =>
    intro t s hs
    rw [allLeaves, Spec.chunks]
    by_cases h : 2 ^ 10 < s.length
    · have hd : ¬ (s.drop 1024).isEmpty = true := by simp; omega
      rw [dif_pos h, dif_neg hd]
      simp only [Spec.leafCVs, leafCV_eq]
      congr 1
      exact ih (s.drop 1024).length (by simp [List.length_drop]; omega) _ _ rfl
    · have hd : (s.drop 1024).isEmpty = true := by simp; omega
      rw [dif_neg h, dif_pos hd]
      simp [Spec.leafCVs, leafCV_eq]

theorem leafCVs_length (key : CV) (flags : UInt8) (t : Nat) (cs : List (List UInt8)) :
    (Spec.leafCVs key flags t cs).length = cs.length := by
  induction cs generalizing t with
  | nil => rfl
  | cons c cs ih => simp [Spec.leafCVs, ih]

theorem chunks_length (s : List UInt8) : (Spec.chunks s).length = if s.length ≤ 1024 then 1 else nchunks 10 s.length := by
  by_cases h : s.length ≤ 1024
  · rw [if_pos h, Spec.chunks, dif_pos (by simp; omega)]; rfl
  · rw [if_neg h]
    have := allLeaves_eq_leafCVs Spec.IV 0 s.length 0 s rfl
    have hl := allLeaves_length 10 (leafCV K₀ Spec.IV 0) 0 s (by omega)
    rw [this] at hl
    rw [← hl, leafCVs_length]

/-- `hash_all_at_once` = the specification's root node -/
theorem hashAllAtOnce_eq_rootNode (key : CV) (flags : UInt8) (sd j : Nat) (hsd : sd = 2 ^ j) (m : List UInt8) :
    hashAllAtOnce K₀ key flags sd m = Spec.rootNode key flags m := by
  unfold hashAllAtOnce Spec.rootNode
  by_cases h : m.length ≤ 1024
  · rw [if_pos h]
    simp only [chunks_length, if_pos h, Nat.le_refl, if_true]
    exact new_update_output key flags 0 m
  · rw [if_neg h]
    have hc : (Spec.chunks m).length = nchunks 10 m.length := by rw [chunks_length, if_neg h]
    obtain ⟨a, f1, f2, f3, f4, f5, f6⟩ := leftLen_facts 10 m.length (by omega)
    have hgt : ¬ (Spec.chunks m).length ≤ 1 := by rw [hc]; have := Nat.two_pow_pos a; omega
    simp only [hgt, if_false]
    unfold toParentNode
    rw [toPair_spec (Rs.parentCV K₀ key flags) key 10 (leafCV K₀ key flags) sd j hsd 0 m (by omega)]
    simp only [parentOutput, Spec.parentNode, Spec.treeCV, topDown_eq_collapse, parentCV_eq]
    have hp10 : (2 : Nat) ^ 10 = 1024 := by decide
    have hdiv : 2 ^ a * 2 ^ 10 / 2 ^ 10 = 2 ^ a := Nat.mul_div_cancel _ (Nat.two_pow_pos 10)
    have hsplit := allLeaves_split 10 (leafCV K₀ key flags) 0 m a f2
    rw [allLeaves_eq_leafCVs key flags m.length 0 m rfl] at hsplit
    have hpa := Nat.two_pow_pos a
    have hLl : (allLeaves 10 (leafCV K₀ key flags) 0 (m.take (2 ^ a * 2 ^ 10))).length = 2 ^ a := by
      rw [allLeaves_length 10 _ 0 _ (by rw [List.length_take]; omega), List.length_take,
        Nat.min_eq_left (by omega), nchunks_pow]
    have hk : lp2lt (Spec.leafCVs key flags 0 (Spec.chunks m)).length = 2 ^ a := by
      rw [leafCVs_length, hc]
      have : leftLen 10 m.length = lp2lt (nchunks 10 m.length) * 2 ^ 10 := rfl
      rw [this] at f1
      exact Nat.eq_of_mul_eq_mul_right (Nat.two_pow_pos 10) f1
    rw [hk, hsplit, List.take_left' hLl, List.drop_left' hLl, f1, hdiv]

end B3.Proofs

namespace B3.Proofs
open B3 B3.Rs
local notation "K₀" => Kern.spec

theorem bytes_first8 (v : St) : bytesOfWords (first8 v) = (bytesOfWords v).take 32 := by
  have e : v = #v[v[0], v[1], v[2], v[3], v[4], v[5], v[6], v[7],
      v[8], v[9], v[10], v[11], v[12], v[13], v[14], v[15]] := by
    apply Vector.ext
    intro i hi
    match i, hi with
    | 0, _ | 1, _ | 2, _ | 3, _ | 4, _ | 5, _ | 6, _ | 7, _
    | 8, _ | 9, _ | 10, _ | 11, _ | 12, _ | 13, _ | 14, _ | 15, _ => rfl
    | n + 16, h => omega
  rw [e]
  rfl

/-- `Output::root_hash` is the first 32 bytes of the spec's root output block 0 -/
theorem rootHash_eq (o : Spec.Node) (h : o.blen ≤ 64) : rootHash K₀ o = (o.xofBlock 0).take 32 := by
  simp only [rootHash, Kern.spec, Spec.Node.xofBlock, Spec.Node.rootBlock]
  have : (UInt8.ofNat o.blen).toUInt32 = UInt32.ofNat o.blen := by
    apply UInt32.toNat_inj.mp
    simp [UInt8.toNat_toUInt32, UInt8.toNat_ofNat', UInt32.toNat_ofNat']
    omega
  rw [this, bytes_first8]
  rfl

theorem rootNode_blen (key : CV) (flags : UInt8) (m : List UInt8) : (Spec.rootNode key flags m).blen ≤ 64 := by
  unfold Spec.rootNode
  simp only []
  split
  · unfold Spec.chunkNode; exact chunkGo_blen _ _ _ _ _
  · simp [Spec.parentNode]

theorem modeKeyWords_eq (sd j : Nat) (hsd : sd = 2 ^ j) (mode : Spec.Mode) : modeKeyWords K₀ sd mode = mode.key := by
  cases mode with
  | hash => rfl
  | keyed k => rfl
  | derive ctx =>
    simp only [modeKeyWords, Spec.Mode.key, Spec.contextKey]
    rw [hashAllAtOnce_eq_rootNode _ _ sd j hsd, rootHash_eq _ (rootNode_blen _ _ _)]

theorem modeFlags_eq (mode : Spec.Mode) : modeFlags mode = mode.flags := by cases mode <;> rfl

/-- the one-shot functions compute the specification's hash, for every mode, input and SIMD degree -/
theorem oneShot_eq_spec (sd j : Nat) (hsd : sd = 2 ^ j) (mode : Spec.Mode) (m : List UInt8) :
    oneShot K₀ sd mode m = Spec.hash mode m := by
  unfold oneShot Spec.hash Spec.root
  rw [modeKeyWords_eq sd j hsd, modeFlags_eq, hashAllAtOnce_eq_rootNode _ _ sd j hsd,
    rootHash_eq _ (rootNode_blen _ _ _)]

end B3.Proofs
