/-
`Hasher::update_with_join` and the subtree functions of src/lib.rs, as translated statement by statement
from the source (Gen/RsUpdate.lean), equal the hand-written model (Model/Rs.lean) and do not panic on the
states / inputs the source accepts.
-/
import B3.Gen.RsUpdate
import B3.Model.Rs
import B3.Proofs.Skeleton
import B3.Proofs.Regions
import B3.Proofs.Arith
import B3.Proofs.Bridge
import B3.Model.GenK
namespace B3.Proofs.RsUpdate
open B3 B3.Arith B3.Gen.RsUpdate

/-! ### the panic monad and the checked operations -/

theorem bind_ok {α β : Type} (a : α) (f : α → R β) : (R.ok a >>= f) = f a := rfl
theorem bind_panic {α β : Type} (f : α → R β) : ((R.panic : R α) >>= f) = R.panic := rfl
theorem pure_ok {α : Type} (a : α) : (pure a : R α) = R.ok a := rfl

theorem cadd_ok (a b : Nat) (h : a + b < 2 ^ 64) : cadd a b = .ok (a + b) := by unfold cadd W; rw [if_pos h]
theorem csub_ok (a b : Nat) (h : b ≤ a) : csub a b = .ok (a - b) := by unfold csub; rw [if_pos h]
theorem cmul_ok (a b : Nat) (h : a * b < 2 ^ 64) : cmul a b = .ok (a * b) := by unfold cmul W; rw [if_pos h]
theorem cdiv_ok (a b : Nat) (h : b ≠ 0) : cdiv a b = .ok (a / b) := by unfold cdiv; rw [if_neg h]
theorem cadd_panic (a b : Nat) (h : ¬ a + b < 2 ^ 64) : cadd a b = .panic := by unfold cadd W; rw [if_neg h]
theorem csub_panic (a b : Nat) (h : ¬ b ≤ a) : csub a b = .panic := by unfold csub; rw [if_neg h]
theorem cmul_panic (a b : Nat) (h : ¬ a * b < 2 ^ 64) : cmul a b = .panic := by unfold cmul W; rw [if_neg h]

theorem sliceTo_ok {α : Type} (s : List α) (n : Nat) (h : n ≤ s.length) : sliceTo s n = .ok (s.take n) := by
  unfold sliceTo; rw [if_pos h]
theorem sliceFrom_ok {α : Type} (s : List α) (n : Nat) (h : n ≤ s.length) : sliceFrom s n = .ok (s.drop n) := by
  unfold sliceFrom; rw [if_pos h]

theorem getIdx_pair0 {α : Type} (a b : α) : getIdx [a, b] 0 = .ok a := rfl
theorem getIdx_pair1 {α : Type} (a b : α) : getIdx [a, b] 1 = .ok b := rfl

theorem two_pow_ten : (2 : Nat) ^ 10 = 1024 := by decide

/-- `omega` of this Lean version overflows its recursion depth on `x * 1024` (literal second factor ≥ 256), not on
`1024 * x`: commute first -/
macro "omega1" : tactic =>
  `(tactic| ((try simp only [Nat.mul_comm _ 1024, two_pow_ten] at *); omega))

/-! ### `ChunkState::update` keeps the counter and the flags (any kernel) -/

section chunk
variable (K : Kern)

theorem blockLoop_t_flags (cs : Rs.ChunkState) (input : List UInt8) :
    (cs.blockLoop K input).1.t = cs.t ∧ (cs.blockLoop K input).1.flags = cs.flags := by
  induction hn : input.length using Nat.strongRecOn generalizing cs input with
  | _ n ih =>
    rw [Rs.ChunkState.blockLoop]
    by_cases h : 64 < input.length
    · rw [dif_pos h]
      have := ih (input.drop 64).length (by rw [List.length_drop]; omega) (cs.compressBlock K (input.take 64)) (input.drop 64) rfl
      exact this
    · rw [dif_neg h]; exact ⟨rfl, rfl⟩

theorem update_t_flags (cs : Rs.ChunkState) (input : List UInt8) :
    (cs.update K input).t = cs.t ∧ (cs.update K input).flags = cs.flags := by
  unfold Rs.ChunkState.update
  simp only []
  split
  · split
    · exact blockLoop_t_flags K _ _
    · exact blockLoop_t_flags K _ _
  · exact blockLoop_t_flags K _ _

end chunk

/-! ### the environment built from the model -/

/-- The model's `ChunkState`, `Output::chaining_value`, `parent_node_output` and `Output` constructor as the environment
of the translated code. Left open: the platform (`hash_many`, the SIMD degree `sd`, the MAX_SIMD_DEGREE constants `M`,
`M2`; `update_with_join` does not use them) and the `compress_subtree_to_parent_node` that `update_with_join` calls
(`tpn`; the subtree functions do not use it). -/
def modelEnv (K : Kern) (sd : Nat)
    (hm : Nat → List (List UInt8) → CV → Nat → Bool → UInt8 → UInt8 → UInt8 → List CV → R (List CV)) (M M2 : Nat)
    (tpn : List UInt8 → CV → Nat → UInt8 → R (List CV)) :
    Env Rs.ChunkState Spec.Node where
  cs_new := Rs.ChunkState.new
  cs_update := Rs.ChunkState.update K
  cs_output := Rs.ChunkState.output
  cs_count := Rs.ChunkState.count
  cs_chunk_counter := fun cs => cs.t
  cs_flags := fun cs => cs.flags
  cs_set_chunk_counter := fun cs t => { cs with t := t }
  chaining_value := Rs.chain K
  parent_node_output := fun l r key flags => Rs.parentOutput key flags l r
  mk_output := fun key block blen t flags =>
    { cv := key, block := catCV (block.getD 0 key) (block.getD 1 key), blen := blen.toNat, t := t, flags := flags }
  compress_subtree_to_parent_node := tpn
  hash_many := hm
  simd_degree := sd
  MAX_SIMD_DEGREE := M
  MAX_SIMD_DEGREE_OR_2 := M2

/-- the contract `update_with_join` needs of `compress_subtree_to_parent_node`: on more than one chunk of input (shorter
than 2^64 bytes, chunk counters not wrapping) it returns the model's pair -/
def TpnSpec (K : Kern) (sd : Nat) (tpn : List UInt8 → CV → Nat → UInt8 → R (List CV)) : Prop :=
  ∀ (s : List UInt8) (key : CV) (t : Nat) (fl : UInt8), 1024 < s.length → s.length < 2 ^ 64 →
    t + Hs.nchunks 10 s.length ≤ 2 ^ 64 →
    tpn s key t fl = .ok [(Rs.toParentNode K key fl sd t s).1, (Rs.toParentNode K key fl sd t s).2]

/-- the model's `toParentNode` itself -/
def modelTpn (K : Kern) (sd : Nat) : List UInt8 → CV → Nat → UInt8 → R (List CV) :=
  fun s key t fl => .ok [(Rs.toParentNode K key fl sd t s).1, (Rs.toParentNode K key fl sd t s).2]

theorem modelTpn_spec (K : Kern) (sd : Nat) : TpnSpec K sd (modelTpn K sd) := fun _ _ _ _ _ _ _ => rfl

section part1
variable (K : Kern) (sd : Nat)
variable (hm : Nat → List (List UInt8) → CV → Nat → Bool → UInt8 → UInt8 → UInt8 → List CV → R (List CV)) (M M2 : Nat)
variable (tpn : List UInt8 → CV → Nat → UInt8 → R (List CV))

local notation "E₀" => modelEnv K sd hm M M2 tpn

theorem E_new : (E₀).cs_new = Rs.ChunkState.new := rfl
theorem E_update : (E₀).cs_update = Rs.ChunkState.update K := rfl
theorem E_output : (E₀).cs_output = Rs.ChunkState.output := rfl
theorem E_count (cs : Rs.ChunkState) : (E₀).cs_count cs = cs.count := rfl
theorem E_counter (cs : Rs.ChunkState) : (E₀).cs_chunk_counter cs = cs.t := rfl
theorem E_flags (cs : Rs.ChunkState) : (E₀).cs_flags cs = cs.flags := rfl
theorem E_set (cs : Rs.ChunkState) (t : Nat) : (E₀).cs_set_chunk_counter cs t = { cs with t := t } := rfl
theorem E_chain : (E₀).chaining_value = Rs.chain K := rfl
theorem E_pno (l r key : CV) (fl : UInt8) : (E₀).parent_node_output l r key fl = Rs.parentOutput key fl l r := rfl
theorem E_tpn : (E₀).compress_subtree_to_parent_node = tpn := rfl
theorem E_sd : (E₀).simd_degree = sd := rfl
theorem E_M : (E₀).MAX_SIMD_DEGREE = M := rfl
theorem E_M2 : (E₀).MAX_SIMD_DEGREE_OR_2 = M2 := rfl
theorem E_hm : (E₀).hash_many = hm := rfl

/-- the shrink loop inside `update_with_join`, started on a power of two with enough fuel, is the model's `shrink` -/
theorem loop2_eq (fuel e csf : Nat) (hf : e < fuel) :
    update_with_join_loop2 fuel (2 ^ e) csf = .ok (Ar.shrink (2 ^ e) csf) := by
  induction fuel generalizing e with
  | zero => omega
  | succ fuel ih =>
    have hp := Nat.two_pow_pos e
    rw [update_with_join_loop2, Ar.shrink]
    simp only [csub_ok _ 1 (show 1 ≤ 2 ^ e by omega), bind_ok]
    by_cases hm : (2 ^ e - 1) &&& csf ≠ 0
    · rw [if_pos hm, dif_pos hm]
      cases e with
      | zero => simp at hm
      | succ e =>
        simp only [cdiv_ok _ 2 (by omega), bind_ok, half_pow_succ]
        exact ih e (by omega)
    · rw [if_neg hm, dif_neg hm]; rfl

/-- the model's multi-chunk loop on the view of a hasher -/
abbrev mloop (key : CV) (flags : UInt8) (t0 : Nat) (cc : Nat) (stack : List CV) (input : List UInt8) :
    Hs.H CV UInt8 × List UInt8 :=
  Hs.loop (Rs.parentCV K key flags) key 10 (Rs.leafCS K key flags) (Rs.toParentNode K key flags sd)
    { stack := stack, cc := cc, tail := [], t0 := t0 } input

theorem setT_self (cs : Rs.ChunkState) : ({ cs with t := cs.t } : Rs.ChunkState) = cs := by cases cs; rfl

/-- **the `while input.len() > CHUNK_LEN` loop**, as translated, is the model's `Hs.loop` (`fl`, `cc` name the flags
and the counter of the chunk state, so that the statement can be instantiated without unfolding record updates) -/
theorem loop_eq (htpn : TpnSpec K sd tpn) (fuel : Nat) : ∀ (cs : Rs.ChunkState) (stack : List CV) (input : List UInt8) (key : CV) (t0 : Nat)
    (fl : UInt8) (cc : Nat), cs.flags = fl → cs.t = cc →
    input.length < fuel → t0 ≤ cc → (cc = t0 → stack = []) → input.length < 2 ^ 63 →
    cc * 1024 + input.length < 2 ^ 64 →
    update_with_join_loop E₀ fuel cs stack input key t0 =
      .ok ({ cs with t := (mloop K sd key fl t0 cc stack input).1.cc },
           (mloop K sd key fl t0 cc stack input).1.stack, (mloop K sd key fl t0 cc stack input).2) ∧
    cc ≤ (mloop K sd key fl t0 cc stack input).1.cc ∧
    ((mloop K sd key fl t0 cc stack input).1.cc = t0 → (mloop K sd key fl t0 cc stack input).1.stack = []) ∧
    (mloop K sd key fl t0 cc stack input).1.cc * 1024 + (mloop K sd key fl t0 cc stack input).2.length
      = cc * 1024 + input.length := by
  induction fuel with
  | zero => intro _ _ _ _ _ _ _ _ _ h; omega
  | succ fuel ih =>
    intro cs stack input key t0 fl cc hfl hcc hf ht0 hst hlen htot
    subst hfl hcc
    by_cases hn : 1024 < input.length
    · have hc1 : cs.t * 1024 < 2 ^ 64 := by omega1
      have hn' : 2 ^ 10 < input.length := by rw [two_pow_ten]; exact hn
      obtain ⟨k, hk1, hk2, hk3⟩ := Hs.subtree_len_spec 10 cs.t input.length hn'
      have hpk := Nat.two_pow_pos k
      have hst' : 0 < Ar.shrink (Ar.lp2le input.length) (cs.t * 2 ^ 10) ∧
          Ar.shrink (Ar.lp2le input.length) (cs.t * 2 ^ 10) ≤ input.length := by
        rw [hk1]; exact ⟨Nat.mul_pos hpk (by decide), hk2⟩
      have hstep := Hs.loop_step (Rs.parentCV K key cs.flags) key 10 (Rs.leafCS K key cs.flags)
        (Rs.toParentNode K key cs.flags sd) { stack := stack, cc := cs.t, tail := [], t0 := t0 } input hn' hst'
      rw [hk1, Nat.mul_div_cancel _ (show 0 < 2 ^ 10 by decide)] at hstep
      have hsub : Ar.shrink (2 ^ Nat.log2 input.length) (cs.t * 1024) = 2 ^ k * 1024 := by
        have := hk1; unfold Ar.lp2le at this; rw [two_pow_ten] at this; exact this
      rw [two_pow_ten] at hk2 hstep
      have hlog : Nat.log2 input.length < 63 := (Nat.log2_lt (by omega)).mpr hlen
      have hdvd : 2 ^ k ≤ cs.t ∨ cs.t = 0 := by
        rcases Nat.eq_zero_or_pos cs.t with h0 | h0
        · exact Or.inr h0
        · exact Or.inl (Nat.le_of_dvd h0 hk3)
      have h64 := loop2_eq 64 (Nat.log2 input.length) (cs.t * 1024) (by omega)
      rw [hsub] at h64
      rw [update_with_join_loop, if_pos (show input.length > 1024 from hn)]
      simp only [E_new, E_update, E_output, E_count, E_counter, E_flags, E_set, E_chain, E_pno, E_tpn,
        rs_largest_power_of_two_leq_spec input.length (by omega) hlen, bind_ok, cmul_ok cs.t 1024 hc1]
      rw [h64]
      simp only [bind_ok, cdiv_ok _ 1024 (by omega), Nat.mul_div_cancel _ (show 0 < 1024 by omega)]
      have hpush : t0 < cs.t ∨ stack = [] := by
        by_cases he : cs.t = t0
        · exact Or.inr (hst he)
        · exact Or.inl (by omega)
      cases k with
      | zero =>
        simp only [Nat.pow_zero, Nat.one_mul] at hk2 hstep ⊢
        rw [if_pos (Nat.le_refl _)] at hstep ⊢
        simp only [sliceTo_ok input 1024 (by omega), bind_ok]
        rw [push_cv_eq _ _ key stack t0 _ cs.t ht0 hpush]
        simp only [bind_ok, cadd_ok cs.t 1 (by omega1), sliceFrom_ok input 1024 (by omega)]
        have hm' : mloop K sd key cs.flags t0 cs.t stack input = mloop K sd key cs.flags t0 (cs.t + 1)
            (Hs.mergeStack (Rs.parentCV K key cs.flags) key (St.popcount (cs.t - t0)) stack
              ++ [Rs.leafCS K key cs.flags cs.t (input.take 1024)]) (input.drop 1024) := hstep
        rw [hm']
        obtain ⟨i1, i2, i3, i4⟩ := ih { cs with t := cs.t + 1 }
          (Hs.mergeStack (Rs.parentCV K key cs.flags) key (St.popcount (cs.t - t0)) stack
              ++ [Rs.leafCS K key cs.flags cs.t (input.take 1024)]) (input.drop 1024) key t0 cs.flags (cs.t + 1) rfl rfl
          (by rw [List.length_drop]; omega) (by omega) (by intro h; omega)
          (by rw [List.length_drop]; omega) (by rw [List.length_drop]; omega1)
        refine ⟨i1, by omega, i3, ?_⟩
        rw [i4, List.length_drop]; omega1
      | succ k =>
        have hpk' := Nat.two_pow_pos k
        have hgt : ¬ 2 ^ (k + 1) * 1024 ≤ 1024 := by
          have : 2 ^ (k + 1) = 2 * 2 ^ k := pow_succ_two k
          omega1
        rw [if_neg hgt] at hstep ⊢
        rw [half_pow_succ] at hstep
        simp only [sliceTo_ok input _ hk2, bind_ok]
        rw [htpn (input.take (2 ^ (k + 1) * 1024)) key cs.t cs.flags
          (by rw [List.length_take, Nat.min_eq_left hk2]; omega1)
          (by rw [List.length_take, Nat.min_eq_left hk2]; omega1)
          (by rw [List.length_take, Nat.min_eq_left hk2, ← two_pow_ten, Hs.nchunks_pow]
              have : 2 ^ (k + 1) * 1024 ≤ input.length := hk2
              omega1)]
        simp only [bind_ok, getIdx_pair0, getIdx_pair1]
        rw [push_cv_eq _ _ key stack t0 _ cs.t ht0 hpush]
        simp only [bind_ok, cdiv_ok _ 2 (by omega), half_pow_succ, cadd_ok cs.t (2 ^ k) (by
          have : 2 ^ (k + 1) = 2 * 2 ^ k := pow_succ_two k
          omega1)]
        rw [push_cv_eq _ _ key _ t0 _ (cs.t + 2 ^ k) (by omega) (Or.inl (by omega))]
        simp only [bind_ok, cadd_ok cs.t (2 ^ (k + 1)) (by omega1), sliceFrom_ok input _ hk2]
        have hm' : mloop K sd key cs.flags t0 cs.t stack input = mloop K sd key cs.flags t0 (cs.t + 2 ^ (k + 1))
            (Hs.mergeStack (Rs.parentCV K key cs.flags) key (St.popcount (cs.t + 2 ^ k - t0))
              (Hs.mergeStack (Rs.parentCV K key cs.flags) key (St.popcount (cs.t - t0)) stack
                ++ [(Rs.toParentNode K key cs.flags sd cs.t (input.take (2 ^ (k + 1) * 1024))).1])
              ++ [(Rs.toParentNode K key cs.flags sd cs.t (input.take (2 ^ (k + 1) * 1024))).2])
            (input.drop (2 ^ (k + 1) * 1024)) := hstep
        rw [hm']
        obtain ⟨i1, i2, i3, i4⟩ := ih { cs with t := cs.t + 2 ^ (k + 1) }
          (Hs.mergeStack (Rs.parentCV K key cs.flags) key (St.popcount (cs.t + 2 ^ k - t0))
              (Hs.mergeStack (Rs.parentCV K key cs.flags) key (St.popcount (cs.t - t0)) stack
                ++ [(Rs.toParentNode K key cs.flags sd cs.t (input.take (2 ^ (k + 1) * 1024))).1])
              ++ [(Rs.toParentNode K key cs.flags sd cs.t (input.take (2 ^ (k + 1) * 1024))).2])
          (input.drop (2 ^ (k + 1) * 1024)) key t0 cs.flags (cs.t + 2 ^ (k + 1)) rfl rfl
          (by rw [List.length_drop]; omega1) (by omega) (by intro h; omega)
          (by rw [List.length_drop]; omega) (by rw [List.length_drop]; omega1)
        refine ⟨i1, by omega, i3, ?_⟩
        rw [i4, List.length_drop]; omega1

    · rw [update_with_join_loop, if_neg (by omega)]
      have hstop := Hs.loop_stop (Rs.parentCV K key cs.flags) key 10 (Rs.leafCS K key cs.flags)
        (Rs.toParentNode K key cs.flags sd) { stack := stack, cc := cs.t, tail := [], t0 := t0 } input (by rw [two_pow_ten]; exact hn)
      simp only [mloop, hstop]
      exact ⟨rfl, Nat.le_refl _, hst, trivial⟩

theorem updateWhole_def (h : Rs.Hasher) (x : List UInt8) :
    h.updateWhole K sd x =
      if (!(mloop K sd h.key h.cs.flags h.t0 h.cs.t h.stack x).2.isEmpty) = true then
        Rs.Hasher.mergeCvStack K
          { h with stack := (mloop K sd h.key h.cs.flags h.t0 h.cs.t h.stack x).1.stack,
                   cs := Rs.ChunkState.update K { h.cs with t := (mloop K sd h.key h.cs.flags h.t0 h.cs.t h.stack x).1.cc }
                      (mloop K sd h.key h.cs.flags h.t0 h.cs.t h.stack x).2 }
          (Rs.ChunkState.update K { h.cs with t := (mloop K sd h.key h.cs.flags h.t0 h.cs.t h.stack x).1.cc }
                      (mloop K sd h.key h.cs.flags h.t0 h.cs.t h.stack x).2).t
      else { h with stack := (mloop K sd h.key h.cs.flags h.t0 h.cs.t h.stack x).1.stack,
                    cs := { h.cs with t := (mloop K sd h.key h.cs.flags h.t0 h.cs.t h.stack x).1.cc } } := rfl

/-- phases 2 and 3 of `update_with_join` (the code after the early return of phase 1) are the model's `updateWhole` -/
theorem rest1_eq (htpn : TpnSpec K sd tpn) (h : Rs.Hasher) (x : List UInt8) (ht0 : h.t0 ≤ h.cs.t) (hst : h.cs.t = h.t0 → h.stack = [])
    (hlen : x.length < 2 ^ 63) (htot : h.cs.t * 1024 + x.length < 2 ^ 64) :
    update_with_join_rest1 E₀ h.key h.cs h.t0 h.stack x
      = .ok ((h.updateWhole K sd x).cs, (h.updateWhole K sd x).stack) := by
  obtain ⟨l1, l2, l3, l4⟩ := loop_eq K sd hm M M2 tpn htpn (x.length + 1) h.cs h.stack x h.key h.t0 h.cs.flags h.cs.t rfl rfl
    (by omega) ht0 hst hlen htot
  rw [updateWhole_def]
  unfold update_with_join_rest1
  rw [l1]
  simp only [bind_ok]
  generalize mloop K sd h.key h.cs.flags h.t0 h.cs.t h.stack x = L at l2 l3 l4 ⊢
  obtain ⟨hh, rem⟩ := L
  simp only at l2 l3 l4 ⊢
  by_cases hr : (!rem.isEmpty) = true
  · rw [if_pos hr, if_pos hr]
    simp only [E_update, E_counter, E_flags, E_chain, E_pno, bind_ok, pure_ok]
    have ht := (update_t_flags K ({ h.cs with t := hh.cc } : Rs.ChunkState) rem).1
    rw [merge_cv_stack_eq _ _ h.key hh.stack h.t0 _ (by rw [ht]; show h.t0 ≤ hh.cc; omega)
      (by rw [ht]; show h.t0 < hh.cc ∨ _
          by_cases he : hh.cc = h.t0
          · exact Or.inr (l3 he)
          · exact Or.inl (by omega))]
    rfl
  · rw [if_neg hr, if_neg hr]
    rfl

theorem tz_eq (n : Nat) (h : n ≠ 0) : Rs.tz n = Arith.tz n := by
  induction n using Nat.strongRecOn with
  | _ n ih =>
    rw [Rs.tz, Arith.tz, dif_neg h, dif_neg h]
    by_cases h1 : n % 2 = 1
    · rw [if_pos h1, if_pos h1]
    · rw [if_neg h1, if_neg h1, ih (n / 2) (by omega) (by omega)]

/-- `hazmat::max_subtree_len(initial_chunk_counter * CHUNK_LEN)` is the model's `maxSubtreeLen` -/
theorem max_eval (t0 : Nat) (h : t0 * 1024 < 2 ^ 64) :
    Gen.Rs.max_subtree_len (t0 * 1024) = .ok (Rs.maxSubtreeLen t0) := by
  rw [rs_max_subtree_len_spec _ h]
  unfold Rs.maxSubtreeLen
  by_cases h0 : t0 = 0
  · subst h0; rfl
  · rw [if_neg (by omega1), if_pos (by omega1), if_neg h0, Nat.mul_div_cancel _ (by omega), tz_eq t0 h0]

/-- `Hasher::count` in checked u64 arithmetic is the model's `count?` -/
theorem count_eval (h : Rs.Hasher) :
    hasher_count E₀ h.cs h.t0 = match h.count? with | some c => .ok c | none => .panic := by
  unfold hasher_count Rs.Hasher.count?
  simp only [E_counter, E_count]
  by_cases h1 : h.t0 ≤ h.cs.t
  · rw [csub_ok _ _ h1]
    simp only [bind_ok]
    by_cases h2 : (h.cs.t - h.t0) * 1024 < 2 ^ 64
    · rw [cmul_ok _ _ h2]
      simp only [bind_ok]
      by_cases h3 : (h.cs.t - h.t0) * 1024 + h.cs.count < 2 ^ 64
      · rw [cadd_ok _ _ h3, if_pos ⟨h1, h3⟩]
      · rw [cadd_panic _ _ h3, if_neg (fun hh => h3 hh.2)]
    · rw [cmul_panic _ _ h2, if_neg (fun hh => h2 (Nat.lt_of_le_of_lt (Nat.le_add_right _ _) hh.2))]; rfl
  · rw [csub_panic _ _ h1, if_neg (fun hh => h1 hh.1)]; rfl

/-- what the source needs of the hasher state and the input for `update_with_join` to run without overflow: the
representation facts `initial_chunk_counter ≤ chunk_counter` (with an empty CV stack when they are equal) and at most one
chunk buffered, the input shorter than 2^63 bytes (slices are at most `isize::MAX` long), and the byte position reached
(counted from the start of the tree) representable in `u64` -/
structure UpdPre (h : Rs.Hasher) (x : List UInt8) : Prop where
  t0_le : h.t0 ≤ h.cs.t
  stack_nil : h.cs.t = h.t0 → h.stack = []
  count_le : h.cs.count ≤ 1024
  len_fits : x.length < 2 ^ 63
  total_fits : h.cs.t * 1024 + h.cs.count + x.length < 2 ^ 64

/-- the tail of `update_with_join` (after the assertion) is the model's `updateOk` -/
theorem body_eq (htpn : TpnSpec K sd tpn) (h : Rs.Hasher) (x : List UInt8) (pre : UpdPre h x) :
    (if (E₀).cs_count h.cs > 0 then do
        let t19 ← csub 1024 ((E₀).cs_count h.cs)
        let want := t19
        let take := (min want x.length)
        let t20 ← sliceTo x take
        let chunk_state := (E₀).cs_update h.cs t20
        let t21 ← sliceFrom x take
        let input := t21
        if (!input.isEmpty) = true then do
          let chunk_cv := ((E₀).chaining_value ((E₀).cs_output chunk_state))
          let cv_stack ← Gen.Rs.Skel.push_cv (fun l r => (E₀).parent_node_output l r h.key ((E₀).cs_flags chunk_state))
            (E₀).chaining_value h.stack h.t0 chunk_cv ((E₀).cs_chunk_counter chunk_state)
          let t22 ← cadd ((E₀).cs_chunk_counter chunk_state) 1
          let chunk_state := ((E₀).cs_new h.key t22 ((E₀).cs_flags chunk_state))
          update_with_join_rest1 E₀ h.key chunk_state h.t0 cv_stack input
        else do
          pure (chunk_state, h.stack)
      else do
        update_with_join_rest1 E₀ h.key h.cs h.t0 h.stack x)
      = .ok ((h.updateOk K sd x).cs, (h.updateOk K sd x).stack) := by
  obtain ⟨p1, p2, p3, p4, p5⟩ := pre
  unfold Rs.Hasher.updateOk
  simp only [E_count, E_new, E_update, E_output, E_counter, E_flags, E_chain, E_pno, gt_iff_lt]
  by_cases hc : 0 < h.cs.count
  · rw [if_pos hc, if_pos hc]
    simp only [csub_ok 1024 _ p3, bind_ok, sliceTo_ok x _ (Nat.min_le_right _ _), sliceFrom_ok x _ (Nat.min_le_right _ _)]
    have htf := update_t_flags K h.cs (x.take (min (1024 - h.cs.count) x.length))
    by_cases hr : (!(x.drop (min (1024 - h.cs.count) x.length)).isEmpty) = true
    · rw [if_pos hr, if_pos hr]
      have hdl : 0 < (x.drop (min (1024 - h.cs.count) x.length)).length := by
        cases hx : x.drop (min (1024 - h.cs.count) x.length) with
        | nil => rw [hx] at hr; simp at hr
        | cons a r => simp
      rw [List.length_drop] at hdl
      have hmin : min (1024 - h.cs.count) x.length = 1024 - h.cs.count := by omega
      rw [push_cv_eq _ _ h.key h.stack h.t0 _ _ (by rw [htf.1]; exact p1)
        (by rw [htf.1]
            by_cases he : h.cs.t = h.t0
            · exact Or.inr (p2 he)
            · exact Or.inl (by omega))]
      simp only [bind_ok]
      rw [cadd_ok _ 1 (by rw [htf.1]; omega1)]
      simp only [bind_ok]
      have := rest1_eq K sd hm M M2 tpn htpn
        { key := h.key,
          cs := Rs.ChunkState.new h.key ((h.cs.update K (x.take (min (1024 - h.cs.count) x.length))).t + 1)
                  (h.cs.update K (x.take (min (1024 - h.cs.count) x.length))).flags,
          t0 := h.t0,
          stack := Hs.mergeStack (fun l r => Rs.chain K (Rs.parentOutput h.key
              (h.cs.update K (x.take (min (1024 - h.cs.count) x.length))).flags l r)) h.key
            (St.popcount ((h.cs.update K (x.take (min (1024 - h.cs.count) x.length))).t - h.t0)) h.stack ++
              [Rs.chain K (h.cs.update K (x.take (min (1024 - h.cs.count) x.length))).output] }
        (x.drop (min (1024 - h.cs.count) x.length))
        (by show h.t0 ≤ _ + 1; rw [htf.1]; omega)
        (by show _ + 1 = h.t0 → _; rw [htf.1]; intro he; omega)
        (by rw [List.length_drop]; omega)
        (by show (_ + 1) * 1024 + _ < _; rw [htf.1, List.length_drop, hmin]; omega1)
      exact this
    · rw [if_neg hr, if_neg hr]; rfl
  · rw [if_neg hc, if_neg hc]
    exact rest1_eq K sd hm M M2 tpn htpn h x p1 p2 p4 (by omega1)

theorem updateWhole_key_t0 (h : Rs.Hasher) (x : List UInt8) :
    (h.updateWhole K sd x).key = h.key ∧ (h.updateWhole K sd x).t0 = h.t0 := by
  rw [updateWhole_def]
  split <;> exact ⟨rfl, rfl⟩

theorem updateOk_key_t0 (h : Rs.Hasher) (x : List UInt8) :
    (h.updateOk K sd x).key = h.key ∧ (h.updateOk K sd x).t0 = h.t0 := by
  unfold Rs.Hasher.updateOk
  split
  · simp only []
    split
    · exact updateWhole_key_t0 K sd _ _
    · exact ⟨rfl, rfl⟩
  · exact updateWhole_key_t0 K sd _ _

theorem ite_some {α : Type} (b : Bool) (a a' : α) (h : (if b = true then some a else none) = some a') : a' = a := by
  cases b <;> simp at h
  exact h.symm

theorem assertTrue_true : assertTrue true = .ok () := rfl
theorem assertTrue_false : assertTrue false = .panic := rfl

/-- both directions at once: the head of `update_with_join` (offset, `max_subtree_len`, `self.count()`, the assertion)
passes exactly when the model's check does -/
theorem uwj_main (htpn : TpnSpec K sd tpn) (h : Rs.Hasher) (x : List UInt8) :
    (h.update K sd x = none → update_with_join E₀ h.key h.cs h.t0 h.stack x = .panic) ∧
    (UpdPre h x → ∀ h', h.update K sd x = some h' →
      update_with_join E₀ h.key h.cs h.t0 h.stack x = .ok (h'.cs, h'.stack)) := by
  unfold update_with_join
  by_cases hfit : h.t0 * 1024 < 2 ^ 64
  · rw [cmul_ok _ _ hfit]
    simp only [bind_ok]
    rw [max_eval _ hfit]
    simp only [bind_ok]
    cases hM : Rs.maxSubtreeLen h.t0 with
    | none =>
      have hu : h.update K sd x = some (h.updateOk K sd x) := by
        unfold Rs.Hasher.update; simp [hM]
      rw [hu]
      simp only [pure_ok, bind_ok]
      refine ⟨fun hh => by simp at hh, fun pre h' he => ?_⟩
      simp only [Option.some.injEq] at he
      subst he
      exact body_eq K sd hm M M2 tpn htpn h x pre
    | some mx =>
      simp only []
      rw [count_eval]
      cases hc : h.count? with
      | none =>
        have hu : h.update K sd x = none := by
          unfold Rs.Hasher.update; simp [hM, hc]
        rw [hu]
        simp only [bind_panic]
        exact ⟨by first | trivial | exact fun _ => rfl, fun pre h' he => by simp at he⟩
      | some c =>
        simp only [bind_ok]
        by_cases hle : c ≤ mx
        · rw [csub_ok _ _ hle]
          simp only [bind_ok]
          by_cases hx : x.length ≤ mx - c
          · have hu : h.update K sd x = some (h.updateOk K sd x) := by
              unfold Rs.Hasher.update; simp [hM, hc, hle, hx]
            rw [hu, decide_eq_true hx, assertTrue_true]
            simp only [pure_ok, bind_ok]
            refine ⟨fun hh => by simp at hh, fun pre h' he => ?_⟩
            simp only [Option.some.injEq] at he
            subst he
            exact body_eq K sd hm M M2 tpn htpn h x pre
          · have hu : h.update K sd x = none := by
              unfold Rs.Hasher.update; simp [hM, hc, hx]
            rw [hu, decide_eq_false hx, assertTrue_false]
            simp only [bind_panic]
            exact ⟨by first | trivial | exact fun _ => rfl, fun pre h' he => by simp at he⟩
        · have hu : h.update K sd x = none := by
            unfold Rs.Hasher.update; simp [hM, hc, hle]
          rw [hu, csub_panic _ _ hle]
          simp only [bind_panic]
          exact ⟨by first | trivial | exact fun _ => rfl, fun pre h' he => by simp at he⟩
  · rw [cmul_panic _ _ hfit]
    refine ⟨fun _ => rfl, fun pre => ?_⟩
    exfalso
    obtain ⟨p1, _, _, _, p5⟩ := pre
    have : h.t0 * 1024 ≤ h.cs.t * 1024 := Nat.mul_le_mul_right _ p1
    omega1

end part1

/-! ### part 2: vocabulary lemmas (chunks_exact, the `for` loops, bytes of chaining values) -/

theorem chunksExact_step {α : Type} (n : Nat) (s : List α) (h : 0 < n ∧ n ≤ s.length) :
    chunksExact n s = (s.take n :: (chunksExact n (s.drop n)).1, (chunksExact n (s.drop n)).2) := by
  rw [chunksExact]; simp only [h, and_self, dif_pos]

theorem chunksExact_stop {α : Type} (n : Nat) (s : List α) (h : ¬ (0 < n ∧ n ≤ s.length)) :
    chunksExact n s = ([], s) := by
  rw [chunksExact]; rw [dif_neg h]

/-- every chunk has the chunk size; the remainder is shorter; nothing is lost -/
theorem chunksExact_facts {α : Type} (n : Nat) (hn : 0 < n) (s : List α) :
    (∀ c ∈ (chunksExact n s).1, c.length = n) ∧ (chunksExact n s).2.length < n ∧
    (chunksExact n s).1.length = s.length / n ∧ (chunksExact n s).2.length = s.length % n ∧
    (chunksExact n s).1.flatten ++ (chunksExact n s).2 = s := by
  induction hl : s.length using Nat.strongRecOn generalizing s with
  | _ l ih =>
    subst hl
    by_cases h : n ≤ s.length
    · rw [chunksExact_step n s ⟨hn, h⟩]
      obtain ⟨a1, a2, a3, a4, a5⟩ := ih (s.drop n).length (by rw [List.length_drop]; omega) (s.drop n) rfl
      refine ⟨?_, a2, ?_, ?_, ?_⟩
      · intro c hc
        simp only [List.mem_cons] at hc
        rcases hc with rfl | hc
        · rw [List.length_take]; omega
        · exact a1 c hc
      · simp only [List.length_cons, a3, List.length_drop]
        have : s.length = (s.length - n) + n := by omega
        conv => rhs; rw [this, Nat.add_div_right _ hn]
      · rw [a4, List.length_drop]
        have : s.length = (s.length - n) + n := by omega
        conv => rhs; rw [this, Nat.add_mod_right]
      · simp only [List.flatten_cons, List.append_assoc, a5, List.take_append_drop]
    · rw [chunksExact_stop n s (fun hh => h hh.2)]
      refine ⟨by simp, by simp; omega, ?_, ?_, by simp⟩
      · simp; exact (Nat.div_eq_of_lt (by omega)).symm
      · simp; exact (Nat.mod_eq_of_lt (by omega)).symm

theorem arrayRef_whole {α : Type} (s : List α) (n : Nat) (h : s.length = n) : arrayRef s 0 n = .ok s := by
  unfold arrayRef
  rw [if_pos (by omega)]
  simp [List.take_of_length_le (Nat.le_of_eq h)]

theorem pushCap_ok {α : Type} (cap : Nat) (v : List α) (x : α) (h : v.length < cap) : pushCap cap v x = .ok (v ++ [x]) := by
  unfold pushCap; rw [if_pos h]

theorem copyInto_ok {α : Type} (dst : List α) (off len : Nat) (src : List α) (h1 : off + len ≤ dst.length)
    (h2 : src.length = len) : copyInto dst off len src = .ok (dst.take off ++ src ++ dst.drop (off + len)) := by
  unfold copyInto; rw [if_pos ⟨h1, h2⟩]

theorem setIdx_ok {α : Type} (dst : List α) (i : Nat) (x : α) (h : i < dst.length) : setIdx dst i x = .ok (dst.set i x) := by
  unfold setIdx; rw [if_pos h]

theorem splitAt_ok {α : Type} (s : List α) (n : Nat) (h : n ≤ s.length) : splitAt s n = .ok (s.take n, s.drop n) := by
  unfold splitAt; rw [if_pos h]

/-! bytes of words and back -/

theorem wordAt_cons4 (b0 b1 b2 b3 : UInt8) (rest : List UInt8) (i : Nat) :
    wordAt (b0 :: b1 :: b2 :: b3 :: rest) (i + 1) = wordAt rest i := by
  unfold wordAt
  have e : ∀ k, 4 * (i + 1) + k = (4 * i + k) + 4 := by intro k; omega
  have e0 : 4 * (i + 1) = 4 * i + 4 := by omega
  rw [e 1, e 2, e 3, e0]
  simp only [List.getD_eq_getElem?_getD, List.getElem?_cons_succ]

theorem wordAt_words (ws : List UInt32) (rest : List UInt8) (i : Nat) (h : i < ws.length) :
    wordAt (ws.flatMap wordBytes ++ rest) i = ws[i] := by
  induction ws generalizing i with
  | nil => simp at h
  | cons w ws ih =>
    cases i with
    | zero =>
      simp only [List.flatMap_cons, List.append_assoc, List.getElem_cons_zero]
      exact wordAt_wordBytes_append w _
    | succ i =>
      simp only [List.flatMap_cons, List.append_assoc, List.getElem_cons_succ]
      have : wordBytes w ++ (ws.flatMap wordBytes ++ rest)
          = byteOf w 0 :: byteOf w 1 :: byteOf w 2 :: byteOf w 3 :: (ws.flatMap wordBytes ++ rest) := rfl
      rw [this, wordAt_cons4]
      exact ih i (by simpa using h)

/-- the 64 bytes of two chaining values, read back as 16 words, are the parent block -/
theorem words_of_cv_pair (l r : CV) : wordsOfBytes 16 (cvsBytes [l, r]) = catCV l r := by
  apply Vector.ext
  intro i hi
  simp only [wordsOfBytes, Vector.getElem_ofFn, cvsBytes, List.flatMap_cons, List.flatMap_nil, List.append_nil, bytesOfWords]
  have hl : l.toList.length = 8 := by simp
  have hr : r.toList.length = 8 := by simp
  by_cases h8 : i < 8
  · rw [wordAt_words l.toList _ i (by omega)]
    simp only [catCV]
    rw [Vector.getElem_append_left (by omega)]
    simp
  · have : l.toList.flatMap wordBytes ++ r.toList.flatMap wordBytes
        = (l.toList ++ r.toList).flatMap wordBytes ++ [] := by simp
    rw [this, wordAt_words (l.toList ++ r.toList) [] i (by simp; omega)]
    simp only [catCV]
    rw [List.getElem_append_right (by omega), Vector.getElem_append_right (by omega)]
    all_goals (first | omega | simp)

/-! ### the contract of `Platform::hash_many` -/

/-- what `hash_many` computes, lane by lane: one `hash1` (the chain of `compress_in_place` over the blocks of the input,
`flags_start` on the first and `flags_end` on the last block) per input, the counter incremented per input when asked -/
def hashManyModel (K : Kern) (key : CV) (flags fs fe : UInt8) (inc : Bool) : Nat → List (List UInt8) → List CV
  | _, [] => []
  | t, s :: rest => Rs.hash1 K key t flags fs fe s :: hashManyModel K key flags fs fe inc (if inc then t + 1 else t) rest

/-- the contract assumed of `Platform::hash_many` (every implementation: portable, SSE2/4.1, AVX2, AVX-512, NEON, wasm):
for inputs of `N` bytes each (a whole number of blocks), an output buffer with room for one chaining value per input, and
counters that do not wrap, it writes the chaining values of the inputs to the front of `out` and leaves the rest alone.
Nothing is assumed when the buffer is too small (the implementations `debug_assert` / write out of bounds): the theorems
below show that the translated callers never get there. -/
def HashManySpec (K : Kern)
    (hm : Nat → List (List UInt8) → CV → Nat → Bool → UInt8 → UInt8 → UInt8 → List CV → R (List CV)) : Prop :=
  ∀ (N : Nat) (inputs : List (List UInt8)) (key : CV) (t : Nat) (inc : Bool) (flags fs fe : UInt8) (out : List CV),
    (∀ s ∈ inputs, s.length = N) → N % 64 = 0 → 0 < N → inputs.length ≤ out.length →
    (inc = true → t + inputs.length ≤ 2 ^ 64) →
    hm N inputs key t inc flags fs fe out = .ok (hashManyModel K key flags fs fe inc t inputs ++ out.drop inputs.length)

/-- a function satisfying the contract (it panics when the buffer is too small) -/
def hashManyRef (K : Kern) : Nat → List (List UInt8) → CV → Nat → Bool → UInt8 → UInt8 → UInt8 → List CV → R (List CV) :=
  fun _ inputs key t inc flags fs fe out =>
    if inputs.length ≤ out.length then .ok (hashManyModel K key flags fs fe inc t inputs ++ out.drop inputs.length) else .panic

example (K : Kern) : HashManySpec K (hashManyRef K) := by
  intro N inputs key t inc flags fs fe out _ _ _ h _
  unfold hashManyRef; rw [if_pos h]

theorem hashManyModel_length (K : Kern) (key : CV) (flags fs fe : UInt8) (inc : Bool) (t : Nat) (xs : List (List UInt8)) :
    (hashManyModel K key flags fs fe inc t xs).length = xs.length := by
  induction xs generalizing t with
  | nil => rfl
  | cons x xs ih => simp [hashManyModel, ih]

theorem bytesOfWords_len {n : Nat} (v : Vector UInt32 n) : (bytesOfWords v).length = 4 * n := by
  unfold bytesOfWords
  have : ∀ (l : List UInt32), (l.flatMap wordBytes).length = 4 * l.length := by
    intro l
    induction l with
    | nil => rfl
    | cons a l ih => simp [List.flatMap_cons, ih, wordBytes]; omega
  rw [this]; simp

theorem cvsBytes_length (c : List CV) : (cvsBytes c).length = 32 * c.length := by
  induction c with
  | nil => rfl
  | cons a c ih =>
    simp only [cvsBytes, List.flatMap_cons, List.length_append, List.length_cons] at ih ⊢
    rw [ih, bytesOfWords_len]; omega

theorem u8_or_zero (x : UInt8) : x ||| 0 = x := by
  apply UInt8.toNat_inj.mp; simp

/-- one lane of `hash_many` over a parent block = the model's `parentCV` -/
theorem hash1_parent (K : Kern) (key : CV) (flags : UInt8) (l r : CV) :
    Rs.hash1 K key 0 (flags ||| 4) 0 0 (cvsBytes [l, r]) = Rs.parentCV K key flags l r := by
  have hlen : (cvsBytes [l, r]).length = 64 := by rw [cvsBytes_length]; rfl
  unfold Rs.hash1
  rw [Rs.hash1Loop, dif_pos (by omega), if_pos hlen]
  rw [Rs.hash1Loop, dif_neg (by rw [List.length_drop]; omega)]
  rw [List.take_of_length_le (by omega), words_of_cv_pair, u8_or_zero, u8_or_zero]
  rfl

/-! ### `compress_parents_parallel` -/

section part2
variable (K : Kern) (sd : Nat)
variable (hm : Nat → List (List UInt8) → CV → Nat → Bool → UInt8 → UInt8 → UInt8 → List CV → R (List CV)) (M M2 : Nat)
variable (tpn : List UInt8 → CV → Nat → UInt8 → R (List CV))

local notation "E₀" => modelEnv K sd hm M M2 tpn

/-- the `for parent in &mut parents_exact` loop pushes every pair; the ArrayVec's capacity is never exceeded -/
theorem parents_for_eq (chunks acc : List (List CV)) (h2 : ∀ c ∈ chunks, c.length = 2)
    (hcap : acc.length + chunks.length ≤ M2) :
    compress_parents_parallel_for E₀ chunks acc = .ok (acc ++ chunks) := by
  induction chunks generalizing acc with
  | nil => simp [compress_parents_parallel_for, pure_ok]
  | cons c chunks ih =>
    rw [compress_parents_parallel_for]
    simp only [arrayRef_whole c 2 (h2 c (by simp)), bind_ok, E_M2]
    rw [pushCap_ok _ _ _ (by simp at hcap; omega)]
    simp only [bind_ok]
    rw [ih _ (fun c' hc' => h2 c' (by simp [hc'])) (by simp at hcap ⊢; omega)]
    simp

theorem pairUp_chunks (node : CV → CV → CV) (d : CV) (cvs : List CV) :
    Tr.pairUp node cvs
      = ((chunksExact 2 cvs).1.map fun c => node (c.getD 0 d) (c.getD 1 d)) ++ (chunksExact 2 cvs).2 := by
  fun_induction Tr.pairUp node cvs with
  | case1 a b rest ih =>
    rw [chunksExact_step 2 _ ⟨by omega, by simp⟩]
    simp only [List.take_succ_cons, List.take_zero, List.drop_succ_cons, List.drop_zero, List.map_cons, List.cons_append]
    rw [← ih]; rfl
  | case2 xs hne =>
    match xs, hne with
    | [], _ => rw [chunksExact_stop 2 _ (by simp)]; rfl
    | [a], _ => rw [chunksExact_stop 2 _ (by simp)]; rfl
    | a :: b :: r, hne => exact absurd rfl (hne a b r)

/-- `hash_many` over the parent blocks = the model's `parentCV` of each pair -/
theorem hashMany_parents (key : CV) (flags : UInt8) (chunks : List (List CV)) (h2 : ∀ c ∈ chunks, c.length = 2) :
    hashManyModel K key (flags ||| 4) 0 0 false 0 (chunks.map cvsBytes)
      = chunks.map fun c => Rs.parentCV K key flags (c.getD 0 key) (c.getD 1 key) := by
  induction chunks with
  | nil => rfl
  | cons c chunks ih =>
    have hc := h2 c (by simp)
    match c, hc with
    | [l, r], _ =>
      simp only [List.map_cons, hashManyModel]
      rw [hash1_parent]
      simp only [Bool.false_eq_true, if_false]
      rw [ih (fun c' hc' => h2 c' (by simp [hc']))]
      rfl

/-- **`compress_parents_parallel`**, as translated, writes `pairUp` of its input to the front of `out` and returns its
length; nothing else of `out` changes. Obligations: at most `2 * MAX_SIMD_DEGREE_OR_2` children (the ArrayVec capacity:
the source's `debug_assert!(num_children <= 2 * MAX_SIMD_DEGREE_OR_2)`) and room in `out` for the result. -/
theorem parents_eq (hspec : HashManySpec K hm) (cvs : List CV) (key : CV) (flags : UInt8) (out : List CV)
    (hcap : cvs.length ≤ 2 * M2) (hout : (cvs.length + 1) / 2 ≤ out.length) (hol : out.length < 2 ^ 64) :
    compress_parents_parallel E₀ cvs key flags out
      = .ok ((Tr.pairUp (Rs.parentCV K key flags) cvs).length,
             Tr.pairUp (Rs.parentCV K key flags) cvs ++ out.drop (Tr.pairUp (Rs.parentCV K key flags) cvs).length) := by
  obtain ⟨f1, f2, f3, f4, f5⟩ := chunksExact_facts 2 (by omega) cvs
  have hpu := pairUp_chunks (Rs.parentCV K key flags) key cvs
  have hpl := Tr.pairUp_length (Rs.parentCV K key flags) cvs
  unfold compress_parents_parallel
  simp only [cdiv_ok _ 32 (by omega), bind_ok]
  rw [parents_for_eq K sd hm M M2 tpn _ [] f1 (by simp; omega)]
  simp only [bind_ok, List.nil_append, E_hm]
  rw [hspec 64 _ key 0 false (flags ||| 4) 0 0 out
    (by intro s hs
        simp only [List.mem_map] at hs
        obtain ⟨c, hc, rfl⟩ := hs
        rw [cvsBytes_length, f1 c hc])
    (by omega) (by omega) (by rw [List.length_map]; omega) (by intro h; simp at h)]
  simp only [bind_ok, List.length_map]
  rw [hashMany_parents K key flags _ f1]
  generalize hch : (chunksExact 2 cvs).1 = chunks at *
  generalize hrm : (chunksExact 2 cvs).2 = rem at *
  have hml : (chunks.map fun c => Rs.parentCV K key flags (c.getD 0 key) (c.getD 1 key)).length = chunks.length := by simp
  by_cases hr : (!rem.isEmpty) = true
  · rw [if_pos hr]
    have hrl : rem.length = 1 := by
      have h0 : rem ≠ [] := by intro h; subst h; simp at hr
      have := List.length_pos_iff.mpr h0
      omega
    rw [copyInto_ok _ _ _ _ (by simp; omega) hrl]
    simp only [bind_ok, cadd_ok chunks.length 1 (by omega), pure_ok]
    rw [hpu]
    congr 1
    simp only [List.length_append, List.length_map, hrl]
    rw [List.take_left' hml, List.drop_append, List.drop_drop, hml,
      List.drop_of_length_le (by rw [hml]; omega)]
    have : chunks.length + (chunks.length + 1 - chunks.length) = chunks.length + 1 := by omega
    rw [this, List.nil_append]
  · rw [if_neg hr]
    have hrn : rem = [] := by
      cases rem with
      | nil => rfl
      | cons a r => simp at hr
    subst hrn
    simp only [pure_ok, hpu, List.append_nil, List.length_map]

/-! ### `compress_chunks_parallel` -/

/-- the `for chunk in &mut chunks_exact` loop pushes every whole chunk; the ArrayVec's capacity is never exceeded -/
theorem chunks_for_eq (chunks acc : List (List UInt8)) (h2 : ∀ c ∈ chunks, c.length = 1024)
    (hcap : acc.length + chunks.length ≤ M) :
    compress_chunks_parallel_for E₀ chunks acc = .ok (acc ++ chunks) := by
  induction chunks generalizing acc with
  | nil => simp [compress_chunks_parallel_for, pure_ok]
  | cons c chunks ih =>
    rw [compress_chunks_parallel_for]
    simp only [arrayRef_whole c 1024 (h2 c (by simp)), bind_ok, E_M]
    rw [pushCap_ok _ _ _ (by simp at hcap; omega)]
    simp only [bind_ok]
    rw [ih _ (fun c' hc' => h2 c' (by simp [hc'])) (by simp at hcap ⊢; omega)]
    simp

/-- chaining values of consecutive chunks, counters from `t` -/
def leavesFrom (leaf : Nat → List UInt8 → CV) : Nat → List (List UInt8) → List CV
  | _, [] => []
  | t, c :: cs => leaf t c :: leavesFrom leaf (t + 1) cs

theorem leavesFrom_length (leaf : Nat → List UInt8 → CV) (t : Nat) (cs : List (List UInt8)) :
    (leavesFrom leaf t cs).length = cs.length := by
  induction cs generalizing t with
  | nil => rfl
  | cons c cs ih => simp [leavesFrom, ih]

/-- the leaves of a non-empty input are the leaves of its whole chunks followed by the leaf of the partial one -/
theorem allLeaves_chunks (leaf : Nat → List UInt8 → CV) (t : Nat) (s : List UInt8) (hs : 0 < s.length) :
    Hs.allLeaves 10 leaf t s = leavesFrom leaf t (chunksExact 1024 s).1 ++
      (if (chunksExact 1024 s).2 = [] then [] else [leaf (t + (chunksExact 1024 s).1.length) (chunksExact 1024 s).2]) := by
  induction hl : s.length using Nat.strongRecOn generalizing s t with
  | _ l ih =>
    subst hl
    rw [Hs.allLeaves]
    by_cases h : 2 ^ 10 < s.length
    · rw [dif_pos h]
      rw [two_pow_ten] at h ⊢
      rw [chunksExact_step 1024 s ⟨by omega, by omega⟩]
      rw [ih (s.drop 1024).length (by rw [List.length_drop]; omega) (t + 1) (s.drop 1024)
        (by rw [List.length_drop]; omega) rfl]
      simp only [leavesFrom, List.cons_append, List.length_cons]
      have : t + 1 + (chunksExact 1024 (s.drop 1024)).1.length = t + ((chunksExact 1024 (s.drop 1024)).1.length + 1) := by omega
      rw [this]
    · rw [dif_neg h]
      rw [two_pow_ten] at h
      by_cases he : s.length = 1024
      · rw [chunksExact_step 1024 s ⟨by omega, by omega⟩, chunksExact_stop 1024 _ (by rw [List.length_drop]; omega)]
        have : s.drop 1024 = [] := List.drop_of_length_le (by omega)
        simp only [this, leavesFrom, if_true, List.append_nil, List.take_of_length_le (Nat.le_of_eq he)]
      · rw [chunksExact_stop 1024 s (by omega)]
        have : s ≠ [] := by intro h0; subst h0; simp at hs
        simp only [leavesFrom, List.nil_append, this, if_false, List.length_nil, Nat.add_zero]

/-- `hash_many` over whole chunks with an incrementing counter = the model's `leafCV` of each chunk -/
theorem hashMany_chunks (key : CV) (flags : UInt8) (t : Nat) (chunks : List (List UInt8)) (h2 : ∀ c ∈ chunks, c.length = 1024) :
    hashManyModel K key flags 1 2 true t chunks = leavesFrom (Rs.leafCV K key flags) t chunks := by
  induction chunks generalizing t with
  | nil => rfl
  | cons c chunks ih =>
    simp only [hashManyModel, leavesFrom, if_true]
    rw [ih _ (fun c' hc' => h2 c' (by simp [hc']))]
    congr 1
    unfold Rs.leafCV
    rw [if_pos (h2 c (by simp))]
    rfl

/-- **`compress_chunks_parallel`**, as translated, writes the chaining values of all chunks of a non-empty input (whole
chunks through `hash_many`, the partial one through a `ChunkState`) to the front of `out` and returns their number.
Obligations: at most `MAX_SIMD_DEGREE` chunks of input (the source's `debug_assert`, here the ArrayVec capacity), room in
`out`, chunk counters below 2^64. -/
theorem chunks_eq (hspec : HashManySpec K hm) (input : List UInt8) (key : CV) (t : Nat) (flags : UInt8) (out : List CV)
    (hpos : 0 < input.length) (hcap : input.length ≤ M * 1024)
    (hout : Hs.nchunks 10 input.length ≤ out.length) (hol : out.length < 2 ^ 64)
    (hctr : t + Hs.nchunks 10 input.length ≤ 2 ^ 64) :
    compress_chunks_parallel E₀ input key t flags out
      = .ok ((Hs.allLeaves 10 (Rs.leafCV K key flags) t input).length,
             Hs.allLeaves 10 (Rs.leafCV K key flags) t input
               ++ out.drop (Hs.allLeaves 10 (Rs.leafCV K key flags) t input).length) := by
  obtain ⟨f1, f2, f3, f4, f5⟩ := chunksExact_facts 1024 (by omega) input
  have hal := allLeaves_chunks (Rs.leafCV K key flags) t input hpos
  have hlen := Hs.allLeaves_length 10 (Rs.leafCV K key flags) t input hpos
  have hnc : Hs.nchunks 10 input.length = input.length / 1024 + (if input.length % 1024 = 0 then 0 else 1) := by
    unfold Hs.nchunks; rw [two_pow_ten]; split <;> omega
  have hM : (chunksExact 1024 input).1.length ≤ M := by
    rw [f3]
    exact Nat.div_le_of_le_mul (by rw [Nat.mul_comm]; exact hcap)
  unfold compress_chunks_parallel
  simp only []
  rw [chunks_for_eq K sd hm M M2 tpn _ [] f1 (by simp; exact hM)]
  simp only [bind_ok, List.nil_append, E_hm, E_new, E_update, E_output, E_chain]
  generalize hch : (chunksExact 1024 input).1 = chunks at *
  generalize hrm : (chunksExact 1024 input).2 = rem at *
  rw [hspec 1024 chunks key t true flags 1 2 out f1 (by omega) (by omega) (by omega) (by intro _; omega)]
  simp only [bind_ok]
  rw [hashMany_chunks K key flags t chunks f1]
  have hll := leavesFrom_length (Rs.leafCV K key flags) t chunks
  by_cases hr : (!rem.isEmpty) = true
  · rw [if_pos hr]
    have h0 : rem ≠ [] := by intro h; subst h; simp at hr
    have hrl := List.length_pos_iff.mpr h0
    rw [if_neg h0] at hal
    rw [if_neg (by omega)] at hnc
    simp only [cadd_ok t chunks.length (by omega), bind_ok]
    rw [setIdx_ok _ _ _ (by rw [List.length_append, hll, List.length_drop]; omega)]
    simp only [bind_ok, cadd_ok chunks.length 1 (by omega), pure_ok]
    rw [hal]
    have hleaf : Rs.leafCV K key flags (t + chunks.length) rem
        = Rs.chain K (Rs.ChunkState.update K (Rs.ChunkState.new key (t + chunks.length) flags) rem).output := by
      unfold Rs.leafCV
      rw [if_neg (by omega)]; rfl
    rw [hleaf]
    have hset : (leavesFrom (Rs.leafCV K key flags) t chunks ++ List.drop chunks.length out).set chunks.length
          (Rs.chain K (Rs.ChunkState.update K (Rs.ChunkState.new key (t + chunks.length) flags) rem).output)
        = (leavesFrom (Rs.leafCV K key flags) t chunks
            ++ [Rs.chain K (Rs.ChunkState.update K (Rs.ChunkState.new key (t + chunks.length) flags) rem).output])
            ++ List.drop (chunks.length + 1) out := by
      rw [List.set_append_right _ _ (by rw [hll]; omega), hll, Nat.sub_self, List.append_assoc]
      have hd := List.drop_eq_getElem_cons (show chunks.length < out.length by omega)
      rw [hd]
      rfl
    rw [hset]
    simp only [List.length_append, hll, List.length_singleton]
  · rw [if_neg hr]
    have hrn : rem = [] := by
      cases rem with
      | nil => rfl
      | cons a r => simp at hr
    subst hrn
    rw [if_pos rfl] at hal
    simp only [pure_ok, hal, List.append_nil, hll]

/-! ### `compress_subtree_wide` -/

/-- what is assumed of the platform constants: the SIMD degree is a power of two not above `MAX_SIMD_DEGREE`
(`Platform::simd_degree` asserts it), `MAX_SIMD_DEGREE_OR_2` is at least `MAX_SIMD_DEGREE` and 2, and small -/
structure PlatOk (sd M M2 : Nat) : Prop where
  pow : ∃ j, sd = 2 ^ j
  le_M : sd ≤ M
  M_le : M ≤ M2
  two_le : 2 ≤ M2
  small : M2 ≤ 2 ^ 16

/-- the four (MAX_SIMD_DEGREE, MAX_SIMD_DEGREE_OR_2) pairs of src/platform.rs with every degree they admit -/
example : PlatOk 16 16 16 ∧ PlatOk 8 16 16 ∧ PlatOk 8 8 8 ∧ PlatOk 4 4 4 ∧ PlatOk 1 4 4 ∧ PlatOk 1 1 2 ∧ PlatOk 2 16 16 :=
  ⟨⟨⟨4, rfl⟩, by omega, by omega, by omega, by omega⟩, ⟨⟨3, rfl⟩, by omega, by omega, by omega, by omega⟩,
   ⟨⟨3, rfl⟩, by omega, by omega, by omega, by omega⟩, ⟨⟨2, rfl⟩, by omega, by omega, by omega, by omega⟩,
   ⟨⟨0, rfl⟩, by omega, by omega, by omega, by omega⟩, ⟨⟨0, rfl⟩, by omega, by omega, by omega, by omega⟩,
   ⟨⟨1, rfl⟩, by omega, by omega, by omega, by omega⟩⟩

theorem take_append_take {α : Type} (a b : List α) (n : Nat) (h : a.length ≤ n) :
    (a ++ b).take n = a ++ b.take (n - a.length) := by
  rw [List.take_append]
  rw [List.take_of_length_le h]

/-- **`compress_subtree_wide`**, as translated (recursion by fuel), writes the model's `wide` to the front of `out` and
returns its length. -/
theorem wide_eq (hspec : HashManySpec K hm) (hp : PlatOk sd M M2) (fuel : Nat) :
    ∀ (input : List UInt8) (key : CV) (t : Nat) (flags : UInt8) (out : List CV),
      input.length ≤ fuel → 0 < input.length → input.length < 2 ^ 64 → t + Hs.nchunks 10 input.length ≤ 2 ^ 64 →
      (Rs.wide K key flags sd t input).length ≤ out.length → out.length < 2 ^ 64 →
      compress_subtree_wide E₀ fuel input key t flags out
        = .ok ((Rs.wide K key flags sd t input).length,
               Rs.wide K key flags sd t input ++ out.drop (Rs.wide K key flags sd t input).length) := by
  obtain ⟨⟨j, hsd⟩, hM, hMM2, h2M2, hsmall⟩ := hp
  have hpj := Nat.two_pow_pos j
  induction fuel with
  | zero => intro input _ _ _ _ h1 h2; omega
  | succ fuel ih =>
    intro input key t flags out hfuel hpos hlt hctr hout hol
    have hsd16 : sd ≤ 2 ^ 16 := by omega
    rw [compress_subtree_wide]
    simp only [E_sd, E_M2, cmul_ok sd 1024 (by omega1), bind_ok]
    unfold Rs.wide at hout ⊢
    by_cases hb : input.length ≤ sd * 1024
    · rw [if_pos hb]
      have hbase := Hs.wide_base (Rs.parentCV K key flags) 10 (Rs.leafCV K key flags) sd t input (by rw [two_pow_ten]; exact hb)
      rw [hbase] at hout ⊢
      have hlen := Hs.allLeaves_length 10 (Rs.leafCV K key flags) t input hpos
      rw [chunks_eq K sd hm M M2 tpn hspec input key t flags out hpos
        (Nat.le_trans hb (Nat.mul_le_mul_right _ hM)) (by rw [← hlen]; exact hout) hol hctr]
      rfl
    · rw [if_neg hb]
      have hbig : 1024 < input.length := by
        have : 1024 ≤ sd * 1024 := Nat.le_mul_of_pos_left _ (by omega)
        omega
      obtain ⟨a, f1, f2, f3, f4, f5, f6, f7⟩ := Hs.split_facts 10 sd j input.length hsd (by rw [two_pow_ten]; omega)
      have hpa := Nat.two_pow_pos a
      have hja : 2 ^ j ≤ 2 ^ a := Nat.pow_le_pow_right (by omega) f3
      rw [two_pow_ten] at f1 f2 f4
      have hL : 0 < Hs.leftLen 10 input.length ∧ Hs.leftLen 10 input.length < input.length := by
        rw [f1]; exact ⟨Nat.mul_pos hpa (by omega), f2⟩
      have hstep := Hs.wide_step (Rs.parentCV K key flags) 10 (Rs.leafCV K key flags) sd t input
        (by rw [two_pow_ten]; exact hb) hL
      rw [f1, two_pow_ten, Nat.mul_div_cancel _ (show 0 < 1024 by omega)] at hstep
      -- the two recursive results and their sizes
      have htl : (input.take (2 ^ a * 1024)).length = 2 ^ a * 1024 := by rw [List.length_take]; omega
      have hdl : (input.drop (2 ^ a * 1024)).length = input.length - 2 ^ a * 1024 := List.length_drop
      obtain ⟨_, l2, l3, l4⟩ := Hs.wide_spec (Rs.parentCV K key flags) key 10 (Rs.leafCV K key flags) sd j hsd
        _ t (input.take (2 ^ a * 1024)) rfl (by omega)
      obtain ⟨_, r2, r3, _⟩ := Hs.wide_spec (Rs.parentCV K key flags) key 10 (Rs.leafCV K key flags) sd j hsd
        _ (t + 2 ^ a) (input.drop (2 ^ a * 1024)) rfl (by omega)
      obtain ⟨_, w2, w3, _⟩ := Hs.wide_spec (Rs.parentCV K key flags) key 10 (Rs.leafCV K key flags) sd j hsd
        _ t input rfl hpos
      have l4' := l4 a (by rw [htl, two_pow_ten])
      rw [hstep] at hout w3 ⊢
      generalize hWl : Hs.wide (Rs.parentCV K key flags) 10 (Rs.leafCV K key flags) sd t (input.take (2 ^ a * 1024)) = Wl
        at *
      generalize hWr : Hs.wide (Rs.parentCV K key flags) 10 (Rs.leafCV K key flags) sd (t + 2 ^ a)
        (input.drop (2 ^ a * 1024)) = Wr at *
      have hmax : max sd 2 ≤ M2 := by omega
      -- the degree chosen is the number of chaining values the left half returns
      have hdeg : (if (input.take (2 ^ a * 1024)).length = 1024 then (pure 1 : R Nat) else pure (max sd 2)) = .ok Wl.length := by
        rw [htl, l4']
        by_cases ha : a = 0
        · subst ha
          have : sd = 1 := by rw [hsd]; simp at hja; omega
          rw [if_pos (by simp), if_pos (by omega)]; rfl
        · have h2a : 2 ≤ 2 ^ a := by
            obtain ⟨a', rfl⟩ : ∃ a', a = a' + 1 := ⟨a - 1, by omega⟩
            have := Nat.two_pow_pos a'
            rw [Nat.pow_succ]; omega
          rw [if_neg (by omega)]
          by_cases hc : 2 ^ a ≤ sd
          · rw [if_pos hc]
            have : max sd 2 = 2 ^ a := by omega
            rw [this]; rfl
          · rw [if_neg hc]; rfl
      have hrep : (List.replicate (2 * M2) zeroCV).length = 2 * M2 := List.length_replicate
      -- the two recursive calls
      have hleft := ih (input.take (2 ^ a * 1024)) key t flags ((List.replicate (2 * M2) zeroCV).take Wl.length)
        (by omega) (by omega) (by omega)
        (by rw [htl, ← two_pow_ten, Hs.nchunks_pow]; omega)
        (by unfold Rs.wide; rw [hWl, List.length_take, hrep]; omega)
        (by rw [List.length_take, hrep]; omega)
      have hright := ih (input.drop (2 ^ a * 1024)) key (t + 2 ^ a) flags ((List.replicate (2 * M2) zeroCV).drop Wl.length)
        (by omega) (by omega) (by omega)
        (by rw [hdl, f4]; omega)
        (by unfold Rs.wide; rw [hWr, List.length_drop, hrep]; omega)
        (by rw [List.length_drop, hrep]; omega)
      unfold Rs.wide at hleft hright
      rw [hWl] at hleft
      rw [hWr] at hright
      rw [List.drop_of_length_le (by rw [List.length_take, hrep]; omega), List.append_nil] at hleft
      rw [(Proofs.gen_leftLen input.length hbig hlt).1, f1]
      simp only [bind_ok, splitAt_ok input _ (Nat.le_of_lt f2), htl, cdiv_ok _ 1024 (by omega),
        Nat.mul_div_cancel _ (show 0 < 1024 by omega), cadd_ok t (2 ^ a) (by omega), cmul_ok 2 M2 (by omega)]
      rw [htl] at hdeg
      rw [hdeg]
      simp only [bind_ok, splitAt_ok _ Wl.length (show Wl.length ≤ (List.replicate (2 * M2) zeroCV).length by rw [hrep]; omega)]
      rw [hleft]
      simp only [bind_ok]
      rw [hright]
      simp only [bind_ok]
      by_cases h1 : Wl.length = 1
      · -- the degree-1 special case: the two chaining values are returned as they are
        rw [if_pos h1] at hout w3 ⊢
        simp only [if_pos h1]
        have hsd1 : sd = 1 := by
          rw [h1] at l4'
          by_cases hc : 2 ^ a ≤ sd
          · rw [if_pos hc] at l4'; omega
          · rw [if_neg hc] at l4'; omega
        have hr1 : Wr.length = 1 := by
          rw [List.length_append, hsd1] at w3
          have : max 1 2 = 2 := rfl
          omega
        match Wl, Wr, h1, hr1 with
        | [x], [y], _, _ =>
          have hout2 : 2 ≤ out.length := by simpa using hout
          rw [sliceTo_ok _ 2 (by simp)]
          simp only [bind_ok]
          rw [copyInto_ok _ _ _ _ (by omega) (by simp)]
          simp [pure_ok]
          rfl
      · rw [if_neg h1] at hout w3 ⊢
        simp only [if_neg h1]
        have hlen : (Wl ++ Wr).length ≤ 2 * M2 := by rw [List.length_append]; omega
        rw [cadd_ok _ _ (by omega)]
        simp only [bind_ok]
        have htake : (Wl ++ (Wr ++ List.drop Wr.length (List.drop Wl.length (List.replicate (2 * M2) zeroCV)))).take
            (Wl.length + Wr.length) = Wl ++ Wr := by
          rw [← List.append_assoc]
          exact List.take_left' (by rw [List.length_append])
        rw [sliceTo_ok _ _ (by simp), htake]
        simp only [bind_ok]
        rw [parents_eq K sd hm M M2 tpn hspec (Wl ++ Wr) key flags out hlen
          (by rw [← Tr.pairUp_length (Rs.parentCV K key flags)]; exact hout) hol]
        rfl

/-! ### `compress_subtree_to_parent_node` and `hash_all_at_once` -/

theorem condense_length (node : CV → CV → CV) : ∀ (n : Nat) (xs : List CV), xs.length = n → 2 ≤ n →
    (Hs.condense node xs).length = 2 := by
  intro n
  induction n using Nat.strongRecOn with
  | _ n ih =>
    intro xs hn h2
    rw [Hs.condense]
    by_cases h : 2 < xs.length
    · rw [dif_pos h]
      exact ih _ (by rw [Tr.pairUp_length]; omega) _ rfl (by rw [Tr.pairUp_length]; omega)
    · rw [dif_neg h]; omega

/-- more than one chunk of input gives at least two chaining values (the source's `debug_assert!(num_cvs >= 2)`) -/
theorem wide_length_ge_two (node : CV → CV → CV) (d : CV) (leaf : Nat → List UInt8 → CV) (j : Nat) (hsd : sd = 2 ^ j)
    (t : Nat) (input : List UInt8) (h : 1024 < input.length) : 2 ≤ (Hs.wide node 10 leaf sd t input).length := by
  have hpj := Nat.two_pow_pos j
  by_cases hb : input.length ≤ sd * 2 ^ 10
  · rw [Hs.wide_base node 10 leaf sd t input hb, Hs.allLeaves_length 10 leaf t input (by omega)]
    obtain ⟨s1, s2, s3⟩ := Hs.nchunks_spec 10 input.length (by omega)
    rw [two_pow_ten] at s1 s2
    rcases Nat.lt_or_ge (Hs.nchunks 10 input.length) 2 with h1 | h1
    · have : Hs.nchunks 10 input.length = 1 := by omega
      rw [this] at s2; omega
    · exact h1
  · obtain ⟨a, f1, f2, f3, f4, f5, f6, f7⟩ := Hs.split_facts 10 sd j input.length hsd (by omega)
    have hpa := Nat.two_pow_pos a
    have hL : 0 < Hs.leftLen 10 input.length ∧ Hs.leftLen 10 input.length < input.length := by
      rw [f1]; exact ⟨Nat.mul_pos hpa (by decide), f2⟩
    rw [Hs.wide_step node 10 leaf sd t input hb hL]
    obtain ⟨_, l2, _, _⟩ := Hs.wide_spec node d 10 leaf sd j hsd _ t (input.take (Hs.leftLen 10 input.length)) rfl
      (by rw [List.length_take]; omega)
    obtain ⟨_, r2, _, _⟩ := Hs.wide_spec node d 10 leaf sd j hsd _ (t + Hs.leftLen 10 input.length / 2 ^ 10)
      (input.drop (Hs.leftLen 10 input.length)) rfl (by rw [List.length_drop]; omega)
    split
    · rw [List.length_append]; omega
    · rw [Tr.pairUp_length, List.length_append]; omega

/-- the `while num_cvs > 2` loop condenses the first `num_cvs` entries of `cv_array` -/
theorem condense_loop_eq (hspec : HashManySpec K hm) (hsmall : M2 ≤ 2 ^ 16) (key : CV) (flags : UInt8) (fuel : Nat) :
    ∀ (cvs rest outa : List CV), cvs.length < fuel → cvs.length ≤ 2 * (M2 / 2) → outa.length = M2 / 2 →
      ∃ rest' outa', compress_subtree_to_parent_node_loop E₀ fuel (cvs ++ rest) cvs.length outa key flags
          = .ok (Hs.condense (Rs.parentCV K key flags) cvs ++ rest', (Hs.condense (Rs.parentCV K key flags) cvs).length, outa') := by
  induction fuel with
  | zero => intro _ _ _ h; omega
  | succ fuel ih =>
    intro cvs rest outa hf hc ho
    rw [compress_subtree_to_parent_node_loop, Hs.condense]
    by_cases h : 2 < cvs.length
    · rw [if_pos h, dif_pos h]
      have hpl := Tr.pairUp_length (Rs.parentCV K key flags) cvs
      rw [sliceTo_ok _ _ (by simp), List.take_left' rfl]
      simp only [bind_ok]
      rw [parents_eq K sd hm M M2 tpn hspec cvs key flags outa (by omega) (by omega) (by omega)]
      simp only [bind_ok]
      rw [sliceTo_ok _ _ (by simp), List.take_left' rfl]
      simp only [bind_ok]
      rw [copyInto_ok _ _ _ _ (by simp; omega) rfl]
      simp only [bind_ok, List.take_zero, List.nil_append, Nat.zero_add]
      obtain ⟨rest', outa', e⟩ := ih (Tr.pairUp (Rs.parentCV K key flags) cvs) (List.drop (Tr.pairUp (Rs.parentCV K key flags) cvs).length (cvs ++ rest))
        (Tr.pairUp (Rs.parentCV K key flags) cvs ++ List.drop (Tr.pairUp (Rs.parentCV K key flags) cvs).length outa)
        (by omega) (by omega) (by rw [List.length_append, List.length_drop]; omega)
      exact ⟨rest', outa', e⟩
    · rw [if_neg h, dif_neg h]
      exact ⟨rest, outa, rfl⟩

/-- **`compress_subtree_to_parent_node`**, as translated, returns the model's `toParentNode` (the two children of the
subtree's top node), for every input of more than one chunk -/
theorem to_parent_node_eq (hspec : HashManySpec K hm) (hp : PlatOk sd M M2) (input : List UInt8) (key : CV) (t : Nat)
    (flags : UInt8) (hbig : 1024 < input.length) (hlt : input.length < 2 ^ 64)
    (hctr : t + Hs.nchunks 10 input.length ≤ 2 ^ 64) :
    compress_subtree_to_parent_node E₀ input key t flags
      = .ok [(Rs.toParentNode K key flags sd t input).1, (Rs.toParentNode K key flags sd t input).2] := by
  obtain ⟨⟨j, hsd⟩, hM, hMM2, h2M2, hsmall⟩ := id hp
  obtain ⟨_, w2, w3, _⟩ := Hs.wide_spec (Rs.parentCV K key flags) key 10 (Rs.leafCV K key flags) sd j hsd
    _ t input rfl (by omega)
  have w4 := wide_length_ge_two sd (Rs.parentCV K key flags) key (Rs.leafCV K key flags) j hsd t input hbig
  obtain ⟨b, hb1, hb2⟩ := Hs.max_pow j
  rw [← hsd] at hb1
  have heven : max sd 2 ≤ 2 * (M2 / 2) := by
    obtain ⟨b', rfl⟩ : ∃ b', b = b' + 1 := ⟨b - 1, by omega⟩
    rw [Nat.pow_succ] at hb1
    omega
  unfold compress_subtree_to_parent_node
  simp only [E_M2]
  rw [wide_eq K sd hm M M2 tpn hspec hp input.length input key t flags (List.replicate M2 zeroCV) (Nat.le_refl _) (by omega) hlt hctr
    (by unfold Rs.wide; rw [List.length_replicate]; omega) (by rw [List.length_replicate]; omega)]
  simp only [bind_ok, cdiv_ok M2 2 (by omega)]
  unfold Rs.wide Rs.toParentNode Hs.toPair
  generalize Hs.wide (Rs.parentCV K key flags) 10 (Rs.leafCV K key flags) sd t input = W at *
  obtain ⟨rest', outa', e⟩ := condense_loop_eq K sd hm M M2 tpn hspec hsmall key flags (W.length + 1) W
    (List.drop W.length (List.replicate M2 zeroCV)) (List.replicate (M2 / 2) zeroCV) (by omega) (by omega) (by simp)
  rw [e]
  simp only [bind_ok]
  have hc2 := condense_length (Rs.parentCV K key flags) W.length W rfl w4
  generalize Hs.condense (Rs.parentCV K key flags) W = C at *
  match C, hc2 with
  | [x, y], _ =>
    unfold arrayRef
    rw [if_pos (by simp)]
    rfl

end part2

end B3.Proofs.RsUpdate
