import B3.Model.GenK
import B3.Proofs.Compress
namespace B3.Proofs
open B3

/-- the generated portable kernels are the specification's compression function -/
theorem genK_eq_spec : genK = Kern.spec := by
  have h1 : Gen.Rs.compress_in_place = Kern.spec.cip := by
    funext cv m bl t fl; exact rs_compress_in_place_eq cv m bl t fl
  have h2 : Gen.Rs.compress_xof = Kern.spec.cxof := by
    funext cv m bl t fl; exact rs_compress_xof_eq cv m bl t fl
  unfold genK
  rw [h1, h2]

/-- constants of src/lib.rs, c/blake3_impl.h and reference_impl.rs agree with the paper's -/
theorem consts_agree :
    Gen.Rs.IV = Spec.IV ∧ Gen.C.IV = Spec.IV ∧ Gen.Ref.IV = Spec.IV ∧
    Gen.Rs.MSG_SCHEDULE = Gen.C.MSG_SCHEDULE ∧ Gen.Ref.MSG_PERMUTATION = Spec.sigma ∧
    (Gen.Rs.CHUNK_START, Gen.Rs.CHUNK_END, Gen.Rs.PARENT, Gen.Rs.ROOT, Gen.Rs.KEYED_HASH,
      Gen.Rs.DERIVE_KEY_CONTEXT, Gen.Rs.DERIVE_KEY_MATERIAL)
      = (Spec.CHUNK_START, Spec.CHUNK_END, Spec.PARENT, Spec.ROOT, Spec.KEYED_HASH,
          Spec.DERIVE_KEY_CONTEXT, Spec.DERIVE_KEY_MATERIAL) ∧
    (Gen.C.CHUNK_START, Gen.C.CHUNK_END, Gen.C.PARENT, Gen.C.ROOT, Gen.C.KEYED_HASH,
      Gen.C.DERIVE_KEY_CONTEXT, Gen.C.DERIVE_KEY_MATERIAL)
      = (Spec.CHUNK_START, Spec.CHUNK_END, Spec.PARENT, Spec.ROOT, Spec.KEYED_HASH,
          Spec.DERIVE_KEY_CONTEXT, Spec.DERIVE_KEY_MATERIAL) ∧
    (Gen.Ref.CHUNK_START, Gen.Ref.CHUNK_END, Gen.Ref.PARENT, Gen.Ref.ROOT, Gen.Ref.KEYED_HASH,
      Gen.Ref.DERIVE_KEY_CONTEXT, Gen.Ref.DERIVE_KEY_MATERIAL)
      = (Spec.CHUNK_START.toUInt32, Spec.CHUNK_END.toUInt32, Spec.PARENT.toUInt32, Spec.ROOT.toUInt32,
          Spec.KEYED_HASH.toUInt32, Spec.DERIVE_KEY_CONTEXT.toUInt32, Spec.DERIVE_KEY_MATERIAL.toUInt32) ∧
    (Gen.Rs.OUT_LEN, Gen.Rs.KEY_LEN, Gen.Rs.BLOCK_LEN, Gen.Rs.CHUNK_LEN) = (32, 32, 64, 1024) ∧
    (Gen.C.BLAKE3_OUT_LEN, Gen.C.BLAKE3_KEY_LEN, Gen.C.BLAKE3_BLOCK_LEN, Gen.C.BLAKE3_CHUNK_LEN) = (32, 32, 64, 1024) ∧
    (Gen.Ref.OUT_LEN, Gen.Ref.KEY_LEN, Gen.Ref.BLOCK_LEN, Gen.Ref.CHUNK_LEN) = (32, 32, 64, 1024) ∧
    Gen.Rs.MAX_DEPTH = 54 ∧ Gen.C.BLAKE3_MAX_DEPTH = 54 ∧ Gen.Ref.CV_STACK_CAP = 54 := by
  refine ⟨by decide, by decide, by decide, by decide, by decide, by decide, by decide, by decide, by decide,
    by decide, by decide, by decide, by decide, by decide⟩

end B3.Proofs
