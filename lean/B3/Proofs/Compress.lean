/-
The generated portable compression functions equal the specification's compression function.
-/
import B3.Spec
import B3.Gen.Consts
import B3.Gen.RsPortable
import B3.Gen.RefCompress
import B3.Gen.CPortable
namespace B3.Proofs
open B3

/-- σ iterated r times, as an index map -/
def sigmaPow : Nat → Fin 16 → Fin 16
  | 0, i => i
  | r+1, i => sigmaPow r (Spec.sigma[i])

def permN : Nat → St → St
  | 0, m => m
  | r+1, m => Spec.permute (permN r m)

theorem permN_get (r : Nat) (m : St) (i : Fin 16) : (permN r m)[i] = m[sigmaPow r i] := by
  induction r generalizing i with
  | zero => rfl
  | succ r ih => simp [permN, Spec.permute, sigmaPow, ih]

/-- `MSG_SCHEDULE[r]` (generated from src/lib.rs) is the r-th power of the paper's permutation -/
theorem rs_sched_eq : ∀ r : Fin 7, ∀ i : Fin 16, Gen.Rs.MSG_SCHEDULE[r][i] = sigmaPow r i := by decide

theorem rs_g_eq : @Gen.Rs.g = @Spec.g := rfl

theorem rs_round_with (s m : St) (r : Fin 7) :
    Gen.Rs.round s m r = Spec.roundWith s (fun i => m[Gen.Rs.MSG_SCHEDULE[r][i]]) := by
  unfold Gen.Rs.round
  simp only [rs_g_eq]
  rfl

theorem rs_round_eq (s m : St) (r : Fin 7) : Gen.Rs.round s m r = Spec.round s (permN r m) := by
  rw [rs_round_with, Spec.round]
  congr 1; funext i
  simp only [permN_get, rs_sched_eq]

theorem rs_iv : Gen.Rs.IV = Spec.IV := by decide

theorem rs_compress_pre_eq (cv : CV) (block : St) (bl : UInt8) (t : UInt64) (fl : UInt8) :
    Gen.Rs.compress_pre cv block bl t fl
      = Spec.rounds7 (Spec.initState cv t bl.toUInt32 fl.toUInt32) block := by
  unfold Gen.Rs.compress_pre Spec.rounds7
  simp only [rs_round_eq]
  rfl

theorem vec16_eta (s : St) : s = #v[s[0], s[1], s[2], s[3], s[4], s[5], s[6], s[7],
    s[8], s[9], s[10], s[11], s[12], s[13], s[14], s[15]] := by
  apply Vector.ext
  intro i hi
  match i, hi with
  | 0, _ | 1, _ | 2, _ | 3, _ | 4, _ | 5, _ | 6, _ | 7, _
  | 8, _ | 9, _ | 10, _ | 11, _ | 12, _ | 13, _ | 14, _ | 15, _ => rfl
  | n + 16, h => omega

set_option maxHeartbeats 4000000 in
theorem rs_compress_xof_eq (cv : CV) (block : St) (bl : UInt8) (t : UInt64) (fl : UInt8) :
    Gen.Rs.compress_xof cv block bl t fl = Spec.compress cv block t bl.toUInt32 fl.toUInt32 := by
  unfold Gen.Rs.compress_xof Spec.compress
  rw [rs_compress_pre_eq]
  generalize Spec.rounds7 _ _ = v
  rw [vec16_eta v]
  generalize v[0] = a0; generalize v[1] = a1; generalize v[2] = a2; generalize v[3] = a3
  generalize v[4] = a4; generalize v[5] = a5; generalize v[6] = a6; generalize v[7] = a7
  generalize v[8] = a8; generalize v[9] = a9; generalize v[10] = a10; generalize v[11] = a11
  generalize v[12] = a12; generalize v[13] = a13; generalize v[14] = a14; generalize v[15] = a15
  rfl

theorem vec8_eta (s : CV) : s = #v[s[0], s[1], s[2], s[3], s[4], s[5], s[6], s[7]] := by
  apply Vector.ext
  intro i hi
  match i, hi with
  | 0, _ | 1, _ | 2, _ | 3, _ | 4, _ | 5, _ | 6, _ | 7, _ => rfl
  | n + 8, h => omega

theorem rs_compress_in_place_eq (cv : CV) (block : St) (bl : UInt8) (t : UInt64) (fl : UInt8) :
    Gen.Rs.compress_in_place cv block bl t fl
      = first8 (Spec.compress cv block t bl.toUInt32 fl.toUInt32) := by
  unfold Gen.Rs.compress_in_place Spec.compress
  rw [rs_compress_pre_eq]
  generalize Spec.rounds7 _ _ = v
  rw [vec16_eta v, vec8_eta cv]
  generalize v[0] = a0; generalize v[1] = a1; generalize v[2] = a2; generalize v[3] = a3
  generalize v[4] = a4; generalize v[5] = a5; generalize v[6] = a6; generalize v[7] = a7
  generalize v[8] = a8; generalize v[9] = a9; generalize v[10] = a10; generalize v[11] = a11
  generalize v[12] = a12; generalize v[13] = a13; generalize v[14] = a14; generalize v[15] = a15
  rfl

end B3.Proofs

/-! ### reference_impl.rs -/
namespace B3.Proofs
open B3

theorem ref_g_eq : @Gen.Ref.g = @Spec.g := rfl

theorem ref_round_eq (s m : St) : Gen.Ref.round s m = Spec.round s m := by
  unfold Gen.Ref.round
  simp only [ref_g_eq]
  rfl

theorem ref_perm : Gen.Ref.MSG_PERMUTATION = Spec.sigma := by decide

theorem ref_permute_eq (m : St) : Gen.Ref.permute m = Spec.permute m := by
  unfold Gen.Ref.permute Spec.permute
  rw [vec16_eta m]
  generalize m[0] = a0; generalize m[1] = a1; generalize m[2] = a2; generalize m[3] = a3
  generalize m[4] = a4; generalize m[5] = a5; generalize m[6] = a6; generalize m[7] = a7
  generalize m[8] = a8; generalize m[9] = a9; generalize m[10] = a10; generalize m[11] = a11
  generalize m[12] = a12; generalize m[13] = a13; generalize m[14] = a14; generalize m[15] = a15
  rfl

theorem ref_iv : Gen.Ref.IV = Spec.IV := by decide

theorem ref_compress_rounds_eq (cv : CV) (m : St) (t : UInt64) (b d : UInt32) :
    Gen.Ref.compress_rounds cv m t b d = Spec.rounds7 (Spec.initState cv t b d) m := by
  unfold Gen.Ref.compress_rounds Spec.rounds7
  simp only [ref_round_eq, ref_permute_eq]
  rw [ref_iv]
  rfl

set_option maxHeartbeats 4000000 in
theorem ref_compress_eq (cv : CV) (m : St) (t : UInt64) (b d : UInt32) :
    Gen.Ref.compress cv m t b d = Spec.compress cv m t b d := by
  unfold Gen.Ref.compress Spec.compress
  rw [ref_compress_rounds_eq]
  generalize Spec.rounds7 _ _ = v
  rw [vec16_eta v, vec8_eta cv]
  generalize v[0] = a0; generalize v[1] = a1; generalize v[2] = a2; generalize v[3] = a3
  generalize v[4] = a4; generalize v[5] = a5; generalize v[6] = a6; generalize v[7] = a7
  generalize v[8] = a8; generalize v[9] = a9; generalize v[10] = a10; generalize v[11] = a11
  generalize v[12] = a12; generalize v[13] = a13; generalize v[14] = a14; generalize v[15] = a15
  rfl

end B3.Proofs

/-! ### c/blake3_portable.c -/
namespace B3.Proofs
open B3

theorem c_g_eq : @Gen.C.g = @Spec.g := rfl

theorem c_sched_eq : ∀ r : Fin 7, ∀ i : Fin 16, Gen.C.MSG_SCHEDULE[r][i] = sigmaPow r i := by decide

theorem c_round_eq (s m : St) (r : Fin 7) : Gen.C.round_fn s m r = Spec.round s (permN r m) := by
  have h : Gen.C.round_fn s m r = Spec.roundWith s (fun i => m[Gen.C.MSG_SCHEDULE[r][i]]) := by
    unfold Gen.C.round_fn
    simp only [c_g_eq]
    rfl
  rw [h, Spec.round]
  congr 1; funext i
  simp only [permN_get, c_sched_eq]

theorem c_iv : Gen.C.IV = Spec.IV := by decide

theorem set16_all (a : St) (x0 x1 x2 x3 x4 x5 x6 x7 x8 x9 x10 x11 x12 x13 x14 x15 : UInt32) :
    (((((((((((((((((a.set 0 x0).set 1 x1).set 2 x2).set 3 x3).set 4 x4).set 5 x5).set 6 x6).set 7 x7).set 8 x8).set 9 x9).set 10 x10).set 11 x11).set 12 x12).set 13 x13).set 14 x14).set 15 x15)
      = #v[x0, x1, x2, x3, x4, x5, x6, x7, x8, x9, x10, x11, x12, x13, x14, x15]) := by
  rw [vec16_eta a]
  generalize a[0] = a0; generalize a[1] = a1; generalize a[2] = a2; generalize a[3] = a3
  generalize a[4] = a4; generalize a[5] = a5; generalize a[6] = a6; generalize a[7] = a7
  generalize a[8] = a8; generalize a[9] = a9; generalize a[10] = a10; generalize a[11] = a11
  generalize a[12] = a12; generalize a[13] = a13; generalize a[14] = a14; generalize a[15] = a15
  rfl

theorem set8_all (a : CV) (x0 x1 x2 x3 x4 x5 x6 x7 : UInt32) :
    (((((((((a.set 0 x0).set 1 x1).set 2 x2).set 3 x3).set 4 x4).set 5 x5).set 6 x6).set 7 x7) = #v[x0, x1, x2, x3, x4, x5, x6, x7]) := by
  rw [vec8_eta a]
  generalize a[0] = a0; generalize a[1] = a1; generalize a[2] = a2; generalize a[3] = a3
  generalize a[4] = a4; generalize a[5] = a5; generalize a[6] = a6; generalize a[7] = a7
  rfl

/-- `compress_pre` overwrites all 16 state words (whatever the caller's array held) and all 16
message words, then runs the seven rounds -/
theorem c_compress_pre_eq (st : St) (cv : CV) (block : St) (bl : UInt8) (t : UInt64) (fl : UInt8) :
    Gen.C.compress_pre st cv block bl t fl = Spec.rounds7 (Spec.initState cv t bl.toUInt32 fl.toUInt32) block := by
  unfold Gen.C.compress_pre Spec.rounds7
  simp only [c_round_eq, set16_all]
  rw [c_iv, ← vec16_eta block]
  rfl

theorem c_compress_in_place_eq (cv : CV) (block : St) (bl : UInt8) (t : UInt64) (fl : UInt8) :
    Gen.C.compress_in_place cv block bl t fl = first8 (Spec.compress cv block t bl.toUInt32 fl.toUInt32) := by
  unfold Gen.C.compress_in_place Spec.compress
  simp only [c_compress_pre_eq, set8_all]
  rfl

theorem c_compress_xof_eq (cv : CV) (block : St) (bl : UInt8) (t : UInt64) (fl : UInt8) :
    Gen.C.compress_xof cv block bl t fl = Spec.compress cv block t bl.toUInt32 fl.toUInt32 := by
  unfold Gen.C.compress_xof Spec.compress
  simp only [c_compress_pre_eq, set16_all]
  rfl

end B3.Proofs
