/-
The control skeleton of the Rust `Hasher` as translated from src/lib.rs (Gen/Skeleton.lean:
`merge_cv_stack`, `push_cv`, `final_output`, with their `while` loops as fuel loops, `pop().unwrap()`
and slice indexing as panicking operations) equals the model's functions, and never panics on the
states the model's invariant allows.
-/
import B3.Gen.Skeleton
import B3.Model.Rs
import B3.Tree.Stack
import B3.Proofs.Hasher
namespace B3.Proofs
open B3 B3.Arith B3.Gen.Rs

theorem popcnt_eq_popcount (n : Nat) : Arith.popcnt n = St.popcount n := by
  induction n using Nat.strongRecOn with
  | ind n ih =>
    rw [Arith.popcnt, St.popcount]
    by_cases h : n = 0
    · simp [h]
    · rw [dif_neg h, dif_neg h, ih (n / 2) (by omega)]

theorem popcount_pos (n : Nat) (h : n ≠ 0) : 1 ≤ St.popcount n := by
  induction n using Nat.strongRecOn with
  | ind n ih =>
    rw [St.popcount, dif_neg h]
    by_cases h1 : n % 2 = 1
    · omega
    · have := ih (n / 2) (by omega) (by omega); omega

theorem pop_ok {α : Type} (s : List α) (d : α) (h : s ≠ []) : Arith.pop s = .ok (s.getLastD d, s.dropLast) := by
  unfold Arith.pop
  cases hs : s.getLast? with
  | none => exact absurd (List.getLast?_eq_none_iff.mp hs) h
  | some x =>
    simp only []
    have : s.getLastD d = x := by
      rw [List.getLastD_eq_getLast?, hs]; rfl
    rw [this]

section
variable {Out : Type} (po : CV → CV → Out) (ch : Out → CV)

/-- the generated merge loop = the model's `mergeStack`, whenever the stack cannot be driven to a
single entry with target 0 (where the code's second `pop().unwrap()` panics) -/
theorem merge_loop_eq (d : CV) (fuel : Nat) (s : List CV) (target : Nat) (hf : s.length < fuel)
    (ht : 1 ≤ target ∨ s = []) :
    Skel.merge_cv_stack_loop po ch fuel s target
      = .ok (Hs.mergeStack (fun l r => ch (po l r)) d target s) := by
  induction fuel generalizing s with
  | zero => omega
  | succ fuel ih =>
    rw [Skel.merge_cv_stack_loop, Hs.mergeStack]
    by_cases hc : s.length > target
    · have h2 : 2 ≤ s.length := by
        rcases ht with h | h
        · omega
        · subst h; simp at hc
      have hne : s ≠ [] := by intro h; subst h; simp at h2
      have hne2 : s.dropLast ≠ [] := by
        intro h; have := congrArg List.length h; simp at this; omega
      rw [if_pos hc, dif_pos ⟨hc, h2⟩]
      simp only [bind, pop_ok s d hne, pop_ok s.dropLast d hne2]
      have hlen : (s.dropLast.dropLast ++ [ch (po (s.dropLast.getLastD d) (s.getLastD d))]).length < fuel := by
        simp; omega
      have := ih (s.dropLast.dropLast ++ [ch (po (s.dropLast.getLastD d) (s.getLastD d))]) hlen
        (by rcases ht with h | h
            · exact Or.inl h
            · subst h; simp at hc)
      exact this
    · rw [if_neg hc, dif_neg (by omega)]; rfl

theorem merge_cv_stack_eq (d : CV) (s : List CV) (t0 t : Nat) (h1 : t0 ≤ t) (h2 : t0 < t ∨ s = []) :
    Skel.merge_cv_stack po ch s t0 t
      = .ok (Hs.mergeStack (fun l r => ch (po l r)) d (St.popcount (t - t0)) s) := by
  unfold Skel.merge_cv_stack
  have e1 : csub t t0 = .ok (t - t0) := by unfold csub; rw [if_pos h1]
  rw [e1]
  simp only [bind, popcnt_eq_popcount]
  rw [merge_loop_eq po ch d (s.length + 1) s _ (by omega)
    (by rcases h2 with h | h
        · exact Or.inl (popcount_pos _ (by omega))
        · exact Or.inr h)]

theorem push_cv_eq (d : CV) (s : List CV) (t0 : Nat) (cv : CV) (t : Nat) (h1 : t0 ≤ t) (h2 : t0 < t ∨ s = []) :
    Skel.push_cv po ch s t0 cv t
      = .ok (Hs.mergeStack (fun l r => ch (po l r)) d (St.popcount (t - t0)) s ++ [cv]) := by
  unfold Skel.push_cv
  rw [merge_cv_stack_eq po ch d s t0 t h1 h2]
  rfl

theorem getIdx_ok {α : Type} (s : List α) (i : Nat) (d : α) (h : i < s.length) : Arith.getIdx s i = .ok (s.getD i d) := by
  unfold Arith.getIdx
  rw [List.getElem?_eq_getElem h]
  simp [List.getD, List.getElem?_eq_getElem h]

theorem take_succ_foldr {β : Type} (f : CV → β → β) (s : List CV) (n : Nat) (d : CV) (h : n < s.length) (out : β) :
    (s.take (n + 1)).foldr f out = (s.take n).foldr f (f (s.getD n d) out) := by
  rw [List.take_succ, List.foldr_append]
  simp [List.getElem?_eq_getElem h, List.getD]

/-- the generated `while num_cvs_remaining > 0` loop is a right fold over the first `n` entries -/
theorem final_loop_eq (d : CV) (fuel : Nat) (s : List CV) (out : Out) (n : Nat) (hf : n < fuel) (hn : n ≤ s.length) :
    Skel.final_output_loop po ch fuel out n s
      = .ok ((s.take n).foldr (fun cv o => po cv (ch o)) out, 0) := by
  induction fuel generalizing out n with
  | zero => omega
  | succ fuel ih =>
    rw [Skel.final_output_loop]
    cases n with
    | zero => simp; rfl
    | succ n =>
      rw [if_pos (by omega)]
      have e1 : csub (n + 1) 1 = .ok n := by unfold csub; rw [if_pos (by omega)]; rfl
      simp only [bind, e1, getIdx_ok s n d (by omega)]
      rw [ih _ n (by omega) (by omega), take_succ_foldr _ s n d (by omega)]

end

/-- **`final_output`, as translated from the source, is the model's `finalOutput`** and does not
panic, for every hasher whose stack is empty, or whose chunk state holds input, or whose stack has at
least two entries (the three cases the representation invariant allows) -/
theorem final_output_eq (K : Kern) (h : Rs.Hasher) (hok : h.stack = [] ∨ 0 < h.cs.count ∨ 2 ≤ h.stack.length) :
    Skel.final_output (Rs.parentOutput h.key h.cs.flags) (Rs.chain K) h.stack h.cs.output h.cs.count
      = .ok (h.finalOutput K) := by
  unfold Skel.final_output Rs.Hasher.finalOutput
  by_cases he : h.stack.isEmpty = true
  · rw [if_pos he, if_pos he]; rfl
  · rw [if_neg he, if_neg he]
    have hne : h.stack ≠ [] := by intro hh; rw [hh] at he; simp at he
    by_cases hc : 0 < h.cs.count
    · simp only [gt_iff_lt, hc, if_true, bind, pure]
      rw [final_loop_eq _ _ h.key _ h.stack _ _ (by omega) (by omega)]
    · have h2 : 2 ≤ h.stack.length := by
        rcases hok with a | a | a
        · exact absurd a hne
        · exact absurd a hc
        · exact a
      have e1 : csub h.stack.length 2 = .ok (h.stack.length - 2) := by unfold csub; rw [if_pos h2]
      have e2 : csub h.stack.length 1 = .ok (h.stack.length - 1) := by unfold csub; rw [if_pos (by omega)]
      simp only [gt_iff_lt, hc, if_false, bind, pure, e1, e2, getIdx_ok h.stack (h.stack.length - 2) h.key (by omega),
        getIdx_ok h.stack (h.stack.length - 1) h.key (by omega)]
      rw [final_loop_eq _ _ h.key _ h.stack _ _ (by omega) (by omega)]

/-- `merge_cv_stack` / `push_cv` as translated = the model's, for every hasher and chunk counter at
or beyond the initial one (strictly beyond, unless the stack is empty) -/
theorem merge_cv_stack_model (K : Kern) (h : Rs.Hasher) (t : Nat) (h1 : h.t0 ≤ t) (h2 : h.t0 < t ∨ h.stack = []) :
    Skel.merge_cv_stack (Rs.parentOutput h.key h.cs.flags) (Rs.chain K) h.stack h.t0 t = .ok (h.mergeCvStack K t).stack :=
  merge_cv_stack_eq _ _ h.key h.stack h.t0 t h1 h2

theorem push_cv_model (K : Kern) (h : Rs.Hasher) (cv : CV) (t : Nat) (h1 : h.t0 ≤ t) (h2 : h.t0 < t ∨ h.stack = []) :
    Skel.push_cv (Rs.parentOutput h.key h.cs.flags) (Rs.chain K) h.stack h.t0 cv t = .ok (h.pushCv K cv t).stack :=
  push_cv_eq _ _ h.key h.stack h.t0 cv t h1 h2

theorem lazy_zero_nil {xs : List Nat} (h : St.Lazy 0 xs) : xs = [] := by
  generalize hT : (0 : Nat) = T at h
  induction h with
  | canon => subst hT; exact St.bd_zero
  | merge xs s _ ih => simp at ih

/-- every state the representation invariant allows is one on which the translated `final_output`
does not panic: empty stack, or input in the chunk state, or at least two stack entries -/
theorem rep_final_ok (h : Rs.Hasher) (m : List UInt8) (hr : Rep h m) :
    h.stack = [] ∨ 0 < h.cs.count ∨ 2 ≤ h.stack.length := by
  obtain ⟨done, tail, bs, hm, htl, hcs, hi, hcan, h2⟩ := hr
  have hst : h.stack = bs.map (Tr.collapse (Spec.parentCV h.key h.cs.flags) h.key) := hi.st
  by_cases ht : tail = []
  · by_cases hT : 0 < h.cs.t - h.t0
    · right; right; rw [hst, List.length_map]; exact h2 ht hT
    · left
      have hz : h.cs.t - h.t0 = 0 := by omega
      have hl := hi.lz
      simp only [Rs.Hasher.toH] at hl
      rw [hz] at hl
      have := lazy_zero_nil hl
      have hb : bs = [] := by simpa using this
      rw [hst, hb]; rfl
  · right; left
    have hcount : h.cs.count = tail.length := by rw [hcs, new_update_count]
    rw [hcount]
    exact List.length_pos_iff.mpr ht

end B3.Proofs
