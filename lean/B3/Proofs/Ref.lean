/-
Helper lemmas for C15 (first half): the model of reference_impl.rs (`B3.Ref`) against the
specification.  Property theorems are in `B3/Props/C15.lean`.
-/
import B3.Model.Ref
import B3.Tree.Basic
import B3.Tree.Stack
import B3.Tree.Final
import B3.Tree.Hasher
namespace B3.Proofs.Ref
open B3 B3.Ref

/-! ### constants and flags -/

theorem iv_eq : Ref.IV = Spec.IV := rfl

theorem flag_consts :
    CHUNK_START = Spec.CHUNK_START.toUInt32 ∧ CHUNK_END = Spec.CHUNK_END.toUInt32 ∧
    PARENT = Spec.PARENT.toUInt32 ∧ ROOT = Spec.ROOT.toUInt32 ∧ KEYED_HASH = Spec.KEYED_HASH.toUInt32 ∧
    DERIVE_KEY_CONTEXT = Spec.DERIVE_KEY_CONTEXT.toUInt32 ∧ DERIVE_KEY_MATERIAL = Spec.DERIVE_KEY_MATERIAL.toUInt32 := by
  decide

/-- the reference's `Output` that corresponds to a specification node -/
def ofNode (n : Spec.Node) : Output :=
  { inputChainingValue := n.cv, blockWords := n.block, counter := n.t, blockLen := n.blen, flags := n.flags.toUInt32 }

theorem chainingValue_ofNode (n : Spec.Node) : (ofNode n).chainingValue Spec.compress = n.chain := rfl

theorem parentOutput_eq (key : CV) (fl : UInt8) (l r : CV) :
    parentOutput l r key fl.toUInt32 = ofNode (Spec.parentNode key fl l r) := by
  simp only [parentOutput, ofNode, Spec.parentNode, UInt8.toUInt32_or, Output.mk.injEq, true_and]
  rw [flag_consts.2.2.1, UInt32.or_comm]

theorem parentCv_eq (key : CV) (fl : UInt8) (l r : CV) :
    parentCv Spec.compress l r key fl.toUInt32 = Spec.parentCV key fl l r := by
  rw [parentCv, parentOutput_eq, chainingValue_ofNode]; rfl

/-! ### ChunkState -/

section chunk
variable (cmp : Cmp)

/-- the representation invariant of `ChunkState`: `block_len ≤ BLOCK_LEN` -/
def CsWF (cs : ChunkState) : Prop := cs.block.length ≤ 64

theorem cs_update_nil (cs : ChunkState) : cs.update cmp [] = cs := by
  rw [ChunkState.update]; simp

theorem cs_update_step (cs : ChunkState) (x : List UInt8) (hx : x ≠ []) :
    cs.update cmp x =
      if min (64 - (cs.compressFullBlock cmp).block.length) x.length = 0 then cs.compressFullBlock cmp else
        ChunkState.update cmp
          { (cs.compressFullBlock cmp) with block := (cs.compressFullBlock cmp).block ++ x.take (min (64 - (cs.compressFullBlock cmp).block.length) x.length) }
          (x.drop (min (64 - (cs.compressFullBlock cmp).block.length) x.length)) := by
  rw [ChunkState.update]
  rw [dif_neg hx]
  simp only [dite_eq_ite]

theorem compressFullBlock_of_lt (cs : ChunkState) (h : cs.block.length < 64) : cs.compressFullBlock cmp = cs := by
  unfold ChunkState.compressFullBlock
  rw [if_neg]
  simp only [ChunkState.blockLen, BLOCK_LEN]; omega

theorem compressFullBlock_block (cs : ChunkState) (h : CsWF cs) : (cs.compressFullBlock cmp).block.length < 64 := by
  unfold ChunkState.compressFullBlock
  unfold CsWF at h
  split
  · simp
  · simp only [ChunkState.blockLen, BLOCK_LEN] at *; omega

theorem compressFullBlock_idem (cs : ChunkState) (h : CsWF cs) :
    (cs.compressFullBlock cmp).compressFullBlock cmp = cs.compressFullBlock cmp :=
  compressFullBlock_of_lt cmp _ (compressFullBlock_block cmp cs h)

/-- the first action of `update` on non-empty input can be done beforehand -/
theorem cs_update_flush (cs : ChunkState) (x : List UInt8) (hx : x ≠ []) (h : CsWF cs) :
    cs.update cmp x = (cs.compressFullBlock cmp).update cmp x := by
  rw [cs_update_step cmp cs x hx, cs_update_step cmp (cs.compressFullBlock cmp) x hx, compressFullBlock_idem cmp cs h]

/-- a prefix that fits into the block buffer is simply appended to it -/
theorem cs_absorb_prefix (cs : ChunkState) (x y : List UInt8) (h1 : cs.block.length < 64)
    (h2 : cs.block.length + x.length ≤ 64) :
    cs.update cmp (x ++ y) = ChunkState.update cmp { cs with block := cs.block ++ x } y := by
  by_cases hx : x = []
  · subst hx; simp
  have hxl := List.length_pos_iff.mpr hx
  by_cases hy : y = []
  · subst hy
    rw [List.append_nil, cs_update_nil, cs_update_step cmp cs x hx, compressFullBlock_of_lt cmp cs h1]
    have e : min (64 - cs.block.length) x.length = x.length := by omega
    rw [e, if_neg (by omega), List.take_length, List.drop_length, cs_update_nil]
  have hyl := List.length_pos_iff.mpr hy
  rw [cs_update_step cmp cs (x ++ y) (by simp [hx]), compressFullBlock_of_lt cmp cs h1]
  by_cases hfull : cs.block.length + x.length = 64
  · have e : min (64 - cs.block.length) (x ++ y).length = x.length := by simp only [List.length_append]; omega
    rw [e, if_neg (by omega), List.take_left' rfl, List.drop_left' rfl]
  · rw [cs_update_step cmp { cs with block := cs.block ++ x } y hy,
      compressFullBlock_of_lt cmp { cs with block := cs.block ++ x } (by simp; omega)]
    have e : min (64 - cs.block.length) (x ++ y).length = x.length + min (64 - (cs.block ++ x).length) y.length := by
      simp only [List.length_append]; omega
    rw [e, if_neg (by simp only [List.length_append]; omega), if_neg (by simp only [List.length_append]; omega)]
    simp only [List.take_append, List.drop_append, List.append_assoc]
    have t1 : List.take (x.length + min (64 - (cs.block ++ x).length) y.length) x = x :=
      List.take_of_length_le (by omega)
    have t2 : List.drop (x.length + min (64 - (cs.block ++ x).length) y.length) x = [] :=
      List.drop_of_length_le (by omega)
    rw [t1, t2]
    simp

theorem cs_absorb_small (cs : ChunkState) (x : List UInt8) (h1 : cs.block.length < 64)
    (h2 : cs.block.length + x.length ≤ 64) :
    cs.update cmp x = { cs with block := cs.block ++ x } := by
  have := cs_absorb_prefix cmp cs x [] h1 h2
  rwa [List.append_nil, cs_update_nil] at this

theorem compressFullBlock_wf (cs : ChunkState) (h : CsWF cs) : CsWF (cs.compressFullBlock cmp) := by
  have := compressFullBlock_block cmp cs h
  unfold CsWF; omega

theorem compressFullBlock_len (cs : ChunkState) : (cs.compressFullBlock cmp).len = cs.len := by
  unfold ChunkState.compressFullBlock
  split
  · rename_i h; simp only [ChunkState.len, ChunkState.blockLen, BLOCK_LEN] at *; simp; omega
  · rfl

theorem compressFullBlock_counter (cs : ChunkState) :
    (cs.compressFullBlock cmp).chunkCounter = cs.chunkCounter ∧ (cs.compressFullBlock cmp).flags = cs.flags := by
  unfold ChunkState.compressFullBlock
  split <;> exact ⟨rfl, rfl⟩

/-- what `update` preserves and how it counts: the representation invariant, `len`, the chunk
counter and the flags -/
theorem cs_update_facts : ∀ (n : Nat) (cs : ChunkState) (x : List UInt8), x.length = n → CsWF cs →
    CsWF (cs.update cmp x) ∧ (cs.update cmp x).len = cs.len + x.length ∧
    (cs.update cmp x).chunkCounter = cs.chunkCounter ∧ (cs.update cmp x).flags = cs.flags := by
  intro n
  induction n using Nat.strongRecOn with
  | _ n ih =>
    intro cs x hn hw
    by_cases hx : x = []
    · subst hx; rw [cs_update_nil]; exact ⟨hw, by simp, rfl, rfl⟩
    have hxl := List.length_pos_iff.mpr hx
    rw [cs_update_flush cmp cs x hx hw]
    have hb := compressFullBlock_block cmp cs hw
    have hl := compressFullBlock_len cmp cs
    have hc := compressFullBlock_counter cmp cs
    generalize cs.compressFullBlock cmp = c1 at hb hl hc
    by_cases hs : c1.block.length + x.length ≤ 64
    · rw [cs_absorb_small cmp c1 x hb hs]
      refine ⟨?_, ?_, hc.1, hc.2⟩
      · simp only [CsWF, List.length_append]; omega
      · simp only [ChunkState.len, ChunkState.blockLen, List.length_append] at hl ⊢; omega
    · have e : x = x.take (64 - c1.block.length) ++ x.drop (64 - c1.block.length) := (List.take_append_drop _ _).symm
      have ht : (x.take (64 - c1.block.length)).length = 64 - c1.block.length := by
        rw [List.length_take]; omega
      rw [e, cs_absorb_prefix cmp c1 _ _ hb (by omega)]
      obtain ⟨i1, i2, i3, i4⟩ := ih (x.drop (64 - c1.block.length)).length (by rw [List.length_drop]; omega)
        { c1 with block := c1.block ++ x.take (64 - c1.block.length) } (x.drop (64 - c1.block.length)) rfl
        (by simp only [CsWF, List.length_append]; omega)
      refine ⟨i1, ?_, i3.trans hc.1, i4.trans hc.2⟩
      rw [i2, ← e]
      simp only [ChunkState.len, ChunkState.blockLen, List.length_append, List.length_drop] at hl ⊢; omega

theorem cs_update_wf (cs : ChunkState) (x : List UInt8) (h : CsWF cs) : CsWF (cs.update cmp x) :=
  (cs_update_facts cmp x.length cs x rfl h).1

theorem cs_update_len (cs : ChunkState) (x : List UInt8) (h : CsWF cs) : (cs.update cmp x).len = cs.len + x.length :=
  (cs_update_facts cmp x.length cs x rfl h).2.1

theorem cs_new_wf (key : CV) (t : Nat) (fl : UInt32) : CsWF (ChunkState.new key t fl) := by
  simp [CsWF, ChunkState.new]

/-- `ChunkState::update` is independent of how its input is split -/
theorem cs_update_append : ∀ (n : Nat) (cs : ChunkState) (x y : List UInt8), x.length = n → CsWF cs →
    (cs.update cmp x).update cmp y = cs.update cmp (x ++ y) := by
  intro n
  induction n using Nat.strongRecOn with
  | _ n ih =>
    intro cs x y hn hw
    by_cases hx : x = []
    · subst hx; rw [cs_update_nil]; rfl
    have hxl := List.length_pos_iff.mpr hx
    rw [cs_update_flush cmp cs x hx hw, cs_update_flush cmp cs (x ++ y) (by simp [hx]) hw]
    have hb := compressFullBlock_block cmp cs hw
    generalize cs.compressFullBlock cmp = c1 at hb
    by_cases hs : c1.block.length + x.length ≤ 64
    · rw [cs_absorb_small cmp c1 x hb hs, cs_absorb_prefix cmp c1 x y hb hs]
    · have e : x = x.take (64 - c1.block.length) ++ x.drop (64 - c1.block.length) := (List.take_append_drop _ _).symm
      have ht : (x.take (64 - c1.block.length)).length = 64 - c1.block.length := by
        rw [List.length_take]; omega
      conv => lhs; rw [e]
      conv => rhs; rw [e, List.append_assoc]
      rw [cs_absorb_prefix cmp c1 _ _ hb (by omega), cs_absorb_prefix cmp c1 _ _ hb (by omega)]
      exact ih (x.drop (64 - c1.block.length)).length (by rw [List.length_drop]; omega) _ _ y rfl
        (by simp only [CsWF, List.length_append]; omega)

end chunk
/-! ### ChunkState against `Spec.chunkGo` -/

theorem startFlag_eq (cs : ChunkState) :
    cs.startFlag = (Spec.startFlag (decide (cs.blocksCompressed = 0))).toUInt32 := by
  unfold ChunkState.startFlag Spec.startFlag
  by_cases h : cs.blocksCompressed = 0 <;> simp [h] <;> decide

/-- `output` of a state is the specification's last-block node over the buffered bytes -/
theorem cs_output_eq (fl : UInt8) (cs : ChunkState) (hw : CsWF cs) (hf : cs.flags = fl.toUInt32) :
    cs.output = ofNode (Spec.chunkGo fl cs.chunkCounter cs.chainingValue (decide (cs.blocksCompressed = 0)) cs.block) := by
  have hw' : cs.block.length ≤ 64 := hw
  rw [Spec.chunkGo, dif_pos hw']
  simp only [ChunkState.output, ofNode, hf, startFlag_eq, UInt8.toUInt32_or, flag_consts.2.1]
  rfl

theorem chunkGo_full (fl : UInt8) (t : Nat) (cv : CV) (first : Bool) (b x : List UInt8) (hb : b.length = 64) (hx : x ≠ []) :
    Spec.chunkGo fl t cv first (b ++ x) =
      Spec.chunkGo fl t (first8 (Spec.compress cv (wordsOfBytes 16 b) (UInt64.ofNat t) 64 (fl ||| Spec.startFlag first).toUInt32))
        false x := by
  have hxl := List.length_pos_iff.mpr hx
  rw [Spec.chunkGo, dif_neg (by simp only [List.length_append]; omega), List.take_left' hb, List.drop_left' hb]

theorem cs_update_output (fl : UInt8) : ∀ (n : Nat) (cs : ChunkState) (x : List UInt8), x.length = n → CsWF cs →
    cs.flags = fl.toUInt32 →
    (cs.update Spec.compress x).output =
      ofNode (Spec.chunkGo fl cs.chunkCounter cs.chainingValue (decide (cs.blocksCompressed = 0)) (cs.block ++ x)) := by
  intro n
  induction n using Nat.strongRecOn with
  | _ n ih =>
    intro cs x hn hw hf
    by_cases hx : x = []
    · subst hx; rw [cs_update_nil, List.append_nil]; exact cs_output_eq fl cs hw hf
    have hxl := List.length_pos_iff.mpr hx
    rw [cs_update_flush Spec.compress cs x hx hw]
    -- the flush, on the specification side
    have hspec : Spec.chunkGo fl cs.chunkCounter cs.chainingValue (decide (cs.blocksCompressed = 0)) (cs.block ++ x) =
        Spec.chunkGo fl (cs.compressFullBlock Spec.compress).chunkCounter (cs.compressFullBlock Spec.compress).chainingValue
          (decide ((cs.compressFullBlock Spec.compress).blocksCompressed = 0))
          ((cs.compressFullBlock Spec.compress).block ++ x) := by
      unfold ChunkState.compressFullBlock
      split
      · rename_i h64
        rw [chunkGo_full fl _ _ _ cs.block x h64 hx]
        simp only [List.nil_append, Nat.add_eq_zero_iff, Nat.succ_ne_self, and_false, decide_false, hf, startFlag_eq,
          UInt8.toUInt32_or, first8Words, wordsFromLittleEndianBytes]
        rfl
      · rfl
    rw [hspec]
    have hb := compressFullBlock_block Spec.compress cs hw
    have hf1 : (cs.compressFullBlock Spec.compress).flags = fl.toUInt32 :=
      (compressFullBlock_counter Spec.compress cs).2.trans hf
    generalize cs.compressFullBlock Spec.compress = c1 at hb hf1
    by_cases hs : c1.block.length + x.length ≤ 64
    · rw [cs_absorb_small Spec.compress c1 x hb hs]
      exact cs_output_eq fl { c1 with block := c1.block ++ x } (by simp only [CsWF, List.length_append]; omega) hf1
    · have e : x = x.take (64 - c1.block.length) ++ x.drop (64 - c1.block.length) := (List.take_append_drop _ _).symm
      have ht : (x.take (64 - c1.block.length)).length = 64 - c1.block.length := by
        rw [List.length_take]; omega
      conv => lhs; rw [e]
      rw [cs_absorb_prefix Spec.compress c1 _ _ hb (by omega)]
      have := ih (x.drop (64 - c1.block.length)).length (by rw [List.length_drop]; omega)
        { c1 with block := c1.block ++ x.take (64 - c1.block.length) } (x.drop (64 - c1.block.length)) rfl
        (by simp only [CsWF, List.length_append]; omega) hf1
      rw [this]
      simp only [List.append_assoc, List.take_append_drop]

/-- a fresh chunk state after absorbing `b` in one call: `output` is the specification's chunk node -/
theorem cs_new_update_output (key : CV) (fl : UInt8) (t : Nat) (b : List UInt8) :
    ((ChunkState.new key t fl.toUInt32).update Spec.compress b).output = ofNode (Spec.chunkNode key fl t b) := by
  have := cs_update_output fl b.length (ChunkState.new key t fl.toUInt32) b rfl (cs_new_wf _ _ _) rfl
  rw [this]
  simp [ChunkState.new, Spec.chunkNode]

/-! ### `add_chunk_chaining_value` is the binary carry on blocks of leaves -/

section carry
open Tr St

theorem popcount_double (n : Nat) : popcount (2 * n) = popcount n := by
  by_cases h : n = 0
  · subst h; rfl
  · rw [popcount, dif_neg (by omega)]
    have : 2 * n / 2 = n := by omega
    rw [this]; omega

theorem popcount_double_succ (n : Nat) : popcount (2 * n + 1) = popcount n + 1 := by
  rw [popcount, dif_neg (by omega)]
  have : (2 * n + 1) / 2 = n := by omega
  rw [this]; omega

theorem popcount_lt_pow (k : Nat) : ∀ n, n < 2 ^ k → popcount n ≤ k := by
  induction k with
  | zero => intro n h; have : n = 0 := by simpa using h
            subst this; simp [popcount_zero]
  | succ k ih =>
    intro n h
    rw [Nat.pow_succ] at h
    rcases Nat.mod_two_eq_zero_or_one n with h2 | h2
    · have e : n = 2 * (n / 2) := by omega
      rw [e, popcount_double]; have := ih (n / 2) (by omega); omega
    · have e : n = 2 * (n / 2) + 1 := by omega
      rw [e, popcount_double_succ]; have := ih (n / 2) (by omega); omega

theorem popStack_concat (s : List CV) (x : CV) : popStack (s ++ [x]) = some (x, s) := by
  simp [popStack]

variable (key : CV) (fl : UInt8)

theorem addChunk_odd (stack : List CV) (cv : CV) (t : Nat) (h : t % 2 = 1) :
    addChunkChainingValue Spec.compress key fl.toUInt32 stack cv t = pushStack stack cv := by
  rw [addChunkChainingValue, if_neg (by omega)]

theorem addChunk_even (stack : List CV) (top cv : CV) (t : Nat) (h : t % 2 = 0) :
    addChunkChainingValue Spec.compress key fl.toUInt32 (stack ++ [top]) cv t =
      addChunkChainingValue Spec.compress key fl.toUInt32 stack (Spec.parentCV key fl top cv) (t / 2) := by
  rw [addChunkChainingValue, if_pos h]
  split
  · rename_i h'; rw [popStack_concat] at h'; cases h'
  · rename_i top' rest h'
    rw [popStack_concat] at h'
    cases h'
    rw [parentCv_eq]

/-- the carry: a stack of blocks of sizes `bd q · 2^k` receives a block of size `2^k` -/
theorem addChunk_carry : ∀ (q k : Nat) (bs : List (List CV)) (b : List CV),
    bs.map List.length = (bd q).map (· * 2 ^ k) → b.length = 2 ^ k → popcount (q + 1) ≤ 54 →
    ∃ bs' : List (List CV),
      addChunkChainingValue Spec.compress key fl.toUInt32 (bs.map (collapse (Spec.parentCV key fl) key))
        (collapse (Spec.parentCV key fl) key b) (q + 1) = some (bs'.map (collapse (Spec.parentCV key fl) key)) ∧
      bs'.flatten = bs.flatten ++ b ∧ bs'.map List.length = (bd (q + 1)).map (· * 2 ^ k) := by
  intro q
  induction q using Nat.strongRecOn with
  | _ q ih =>
    intro k bs b hbs hb hpc
    have hk := Nat.two_pow_pos k
    rcases Nat.mod_two_eq_zero_or_one q with h2 | h2
    · -- `q + 1` is odd: push
      have e : q = 2 * (q / 2) := by omega
      rw [addChunk_odd key fl _ _ _ (by omega)]
      have hlen : bs.length = popcount q := by
        have := congrArg List.length hbs
        simpa [bd_length] using this
      have hp1 : popcount (q + 1) = popcount q + 1 := by
        rw [e, popcount_double_succ, popcount_double]
      refine ⟨bs ++ [b], ?_, by simp, ?_⟩
      · rw [pushStack, if_pos (by rw [List.length_map]; simp only [STACK_CAP]; omega)]
        simp
      · rw [List.map_append, hbs]
        conv => rhs; rw [e, bd_double_succ, ← bd_double, ← e]
        simp [hb]
    · -- `q + 1` is even: pop, merge, carry on
      have e : q = 2 * (q / 2) + 1 := by omega
      have hbd : bd q = (bd (q / 2)).map (· * 2) ++ [1] := by
        conv => lhs; rw [e, bd_double_succ]
      rw [hbd, List.map_append] at hbs
      obtain ⟨l1, l2, rfl, h1, hl2⟩ := List.map_eq_append_iff.mp hbs
      match l2, hl2 with
      | [], hl2 => simp at hl2
      | _ :: _ :: _, hl2 => simp at hl2
      | [b1], hl2 =>
        simp only [List.map_cons, List.map_nil, Nat.one_mul, List.cons.injEq, and_true] at hl2
        rw [List.map_append, List.map_cons, List.map_nil, addChunk_even key fl _ _ _ _ (by omega)]
        have hA := collapse_append (Spec.parentCV key fl) key k b1 b hl2 (by omega) (by omega)
        rw [← hA]
        have hq : (q + 1) / 2 = q / 2 + 1 := by omega
        rw [hq]
        have hpow : 2 ^ (k + 1) = 2 * 2 ^ k := by rw [Nat.pow_succ]; omega
        obtain ⟨bs', r1, r2, r3⟩ := ih (q / 2) (by omega) (k + 1) l1 (b1 ++ b)
          (by rw [h1, List.map_map]; apply List.map_congr_left; intro x _; simp only [Function.comp, hpow]
              rw [Nat.mul_assoc])
          (by rw [List.length_append, hl2, hb, hpow]; omega)
          (by have : q + 1 = 2 * (q / 2 + 1) := by omega
              rw [this, popcount_double] at hpc; exact hpc)
        refine ⟨bs', r1, ?_, ?_⟩
        · rw [r2]; simp
        · rw [r3]
          have : q + 1 = 2 * (q / 2 + 1) := by omega
          conv => rhs; rw [this, bd_double, List.map_map]
          apply List.map_congr_left; intro x _; simp only [Function.comp, hpow]
          rw [Nat.mul_assoc]

/-- pushing the chaining value of chunk number `n` (0-based) onto the stack of `n` chunks -/
theorem addChunk_blocks (n : Nat) (bs : List (List CV)) (cv : CV) (hbs : bs.map List.length = bd n)
    (hpc : popcount (n + 1) ≤ 54) :
    ∃ bs' : List (List CV),
      addChunkChainingValue Spec.compress key fl.toUInt32 (bs.map (collapse (Spec.parentCV key fl) key)) cv (n + 1) =
        some (bs'.map (collapse (Spec.parentCV key fl) key)) ∧
      bs'.flatten = bs.flatten ++ [cv] ∧ bs'.map List.length = bd (n + 1) := by
  have := addChunk_carry key fl n 0 bs [cv] (by simpa using hbs) rfl hpc
  simpa [collapse_le_one] using this

end carry

/-! ### `Hasher::update`: unfolding, representation invariant, independence of the split -/

section hasher
variable (cmp : Cmp)

theorem h_update_nil (h : Hasher) : h.update cmp [] = some h := by
  rw [Hasher.update]; simp

/-- one iteration of the loop of `Hasher::update` -/
def hStep (h1 : Hasher) (x : List UInt8) : Option Hasher :=
  if min (1024 - h1.chunkState.len) x.length = 0 then none else
    Hasher.update cmp
      { h1 with chunkState := h1.chunkState.update cmp (x.take (min (1024 - h1.chunkState.len) x.length)) }
      (x.drop (min (1024 - h1.chunkState.len) x.length))

theorem h_update_step (h : Hasher) (x : List UInt8) (hx : x ≠ []) :
    h.update cmp x = (h.finishChunk cmp).bind fun h1 => hStep cmp h1 x := by
  rw [Hasher.update, dif_neg hx]
  cases h.finishChunk cmp with
  | none => rfl
  | some h1 => simp only [dite_eq_ite, Option.bind_some, hStep]

/-- the representation invariant of `Hasher` that `update` relies on -/
def HWF (h : Hasher) : Prop := CsWF h.chunkState

theorem finishChunk_wf (h h1 : Hasher) (hw : HWF h) (e : h.finishChunk cmp = some h1) :
    HWF h1 ∧ (h1.chunkState.len < 1024 ∨ h1.chunkState.len = h.chunkState.len) := by
  unfold Hasher.finishChunk at e
  split at e
  · dsimp only at e
    split at e
    · cases e
    · cases e; exact ⟨cs_new_wf _ _ _, Or.inl (by simp [ChunkState.new, ChunkState.len, ChunkState.blockLen])⟩
  · cases e; exact ⟨hw, Or.inr rfl⟩

theorem finishChunk_of_ne (h : Hasher) (hl : h.chunkState.len ≠ 1024) : h.finishChunk cmp = some h := by
  unfold Hasher.finishChunk; rw [if_neg hl]

theorem h_update_wf : ∀ (n : Nat) (h h' : Hasher) (x : List UInt8), x.length = n → HWF h →
    h.update cmp x = some h' → HWF h' := by
  intro n
  induction n using Nat.strongRecOn with
  | _ n ih =>
    intro h h' x hn hw e
    by_cases hx : x = []
    · subst hx; rw [h_update_nil] at e; cases e; exact hw
    have hxl := List.length_pos_iff.mpr hx
    rw [h_update_step cmp h x hx] at e
    cases hf : h.finishChunk cmp with
    | none => rw [hf] at e; cases e
    | some h1 =>
      rw [hf, Option.bind_some, hStep] at e
      split at e
      · cases e
      · rename_i ht
        refine ih _ ?_ _ h' _ rfl ?_ e
        · rw [List.length_drop]; omega
        · exact cs_update_wf cmp _ _ (finishChunk_wf cmp h h1 hw hf).1

/-- `Hasher::update` is independent of how its input is split -/
theorem h_update_append : ∀ (n : Nat) (h : Hasher) (x y : List UInt8), x.length = n → HWF h →
    (h.update cmp x).bind (fun h' => h'.update cmp y) = h.update cmp (x ++ y) := by
  intro n
  induction n using Nat.strongRecOn with
  | _ n ih =>
    intro h x y hn hw
    by_cases hx : x = []
    · subst hx; rw [h_update_nil]; rfl
    by_cases hy : y = []
    · subst hy
      rw [List.append_nil]
      cases h.update cmp x with
      | none => rfl
      | some h' => rw [Option.bind_some, h_update_nil]
    have hxl := List.length_pos_iff.mpr hx
    have hyl := List.length_pos_iff.mpr hy
    rw [h_update_step cmp h x hx, h_update_step cmp h (x ++ y) (by simp [hx])]
    cases hf : h.finishChunk cmp with
    | none => rfl
    | some h1 =>
      have hw1 := (finishChunk_wf cmp h h1 hw hf).1
      simp only [Option.bind_some]
      unfold hStep
      by_cases hz : 1024 - h1.chunkState.len = 0
      · rw [if_pos (by omega), if_pos (by omega)]; rfl
      by_cases hs : 1024 - h1.chunkState.len ≤ x.length
      · -- the first call fills the chunk
        have e1 : min (1024 - h1.chunkState.len) x.length = 1024 - h1.chunkState.len := by omega
        have e2 : min (1024 - h1.chunkState.len) (x ++ y).length = 1024 - h1.chunkState.len := by
          simp only [List.length_append]; omega
        rw [e1, e2, if_neg hz, if_neg hz, List.take_append_of_le_length hs, List.drop_append_of_le_length hs]
        exact ih _ (by rw [List.length_drop]; omega) _ _ y rfl (cs_update_wf cmp _ _ hw1)
      · -- the first call leaves the chunk short of 1024 bytes
        have e1 : min (1024 - h1.chunkState.len) x.length = x.length := by omega
        have e2 : min (1024 - h1.chunkState.len) (x ++ y).length =
            x.length + min (1024 - (h1.chunkState.len + x.length)) y.length := by
          simp only [List.length_append]; omega
        rw [e1, e2, if_neg (by omega), if_neg (by omega), List.take_length, List.drop_length, h_update_nil,
          Option.bind_some]
        have hlen := cs_update_len cmp h1.chunkState x hw1
        rw [h_update_step cmp _ y hy, finishChunk_of_ne cmp _ (by simp only []; omega), Option.bind_some]
        unfold hStep
        simp only [hlen]
        rw [if_neg (by omega), cs_update_append cmp _ _ _ _ rfl hw1]
        simp only [List.take_append, List.drop_append]
        have t1 : List.take (x.length + min (1024 - (h1.chunkState.len + x.length)) y.length) x = x :=
          List.take_of_length_le (by omega)
        have t2 : List.drop (x.length + min (1024 - (h1.chunkState.len + x.length)) y.length) x = [] :=
          List.drop_of_length_le (by omega)
        rw [t1, t2]
        simp

theorem h_updates_wf (xs : List (List UInt8)) : ∀ (h h' : Hasher), HWF h → h.updates cmp xs = some h' → HWF h' := by
  induction xs with
  | nil => intro h h' hw e; simp only [Hasher.updates] at e; cases e; exact hw
  | cons x xs ih =>
    intro h h' hw e
    simp only [Hasher.updates] at e
    cases hu : h.update cmp x with
    | none => rw [hu] at e; cases e
    | some h1 => rw [hu] at e; exact ih h1 h' (h_update_wf cmp _ h h1 x rfl hw hu) e

/-- any sequence of `update` calls is one `update` call with the concatenation -/
theorem h_updates_eq (xs : List (List UInt8)) : ∀ (h : Hasher), HWF h → h.updates cmp xs = h.update cmp xs.flatten := by
  induction xs with
  | nil => intro h _; simp [Hasher.updates, h_update_nil]
  | cons x xs ih =>
    intro h hw
    rw [List.flatten_cons, ← h_update_append cmp _ h x xs.flatten rfl hw]
    simp only [Hasher.updates]
    cases hu : h.update cmp x with
    | none => rfl
    | some h1 => exact ih h1 (h_update_wf cmp _ h h1 x rfl hw hu)

theorem h_new_wf (key : CV) (fl : UInt32) : HWF (Hasher.new key fl) := cs_new_wf _ _ _

end hasher

/-! ### the invariant of `Hasher::update` -/

section inv
open Tr St Hs
variable (key : CV) (fl : UInt8)

/-- chaining value of chunk number `t` with content `c` -/
def leaf (t : Nat) (c : List UInt8) : CV := (Spec.chunkNode key fl t c).chain

/-- State of a hasher (mode `key`, `fl`) that has absorbed `m`, with `n` chunk chaining values on
its stack: the chunk state is the one a fresh `ChunkState` for counter `n` reaches on the bytes after
the first `n` chunks, and the stack entries are the subtree values (`collapse` = `topDown`) of
consecutive blocks of the first `n` leaves whose sizes are the binary decomposition of `n`. -/
structure Inv (h : Hasher) (m : List UInt8) (n : Nat) : Prop where
  hkey : h.keyWords = key
  hflags : h.flags = fl.toUInt32
  lo : 1024 * n ≤ m.length
  hi : m.length ≤ 1024 * n + 1024
  hcs : h.chunkState = (ChunkState.new key n fl.toUInt32).update Spec.compress (m.drop (1024 * n))
  hstack : ∃ bs : List (List CV), h.cvStack = bs.map (collapse (Spec.parentCV key fl) key) ∧
    bs.flatten = fullLeaves 10 (leaf key fl) 0 (m.take (1024 * n)) ∧ bs.map List.length = bd n

theorem inv_new : Inv key fl (Hasher.new key fl.toUInt32) [] 0 where
  hkey := rfl
  hflags := rfl
  lo := by simp
  hi := by simp
  hcs := by simp [Hasher.new, cs_update_nil]
  hstack := ⟨[], rfl, by rw [fullLeaves_short] <;> simp, by simp [bd_zero]⟩

variable {key fl}

theorem Inv.len {h : Hasher} {m : List UInt8} {n : Nat} (i : Inv key fl h m n) :
    h.chunkState.len = m.length - 1024 * n := by
  rw [i.hcs, cs_update_len _ _ _ (cs_new_wf _ _ _)]
  simp [ChunkState.new, ChunkState.len, ChunkState.blockLen]

theorem Inv.counter {h : Hasher} {m : List UInt8} {n : Nat} (i : Inv key fl h m n) :
    h.chunkState.chunkCounter = n := by
  rw [i.hcs, (cs_update_facts Spec.compress _ _ _ rfl (cs_new_wf _ _ _)).2.2.1]; rfl

theorem Inv.wf {h : Hasher} {m : List UInt8} {n : Nat} (i : Inv key fl h m n) : HWF h := by
  unfold HWF; rw [i.hcs]; exact cs_update_wf _ _ _ (cs_new_wf _ _ _)

/-- the chaining value of the current chunk -/
theorem Inv.chunkCv {h : Hasher} {m : List UInt8} {n : Nat} (i : Inv key fl h m n) :
    h.chunkState.output = ofNode (Spec.chunkNode key fl n (m.drop (1024 * n))) := by
  rw [i.hcs, cs_new_update_output]

theorem fullLeaves_snoc (lf : Nat → List UInt8 → CV) (m : List UInt8) (n : Nat) (hm : m.length = 1024 * n + 1024) :
    fullLeaves 10 lf 0 (m.take (1024 * (n + 1))) =
      fullLeaves 10 lf 0 (m.take (1024 * n)) ++ [lf n (m.drop (1024 * n))] := by
  have e : m.take (1024 * (n + 1)) = m.take (1024 * n) ++ m.drop (1024 * n) := by
    rw [List.take_of_length_le (by omega), List.take_append_drop]
  rw [e, fullLeaves_append 10 lf n 0 _ _ (by rw [List.length_take]; omega),
    fullLeaves_one 10 lf _ (m.drop (1024 * n)) (by rw [List.length_drop]; omega)]
  simp

/-- the head of the loop body of `Hasher::update` -/
theorem finishChunk_inv {h : Hasher} {m : List UInt8} {n : Nat} (i : Inv key fl h m n) (hb : m.length < 2 ^ 64) :
    ∃ h1 n1, h.finishChunk Spec.compress = some h1 ∧ Inv key fl h1 m n1 ∧ m.length < 1024 * n1 + 1024 := by
  by_cases hl : h.chunkState.len = 1024
  · have hm : m.length = 1024 * n + 1024 := by have := i.len; have := i.lo; omega
    obtain ⟨bs, s1, s2, s3⟩ := i.hstack
    have hpc : popcount (n + 1) ≤ 54 := popcount_lt_pow 54 (n + 1) (by omega)
    obtain ⟨bs', a1, a2, a3⟩ := addChunk_blocks key fl n bs (leaf key fl n (m.drop (1024 * n))) s3 hpc
    refine ⟨{ h with cvStack := bs'.map (collapse (Spec.parentCV key fl) key),
                     chunkState := ChunkState.new key (n + 1) fl.toUInt32 }, n + 1, ?_, ?_, by omega⟩
    · unfold Hasher.finishChunk
      rw [if_pos hl]
      simp only [i.chunkCv, chainingValue_ofNode, i.counter, i.hkey, i.hflags, s1]
      have : (Spec.chunkNode key fl n (m.drop (1024 * n))).chain = leaf key fl n (m.drop (1024 * n)) := rfl
      rw [this, a1]
    · refine ⟨i.hkey, i.hflags, by omega, by omega, ?_, bs', rfl, ?_, a3⟩
      · simp only []
        rw [List.drop_of_length_le (by omega), cs_update_nil]
      · rw [a2, s2, fullLeaves_snoc _ m n hm]
  · refine ⟨h, n, finishChunk_of_ne _ h hl, i, ?_⟩
    have := i.len; have := i.hi; omega

/-- `Hasher::update` from a state that has absorbed `m`: no panic, and the state has absorbed `m ++ x` -/
theorem update_inv : ∀ (k : Nat) (h : Hasher) (m x : List UInt8) (n : Nat), x.length = k → Inv key fl h m n →
    m.length + x.length < 2 ^ 64 → (x ≠ [] ∨ (m ≠ [] → 1024 * n < m.length)) →
    ∃ h' n', h.update Spec.compress x = some h' ∧ Inv key fl h' (m ++ x) n' ∧
      (m ++ x ≠ [] → 1024 * n' < (m ++ x).length) := by
  intro k
  induction k using Nat.strongRecOn with
  | _ k ih =>
    intro h m x n hk i hb hs
    by_cases hx : x = []
    · subst hx
      refine ⟨h, n, h_update_nil _ h, by simpa using i, ?_⟩
      rcases hs with hs | hs
      · exact absurd rfl hs
      · simpa using hs
    have hxl := List.length_pos_iff.mpr hx
    obtain ⟨h1, n1, f1, i1, f3⟩ := finishChunk_inv i (by omega)
    rw [h_update_step _ h x hx, f1, Option.bind_some]
    unfold hStep
    have hlen := i1.len
    have hlo := i1.lo
    generalize ht : min (1024 - h1.chunkState.len) x.length = take
    have htake : 0 < take ∧ take ≤ x.length ∧ m.length + take ≤ 1024 * n1 + 1024 := by omega
    rw [if_neg (by omega)]
    have i2 : Inv key fl { h1 with chunkState := h1.chunkState.update Spec.compress (x.take take) } (m ++ x.take take) n1 := by
      refine ⟨i1.hkey, i1.hflags, by simp only [List.length_append]; omega, ?_, ?_, ?_⟩
      · simp only [List.length_append, List.length_take]; omega
      · simp only []
        rw [i1.hcs, cs_update_append _ _ _ _ _ rfl (cs_new_wf _ _ _), List.drop_append_of_le_length hlo]
      · obtain ⟨bs, s1, s2, s3⟩ := i1.hstack
        exact ⟨bs, s1, by rw [s2, List.take_append_of_le_length hlo], s3⟩
    obtain ⟨h', n', r1, r2, r3⟩ := ih (x.drop take).length (by rw [List.length_drop]; omega) _ _ (x.drop take) n1 rfl i2
      (by simp only [List.length_append, List.length_take, List.length_drop]; omega)
      (Or.inr (fun _ => by simp only [List.length_append, List.length_take]; omega))
    rw [List.append_assoc, List.take_append_drop] at r2 r3
    exact ⟨h', n', r1, r2, r3⟩

end inv

/-! ### the specification's leaves, chunk by chunk -/

section leaves
open Tr St Hs
variable (key : CV) (fl : UInt8)

theorem chunks_short (m : List UInt8) (h : m.length ≤ 1024) : Spec.chunks m = [m] := by
  rw [Spec.chunks, dif_pos (by simp [List.drop_of_length_le h])]

theorem chunks_long (m : List UInt8) (h : 1024 < m.length) :
    Spec.chunks m = m.take 1024 :: Spec.chunks (m.drop 1024) := by
  rw [Spec.chunks, dif_neg]
  simp only [List.isEmpty_iff, List.drop_eq_nil_iff]; omega

theorem leafCVs_length (t : Nat) (cs : List (List UInt8)) : (Spec.leafCVs key fl t cs).length = cs.length := by
  induction cs generalizing t with
  | nil => rfl
  | cons c cs ih => simp [Spec.leafCVs, ih]

/-- the leaves of `m`: the complete chunks before the last one, and the last (possibly partial or
empty) chunk -/
theorem leafCVs_chunks : ∀ (k : Nat) (m : List UInt8) (t : Nat), m.length = k →
    Spec.leafCVs key fl t (Spec.chunks m) =
      fullLeaves 10 (leaf key fl) t (m.take (1024 * ((m.length - 1) / 1024))) ++
        [leaf key fl (t + (m.length - 1) / 1024) (m.drop (1024 * ((m.length - 1) / 1024)))] := by
  intro k
  induction k using Nat.strongRecOn with
  | _ k ih =>
    intro m t hk
    by_cases hs : m.length ≤ 1024
    · have e : (m.length - 1) / 1024 = 0 := by omega
      rw [chunks_short m hs, e]
      simp only [Nat.mul_zero, List.take_zero, List.drop_zero, Nat.add_zero]
      rw [fullLeaves_short _ _ _ _ (by simp)]
      rfl
    · have hq : (m.length - 1) / 1024 = ((m.drop 1024).length - 1) / 1024 + 1 := by
        rw [List.length_drop]; omega
      rw [chunks_long m (by omega), hq]
      generalize hq' : ((m.drop 1024).length - 1) / 1024 = q'
      have hle : 1024 * (q' + 1) ≤ m.length := by rw [List.length_drop] at hq'; omega
      rw [fullLeaves_cons _ _ _ _ (by rw [List.length_take]; omega)]
      simp only [Spec.leafCVs, List.cons_append]
      rw [ih (m.drop 1024).length (by rw [List.length_drop]; omega) (m.drop 1024) (t + 1) rfl, hq']
      have p10 : (2 : Nat) ^ 10 = 1024 := by simp
      have e1 : List.take (2 ^ 10) (List.take (1024 * (q' + 1)) m) = List.take 1024 m := by
        rw [p10, List.take_take, Nat.min_eq_left (by omega)]
      have e2 : List.drop (2 ^ 10) (List.take (1024 * (q' + 1)) m) = List.take (1024 * q') (List.drop 1024 m) := by
        have : 1024 * (q' + 1) - 1024 = 1024 * q' := by omega
        rw [p10, List.drop_take, this]
      have e3 : List.drop (1024 * q') (List.drop 1024 m) = List.drop (1024 * (q' + 1)) m := by
        have : 1024 + 1024 * q' = 1024 * (q' + 1) := by omega
        rw [List.drop_drop, this]
      have e4 : t + 1 + q' = t + (q' + 1) := by omega
      rw [e1, e2, e3, e4]
      rfl

theorem chunks_length (m : List UInt8) : (Spec.chunks m).length = (m.length - 1) / 1024 + 1 := by
  rw [← leafCVs_length IV 0 0, leafCVs_chunks IV 0 m.length m 0 rfl, List.length_append, fullLeaves_length,
    List.length_take]
  simp only [List.length_cons, List.length_nil]
  omega

end leaves

/-! ### `Hasher::finalize` -/

section final
open Tr St Hs
variable (key : CV) (fl : UInt8)

theorem finalizeLoop_append (stack ext : List CV) : ∀ (n : Nat) (out : Output), n ≤ stack.length →
    finalizeLoop Spec.compress key fl.toUInt32 (stack ++ ext) n out =
      finalizeLoop Spec.compress key fl.toUInt32 stack n out := by
  intro n
  induction n with
  | zero => intro out _; rfl
  | succ n ih =>
    intro out hn
    simp only [finalizeLoop]
    have : (stack ++ ext).getD n key = stack.getD n key := by
      simp only [List.getD_eq_getElem?_getD]; rw [List.getElem?_append_left (by omega)]
    rw [this]
    exact ih _ (by omega)

theorem foldR_snoc2 {α : Type} (node : α → α → α) (d : α) (x c : α) :
    ∀ l : List α, foldR node d (l ++ [node x c]) = foldR node d (l ++ [x, c])
  | [] => by simp [foldR]
  | [a] => by simp [foldR]
  | a :: b :: l => by
    have := foldR_snoc2 node d x c (b :: l)
    simp only [List.cons_append, foldR] at this ⊢
    rw [this]

/-- the loop of `finalize` is a right fold over the stack and the current chunk -/
theorem finalizeLoop_fold : ∀ (k : Nat) (r : List CV) (b : CV) (out : Output), r.length = k →
    finalizeLoop Spec.compress key fl.toUInt32 (b :: r) (r.length + 1) out =
      parentOutput b (foldR (Spec.parentCV key fl) key (r ++ [out.chainingValue Spec.compress])) key fl.toUInt32 := by
  intro k
  induction k with
  | zero =>
    intro r b out hr
    have : r = [] := List.eq_nil_of_length_eq_zero hr
    subst this
    simp [finalizeLoop, foldR]
  | succ k ih =>
    intro r b out hr
    have hne : r ≠ [] := by intro h; subst h; simp at hr
    obtain ⟨r', x, rfl⟩ : ∃ r' x, r = r' ++ [x] := ⟨r.dropLast, r.getLast hne, (List.dropLast_concat_getLast hne).symm⟩
    have hr' : r'.length = k := by simpa using hr
    have hlen : (r' ++ [x]).length + 1 = (r'.length + 1) + 1 := by simp
    rw [hlen, finalizeLoop]
    have hget : (b :: (r' ++ [x])).getD (r'.length + 1) key = x := by
      simp [List.getD_eq_getElem?_getD]
    rw [hget]
    have happ : b :: (r' ++ [x]) = (b :: r') ++ [x] := by simp
    rw [happ, finalizeLoop_append key fl (b :: r') [x] (r'.length + 1) _ (by simp), ih r' b _ hr']
    have hcv : (parentOutput x (out.chainingValue Spec.compress) key fl.toUInt32).chainingValue Spec.compress =
        Spec.parentCV key fl x (out.chainingValue Spec.compress) := parentCv_eq key fl _ _
    rw [hcv, foldR_snoc2]
    simp

variable {key fl}

/-- the root `Output` of `finalize` is the specification's root node -/
theorem finalOutput_eq {h : Hasher} {m : List UInt8} {n : Nat} (i : Inv key fl h m n)
    (hs : m ≠ [] → 1024 * n < m.length) :
    h.finalOutput Spec.compress = ofNode (Spec.rootNode key fl m) := by
  have hq : (m.length - 1) / 1024 = n := by
    have := i.lo; have := i.hi
    by_cases hm : m = []
    · subst hm; simp at *; omega
    · have := hs hm; omega
  obtain ⟨bs, s1, s2, s3⟩ := i.hstack
  have hleaves := leafCVs_chunks key fl m.length m 0 rfl
  rw [hq, Nat.zero_add] at hleaves
  unfold Hasher.finalOutput
  rw [i.hkey, i.hflags, i.chunkCv, s1]
  unfold Spec.rootNode
  simp only []
  rw [chunks_length, hq]
  by_cases hn : n = 0
  · subst hn
    have : bs = [] := by simpa [bd_zero] using s3
    subst this
    simp [finalizeLoop]
  · rw [if_neg (by omega)]
    have hpos : 0 < bs.length := by
      have := congrArg List.length s3
      rw [List.length_map, bd_length] at this
      rw [this]; exact popcount_pos n (by omega)
    match bs, hpos with
    | b0 :: r0, _ =>
      simp only [List.map_cons, List.length_cons, List.length_map]
      rw [← List.length_map (f := collapse (Spec.parentCV key fl) key) (as := r0), finalizeLoop_fold key fl _ _ _ _ rfl,
        chainingValue_ofNode]
      have hL : (Spec.chunkNode key fl n (m.drop (1024 * n))).chain = leaf key fl n (m.drop (1024 * n)) := rfl
      rw [hL]
      generalize hLd : leaf key fl n (m.drop (1024 * n)) = L at *
      have hmap : r0.map (collapse (Spec.parentCV key fl) key) ++ [L] =
          (r0 ++ [[L]]).map (collapse (Spec.parentCV key fl) key) := by
        simp [collapse_le_one]
      have hsz : (b0 :: (r0 ++ [[L]])).map List.length = bd n ++ [1] := by
        have : (b0 :: r0).map List.length ++ [1] = bd n ++ [1] := by rw [s3]
        simpa using this
      have hgood : Good (b0 :: (r0 ++ [[L]])) := by
        apply good_of_sizes _ (by simp)
        · intro s hs'
          rw [hsz] at hs'
          rcases List.mem_append.mp hs' with hs' | hs'
          · exact bd_pow2 n s hs'
          · exact ⟨0, by simpa using hs'⟩
        · rw [hsz]; exact goodS_append_one' _ (bd_goodS n)
      have hflat : (b0 :: (r0 ++ [[L]])).flatten = Spec.leafCVs key fl 0 (Spec.chunks m) := by
        rw [hleaves, ← s2]; simp
      have hrc := root_children (Spec.parentCV key fl) key b0 (r0 ++ [[L]]) (by simp) hgood
      rw [hflat] at hrc
      have h1 := congrArg Prod.fst hrc
      have h2 := congrArg Prod.snd hrc
      simp only at h1 h2
      rw [hmap, h1, h2, parentOutput_eq]
      simp only [Spec.treeCV, topDown_eq_collapse]

end final

/-! ### `Output::root_output_bytes` -/

section xof

theorem writeWords_eq : ∀ (ws : List UInt32) (n : Nat), writeWords ws n = (ws.flatMap wordBytes).take n
  | [], n => by simp [writeWords]
  | w :: ws, n => by
    rw [writeWords]
    by_cases h : n = 0
    · subst h; simp
    · rw [if_neg h, writeWords_eq ws (n - 4), List.flatMap_cons, List.take_append, wordBytes_length]

theorem flatMap_wordBytes_length (ws : List UInt32) : (ws.flatMap wordBytes).length = 4 * ws.length := by
  induction ws with
  | nil => rfl
  | cons w ws ih => rw [List.flatMap_cons, List.length_append, ih, wordBytes_length, List.length_cons]; omega

theorem xofBlock_length (n : Spec.Node) (k : Nat) : (n.xofBlock k).length = 64 := by
  unfold Spec.Node.xofBlock bytesOfWords
  rw [flatMap_wordBytes_length, Vector.length_toList]

theorem take_eq_map_getD {α : Type} (l : List α) (d : α) (a : Nat) (h : a ≤ l.length) :
    l.take a = (List.range a).map fun i => l.getD i d := by
  apply List.ext_getElem
  · simp; omega
  · intro i h1 h2
    simp only [List.length_take] at h1
    simp only [List.getElem_take, List.getElem_map, List.getElem_range, List.getD_eq_getElem?_getD]
    rw [List.getElem?_eq_getElem (by omega)]
    rfl

/-- the first `a ≤ 64` stream bytes of block `k` -/
theorem stream_block (n : Spec.Node) (k a : Nat) (h : a ≤ 64) :
    (List.range a).map (fun i => n.streamByte (64 * k + i)) = (n.xofBlock k).take a := by
  rw [take_eq_map_getD _ 0 a (by rw [xofBlock_length]; exact h)]
  apply List.map_congr_left
  intro i hi
  have hi' : i < a := List.mem_range.mp hi
  unfold Spec.Node.streamByte
  have e1 : (64 * k + i) / 64 = k := by omega
  have e2 : (64 * k + i) % 64 = i := by omega
  rw [e1, e2]

theorem rootFlags (n : Spec.Node) : n.flags.toUInt32 ||| ROOT = (n.flags ||| Spec.ROOT).toUInt32 := by
  rw [UInt8.toUInt32_or, flag_consts.2.2.2.1]

theorem rootOutputLoop_eq (n : Spec.Node) : ∀ (rem k : Nat),
    (ofNode n).rootOutputLoop Spec.compress k rem = (List.range rem).map fun i => n.streamByte (64 * k + i) := by
  intro rem
  induction rem using Nat.strongRecOn with
  | _ rem ih =>
    intro k
    rw [Output.rootOutputLoop]
    by_cases h0 : rem = 0
    · subst h0; simp
    rw [dif_neg h0]
    simp only [ofNode, rootFlags]
    have hw : (Spec.compress n.cv n.block (UInt64.ofNat k) (UInt32.ofNat n.blen) (n.flags ||| Spec.ROOT).toUInt32).toList.flatMap
        wordBytes = n.xofBlock k := rfl
    rw [writeWords_eq, hw]
    have ihh := ih (rem - 2 * OUT_LEN) (by simp only [OUT_LEN]; omega) (k + 1)
    simp only [ofNode] at ihh
    rw [ihh]
    have hsplit : rem = min (2 * OUT_LEN) rem + (rem - 2 * OUT_LEN) := by simp only [OUT_LEN]; omega
    conv => rhs; rw [hsplit, List.range_add, List.map_append, List.map_map]
    rw [stream_block n k _ (by simp only [OUT_LEN]; omega)]
    refine congrArg _ ?_
    by_cases hle : rem ≤ 64
    · have : rem - 2 * OUT_LEN = 0 := by simp only [OUT_LEN]; omega
      simp only [this, List.range_zero, List.map_nil]
    · apply List.map_congr_left
      intro i _
      have : min (2 * OUT_LEN) rem = 64 := by simp only [OUT_LEN]; omega
      simp only [Function.comp, this]
      have e : 64 * (k + 1) + i = 64 * k + (64 + i) := by omega
      rw [e]

/-- `root_output_bytes` writes the specification's output stream from position 0 -/
theorem rootOutputBytes_eq (n : Spec.Node) (outLen : Nat) :
    (ofNode n).rootOutputBytes Spec.compress outLen = n.stream 0 outLen := by
  unfold Output.rootOutputBytes Spec.Node.stream
  rw [rootOutputLoop_eq]

/-- the first 32 bytes of a stream of at least 32 bytes are the hash -/
theorem stream_take32 (n : Spec.Node) (outLen : Nat) (h : 32 ≤ outLen) :
    (n.stream 0 outLen).take 32 = (n.xofBlock 0).take 32 := by
  unfold Spec.Node.stream
  rw [← List.map_take, List.take_range, Nat.min_eq_left h, ← stream_block n 0 32 (by omega)]

end xof

/-! ### assembly -/

section top
open Tr St Hs

theorem cs_updates_eq (cmp : Cmp) (xs : List (List UInt8)) : ∀ cs : ChunkState, CsWF cs →
    xs.foldl (fun cs x => cs.update cmp x) cs = cs.update cmp xs.flatten := by
  induction xs with
  | nil => intro cs _; simp [cs_update_nil]
  | cons x xs ih =>
    intro cs hw
    rw [List.foldl_cons, ih _ (cs_update_wf cmp cs x hw), List.flatten_cons, cs_update_append cmp _ cs x _ rfl hw]

variable (key : CV) (fl : UInt8)

/-- a fresh hasher after any sequence of updates -/
theorem updates_new (xs : List (List UInt8)) (hb : xs.flatten.length < 2 ^ 64) :
    ∃ h n, (Hasher.new key fl.toUInt32).updates Spec.compress xs = some h ∧ Inv key fl h xs.flatten n ∧
      (xs.flatten ≠ [] → 1024 * n < xs.flatten.length) := by
  rw [h_updates_eq _ _ _ (h_new_wf _ _)]
  have := update_inv xs.flatten.length (Hasher.new key fl.toUInt32) [] xs.flatten 0 rfl (inv_new key fl)
    (by simpa using hb) (Or.inr (fun h => absurd rfl h))
  simpa using this

theorem inv_count {h : Hasher} {m : List UInt8} {n : Nat} (i : Inv key fl h m n)
    (hs : m ≠ [] → 1024 * n < m.length) : n = (m.length - 1) / 1024 := by
  have := i.lo; have := i.hi
  by_cases hm : m = []
  · subst hm; simp at *; omega
  · have := hs hm; omega

theorem finalize_new (xs : List (List UInt8)) (outLen : Nat) (hb : xs.flatten.length < 2 ^ 64) :
    ∃ h, (Hasher.new key fl.toUInt32).updates Spec.compress xs = some h ∧
      h.finalizeBytes Spec.compress outLen = (Spec.rootNode key fl xs.flatten).stream 0 outLen := by
  obtain ⟨h, n, e, i, hs⟩ := updates_new key fl xs hb
  refine ⟨h, e, ?_⟩
  unfold Hasher.finalizeBytes
  rw [finalOutput_eq i hs, rootOutputBytes_eq]

theorem stream32 (n : Spec.Node) : n.stream 0 32 = (n.xofBlock 0).take 32 := by
  have := stream_take32 n 32 (Nat.le_refl _)
  rwa [List.take_of_length_le (by simp [Spec.Node.stream])] at this

theorem newDeriveKey_eq (ctx : List UInt8) (hb : ctx.length < 2 ^ 64) :
    newDeriveKey Spec.compress ctx =
      some (Hasher.new (wordsOfBytes 8 (Spec.contextKey ctx)) DERIVE_KEY_MATERIAL) := by
  obtain ⟨h, e, f⟩ := finalize_new Spec.IV Spec.DERIVE_KEY_CONTEXT [ctx] 32 (by simpa using hb)
  simp only [Hasher.updates] at e
  unfold newDeriveKey
  have hk : Hasher.new Ref.IV DERIVE_KEY_CONTEXT = Hasher.new Spec.IV Spec.DERIVE_KEY_CONTEXT.toUInt32 := rfl
  rw [hk]
  cases hu : (Hasher.new Spec.IV Spec.DERIVE_KEY_CONTEXT.toUInt32).update Spec.compress ctx with
  | none => rw [hu] at e; cases e
  | some h1 =>
    rw [hu] at e
    cases e
    simp only [KEY_LEN, wordsFromLittleEndianBytes]
    rw [f, stream32]
    simp [Spec.contextKey]

/-- the constructor of each mode builds the hasher of the mode's key words and flags -/
theorem newMode_eq (mode : Spec.Mode) (hctx : ∀ ctx, mode = .derive ctx → ctx.length < 2 ^ 64) :
    newMode Spec.compress mode = some (Hasher.new mode.key mode.flags.toUInt32) := by
  cases mode with
  | hash => rfl
  | keyed k => rfl
  | derive ctx => exact newDeriveKey_eq ctx (hctx ctx rfl)

theorem run_eq (mode : Spec.Mode) (xs : List (List UInt8)) (outLen : Nat) (hb : xs.flatten.length < 2 ^ 64)
    (hctx : ∀ ctx, mode = .derive ctx → ctx.length < 2 ^ 64) :
    run Spec.compress mode xs outLen = some (Spec.xof mode xs.flatten 0 outLen) := by
  obtain ⟨h, e, f⟩ := finalize_new mode.key mode.flags xs outLen hb
  unfold run
  rw [newMode_eq mode hctx]
  simp only [e, Hasher.finalize, f]
  rfl

theorem popcount_pow_pred (k : Nat) : popcount (2 ^ k - 1) = k := by
  induction k with
  | zero => simp [popcount_zero]
  | succ k ih =>
    have hp := Nat.two_pow_pos k
    have e : 2 ^ (k + 1) - 1 = 2 * (2 ^ k - 1) + 1 := by rw [Nat.pow_succ]; omega
    rw [e, popcount_double_succ, ih]

end top

end B3.Proofs.Ref
