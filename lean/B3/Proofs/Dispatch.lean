/-
The dispatch layers as translated from the sources (Gen/Dispatch.lean, `gen/ext_plat.py`): src/platform.rs,
c/blake3_dispatch.c, src/ffi_*.rs.  What each dispatching function calls, for every build configuration, CPU and
variant; the portable `xof_many` loops equal the model's `xofMany`; the byte/word helpers equal `Prim.lean`'s.
Main theorems at the end of the file.
-/
import B3.Gen.Dispatch
import B3.Model.Rs
namespace B3.Proofs.Dispatch
open B3 B3.Dispatch B3.Gen.Dispatch

@[simp] theorem bind_ok {α β : Type} (a : α) (f : α → R β) : (R.ok a >>= f) = f a := rfl
@[simp] theorem bind_panic {α β : Type} (f : α → R β) : ((R.panic : R α) >>= f) = R.panic := rfl
@[simp] theorem pure_ok {α : Type} (a : α) : (pure a : R α) = R.ok a := rfl

/-! ### byte / word conversions -/

theorem arrayRef_ok (bs : List UInt8) (off len : Nat) (h : off + len ≤ bs.length) :
    arrayRef bs off len = .ok ((bs.drop off).take len) := by
  simp [arrayRef, h]

theorem u32_at (bs : List UInt8) (off : Nat) :
    Rt.u32FromLeBytes ((bs.drop off).take 4) =
      le32 (bs.getD off 0) (bs.getD (off + 1) 0) (bs.getD (off + 2) 0) (bs.getD (off + 3) 0) := by
  simp [Rt.u32FromLeBytes, List.getD_eq_getElem?_getD, List.getElem?_take, List.getElem?_drop]

theorem vset_ok {n : Nat} (v : Vector UInt32 n) (i : Nat) (x : UInt32) (h : i < n) : Rt.vset v i x = .ok (v.set i x h) := by
  simp [Rt.vset, h]

theorem words_from_le_bytes_32_eq (bytes : List UInt8) (h : bytes.length = 32) :
    words_from_le_bytes_32 bytes = .ok (wordsOfBytes 8 bytes) := by
  unfold words_from_le_bytes_32
  simp (disch := omega) only [arrayRef_ok, bind_ok, u32_at, vset_ok, pure_ok]
  congr 1

theorem words_from_le_bytes_64_eq (bytes : List UInt8) (h : bytes.length = 64) :
    words_from_le_bytes_64 bytes = .ok (wordsOfBytes 16 bytes) := by
  unfold words_from_le_bytes_64
  simp (disch := omega) only [arrayRef_ok, bind_ok, u32_at, vset_ok]
  congr 1

theorem le_bytes_from_words_32_eq (words : Vector UInt32 8) :
    le_bytes_from_words_32 words = .ok (bytesOfWords words) := by
  obtain ⟨⟨l⟩, hl⟩ := words
  match l, hl with
  | [w0, w1, w2, w3, w4, w5, w6, w7], _ =>
    simp [le_bytes_from_words_32, Rt.vget, arrayMutRefSet, Rt.u32ToLeBytes, bytesOfWords, wordBytes, List.replicate]

theorem toList16 (v : Vector UInt32 16) :
    v.toList = [v[0], v[1], v[2], v[3], v[4], v[5], v[6], v[7], v[8], v[9], v[10], v[11], v[12], v[13], v[14], v[15]] := by
  apply List.ext_getElem (by simp)
  intro i h1 h2
  have hi : i < 16 := by simpa using h1
  iterate 16 (rcases i with _ | i; · simp)
  omega

set_option maxRecDepth 16384 in
theorem le_bytes_from_words_64_eq (words : Vector UInt32 16) :
    le_bytes_from_words_64 words = .ok (bytesOfWords words) := by
  rw [bytesOfWords, toList16 words]
  unfold le_bytes_from_words_64
  simp only [Rt.vget, Nat.reduceLT, dite_true, bind_ok, Rt.u32ToLeBytes]
  simp only [List.replicate]
  simp [arrayMutRefSet, wordBytes]

/-! ### the portable loop of `Platform::xof_many` -/

theorem chunksExact_spec {α : Type} (k : Nat) (hk : 0 < k) (n : Nat) :
    ∀ l : List α, l.length = n →
      (Rt.chunksExact k l).length = l.length / k ∧ ∀ p ∈ Rt.chunksExact k l, p.length = k := by
  induction n using Nat.strongRecOn with
  | ind n ih =>
    intro l hl
    rw [Rt.chunksExact]
    by_cases h : k = 0 ∨ l.length < k
    · rw [dif_pos h]
      rcases h with h | h
      · omega
      · simp [Nat.div_eq_of_lt h]
    · rw [dif_neg h]
      have hge : k ≤ l.length := by omega
      obtain ⟨h1, h2⟩ := ih (n - k) (by omega) (l.drop k) (by simp; omega)
      refine ⟨?_, ?_⟩
      · simp only [List.length_cons, h1, List.length_drop]
        have : l.length = (l.length - k) + k := by omega
        conv => rhs; rw [this, Nat.add_div_right _ hk]
      · intro p hp
        rcases List.mem_cons.mp hp with rfl | hp
        · simp; omega
        · exact h2 p hp

section rust_loop
variable {Cv Blk : Type} (cx : Cv → Blk → UInt8 → Nat → UInt8 → List UInt8) (cv : Cv) (block : Blk) (bl fl : UInt8)

theorem xof_many_loop_eq (pieces : List (List UInt8)) :
    ∀ counter : Nat, (∀ p ∈ pieces, p.length = 64) → counter + pieces.length < Arith.W →
      xof_many_loop cx cv block bl fl pieces counter =
        .ok ((List.range pieces.length).map (fun i => cx cv block bl (counter + i) fl), counter + pieces.length) := by
  induction pieces with
  | nil => intro counter _ _; simp [xof_many_loop]
  | cons p rest ih =>
    intro counter hp hc
    have h64 : p.length = 64 := hp p (List.mem_cons_self ..)
    have hc1 : counter + 1 < Arith.W := by simp only [List.length_cons] at hc; omega
    rw [xof_many_loop]
    simp only [Rt.tryIntoBytes, h64, if_true, bind_ok, Arith.cadd, hc1]
    rw [ih (counter + 1) (fun q hq => hp q (List.mem_cons_of_mem _ hq)) (by simp only [List.length_cons] at hc; omega)]
    simp only [bind_ok, pure_ok, List.length_cons, List.range_succ_eq_map, List.map_cons, List.map_map]
    congr 2
    · congr 1
      apply List.map_congr_left
      intro i _
      simp only [Function.comp, Nat.succ_eq_add_one]
      congr 1; omega
    · omega

theorem flatten_len64 (ps : List (List UInt8)) (h : ∀ p ∈ ps, p.length = 64) : ps.flatten.length = 64 * ps.length := by
  induction ps with
  | nil => rfl
  | cons p rest ih =>
    simp only [List.flatten_cons, List.length_append, List.length_cons]
    rw [ih (fun q hq => h q (List.mem_cons_of_mem _ hq)), h p (List.mem_cons_self ..)]
    omega

/-- the `_` arm of `Platform::xof_many` for any output buffer: the whole blocks are overwritten with consecutive
`compress_xof` outputs, a trailing partial block (excluded by the dropped `debug_assert`) is left alone; it panics only
if the u64 counter overflows -/
theorem xof_many_fallback_eq (hcx : ∀ t, (cx cv block bl t fl).length = 64) (counter : Nat) (out : List UInt8)
    (hc : counter + out.length / 64 < Arith.W) :
    xof_many_fallback cx cv block bl counter fl out =
      .ok ((List.range (out.length / 64)).flatMap (fun i => cx cv block bl (counter + i) fl) ++ out.drop (64 * (out.length / 64))) := by
  obtain ⟨hl, hp⟩ := chunksExact_spec 64 (by omega) out.length out rfl
  unfold xof_many_fallback
  rw [xof_many_loop_eq cx cv block bl fl _ counter hp (by rw [hl]; exact hc)]
  simp only [bind_ok, pure_ok, Rt.writeBack, hl]
  rw [List.flatMap_def]
  congr 2
  rw [flatten_len64]
  · simp
  · intro p hp
    obtain ⟨i, _, rfl⟩ := List.mem_map.mp hp
    exact hcx _

end rust_loop

theorem bytesOfWords_len {n : Nat} (v : Vector UInt32 n) : (bytesOfWords v).length = 4 * n := by
  unfold bytesOfWords
  have : ∀ l : List UInt32, (l.flatMap wordBytes).length = 4 * l.length := by
    intro l; induction l with
    | nil => rfl
    | cons a l ih => simp [List.flatMap_cons, ih, wordBytes]; omega
  rw [this]; simp

/-- the kernel `Platform::compress_xof` as the model sees it: words in, the 64 bytes of the 16 output words out -/
def cxofBytes (K : Kern) (cv : CV) (b : St) (bl : UInt8) (t : Nat) (fl : UInt8) : List UInt8 :=
  bytesOfWords (K.cxof cv b bl (UInt64.ofNat t) fl)

theorem xof_many_fallback_model (K : Kern) (o : Spec.Node) (t n : Nat) (out : List UInt8)
    (hlen : out.length = 64 * n) (ht : t + n < 2 ^ 64) :
    xof_many_fallback (cxofBytes K) o.cv o.block (UInt8.ofNat o.blen) t (o.flags ||| Spec.ROOT) out = .ok (Rs.xofMany K o t n) := by
  have hn : out.length / 64 = n := by omega
  rw [xof_many_fallback_eq (cxofBytes K) _ _ _ _ (fun _ => by simp [cxofBytes, bytesOfWords_len]) t out (by rw [hn]; exact ht)]
  rw [hn, List.drop_of_length_le (by omega), List.append_nil]
  rfl

/-! ### the portable loop of `blake3_xof_many` (C) -/

section c_loop
variable {Cv Blk : Type} (cx : Cv → Blk → UInt8 → Nat → UInt8 → List UInt8) (cv : Cv) (block : Blk) (bl fl : UInt8)

theorem c_xof_loop_inv (counter outblocks : Nat) (hcx : ∀ t, (cx cv block bl t fl).length = 64) :
    ∀ (d i fuel : Nat) (out : List UInt8), i + d = outblocks → d < fuel → 64 * outblocks ≤ out.length →
      out.length < 18446744073709551616 →
      blake3_xof_many_loop cx cv block bl counter fl outblocks fuel i out =
        .ok (out.take (64 * i) ++ (List.range d).flatMap (fun j => cx cv block bl (Arith.w64add counter (i + j)) fl)
              ++ out.drop (64 * outblocks)) := by
  intro d
  induction d with
  | zero =>
    intro i fuel out hi hf hlen hw
    obtain ⟨f, rfl⟩ : ∃ f, fuel = f + 1 := ⟨fuel - 1, by omega⟩
    have : ¬ i < outblocks := by omega
    simp only [blake3_xof_many_loop, this, decide_false, Bool.false_eq_true, if_false, pure_ok, List.range_zero, List.flatMap_nil,
      List.append_nil]
    have : i = outblocks := by omega
    subst this
    rw [List.take_append_drop]
  | succ d ih =>
    intro i fuel out hi hf hlen hw
    obtain ⟨f, rfl⟩ : ∃ f, fuel = f + 1 := ⟨fuel - 1, by omega⟩
    have hlt : i < outblocks := by omega
    have hm : Arith.w64mul 64 i = 64 * i := by unfold Arith.w64mul; rw [if_pos (by omega)]
    have ha : Arith.w64add i 1 = i + 1 := by unfold Arith.w64add; rw [if_pos (by omega)]
    have hb := hcx (Arith.w64add counter i)
    simp only [blake3_xof_many_loop, hlt, decide_true, if_true, hm, ha, CMem.wr, hb]
    rw [if_pos (by omega)]
    simp only [bind_ok]
    generalize hB : cx cv block bl (Arith.w64add counter i) fl = B at hb
    have hA : (out.take (64 * i)).length = 64 * i := by simp; omega
    have hl' : (out.take (64 * i) ++ B ++ out.drop (64 * i + 64)).length = out.length := by
      simp only [List.length_append, hA, hb, List.length_drop]; omega
    rw [ih (i + 1) f _ (by omega) (by omega) (by rw [hl']; exact hlen) (by rw [hl']; exact hw)]
    have e1 : (out.take (64 * i) ++ B ++ out.drop (64 * i + 64)).take (64 * (i + 1)) = out.take (64 * i) ++ B :=
      List.take_left' (by simp [hA, hb]; omega)
    have e2 : (out.take (64 * i) ++ B ++ out.drop (64 * i + 64)).drop (64 * outblocks) = out.drop (64 * outblocks) := by
      have hAB : (out.take (64 * i) ++ B).length = 64 * i + 64 := by simp only [List.length_append, hA, hb]
      rw [List.drop_append, List.drop_drop, List.drop_eq_nil_of_le (by omega), List.nil_append, hAB]
      congr 1; omega
    rw [e1, e2, List.range_succ_eq_map, List.flatMap_cons, List.flatMap_map]
    simp only [Nat.add_zero, hB, List.append_assoc]
    have hfun : (fun j => cx cv block bl (Arith.w64add counter (i + 1 + j)) fl) =
        (fun a => cx cv block bl (Arith.w64add counter (i + a.succ)) fl) := by
      funext j; congr 2; omega
    rw [hfun]

/-- the portable loop of `blake3_xof_many` on a buffer with room for `outblocks` blocks: the blocks are the
`blake3_compress_xof` outputs for counters `counter + i` (wrapping `uint64_t` addition), the rest of the buffer is untouched,
no out-of-bounds store -/
theorem c_xof_many_fallback_eq (hcx : ∀ t, (cx cv block bl t fl).length = 64) (counter outblocks : Nat) (out : List UInt8)
    (hlen : 64 * outblocks ≤ out.length) (hw : out.length < 2 ^ 64) :
    blake3_xof_many_fallback cx cv block bl counter fl out outblocks =
      .ok ((List.range outblocks).flatMap (fun i => cx cv block bl (Arith.w64add counter i) fl) ++ out.drop (64 * outblocks)) := by
  unfold blake3_xof_many_fallback
  rw [c_xof_loop_inv cx cv block bl fl counter outblocks hcx outblocks 0 (outblocks + 1) out (by omega) (by omega) hlen (by simpa using hw)]
  simp

end c_loop

theorem ofNat_w64add (a b : Nat) : UInt64.ofNat (Arith.w64add a b) = UInt64.ofNat (a + b) := by
  unfold Arith.w64add
  split
  · rfl
  · apply UInt64.toNat_inj.mp
    simp only [UInt64.toNat_ofNat']
    exact Nat.mod_mod _ _

theorem c_xof_many_fallback_model (K : Kern) (o : Spec.Node) (t n : Nat) (out : List UInt8)
    (hlen : 64 * n ≤ out.length) (hw : out.length < 2 ^ 64) :
    blake3_xof_many_fallback (cxofBytes K) o.cv o.block (UInt8.ofNat o.blen) t (o.flags ||| Spec.ROOT) out n =
      .ok (Rs.xofMany K o t n ++ out.drop (64 * n)) := by
  rw [c_xof_many_fallback_eq (cxofBytes K) _ _ _ _ (fun _ => by simp [cxofBytes, bytesOfWords_len]) t n out hlen hw]
  congr 2
  unfold Rs.xofMany Rs.rootBlock cxofBytes
  congr 1
  funext i
  rw [ofNat_w64add]


/-! ### `Platform`: the tables of src/platform.rs -/

/-- `cfg(any(target_arch = "x86", target_arch = "x86_64"))` -/
def x86 (b : Build) : Bool := b.kv "target_arch" "x86" || b.kv "target_arch" "x86_64"

/-- the SIMD degree of each variant -/
def degreeOf : Platform → Nat
  | .Portable => 1 | .SSE2 => 4 | .SSE41 => 4 | .AVX2 => 8 | .AVX512 => 16 | .NEON => 4 | .WASM32_SIMD => 4

theorem available_iff (b : Build) (p : Platform) :
    p.available b = match p with
      | .Portable => true
      | .SSE2 | .SSE41 | .AVX2 => x86 b
      | .AVX512 => b.flag "blake3_avx512_ffi" && x86 b
      | .NEON => b.flag "blake3_neon"
      | .WASM32_SIMD => b.flag "blake3_wasm32_simd" := by
  cases p <;> simp [Platform.available, Platform.cfgs, Build.on, Cfg.eval, x86]

theorem simd_degree_table' (b : Build) (p : Platform) (h : p.available b = true) : simd_degree b p = some (degreeOf p) := by
  rw [available_iff] at h
  cases p <;> simp [x86] at h <;>
    simp [simd_degree, select, simd_degree_arms, Arm.applies, Build.on, Cfg.eval, degreeOf, h]

theorem simd_degree_le_max' (b : Build) (p : Platform) (h : p.available b = true) :
    degreeOf p ≤ MAX_SIMD_DEGREE b ∧ MAX_SIMD_DEGREE b ≤ MAX_SIMD_DEGREE_OR_2 b ∧ 2 ≤ MAX_SIMD_DEGREE_OR_2 b := by
  rw [available_iff] at h
  cases p <;> cases h1 : b.kv "target_arch" "x86" <;> cases h1' : b.kv "target_arch" "x86_64" <;>
    cases h2 : b.flag "blake3_avx512_ffi" <;> cases h3 : b.flag "blake3_neon" <;> cases h4 : b.flag "blake3_wasm32_simd" <;>
    simp_all [MAX_SIMD_DEGREE, MAX_SIMD_DEGREE_OR_2, Cfg.eval, degreeOf, x86]

/-- the cfg on every x86 variant / arm -/
def x86Cfg : Cfg := .or (.kv "target_arch" "x86") (.kv "target_arch" "x86_64")

/-- the kernel module that serves the two single-block methods for each variant: there is no AVX2 single-block kernel
(SSE4.1 is used), and none for NEON (portable is used) -/
def compressModule : Platform → String
  | .Portable => "portable" | .SSE2 => "sse2" | .SSE41 => "sse41" | .AVX2 => "sse41" | .AVX512 => "avx512"
  | .NEON => "portable" | .WASM32_SIMD => "wasm32_simd"

/-- the kernel module of each variant's own instruction set -/
def isaModule : Platform → String
  | .Portable => "portable" | .SSE2 => "sse2" | .SSE41 => "sse41" | .AVX2 => "avx2" | .AVX512 => "avx512"
  | .NEON => "neon" | .WASM32_SIMD => "wasm32_simd"

/-- expected shape of `match self` in `compress_in_place` / `compress_xof` -/
def compressArms (fn : String) (params : List String) : List (Arm Platform RBody) := [
  ⟨[.Portable], [], .call ⟨["portable", fn], params, false⟩⟩,
  ⟨[.SSE2], [x86Cfg], .call ⟨["crate", "sse2", fn], params, true⟩⟩,
  ⟨[.SSE41, .AVX2], [x86Cfg], .call ⟨["crate", "sse41", fn], params, true⟩⟩,
  ⟨[.AVX512], [.flag "blake3_avx512_ffi", x86Cfg], .call ⟨["crate", "avx512", fn], params, true⟩⟩,
  ⟨[.NEON], [.flag "blake3_neon"], .call ⟨["portable", fn], params, false⟩⟩,
  ⟨[.WASM32_SIMD], [.flag "blake3_wasm32_simd"], .call ⟨["crate", "wasm32_simd", fn], params, false⟩⟩]

/-- expected shape of `match self` in `hash_many` -/
def hashManyArms (fn : String) (params : List String) : List (Arm Platform RBody) := [
  ⟨[.Portable], [], .call ⟨["portable", fn], params, false⟩⟩,
  ⟨[.SSE2], [x86Cfg], .call ⟨["crate", "sse2", fn], params, true⟩⟩,
  ⟨[.SSE41], [x86Cfg], .call ⟨["crate", "sse41", fn], params, true⟩⟩,
  ⟨[.AVX2], [x86Cfg], .call ⟨["crate", "avx2", fn], params, true⟩⟩,
  ⟨[.AVX512], [.flag "blake3_avx512_ffi", x86Cfg], .call ⟨["crate", "avx512", fn], params, true⟩⟩,
  ⟨[.NEON], [.flag "blake3_neon"], .call ⟨["crate", "neon", fn], params, true⟩⟩,
  ⟨[.WASM32_SIMD], [.flag "blake3_wasm32_simd"], .call ⟨["crate", "wasm32_simd", fn], params, true⟩⟩]

/-- expected shape of `match self` in `xof_many` -/
def xofManyArms (params : List String) : List (Arm Platform RBody) := [
  ⟨[.AVX512], [.flag "blake3_avx512_ffi", .flag "unix", x86Cfg], .call ⟨["crate", "avx512", "xof_many"], params, true⟩⟩,
  ⟨[], [], .loop⟩]

/-- the result of a dispatch is a call of `module::fn` with exactly `params` as arguments -/
def GoesTo (r : Option RBody) (module fn : String) (params : List String) : Prop :=
  ∃ c, r = some (.call c) ∧ c.module = some module ∧ c.fn = some fn ∧ c.args = params

theorem select_compressArms (b : Build) (p : Platform) (h : p.available b = true) (fn : String) (params : List String) :
    GoesTo (select b (compressArms fn params) p) (compressModule p) fn params := by
  rw [available_iff] at h
  cases p <;> simp [x86] at h <;>
    refine ⟨_, by simp [select, compressArms, Arm.applies, Build.on, Cfg.eval, x86Cfg, h]; rfl, ?_, ?_, ?_⟩ <;>
    simp [RCall.module, RCall.fn, compressModule]

theorem select_hashManyArms (b : Build) (p : Platform) (h : p.available b = true) (fn : String) (params : List String) :
    GoesTo (select b (hashManyArms fn params) p) (isaModule p) fn params := by
  rw [available_iff] at h
  cases p <;> simp [x86] at h <;>
    refine ⟨_, by simp [select, hashManyArms, Arm.applies, Build.on, Cfg.eval, x86Cfg, h]; rfl, ?_, ?_, ?_⟩ <;>
    simp [RCall.module, RCall.fn, isaModule]

theorem platform_dispatch_arms :
    compress_in_place_arms = compressArms "compress_in_place" ["cv", "block", "block_len", "counter", "flags"] ∧
    compress_xof_arms = compressArms "compress_xof" ["cv", "block", "block_len", "counter", "flags"] ∧
    hash_many_arms = hashManyArms "hash_many"
      ["inputs", "key", "counter", "increment_counter", "flags", "flags_start", "flags_end", "out"] ∧
    xof_many_arms = xofManyArms ["cv", "block", "block_len", "counter", "flags", "out"] ∧
    compress_in_place_params = ["cv", "block", "block_len", "counter", "flags"] ∧
    compress_xof_params = ["cv", "block", "block_len", "counter", "flags"] ∧
    hash_many_params = ["inputs", "key", "counter", "increment_counter", "flags", "flags_start", "flags_end", "out"] ∧
    xof_many_params = ["cv", "block", "block_len", "counter", "flags", "out"] :=
  ⟨rfl, rfl, rfl, rfl, rfl, rfl, rfl, rfl⟩

theorem xof_many_dispatch_eq (b : Build) (p : Platform) (h : p.available b = true) :
    xof_many_dispatch b p =
      if p = .AVX512 ∧ b.flag "unix" = true then some (.call ⟨["crate", "avx512", "xof_many"], xof_many_params, true⟩)
      else some .loop := by
  rw [available_iff] at h
  cases p <;> simp [x86] at h <;> cases hu : b.flag "unix" <;>
    simp [xof_many_dispatch, select, xof_many_arms, Arm.applies, Build.on, Cfg.eval, h, hu, xof_many_params]

/-- width of each kernel module's `hash_many` -/
def kernelDegree : String → Nat
  | "portable" => 1 | "sse2" => 4 | "sse41" => 4 | "avx2" => 8 | "avx512" => 16 | "neon" => 4 | "wasm32_simd" => 4 | _ => 0

theorem degreeOf_eq_kernelDegree (p : Platform) : degreeOf p = kernelDegree (isaModule p) := by cases p <;> rfl

theorem xof_many_eq' {Cv Blk : Type} (b : Build) (p : Platform) (h : p.available b = true)
    (ext : List String → Cv → Blk → UInt8 → Nat → UInt8 → List UInt8 → R (List UInt8))
    (cx : Cv → Blk → UInt8 → Nat → UInt8 → List UInt8) (cv : Cv) (block : Blk) (bl : UInt8) (counter : Nat) (fl : UInt8)
    (out : List UInt8) :
    xof_many b p ext cx cv block bl counter fl out =
      if out = [] then .ok out
      else if p = .AVX512 ∧ b.flag "unix" = true then ext ["crate", "avx512", "xof_many"] cv block bl counter fl out
      else xof_many_fallback cx cv block bl counter fl out := by
  rw [available_iff] at h
  unfold xof_many
  cases out with
  | nil => simp
  | cons x xs =>
    cases p <;> simp [x86] at h <;> cases hu : b.flag "unix" <;>
      simp [Arm.applies, Build.on, Cfg.eval, h, hu]

/-! ### `Platform::detect` -/

theorem first_nil {α : Type} : first ([] : List (Option α)) = none := rfl
theorem first_some {α : Type} (a : α) (r : List (Option α)) : first (some a :: r) = some a := rfl
theorem first_none {α : Type} (r : List (Option α)) : first (none :: r) = first r := rfl
theorem first_ite {α : Type} (c : Prop) [Decidable c] (x y : Option α) (r : List (Option α)) :
    first ((if c then x else y) :: r) = if c then first (x :: r) else first (y :: r) := by split <;> rfl

theorem first_skip {α : Type} (b : Build) (flag : String) (X : Option α) (rest : List (Option α))
    (h : b.flag flag = false ∨ X = none) : first (cfgBlock b [.flag flag] X :: rest) = first rest := by
  rcases h with h | h
  · simp [cfgBlock, Build.on, Cfg.eval, h, first]
  · subst h; simp [cfgBlock, first]

/-- the four run-time tests, in closed form (`cfg!(miri)` and the testing-only `no_*` features switch a level off) -/
theorem detected_eq (b : Build) (cpu : String → Bool) :
    avx512_detected b cpu = (!b.flag "miri" && !b.kv "feature" "no_avx512" && (cpu "avx512f" && cpu "avx512vl")) ∧
    avx2_detected b cpu = (!b.flag "miri" && !b.kv "feature" "no_avx2" && cpu "avx2") ∧
    sse41_detected b cpu = (!b.flag "miri" && !b.kv "feature" "no_sse41" && cpu "sse4.1") ∧
    sse2_detected b cpu = (!b.flag "miri" && !b.kv "feature" "no_sse2" && cpu "sse2") := by
  simp only [avx512_detected, avx2_detected, sse41_detected, sse2_detected, Cfg.eval, List.all_cons, List.all_nil, Bool.and_true]
  generalize b.flag "miri" = m
  generalize b.kv "feature" "no_avx512" = a2
  generalize cpu "avx512f" = a3
  generalize cpu "avx512vl" = a4
  generalize b.kv "feature" "no_avx2" = a5
  generalize cpu "avx2" = a6
  generalize b.kv "feature" "no_sse41" = a7
  generalize cpu "sse4.1" = a8
  generalize b.kv "feature" "no_sse2" = a9
  generalize cpu "sse2" = a10
  refine ⟨?_, ?_, ?_, ?_⟩
  · revert m a2 a3 a4; decide
  · revert m a5 a6; decide
  · revert m a7 a8; decide
  · revert m a9 a10; decide

/-- `detect` on x86 in terms of the four run-time tests -/
theorem detect_order_aux (b : Build) (cpu : String → Bool) (ov : Option Platform)
    (hx : x86 b = true) (hm : b.flag "miri" = false) (hv : b.flag "blake3_team_blake3_verif" = false ∨ ov = none) :
    detect b cpu ov =
      if b.flag "blake3_avx512_ffi" && avx512_detected b cpu then .AVX512
      else if avx2_detected b cpu then .AVX2
      else if sse41_detected b cpu then .SSE41
      else if sse2_detected b cpu then .SSE2
      else if b.flag "blake3_neon" then .NEON
      else if b.flag "blake3_wasm32_simd" then .WASM32_SIMD
      else .Portable := by
  have hx' : (b.kv "target_arch" "x86" || b.kv "target_arch" "x86_64") = true := hx
  unfold detect
  rw [first_skip b "blake3_team_blake3_verif" _ _ (by
    rcases hv with h | h
    · exact Or.inl h
    · subst h; exact Or.inr rfl)]
  simp only [cfgBlock, Build.on, Cfg.eval, List.all_cons, List.all_nil, Bool.and_true, hm, hx']
  generalize b.flag "blake3_avx512_ffi" = a1
  generalize avx512_detected b cpu = d1
  generalize avx2_detected b cpu = d2
  generalize sse41_detected b cpu = d3
  generalize sse2_detected b cpu = d4
  generalize b.flag "blake3_neon" = a11
  generalize b.flag "blake3_wasm32_simd" = a12
  revert a1 d1 d2 d3 d4 a11 a12
  decide +kernel

theorem detect_order' (b : Build) (cpu : String → Bool) (ov : Option Platform)
    (hx : x86 b = true) (hm : b.flag "miri" = false) (hv : b.flag "blake3_team_blake3_verif" = false ∨ ov = none) :
    detect b cpu ov =
      if b.flag "blake3_avx512_ffi" && !b.kv "feature" "no_avx512" && cpu "avx512f" && cpu "avx512vl" then .AVX512
      else if !b.kv "feature" "no_avx2" && cpu "avx2" then .AVX2
      else if !b.kv "feature" "no_sse41" && cpu "sse4.1" then .SSE41
      else if !b.kv "feature" "no_sse2" && cpu "sse2" then .SSE2
      else if b.flag "blake3_neon" then .NEON
      else if b.flag "blake3_wasm32_simd" then .WASM32_SIMD
      else .Portable := by
  obtain ⟨e1, e2, e3, e4⟩ := detected_eq b cpu
  rw [detect_order_aux b cpu ov hx hm hv, e1, e2, e3, e4, hm]
  simp only [Bool.not_false, Bool.true_and, Bool.and_assoc]

theorem detect_override' (b : Build) (cpu : String → Bool) (p : Platform) (hv : b.flag "blake3_team_blake3_verif" = true) :
    detect b cpu (some p) = p := by
  simp [detect, first, cfgBlock, Build.on, Cfg.eval, hv]

theorem detect_miri' (b : Build) (cpu : String → Bool) (ov : Option Platform)
    (hv : b.flag "blake3_team_blake3_verif" = false ∨ ov = none) (hm : b.flag "miri" = true) :
    detect b cpu ov = .Portable := by
  unfold detect
  rw [first_skip b "blake3_team_blake3_verif" _ _ (by
    rcases hv with h | h
    · exact Or.inl h
    · subst h; exact Or.inr rfl)]
  simp [first, cfgBlock, Build.on, Cfg.eval, hm]

theorem detect_other_arch' (b : Build) (cpu : String → Bool) (ov : Option Platform)
    (hv : b.flag "blake3_team_blake3_verif" = false ∨ ov = none) (hm : b.flag "miri" = false) (hx : x86 b = false) :
    detect b cpu ov =
      if b.flag "blake3_neon" then .NEON else if b.flag "blake3_wasm32_simd" then .WASM32_SIMD else .Portable := by
  have hx' : (b.kv "target_arch" "x86" || b.kv "target_arch" "x86_64") = false := hx
  unfold detect
  rw [first_skip b "blake3_team_blake3_verif" _ _ (by
    rcases hv with h | h
    · exact Or.inl h
    · subst h; exact Or.inr rfl)]
  simp only [cfgBlock, Build.on, Cfg.eval, List.all_cons, List.all_nil, Bool.and_true, hm, hx', Bool.false_eq_true, if_false]
  generalize b.flag "blake3_neon" = a11
  generalize b.flag "blake3_wasm32_simd" = a12
  revert a11 a12
  decide +kernel

/-- what the CPU must report for a variant's kernels to be executable -/
def cpuSupports (cpu : String → Bool) : Platform → Bool
  | .AVX512 => cpu "avx512f" && cpu "avx512vl"
  | .AVX2 => cpu "avx2"
  | .SSE41 => cpu "sse4.1"
  | .SSE2 => cpu "sse2"
  | _ => true

theorem detect_supported' (b : Build) (cpu : String → Bool) (ov : Option Platform)
    (hv : b.flag "blake3_team_blake3_verif" = false ∨ ov = none) :
    cpuSupports cpu (detect b cpu ov) = true ∧ (detect b cpu ov).available b = true := by
  cases hm : b.flag "miri"
  · cases hx : x86 b
    · rw [detect_other_arch' b cpu ov hv hm hx, available_iff]
      cases h1 : b.flag "blake3_neon" <;> cases h2 : b.flag "blake3_wasm32_simd" <;> simp [cpuSupports]
    · obtain ⟨e1, e2, e3, e4⟩ := detected_eq b cpu
      rw [detect_order_aux b cpu ov hx hm hv, available_iff, hx]
      by_cases c1 : (b.flag "blake3_avx512_ffi" && avx512_detected b cpu) = true
      · rw [if_pos c1]
        rw [e1] at c1
        simp only [Bool.and_eq_true] at c1
        simp [cpuSupports, c1.1, c1.2.2]
      · rw [if_neg c1]
        by_cases c2 : avx2_detected b cpu = true
        · rw [if_pos c2]; rw [e2] at c2; simp only [Bool.and_eq_true] at c2; simp [cpuSupports, c2.2]
        · rw [if_neg c2]
          by_cases c3 : sse41_detected b cpu = true
          · rw [if_pos c3]; rw [e3] at c3; simp only [Bool.and_eq_true] at c3; simp [cpuSupports, c3.2]
          · rw [if_neg c3]
            by_cases c4 : sse2_detected b cpu = true
            · rw [if_pos c4]; rw [e4] at c4; simp only [Bool.and_eq_true] at c4; simp [cpuSupports, c4.2]
            · rw [if_neg c4]
              cases h1 : b.flag "blake3_neon" <;> cases h2 : b.flag "blake3_wasm32_simd" <;> simp [cpuSupports]
  · rw [detect_miri' b cpu ov hv hm]; simp [cpuSupports, available_iff]

/-! ### `get_cpu_features` (c/blake3_dispatch.c) -/

/-- bit `k` of a register, as the C code tests it (`reg & (1UL << k)`) -/
def regBit (r : UInt32) (k : Nat) : Bool := hasBits r.toNat (2 ^ k)

/-- OSXSAVE is set and XCR0 says the OS saves the XMM and YMM state -/
def ymmOs (cpuid : Nat → Regs) (xcr0 : Nat) : Bool := regBit (cpuid 1)[2] 27 && (xcr0 &&& 6 == 6)
/-- ... and `cpuid` leaf 7 exists (the highest basic leaf, read as a C `int`, is at least 7) -/
def leaf7Ok (cpuid : Nat → Regs) (xcr0 : Nat) : Bool := ymmOs cpuid xcr0 && decide (intOfU32 (cpuid 0)[0] ≥ 7)
/-- ... and XCR0 says the OS saves the opmask, ZMM_Hi256 and Hi16_ZMM state -/
def zmmOs (cpuid : Nat → Regs) (xcr0 : Nat) : Bool := leaf7Ok cpuid xcr0 && (xcr0 &&& 224 == 224)

/-- the feature mask `get_cpu_features` computes on x86, as a function of what `cpuid` / `xgetbv` report:
leaf 1 (`edx` bit 26 SSE2 - implied on x86-64 -, `ecx` bits 9 SSSE3, 19 SSE4.1, 27 OSXSAVE, 28 AVX), XCR0, leaf 7
(`ebx` bits 5 AVX2, 16 AVX512F, 31 AVX512VL) -/
def expectedFeatures (x64 : Bool) (cpuid : Nat → Regs) (cpuidex : Nat → Nat → Regs) (xcr0 : Nat) : Nat :=
  (if x64 || regBit (cpuid 1)[3] 26 then SSE2 else 0) |||
  (if regBit (cpuid 1)[2] 9 then SSSE3 else 0) |||
  (if regBit (cpuid 1)[2] 19 then SSE41 else 0) |||
  (if ymmOs cpuid xcr0 && regBit (cpuid 1)[2] 28 then AVX else 0) |||
  (if leaf7Ok cpuid xcr0 && regBit (cpuidex 7 0)[1] 5 then AVX2 else 0) |||
  (if zmmOs cpuid xcr0 && regBit (cpuidex 7 0)[1] 31 then AVX512VL else 0) |||
  (if zmmOs cpuid xcr0 && regBit (cpuidex 7 0)[1] 16 then AVX512F else 0)

theorem or_ite (c : Prop) [Decidable c] (f g : Nat) : (if c then f ||| g else f) = f ||| (if c then g else 0) := by
  split <;> simp

theorem get_cpu_features_x86 (b : Build) (cpuid : Nat → Regs) (cpuidex : Nat → Nat → Regs) (xgetbv : Nat)
    (hx : b.flag "IS_X86" = true) :
    get_cpu_features b UNDEFINED cpuid cpuidex xgetbv =
      (expectedFeatures (b.flag "__amd64__" || b.flag "_M_X64") cpuid cpuidex xgetbv,
       expectedFeatures (b.flag "__amd64__" || b.flag "_M_X64") cpuid cpuidex xgetbv) := by
  unfold get_cpu_features expectedFeatures zmmOs leaf7Ok ymmOs regBit
  simp only [Cfg.eval, hx, bne_self_eq_false, Bool.false_eq_true, if_false, if_true, apply_ite Prod.fst, apply_ite Prod.snd,
    Nat.reducePow, or_ite, Nat.zero_or]
  generalize (b.flag "__amd64__" || b.flag "_M_X64") = a0
  generalize hasBits (cpuid 1)[3].toNat 67108864 = e26
  generalize hasBits (cpuid 1)[2].toNat 134217728 = c27
  generalize (xgetbv &&& 6 == 6) = m6
  generalize (xgetbv &&& 224 == 224) = m224
  generalize decide (intOfU32 (cpuid 0)[0] ≥ 7) = id7
  cases a0 <;> cases e26 <;> cases c27 <;> cases m6 <;> cases id7 <;> cases m224 <;> simp

theorem hasBits_two_pow (x k : Nat) : hasBits x (2 ^ k) = x.testBit k := by
  unfold hasBits
  cases h : x.testBit k
  · have : x &&& 2 ^ k = 0 := by
      apply Nat.eq_of_testBit_eq
      intro i
      simp only [Nat.testBit_and, Nat.testBit_two_pow, Nat.zero_testBit]
      by_cases hk : k = i
      · subst hk; simp [h]
      · simp [hk]
    simp [this]
  · have : (x &&& 2 ^ k).testBit k = true := by simp [Nat.testBit_and, Nat.testBit_two_pow, h]
    have hne : x &&& 2 ^ k ≠ 0 := by
      intro h0; rw [h0] at this; simp at this
    simp [hne]

theorem regBit_eq_testBit (r : UInt32) (k : Nat) : regBit r k = r.toNat.testBit k := hasBits_two_pow _ _

theorem get_cpu_features_cached (b : Build) (g : Nat) (cpuid : Nat → Regs) (cpuidex : Nat → Nat → Regs) (xgetbv : Nat)
    (hg : g ≠ UNDEFINED) : get_cpu_features b g cpuid cpuidex xgetbv = (g, g) := by
  unfold get_cpu_features
  simp [hg]

theorem get_cpu_features_other_arch (b : Build) (cpuid : Nat → Regs) (cpuidex : Nat → Nat → Regs) (xgetbv : Nat)
    (hx : b.flag "IS_X86" = false) : get_cpu_features b UNDEFINED cpuid cpuidex xgetbv = (0, UNDEFINED) := by
  unfold get_cpu_features
  simp [Cfg.eval, hx]

/-- what the mask means, feature by feature -/
theorem expectedFeatures_bits (x64 : Bool) (cpuid : Nat → Regs) (cpuidex : Nat → Nat → Regs) (xcr0 : Nat) :
    hasBits (expectedFeatures x64 cpuid cpuidex xcr0) SSE2 = (x64 || regBit (cpuid 1)[3] 26) ∧
    hasBits (expectedFeatures x64 cpuid cpuidex xcr0) SSSE3 = regBit (cpuid 1)[2] 9 ∧
    hasBits (expectedFeatures x64 cpuid cpuidex xcr0) SSE41 = regBit (cpuid 1)[2] 19 ∧
    hasBits (expectedFeatures x64 cpuid cpuidex xcr0) AVX = (ymmOs cpuid xcr0 && regBit (cpuid 1)[2] 28) ∧
    hasBits (expectedFeatures x64 cpuid cpuidex xcr0) AVX2 = (leaf7Ok cpuid xcr0 && regBit (cpuidex 7 0)[1] 5) ∧
    hasBits (expectedFeatures x64 cpuid cpuidex xcr0) AVX512F = (zmmOs cpuid xcr0 && regBit (cpuidex 7 0)[1] 16) ∧
    hasBits (expectedFeatures x64 cpuid cpuidex xcr0) AVX512VL = (zmmOs cpuid xcr0 && regBit (cpuidex 7 0)[1] 31) ∧
    (expectedFeatures x64 cpuid cpuidex xcr0 &&& (AVX512F ||| AVX512VL) == (AVX512F ||| AVX512VL)) =
      (zmmOs cpuid xcr0 && regBit (cpuidex 7 0)[1] 16 && regBit (cpuidex 7 0)[1] 31) ∧
    expectedFeatures x64 cpuid cpuidex xcr0 < 128 := by
  have hz : (zmmOs cpuid xcr0 && regBit (cpuidex 7 0)[1] 16 && regBit (cpuidex 7 0)[1] 31) =
      ((zmmOs cpuid xcr0 && regBit (cpuidex 7 0)[1] 16) && (zmmOs cpuid xcr0 && regBit (cpuidex 7 0)[1] 31)) := by
    cases zmmOs cpuid xcr0 <;> simp
  rw [hz]
  unfold expectedFeatures
  generalize (x64 || regBit (cpuid 1)[3] 26) = q1
  generalize regBit (cpuid 1)[2] 9 = q2
  generalize regBit (cpuid 1)[2] 19 = q3
  generalize (ymmOs cpuid xcr0 && regBit (cpuid 1)[2] 28) = q4
  generalize (leaf7Ok cpuid xcr0 && regBit (cpuidex 7 0)[1] 5) = q5
  generalize (zmmOs cpuid xcr0 && regBit (cpuidex 7 0)[1] 31) = q6
  generalize (zmmOs cpuid xcr0 && regBit (cpuidex 7 0)[1] 16) = q7
  revert q1 q2 q3 q4 q5 q6 q7
  decide +kernel

/-! ### the C dispatch functions -/

/-- the kernel families of the C library -/
inductive Isa where
  | portable | sse2 | sse41 | avx2 | avx512 | neon
deriving DecidableEq, Repr

def Isa.degree : Isa → Nat
  | .portable => 1 | .sse2 => 4 | .sse41 => 4 | .avx2 => 8 | .avx512 => 16 | .neon => 4

def cipSym : Isa → String
  | .portable => "blake3_compress_in_place_portable" | .sse2 => "blake3_compress_in_place_sse2"
  | .sse41 => "blake3_compress_in_place_sse41" | .avx512 => "blake3_compress_in_place_avx512"
  | .avx2 => "(no such kernel)" | .neon => "(no such kernel)"

def cxofSym : Isa → String
  | .portable => "blake3_compress_xof_portable" | .sse2 => "blake3_compress_xof_sse2"
  | .sse41 => "blake3_compress_xof_sse41" | .avx512 => "blake3_compress_xof_avx512"
  | .avx2 => "(no such kernel)" | .neon => "(no such kernel)"

def hashManySym : Isa → String
  | .portable => "blake3_hash_many_portable" | .sse2 => "blake3_hash_many_sse2" | .sse41 => "blake3_hash_many_sse41"
  | .avx2 => "blake3_hash_many_avx2" | .avx512 => "blake3_hash_many_avx512" | .neon => "blake3_hash_many_neon"

/-- which single-block kernel the C library uses: the first available of AVX-512 (tested on AVX512VL alone) > SSE4.1 > SSE2 >
portable; `f` is the mask returned by `get_cpu_features()` -/
def cCompressIsa (b : Build) (f : Nat) : Isa :=
  if b.flag "IS_X86" && !b.flag "BLAKE3_NO_AVX512" && hasBits f AVX512VL then .avx512
  else if b.flag "IS_X86" && !b.flag "BLAKE3_NO_SSE41" && hasBits f SSE41 then .sse41
  else if b.flag "IS_X86" && !b.flag "BLAKE3_NO_SSE2" && hasBits f SSE2 then .sse2
  else .portable

/-- which `hash_many` kernel: AVX-512 (both AVX512F and AVX512VL) > AVX2 > SSE4.1 > SSE2 > NEON > portable -/
def cHashIsa (b : Build) (f : Nat) : Isa :=
  if b.flag "IS_X86" && !b.flag "BLAKE3_NO_AVX512" && (f &&& (AVX512F ||| AVX512VL) == (AVX512F ||| AVX512VL)) then .avx512
  else if b.flag "IS_X86" && !b.flag "BLAKE3_NO_AVX2" && hasBits f AVX2 then .avx2
  else if b.flag "IS_X86" && !b.flag "BLAKE3_NO_SSE41" && hasBits f SSE41 then .sse41
  else if b.flag "IS_X86" && !b.flag "BLAKE3_NO_SSE2" && hasBits f SSE2 then .sse2
  else if b.kv "BLAKE3_USE_NEON" "1" then .neon
  else .portable

theorem c_compress_eq (b : Build) (f : Nat) :
    blake3_compress_in_place b f = .call ⟨cipSym (cCompressIsa b f), blake3_compress_in_place_params⟩ ∧
    blake3_compress_xof b f = .call ⟨cxofSym (cCompressIsa b f), blake3_compress_xof_params⟩ := by
  unfold blake3_compress_in_place blake3_compress_xof cCompressIsa
  simp only [cfgBlock, Build.on, Cfg.eval, List.all_cons, List.all_nil, Bool.and_true]
  generalize b.flag "IS_X86" = x
  generalize b.flag "BLAKE3_NO_AVX512" = n1
  generalize b.flag "BLAKE3_NO_SSE41" = n2
  generalize b.flag "BLAKE3_NO_SSE2" = n3
  generalize hasBits f AVX512VL = h1
  generalize hasBits f SSE41 = h2
  generalize hasBits f SSE2 = h3
  revert x n1 n2 n3 h1 h2 h3
  decide +kernel

theorem c_hash_many_eq (b : Build) (f : Nat) :
    blake3_hash_many b f = .call ⟨hashManySym (cHashIsa b f), blake3_hash_many_params⟩ ∧
    blake3_simd_degree b f = .val (cHashIsa b f).degree := by
  unfold blake3_hash_many blake3_simd_degree cHashIsa
  simp only [cfgBlock, Build.on, Cfg.eval, List.all_cons, List.all_nil, Bool.and_true]
  generalize b.flag "IS_X86" = x
  generalize b.flag "BLAKE3_NO_AVX512" = n1
  generalize b.flag "BLAKE3_NO_AVX2" = n0
  generalize b.flag "BLAKE3_NO_SSE41" = n2
  generalize b.flag "BLAKE3_NO_SSE2" = n3
  generalize b.kv "BLAKE3_USE_NEON" "1" = ne
  generalize (f &&& (AVX512F ||| AVX512VL) == (AVX512F ||| AVX512VL)) = h1
  generalize hasBits f AVX2 = h0
  generalize hasBits f SSE41 = h2
  generalize hasBits f SSE2 = h3
  revert x n1 n0 n2 n3 ne h1 h0 h2 h3
  decide +kernel

theorem c_xof_many_eq (b : Build) (f outblocks : Nat) :
    blake3_xof_many b f outblocks =
      if outblocks = 0 then .ret
      else if b.flag "IS_X86" && !b.flag "_WIN32" && !b.flag "__CYGWIN__" && !b.flag "BLAKE3_NO_AVX512" && hasBits f AVX512VL
      then .call ⟨"blake3_xof_many_avx512", blake3_xof_many_params⟩
      else .loop := by
  unfold blake3_xof_many
  by_cases h0 : outblocks = 0
  · subst h0; rfl
  · have : (outblocks == 0) = false := by simpa using h0
    simp only [this, if_neg h0, cfgBlock, Build.on, Cfg.eval, List.all_cons, List.all_nil, Bool.and_true, ifThen]
    generalize b.flag "IS_X86" = x
    generalize b.flag "BLAKE3_NO_AVX512" = n1
    generalize b.flag "_WIN32" = w
    generalize b.flag "__CYGWIN__" = cy
    generalize hasBits f AVX512VL = h1
    revert x n1 w cy h1
    decide +kernel

theorem c_simd_degree_le_max (b : Build) (f : Nat) : (cHashIsa b f).degree ≤ c_MAX_SIMD_DEGREE b := by
  unfold cHashIsa c_MAX_SIMD_DEGREE
  rw [show b.flag "IS_X86" = Cfg.eval b (.flag "IS_X86") from rfl,
    show b.kv "BLAKE3_USE_NEON" "1" = Cfg.eval b (.kv "BLAKE3_USE_NEON" "1") from rfl]
  generalize Cfg.eval b (.flag "IS_X86") = x
  generalize Cfg.eval b (.kv "BLAKE3_USE_NEON" "1") = ne
  generalize b.flag "BLAKE3_NO_AVX512" = n1
  generalize b.flag "BLAKE3_NO_AVX2" = n0
  generalize b.flag "BLAKE3_NO_SSE41" = n2
  generalize b.flag "BLAKE3_NO_SSE2" = n3
  generalize (f &&& (AVX512F ||| AVX512VL) == (AVX512F ||| AVX512VL)) = h1
  generalize hasBits f AVX2 = h0
  generalize hasBits f SSE41 = h2
  generalize hasBits f SSE2 = h3
  revert x n1 n0 n2 n3 ne h1 h0 h2 h3
  decide +kernel

/-- a SIMD kernel is selected only if its feature bits are in the mask -/
theorem cIsa_sound (b : Build) (f : Nat) :
    (cHashIsa b f = .avx512 → (f &&& (AVX512F ||| AVX512VL) == (AVX512F ||| AVX512VL)) = true) ∧
    (cHashIsa b f = .avx2 → hasBits f AVX2 = true) ∧
    (cHashIsa b f = .sse41 → hasBits f SSE41 = true) ∧
    (cHashIsa b f = .sse2 → hasBits f SSE2 = true) ∧
    (cCompressIsa b f = .avx512 → hasBits f AVX512VL = true) ∧
    (cCompressIsa b f = .sse41 → hasBits f SSE41 = true) ∧
    (cCompressIsa b f = .sse2 → hasBits f SSE2 = true) := by
  unfold cHashIsa cCompressIsa
  generalize b.flag "IS_X86" = x
  generalize b.flag "BLAKE3_NO_AVX512" = n1
  generalize b.flag "BLAKE3_NO_AVX2" = n0
  generalize b.flag "BLAKE3_NO_SSE41" = n2
  generalize b.flag "BLAKE3_NO_SSE2" = n3
  generalize b.kv "BLAKE3_USE_NEON" "1" = ne
  generalize (f &&& (AVX512F ||| AVX512VL) == (AVX512F ||| AVX512VL)) = h1
  generalize hasBits f AVX512VL = hvl
  generalize hasBits f AVX2 = h0
  generalize hasBits f SSE41 = h2
  generalize hasBits f SSE2 = h3
  revert x n1 n0 n2 n3 ne h1 hvl h0 h2 h3
  decide +kernel

/-- the kernels the C dispatch selects are backed by what `cpuid` / `xgetbv` reported (with the detected mask) -/
theorem c_dispatch_sound' (b : Build) (x64 : Bool) (cpuid : Nat → Regs) (cpuidex : Nat → Nat → Regs) (xcr0 : Nat) :
    (cHashIsa b (expectedFeatures x64 cpuid cpuidex xcr0) = .avx512 →
      zmmOs cpuid xcr0 = true ∧ regBit (cpuidex 7 0)[1] 16 = true ∧ regBit (cpuidex 7 0)[1] 31 = true) ∧
    (cHashIsa b (expectedFeatures x64 cpuid cpuidex xcr0) = .avx2 →
      leaf7Ok cpuid xcr0 = true ∧ regBit (cpuidex 7 0)[1] 5 = true) ∧
    (cHashIsa b (expectedFeatures x64 cpuid cpuidex xcr0) = .sse41 ∨
      cCompressIsa b (expectedFeatures x64 cpuid cpuidex xcr0) = .sse41 → regBit (cpuid 1)[2] 19 = true) ∧
    (cHashIsa b (expectedFeatures x64 cpuid cpuidex xcr0) = .sse2 ∨
      cCompressIsa b (expectedFeatures x64 cpuid cpuidex xcr0) = .sse2 → (x64 || regBit (cpuid 1)[3] 26) = true) ∧
    (cCompressIsa b (expectedFeatures x64 cpuid cpuidex xcr0) = .avx512 →
      zmmOs cpuid xcr0 = true ∧ regBit (cpuidex 7 0)[1] 31 = true) := by
  obtain ⟨h1, _, h3, _, h5, _, h7, h8, _⟩ := expectedFeatures_bits x64 cpuid cpuidex xcr0
  obtain ⟨s1, s2, s3, s4, s5, s6, s7⟩ := cIsa_sound b (expectedFeatures x64 cpuid cpuidex xcr0)
  refine ⟨fun h => ?_, fun h => ?_, fun h => ?_, fun h => ?_, fun h => ?_⟩
  · have := s1 h; rw [h8] at this; simpa [Bool.and_eq_true, and_assoc] using this
  · have := s2 h; rw [h5] at this; simpa [Bool.and_eq_true] using this
  · rcases h with h | h
    · have := s3 h; rw [h3] at this; exact this
    · have := s6 h; rw [h3] at this; exact this
  · rcases h with h | h
    · have := s4 h; rw [h1] at this; exact this
    · have := s7 h; rw [h1] at this; exact this
  · have := s5 h; rw [h7] at this; simpa [Bool.and_eq_true] using this

/-! ### src/ffi_*.rs -/

def isaOfFile : String → String
  | "ffi_sse2.rs" => "sse2" | "ffi_sse41.rs" => "sse41" | "ffi_avx2.rs" => "avx2" | "ffi_avx512.rs" => "avx512"
  | "ffi_neon.rs" => "neon" | _ => "?"

/-- how a Rust parameter is passed to C: the argument expressions, and the types of the `extern "C"` parameters they fill.
`xof` = the wrapper is `xof_many` (its output slice is passed as pointer + number of blocks) -/
def marshal (xof : Bool) : String × String → List (String × String)
  | (n, "&mutCVWords") => [(n ++ ".as_mut_ptr()", "*mutu32")]
  | (n, "&CVWords") => [(n ++ ".as_ptr()", "*constu32")]
  | (n, "&[u8;BLOCK_LEN]") => [(n ++ ".as_ptr()", "*constu8")]
  | (n, "u8") => [(n, "u8")]
  | (n, "u64") => [(n, "u64")]
  | (n, "IncrementCounter") => [(n ++ ".yes()", "bool")]
  | (n, "&[&[u8;N]]") => [(n ++ ".as_ptr()as*const*constu8", "*const*constu8"), (n ++ ".len()", "usize"), ("N/BLOCK_LEN", "usize")]
  | (n, "&mut[u8]") =>
      if xof then [(n ++ ".as_mut_ptr()", "*mutu8"), (n ++ ".len()/BLOCK_LEN", "usize")] else [(n ++ ".as_mut_ptr()", "*mutu8")]
  | (n, _) => [(n, "?")]

/-- a wrapper passes its arguments through: the callee is the C symbol of this file's instruction set, every parameter is
marshalled in order (nothing dropped, nothing reordered), `compress_xof` adds its local 64-byte buffer as the last argument and
returns it, the `extern "C"` declaration in the same file has the same `cfg`s and the matching parameter types, and
`hash_many` (and only it) asserts `out.len() >= inputs.len() * OUT_LEN` before the call -/
def wrapperOk (w : FfiFn) : Bool :=
  let m := w.params.flatMap (marshal (w.name == "xof_many"))
  let extra := if w.name == "compress_xof" then [("out.as_mut_ptr()", "*mutu8")] else []
  let sym := "blake3_" ++ w.name ++ "_" ++ isaOfFile w.file
  w.callee == "ffi::" ++ sym &&
  w.args == (m ++ extra).map (·.1) &&
  ffiExterns.any (fun e => e.1 == w.file && e.2.1 == sym && e.2.2.1 == w.cfgs && e.2.2.2.map (·.2) == (m ++ extra).map (·.2)) &&
  (if w.name == "compress_xof" then w.locals == [("out", "[0u8;64]")] && w.result == "out" && w.ret == "[u8;64]" &&
      w.order == ["let", "call", "result"]
   else w.locals == [] && w.result == "" && w.ret == "") &&
  (if w.name == "hash_many" then w.asserts == ["out.len()>=inputs.len()*OUT_LEN"] && w.order == ["assert", "call"]
   else w.asserts == [])

theorem ffi_wrappers_ok : ∀ w ∈ ffiWrappers, w.kind = "wrapper" → wrapperOk w = true := by decide

theorem ffi_guard_eq (out_len inputs_len : Nat) :
    ffi_sse2_hash_many_guard out_len inputs_len =
      (if inputs_len * 32 < 2 ^ 64 ∧ inputs_len * 32 ≤ out_len then .ok () else .panic) := by
  unfold ffi_sse2_hash_many_guard Arith.cmul Arith.assertTrue
  have hW : Arith.W = 2 ^ 64 := rfl
  rw [hW]
  by_cases h : inputs_len * 32 < 2 ^ 64
  · by_cases h2 : inputs_len * 32 ≤ out_len
    · simp [h, h2]
    · simp [h, h2]
  · simp [h]

theorem ffi_guards_same (a b : Nat) :
    ffi_sse41_hash_many_guard a b = ffi_sse2_hash_many_guard a b ∧ ffi_avx2_hash_many_guard a b = ffi_sse2_hash_many_guard a b ∧
    ffi_avx512_hash_many_guard a b = ffi_sse2_hash_many_guard a b ∧ ffi_neon_hash_many_guard a b = ffi_sse2_hash_many_guard a b :=
  ⟨rfl, rfl, rfl, rfl⟩

/-- every `crate::<module>::<fn>` the `Platform` methods call, where `<module>` can be an FFI file (src/lib.rs `#[path]`),
has a wrapper `<fn>` in that file -/
def ffiModuleFile : String → Option String
  | "sse2" => some "ffi_sse2.rs" | "sse41" => some "ffi_sse41.rs" | "avx2" => some "ffi_avx2.rs"
  | "avx512" => some "ffi_avx512.rs" | "neon" => some "ffi_neon.rs" | _ => none

def armCalls (arms : List (Arm Platform RBody)) : List RCall :=
  arms.filterMap fun a => match a.body with | .call c => some c | .loop => none

/-- for one call: if its module can be an FFI file, src/lib.rs maps the module to that file and the file has the wrapper -/
def chainOk (c : RCall) : Bool :=
  match c.module, c.fn with
  | some m, some f =>
    match ffiModuleFile m with
    | some file =>
      (kernelModules.any fun k => k.1 == m && k.2.2 == file) &&
      (ffiWrappers.any fun w => w.file == file && w.name == f && w.kind == "wrapper")
    | none => m == "portable" || m == "wasm32_simd"
  | _, _ => false

theorem dispatch_ffi_chain' :
    ∀ c ∈ armCalls compress_in_place_arms ++ armCalls compress_xof_arms ++ armCalls hash_many_arms ++ armCalls xof_many_arms,
      chainOk c = true := by
  decide

end B3.Proofs.Dispatch
