/-
Lemmas about the memory primitives of B3/CMem.lean and about the byte <-> word conversions, used by the
proofs that the data-level translation of c/blake3.c (Gen/CState.lean) equals the model.
-/
import B3.CMem
import B3.Prim
namespace B3.Proofs.CS
open B3 B3.CMem

@[simp] theorem ok_bind {α β : Type} (a : α) (f : α → R β) : (R.ok a >>= f) = f a := rfl
@[simp] theorem pure_ok {α : Type} (a : α) : (pure a : R α) = R.ok a := rfl
@[simp] theorem panic_bind {α β : Type} (f : α → R β) : (R.panic >>= f) = R.panic := rfl

/-! ### reads and writes -/

theorem rd_ok (a : List UInt8) (off n : Nat) (h : off + n ≤ a.length) : rd a off n = .ok ((a.drop off).take n) := by
  unfold rd; rw [if_pos h]

theorem rd_all (a : List UInt8) (n : Nat) (h : a.length = n) : rd a 0 n = .ok a := by
  rw [rd_ok a 0 n (by omega)]; simp [← h]

theorem rd_take (a : List UInt8) (n : Nat) (h : n ≤ a.length) : rd a 0 n = .ok (a.take n) := by
  rw [rd_ok a 0 n (by omega)]; simp

theorem rd_mid (a b c : List UInt8) (n : Nat) (h : b.length = n) : rd (a ++ b ++ c) a.length n = .ok b := by
  rw [rd_ok _ _ _ (by simp; omega)]
  subst h
  simp

theorem rd_mid' (a b c : List UInt8) (off n : Nat) (ho : off = a.length) (h : b.length = n) :
    rd (a ++ b ++ c) off n = .ok b := by
  subst ho; exact rd_mid a b c n h

theorem rd_left (a b : List UInt8) (n : Nat) (h : a.length = n) : rd (a ++ b) 0 n = .ok a := by
  have := rd_mid [] a b n h
  simpa using this

theorem rd_right (a b : List UInt8) (off n : Nat) (ho : off = a.length) (h : b.length = n) : rd (a ++ b) off n = .ok b := by
  have := rd_mid' a b [] off n ho h
  simpa using this

theorem wr_ok (a : List UInt8) (off : Nat) (b : List UInt8) (h : off + b.length ≤ a.length) :
    wr a off b = .ok (a.take off ++ b ++ a.drop (off + b.length)) := by
  unfold wr; rw [if_pos h]

theorem wr_all (a b : List UInt8) (h : b.length = a.length) : wr a 0 b = .ok b := by
  rw [wr_ok a 0 b (by omega)]; simp [h]

theorem wr_mid (a b c b' : List UInt8) (off : Nat) (ho : off = a.length) (h : b'.length = b.length) :
    wr (a ++ b ++ c) off b' = .ok (a ++ b' ++ c) := by
  subst ho
  rw [wr_ok _ _ _ (by simp; omega)]
  simp [h]

theorem wr_right (a b b' : List UInt8) (off : Nat) (ho : off = a.length) (h : b'.length = b.length) :
    wr (a ++ b) off b' = .ok (a ++ b') := by
  have := wr_mid a b [] b' off ho h
  simpa using this

theorem ptr_ok (a : List UInt8) (off : Nat) (h : off ≤ a.length) : ptr a off = .ok (a.drop off) := by
  unfold ptr; rw [if_pos h]

theorem memcpy_ok (dst : List UInt8) (doff : Nat) (src : List UInt8) (soff n : Nat) (h1 : soff + n ≤ src.length)
    (h2 : doff + n ≤ dst.length) :
    memcpy dst doff src soff n = .ok (dst.take doff ++ (src.drop soff).take n ++ dst.drop (doff + n)) := by
  unfold memcpy
  rw [rd_ok _ _ _ h1]
  have hl : ((src.drop soff).take n).length = n := by simp; omega
  simp only []
  rw [wr_ok _ _ _ (by rw [hl]; exact h2), hl]

/-- copying a middle segment to the start of a buffer -/
theorem memcpy_mid0 (dst a b c : List UInt8) (off n : Nat) (ho : off = a.length) (hn : b.length = n) (hd : n ≤ dst.length) :
    memcpy dst 0 (a ++ b ++ c) off n = .ok (b ++ dst.drop n) := by
  unfold memcpy
  rw [rd_mid' a b c off n ho hn]
  simp only []
  rw [wr_ok _ _ _ (by omega)]
  simp [hn]

theorem memset_ok (dst : List UInt8) (doff : Nat) (v : UInt8) (n : Nat) (h : doff + n ≤ dst.length) :
    memset dst doff v n = .ok (dst.take doff ++ List.replicate n v ++ dst.drop (doff + n)) := by
  unfold memset
  rw [wr_ok _ _ _ (by simpa using h)]
  simp

theorem memset_all (dst : List UInt8) (v : UInt8) (n : Nat) (h : dst.length = n) :
    memset dst 0 v n = .ok (List.replicate n v) := by
  rw [memset_ok _ _ _ _ (by omega)]
  simp [← h]

theorem memcpyW_32 (d s : CV) : memcpyW d s 32 = .ok s := by
  unfold memcpyW
  rw [if_pos (by omega)]
  congr 1
  apply Vector.ext
  intro i hi
  simp

theorem idx_ok (i : Int) (h : 0 ≤ i) : idx i = .ok i.toNat := by unfold idx; rw [if_pos h]

theorem uninitBytes_length (junk : Nat → UInt8) (off n : Nat) : (uninitBytes junk off n).length = n := by
  simp [uninitBytes]

theorem w64add_eq (a b : Nat) (h : a + b < 2 ^ 64) : Arith.w64add a b = a + b := by
  unfold Arith.w64add; rw [if_pos (by simpa using h)]

theorem w64sub_eq (a b : Nat) (h : b ≤ a) : Arith.w64sub a b = a - b := by
  unfold Arith.w64sub; rw [if_pos h]

theorem w64mul_eq (a b : Nat) (h : a * b < 2 ^ 64) : Arith.w64mul a b = a * b := by
  unfold Arith.w64mul; rw [if_pos (by simpa using h)]

/-! ### zero padding of a block buffer -/

/-- the 64-byte buffer that holds the bytes `b` followed by zeros -/
def zpad (b : List UInt8) : List UInt8 := b ++ List.replicate (64 - b.length) 0

theorem zpad_length (b : List UInt8) (h : b.length ≤ 64) : (zpad b).length = 64 := by
  simp [zpad]; omega

theorem zpad_nil : zpad [] = List.replicate 64 0 := rfl

theorem zpad_full (b : List UInt8) (h : b.length = 64) : zpad b = b := by
  simp [zpad, h]

theorem zpad_take (b : List UInt8) : (zpad b).take b.length = b := by
  simp [zpad]

/-- appending `x` to the buffered bytes = writing `x` at `buf + buf_len` -/
theorem zpad_write (b x : List UInt8) (h : b.length + x.length ≤ 64) :
    (zpad b).take b.length ++ x ++ (zpad b).drop (b.length + x.length) = zpad (b ++ x) := by
  simp only [zpad, List.take_left', List.length_append]
  rw [List.drop_append, List.drop_of_length_le (by omega), List.nil_append, List.drop_replicate, List.append_assoc]
  have e : 64 - b.length - (b.length + x.length - b.length) = 64 - (b.length + x.length) := by omega
  rw [e, List.append_assoc]

theorem getD_zpad (b : List UInt8) (i : Nat) : (zpad b).getD i 0 = b.getD i 0 := by
  unfold zpad
  by_cases h : i < b.length
  · simp [List.getD, List.getElem?_append_left h]
  · simp only [List.getD]
    rw [List.getElem?_append_right (by omega), List.getElem?_eq_none (l := b) (by omega)]
    by_cases h2 : i - b.length < 64 - b.length
    · simp [h2]
    · simp [h2]

/-- a block is read with zero padding, so the padding of the buffer does not matter -/
theorem wordsOfBytes_zpad (n : Nat) (b : List UInt8) : wordsOfBytes n (zpad b) = wordsOfBytes n b := by
  unfold wordsOfBytes wordAt
  simp only [getD_zpad]

/-! ### bytes <-> words -/

theorem bytesOfWords_length {n : Nat} (v : Vector UInt32 n) : (bytesOfWords v).length = 4 * n := by
  unfold bytesOfWords
  have : ∀ (l : List UInt32), (l.flatMap wordBytes).length = 4 * l.length := by
    intro l
    induction l with
    | nil => rfl
    | cons a l ih => simp [List.flatMap_cons, ih, wordBytes]; omega
  rw [this]; simp

theorem wordAt_cons4 (a b c d : UInt8) (bs : List UInt8) (i : Nat) :
    wordAt (a :: b :: c :: d :: bs) (i + 1) = wordAt bs i := by
  unfold wordAt
  have e0 : 4 * (i + 1) = 4 * i + 4 := by omega
  have e1 : 4 * i + 4 + 1 = 4 * i + 1 + 4 := by omega
  have e2 : 4 * i + 4 + 2 = 4 * i + 2 + 4 := by omega
  have e3 : 4 * i + 4 + 3 = 4 * i + 3 + 4 := by omega
  rw [e0, e1, e2, e3]
  simp [List.getD]

theorem wordAt_flatMap (l : List UInt32) (rest : List UInt8) (i : Nat) (h : i < l.length) :
    wordAt (l.flatMap wordBytes ++ rest) i = l[i] := by
  induction l generalizing i with
  | nil => simp at h
  | cons w l ih =>
    cases i with
    | zero =>
      simp only [List.flatMap_cons, List.append_assoc, List.getElem_cons_zero]
      exact wordAt_wordBytes_append w _
    | succ i =>
      simp only [List.flatMap_cons, List.getElem_cons_succ]
      have : wordBytes w ++ List.flatMap wordBytes l ++ rest
          = byteOf w 0 :: byteOf w 1 :: byteOf w 2 :: byteOf w 3 :: (List.flatMap wordBytes l ++ rest) := by
        simp [wordBytes]
      rw [this, wordAt_cons4]
      exact ih i (by simpa using h)

/-- reading back the words that were stored -/
theorem wordsOfBytes_bytesOfWords {n : Nat} (v : Vector UInt32 n) (rest : List UInt8) :
    wordsOfBytes n (bytesOfWords v ++ rest) = v := by
  apply Vector.ext
  intro i hi
  unfold wordsOfBytes bytesOfWords
  rw [Vector.getElem_ofFn]
  rw [wordAt_flatMap v.toList rest i (by simpa using hi)]
  simp

theorem wordsOfBytes_bytesOfWords' {n : Nat} (v : Vector UInt32 n) : wordsOfBytes n (bytesOfWords v) = v := by
  have := wordsOfBytes_bytesOfWords v []
  simpa using this

/-- the 64-byte block of a parent node holds the two child chaining values -/
theorem wordsOfBytes_pair (l r : CV) : wordsOfBytes 16 (bytesOfWords l ++ bytesOfWords r) = catCV l r := by
  have e : bytesOfWords l ++ bytesOfWords r = bytesOfWords (catCV l r) := by
    unfold bytesOfWords catCV
    have : (l ++ r : Vector UInt32 (8 + 8)).toList = l.toList ++ r.toList := Vector.toList_append
    rw [this, List.flatMap_append]
  rw [e, wordsOfBytes_bytesOfWords']

/-! ### small facts about `UInt8` -/

theorem u8_ofNat_toNat (x : UInt8) : UInt8.ofNat x.toNat = x := by
  apply UInt8.toNat_inj.mp; simp

theorem u8_toNat_ofNat_lt (n : Nat) (h : n < 256) : (UInt8.ofNat n).toNat = n := by
  simp [UInt8.toNat_ofNat']; omega

theorem u8_eq_of_toNat {x : UInt8} {n : Nat} (h : x.toNat = n) : x = UInt8.ofNat n := by
  rw [← h, u8_ofNat_toNat]

end B3.Proofs.CS
