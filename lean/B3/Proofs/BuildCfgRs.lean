/-
BUILD-CFG, part 1 (property C04): build.rs as translated (`B3/Gen/BuildRs.lean`): the closed form of what `main` emits and compiles,
for every environment; when it panics; the finitely many flavours.  See `B3/Proofs/BuildCfg.lean` for the overview and the main theorems.
-/
import B3.Gen.BuildRs
set_option linter.unusedSimpArgs false
namespace B3.Proofs.BuildCfg
open B3 B3.Dispatch B3.BuildCfg B3.Gen.BuildRs

/-! ## 1. build.rs -/

/-! ### finite quantifiers -/

instance decForallOptBool (p : Option Bool → Prop) [∀ o, Decidable (p o)] : Decidable (∀ o, p o) :=
  if h0 : p none then
    if h1 : p (some true) then
      if h2 : p (some false) then isTrue (fun o => match o with | none => h0 | some true => h1 | some false => h2)
      else isFalse (fun h => h2 (h _))
    else isFalse (fun h => h1 (h _))
  else isFalse (fun h => h0 (h _))

instance decForallSupport (p : CCompilerSupport → Prop) [∀ o, Decidable (p o)] : Decidable (∀ o, p o) :=
  if h0 : p .NoCompiler then
    if h1 : p .NoAVX512 then
      if h2 : p .YesAVX512 then isTrue (fun o => match o with | .NoCompiler => h0 | .NoAVX512 => h1 | .YesAVX512 => h2)
      else isFalse (fun h => h2 (h _))
    else isFalse (fun h => h1 (h _))
  else isFalse (fun h => h0 (h _))

/-! ### signatures -/

/-- what matters of a run of the build script: the `cargo::rustc-cfg=` names and the files compiled, each in order -/
abbrev Sig := List String × List String

def Sig.app (a b : Sig) : Sig := (a.1 ++ b.1, a.2 ++ b.2)
def Sig.nil : Sig := ([], [])

def sigOf (evs : List Event) : Sig := (cfgNames evs, compiledFiles evs)

/-- the signature of a run, `none` if it panicked -/
def okSig {α : Type} : B α → Option Sig
  | .ok _ l => some (sigOf l)
  | .panic _ => none

theorem cfgNames_append (a b : List Event) : cfgNames (a ++ b) = cfgNames a ++ cfgNames b := by
  induction a with
  | nil => rfl
  | cons x xs ih => cases x <;> simp [cfgNames, ih]

theorem compiles_append (a b : List Event) : compiles (a ++ b) = compiles a ++ compiles b := by
  induction a with
  | nil => rfl
  | cons x xs ih => cases x <;> simp [compiles, ih]

theorem sigOf_append (a b : List Event) : sigOf (a ++ b) = (sigOf a).app (sigOf b) := by
  simp [sigOf, Sig.app, cfgNames_append, compiledFiles, compiles_append]

/-- run statements in order -/
def runAll : List (B Unit) → B Unit
  | [] => pure ()
  | x :: xs => x >>= fun _ => runAll xs

/-- the signatures of statements run in order -/
def sigAll : List (B Unit) → Option Sig
  | [] => some Sig.nil
  | x :: xs =>
    match okSig x, sigAll xs with
    | some a, some b => some (a.app b)
    | _, _ => none

theorem okSig_runAll (l : List (B Unit)) : okSig (runAll l) = sigAll l := by
  induction l with
  | nil => rfl
  | cons x xs ih =>
    show okSig (B.bind x fun _ => runAll xs) = _
    unfold sigAll
    rw [← ih]
    cases x with
    | panic m => rfl
    | ok a l =>
      cases h : runAll xs with
      | panic m => simp [B.bind, h, okSig]
      | ok b l' => simp [B.bind, h, okSig, sigOf_append]

theorem bind_pure_unit (x : B Unit) : (x >>= fun _ => (pure () : B Unit)) = x := by
  show B.bind x (fun _ => B.ok () []) = x
  cases x <;> simp [B.bind]

theorem main_eq_runAll (e : Env) : main e = runAll (mainStmts e) := by
  simp only [main, mainStmts, runAll, bind_pure_unit]

theorem sigAll_cons {x : B Unit} {xs : List (B Unit)} {s : Sig} (h : sigAll (x :: xs) = some s) :
    ∃ a b, okSig x = some a ∧ sigAll xs = some b ∧ s = a.app b := by
  unfold sigAll at h
  cases hx : okSig x with
  | none => simp [hx] at h
  | some a =>
    cases hs : sigAll xs with
    | none => simp [hx, hs] at h
    | some b =>
      simp only [hx, hs, Option.some.injEq] at h
      exact ⟨a, b, rfl, rfl, h.symm⟩

/-! ### the observations the script makes, as Booleans -/

/-- a helper returned `true` (it did not panic and did not return `false`) -/
def isT (o : Option Bool) : Bool := o == some true

def fPure (e : Env) : Bool := (e.var "CARGO_FEATURE_PURE").isSome
def fPrefer (e : Env) : Bool := (e.var "CARGO_FEATURE_PREFER_INTRINSICS").isSome
def fNeon (e : Env) : Bool := (e.var "CARGO_FEATURE_NEON").isSome
def fNoNeon (e : Env) : Bool := (e.var "CARGO_FEATURE_NO_NEON").isSome
def fWasmSimd (e : Env) : Bool := (e.var "CARGO_FEATURE_WASM32_SIMD").isSome

/-- the target triple starts with `x86_64` or with `i386` / `i586` / `i686` -/
def isX86 (e : Env) : Bool := isT (is_x86_64 e) || isT (is_x86_32 e)

/-- which flavour of the assembly files build.rs picks -/
inductive Os where
  | unix | windowsGnu | windowsMsvc
deriving DecidableEq, Repr

def osOf (e : Env) : Os :=
  if isT (is_windows_target e) then (if e.use_msvc_asm then .windowsMsvc else .windowsGnu) else .unix

def asmFiles : Os → List String
  | .unix => ["c/blake3_sse2_x86-64_unix.S", "c/blake3_sse41_x86-64_unix.S", "c/blake3_avx2_x86-64_unix.S"]
  | .windowsGnu => ["c/blake3_sse2_x86-64_windows_gnu.S", "c/blake3_sse41_x86-64_windows_gnu.S", "c/blake3_avx2_x86-64_windows_gnu.S"]
  | .windowsMsvc => ["c/blake3_sse2_x86-64_windows_msvc.asm", "c/blake3_sse41_x86-64_windows_msvc.asm", "c/blake3_avx2_x86-64_windows_msvc.asm"]

def asm512File : Os → String
  | .unix => "c/blake3_avx512_x86-64_unix.S"
  | .windowsGnu => "c/blake3_avx512_x86-64_windows_gnu.S"
  | .windowsMsvc => "c/blake3_avx512_x86-64_windows_msvc.asm"

/-- SSE2 / SSE4.1 / AVX2 come from the Rust intrinsics modules (no file is compiled) -/
def useRust (x32 prefer pur : Bool) (sup : CCompilerSupport) : Bool := x32 || prefer || pur || sup == .NoCompiler
/-- no AVX-512 code at all -/
def no512 (pur : Bool) (sup : CCompilerSupport) : Bool := pur || sup == .NoCompiler || sup == .NoAVX512
/-- AVX-512 from c/blake3_avx512.c rather than from the assembly file -/
def c512 (x32 prefer : Bool) : Bool := x32 || prefer

/-- what the x86 statement of `main` emits and compiles -/
def x86Sig (x32 prefer pur : Bool) (sup : CCompilerSupport) (os : Os) : Sig :=
  ((if useRust x32 prefer pur sup then ["blake3_sse2_rust", "blake3_sse41_rust", "blake3_avx2_rust"]
    else ["blake3_sse2_ffi", "blake3_sse41_ffi", "blake3_avx2_ffi"]) ++
   (if no512 pur sup then [] else ["blake3_avx512_ffi"]),
   (if useRust x32 prefer pur sup then [] else asmFiles os) ++
   (if no512 pur sup then [] else if c512 x32 prefer then ["c/blake3_avx512.c"] else [asm512File os]))

def x86Part (e : Env) : Sig :=
  if isX86 e then x86Sig (isT (is_x86_32 e)) (fPrefer e) (fPure e) e.c_compiler_support (osOf e) else Sig.nil

/-- the condition under which build.rs enables NEON -/
def neonCond (e : Env) : Bool :=
  (isT (is_arm e) && fNeon e) || (!fNoNeon e && !fPure e && isT (is_aarch64 e) && isT (is_little_endian e))

def neonPart (e : Env) : Sig := if neonCond e then (["blake3_neon"], ["c/blake3_neon.c"]) else Sig.nil

def wasmPart (e : Env) : Sig := if isT (is_wasm32 e) && fWasmSimd e then (["blake3_wasm32_simd"], []) else Sig.nil

/-! ### one summary per statement of `main` -/

theorem is_pure_eq (e : Env) : is_pure e = some (fPure e) := rfl
theorem should_prefer_intrinsics_eq (e : Env) : should_prefer_intrinsics e = some (fPrefer e) := rfl
theorem is_neon_eq (e : Env) : is_neon e = some (fNeon e) := rfl
theorem is_no_neon_eq (e : Env) : is_no_neon e = some (fNoNeon e) := rfl
theorem is_wasm32_simd_eq (e : Env) : is_wasm32_simd e = some (fWasmSimd e) := rfl

theorem new_build_eq (e : Env) : new_build e =
    (is_windows_msvc e).map fun m => if m then ⟨[], [], false⟩ else ⟨[], ["-std=c11"], false⟩ := by
  unfold new_build
  generalize is_windows_msvc e = o
  revert o
  decide

/-- either the statement panicked or its signature is `a` -/
def SigIs (x : B Unit) (a : Sig) : Prop := okSig x = none ∨ okSig x = some a

instance (x : B Unit) (a : Sig) : Decidable (SigIs x a) := by unfold SigIs; infer_instance

theorem SigIs.elim {x : B Unit} {a s : Sig} (h : SigIs x a) (hs : okSig x = some s) : s = a := by
  rcases h with h | h
  · rw [h] at hs; cases hs
  · rw [h] at hs; exact (Option.some.inj hs).symm

theorem s1_sig (e : Env) : SigIs (main_s1 e) Sig.nil := by
  unfold main_s1
  generalize is_windows_msvc e = wm
  generalize e.var "CFLAGS" = cf
  rcases wm with _ | _ | _ <;> rcases cf with _ | c <;> first | exact Or.inl rfl | exact Or.inr rfl

theorem s2_sig (e : Env) : SigIs (main_s2 e) Sig.nil := by
  unfold main_s2; decide

theorem s3_sig (e : Env) : SigIs (main_s3 e) Sig.nil := by
  unfold main_s3; decide

theorem s4_sig (e : Env) : SigIs (main_s4 e) Sig.nil := by
  unfold main_s4
  generalize is_pure e = a
  generalize is_neon e = b
  revert a b
  decide

theorem s5_sig (e : Env) : SigIs (main_s5 e) Sig.nil := by
  unfold main_s5
  generalize is_no_neon e = a
  generalize is_neon e = b
  revert a b
  decide

theorem s6_sig (e : Env) : SigIs (main_s6 e) (x86Part e) := by
  unfold main_s6 build_sse2_sse41_avx2_rust_intrinsics build_sse2_sse41_avx2_assembly build_avx512_c_intrinsics build_avx512_assembly
    x86Part isX86 osOf
  rw [new_build_eq]
  try simp only [is_pure_eq, should_prefer_intrinsics_eq, is_neon_eq, is_no_neon_eq, is_wasm32_simd_eq]
  generalize is_x86_64 e = x64
  generalize is_x86_32 e = x32
  generalize is_windows_target e = wt
  generalize is_windows_msvc e = wm
  generalize is_windows_gnu e = wg
  generalize e.c_compiler_support = sup
  generalize e.use_msvc_asm = masm
  generalize fPure e = pur
  generalize fPrefer e = pre
  revert x64 x32 wt wm wg sup masm pur pre
  decide

theorem s7_sig (e : Env) : SigIs (main_s7 e) Sig.nil := by
  unfold main_s7
  generalize is_neon e = a
  generalize is_big_endian e = b
  revert a b
  decide

theorem s8_sig (e : Env) : SigIs (main_s8 e) (neonPart e) := by
  unfold main_s8 build_neon_c_intrinsics neonPart neonCond
  rw [new_build_eq]
  try simp only [is_pure_eq, should_prefer_intrinsics_eq, is_neon_eq, is_no_neon_eq, is_wasm32_simd_eq]
  generalize is_arm e = arm
  generalize is_aarch64 e = a64
  generalize is_armv7 e = a7
  generalize is_little_endian e = le
  generalize is_windows_msvc e = wm
  generalize fPure e = pur
  generalize fNeon e = neon
  generalize fNoNeon e = nn
  revert arm a64 a7 le wm pur neon nn
  decide

theorem s9_sig (e : Env) : SigIs (main_s9 e) (wasmPart e) := by
  unfold main_s9 build_wasm32_simd wasmPart
  try simp only [is_pure_eq, should_prefer_intrinsics_eq, is_neon_eq, is_no_neon_eq, is_wasm32_simd_eq]
  generalize is_wasm32 e = w
  generalize fWasmSimd e = ws
  revert w ws
  decide

theorem s10_sig (e : Env) : SigIs (main_s10 e) Sig.nil := by unfold main_s10; decide
theorem s11_sig (e : Env) : SigIs (main_s11 e) Sig.nil := by unfold main_s11; decide
theorem s12_sig (e : Env) : SigIs (main_s12 e) Sig.nil := by unfold main_s12; decide

theorem s13_sig (e : Env) : SigIs (main_s13 e) Sig.nil := by
  unfold main_s13
  generalize is_windows_target e = wt
  generalize e.use_msvc_asm = masm
  revert wt masm
  decide

/-- the closed form of what `main` emits and compiles -/
def mainSig (e : Env) : Sig := ((x86Part e).app (neonPart e)).app (wasmPart e)

theorem Sig.nil_app (a : Sig) : Sig.nil.app a = a := rfl
theorem Sig.app_nil (a : Sig) : a.app Sig.nil = a := by simp [Sig.app, Sig.nil]
theorem Sig.app_assoc (a b c : Sig) : (a.app b).app c = a.app (b.app c) := by simp [Sig.app]

theorem main_sig (e : Env) (evs : List Event) (h : main e = .ok () evs) : sigOf evs = mainSig e := by
  have h0 : okSig (main e) = some (sigOf evs) := by rw [h]; rfl
  rw [main_eq_runAll, okSig_runAll] at h0
  unfold mainStmts at h0
  obtain ⟨a1, r1, e1, h1, q1⟩ := sigAll_cons h0
  obtain ⟨a2, r2, e2, h2, q2⟩ := sigAll_cons h1
  obtain ⟨a3, r3, e3, h3, q3⟩ := sigAll_cons h2
  obtain ⟨a4, r4, e4, h4, q4⟩ := sigAll_cons h3
  obtain ⟨a5, r5, e5, h5, q5⟩ := sigAll_cons h4
  obtain ⟨a6, r6, e6, h6, q6⟩ := sigAll_cons h5
  obtain ⟨a7, r7, e7, h7, q7⟩ := sigAll_cons h6
  obtain ⟨a8, r8, e8, h8, q8⟩ := sigAll_cons h7
  obtain ⟨a9, r9, e9, h9, q9⟩ := sigAll_cons h8
  obtain ⟨a10, r10, e10, h10, q10⟩ := sigAll_cons h9
  obtain ⟨a11, r11, e11, h11, q11⟩ := sigAll_cons h10
  obtain ⟨a12, r12, e12, h12, q12⟩ := sigAll_cons h11
  obtain ⟨a13, r13, e13, h13, q13⟩ := sigAll_cons h12
  have h14 : r13 = Sig.nil := by simpa [sigAll] using h13.symm
  rw [q1, q2, q3, q4, q5, q6, q7, q8, q9, q10, q11, q12, q13, h14,
    (s1_sig e).elim e1, (s2_sig e).elim e2, (s3_sig e).elim e3, (s4_sig e).elim e4, (s5_sig e).elim e5, (s6_sig e).elim e6,
    (s7_sig e).elim e7, (s8_sig e).elim e8, (s9_sig e).elim e9, (s10_sig e).elim e10, (s11_sig e).elim e11,
    (s12_sig e).elim e12, (s13_sig e).elim e13]
  simp only [Sig.nil_app, Sig.app_nil, mainSig, Sig.app_assoc]

/-! ### every event of a run: names declared, compiler flags -/

/-- what every event of a run of `main` looks like.  `wm` / `wg`: `is_windows_msvc()` / `is_windows_gnu()` (from the `TARGET` triple),
`a7`: `is_armv7()`.  A `cargo::rustc-cfg` name is one of `all_cfgs`; only `CFLAGS` is set; every `cc::Build` has
`emit_rerun_if_env_changed(false)`, `-std=c11` unless the target is Windows-MSVC, and per library: nothing more for the SSE/AVX2
assembly; `/arch:AVX512` (MSVC) or `-mavx512f -mavx512vl` for c/blake3_avx512.c, plus `-fno-asynchronous-unwind-tables` on Windows-GNU;
`-mavx512f -mavx512vl` for the AVX-512 assembly unless it is the MASM file; `-mfpu=neon-vfpv4 -mfloat-abi=hard` for NEON on ARMv7 -/
def eventOk (wm wg a7 : Bool) : Event → Bool
  | .rustcCfg n => main_all_cfgs.contains n
  | .rustcCheckCfg _ => true
  | .setEnv k _ => k == "CFLAGS"
  | .readDir p => p == "c"
  | .removeFile _ => true
  | .compile lib b =>
    !b.emitRerunIfEnvChanged &&
    (let std := if wm then [] else ["-std=c11"]
     if lib == "blake3_sse2_sse41_avx2_assembly" then b.flags == std
     else if lib == "blake3_avx512_intrinsics" then
       b.files == ["c/blake3_avx512.c"] &&
       b.flags == std ++ (if wm then ["/arch:AVX512"] else ["-mavx512f", "-mavx512vl"]) ++
         (if wg then ["-fno-asynchronous-unwind-tables"] else [])
     else if lib == "blake3_avx512_assembly" then
       b.flags == std ++ (if b.files == ["c/blake3_avx512_x86-64_windows_msvc.asm"] then [] else ["-mavx512f", "-mavx512vl"])
     else if lib == "blake3_neon" then
       b.files == ["c/blake3_neon.c"] && b.flags == std ++ (if a7 then ["-mfpu=neon-vfpv4", "-mfloat-abi=hard"] else [])
     else false)

/-- the events of a statement (if it does not panic) all satisfy `p` -/
def EvsOk (x : B Unit) (p : Event → Bool) : Prop :=
  match x with
  | .ok _ l => l.all p = true
  | .panic _ => True

instance (x : B Unit) (p : Event → Bool) : Decidable (EvsOk x p) := by unfold EvsOk; split <;> infer_instance

theorem runAll_all (p : Event → Bool) (l : List (B Unit)) (hl : ∀ x ∈ l, EvsOk x p) (evs : List Event)
    (h : runAll l = .ok () evs) : evs.all p = true := by
  induction l generalizing evs with
  | nil => cases h; rfl
  | cons x xs ih =>
    have hx := hl x (by simp)
    change B.bind x (fun _ => runAll xs) = .ok () evs at h
    cases x with
    | panic m => cases h
    | ok a l1 =>
      cases hr : runAll xs with
      | panic m => simp [B.bind, hr] at h
      | ok b l2 =>
        simp only [B.bind, hr, B.ok.injEq, true_and] at h
        subst h
        have h2 := ih (fun y hy => hl y (by simp [hy])) l2 (by cases b; exact hr)
        have h1 : l1.all p = true := hx
        simp [List.all_append, h1, h2]

theorem stmts_events_ok (e : Env) :
    ∀ x ∈ mainStmts e, EvsOk x (eventOk (isT (is_windows_msvc e)) (isT (is_windows_gnu e)) (isT (is_armv7 e))) := by
  have h1 : EvsOk (main_s1 e) (eventOk (isT (is_windows_msvc e)) (isT (is_windows_gnu e)) (isT (is_armv7 e))) := by
    unfold main_s1
    generalize is_windows_gnu e = wg
    generalize is_armv7 e = a7
    generalize is_windows_msvc e = wm
    generalize e.var "CFLAGS" = cf
    rcases wm with _ | _ | _ <;> rcases cf with _ | c <;> first | trivial | rfl
  have h6 : EvsOk (main_s6 e) (eventOk (isT (is_windows_msvc e)) (isT (is_windows_gnu e)) (isT (is_armv7 e))) := by
    unfold main_s6 build_sse2_sse41_avx2_rust_intrinsics build_sse2_sse41_avx2_assembly build_avx512_c_intrinsics build_avx512_assembly
    rw [new_build_eq]
    try simp only [is_pure_eq, should_prefer_intrinsics_eq, is_neon_eq, is_no_neon_eq, is_wasm32_simd_eq]
    generalize is_x86_64 e = x64
    generalize is_x86_32 e = x32
    generalize is_windows_target e = wt
    generalize is_windows_msvc e = wm
    generalize is_windows_gnu e = wg
    generalize is_armv7 e = a7
    generalize e.c_compiler_support = sup
    generalize e.use_msvc_asm = masm
    generalize fPure e = pur
    generalize fPrefer e = pre
    revert x64 x32 wt wm wg a7 sup masm pur pre
    decide
  have h8 : EvsOk (main_s8 e) (eventOk (isT (is_windows_msvc e)) (isT (is_windows_gnu e)) (isT (is_armv7 e))) := by
    unfold main_s8 build_neon_c_intrinsics
    rw [new_build_eq]
    try simp only [is_pure_eq, should_prefer_intrinsics_eq, is_neon_eq, is_no_neon_eq, is_wasm32_simd_eq]
    generalize is_arm e = arm
    generalize is_aarch64 e = a64
    generalize is_armv7 e = a7
    generalize is_little_endian e = le
    generalize is_windows_msvc e = wm
    generalize is_windows_gnu e = wg
    generalize fPure e = pur
    generalize fNeon e = neon
    generalize fNoNeon e = nn
    revert arm a64 a7 le wm wg pur neon nn
    decide
  have h9 : EvsOk (main_s9 e) (eventOk (isT (is_windows_msvc e)) (isT (is_windows_gnu e)) (isT (is_armv7 e))) := by
    unfold main_s9 build_wasm32_simd
    try simp only [is_pure_eq, should_prefer_intrinsics_eq, is_neon_eq, is_no_neon_eq, is_wasm32_simd_eq]
    generalize is_wasm32 e = w
    generalize fWasmSimd e = ws
    generalize is_windows_msvc e = wm
    generalize is_windows_gnu e = wg
    generalize is_armv7 e = a7
    revert w ws wm wg a7
    decide
  have hsimple : ∀ (x : B Unit), (∀ wm wg a7, EvsOk x (eventOk wm wg a7)) →
      EvsOk x (eventOk (isT (is_windows_msvc e)) (isT (is_windows_gnu e)) (isT (is_armv7 e))) := fun x h => h _ _ _
  have h2 := hsimple (main_s2 e) (by unfold main_s2; decide)
  have h3 := hsimple (main_s3 e) (by unfold main_s3; decide)
  have h4 := hsimple (main_s4 e) (by
    unfold main_s4; generalize is_pure e = a; generalize is_neon e = b; revert a b; decide)
  have h5 := hsimple (main_s5 e) (by
    unfold main_s5; generalize is_no_neon e = a; generalize is_neon e = b; revert a b; decide)
  have h7 := hsimple (main_s7 e) (by
    unfold main_s7; generalize is_neon e = a; generalize is_big_endian e = b; revert a b; decide)
  have h10 := hsimple (main_s10 e) (by unfold main_s10; decide)
  have h11 := hsimple (main_s11 e) (by unfold main_s11; decide)
  have h12 := hsimple (main_s12 e) (by unfold main_s12; decide)
  have h13 := hsimple (main_s13 e) (by
    unfold main_s13; generalize is_windows_target e = wt; generalize e.use_msvc_asm = m; revert wt m; decide)
  intro x hx
  simp only [mainStmts, List.mem_cons, List.not_mem_nil, or_false] at hx
  rcases hx with h | h | h | h | h | h | h | h | h | h | h | h | h <;> subst h <;> assumption

/-- every event of a run of `main` that does not panic is as `eventOk` says -/
theorem main_events_ok (e : Env) (evs : List Event) (h : main e = .ok () evs) :
    ∀ ev ∈ evs, eventOk (isT (is_windows_msvc e)) (isT (is_windows_gnu e)) (isT (is_armv7 e)) ev = true := by
  have := runAll_all _ (mainStmts e) (stmts_events_ok e) evs (by rw [← main_eq_runAll]; exact h)
  exact List.all_eq_true.mp this

/-! ### when `main` panics -/

/-- every read-only helper of build.rs can be evaluated: `TARGET` is set and has the components `is_windows_msvc` looks at,
`CARGO_CFG_TARGET_OS` is set, `CARGO_CFG_TARGET_ENDIAN` is `little` or `big` (what cargo guarantees; see `cargoOk_of_vars`) -/
def cargoOk (e : Env) : Bool :=
  (is_x86_64 e).isSome && (is_x86_32 e).isSome && (is_arm e).isSome && (is_aarch64 e).isSome && (is_armv7 e).isSome &&
  (is_wasm32 e).isSome && (is_windows_msvc e).isSome && (is_windows_gnu e).isSome && (is_windows_target e).isSome &&
  (is_little_endian e).isSome && (is_big_endian e).isSome

def isOk {α : Type} : B α → Bool
  | .ok _ _ => true
  | .panic _ => false

theorem isOk_iff_okSig {α : Type} (x : B α) : isOk x = (okSig x).isSome := by cases x <;> rfl

theorem sigAll_isSome (l : List (B Unit)) : (sigAll l).isSome = l.all isOk := by
  induction l with
  | nil => rfl
  | cons x xs ih =>
    unfold sigAll
    rw [List.all_cons, ← ih, isOk_iff_okSig]
    cases okSig x <;> cases sigAll xs <;> rfl

/-- the three feature / target combinations `main` rejects with a message -/
def rejected (e : Env) : Bool :=
  (fPure e && fNeon e) || (fNoNeon e && fNeon e) || (fNeon e && isT (is_big_endian e))

theorem s1_ok (e : Env) (h : (is_windows_msvc e).isSome = true) : isOk (main_s1 e) = true := by
  revert h
  unfold main_s1
  generalize is_windows_msvc e = wm
  generalize e.var "CFLAGS" = cf
  rcases wm with _ | _ | _ <;> rcases cf with _ | c <;> intro h <;> first | rfl | cases h

theorem s2_ok (e : Env) : isOk (main_s2 e) = true := by unfold main_s2; decide
theorem s3_ok (e : Env) : isOk (main_s3 e) = true := by unfold main_s3; decide

theorem s4_ok (e : Env) : isOk (main_s4 e) = !(fPure e && fNeon e) := by
  unfold main_s4
  try simp only [is_pure_eq, should_prefer_intrinsics_eq, is_neon_eq, is_no_neon_eq, is_wasm32_simd_eq]
  generalize fPure e = pur
  generalize fNeon e = neon
  revert pur neon
  decide

theorem s5_ok (e : Env) : isOk (main_s5 e) = !(fNoNeon e && fNeon e) := by
  unfold main_s5
  try simp only [is_pure_eq, should_prefer_intrinsics_eq, is_neon_eq, is_no_neon_eq, is_wasm32_simd_eq]
  generalize fNoNeon e = nn
  generalize fNeon e = neon
  revert nn neon
  decide

theorem s6_ok (e : Env) (h : ((is_x86_64 e).isSome && (is_x86_32 e).isSome && (is_windows_target e).isSome &&
    (is_windows_msvc e).isSome && (is_windows_gnu e).isSome) = true) : isOk (main_s6 e) = true := by
  revert h
  unfold main_s6 build_sse2_sse41_avx2_rust_intrinsics build_sse2_sse41_avx2_assembly build_avx512_c_intrinsics build_avx512_assembly
  rw [new_build_eq]
  try simp only [is_pure_eq, should_prefer_intrinsics_eq, is_neon_eq, is_no_neon_eq, is_wasm32_simd_eq]
  generalize is_x86_64 e = x64
  generalize is_x86_32 e = x32
  generalize is_windows_target e = wt
  generalize is_windows_msvc e = wm
  generalize is_windows_gnu e = wg
  generalize e.c_compiler_support = sup
  generalize e.use_msvc_asm = masm
  generalize fPure e = pur
  generalize fPrefer e = pre
  revert x64 x32 wt wm wg sup masm pur pre
  decide

theorem s7_ok (e : Env) (h : (is_big_endian e).isSome = true) : isOk (main_s7 e) = !(fNeon e && isT (is_big_endian e)) := by
  revert h
  unfold main_s7
  try simp only [is_pure_eq, should_prefer_intrinsics_eq, is_neon_eq, is_no_neon_eq, is_wasm32_simd_eq]
  generalize is_big_endian e = be
  generalize fNeon e = neon
  revert be neon
  decide

theorem s8_ok (e : Env) (h : ((is_arm e).isSome && (is_aarch64 e).isSome && (is_armv7 e).isSome && (is_little_endian e).isSome &&
    (is_windows_msvc e).isSome) = true) : isOk (main_s8 e) = true := by
  revert h
  unfold main_s8 build_neon_c_intrinsics
  rw [new_build_eq]
  try simp only [is_pure_eq, should_prefer_intrinsics_eq, is_neon_eq, is_no_neon_eq, is_wasm32_simd_eq]
  generalize is_arm e = arm
  generalize is_aarch64 e = a64
  generalize is_armv7 e = a7
  generalize is_little_endian e = le
  generalize is_windows_msvc e = wm
  generalize fPure e = pur
  generalize fNeon e = neon
  generalize fNoNeon e = nn
  revert arm a64 a7 le wm pur neon nn
  decide

theorem s9_ok (e : Env) (h : (is_wasm32 e).isSome = true) : isOk (main_s9 e) = true := by
  revert h
  unfold main_s9 build_wasm32_simd
  try simp only [is_pure_eq, should_prefer_intrinsics_eq, is_neon_eq, is_no_neon_eq, is_wasm32_simd_eq]
  generalize is_wasm32 e = w
  generalize fWasmSimd e = ws
  revert w ws
  decide

theorem s10_ok (e : Env) : isOk (main_s10 e) = true := by unfold main_s10; decide
theorem s11_ok (e : Env) : isOk (main_s11 e) = true := by unfold main_s11; decide
theorem s12_ok (e : Env) : isOk (main_s12 e) = true := by unfold main_s12; decide

theorem s13_ok (e : Env) (h : (is_windows_target e).isSome = true) : isOk (main_s13 e) = true := by
  revert h
  unfold main_s13
  generalize is_windows_target e = wt
  generalize e.use_msvc_asm = masm
  revert wt masm
  decide

/-- in an environment as cargo provides it, `main` panics exactly on the three rejected combinations -/
theorem main_ok_iff' (e : Env) (h : cargoOk e = true) : isOk (main e) = !rejected e := by
  unfold cargoOk at h
  simp only [Bool.and_eq_true] at h
  obtain ⟨⟨⟨⟨⟨⟨⟨⟨⟨⟨h1, h2⟩, h3⟩, h4⟩, h5⟩, h6⟩, h7⟩, h8⟩, h9⟩, h10⟩, h11⟩ := h
  rw [isOk_iff_okSig, main_eq_runAll, okSig_runAll, sigAll_isSome]
  simp only [mainStmts, List.all_cons, List.all_nil, s1_ok e h7, s2_ok, s3_ok, s4_ok, s5_ok,
    s6_ok e (by simp [h1, h2, h9, h7, h8]), s7_ok e h11, s8_ok e (by simp [h3, h4, h5, h10, h7]), s9_ok e h6, s10_ok, s11_ok,
    s12_ok, s13_ok e h9, rejected, Bool.true_and, Bool.and_true]
  cases fPure e <;> cases fNeon e <;> cases fNoNeon e <;> cases isT (is_big_endian e) <;> rfl

/-- `TARGET` with at least four components, `CARGO_CFG_TARGET_OS` set, `CARGO_CFG_TARGET_ENDIAN` little or big: every helper
can be evaluated (triples with two or three components that do not continue `-pc-` / `-win7-`, e.g. `wasm32-wasip1`,
`aarch64-apple-darwin`, are fine too, see the examples) -/
theorem cargoOk_of_vars (e : Env) (t os en : String) (a b c d : String) (rest : List String)
    (ht : e.var "TARGET" = some t) (hs : Rt.split t '-' = a :: b :: c :: d :: rest)
    (hos : e.var "CARGO_CFG_TARGET_OS" = some os) (hen : e.var "CARGO_CFG_TARGET_ENDIAN" = some en)
    (hle : en = "little" ∨ en = "big") : cargoOk e = true := by
  have htc : target_components e = some (a :: b :: c :: d :: rest) := by
    simp [target_components, Rt.unwrap, ht, hs]
  have hend : endianness e = some en := by
    rcases hle with h | h <;> subst h <;> simp [endianness, Rt.unwrap, hen, Rt.assert]
  unfold cargoOk is_x86_64 is_x86_32 is_arm is_aarch64 is_armv7 is_wasm32 is_windows_msvc is_windows_gnu is_windows_target
    is_little_endian is_big_endian
  simp only [htc, hend, hos, Rt.index, Rt.unwrap, Rt.and, Rt.or]
  by_cases h1 : a = "armv7" <;> by_cases h2 : a = "aarch64" <;> by_cases h3 : (b = "pc" ∨ b = "win7") <;>
    by_cases h4 : c = "windows" <;> simp [h1, h2, h3, h4]

/-! ### what the target-triple helpers compute -/

/-- the helpers that look at `TARGET`, for a triple with at least four components `a-b-c-d..` -/
theorem target_helpers_spec (e : Env) (t a b c d : String) (rest : List String)
    (ht : e.var "TARGET" = some t) (hs : Rt.split t '-' = a :: b :: c :: d :: rest) :
    is_x86_64 e = some (a == "x86_64") ∧
    is_x86_32 e = some (a == "i386" || a == "i586" || a == "i686") ∧
    is_aarch64 e = some (a == "aarch64") ∧ is_armv7 e = some (a == "armv7") ∧
    is_arm e = some (a == "armv7" || a == "aarch64" || a == "arm") ∧
    is_wasm32 e = some (a == "wasm32") ∧
    is_windows_msvc e = some ((b == "pc" || b == "win7") && c == "windows" && d == "msvc") ∧
    is_windows_gnu e = some ((b == "pc" || b == "win7") && c == "windows" && d != "msvc") := by
  have htc : target_components e = some (a :: b :: c :: d :: rest) := by
    simp [target_components, Rt.unwrap, ht, hs]
  unfold is_x86_64 is_x86_32 is_arm is_aarch64 is_armv7 is_wasm32 is_windows_msvc is_windows_gnu
  simp only [htc, Rt.index, Rt.and, Rt.or]
  refine ⟨rfl, rfl, rfl, rfl, ?_, rfl, ?_, ?_⟩
  · show ((some (a == "armv7")).bind fun x => if x = true then some true else some (a == "aarch64")).bind
        (fun x => if x = true then some true else some (a == "arm")) = _
    cases (a == "armv7") <;> cases (a == "aarch64") <;> rfl
  · show ((some (b == "pc" || b == "win7")).bind fun x => if x = true then some (c == "windows") else some false).bind
        (fun x => if x = true then some (d == "msvc") else some false) = _
    cases (b == "pc" || b == "win7") <;> cases (c == "windows") <;> rfl
  · show ((some (b == "pc" || b == "win7")).bind fun x => if x = true then some (c == "windows") else some false).bind
        (fun x => if x = true then some (d != "msvc") else some false) = _
    cases (b == "pc" || b == "win7") <;> cases (c == "windows") <;> rfl

/-! ## 3. build flavours: the finitely many things `main` can emit -/

/-- where the x86 SIMD code comes from -/
inductive X86Kind where
  | none        -- not an x86 target: nothing
  | rust        -- Rust intrinsics for SSE2 / SSE4.1 / AVX2, no AVX-512 (pure, no C compiler, or intrinsics without AVX-512 support)
  | rustC512    -- Rust intrinsics + c/blake3_avx512.c (prefer_intrinsics, or 32-bit x86)
  | asm         -- assembly for SSE2 / SSE4.1 / AVX2, no AVX-512 (the C compiler lacks it)
  | asm512      -- assembly for all four (the default on x86_64)
deriving DecidableEq, Repr

structure Flavour where
  x86 : X86Kind
  os : Os
  neon : Bool
  wasm : Bool
deriving DecidableEq, Repr

def X86Kind.sig (os : Os) : X86Kind → Sig
  | .none => Sig.nil
  | .rust => (["blake3_sse2_rust", "blake3_sse41_rust", "blake3_avx2_rust"], [])
  | .rustC512 => (["blake3_sse2_rust", "blake3_sse41_rust", "blake3_avx2_rust", "blake3_avx512_ffi"], ["c/blake3_avx512.c"])
  | .asm => (["blake3_sse2_ffi", "blake3_sse41_ffi", "blake3_avx2_ffi"], asmFiles os)
  | .asm512 => (["blake3_sse2_ffi", "blake3_sse41_ffi", "blake3_avx2_ffi", "blake3_avx512_ffi"], asmFiles os ++ [asm512File os])

def Flavour.sig (f : Flavour) : Sig :=
  ((f.x86.sig f.os).app (if f.neon then (["blake3_neon"], ["c/blake3_neon.c"]) else Sig.nil)).app
    (if f.wasm then (["blake3_wasm32_simd"], []) else Sig.nil)

def x86KindOf (x86 x32 prefer pur : Bool) (sup : CCompilerSupport) : X86Kind :=
  if !x86 then .none
  else if useRust x32 prefer pur sup then (if no512 pur sup then .rust else .rustC512)
  else (if no512 pur sup then .asm else .asm512)

/-- the flavour an environment selects (meaningful when `main` does not panic) -/
def flavourOf (e : Env) : Flavour :=
  ⟨x86KindOf (isX86 e) (isT (is_x86_32 e)) (fPrefer e) (fPure e) e.c_compiler_support, osOf e, neonCond e,
    isT (is_wasm32 e) && fWasmSimd e⟩

theorem x86Sig_eq_kind (a b c d : Bool) (s : CCompilerSupport) (o : Os) :
    (if a = true then x86Sig b c d s o else Sig.nil) = (x86KindOf a b c d s).sig o := by
  cases a <;> cases b <;> cases c <;> cases d <;> cases s <;> cases o <;> rfl

theorem mainSig_eq_flavour (e : Env) : mainSig e = (flavourOf e).sig := by
  unfold mainSig flavourOf Flavour.sig x86Part neonPart wasmPart
  rw [x86Sig_eq_kind]

theorem main_sig_flavour (e : Env) (evs : List Event) (h : main e = .ok () evs) : sigOf evs = (flavourOf e).sig := by
  rw [main_sig e evs h, mainSig_eq_flavour]

def allKinds : List X86Kind := [.none, .rust, .rustC512, .asm, .asm512]
def allOs : List Os := [.unix, .windowsGnu, .windowsMsvc]

/-- all 60 flavours -/
def allFlavours : List Flavour :=
  allKinds.flatMap fun k => allOs.flatMap fun o => [false, true].flatMap fun n => [false, true].map fun w => ⟨k, o, n, w⟩

theorem mem_allFlavours (f : Flavour) : f ∈ allFlavours := by
  obtain ⟨k, o, n, w⟩ := f
  cases k <;> cases o <;> cases n <;> cases w <;> decide

end B3.Proofs.BuildCfg
