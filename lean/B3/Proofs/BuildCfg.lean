/-
BUILD-CFG (property C04): the build script's flavour selection (`B3/Gen/BuildRs.lean`, generated from build.rs) and the crate's
`#[cfg]` gates (`B3/Gen/CfgGates.lean`, generated from src/lib.rs, src/platform.rs, src/ffi_*.rs and the kernel module files)
are consistent: whatever the environment of the build, the flags build.rs emits select exactly one implementation per
instruction set, the files it compiles define exactly the symbols the enabled FFI modules import, every `match self` of
`Platform` has one arm for every variant that exists, every arm's callee exists, and every kernel that can be reached is in
the list of kernels proved (or observed) equal to the specification.

Method.  build.rs: every statement of `main` is summarised by its *signature* (the `cargo::rustc-cfg` names and the files it
compiles); the summary of a statement is proved for all environments by abstracting the finitely many observations the statement
makes (`generalize`) and evaluating all cases (`decide`).  cfg gates: a consistency condition is a `Cfg` formula built from the
generated tables; `valid` is a verified tautology checker for `Cfg` formulas (`valid_sound`), so "for every build" is again an
evaluation.  The readable statements are at the end under `### main theorems`.
-/
import B3.Proofs.BuildCfgRs
import B3.Proofs.BuildCfgChk
import B3.Gen.CfgGates
set_option linter.unusedSimpArgs false
namespace B3.Proofs.BuildCfg
open B3 B3.Dispatch B3.BuildCfg B3.Gen.BuildRs B3.Gen.CfgGates

/-! ## 3. configured builds -/

/-! ### the build a flavour configures -/

def x86F : Cfg := .or (.kv "target_arch" "x86") (.kv "target_arch" "x86_64")

/-- the cfg names build.rs owns are set exactly as emitted -/
def flagsAreF (fl : List String) : Cfg :=
  allF (main_all_cfgs.map fun n => if fl.contains n then .flag n else .not (.flag n))

/-- what is known about a build configured by a run of build.rs of flavour `f`: the `blake3_*` cfgs are as emitted; rustc's
`target_arch` is x86 / x86_64 exactly when build.rs took its x86 branch; `cfg(unix)` is not set when build.rs saw a Windows target -/
def hypF (f : Flavour) : Cfg :=
  allF [flagsAreF f.sig.1, if f.x86 = .none then .not x86F else x86F, if f.os = .unix then .tt else .not (.flag "unix")]

/-- `b` is the configuration rustc compiles the crate with after build.rs ran in `e` and printed `evs`.  The first clause is how
cargo works (each `cargo::rustc-cfg=NAME` sets `NAME`; the names are build.rs's own, `all_cfgs`); the other two relate what
build.rs reads (the `TARGET` triple, `CARGO_CFG_TARGET_OS`) to what rustc sets (`target_arch`, `unix`) - they are assumptions
about cargo and the target triple (see the `x86_64h` example). -/
structure Configured (e : Env) (evs : List Event) (b : Build) : Prop where
  flags : ∀ n ∈ main_all_cfgs, b.flag n = (cfgNames evs).contains n
  arch : (b.kv "target_arch" "x86" || b.kv "target_arch" "x86_64") = isX86 e
  unix : b.flag "unix" = true → osOf e = .unix

theorem flagsAreF_eval (b : Build) (fl : List String) (h : ∀ n ∈ main_all_cfgs, b.flag n = fl.contains n) :
    (flagsAreF fl).eval b = true := by
  simp only [flagsAreF, allF_eval, List.all_map, List.all_eq_true, Function.comp]
  intro n hn
  rw [← h n hn]
  cases hc : b.flag n <;> simp [Cfg.eval, hc]

theorem x86KindOf_none_iff (a b c d : Bool) (s : CCompilerSupport) : x86KindOf a b c d s = .none ↔ a = false := by
  cases a <;> cases b <;> cases c <;> cases d <;> cases s <;> decide

theorem x86Kind_none_iff (e : Env) : (flavourOf e).x86 = .none ↔ isX86 e = false := x86KindOf_none_iff _ _ _ _ _

theorem hypF_eval (e : Env) (evs : List Event) (b : Build) (h : main e = .ok () evs) (hb : Configured e evs b) :
    (hypF (flavourOf e)).eval b = true := by
  have hs := main_sig_flavour e evs h
  have h1 : cfgNames evs = (flavourOf e).sig.1 := congrArg Prod.fst hs
  simp only [hypF, allF_eval, List.all_cons, List.all_nil, Bool.and_true, Bool.and_eq_true]
  refine ⟨flagsAreF_eval b _ (fun n hn => by rw [← h1]; exact hb.flags n hn), ?_, ?_⟩
  · have := x86Kind_none_iff e
    by_cases hk : (flavourOf e).x86 = .none
    · simp only [hk, if_true, Cfg.eval, x86F]
      rw [hb.arch, this.mp hk]; rfl
    · simp only [hk, if_false, Cfg.eval, x86F]
      rw [hb.arch]
      cases hx : isX86 e
      · exact absurd (this.mpr hx) hk
      · rfl
  · by_cases ho : (flavourOf e).os = .unix
    · simp [ho, Cfg.eval]
    · simp only [ho, if_false, Cfg.eval]
      cases hu : b.flag "unix"
      · rfl
      · exact absurd (hb.unix hu) ho

/-- a property of builds that holds under every flavour's hypotheses holds for every configured build -/
theorem for_all_configs (goal : Flavour → Cfg) (hv : ∀ f ∈ allFlavours, valid (impF (hypF f) (goal f)) = true)
    (e : Env) (evs : List Event) (b : Build) (h : main e = .ok () evs) (hb : Configured e evs b) :
    (goal (flavourOf e)).eval b = true := by
  have := valid_sound _ (hv _ (mem_allFlavours (flavourOf e))) b
  rw [impF_eval, hypF_eval e evs b h hb] at this
  simpa using this

/-- some flavour's hypotheses hold -/
def anyHypF : Cfg := anyF (allFlavours.map hypF)

theorem anyHypF_eval (e : Env) (evs : List Event) (b : Build) (h : main e = .ok () evs) (hb : Configured e evs b) :
    anyHypF.eval b = true := by
  simp only [anyHypF, anyF_eval, List.any_map, List.any_eq_true, Function.comp]
  exact ⟨flavourOf e, mem_allFlavours _, hypF_eval e evs b h hb⟩

/-- a property of builds (not mentioning the flavour) that follows from the hypotheses of each flavour holds for every configured build -/
theorem for_all_configs' (goal : Cfg) (hv : valid (impF anyHypF goal) = true)
    (e : Env) (evs : List Event) (b : Build) (h : main e = .ok () evs) (hb : Configured e evs b) : goal.eval b = true := by
  have := valid_sound _ hv b
  rw [impF_eval, anyHypF_eval e evs b h hb] at this
  simpa using this

/-! ## 4. the gates of the crate as formulas -/

theorem anyF_true_iff (b : Build) (cs : List Cfg) : (anyF cs).eval b = true ↔ 1 ≤ countTrue b cs := by
  have h0 := anyF_false_iff b cs
  cases ha : (anyF cs).eval b
  · simp [h0.mp ha]
  · have : countTrue b cs ≠ 0 := fun h => by rw [h0.mpr h] at ha; cases ha
    simp; omega

/-- the declarations `mod m;` of src/lib.rs -/
def modDecls (m : String) : List ModDecl := libMods.filter (·.name == m)
def modGates (m : String) : List Cfg := (modDecls m).map (gateF ·.gate)

/-- the gates of the definitions of `pub fn f` in a kernel module file -/
def fnGates (file f : String) : List Cfg := (moduleFns.filter fun d => d.file == file && d.name == f).map (gateF ·.gate)

/-- `crate::m::f` → `(m, f)`; `portable::f` → `("portable", f)` (src/platform.rs has `use crate::portable`) -/
def calleeOf : List String → Option (String × String)
  | ["crate", m, f] => some (m, f)
  | ["portable", f] => some ("portable", f)
  | _ => none

/-- `crate::m::f` resolves: exactly one declaration of `mod m` is active and the file of an active one has an active `pub fn f` -/
def resolvesF (m f : String) : Cfg :=
  .and (exactlyOneF (modGates m)) (tableF (modDecls m) (fun d => gateF d.gate) (fun d => anyF (fnGates ("src/" ++ d.file) f)))

def Resolves (b : Build) (m f : String) : Prop :=
  countTrue b (modGates m) = 1 ∧ ∀ d ∈ modDecls m, b.on d.gate = true → 1 ≤ countTrue b (fnGates ("src/" ++ d.file) f)

theorem resolvesF_eval (b : Build) (m f : String) (h : (resolvesF m f).eval b = true) : Resolves b m f := by
  simp only [resolvesF, Cfg.eval, Bool.and_eq_true] at h
  refine ⟨(exactlyOneF_eval b _).mp h.1, fun d hd hg => ?_⟩
  exact (anyF_true_iff b _).mp (tableF_eval b _ _ _ h.2 d hd (by rw [gateF_eval]; exact hg))

def variantGates (v : String) : List Cfg := (platformVariants.filter (·.name == v)).map (gateF ·.gate)

/-- the gates of the arms of `m` that name variant `v` / of its `_` arms -/
def explicitArms (m : Method) (v : String) : List Cfg := (m.arms.filter (·.pats.contains v)).map (gateF ·.gate)
def wildArms (m : Method) : List Cfg := (m.arms.filter (·.pats.isEmpty)).map (gateF ·.gate)

def coverF (m : Method) (v : Variant) : Cfg :=
  .or (exactlyOneF (explicitArms m v.name)) (.and (.not (anyF (explicitArms m v.name))) (anyF (wildArms m)))

def calleeF (a : MArm) : Cfg :=
  match a.callee with
  | none => .tt
  | some path =>
    match calleeOf path with
    | some (md, f) => resolvesF md f
    | none => .ff

def armBodyF (a : MArm) : Cfg := .and (allF (a.pats.map fun p => anyF (variantGates p))) (calleeF a)

/-- every `match self`: each existing variant has one arm, each compiled arm names existing variants and calls an existing function -/
def armsF : Cfg :=
  tableF platformMethods (fun m => gateF m.gate) fun m =>
    .and (tableF platformVariants (fun v => gateF v.gate) (coverF m)) (tableF m.arms (fun a => gateF a.gate) armBodyF)

def ArmsOk (b : Build) : Prop :=
  ∀ m ∈ platformMethods, b.on m.gate = true →
    (∀ v ∈ platformVariants, b.on v.gate = true →
      countTrue b (explicitArms m v.name) = 1 ∨ (countTrue b (explicitArms m v.name) = 0 ∧ 1 ≤ countTrue b (wildArms m))) ∧
    (∀ a ∈ m.arms, b.on a.gate = true →
      (∀ p ∈ a.pats, 1 ≤ countTrue b (variantGates p)) ∧
      (∀ path, a.callee = some path → ∃ md f, calleeOf path = some (md, f) ∧ Resolves b md f))

theorem armsF_eval (b : Build) (h : armsF.eval b = true) : ArmsOk b := by
  intro m hm hg
  have h1 := tableF_eval b _ _ _ h m hm (by rw [gateF_eval]; exact hg)
  simp only [Cfg.eval, Bool.and_eq_true] at h1
  refine ⟨fun v hv hvg => ?_, fun a ha hag => ?_⟩
  · have h2 := tableF_eval b _ _ _ h1.1 v hv (by rw [gateF_eval]; exact hvg)
    simp only [coverF, Cfg.eval, Bool.or_eq_true, Bool.and_eq_true, Bool.not_eq_true'] at h2
    rcases h2 with h2 | ⟨h2, h3⟩
    · exact Or.inl ((exactlyOneF_eval b _).mp h2)
    · exact Or.inr ⟨(anyF_false_iff b _).mp h2, (anyF_true_iff b _).mp h3⟩
  · have h2 := tableF_eval b _ _ _ h1.2 a ha (by rw [gateF_eval]; exact hag)
    simp only [armBodyF, Cfg.eval, Bool.and_eq_true] at h2
    refine ⟨fun p hp => ?_, fun path hpath => ?_⟩
    · have := h2.1
      simp only [allF_eval, List.all_map, List.all_eq_true, Function.comp] at this
      exact (anyF_true_iff b _).mp (this p hp)
    · have h3 := h2.2
      unfold calleeF at h3
      rw [hpath] at h3
      cases hc : calleeOf path with
      | none => simp [hc, Cfg.eval] at h3
      | some mf =>
        obtain ⟨md, f⟩ := mf
        simp only [hc] at h3
        exact ⟨md, f, rfl, resolvesF_eval b md f h3⟩

set_option maxRecDepth 100000 in
theorem armsF_valid : valid (impF anyHypF armsF) = true := by decide +kernel

/-! ### references made outside the `match self` arms -/

/-- the gates under which a kernel module file is compiled -/
def fileGates (file : String) : List Cfg := (libMods.filter fun d => "src/" ++ d.file == file).map (gateF ·.gate)

/-- a symbol / reference of a kernel module file is in force: the file is compiled and the item's own gate holds -/
def inForceF (file : String) (gate : List Cfg) : Cfg := .and (anyF (fileGates file)) (gateF gate)

def refTargetF (r : Ref) : Cfg :=
  match r.target with
  | ["ffi", s] => anyF ((ffiImports.filter fun i => i.file == r.file && i.name == s).map (gateF ·.gate))
  | path =>
    match calleeOf path with
    | some (md, f) => resolvesF md f
    | none => .ff

/-- every `crate::m::f` / `ffi::sym` used by a compiled function of a kernel module file resolves -/
def moduleRefsF : Cfg := tableF moduleRefs (fun r => inForceF r.file r.gate) refTargetF

def platformRefTargetF (r : Ref) : Cfg :=
  match r.target with
  | ["Platform", v] => anyF (variantGates v)
  | [fn] => anyF ((platformFns.filter (·.name == fn)).map (gateF ·.gate))
  | _ => .ff

/-- `Platform::detect` and the constructors only name variants and detection functions that exist where they are named -/
def platformRefsF : Cfg := tableF platformRefs (fun r => gateF r.gate) platformRefTargetF

/-- each `cfg_if!` constant has exactly one definition -/
def constsF : Cfg :=
  allF (platformConsts.map fun c => exactlyOneF ((platformConsts.filter (·.1 == c.1)).map (gateF ·.2.1)))

set_option maxRecDepth 100000 in
theorem moduleRefsF_valid : valid (impF anyHypF moduleRefsF) = true := by decide +kernel

/-- these two need nothing from build.rs: they hold for every build whatsoever -/
theorem platformRefsF_valid : valid platformRefsF = true := by decide +kernel
theorem constsF_valid : valid constsF = true := by decide +kernel

/-! ### the files compiled against the symbols imported -/

def definedIn (file : String) : List String := (fileSymbols.filter (·.1 == file)).flatMap (·.2.1)
def undefinedIn (file : String) : List String := (fileSymbols.filter (·.1 == file)).flatMap (·.2.2)
/-- the files among `files` that define `sym` -/
def definers (files : List String) (sym : String) : List String := files.filter fun f => (definedIn f).contains sym

def symActiveF (i : Symbol) : Cfg := inForceF i.file i.gate

def filesF (f : Flavour) : Cfg :=
  allF [
    tableF ffiImports symActiveF (fun i => constF ((definers f.sig.2 i.name).length == 1)),
    allF (f.sig.2.map fun file => anyF ((ffiImports.filter fun i => (definedIn file).contains i.name).map symActiveF)),
    constF (decide (f.sig.2.flatMap definedIn).Nodup),
    allF (f.sig.2.flatMap fun file => (undefinedIn file).map fun u => anyF ((ffiExports.filter (·.name == u)).map symActiveF))]

set_option maxRecDepth 100000 in
theorem filesF_valid : ∀ f ∈ allFlavours, valid (impF (hypF f) (filesF f)) = true := by decide +kernel

def symActive (b : Build) (i : Symbol) : Bool := (symActiveF i).eval b

/-- the files handed to the C compiler against the symbols the compiled FFI modules import -/
structure FilesMatch (b : Build) (files : List String) : Prop where
  /-- every symbol imported by a compiled `ffi_*` module is defined by exactly one of the files -/
  imports_defined : ∀ i ∈ ffiImports, symActive b i = true → (definers files i.name).length = 1
  /-- every file defines a symbol that some compiled `ffi_*` module imports -/
  files_needed : ∀ file ∈ files, ∃ i ∈ ffiImports, symActive b i = true ∧ i.name ∈ definedIn file
  /-- no symbol is defined twice -/
  no_duplicates : (files.flatMap definedIn).Nodup
  /-- what a C file declares without defining is exported by a compiled Rust module -/
  undefined_exported : ∀ file ∈ files, ∀ u ∈ undefinedIn file, ∃ x ∈ ffiExports, x.name = u ∧ symActive b x = true

theorem filesF_eval (b : Build) (f : Flavour) (h : (filesF f).eval b = true) : FilesMatch b f.sig.2 := by
  simp only [filesF, allF_eval, List.all_cons, List.all_nil, Bool.and_true, Bool.and_eq_true] at h
  obtain ⟨h1, h2, h3, h4⟩ := h
  refine ⟨fun i hi ha => ?_, fun file hf => ?_, ?_, fun file hf u hu => ?_⟩
  · have := tableF_eval b _ _ _ h1 i hi ha
    rw [constF_eval] at this
    exact beq_iff_eq.mp this
  · simp only [allF_eval, List.all_map, List.all_eq_true, Function.comp] at h2
    have := h2 file hf
    simp only [anyF_eval, List.any_map, List.any_eq_true, Function.comp, List.mem_filter] at this
    obtain ⟨i, ⟨hi, hd⟩, ha⟩ := this
    exact ⟨i, hi, ha, by simpa using hd⟩
  · rw [constF_eval] at h3
    exact of_decide_eq_true h3
  · simp only [allF_eval, List.all_eq_true, List.mem_flatMap, List.mem_map] at h4
    have := h4 _ ⟨file, hf, u, hu, rfl⟩
    simp only [anyF_eval, List.any_map, List.any_eq_true, Function.comp, List.mem_filter] at this
    obtain ⟨x, ⟨hx, hn⟩, ha⟩ := this
    exact ⟨x, hx, by simpa using hn, ha⟩

/-! ### kernels -/

theorem eval_congr (b b' : Build) (c : Cfg) (h : ∀ a ∈ atomsRaw c, atomVal b a = atomVal b' a) : c.eval b = c.eval b' := by
  induction c with
  | flag n => exact h (.flag n) (by simp [atomsRaw])
  | kv k v => exact h (.kv k v) (by simp [atomsRaw])
  | tt => rfl
  | ff => rfl
  | and x y ihx ihy =>
    simp only [Cfg.eval]
    rw [ihx (fun a ha => h a (by simp [atomsRaw, ha])), ihy (fun a ha => h a (by simp [atomsRaw, ha]))]
  | or x y ihx ihy =>
    simp only [Cfg.eval]
    rw [ihx (fun a ha => h a (by simp [atomsRaw, ha])), ihy (fun a ha => h a (by simp [atomsRaw, ha]))]
  | not x ih =>
    simp only [Cfg.eval]
    rw [ih (fun a ha => h a (by simpa [atomsRaw] using ha))]

/-- the build in which exactly the cfgs emitted by a flavour are set (and nothing else) -/
def flavourBuild (f : Flavour) : Build := ⟨fun n => f.sig.1.contains n, fun _ _ => false⟩

/-- the gate only mentions cfg names that build.rs owns -/
def onlyBuildRsCfgs (g : List Cfg) : Bool :=
  (atomsRaw (gateF g)).all fun a => match a with
    | .flag n => main_all_cfgs.contains n
    | .kv _ _ => false

theorem gate_eq_flavourBuild (e : Env) (evs : List Event) (b : Build) (h : main e = .ok () evs) (hb : Configured e evs b)
    (g : List Cfg) (hg : onlyBuildRsCfgs g = true) : b.on g = (flavourBuild (flavourOf e)).on g := by
  rw [← gateF_eval, ← gateF_eval]
  apply eval_congr
  intro a ha
  have := List.all_eq_true.mp hg a ha
  cases a with
  | flag n =>
    have hn : n ∈ main_all_cfgs := by simpa using this
    have h1 : cfgNames evs = (flavourOf e).sig.1 := congrArg Prod.fst (main_sig_flavour e evs h)
    show b.flag n = (flavourOf e).sig.1.contains n
    rw [hb.flags n hn, h1]
  | kv k v => simp at this

/-- the declarations of `mod md` that are compiled under a flavour's flags -/
def activeDecls (f : Flavour) (md : String) : List ModDecl := (modDecls md).filter fun d => (flavourBuild f).on d.gate

/-- what a call of `crate::md::fn` can end up executing under flavour `f`: for a Rust module the function itself (and what it calls
in other kernel modules), for an FFI wrapper the symbol it passes to, in the compiled file(s) that define it -/
def kernelsOf (f : Flavour) : Nat → String → String → List (String × String)
  | 0, _, _ => []
  | fuel + 1, md, fn =>
    (activeDecls f md).flatMap fun d =>
      let file := "src/" ++ d.file
      let refs := moduleRefs.filter fun r => r.file == file && r.within == fn
      let syms := refs.filterMap fun r => match r.target with
        | ["ffi", s] => some s
        | _ => none
      let viaFfi := syms.flatMap fun s => (definers f.sig.2 s).map fun cf => (cf, s)
      let viaCrate := refs.flatMap fun r => match calleeOf r.target with
        | some (m2, f2) => kernelsOf f fuel m2 f2
        | none => []
      (if syms.isEmpty then [(file, fn)] else []) ++ viaFfi ++ viaCrate

/-- the kernels the arms of all `match self` can reach under flavour `f` (arms are not filtered by their own gates: an upper bound) -/
def flavourTargets (f : Flavour) : List (String × String) :=
  platformMethods.flatMap fun m => m.arms.flatMap fun a =>
    match a.callee.bind calleeOf with
    | some (md, fn) => kernelsOf f 4 md fn
    | none => []

/-- kernels with a theorem "equal to the specification" (`Spec.compress` / the `hash_many` contract), and the theorem -/
def verifiedKernels : List ((String × String) × String) := [
  (("src/portable.rs", "compress_in_place"), "B3.Props.C05.rs_portable_eq_spec"),
  (("src/portable.rs", "compress_xof"), "B3.Props.C05.rs_portable_eq_spec"),
  (("src/portable.rs", "hash_many"), "B3.Proofs.PortableMany.rs_portable_hash_many_spec"),
  (("src/rust_sse2.rs", "compress_in_place"), "B3.Simd.sse2_compress_in_place_eq"),
  (("src/rust_sse2.rs", "compress_xof"), "B3.Simd.sse2_compress_xof_eq"),
  (("src/rust_sse2.rs", "hash_many"), "B3.Simd.sse2_hash_many_eq"),
  (("src/rust_sse41.rs", "compress_in_place"), "B3.Simd.sse41_compress_in_place_eq"),
  (("src/rust_sse41.rs", "compress_xof"), "B3.Simd.sse41_compress_xof_eq"),
  (("src/rust_sse41.rs", "hash_many"), "B3.Simd.sse41_hash_many_eq"),
  (("src/rust_avx2.rs", "hash_many"), "B3.Simd.avx2_hash_many_eq"),
  (("c/blake3_avx512.c", "blake3_compress_in_place_avx512"), "B3.Simd.C512.c512_compress_in_place"),
  (("c/blake3_avx512.c", "blake3_compress_xof_avx512"), "B3.Simd.C512.c512_compress_xof"),
  (("c/blake3_avx512.c", "blake3_hash_many_avx512"), "B3.Simd.C512.c512_hash_many"),
  (("c/blake3_avx512.c", "blake3_xof_many_avx512"), "B3.Simd.C512.c512_xof_many"),
  (("c/blake3_sse41_x86-64_unix.S", "blake3_compress_in_place_sse41"), "B3.Props.C05A.asm_sse41_compress_in_place"),
  (("c/blake3_sse41_x86-64_unix.S", "blake3_compress_xof_sse41"), "B3.Props.C05A.asm_sse41_compress_xof"),
  (("c/blake3_sse2_x86-64_unix.S", "blake3_compress_in_place_sse2"), "B3.Props.C05A.asm_sse2_compress_in_place"),
  (("c/blake3_sse2_x86-64_unix.S", "blake3_compress_xof_sse2"), "B3.Props.C05A.asm_sse2_compress_xof"),
  (("c/blake3_avx512_x86-64_unix.S", "blake3_compress_in_place_avx512"), "B3.Props.C05B.asm_avx512_compress_in_place"),
  (("c/blake3_avx512_x86-64_unix.S", "blake3_compress_xof_avx512"), "B3.Props.C05B.asm_avx512_compress_xof"),
  (("c/blake3_sse2_x86-64_windows_gnu.S", "blake3_compress_in_place_sse2"), "B3.Props.C05W.asm_wgnu_sse2_compress_in_place"),
  (("c/blake3_sse2_x86-64_windows_gnu.S", "blake3_compress_xof_sse2"), "B3.Props.C05W.asm_wgnu_sse2_compress_xof"),
  (("c/blake3_sse41_x86-64_windows_gnu.S", "blake3_compress_in_place_sse41"), "B3.Props.C05W.asm_wgnu_sse41_compress_in_place"),
  (("c/blake3_sse41_x86-64_windows_gnu.S", "blake3_compress_xof_sse41"), "B3.Props.C05W.asm_wgnu_sse41_compress_xof"),
  (("c/blake3_avx512_x86-64_windows_gnu.S", "blake3_compress_in_place_avx512"), "B3.Props.C05BW.asm_avx512_wgnu_compress_in_place"),
  (("c/blake3_avx512_x86-64_windows_gnu.S", "blake3_compress_xof_avx512"), "B3.Props.C05BW.asm_avx512_wgnu_compress_xof"),
  (("c/blake3_sse41_x86-64_windows_msvc.asm", "blake3_compress_in_place_sse41"), "B3.Props.C05W.asm_msvc_sse41_compress_in_place"),
  (("c/blake3_sse41_x86-64_windows_msvc.asm", "blake3_compress_xof_sse41"), "B3.Props.C05W.asm_msvc_sse41_compress_xof"),
  (("c/blake3_sse2_x86-64_windows_msvc.asm", "blake3_compress_in_place_sse2"), "B3.Props.C05WM.asm_msvc_sse2_compress_in_place"),
  (("c/blake3_sse2_x86-64_windows_msvc.asm", "blake3_compress_xof_sse2"), "B3.Props.C05WM.asm_msvc_sse2_compress_xof"),
  (("c/blake3_avx512_x86-64_windows_msvc.asm", "blake3_compress_in_place_avx512"), "B3.Props.C05WM.asm_msvc_avx512_compress_in_place"),
  (("c/blake3_avx512_x86-64_windows_msvc.asm", "blake3_compress_xof_avx512"), "B3.Props.C05WM.asm_msvc_avx512_compress_xof"),
  (("c/blake3_sse41_x86-64_unix.S", "blake3_hash_many_sse41"), "B3.Props.C05M.asm_sse41_hash_many"),
  (("c/blake3_neon.c", "blake3_hash_many_neon"), "B3.Simd.neon_hash_many_eq"),
  (("src/wasm32_simd.rs", "compress_in_place"), "B3.Simd.wasm_compress_in_place_eq"),
  (("src/wasm32_simd.rs", "compress_xof"), "B3.Simd.wasm_compress_xof_eq"),
  (("src/wasm32_simd.rs", "hash_many"), "B3.Simd.wasm_hash_many_eq"),
  (("c/blake3_sse41_x86-64_windows_gnu.S", "blake3_hash_many_sse41"), "B3.Props.C05MW.asm_wgnu_sse41_hash_many")]

/-- assembly routines without an instruction-level theorem: calling convention proved (G26, `Props/C07A`), results tied to the
other implementations by the correspondence runs of C05 / C07 on this machine (the Windows-GNU files through `ms_abi`) -/
def observedKernels : List (String × String) := [
  ("c/blake3_sse2_x86-64_unix.S", "blake3_hash_many_sse2"),
  ("c/blake3_avx2_x86-64_unix.S", "blake3_hash_many_avx2"),
  ("c/blake3_avx512_x86-64_unix.S", "blake3_hash_many_avx512"),
  ("c/blake3_avx512_x86-64_unix.S", "blake3_xof_many_avx512"),
  ("c/blake3_sse2_x86-64_windows_gnu.S", "blake3_hash_many_sse2"),
  ("c/blake3_avx2_x86-64_windows_gnu.S", "blake3_hash_many_avx2"),
  ("c/blake3_avx512_x86-64_windows_gnu.S", "blake3_hash_many_avx512")]

/-- neither proved nor run here: the `hash_many` routines of the MASM files (calling convention proved, G26; they cannot be assembled on
this machine).  (The NEON C file and the Wasm SIMD module are in `verifiedKernels`: translated and proved over lane models that could
not be run against hardware here - no ARM target; the Wasm lane model is checked instruction by instruction in node.) -/
def unexercisedKernels : List (String × String) := [
  ("c/blake3_sse2_x86-64_windows_msvc.asm", "blake3_hash_many_sse2"),
  ("c/blake3_sse41_x86-64_windows_msvc.asm", "blake3_hash_many_sse41"),
  ("c/blake3_avx2_x86-64_windows_msvc.asm", "blake3_hash_many_avx2"),
  ("c/blake3_avx512_x86-64_windows_msvc.asm", "blake3_hash_many_avx512")]

/-- the flavours C04 quantifies over: no MASM, no NEON, no Wasm -/
def Flavour.inScope (f : Flavour) : Bool := f.os != .windowsMsvc && !f.neon && !f.wasm

def allowedKernels (f : Flavour) : List (String × String) :=
  verifiedKernels.map (·.1) ++ observedKernels ++ (if f.inScope then [] else unexercisedKernels)

set_option maxRecDepth 100000 in
theorem flavourTargets_allowed : ∀ f ∈ allFlavours, ∀ k ∈ flavourTargets f, k ∈ allowedKernels f := by decide +kernel

set_option maxRecDepth 100000 in
/-- every entry of the three lists is reachable under some flavour: the lists contain nothing superfluous -/
theorem kernel_lists_tight :
    ∀ k ∈ verifiedKernels.map (·.1) ++ observedKernels ++ unexercisedKernels, ∃ f ∈ allFlavours, k ∈ flavourTargets f := by
  decide +kernel

/-! ### the target triple names one architecture -/

/-- an x86 triple is not an ARM or Wasm triple (all of these helpers compare the first component of `TARGET` with different literals) -/
theorem arch_exclusive (e : Env) (h : isX86 e = true) :
    isT (is_arm e) = false ∧ isT (is_aarch64 e) = false ∧ isT (is_wasm32 e) = false := by
  revert h
  unfold isX86 is_x86_64 is_x86_32 is_arm is_armv7 is_aarch64 is_wasm32
  cases target_components e with
  | none => intro h; cases h
  | some cs =>
    cases cs with
    | nil => intro h; cases h
    | cons a rest =>
      show (isT (some (a == "x86_64")) || isT (some (a == "i386" || a == "i586" || a == "i686"))) = true →
        isT (Rt.or (Rt.or (some (a == "armv7")) (some (a == "aarch64"))) (some (a == "arm"))) = false ∧
        isT (some (a == "aarch64")) = false ∧ isT (some (a == "wasm32")) = false
      by_cases h1 : a = "x86_64"
      · subst h1; decide
      by_cases h2 : a = "i386"
      · subst h2; decide
      by_cases h3 : a = "i586"
      · subst h3; decide
      by_cases h4 : a = "i686"
      · subst h4; decide
      intro h
      simp [isT, h1, h2, h3, h4] at h

theorem neon_wasm_off_on_x86 (e : Env) (h : isX86 e = true) : (flavourOf e).neon = false ∧ (flavourOf e).wasm = false := by
  obtain ⟨h1, h2, h3⟩ := arch_exclusive e h
  show neonCond e = false ∧ (isT (is_wasm32 e) && fWasmSimd e) = false
  simp [neonCond, h1, h2, h3]

theorem main_ok_stmts (e : Env) (evs : List Event) (h : main e = .ok () evs) : ∀ x ∈ mainStmts e, isOk x = true := by
  have h0 : (okSig (main e)).isSome = true := by rw [h]; rfl
  rw [main_eq_runAll, okSig_runAll, sigAll_isSome] at h0
  exact List.all_eq_true.mp h0

theorem main_ok_features (e : Env) (evs : List Event) (h : main e = .ok () evs) :
    (fPure e && fNeon e) = false ∧ (fNoNeon e && fNeon e) = false := by
  have hs := main_ok_stmts e evs h
  have h4 := hs (main_s4 e) (by simp [mainStmts])
  have h5 := hs (main_s5 e) (by simp [mainStmts])
  rw [s4_ok] at h4
  rw [s5_ok] at h5
  revert h4 h5
  cases fPure e <;> cases fNeon e <;> cases fNoNeon e <;> simp

instance decForallOs (p : Os → Prop) [∀ o, Decidable (p o)] : Decidable (∀ o, p o) :=
  if h0 : p .unix then
    if h1 : p .windowsGnu then
      if h2 : p .windowsMsvc then isTrue (fun o => match o with | .unix => h0 | .windowsGnu => h1 | .windowsMsvc => h2)
      else isFalse (fun h => h2 (h _))
    else isFalse (fun h => h1 (h _))
  else isFalse (fun h => h0 (h _))

theorem x86KindOf_512_iff (a b c d : Bool) (s : CCompilerSupport) :
    (x86KindOf a b c d s = .rustC512 ∨ x86KindOf a b c d s = .asm512) ↔ (a = true ∧ d = false ∧ s = .YesAVX512) := by
  cases a <;> cases b <;> cases c <;> cases d <;> cases s <;> decide

theorem x86KindOf_pure (a b c : Bool) (s : CCompilerSupport) (d : Bool) (hd : d = true) :
    x86KindOf a b c d s = .none ∨ x86KindOf a b c d s = .rust := by
  subst hd
  cases a <;> cases b <;> cases c <;> cases s <;> decide

set_option maxRecDepth 100000 in
/-- the flags and files of each of the 60 flavours -/
theorem flavour_flag_facts : ∀ f ∈ allFlavours,
    (∀ L ∈ ["sse2", "sse41", "avx2"],
      f.sig.1.count ("blake3_" ++ L ++ "_ffi") + f.sig.1.count ("blake3_" ++ L ++ "_rust") = if f.x86 = .none then 0 else 1) ∧
    ("blake3_avx512_ffi" ∈ f.sig.1 ↔ (f.x86 = .rustC512 ∨ f.x86 = .asm512)) ∧
    f.sig.1.count "blake3_avx512_ffi" ≤ 1 ∧
    ((f.x86 = .none ∨ f.x86 = .rust) → f.neon = false → f.sig.2 = [] ∧
      ∀ n ∈ ["blake3_sse2_ffi", "blake3_sse41_ffi", "blake3_avx2_ffi", "blake3_avx512_ffi", "blake3_neon"], n ∉ f.sig.1) := by
  decide +kernel

/-! ### main theorems -/

/-- **Closed form of build.rs.**  For every environment in which `main` does not panic, the `cargo::rustc-cfg` flags it prints and the
files it compiles are, in order, those of `flavourOf e`: the x86 part (`x86Sig`: Rust intrinsics iff 32-bit x86 / `prefer_intrinsics` /
`pure` / no C compiler; AVX-512 iff not `pure` and the compiler supports it, from C iff 32-bit / `prefer_intrinsics`; the assembly flavour
by `CARGO_CFG_TARGET_OS` and `use_msvc_asm()`), then NEON (`neonCond`), then Wasm SIMD. -/
theorem main_closed_form (e : Env) (evs : List Event) (h : main e = .ok () evs) :
    cfgNames evs = (flavourOf e).sig.1 ∧ compiledFiles evs = (flavourOf e).sig.2 ∧ (flavourOf e).sig = mainSig e :=
  ⟨congrArg Prod.fst (main_sig_flavour e evs h), congrArg Prod.snd (main_sig_flavour e evs h), (mainSig_eq_flavour e).symm⟩

/-- **Every event of a run.**  Whenever `main` does not panic, every `cargo::rustc-cfg` name it prints is one of the names it declared
(`all_cfgs`), and every library it compiles has the flags `eventOk` lists (`-std=c11` unless Windows-MSVC, `/arch:AVX512` or
`-mavx512f -mavx512vl` for the AVX-512 code, ...). -/
theorem main_events_wellformed (e : Env) (evs : List Event) (h : main e = .ok () evs) :
    ∀ ev ∈ evs, eventOk (isT (is_windows_msvc e)) (isT (is_windows_gnu e)) (isT (is_armv7 e)) ev = true :=
  main_events_ok e evs h

/-- **When build.rs panics.**  In an environment as cargo provides it (`cargoOk`: `TARGET` well formed, `CARGO_CFG_TARGET_OS` set,
`CARGO_CFG_TARGET_ENDIAN` little or big; `cargoOk_of_vars`) `main` runs to the end unless `pure`+`neon`, `no_neon`+`neon`, or
`neon` on a big-endian target was asked for. -/
theorem main_ok_iff (e : Env) (hc : cargoOk e = true) : (∃ evs, main e = .ok () evs) ↔ rejected e = false := by
  have := main_ok_iff' e hc
  constructor
  · rintro ⟨evs, h⟩
    rw [h] at this
    simpa [isOk] using this.symm
  · intro hr
    rw [hr] at this
    cases hm : main e with
    | ok u l => cases u; exact ⟨l, rfl⟩
    | panic m => rw [hm] at this; cases this

/-- **One flavour per instruction set.**  Whenever `main` does not panic: for each of SSE2, SSE4.1, AVX2 the flags `blake3_L_ffi` and
`blake3_L_rust` are emitted exactly once between them on an x86 / x86_64 target and not at all elsewhere; `blake3_avx512_ffi` is emitted
(once) iff the target is x86 / x86_64, `pure` is off and the C compiler supports AVX-512; with `pure` no `*_ffi` / `blake3_neon` flag is
emitted and no C or assembly file is compiled, on any target. -/
theorem build_flavour_exclusive (e : Env) (evs : List Event) (h : main e = .ok () evs) :
    (∀ L ∈ ["sse2", "sse41", "avx2"],
      (cfgNames evs).count ("blake3_" ++ L ++ "_ffi") + (cfgNames evs).count ("blake3_" ++ L ++ "_rust") = if isX86 e then 1 else 0) ∧
    ("blake3_avx512_ffi" ∈ cfgNames evs ↔ (isX86 e = true ∧ fPure e = false ∧ e.c_compiler_support = .YesAVX512)) ∧
    (cfgNames evs).count "blake3_avx512_ffi" ≤ 1 ∧
    (fPure e = true → compiledFiles evs = [] ∧
      ∀ n ∈ ["blake3_sse2_ffi", "blake3_sse41_ffi", "blake3_avx2_ffi", "blake3_avx512_ffi", "blake3_neon"], n ∉ cfgNames evs) := by
  obtain ⟨h1, h2, _⟩ := main_closed_form e evs h
  have hf := (main_ok_features e evs h).1
  have hk := flavour_flag_facts (flavourOf e) (mem_allFlavours _)
  rw [h1, h2]
  obtain ⟨k1, k2, k3, k4⟩ := hk
  have hnone := x86Kind_none_iff e
  refine ⟨fun L hL => ?_, ?_, k3, fun hp => ?_⟩
  · rw [k1 L hL]
    cases hx : isX86 e
    · simp [hnone.mpr hx]
    · have : (flavourOf e).x86 ≠ .none := fun h => by rw [hnone.mp h] at hx; cases hx
      simp [this]
  · rw [k2]
    exact x86KindOf_512_iff _ _ _ _ _
  · apply k4
    · exact x86KindOf_pure _ _ _ _ _ hp
    · show neonCond e = false
      revert hf
      unfold neonCond
      rw [hp]
      cases fNeon e <;> simp

/-- **The files compiled are the ones the enabled FFI modules need.**  Whenever `main` does not panic, in every build configured by its
output: each symbol imported by a compiled `src/ffi_*.rs` (its `extern "C"` declaration is in force) is defined by exactly one of the
files handed to the C compiler; each such file defines a symbol that is imported; no symbol is defined twice; what `c/blake3_neon.c`
declares without defining (`blake3_compress_in_place_portable`) is exported by the compiled `src/ffi_neon.rs`.  Symbol lists: the
`extern "C"` blocks of src/ffi_*.rs against the `.global`/`public` labels and the C function definitions (`fileSymbols`). -/
theorem build_files_match_flags (e : Env) (evs : List Event) (b : Build) (h : main e = .ok () evs) (hb : Configured e evs b) :
    FilesMatch b (compiledFiles evs) := by
  rw [(main_closed_form e evs h).2.1]
  exact filesF_eval b _ (for_all_configs filesF filesF_valid e evs b h hb)

/-- **Every configuration compiles, with one arm per variant.**  Whenever `main` does not panic, in every build `b` configured by its
output (with `target_arch`, `unix`, features, `miri`, ... free subject to `Configured`):
* `ArmsOk b`: in every `match self` of `impl Platform`, every variant that exists in `b` is matched by exactly one arm that exists in `b`
  (or by none and then by the `_` arm); every arm that exists names only variants that exist; the function an arm calls resolves:
  exactly one `mod` declaration of its module is active in src/lib.rs and the file it points to has that `pub fn` under an active gate;
* every `crate::m::f` / `ffi::symbol` used by a compiled function of a kernel module file resolves (`rust_avx2.rs` calls
  `crate::sse41::hash_many`; each FFI wrapper's symbol is declared in its `extern "C"` block under an active gate). -/
theorem every_config_compiles_one_arm (e : Env) (evs : List Event) (b : Build) (h : main e = .ok () evs) (hb : Configured e evs b) :
    ArmsOk b ∧
    (∀ r ∈ moduleRefs, (inForceF r.file r.gate).eval b = true → (refTargetF r).eval b = true) :=
  ⟨armsF_eval b (for_all_configs' armsF armsF_valid e evs b h hb),
   tableF_eval b _ _ _ (for_all_configs' moduleRefsF moduleRefsF_valid e evs b h hb)⟩

/-- the same for names used outside the arms, in **every** build whatsoever (nothing about build.rs is needed): each `return Platform::V`
/ `if x_detected()` of `Platform::detect` and of the constructors is under gates that imply the gates of `V` / of `x_detected`; each
`cfg_if!` constant (`MAX_SIMD_DEGREE`, `MAX_SIMD_DEGREE_OR_2`) has exactly one active definition -/
theorem platform_names_resolve (b : Build) :
    (∀ r ∈ platformRefs, b.on r.gate = true → (platformRefTargetF r).eval b = true) ∧
    (∀ c ∈ platformConsts, countTrue b ((platformConsts.filter (·.1 == c.1)).map (gateF ·.2.1)) = 1) := by
  refine ⟨fun r hr hg => tableF_eval b _ _ _ (valid_sound _ platformRefsF_valid b) r hr (by rw [gateF_eval]; exact hg), fun c hc => ?_⟩
  have := valid_sound _ constsF_valid b
  simp only [constsF, allF_eval, List.all_map, List.all_eq_true, Function.comp] at this
  exact (exactlyOneF_eval b _).mp (this c hc)

/-- **Every kernel that can be dispatched to is accounted for.**  Whenever `main` does not panic, in every build configured by its output
the declarations of the kernel modules that are active are those of the flavour (`activeDecls`), the files compiled are the flavour's, and
every kernel reachable from the arms of any `match self` under that flavour (`flavourTargets`: through the active module declarations, the
FFI wrappers' symbols in the compiled files, and `rust_avx2.rs`'s call into `sse41`) is in `verifiedKernels` (a theorem "equals the
specification" is named next to each entry) or in `observedKernels` (assembly tied by correspondence runs) - unless the flavour uses the
MASM files, NEON or Wasm SIMD, which adds `unexercisedKernels`.  On an x86 target NEON and Wasm SIMD are never selected. -/
theorem every_dispatched_kernel_is_verified (e : Env) (evs : List Event) (b : Build) (h : main e = .ok () evs) (hb : Configured e evs b) :
    (∀ d ∈ libMods, onlyBuildRsCfgs d.gate = true → b.on d.gate = (flavourBuild (flavourOf e)).on d.gate) ∧
    compiledFiles evs = (flavourOf e).sig.2 ∧
    (∀ k ∈ flavourTargets (flavourOf e), k ∈ allowedKernels (flavourOf e)) ∧
    (isX86 e = true → (flavourOf e).os ≠ .windowsMsvc →
      ∀ k ∈ flavourTargets (flavourOf e), k ∈ verifiedKernels.map (·.1) ++ observedKernels) := by
  refine ⟨fun d _ hg => gate_eq_flavourBuild e evs b h hb d.gate hg, (main_closed_form e evs h).2.1,
    flavourTargets_allowed _ (mem_allFlavours _), fun hx ho k hk => ?_⟩
  have := flavourTargets_allowed _ (mem_allFlavours _) k hk
  obtain ⟨hn, hw⟩ := neon_wasm_off_on_x86 e hx
  have hs : (flavourOf e).inScope = true := by
    unfold Flavour.inScope
    rw [hn, hw]
    cases ho' : (flavourOf e).os <;> first | rfl | exact absurd ho' ho
  unfold allowedKernels at this
  rw [hs] at this
  simpa using this

/-- the first clause above covers every kernel module: a `mod` declaration of src/lib.rs whose gate is not made of build.rs's own cfgs is one
of the seven modules that are not kernels -/
theorem all_kernel_modules_listed : ∀ d ∈ libMods, onlyBuildRsCfgs d.gate = true ∨ d.name ∈ ["test", "guts", "hazmat", "platform", "traits", "io", "join"] := by
  decide

/-! ### Cargo.toml features, and the names declared to cargo -/

/-- the environment variable cargo sets for an enabled feature -/
def featureVar (f : String) : String :=
  "CARGO_FEATURE_" ++ String.ofList (f.toList.map fun c => if c = '-' then '_' else c.toUpper)

def isFeature (f : String) : Bool := cargoFeatures.any (·.1 == f)

def enables (l : List String) : List String :=
  l ++ l.flatMap fun f => ((cargoFeatures.find? (·.1 == f)).map (·.2)).getD [] |>.filter isFeature

/-- the features a build with default features has -/
def defaultFeatures : List String := enables (enables (enables (enables ["default"])))

/-- every gate of the generated tables -/
def allGates : List (List Cfg) :=
  libMods.map (·.gate) ++ platformVariants.map (·.gate) ++ (platformMethods.flatMap fun m => m.gate :: m.arms.map (·.gate)) ++
  detectSteps.map (·.gate) ++ (detectedFns.flatMap fun d => [d.gate, d.falseIf]) ++ platformFns.map (·.gate) ++
  platformRefs.map (·.gate) ++ platformConsts.map (·.2.1) ++ moduleFns.map (·.gate) ++ moduleRefs.map (·.gate) ++
  ffiImports.map (·.gate) ++ ffiExports.map (·.gate)

def allAtoms : List Atom := dedup (allGates.flatMap fun g => atomsRaw (gateF g))

def atomDeclared : Atom → Bool
  | .kv "feature" f => isFeature f
  | .kv k _ => k == "target_arch"
  | .flag n => main_all_cfgs.contains n || ["unix", "miri", "test", "blake3_team_blake3_verif"].contains n

def atomIsArchOrFlag : Atom → Bool
  | .kv k _ => k == "target_arch"
  | .flag _ => true

set_option maxRecDepth 100000 in
/-- **Features and names.**  (1) every `CARGO_FEATURE_*` variable build.rs reads is a feature of Cargo.toml; (2) the default feature set
(`default = ["std"]`) contains none of them, so "with or without default features" does not change what build.rs does; (3) every
`feature = ".."` in a gate of the translated tables is a feature of Cargo.toml, every other key is `target_arch`, every bare name is one of
build.rs's own cfgs (`all_cfgs`, declared with `cargo::rustc-check-cfg`) or `unix` / `miri` / `test` / the verification hook; (4) every
flag a flavour emits was declared; (5) the gates on which the dispatch theorems depend (`armsF`, `moduleRefsF`) mention no feature at all:
the Cargo features other than those build.rs reads cannot change which kernel is compiled or dispatched to. -/
theorem features_and_names_declared :
    (∀ v ∈ consultedVars, v ∈ cargoFeatures.map (featureVar ·.1) ∨
      v ∈ ["TARGET", "CARGO_CFG_TARGET_OS", "CARGO_CFG_TARGET_ENDIAN", "CFLAGS"]) ∧
    (∀ f ∈ defaultFeatures, featureVar f ∉ consultedVars) ∧
    (∀ a ∈ allAtoms, atomDeclared a = true) ∧
    (∀ f ∈ allFlavours, ∀ n ∈ f.sig.1, n ∈ main_all_cfgs) ∧
    (∀ a ∈ atoms (impF anyHypF (.and armsF moduleRefsF)), atomIsArchOrFlag a = true) := by
  decide +kernel

/-! ### non-vacuity: concrete environments -/

/-- an environment from a list of variables -/
def envOf (vars : List (String × String)) (sup : CCompilerSupport) (msvcAsm : Bool) : Env :=
  ⟨fun n => (vars.find? (·.1 == n)).map (·.2), sup, msvcAsm⟩

/-- a build: the cfg names that are set, `target_arch` -/
def buildOf (flags : List String) (arch : String) : Build := ⟨fun n => flags.contains n, fun k v => k == "target_arch" && v == arch⟩

/-- the default build on Linux x86_64 -/
def linuxDefault : Env :=
  envOf [("TARGET", "x86_64-unknown-linux-gnu"), ("CARGO_CFG_TARGET_OS", "linux"), ("CARGO_CFG_TARGET_ENDIAN", "little")] .YesAVX512 false

example : cargoOk linuxDefault = true ∧ flavourOf linuxDefault = ⟨.asm512, .unix, false, false⟩ := by decide
example : (main linuxDefault).events?.map sigOf =
    some (["blake3_sse2_ffi", "blake3_sse41_ffi", "blake3_avx2_ffi", "blake3_avx512_ffi"],
      ["c/blake3_sse2_x86-64_unix.S", "c/blake3_sse41_x86-64_unix.S", "c/blake3_avx2_x86-64_unix.S", "c/blake3_avx512_x86-64_unix.S"]) := by
  decide

/-- the configuration rustc then uses -/
def linuxDefaultBuild : Build :=
  buildOf ["unix", "blake3_sse2_ffi", "blake3_sse41_ffi", "blake3_avx2_ffi", "blake3_avx512_ffi"] "x86_64"

theorem linuxDefault_configured : ∃ evs, main linuxDefault = .ok () evs ∧ Configured linuxDefault evs linuxDefaultBuild := by
  cases hm : main linuxDefault with
  | panic m =>
    have : isOk (main linuxDefault) = true := by decide
    rw [hm] at this
    cases this
  | ok u evs =>
    cases u
    refine ⟨evs, rfl, ?_, ?_, ?_⟩
    · rw [(main_closed_form _ _ hm).1]; decide
    · decide
    · intro _; decide

/-- the hypotheses of the main theorems are satisfiable: the default Linux build is an instance -/
example : ArmsOk linuxDefaultBuild := by
  obtain ⟨evs, h, hb⟩ := linuxDefault_configured
  exact (every_config_compiles_one_arm _ evs _ h hb).1

/-- `--features pure` -/
def linuxPure : Env :=
  envOf [("TARGET", "x86_64-unknown-linux-gnu"), ("CARGO_CFG_TARGET_OS", "linux"), ("CARGO_CFG_TARGET_ENDIAN", "little"),
    ("CARGO_FEATURE_PURE", "1")] .YesAVX512 false

example : (main linuxPure).events?.map sigOf = some (["blake3_sse2_rust", "blake3_sse41_rust", "blake3_avx2_rust"], []) ∧
    flavourOf linuxPure = ⟨.rust, .unix, false, false⟩ := by decide

/-- `--features prefer_intrinsics` -/
def linuxIntrinsics : Env :=
  envOf [("TARGET", "x86_64-unknown-linux-gnu"), ("CARGO_CFG_TARGET_OS", "linux"), ("CARGO_CFG_TARGET_ENDIAN", "little"),
    ("CARGO_FEATURE_PREFER_INTRINSICS", "1")] .YesAVX512 false

example : (main linuxIntrinsics).events?.map sigOf =
    some (["blake3_sse2_rust", "blake3_sse41_rust", "blake3_avx2_rust", "blake3_avx512_ffi"], ["c/blake3_avx512.c"]) ∧
    flavourOf linuxIntrinsics = ⟨.rustC512, .unix, false, false⟩ := by decide

/-- Windows-MSVC target, `cl` is not the assembler in use (`use_msvc_asm()` false, e.g. clang-cl): the GNU-syntax files -/
def windowsMsvcNoMasm : Env :=
  envOf [("TARGET", "x86_64-pc-windows-msvc"), ("CARGO_CFG_TARGET_OS", "windows"), ("CARGO_CFG_TARGET_ENDIAN", "little")] .YesAVX512 false

example : flavourOf windowsMsvcNoMasm = ⟨.asm512, .windowsGnu, false, false⟩ ∧ cargoOk windowsMsvcNoMasm = true ∧
    (main windowsMsvcNoMasm).events?.map compiles = some
      [("blake3_sse2_sse41_avx2_assembly", ⟨["c/blake3_sse2_x86-64_windows_gnu.S", "c/blake3_sse41_x86-64_windows_gnu.S",
          "c/blake3_avx2_x86-64_windows_gnu.S"], [], false⟩),
       ("blake3_avx512_assembly", ⟨["c/blake3_avx512_x86-64_windows_gnu.S"], ["-mavx512f", "-mavx512vl"], false⟩)] := by decide

/-- Windows-MSVC target without any C compiler: pure Rust -/
def windowsMsvcNoCompiler : Env :=
  envOf [("TARGET", "x86_64-pc-windows-msvc"), ("CARGO_CFG_TARGET_OS", "windows"), ("CARGO_CFG_TARGET_ENDIAN", "little")] .NoCompiler true

example : flavourOf windowsMsvcNoCompiler = ⟨.rust, .windowsMsvc, false, false⟩ ∧
    (main windowsMsvcNoCompiler).events?.map sigOf = some (["blake3_sse2_rust", "blake3_sse41_rust", "blake3_avx2_rust"], []) := by decide

/-- Windows-MSVC with MASM -/
def windowsMsvcMasm : Env :=
  envOf [("TARGET", "x86_64-pc-windows-msvc"), ("CARGO_CFG_TARGET_OS", "windows"), ("CARGO_CFG_TARGET_ENDIAN", "little")] .YesAVX512 true

example : flavourOf windowsMsvcMasm = ⟨.asm512, .windowsMsvc, false, false⟩ := by decide

/-- 32-bit x86, AArch64 (NEON by default), Wasm with `wasm32_simd`, a two-component triple -/
example : flavourOf (envOf [("TARGET", "i686-unknown-linux-gnu"), ("CARGO_CFG_TARGET_OS", "linux"), ("CARGO_CFG_TARGET_ENDIAN", "little")]
    .YesAVX512 false) = ⟨.rustC512, .unix, false, false⟩ := by decide
example : (main (envOf [("TARGET", "aarch64-apple-darwin"), ("CARGO_CFG_TARGET_OS", "macos"), ("CARGO_CFG_TARGET_ENDIAN", "little")]
    .YesAVX512 false)).events?.map sigOf = some (["blake3_neon"], ["c/blake3_neon.c"]) := by decide
example : (main (envOf [("TARGET", "wasm32-wasip1"), ("CARGO_CFG_TARGET_OS", "wasi"), ("CARGO_CFG_TARGET_ENDIAN", "little"),
    ("CARGO_FEATURE_WASM32_SIMD", "1")] .NoCompiler false)).events?.map sigOf = some (["blake3_wasm32_simd"], []) := by decide
/-- the three rejected combinations, and a malformed `TARGET` -/
example : main (envOf [("TARGET", "aarch64-unknown-linux-gnu"), ("CARGO_CFG_TARGET_OS", "linux"), ("CARGO_CFG_TARGET_ENDIAN", "little"),
    ("CARGO_FEATURE_PURE", "1"), ("CARGO_FEATURE_NEON", "1")] .YesAVX512 false) =
    .panic "It doesn't make sense to enable both \"pure\" and \"neon\"." := by decide
example : main (envOf [("TARGET", "aarch64_be-unknown-linux-gnu"), ("CARGO_CFG_TARGET_OS", "linux"), ("CARGO_CFG_TARGET_ENDIAN", "big"),
    ("CARGO_FEATURE_NEON", "1")] .YesAVX512 false) = .panic "The NEON implementation doesn't support big-endian ARM." := by decide
example : main (envOf [("TARGET", "x86_64"), ("CARGO_CFG_TARGET_OS", "linux"), ("CARGO_CFG_TARGET_ENDIAN", "little")] .YesAVX512 false) =
    .panic "!is_windows_msvc() panicked" := by decide

/-- **The `arch` clause of `Configured` is needed** (a finding): for the tier-3 target `x86_64h-apple-darwin` rustc sets
`target_arch = "x86_64"` but build.rs compares the first component of the triple with `x86_64`, takes neither the x86 branch nor any
other, and emits nothing; the crate then has the variant `Platform::SSE2` and its arms but no module `sse2`: it does not compile. -/
def haswellDarwin : Env :=
  envOf [("TARGET", "x86_64h-apple-darwin"), ("CARGO_CFG_TARGET_OS", "macos"), ("CARGO_CFG_TARGET_ENDIAN", "little")] .YesAVX512 false

example : (main haswellDarwin).events?.map sigOf = some ([], []) ∧ isX86 haswellDarwin = false ∧
    (let b := buildOf ["unix"] "x86_64"
     (∀ n ∈ main_all_cfgs, b.flag n = false) ∧ 1 ≤ countTrue b (variantGates "SSE2") ∧ countTrue b (modGates "sse2") = 0) := by
  decide

end B3.Proofs.BuildCfg
